(* Task PD, part 2: RegenerateID on a fault-free state — what it returns, draws,
   sets as cookie, and leaves in heap, cache, store and the clean-up queue
   (C04 for regenerate, C05_pending). *)
From Sessions Require Import Model.Base Model.Sess Model.Hist Proofs.SessDefs Proofs.RotateLaws.
From Coq Require Import Lia.

(* the session's record after an ID change at instant t; the record left under
   the replaced ID, naming the new ID j *)
Definition rot_rec (r : rec) (t : Z) : rec := set_access (set_created r t) t.
Definition ref_rec (r : rec) (t : Z) (j : key) : rec := mkRec t t (r_ip r) (r_ua r) (Some j) None None.

Record regen_post (s : st) (o : nat) (ob : obj) (s' : st) : Prop := mkRegenPost {
  rg_heap : heap s' = replace_nth (heap s) o (mkObj (KGen (supply s)) (rot_rec (o_rec ob) (now s)))
                      ++ [mkObj (o_id ob) (ref_rec (o_rec ob) (now s) (KGen (supply s)))];
  rg_graves : graves s' = graves s;
  rg_pending : pending s' = pending s ++ [((now s + c_grace (conf s))%Z, o_id ob)];
  rg_now : now s' = now s;
  rg_supply : supply s' = (supply s + 1)%N;
  rg_conf : conf s' = conf s;
  rg_plan : plan s' = [];
  rg_evs : exists l, evs s' = l ++ EvDraw (supply s) :: evs s /\ Forall is_save l;
  rg_ndc : NoDup (map fst (cache s'));
  rg_nds : NoDup (map fst (store s)) -> NoDup (map fst (store s'));
  rg_store_new : lookup (store s') (KGen (supply s)) = Some (codec (conf s) (rot_rec (o_rec ob) (now s)));
  rg_store_old : lookup (store s') (o_id ob) =
                 Some (codec (conf s) (ref_rec (o_rec ob) (now s) (KGen (supply s))));
  rg_cache_new : lookup (cache s') (KGen (supply s)) = Some o \/ lookup (cache s') (KGen (supply s)) = None;
  rg_cache_old : lookup (cache s') (o_id ob) = Some (length (heap s)) \/ lookup (cache s') (o_id ob) = None;
  rg_sub : forall e, In e (cache s') ->
           In e (cache s) \/ e = (KGen (supply s), o) \/ e = (o_id ob, length (heap s));
  rg_keys : forall k, k <> o_id ob -> k <> KGen (supply s) -> key_kept s s' k \/ key_flushed s s' k }.

Lemma replace_nth_app {A} (l : list A) x n v : n < length l ->
  replace_nth (l ++ x) n v = replace_nth l n v ++ x.
Proof.
  revert n; induction l as [|y l IH]; intros [|n] H; simpl in *; try lia; [reflexivity|].
  rewrite IH by lia. reflexivity.
Qed.

Lemma replace_nth_snoc {A} (l : list A) x v : replace_nth (l ++ [x]) (length l) v = l ++ [v].
Proof. induction l as [|y l IH]; simpl; [reflexivity | rewrite IH; reflexivity]. Qed.

Lemma replace_nth_twice {A} (l : list A) n v w : replace_nth (replace_nth l n v) n w = replace_nth l n w.
Proof. revert n; induction l as [|y l IH]; intros [|n]; simpl; try reflexivity. rewrite IH. reflexivity. Qed.

Lemma regenerate_ff s o ob :
  plan s = [] -> NoDup (map fst (cache s)) -> cache_heap s -> hget s o = Some ob ->
  lookup (cache s) (KGen (supply s)) = None -> o_id ob <> KGen (supply s) ->
  exists s', regenerate s o = (s', Ok tt, [CkLive (KGen (supply s))]) /\ regen_post s o ob s'.
Proof.
  intros Hp Hnd Hh Hg Hfresh Hold.
  pose proof (hget_Some_lt _ _ _ Hg) as Hlt.
  unfold regenerate. rewrite Hg. unfold gen_id. cbn [now log set_supply set_evs].
  set (j := KGen (supply s)) in *.
  set (sA := log (set_supply s (supply s + 1)%N) (EvDraw (supply s))).
  set (obN := mkObj j (set_created (o_rec ob) (now s))).
  set (sB := hput sA o obN).
  assert (HgB : hget sB o = Some obN) by (apply hget_hput_same; exact Hlt).
  destruct (cache_set_ff sB o obN Hp Hnd HgB) as [Hok1 P1].
  assert (HhB : cache_heap sB).
  { intros k o' H. destruct (Nat.eq_dec o o') as [<-|Hne]; [eexists; exact HgB|].
    destruct (Hh k o' H) as [ob' Hg']. exists ob'. unfold sB. rewrite hget_hput_other; assumption. }
  pose proof (cache_set_zero sB o obN Hp Hnd HgB HhB) as Hz1.
  destruct (cache_set sB o) as [sC ok1]. cbn [fst snd] in *. subst ok1. cbn [negb].
  destruct P1 as [C1h C1g C1p C1n C1su C1c C1pl [l1 [C1e C1l]] C1ndc C1nds C1st C1ca C1sub C1k].
  cbn [o_id o_rec obN] in *. change (now sB) with (now s) in *. change (conf sB) with (conf s) in *.
  change (heap sB) with (replace_nth (heap s) o obN) in C1h.
  rewrite replace_nth_twice in C1h. unfold touch in C1h. cbn [o_id o_rec obN] in C1h.
  fold (rot_rec (o_rec ob) (now s)) in C1h, C1st.
  set (ob2 := mkObj j (rot_rec (o_rec ob) (now s))) in *.
  assert (HgC : hget sC o = Some ob2).
  { unfold hget. rewrite C1h. apply nth_replace_nth_same. exact Hlt. }
  rewrite HgC. cbn [o_rec ob2]. rewrite C1n.
  change (mkRec (r_created (rot_rec (o_rec ob) (now s))) (now s) (r_ip (rot_rec (o_rec ob) (now s)))
                (r_ua (rot_rec (o_rec ob) (now s))) (Some j) None None)
    with (ref_rec (o_rec ob) (now s) j).
  set (obR := mkObj (o_id ob) (ref_rec (o_rec ob) (now s) j)).
  unfold halloc.
  set (sD := set_heap sC (heap sC ++ [obR])).
  assert (HlenC : length (heap sC) = length (heap s)) by (rewrite C1h; apply replace_nth_length).
  assert (HgD : hget sD (length (heap sC)) = Some obR).
  { unfold hget, sD. cbn. rewrite nth_error_app2 by lia. rewrite Nat.sub_diag. reflexivity. }
  destruct (cache_set_ff sD (length (heap sC)) obR C1pl C1ndc HgD) as [Hok2 P2].
  destruct (cache_set sD (length (heap sC))) as [sE ok2]. cbn [fst snd] in *. subst ok2. cbn [negb].
  destruct P2 as [C2h C2g C2p C2n C2su C2c C2pl [l2 [C2e C2l]] C2ndc C2nds C2st C2ca C2sub C2k].
  cbn [o_id o_rec obR] in *.
  change (now sD) with (now sC) in *. change (conf sD) with (conf sC) in *.
  change (heap sD) with (heap sC ++ [obR]) in C2h.
  change (cache sD) with (cache sC) in *. change (store sD) with (store sC) in *.
  rewrite C1n in *. rewrite C1c in *.
  assert (Ht : touch obR (now s) = obR) by reflexivity. rewrite Ht in C2h.
  rewrite replace_nth_snoc in C2h.
  assert (Eg : graves sE = graves s) by (rewrite C2g; exact C1g).
  assert (Epd : pending sE = pending s) by (rewrite C2p; exact C1p).
  assert (Esu : supply sE = (supply s + 1)%N) by (rewrite C2su; exact C1su).
  assert (Eh : heap sE = replace_nth (heap s) o ob2 ++ [obR]) by (rewrite C2h, C1h; reflexivity).
  assert (Hjo : j <> o_id ob) by congruence.
  eexists. split; [rewrite C2n, C2c; reflexivity|].
  constructor; cbn [heap graves pending now supply conf plan evs cache store set_pending]; fold j.
  - exact Eh.
  - exact Eg.
  - rewrite Epd. reflexivity.
  - exact C2n.
  - exact Esu.
  - exact C2c.
  - exact C2pl.
  - rewrite C2e. change (evs sD) with (evs sC). rewrite C1e.
    exists (l2 ++ l1). split; [rewrite <- app_assoc; reflexivity | apply Forall_app; split; assumption].
  - exact C2ndc.
  - intro H. apply C2nds. apply C1nds. exact H.
  - (* store at the new ID: written by the first cache_set, kept or re-flushed by the second *)
    destruct (C2k j Hjo) as [[_ K]|[_ [o' [ob' [K2 [K3 K4]]]]]].
    + rewrite K. exact C1st.
    + rewrite K4. rewrite C2c.
      destruct C1ca as [[_ Hc]|[Hzero _]].
      * change (cache sD) with (cache sC) in K2.
        assert (o' = o) by congruence. subst o'.
        assert (hget sE o = Some ob2).
        { unfold hget. rewrite C2h. rewrite nth_error_app1 by lia. exact HgC. }
        assert (ob' = ob2) by congruence. subst ob'. reflexivity.
      * change (cache sD) with (cache sC) in K2. rewrite (Hz1 Hzero) in K2. discriminate.
  - exact C2st.
  - destruct (C2k j Hjo) as [[K _]|[K _]]; [|right; exact K].
    rewrite K. change (cache sD) with (cache sC).
    destruct C1ca as [[_ Hc]|[Hzero _]]; [left; exact Hc|].
    right. rewrite (Hz1 Hzero). reflexivity.
  - destruct C2ca as [[_ Hc]|[Hzero [Hc|Hc]]].
    + left. rewrite <- HlenC. exact Hc.
    + right. rewrite Hc, (Hz1 Hzero). reflexivity.
    + right. exact Hc.
  - intros e H. apply C2sub in H as [H|H].
    + apply C1sub in H as [H|H]; [left; exact H | right; left; exact H].
    + right; right. rewrite <- HlenC. exact H.
  - intros k Hko Hkj. unfold key_kept, key_flushed.
    cbn [heap graves pending now supply conf plan evs cache store set_pending hget].
    destruct (C1k k Hkj) as [[A1 A2]|[A1 [ox1 [oba [A2 [A3 A4]]]]]];
      destruct (C2k k Hko) as [[B1 B2]|[B1 [ox2 [obb [B2 [B3 B4]]]]]].
    + left. split; [rewrite B1; exact A1 | rewrite B2; exact A2].
    + right. split; [exact B1|]. exists ox2, obb. split; [|split; [exact B3 | exact B4]].
      change (cache sD) with (cache sC) in B2. rewrite A1 in B2. exact B2.
    + right. split; [rewrite B1; exact A1|]. exists ox1, oba. split; [exact A2|]. split.
      * unfold hget in *. cbn [heap set_pending]. rewrite C2h. rewrite nth_error_app1; [exact A3|].
        apply nth_error_Some. congruence.
      * rewrite B2. change (store sD) with (store sC). rewrite A4, C2c, C1c. reflexivity.
    + change (cache sD) with (cache sC) in B2. congruence.
Qed.

(* ------------------------------------------------- freshness of the next ID *)

Lemma fresh_cache_none s : fresh_ok s -> lookup (cache s) (KGen (supply s)) = None.
Proof.
  intros [H _]. destruct (lookup (cache s) (KGen (supply s))) as [v|] eqn:E; [|reflexivity].
  apply lookup_In in E. apply H in E. cbn in E. lia.
Qed.

Lemma fresh_store_none s : fresh_ok s -> lookup (store s) (KGen (supply s)) = None.
Proof.
  intros [_ [H _]]. destruct (lookup (store s) (KGen (supply s))) as [v|] eqn:E; [|reflexivity].
  apply lookup_In in E. apply H in E as [E _]. cbn in E. lia.
Qed.

Lemma fresh_obj_id s o ob : fresh_ok s -> hget s o = Some ob -> o_id ob <> KGen (supply s).
Proof.
  intros [_ [_ [H _]]] Hg E. apply H in Hg as [Hg _]. rewrite E in Hg. cbn in Hg. lia.
Qed.

(* ---------------------------------------------------------------- draws *)

Definition draws (l : list ev) : list N :=
  flat_map (fun e => match e with EvDraw n => [n] | _ => [] end) l.

Lemma draws_saves l : Forall is_save l -> draws l = [].
Proof.
  induction 1 as [|e l He _ IH]; [reflexivity|].
  destruct e; try contradiction. exact IH.
Qed.

Lemma draws_app a b : draws (a ++ b) = draws a ++ draws b.
Proof. apply flat_map_app. Qed.

(* ---------------------------------------- C04 for RegenerateID, in terms of L *)

Definition cached (s : st) (k : key) : bool := has (cache s) k.

Lemma L_cached s k o ob : lookup (cache s) k = Some o -> hget s o = Some ob -> L s k = Some (o_rec ob).
Proof. intros H1 H2. unfold L. rewrite H1, H2. reflexivity. Qed.

Lemma L_uncached s k : lookup (cache s) k = None -> L s k = lookup (store s) k.
Proof. intros H. unfold L. rewrite H. reflexivity. Qed.

(* what regen_post says in terms of L *)
Lemma regen_post_view s o ob s' :
  hget s o = Some ob -> regen_post s o ob s' ->
  let j := KGen (supply s) in
  let t := now s in
  draws (evs s') = supply s :: draws (evs s) /\
  supply s' = (supply s + 1)%N /\
  hget s' o = Some (mkObj j (rot_rec (o_rec ob) t)) /\
  L s' j = Some (if cached s' j then rot_rec (o_rec ob) t else codec (conf s) (rot_rec (o_rec ob) t)) /\
  L s' (o_id ob) = Some (if cached s' (o_id ob) then ref_rec (o_rec ob) t j
                         else codec (conf s) (ref_rec (o_rec ob) t j)) /\
  lookup (store s') j = Some (codec (conf s) (rot_rec (o_rec ob) t)) /\
  lookup (store s') (o_id ob) = Some (codec (conf s) (ref_rec (o_rec ob) t j)) /\
  pending s' = pending s ++ [((t + c_grace (conf s))%Z, o_id ob)].
Proof.
  intros Hg P j t.
  pose proof (hget_Some_lt _ _ _ Hg) as Hlt.
  assert (Ho : hget s' o = Some (mkObj j (rot_rec (o_rec ob) t))).
  { unfold hget. rewrite (rg_heap _ _ _ _ P). rewrite nth_error_app1 by (rewrite replace_nth_length; exact Hlt).
    apply nth_replace_nth_same. exact Hlt. }
  assert (Hr : hget s' (length (heap s)) = Some (mkObj (o_id ob) (ref_rec (o_rec ob) t j))).
  { unfold hget. rewrite (rg_heap _ _ _ _ P). rewrite nth_error_app2 by (rewrite replace_nth_length; lia).
    rewrite replace_nth_length, Nat.sub_diag. reflexivity. }
  repeat split.
  - destruct (rg_evs _ _ _ _ P) as [l [El Hl]]. rewrite El, draws_app, (draws_saves l Hl). reflexivity.
  - exact (rg_supply _ _ _ _ P).
  - exact Ho.
  - unfold cached, has. destruct (rg_cache_new _ _ _ _ P) as [Hc|Hc]; fold j in Hc; rewrite Hc.
    + apply (L_cached s' j o _ Hc Ho).
    + rewrite (L_uncached s' j Hc). exact (rg_store_new _ _ _ _ P).
  - unfold cached, has. destruct (rg_cache_old _ _ _ _ P) as [Hc|Hc]; rewrite Hc.
    + apply (L_cached s' _ _ _ Hc Hr).
    + rewrite (L_uncached s' _ Hc). exact (rg_store_old _ _ _ _ P).
  - exact (rg_store_new _ _ _ _ P).
  - exact (rg_store_old _ _ _ _ P).
  - exact (rg_pending _ _ _ _ P).
Qed.

Theorem regenerate_C04 s o ob :
  plan s = [] -> cache_ok s -> nodup_ok s -> fresh_ok s -> hget s o = Some ob ->
  let j := KGen (supply s) in
  let t := now s in
  exists s',
    regenerate s o = (s', Ok tt, [CkLive j]) /\
    draws (evs s') = supply s :: draws (evs s) /\
    supply s' = (supply s + 1)%N /\
    hget s' o = Some (mkObj j (rot_rec (o_rec ob) t)) /\
    L s' j = Some (if cached s' j then rot_rec (o_rec ob) t else codec (conf s) (rot_rec (o_rec ob) t)) /\
    L s' (o_id ob) = Some (if cached s' (o_id ob) then ref_rec (o_rec ob) t j
                           else codec (conf s) (ref_rec (o_rec ob) t j)) /\
    lookup (store s') j = Some (codec (conf s) (rot_rec (o_rec ob) t)) /\
    lookup (store s') (o_id ob) = Some (codec (conf s) (ref_rec (o_rec ob) t j)) /\
    pending s' = pending s ++ [((t + c_grace (conf s))%Z, o_id ob)].
Proof.
  intros Hp Hco [Hndc Hnds] Hf Hg j t.
  destruct (regenerate_ff s o ob Hp Hndc (cache_ok_heap s Hco Hndc) Hg (fresh_cache_none s Hf)
              (fresh_obj_id s o ob Hf Hg)) as [s' [E P]].
  exists s'. split; [exact E|]. exact (regen_post_view s o ob s' Hg P).
Qed.

(* the session's content survives: same data and user, no reference *)
Lemma rot_rec_same r t :
  r_data (rot_rec r t) = r_data r /\ r_user (rot_rec r t) = r_user r /\ r_ref (rot_rec r t) = r_ref r /\
  r_created (rot_rec r t) = t /\ r_access (rot_rec r t) = t /\
  r_ip (rot_rec r t) = r_ip r /\ r_ua (rot_rec r t) = r_ua r.
Proof. repeat split. Qed.

Lemma ref_rec_shape r t j :
  r_ref (ref_rec r t j) = Some j /\ r_user (ref_rec r t j) = None /\ r_data (ref_rec r t j) = None /\
  r_created (ref_rec r t j) = t /\ r_access (ref_rec r t j) = t /\
  forall c, r_ref (codec c (ref_rec r t j)) = Some j /\ r_user (codec c (ref_rec r t j)) = None /\
            r_data (codec c (ref_rec r t j)) = Some [] /\
            r_created (codec c (ref_rec r t j)) = r_access (codec c (ref_rec r t j)).
Proof. repeat split. Qed.

(* C05_pending: the clean-up of the replaced ID is queued for now + grace *)
Theorem regenerate_pending s o ob s' res cks :
  plan s = [] -> cache_ok s -> nodup_ok s -> fresh_ok s -> hget s o = Some ob ->
  regenerate s o = (s', res, cks) ->
  res = Ok tt /\ pending s' = pending s ++ [((now s + c_grace (conf s))%Z, o_id ob)].
Proof.
  intros Hp Hco Hnd Hf Hg E.
  destruct (regenerate_C04 s o ob Hp Hco Hnd Hf Hg) as [s2 [E2 H]].
  rewrite E in E2. injection E2 as -> -> ->. split; [reflexivity|]. apply H.
Qed.

(* -------------------------------------------------------------- examples *)

Definition cfg_ex (mx : Z) (json : bool) : cfg := mkCfg 1000 0 500 max64 mx 1 true json.
Definition req_ex (c : cval) : request := mkReq c true (V4 1 2 3 4 5) 7.

(* a state with one session KGen 0, cached (mx <> 0) or only stored (mx = 0) *)
Definition st_ex (mx : Z) (json : bool) : st :=
  let '(s, _, _) := start (init_st (cfg_ex mx json)) (req_ex CNone) in set_now s 1234567890123.

Example regenerate_ex_cached :
  let s := st_ex 10 true in
  exists s', regenerate s 0 = (s', Ok tt, [CkLive (KGen 1)]) /\
    cached s' (KGen 1) = true /\ cached s' (KGen 0) = true /\
    option_map r_ref (L s' (KGen 0)) = Some (Some (KGen 1)) /\
    option_map r_data (L s' (KGen 1)) = Some (Some []) /\
    pending s' = [(1234567890623%Z, KGen 0)].
Proof. vm_compute. eexists. repeat split. Qed.

Example regenerate_ex_size1 :
  let s := st_ex 1 true in
  exists s', regenerate s 0 = (s', Ok tt, [CkLive (KGen 1)]) /\
    cached s' (KGen 1) = false /\ cached s' (KGen 0) = true /\
    option_map r_created (L s' (KGen 1)) = Some 1234000000000%Z /\
    draws (evs s') = [1; 0]%N.
Proof. vm_compute. eexists. repeat split. Qed.
