(* Task PF, C08: what LogIn, LogOut, LogOut(userID) and RefreshUser do to the
   user field, in memory and in the store. Per call, fault-free. *)
From Sessions Require Import Model.Base Model.Sess Model.Hist Proofs.SessDefs Proofs.HistInv Proofs.HistInv2 Proofs.HistInv3.
From Coq Require Import Lia.

(* ------------------------- a condition on the user under one ID *)

Section Ust.
  (* Ps: what stored records under the ID satisfy; Pm: what the cached object
     satisfies; a flush turns the second into the first. *)
  Variables (Ps Pm : option user -> Prop).
  Hypothesis Pcodec : forall c r, Pm (r_user r) -> Ps (r_user (codec c r)).

  Definition ustS (s : st) (k : key) : Prop := forall r, lookup (store s) k = Some r -> Ps (r_user r).
  Definition ustM (s : st) (k : key) : Prop :=
    forall o ob, lookup (cache s) k = Some o -> hget s o = Some ob -> Pm (r_user (o_rec ob)).
  Definition ust (s : st) (k : key) : Prop := ustS s k /\ ustM s k.

  Lemma ust_flush1 s k0 o0 ob0 k : lookup (cache s) k0 = Some o0 -> hget s o0 = Some ob0 ->
    ust s k -> ust (flush1 s k0 ob0) k.
  Proof.
    intros Hl Ho [HS HM]. unfold flush1, saved. split.
    - intros r. sst. destruct (key_eq_dec k k0) as [->|Hne].
      + rewrite lookup_upsert_same. intro E. injection E as <-. apply Pcodec. apply (HM o0 ob0 Hl Ho).
      + rewrite lookup_upsert_other by exact Hne. apply HS.
    - intros o ob. sst. destruct (key_eq_dec k k0) as [->|Hne]; [rewrite lookup_remove_same; discriminate|].
      rewrite lookup_remove_other by exact Hne. apply HM.
  Qed.

  Lemma ust_flushes s s' k : flushes s s' -> ust s k -> ust s' k.
  Proof. induction 1; intro Hu; [exact Hu|]. apply IHflushes. eapply ust_flush1; eassumption. Qed.

  Lemma ust_compact s req k : ffnd s -> ust s k -> ust (compact s req) k.
  Proof. intros F. apply ust_flushes. apply compact_flushes. exact F. Qed.

  (* states that agree on cache and store and whose heaps agree on cached objects *)
  Lemma ust_same s s' k : cache s' = cache s -> store s' = store s ->
    (forall o ob, lookup (cache s) k = Some o -> hget s' o = Some ob -> hget s o = Some ob) ->
    ust s k -> ust s' k.
  Proof.
    intros Hc Hs Hh [HS HM]. split.
    - intros r. rewrite Hs. apply HS.
    - intros o ob. rewrite Hc. intros Hl Ho. apply (HM o ob Hl). apply Hh; assumption.
  Qed.

  Lemma ust_halloc s v k : cache_valid s -> ust s k -> ust (fst (halloc s v)) k.
  Proof.
    intros Hv. apply ust_same; try reflexivity. intros o ob Hl Ho.
    destruct (hget s o) as [ob0|] eqn:E; [|exfalso; eapply Hv; eauto].
    rewrite hget_halloc_old in Ho by (eapply hget_Some_lt; exact E). congruence.
  Qed.

  (* replacing an object that is not the one cached under k *)
  Lemma ust_hput_other s o v k : lookup (cache s) k <> Some o -> ust s k -> ust (hput s o v) k.
  Proof.
    intros Hne. apply ust_same; try reflexivity. intros o' ob Hl Ho. rewrite hget_hput in Ho.
    destruct (Nat.eqb o o') eqn:E; [apply Nat.eqb_eq in E; subst o'; contradiction | exact Ho].
  Qed.

  Lemma ust_hupd_other s o f k : lookup (cache s) k <> Some o -> ust s k -> ust (hupd s o f) k.
  Proof. intros Hne H. unfold hupd. destruct (hget s o); [apply ust_hput_other; assumption | exact H]. Qed.

  Lemma ust_saved_other s k0 r k : k <> k0 -> ust s k -> ust (saved s k0 r) k.
  Proof.
    intros Hne [HS HM]. split; [|exact HM]. intros r'. unfold saved. sst.
    rewrite lookup_upsert_other by exact Hne. apply HS.
  Qed.

  Lemma ust_upsert_other s k0 o0 k : k <> k0 -> ust s k -> ust (set_cache s (upsert (cache s) k0 o0)) k.
  Proof.
    intros Hne [HS HM]. split; [exact HS|]. intros o ob. sst. rewrite lookup_upsert_other by exact Hne. apply HM.
  Qed.

  (* cache.Set of object o leaves the condition alone under every other ID whose
     cached object is not o ... *)
  Lemma ust_cset_other s o ob k : ffnd s -> hget s o = Some ob -> k <> o_id ob ->
    lookup (cache s) k <> Some o -> ust s k -> ust (cset s o ob) k.
  Proof.
    intros F Ho Hne Hno H. rewrite cset_eq. apply ust_saved_other; [exact Hne|]. unfold cset_mid.
    assert (H1 : ust (hput s o (touched s ob)) k) by (apply ust_hput_other; assumption).
    assert (F1 : ffnd (hput s o (touched s ob))) by exact F.
    pose proof (ust_compact _ (if has (cache (hput s o (touched s ob))) (o_id ob) then 0 else 1)%Z k F1 H1) as H2.
    destruct (c_maxcache _ =? 0)%Z; [exact H2 | apply ust_upsert_other; assumption].
  Qed.

  (* ... and establishes it under o's own ID when o satisfies it *)
  Lemma ust_cset_own b base X D s o ob : inv b base X D s -> hget s o = Some ob ->
    Pm (r_user (o_rec ob)) -> ust (cset s o ob) (o_id ob).
  Proof.
    intros I Ho HP. assert (F : ffnd s) by (eapply inv_ffnd; exact I). split.
    - intros r. rewrite cset_eq. unfold saved. sst. rewrite lookup_upsert_same. intro E. injection E as <-.
      apply Pcodec. exact HP.
    - intros o' ob' Hl Ho'. apply (cset_cache_own _ _ _ _ _ _ _ _ I Ho) in Hl. subst o'.
      rewrite (hget_cset _ _ _ _ F Ho), Nat.eqb_refl in Ho'. injection Ho' as <-. exact HP.
  Qed.

  Lemma ust_loaded_other s k0 r es k : ffnd s -> cache_valid s -> k <> k0 -> ust s k -> ust (loaded s k0 r es) k.
  Proof.
    intros F Hv Hne H. rewrite loaded_eq. cbv zeta.
    assert (H1 : ust (fst (halloc (set_evs s (es ++ evs s)) (mkObj k0 r))) k).
    { apply ust_halloc; [exact Hv|]. revert H. apply ust_same; try reflexivity. intros; assumption. }
    destruct (c_maxcache (conf s) =? 0)%Z; [exact H1|].
    apply ust_upsert_other; [exact Hne|]. apply ust_compact; [exact F | exact H1].
  Qed.

  Lemma ust_cache_get_other s k0 k : ffnd s -> cache_valid s -> k <> k0 -> ust s k -> ust (fst (cache_get s k0)) k.
  Proof.
    intros F Hv Hne H. pose proof (cache_get_ff s k0 (proj1 F)) as Hff.
    destruct (lookup (cache s) k0); [rewrite Hff; exact H|].
    destruct Hff as [es [_ Hff]]. destruct (lookup (store s) k0) as [r|]; rewrite Hff; cbn [fst].
    - apply ust_loaded_other; assumption.
    - revert H. apply ust_same; try reflexivity. intros; assumption.
  Qed.

  (* nothing recorded under k: the condition holds vacuously *)
  Lemma ust_absent s k : lookup (cache s) k = None -> lookup (store s) k = None -> ust s k.
  Proof. intros Hc Hs. split; [intros r E | intros o ob E _]; congruence. Qed.
End Ust.

(* --------------------------- the loop of LogOut(userID) / RefreshUser *)

Section Loop.
  Variables (Ps Pm : option user -> Prop).
  Hypothesis Pcodec : forall c r, Pm (r_user r) -> Ps (r_user (codec c r)).
  Variable u : option user.
  Hypothesis Hu : Pm u.

  Lemma cached_not b base D s k o ob : inv b base NX D s -> hget s o = Some ob -> k <> o_id ob ->
    lookup (cache s) k <> Some o.
  Proof.
    intros I Ho Hne Hl. destruct (i_cok _ _ _ _ _ I k o Hl) as [ob' [Ho' [Hid|[]]]]. congruence.
  Qed.

  (* every listed ID ends up satisfying the condition; IDs that satisfied it
     before keep it *)
  Lemma eus_ust b base D : forall ids s k, inv b base NX D s ->
    (In k ids \/ ust Ps Pm s k) -> ust Ps Pm (fst (each_user_session s ids u)) k.
  Proof.
    induction ids as [|k0 t IH]; intros s k I H; cbn [each_user_session].
    - destruct H as [[]|H]. exact H.
    - assert (F : ffnd s) by (eapply inv_ffnd; exact I).
      pose proof (inv_cache_valid _ _ _ _ _ I) as Hv.
      destruct (cache_get_inv _ _ _ _ _ k0 I) as (s1 & r & E & I1 & Hr).
      pose proof (ust_cache_get_other Ps Pm Pcodec s k0 k F Hv) as Hother. rewrite E in *. cbn [fst] in Hother.
      destruct r as [o|].
      + destruct Hr as [Hbo [ob (Ho & [Hid|[]] & HnD & _)]].
        assert (H1 : hok b D s1 o) by (split; [exact Hbo | exists ob; split; assumption]).
        destruct (inv_hupd_hok _ _ _ _ o (fun r => set_user r u) I1 H1) as [I2 _]; [reflexivity|].
        assert (Ho2 : hget (hupd s1 o (fun r => set_user r u)) o = Some (mkObj (o_id ob) (set_user (o_rec ob) u))).
        { rewrite hget_hupd, Nat.eqb_refl, Ho. reflexivity. }
        assert (F2 : ffnd (hupd s1 o (fun r => set_user r u))) by (eapply inv_ffnd; exact I2).
        rewrite (cache_set_ff _ _ _ F2 Ho2). cbv iota beta.
        apply IH; [apply inv_cset; assumption|].
        destruct (key_eq_dec k k0) as [->|Hne].
        * right. rewrite <- Hid. apply (ust_cset_own Ps Pm Pcodec _ _ _ _ _ _ (mkObj (o_id ob) (set_user (o_rec ob) u)) I2 Ho2). exact Hu.
        * destruct H as [[Heq|Hin]|H]; [congruence | left; exact Hin | right].
          apply ust_cset_other; [exact Pcodec | exact F2 | exact Ho2 | cbn [o_id]; congruence | |].
          -- unfold hupd. rewrite Ho. cbn [cache hput set_heap]. eapply cached_not; [exact I1 | exact Ho | congruence].
          -- apply ust_hupd_other; [eapply cached_not; [exact I1 | exact Ho | congruence] | apply Hother; assumption].
      + apply IH; [exact I1|]. destruct (key_eq_dec k k0) as [->|Hne].
        * right. destruct Hr as [Hcn Hsn]. pose proof (cache_get_ff s k0 (proj1 F)) as Hff. rewrite Hcn, Hsn in Hff.
          destruct Hff as [es [_ Hff]]. rewrite Hff in E. injection E as <-. apply ust_absent; assumption.
        * destruct H as [[Heq|Hin]|H]; [congruence | left; exact Hin | right; apply Hother; assumption].
  Qed.
End Loop.

(* ------------------------------------- RegenerateID and the user field *)

Section Regen.
  Variables (Ps Pm : option user -> Prop).
  Hypothesis Pcodec : forall c r, Pm (r_user r) -> Ps (r_user (codec c r)).

  Lemma ust_set_pending s l k : ust Ps Pm s k -> ust Ps Pm (set_pending s l) k.
  Proof. apply ust_same; try reflexivity. intros; assumption. Qed.

  Lemma regen_ust b base D s o ob : inv b base NX D s -> hget s o = Some ob -> b <= o -> ~ D (o_id ob) ->
    (forall k, k <> o_id ob -> k <> KGen (supply s) -> ust Ps Pm s k -> ust Ps Pm (regen s o ob) k) /\
    (Pm None -> ust Ps Pm (regen s o ob) (o_id ob)) /\
    (Pm (r_user (o_rec ob)) -> ust Ps Pm (regen s o ob) (KGen (supply s))).
  Proof.
    intros I Ho Hbo HnD.
    destruct (regen_invs _ _ _ _ _ _ I Ho Hbo HnD) as (I1 & I2 & I3 & I4 & I5).
    assert (F : ffnd s) by (eapply inv_ffnd; exact I).
    assert (F1 : ffnd (rg_s1 s o ob)) by exact F.
    assert (H1 : hget (rg_s1 s o ob) o = Some (rg_ob1 s ob)).
    { unfold rg_s1. apply hget_hput_same. apply hget_Some_lt in Ho. exact Ho. }
    assert (F3 : ffnd (rg_s3 s o ob)) by (eapply inv_ffnd; exact I3).
    assert (H3 : hget (rg_s3 s o ob) (length (heap (rg_s2 s o ob))) = Some (rg_ref s o ob)).
    { unfold rg_s3. rewrite hget_halloc. rewrite Nat.eqb_refl. reflexivity. }
    assert (Hold : o_id ob <> KGen (supply s)).
    { intro E. destruct (i_fh _ _ _ _ _ I o ob Hbo Ho) as [Hk _]. rewrite E in Hk. simpl in Hk. lia. }
    (* the reference object's index is not in the cache *)
    assert (Hro : forall k, lookup (cache (rg_s3 s o ob)) k <> Some (length (heap (rg_s2 s o ob)))).
    { intros k Hl. change (cache (rg_s3 s o ob)) with (cache (rg_s2 s o ob)) in Hl.
      destruct (i_cok _ _ _ _ _ I2 k _ Hl) as [ob' [Ho' _]]. apply hget_Some_lt in Ho'. lia. }
    assert (Tail : forall k, k <> o_id ob -> ust Ps Pm (rg_s2 s o ob) k -> ust Ps Pm (regen s o ob) k).
    { intros k Hne H2. unfold regen. apply ust_set_pending. unfold rg_s4.
      apply ust_cset_other; [exact Pcodec | exact F3 | exact H3 | exact Hne | apply Hro |].
      unfold rg_s3. apply ust_halloc; [eapply inv_cache_valid; exact I2 | exact H2]. }
    split; [|split].
    - intros k Hne1 Hne2 H. apply Tail; [exact Hne1|]. unfold rg_s2.
      assert (Hno : lookup (cache s) k <> Some o) by (eapply cached_not; [exact I | exact Ho | exact Hne1]).
      apply ust_cset_other; [exact Pcodec | exact F1 | exact H1 | exact Hne2 | exact Hno |].
      unfold rg_s1. apply ust_hput_other; [exact Hno|]. revert H. apply ust_same; try reflexivity. intros; assumption.
    - intro HP. unfold regen. apply ust_set_pending. unfold rg_s4.
      apply (ust_cset_own Ps Pm Pcodec _ _ _ _ _ _ (rg_ref s o ob) I3 H3). exact HP.
    - intro HP. apply Tail; [congruence|]. unfold rg_s2.
      apply (ust_cset_own Ps Pm Pcodec _ _ _ _ _ _ (rg_ob1 s ob) I1 H1). exact HP.
  Qed.
End Regen.

(* ------------------------------------------------- stored keys persist *)

Lemma flushes_store_keeps s s' k : flushes s s' -> lookup (store s) k <> None -> lookup (store s') k <> None.
Proof.
  induction 1; intro Hk; [exact Hk|]. apply IHflushes. unfold flush1, saved. sst.
  destruct (key_eq_dec k k0) as [->|Hne]; [rewrite lookup_upsert_same; discriminate|].
  rewrite lookup_upsert_other by exact Hne. exact Hk.
Qed.

Lemma cset_store_keeps s o ob k : ffnd s -> lookup (store s) k <> None -> lookup (store (cset s o ob)) k <> None.
Proof.
  intros F Hk. rewrite cset_eq. unfold saved. sst.
  destruct (key_eq_dec k (o_id ob)) as [->|Hne]; [rewrite lookup_upsert_same; discriminate|].
  rewrite lookup_upsert_other by exact Hne. unfold cset_mid.
  assert (F1 : ffnd (hput s o (touched s ob))) by exact F.
  pose proof (flushes_store_keeps _ _ k (compact_flushes (hput s o (touched s ob)) (if has (cache (hput s o (touched s ob))) (o_id ob) then 0 else 1)%Z F1) Hk) as H.
  destruct (c_maxcache _ =? 0)%Z; exact H.
Qed.

Lemma cset_store_own s o ob : ffnd s -> lookup (store (cset s o ob)) (o_id ob) <> None.
Proof. intro F. rewrite cset_eq. unfold saved. sst. rewrite lookup_upsert_same. discriminate. Qed.

Lemma regen_store_new s o ob : ffnd s -> hget s o = Some ob -> o_id ob <> KGen (supply s) ->
  lookup (store (regen s o ob)) (KGen (supply s)) <> None.
Proof.
  intros F Ho Hne. unfold regen. sst. unfold rg_s4.
  assert (F1 : ffnd (rg_s1 s o ob)) by exact F.
  apply cset_store_keeps; [unfold rg_s3; apply ffnd_halloc; unfold rg_s2; apply cset_ffnd; exact F1|].
  unfold rg_s3, halloc. sst. unfold rg_s2. apply (cset_store_own _ o (rg_ob1 s ob) F1).
Qed.

(* ---------------------------------------------------- the C08 theorems *)

Definition is_none (x : option user) : Prop := x = None.

(* no user under ID k: neither in the stored record nor in what L resolves to *)
Definition nouser_at (s : st) (k : key) : Prop :=
  (forall r, lookup (store s) k = Some r -> r_user r = None) /\ (forall r, L s k = Some r -> r_user r = None).

Lemma none_codec : forall c r, is_none (r_user r) -> is_none (r_user (codec c r)).
Proof. intros c r H. unfold is_none, codec in *. cbn [r_user]. rewrite H. reflexivity. Qed.

Lemma ust_nouser s k : ust is_none is_none s k -> nouser_at s k.
Proof.
  intros [HS HM]. split; [exact HS|]. intros r. unfold L. destruct (lookup (cache s) k) as [o|] eqn:El; [|apply HS].
  destruct (hget s o) as [ob|] eqn:Ho; [|discriminate]. intro E. injection E as <-. apply (HM o ob El Ho).
Qed.

(* LogOut(userID): never fails, never panics; afterwards no ID the store listed
   for the user carries a user, in memory or in the store. Listed IDs without a
   record (a stale index) are skipped. *)
Theorem logout_user_spec b base D s u : inv b base NX D s ->
  exists s', logout_user s u = (s', Ok tt) /\ inv b base NX D s' /\
    forall k, In k (listed s u) -> nouser_at s' k.
Proof.
  intro I. destruct (logout_user_inv _ _ _ _ u I) as (s' & E & I' & _). exists s'. split; [exact E|]. split; [exact I'|].
  intros k Hin. apply ust_nouser. unfold logout_user in E. rewrite p_usersessions_ff in E by apply (i_plan _ _ _ _ _ I).
  assert (I0 : inv b base NX D (set_evs s ([EvUserSessions u true] ++ evs s))) by (apply inv_quiet; [repeat constructor | exact I]).
  pose proof (eus_ust is_none is_none none_codec None eq_refl b base D (listed s u) _ k I0 (or_introl Hin)) as H.
  rewrite E in H. exact H.
Qed.

Definition is_uid (u : user) (x : option user) : Prop := x = Some (fst u, 0%N).
Definition is_usr (u : user) (x : option user) : Prop := x = Some u.

Lemma usr_codec u : forall c r, is_usr u (r_user r) -> is_uid u (r_user (codec c r)).
Proof. intros c r H. unfold is_usr, is_uid, codec in *. cbn [r_user]. rewrite H. destruct u. reflexivity. Qed.

(* RefreshUser: never fails, never panics; afterwards every listed ID that has a
   record carries the new user object in memory (if cached) and the unchanged
   user ID in the store. *)
Theorem refresh_user_spec b base D s u : inv b base NX D s ->
  exists s', refresh_user s u = (s', Ok tt) /\ inv b base NX D s' /\
    forall k, In k (listed s (fst u)) ->
      (forall r, lookup (store s') k = Some r -> r_user r = Some (fst u, 0%N)) /\
      (forall o ob, lookup (cache s') k = Some o -> hget s' o = Some ob -> r_user (o_rec ob) = Some u).
Proof.
  intro I. destruct (refresh_user_inv _ _ _ _ u I) as (s' & E & I' & _). exists s'. split; [exact E|]. split; [exact I'|].
  intros k Hin. unfold refresh_user in E. rewrite p_usersessions_ff in E by apply (i_plan _ _ _ _ _ I).
  assert (I0 : inv b base NX D (set_evs s ([EvUserSessions (fst u) true] ++ evs s))) by (apply inv_quiet; [repeat constructor | exact I]).
  pose proof (eus_ust (is_uid u) (is_usr u) (usr_codec u) (Some u) eq_refl b base D (listed s (fst u)) _ k I0 (or_introl Hin)) as H.
  rewrite E in H. exact H.
Qed.

(* Session.LogOut on a live handle: never fails; the object carries no user; if it
   carried one, the record saved under its ID carries none. *)
Theorem logout_spec b base D s o ob : inv b base NX D s -> b <= o -> hget s o = Some ob -> ~ D (o_id ob) ->
  exists s' ob', logout s o = (s', Ok tt) /\ inv b base NX D s' /\ hget s' o = Some ob' /\
    o_id ob' = o_id ob /\ r_user (o_rec ob') = None /\
    (r_user (o_rec ob) = None -> s' = s) /\
    (r_user (o_rec ob) <> None ->
       lookup (store s') (o_id ob) = Some (codec (conf s) (set_user (o_rec ob) None))).
Proof.
  intros I Hbo Ho HnD. assert (H : hok b D s o) by (split; [exact Hbo | exists ob; split; assumption]).
  unfold logout. rewrite Ho. destruct (r_user (o_rec ob)) as [v|] eqn:Eu.
  - destruct (inv_hupd_hok _ _ _ _ o (fun r => set_user r None) I H) as [I1 H1]; [reflexivity|].
    assert (Ho1 : hget (hupd s o (fun r => set_user r None)) o = Some (mkObj (o_id ob) (set_user (o_rec ob) None))).
    { rewrite hget_hupd, Nat.eqb_refl, Ho. reflexivity. }
    rewrite (save_direct_ff _ _ _ (i_plan _ _ _ _ _ I1) Ho1). do 2 eexists. split; [reflexivity|].
    split; [|split; [exact Ho1|]].
    + destruct (i_fh _ _ _ _ _ I1 o _ Hbo Ho1). apply inv_saved; assumption.
    + split; [reflexivity|]. split; [reflexivity|]. split; [discriminate|]. intros _.
      unfold saved, hupd. rewrite Ho. sst. cbn [o_id o_rec]. apply lookup_upsert_same.
  - exists s, ob. split; [reflexivity|]. split; [exact I|]. split; [exact Ho|]. split; [reflexivity|]. split; [exact Eu|].
    split; [reflexivity | congruence].
Qed.

Lemma logout_user_ust b base D s u : inv b base NX D s ->
  exists s', logout_user s u = (s', Ok tt) /\ inv b base NX D s' /\ ids_pres s s' /\
    forall k, In k (listed s u) -> ust is_none is_none s' k.
Proof.
  intro I. destruct (logout_user_inv _ _ _ _ u I) as (s' & E & I' & Hi). exists s'. split; [exact E|]. split; [exact I'|].
  split; [exact Hi|]. intros k Hin. unfold logout_user in E. rewrite p_usersessions_ff in E by apply (i_plan _ _ _ _ _ I).
  assert (I0 : inv b base NX D (set_evs s ([EvUserSessions u true] ++ evs s))) by (apply inv_quiet; [repeat constructor | exact I]).
  pose proof (eus_ust is_none is_none none_codec None eq_refl b base D (listed s u) _ k I0 (or_introl Hin)) as H.
  rewrite E in H. exact H.
Qed.

(* Session.LogIn on a live handle: never fails; the object carries exactly the
   given user; its ID is a new one, sent as live cookie; the record stored under
   the new ID carries the user's ID; the replaced ID's record carries no user;
   and after an exclusive login no other ID the store listed for the user carries
   a user, in memory or in the store. *)
Theorem login_spec b base D s o u ex ob : inv b base NX D s -> b <= o -> hget s o = Some ob -> ~ D (o_id ob) ->
  exists s' n ob', login s o u ex = (s', Ok tt, [CkLive (KGen n)]) /\ inv b base NX D s' /\
    hget s' o = Some ob' /\ o_id ob' = KGen n /\ KGen n <> o_id ob /\ r_user (o_rec ob') = Some u /\
    (exists r, lookup (store s') (KGen n) = Some r /\ r_user r = Some (fst u, 0%N)) /\
    nouser_at s' (o_id ob) /\
    (ex = true -> forall k, In k (listed s (fst u)) -> k <> KGen n -> nouser_at s' k).
Proof.
  intros I Hbo Ho HnD. assert (H : hok b D s o) by (split; [exact Hbo | exists ob; split; assumption]).
  unfold login.
  assert (Hpre : exists s1, (if ex then logout_user s (fst u) else let '(s0, _) := logout s o in (s0, Ok tt)) = (s1, Ok tt)
                            /\ inv b base NX D s1 /\ ids_pres s s1 /\
                            (ex = true -> forall k, In k (listed s (fst u)) -> ust is_none is_none s1 k)).
  { destruct ex.
    - destruct (logout_user_ust _ _ _ _ (fst u) I) as (s1 & E & I1 & Hi & Hl). exists s1. split; [exact E|].
      split; [exact I1|]. split; [exact Hi | intros _; exact Hl].
    - destruct (logout_inv _ _ _ _ _ I H) as (s1 & E & I1 & Hi). exists s1. rewrite E. split; [reflexivity|].
      split; [exact I1|]. split; [exact Hi | discriminate]. }
  destruct Hpre as (s1 & E1 & I1 & Hi1 & Hl1). rewrite E1.
  destruct (Hi1 o ob Ho) as [ob1 [Ho1 Hid1]].
  set (ob2 := mkObj (o_id ob1) (set_user (o_rec ob1) (Some u))).
  set (s2 := hupd s1 o (fun r => set_user r (Some u))).
  assert (I2 : inv b base NX D s2) by (apply inv_hupd; [exact I1 | reflexivity]).
  assert (Ho2 : hget s2 o = Some ob2) by (unfold s2; rewrite hget_hupd, Nat.eqb_refl, Ho1; reflexivity).
  assert (F2 : ffnd s2) by (eapply inv_ffnd; exact I2).
  rewrite (cache_set_ff _ _ _ F2 Ho2). cbn [negb].
  set (s3 := cset s2 o ob2).
  assert (HnD2 : ~ D (o_id ob2)) by (cbn [o_id ob2]; rewrite Hid1; exact HnD).
  assert (I3 : inv b base NX D s3) by (apply inv_cset; assumption).
  assert (F3 : ffnd s3) by (eapply inv_ffnd; exact I3).
  assert (Ho3 : hget s3 o = Some (touched s2 ob2)) by (unfold s3; rewrite (hget_cset _ _ _ _ F2 Ho2), Nat.eqb_refl; reflexivity).
  rewrite (regenerate_ff _ _ _ F3 Ho3).
  assert (Hid3 : o_id (touched s2 ob2) = o_id ob) by (cbn [o_id touched ob2]; exact Hid1).
  assert (HnD3 : ~ D (o_id (touched s2 ob2))) by (rewrite Hid3; exact HnD).
  assert (Hold : o_id ob <> KGen (supply s3)).
  { intro E. destruct (i_fh _ _ _ _ _ I3 o _ Hbo Ho3) as [Hk _]. rewrite Hid3, E in Hk. simpl in Hk. lia. }
  destruct (regen_ust (is_uid u) (is_usr u) (usr_codec u) _ _ _ _ _ _ I3 Ho3 Hbo HnD3) as (_ & _ & Unew).
  destruct (regen_ust is_none is_none none_codec _ _ _ _ _ _ I3 Ho3 Hbo HnD3) as (Uoth & Uold & _).
  exists (regen s3 o (touched s2 ob2)), (supply s3), (rg_ob2 s3 o (touched s2 ob2)).
  split; [reflexivity|]. split; [apply regen_inv; assumption|]. split; [apply regen_handle; assumption|].
  split; [reflexivity|]. split; [congruence|]. split; [reflexivity|]. split; [|split].
  - destruct (Unew eq_refl) as [US _].
    destruct (lookup (store (regen s3 o (touched s2 ob2))) (KGen (supply s3))) as [r|] eqn:El.
    + exists r. split; [reflexivity | apply (US r El)].
    + exfalso. revert El. apply regen_store_new; [exact F3 | exact Ho3 | rewrite Hid3; exact Hold].
  - rewrite <- Hid3. apply ust_nouser. apply Uold. reflexivity.
  - intros Hex k Hin Hne. destruct (key_eq_dec k (o_id ob)) as [->|Hneo].
    + rewrite <- Hid3. apply ust_nouser. apply Uold. reflexivity.
    + apply ust_nouser. apply Uoth; [rewrite Hid3; exact Hneo | exact Hne |].
      assert (Hno : lookup (cache s1) k <> Some o) by (eapply cached_not; [exact I1 | exact Ho1 | congruence]).
      unfold s3. apply ust_cset_other; [exact none_codec | exact F2 | exact Ho2 | cbn [o_id ob2]; congruence | |].
      * unfold s2, hupd. rewrite Ho1. exact Hno.
      * unfold s2. apply ust_hupd_other; [exact Hno | apply Hl1; assumption].
Qed.

(* ------------- the same on any state with the invariants of SessDefs.v *)

Theorem login_sess s o u ex ob : sess_inv s -> hget s o = Some ob ->
  exists s' n ob', login s o u ex = (s', Ok tt, [CkLive (KGen n)]) /\ sess_inv s' /\
    hget s' o = Some ob' /\ o_id ob' = KGen n /\ KGen n <> o_id ob /\ r_user (o_rec ob') = Some u /\
    (exists r, lookup (store s') (KGen n) = Some r /\ r_user r = Some (fst u, 0%N)) /\
    nouser_at s' (o_id ob) /\
    (ex = true -> forall k, In k (listed s (fst u)) -> k <> KGen n -> nouser_at s' k).
Proof.
  intros HI Ho.
  destruct (login_spec 0 _ ND s o u ex ob (sess_inv_inv s HI) (Nat.le_0_l o) Ho (fun x => x))
    as (s' & n & ob' & E & I' & R). exists s', n, ob'. split; [exact E|]. split; [eapply inv_sess_inv; exact I' | exact R].
Qed.

Theorem logout_sess s o ob : sess_inv s -> hget s o = Some ob ->
  exists s' ob', logout s o = (s', Ok tt) /\ sess_inv s' /\ hget s' o = Some ob' /\
    o_id ob' = o_id ob /\ r_user (o_rec ob') = None /\
    (r_user (o_rec ob) = None -> s' = s) /\
    (r_user (o_rec ob) <> None ->
       lookup (store s') (o_id ob) = Some (codec (conf s) (set_user (o_rec ob) None))).
Proof.
  intros HI Ho.
  destruct (logout_spec 0 _ ND s o ob (sess_inv_inv s HI) (Nat.le_0_l o) Ho (fun x => x)) as (s' & ob' & E & I' & R).
  exists s', ob'. split; [exact E|]. split; [eapply inv_sess_inv; exact I' | exact R].
Qed.

Theorem logout_user_sess s u : sess_inv s ->
  exists s', logout_user s u = (s', Ok tt) /\ sess_inv s' /\ forall k, In k (listed s u) -> nouser_at s' k.
Proof.
  intros HI. destruct (logout_user_spec 0 _ ND s u (sess_inv_inv s HI)) as (s' & E & I' & R).
  exists s'. split; [exact E|]. split; [eapply inv_sess_inv; exact I' | exact R].
Qed.

Theorem refresh_user_sess s u : sess_inv s ->
  exists s', refresh_user s u = (s', Ok tt) /\ sess_inv s' /\
    forall k, In k (listed s (fst u)) ->
      (forall r, lookup (store s') k = Some r -> r_user r = Some (fst u, 0%N)) /\
      (forall o ob, lookup (cache s') k = Some o -> hget s' o = Some ob -> r_user (o_rec ob) = Some u).
Proof.
  intros HI. destruct (refresh_user_spec 0 _ ND s u (sess_inv_inv s HI)) as (s' & E & I' & R).
  exists s'. split; [exact E|]. split; [eapply inv_sess_inv; exact I' | exact R].
Qed.

(* what the store's index lists is what p_usersessions answers *)
Lemma listed_is_index s u : plan s = [] -> snd (p_usersessions s u) = Some (listed s u).
Proof. intro H. rewrite p_usersessions_ff by exact H. reflexivity. Qed.

(* tolerance: no panic, no error, whatever the index lists *)
Theorem user_calls_tolerant s : sess_inv s ->
  (forall u, exists s', logout_user s u = (s', Ok tt)) /\
  (forall u, exists s', refresh_user s u = (s', Ok tt)) /\
  (forall o ob u ex, hget s o = Some ob -> exists s' cks, login s o u ex = (s', Ok tt, cks)) /\
  (forall o ob, hget s o = Some ob -> exists s', logout s o = (s', Ok tt)).
Proof.
  intro HI. split; [|split; [|split]].
  - intro u. destruct (logout_user_sess s u HI) as (s' & E & _). exists s'. exact E.
  - intro u. destruct (refresh_user_sess s u HI) as (s' & E & _). exists s'. exact E.
  - intros o ob u ex Ho. destruct (login_sess s o u ex ob HI Ho) as (s' & n & ob' & E & _). do 2 eexists. exact E.
  - intros o ob Ho. destruct (logout_sess s o ob HI Ho) as (s' & ob' & E & _). exists s'. exact E.
Qed.

(* non-vacuity: two sessions of user 5 (one cached, one only stored), a third
   session of that user destroyed but still listed by the stale index; an exclusive
   login from a fourth session, and LogOut(5), on that state *)
Definition hist_users : list hop :=
  [HReq (mkReqStep 1 PJar true (AOther 0) 7 [SLogIn (5, 1)%N false] [] [] None);
   HReq (mkReqStep 2 PJar true (AOther 0) 7 [SLogIn (5, 1)%N false] [] [] None);
   HReq (mkReqStep 3 PJar true (AOther 0) 7 [SLogIn (5, 1)%N false; SDestroy] [] [] None);
   HReq (mkReqStep 4 PJar true (AOther 0) 7 [] [] [] None)].

Definition st_users : st := w_st (reach (mkCfg 1000 1000 100 1000 2 0 true false) hist_users).

Example users_nonvacuous :
  sess_inv st_users /\
  listed st_users 5 = [KGen 5; KGen 1; KGen 3] /\
  lookup (store st_users) (KGen 5) = None /\ lookup (cache st_users) (KGen 1) = None /\
  map (fun kr => (fst kr, r_user (snd kr))) (store st_users) =
    [(KGen 0, None); (KGen 1, Some (5, 0)%N); (KGen 2, None); (KGen 3, Some (5, 0)%N); (KGen 4, None); (KGen 6, None)] /\
  (exists s', logout_user st_users 5 = (s', Ok tt) /\
     map (fun kr => (fst kr, r_user (snd kr))) (store s') =
       [(KGen 0, None); (KGen 1, None); (KGen 2, None); (KGen 3, None); (KGen 4, None); (KGen 6, None)]).
Proof.
  split.
  - destruct (hist_sess_inv (mkCfg 1000 1000 100 1000 2 0 true false) hist_users) as (b & A1 & A2 & A3 & A4 & A5); [repeat constructor|].
    rewrite (A5 (ltac:(repeat constructor))) in A4. unfold sess_inv, st_users.
    split; [exact A1|]. split; [exact A2|]. split; [exact A3|]. apply fresh_from_0. exact A4.
  - vm_compute. repeat split. eexists. split; reflexivity.
Qed.
