(* C01, history level, part 8: the body of a request step (Start, clean-ups,
   handler script) against the ghost specification. *)
From Sessions Require Import Model.Base Model.Sess Model.Hist Model.Corr Proofs.SessDefs
  Proofs.WriteThrough Proofs.WriteThrough2 Proofs.WriteThrough3 Proofs.WriteThrough4 Proofs.WriteThrough5
  Proofs.RotateLaws Proofs.RotateLaws2
  Proofs.C01Spec Proofs.C01Hist Proofs.C01Hist2 Proofs.C01Hist3 Proofs.C01Hist4 Proofs.C01Hist5
  Proofs.C01Hist6 Proofs.C01Hist7.
From Sessions Require Proofs.HistInv Proofs.HistInv3.
From Coq Require Import Lia.

(* what the session a request was given looked like when Start returned it, and
   what became of it *)
Definition body_sess (s1 s3 : st) (q : request) (script : list sop) (U : list N)
           (id : key) (rc0 : rec) (sr : list sres) (cks : list cookie) : Prop :=
  ((~ key_drawn s1 id /\ content_of rc0 = ([], None)) \/
   (exists k, q_cookie q = CKey k /\ view s1 k = Some (None, content_of rc0))) /\
  key_drawn s3 id /\
  exists gfin, g_script (content_of rc0) script sr [] = (gfin, U) /\
    match gfin with
    | Some d' => exists id', apply_cookies (q_cookie q) cks = CKey id' /\ key_drawn s3 id' /\
                   (forall dd, ~ In (dd, id') (pending s3)) /\ view s3 id' = Some (None, d') /\
                   (CKey id' = q_cookie q \/ ~ key_drawn s1 id')
    | None => apply_cookies (q_cookie q) cks = CNone
    end.

Definition body_none (s3 : st) (q : request) (U : list N) (cks : list cookie) : Prop :=
  U = [] /\
  (apply_cookies (q_cookie q) cks = CNone \/
   (apply_cookies (q_cookie q) cks = q_cookie q /\
    forall k, q_cookie q = CKey k -> view s3 k = None /\ forall dd, ~ In (dd, k) (pending s3))).

Lemma req_body_eff s1 q script s3 rc st0 sr fin cks :
  Inv noex s1 -> GR s1 ->
  (forall k, q_cookie q = CKey k ->
     (forall dd, ~ In (dd, k) (pending s1)) /\ (view s1 k = None \/ exists d, view s1 k = Some (None, d))) ->
  (forall n, q_cookie q <> COther n) ->
  req_body s1 q script = (s3, rc, st0, sr, fin, cks) ->
  Inv noex s3 /\ GR s3 /\ (supply s1 <= supply s3)%N /\
  exists U,
    (forall k, CKey k <> q_cookie q -> key_drawn s1 k -> view s3 k = None \/ view s3 k = dropl U (view s1 k)) /\
    (forall dd k, In (dd, k) (pending s3) -> In (dd, k) (pending s1) \/ CKey k = q_cookie q \/ ~ key_drawn s1 k) /\
    match st0 with
    | Some (id, rc0) => body_sess s1 s3 q script U id rc0 sr cks
    | None => body_none s3 q U cks
    end.
Proof.
  intros HI HG Hjar Hno. unfold req_body, HistInv3.req_body.
  pose proof (start_eff s1 q HI HG Hjar) as HS.
  destruct (start s1 q) as [[s2 res] cks0]. unfold start_post in HS. cbn [fst snd] in HS.
  destruct HS as (HI2 & HG2 & Hc2 & Hu2 & Hv2 & Hp2 & Hres).
  destruct (fire_due_eff s2 HI2 HG2) as (HI2' & HG2' & Fh & Fc & Fu & Fv & Fk & Fp).
  set (s2' := fire_due s2) in *.
  assert (Hv2' : forall k, CKey k <> q_cookie q -> key_drawn s1 k -> view s2' k = None \/ view s2' k = view s1 k).
  { intros k H1 H2. destruct (Fv k) as [H|H]; [left; exact H | right; rewrite H; apply Hv2; assumption]. }
  assert (Hp2' : forall dd k, In (dd, k) (pending s2') -> In (dd, k) (pending s1) \/ CKey k = q_cookie q).
  { intros dd k H. apply Fp in H. apply Hp2. exact H. }
  destruct res as [[o|]|e|e]; cbn [start_res] in Hres.
  - (* a session *)
    destruct Hres as (id & d0 & HD & Hck0 & Horg).
    assert (HD' : hand s2' o id d0) by (apply hand_fire_due; assumption).
    destruct (run_script s2' o (had_cookie q) script) as [[s3' sr'] cks'] eqn:Hr.
    intros [= <- <- <- <- <- <-].
    destruct (run_script_eff script s2' o id d0 _ s3' sr' cks' HI2' HG2' HD' Hr)
      as (HI3 & HG3 & Hc3 & Hu3 & gfin & U & Hgs & Hv3 & Hp3 & Hfin).
    split; [exact HI3|]. split; [exact HG3|]. split; [lia|]. exists U.
    assert (Hidk : forall k, CKey k <> q_cookie q -> key_drawn s1 k -> k <> id).
    { intros k H1 H2 ->. destruct Horg as [[Hn _]|(k0 & Hq & _ & [->|Hn])]; [contradiction | | contradiction].
      apply H1. symmetry. exact Hq. }
    split; [|split].
    + intros k H1 H2.
      assert (Hk2 : key_drawn s2' k) by (apply (key_drawn_mono s1); [lia | exact H2]).
      destruct (Hv3 k (Hidk k H1 H2) Hk2) as [H|H]; [left; exact H|].
      destruct (Hv2' k H1 H2) as [H'|H']; [left; rewrite H, H'; apply dropl_none | right; rewrite H, H'; reflexivity].
    + intros dd k H. destruct (Hp3 dd k H) as [H'|[->|H']].
      * destruct (Hp2' dd k H'); auto.
      * destruct Horg as [[Hn _]|(k0 & Hq & _ & [->|Hn])]; auto.
      * right. right. intro Hx. apply H'. apply (key_drawn_mono s1); [lia | exact Hx].
    + destruct HD' as (ob & Hg & Hid & Hco & HH & Hpe).
      unfold handle_view at 1. rewrite Hg, Hid.
      assert (Hd0 : content_of (o_rec ob) = d0) by (apply (f_equal snd) in Hco; exact Hco).
      unfold body_sess. rewrite Hd0. split; [|split].
      * destruct Horg as [[Hn ->]|(k0 & Hq & Hvk & _)]; [left; auto | right; eauto].
      * apply (key_drawn_mono s2'); [exact Hu3|]. destruct (inv_drawn _ _ HI2') as (R & _).
        rewrite <- Hid. apply (R o ob Hg).
      * exists gfin. split; [exact Hgs|]. destruct gfin as [d'|].
        -- destruct Hfin as (id' & HD3 & Hck3 & Hid3). exists id'.
           split; [rewrite apply_cookies_app, Hck0; exact Hck3|].
           split; [apply (hand_drawn s3' o id' d' HI3 HD3)|].
           destruct HD3 as (ob3 & Hg3 & Hi3 & Hco3 & HH3 & Hpe3).
           split; [exact Hpe3|]. split; [rewrite <- Hi3, (Held_view s3' o ob3 HH3 Hg3), Hco3; reflexivity|].
           destruct Hid3 as [->|Hn].
           ++ destruct Horg as [[Hn _]|(k0 & Hq & _ & [->|Hn])]; auto.
           ++ right. intro Hx. apply Hn. apply (key_drawn_mono s1); [lia | exact Hx].
        -- rewrite apply_cookies_app, Hck0. exact Hfin.
  - (* no session *)
    intros [= <- <- <- <- <- <-].
    split; [exact HI2'|]. split; [exact HG2'|]. split; [lia|]. exists [].
    split; [exact Hv2'|]. split; [intros dd k H; destruct (Hp2' dd k H); auto|].
    split; [reflexivity|]. left. apply Hres. exact Hno.
  - (* an error: nothing was set *)
    intros [= <- <- <- <- <- <-]. destruct Hres as (-> & Hpe & Hdead).
    split; [exact HI2'|]. split; [exact HG2'|]. split; [lia|]. exists [].
    split; [exact Hv2'|]. split; [intros dd k H; destruct (Hp2' dd k H); auto|].
    split; [reflexivity|]. right. split; [reflexivity|].
    intros k Hq. split.
    + destruct (Fv k) as [H|H]; [exact H | rewrite H; apply Hdead; exact Hq].
    + intros dd H. apply Fp in H. rewrite Hpe in H. apply (proj1 (Hjar k Hq) dd H).
  - contradiction.
Qed.
