(* C10 in terms of the invariants of SessDefs.v: the statements used by
   Properties/C10.v. All of them hold for ARBITRARY fault plans (so in
   particular for fault-free execution) and every cache size / tie-break. *)
From Sessions Require Import Model.Base Model.Sess Model.Hist Proofs.SessDefs Proofs.CrashFault
  Proofs.CrashFault2 Proofs.CrashFault3 Proofs.CrashFault4 Proofs.CrashFault5.
From Coq Require Import Lia.

(* The events a call appended (oldest first) and the store frozen after the
   first n persistence calls of them. *)
Definition appended (s s' : st) (l : list ev) : Prop := evs s' = rev l ++ evs s.
Definition frozen (s : st) (l : list ev) (n : nat) : list (key * rec) :=
  fst (fold_left apply_ev (ev_prefix l n) (store s, graves s)).

Lemma appended_unique s s' l1 l2 : appended s s' l1 -> appended s s' l2 -> l1 = l2.
Proof.
  unfold appended. intros H1 H2. rewrite H1 in H2. apply app_inv_tail in H2.
  rewrite <- (rev_involutive l1), <- (rev_involutive l2). congruence.
Qed.

(* Cached objects that are reference records point at stored IDs. *)
Definition mem_nd (s : st) : Prop :=
  forall k o ob t, lookup (cache s) k = Some o -> hget s o = Some ob -> r_ref (o_rec ob) = Some t ->
    lookup (store s) t <> None.

Lemma durable_ref r r' : durable r = durable r' -> r_ref r = r_ref r'.
Proof. unfold durable. intro H. injection H as _ H _ _. exact H. Qed.

Lemma durable_content r cf r' : durable r = durable (codec cf r') -> dat r = dat r' /\ uid r = uid r'.
Proof.
  unfold durable. intro H. injection H as _ _ H1 H2. unfold dat, uid. simpl in *.
  split.
  - destruct (r_data r), (r_data r'); congruence.
  - destruct (r_user r') as [[u v]|]; simpl in H1; exact H1.
Qed.

(* write-through gives mem_nd from the store's own closure *)
Lemma wt_mem_nd s : wt_ok s -> nodangling (store s) -> mem_nd s.
Proof.
  intros Hwt Hnd k o ob t Hl Ho Hr. destruct (Hwt _ _ _ Hl Ho) as (r & Hs & Hd).
  apply durable_ref in Hd. simpl in Hd. eapply Hnd; [exact Hs | congruence].
Qed.

Lemma key_drawn_ne s k : key_drawn s k -> k <> KGen (supply s).
Proof. destruct k; simpl; intros H E; [injection E as E; lia | discriminate]. Qed.

Lemma cache_ok_cv s : cache_ok s -> NoDup (map fst (cache s)) -> cv s /\ cok s.
Proof.
  intros Hc Hn. split.
  - intros k o Hi. destruct (Hc _ _ (NoDup_lookup _ _ _ Hn Hi)) as (ob & Ho & _). eapply hget_Some_lt; exact Ho.
  - intros k o ob Hi Ho. destruct (Hc _ _ (NoDup_lookup _ _ _ Hn Hi)) as (ob' & Ho' & Hid). congruence.
Qed.

Definition T1_abs (s : st) (t : key) : Prop := (lookup (store s) t <> None \/ False) /\ t <> KGen (supply s).

Lemma present_T1 s t : fresh_ok s -> lookup (store s) t <> None -> T1_abs s t.
Proof.
  intros (_ & Hf & _) H. split; [left; exact H|]. destruct (lookup (store s) t) as [r|] eqn:E; [|congruence].
  apply lookup_In in E. apply key_drawn_ne. apply (Hf _ _ E).
Qed.

Lemma J_nd_init s :
  cache_ok s -> nodup_ok s -> fresh_ok s -> nodangling (store s) -> mem_nd s ->
  J (not_key (KGen (supply s)) (ref_in (T1_abs s))) s.
Proof.
  intros Hc [Hn1 Hn2] Hf Hnd Hm. destruct (cache_ok_cv _ Hc Hn1) as [Hcv _]. split; [exact Hcv|]. split.
  - intros k o ob Hi Ho. split.
    + apply key_drawn_ne. destruct Hf as (Hf1 & _). eapply Hf1. exact Hi.
    + intros t Ht. apply present_T1; [exact Hf|]. eapply Hm; [apply NoDup_lookup; eassumption | exact Ho | exact Ht].
  - intros k r Hl. split.
    + apply key_drawn_ne. destruct Hf as (_ & Hf2 & _). apply lookup_In in Hl. apply (Hf2 _ _ Hl).
    + intros t Ht. apply present_T1; [exact Hf|]. eapply Hnd; eassumption.
Qed.

Lemma steps_frozen (P : list (key * rec) -> Prop) s l :
  steps_ok (fun sg => P (fst sg)) (sg_of s) l -> forall n, P (frozen s l n).
Proof. intros H n. unfold frozen. apply (steps_ok_prefix (fun sg => P (fst sg))). exact H. Qed.

(* ------------------------------------------------------------ C10_nodangling *)

Theorem nodangling_regenerate s o ob s' res cks :
  cache_ok s -> nodup_ok s -> fresh_ok s -> nodangling (store s) -> mem_nd s ->
  hget s o = Some ob -> (forall t, r_ref (o_rec ob) = Some t -> lookup (store s) t <> None) ->
  regenerate s o = (s', res, cks) ->
  exists l, appended s s' l /\ forall n, nodangling (frozen s l n).
Proof.
  intros Hc Hn Hf Hnd Hm Ho Hob HR.
  pose proof (J_nd_init _ Hc Hn Hf Hnd Hm) as HJ.
  destruct (regenerate_nodangling_rel s (fun _ => False) o ob s' res cks) as (l & X & S); try assumption.
  - eapply J_mono; [|exact HJ]. intros k r [_ H]. exact H.
  - intros t Ht. apply present_T1; [exact Hf | apply Hob; exact Ht].
  - eapply J_not_key_uncached. exact HJ.
  - exists l. split; [apply (x_evs _ _ _ X)|]. intro n. apply nodangling_of_rel.
    apply (steps_frozen (nodangling_rel (fun _ => False))). exact S.
Qed.

Lemma tracked_init (K : key -> rec -> Prop) s o ob :
  hget s o = Some ob -> K (o_id ob) (o_rec ob) -> tracked K s o (o_id ob).
Proof. intros Ho HK. exists ob. auto. Qed.

Theorem nodangling_login s o ob u ex s' res cks :
  cache_ok s -> nodup_ok s -> fresh_ok s -> nodangling (store s) -> mem_nd s ->
  hget s o = Some ob -> (forall t, r_ref (o_rec ob) = Some t -> lookup (store s) t <> None) ->
  login s o u ex = (s', res, cks) ->
  exists l, appended s s' l /\ forall n, nodangling (frozen s l n).
Proof.
  intros Hc Hn Hf Hnd Hm Ho Hob HL.
  pose proof (J_nd_init _ Hc Hn Hf Hnd Hm) as HJ.
  destruct (cache_ok_cv _ Hc (proj1 Hn)) as [_ Hcok].
  destruct (login_nodangling_rel s (fun _ => False) o (o_id ob) u ex s' res cks) as (l & X & S); try assumption.
  - apply tracked_init; [exact Ho|]. split.
    + apply key_drawn_ne. destruct Hf as (_ & _ & Hf3 & _). apply (Hf3 _ _ Ho).
    + intros t Ht. apply present_T1; [exact Hf | apply Hob; exact Ht].
  - exists l. split; [apply (x_evs _ _ _ X)|]. intro n. apply nodangling_of_rel.
    apply (steps_frozen (nodangling_rel (fun _ => False))). exact S.
Qed.

Theorem nodangling_start s q s' res cks :
  cache_ok s -> nodup_ok s -> fresh_ok s -> nodangling (store s) -> mem_nd s ->
  start_rotates s q = true -> start s q = (s', res, cks) ->
  exists l, appended s s' l /\ forall n, nodangling (frozen s l n).
Proof.
  intros Hc Hn Hf Hnd Hm Hrot HS.
  pose proof (J_nd_init _ Hc Hn Hf Hnd Hm) as HJ.
  destruct (start_rotate_nodangling_rel s (fun _ => False) q s' res cks) as (l & X & S); try assumption.
  exists l. split; [apply (x_evs _ _ _ X)|]. intro n. apply nodangling_of_rel.
  apply (steps_frozen (nodangling_rel (fun _ => False))). exact S.
Qed.

(* The unconditional form: whatever the store and the cache held before, a
   reference record found at a crash point whose target is missing points at
   an ID that was already missing before the call and is not the new ID: the
   call creates no dangling reference of its own. *)
Theorem nodangling_regenerate_rel s o ob s' res cks :
  cache_ok s -> nodup_ok s -> fresh_ok s -> hget s o = Some ob ->
  regenerate s o = (s', res, cks) ->
  exists l, appended s s' l /\ forall n k r t,
    lookup (frozen s l n) k = Some r -> r_ref r = Some t ->
    lookup (frozen s l n) t <> None \/ (lookup (store s) t = None /\ t <> KGen (supply s)).
Proof.
  intros Hc [Hn1 Hn2] Hf Ho HR. destruct (cache_ok_cv _ Hc Hn1) as [Hcv _].
  set (X := fun t => lookup (store s) t = None /\ t <> KGen (supply s)).
  assert (HT : forall t, key_drawn s t -> (lookup (store s) t <> None \/ X t) /\ t <> KGen (supply s)).
  { intros t Hd. pose proof (key_drawn_ne _ _ Hd) as Hne. split; [|exact Hne].
    destruct (lookup (store s) t) eqn:E; [left; discriminate | right; split; assumption]. }
  assert (HJ : J (ref_in (fun t => (lookup (store s) t <> None \/ X t) /\ t <> KGen (supply s))) s).
  { split; [exact Hcv|]. split.
    + intros k o' ob' Hi Ho' t Ht. apply HT. destruct Hf as (_ & _ & Hf3 & _).
      destruct (Hf3 _ _ Ho') as [_ H]. rewrite Ht in H. exact H.
    + intros k r Hl t Ht. apply HT. destruct Hf as (_ & Hf2 & _). apply lookup_In in Hl.
      destruct (Hf2 _ _ Hl) as [_ H]. rewrite Ht in H. exact H. }
  assert (Hob : ref_in (fun t => (lookup (store s) t <> None \/ X t) /\ t <> KGen (supply s)) (KGen (supply s)) (o_rec ob)).
  { intros t Ht. apply HT. destruct Hf as (_ & _ & Hf3 & _). destruct (Hf3 _ _ Ho) as [_ H]. rewrite Ht in H. exact H. }
  assert (Hnc : forall o', ~ In (KGen (supply s), o') (cache s)).
  { intros o' Hi. destruct Hf as (Hf1 & _). apply Hf1 in Hi. apply key_drawn_ne in Hi. congruence. }
  destruct (regenerate_nodangling_rel s X o ob s' res cks HJ Ho HR Hob Hnc) as (l & Xe & S).
  - exists l. split; [apply (x_evs _ _ _ Xe)|]. intros n.
    apply (steps_frozen (nodangling_rel X)). exact S.
Qed.

(* ------------------------------------------- C10_old_resolves / new_resolves *)

(* The handler's object o: a non-reference session that is the cached object
   for its ID if that ID is cached at all, and whose acknowledged content is
   in the store under its ID (write-through). *)
Definition holds (s : st) (o : nat) (ob : obj) : Prop :=
  hget s o = Some ob /\ r_ref (o_rec ob) = None /\
  (forall o', lookup (cache s) (o_id ob) = Some o' -> o' = o) /\
  exists r0, lookup (store s) (o_id ob) = Some r0 /\ durable r0 = durable (codec (conf s) (o_rec ob)).

Lemma ev_prefix_all l : forall n, length l <= n -> ev_prefix l n = l.
Proof.
  induction l as [|e l IH]; intros [|n] H; simpl in *; try reflexivity; try lia.
  destruct e; f_equal; apply IH; lia.
Qed.

Lemma frozen_all s s' l : ext s s' l -> frozen s l (length l) = store s'.
Proof.
  intro X. unfold frozen. rewrite ev_prefix_all by lia. rewrite (store_of_ext _ _ _ X). reflexivity.
Qed.

Lemma resolves_here (F0 : rec -> Prop) stor k r :
  lookup stor k = Some r -> r_ref r = None -> F0 r -> resolves_to F0 stor k.
Proof. intros Hl Hr Hf. exists k, r. split; [|split; assumption]. simpl. rewrite Hl, Hr. reflexivity. Qed.

Lemma resolves_hop (F0 : rec -> Prop) stor k rr t r :
  lookup stor k = Some rr -> r_ref rr = Some t -> lookup stor t = Some r -> r_ref r = None -> F0 r ->
  resolves_to F0 stor k.
Proof.
  intros Hl Hrr Ht Hr Hf. exists t, r. split; [|split; assumption]. simpl. rewrite Hl, Hrr, Ht, Hr. reflexivity.
Qed.

Lemma J_res_init s o ob (F0 : rec -> Prop) :
  cache_ok s -> nodup_ok s -> fresh_ok s -> holds s o ob ->
  F0 (o_rec ob) -> (forall r0, durable r0 = durable (codec (conf s) (o_rec ob)) -> F0 r0) ->
  J (not_key (KGen (supply s)) (at_keys (fun k => k = o_id ob) (fun r => r_ref r = None /\ F0 r))) s.
Proof.
  intros Hc [Hn1 Hn2] Hf (Ho & Hr & Hheld & r0 & Hs0 & Hd) HF HF0.
  destruct (cache_ok_cv _ Hc Hn1) as [Hcv _]. split; [exact Hcv|]. split.
  - intros k o' ob' Hi Ho'. split.
    + apply key_drawn_ne. destruct Hf as (Hf1 & _). eapply Hf1. exact Hi.
    + intros ->. assert (o' = o) by (apply Hheld; apply NoDup_lookup; assumption). subst o'.
      assert (ob' = ob) by congruence. subst ob'. split; assumption.
  - intros k r Hl. split.
    + apply key_drawn_ne. destruct Hf as (_ & Hf2 & _). apply lookup_In in Hl. apply (Hf2 _ _ Hl).
    + intros ->. assert (r = r0) by congruence. subst r. split; [|apply HF0; exact Hd].
      apply durable_ref in Hd. simpl in Hd. congruence.
Qed.

Lemma full_durable s ob r0 :
  durable r0 = durable (codec (conf s) (o_rec ob)) -> full (dat (o_rec ob)) (uid (o_rec ob)) r0.
Proof. intro H. apply durable_content in H. exact H. Qed.

Lemma holds_id_drawn s o ob : fresh_ok s -> holds s o ob -> o_id ob <> KGen (supply s).
Proof. intros (_ & _ & Hf3 & _) (Ho & _). apply key_drawn_ne. apply (Hf3 _ _ Ho). Qed.

Theorem resolves_regenerate s o ob s' res cks :
  cache_ok s -> nodup_ok s -> fresh_ok s -> holds s o ob ->
  regenerate s o = (s', res, cks) ->
  let D := dat (o_rec ob) in let U := uid (o_rec ob) in let nid := KGen (supply s) in
  exists l, appended s s' l /\
    (forall n, resolves_to (full D U) (frozen s l n) (o_id ob)) /\
    (res = Ok tt -> frozen s l (length l) = store s' /\ resolves_to (full D U) (store s') nid /\
                    exists rr, lookup (store s') (o_id ob) = Some rr /\ r_ref rr = Some nid).
Proof.
  intros Hc Hn Hf Hh HR D U nid.
  assert (HJ := J_res_init s o ob (full D U) Hc Hn Hf Hh (conj eq_refl eq_refl) (full_durable s ob)).
  pose proof Hh as (Ho & Hr & _ & r0 & Hs0 & _).
  destruct (regenerate_resolves s (o_id ob) (full D U) (full_codec D U) (full_access D U) (full_created D U)
              o ob s' res cks) as (l & X & S & Hnew); try assumption; try reflexivity.
  - eapply J_mono; [|exact HJ]. intros k r [_ H]. exact H.
  - split; [exact Hr | split; reflexivity].
  - congruence.
  - eapply holds_id_drawn; eassumption.
  - eapply J_not_key_uncached. exact HJ.
  - exists l. split; [apply (x_evs _ _ _ X)|]. split.
    + intro n. apply (steps_frozen (fun stor => resolves_to (full D U) stor (o_id ob))). exact S.
    + intro Hok. destruct (Hnew Hok) as (r & rr & A & [B1 B2] & C & E).
      split; [apply frozen_all; exact X|]. split; [eapply resolves_here; eassumption|]. exists rr. auto.
Qed.

Theorem resolves_login s o ob u ex s' res cks :
  cache_ok s -> nodup_ok s -> fresh_ok s -> holds s o ob ->
  login s o u ex = (s', res, cks) ->
  let D := dat (o_rec ob) in let nid := KGen (supply s) in
  exists l, appended s s' l /\
    (forall n, resolves_to (fun r => dat r = D) (frozen s l n) (o_id ob)) /\
    (res = Ok tt -> frozen s l (length l) = store s' /\
                    resolves_to (fun r => dat r = D /\ uid r = Some (fst u)) (store s') nid /\
                    exists rr, lookup (store s') (o_id ob) = Some rr /\ r_ref rr = Some nid) /\
    ((exists e, res = Err e) \/
     exists l0' r0 lR, l = (l0' ++ [EvSave (o_id ob) r0 true]) ++ lR /\ uid r0 = Some (fst u) /\ dat r0 = D /\ r_ref r0 = None /\
       forall m, resolves_to (fun r => dat r = D /\ uid r = Some (fst u))
                   (fst (fold_left apply_ev ((l0' ++ [EvSave (o_id ob) r0 true]) ++ firstn m lR) (store s, graves s))) (o_id ob)).
Proof.
  intros Hc Hn Hf Hh HL D nid.
  assert (HF0 : forall r0, durable r0 = durable (codec (conf s) (o_rec ob)) -> dat r0 = D).
  { intros r0 H. apply durable_content in H. apply H. }
  assert (HJ := J_res_init s o ob (fun r => dat r = D) Hc Hn Hf Hh eq_refl HF0).
  destruct (cache_ok_cv _ Hc (proj1 Hn)) as [_ Hcok].
  pose proof Hh as (Ho & Hr & Hheld & r0 & Hs0 & _).
  assert (Ht : tracked (not_key (KGen (supply s)) (at_keys (fun k => k = o_id ob) (fun r => r_ref r = None /\ dat r = D))) s o (o_id ob)).
  { apply tracked_init; [exact Ho|]. split; [eapply holds_id_drawn; eassumption|]. intros _. split; [exact Hr | reflexivity]. }
  assert (Hold : lookup (store s) (o_id ob) <> None) by congruence.
  destruct (login_resolves s (o_id ob) D o u ex s' res cks HJ Hcok Ht Hold HL) as (l & X & S & Hnew).
  exists l. split; [apply (x_evs _ _ _ X)|]. split; [|split].
  - intro n. apply (steps_frozen (fun stor => resolves_to (fun r => dat r = D) stor (o_id ob))). exact S.
  - intro Hok. destruct (Hnew Hok) as (r & rr & A & B & C & E & G & H).
    split; [apply frozen_all; exact X|]. split; [eapply resolves_here; [exact A | exact B | split; assumption]|].
    exists rr. auto.
  - destruct (login_user_resolves s (o_id ob) D o u ex s' res cks HJ Hcok Ht Hold (proj1 Hn)) as [He|(l0' & r1 & lR & X' & A & B & C & S')].
    + intros o' Hi. apply Hheld. apply NoDup_lookup; [apply Hn | exact Hi].
    + exact HL.
    + left. exact He.
    + right. exists l0', r1, lR.
      assert (l = (l0' ++ [EvSave (o_id ob) r1 true]) ++ lR).
      { eapply appended_unique; [apply (x_evs _ _ _ X) | apply (x_evs _ _ _ X')]. }
      split; [assumption|]. split; [exact A|]. split; [exact B|]. split; [exact C|].
      intro m. rewrite fold_left_app.
      apply (steps_ok_firstn (fun sg => resolves_to (fun r => dat r = D /\ uid r = Some (fst u)) (fst sg) (o_id ob))).
      exact S'.
Qed.

(* The presented ID k of a rotating Start: the record it resolves to, in the
   cache if it is cached and in the store, carries content (D, U). *)
Definition presented (s : st) (k : key) (D : list (N * N)) (U : option N) : Prop :=
  (exists r0, lookup (store s) k = Some r0 /\ r_ref r0 = None /\ full D U r0) /\
  (forall o ob, lookup (cache s) k = Some o -> hget s o = Some ob -> r_ref (o_rec ob) = None /\ full D U (o_rec ob)).

Theorem resolves_start s q k D U s' res cks :
  cache_ok s -> nodup_ok s -> fresh_ok s -> q_cookie q = CKey k -> presented s k D U ->
  start_rotates s q = true -> start s q = (s', res, cks) ->
  let nid := KGen (supply s) in
  exists l, appended s s' l /\
    (forall n, resolves_to (full D U) (frozen s l n) k) /\
    (forall o, res = Ok (Some o) ->
       frozen s l (length l) = store s' /\ resolves_to (full D U) (store s') nid /\
       exists rr, lookup (store s') k = Some rr /\ r_ref rr = Some nid).
Proof.
  intros Hc [Hn1 Hn2] Hf Hq [(r0 & Hs0 & Hr0 & Hf0) Hca] Hrot HS nid.
  destruct (cache_ok_cv _ Hc Hn1) as [Hcv Hcok].
  assert (HJ : J (not_key (KGen (supply s)) (at_keys (fun k' => k' = k) (fun r => r_ref r = None /\ full D U r))) s).
  { split; [exact Hcv|]. split.
    - intros k' o' ob' Hi Ho'. split.
      + apply key_drawn_ne. destruct Hf as (Hf1 & _). eapply Hf1. exact Hi.
      + intros ->. eapply Hca; [apply NoDup_lookup; eassumption | exact Ho'].
    - intros k' r Hl. split.
      + apply key_drawn_ne. destruct Hf as (_ & Hf2 & _). apply lookup_In in Hl. apply (Hf2 _ _ Hl).
      + intros ->. assert (r = r0) by congruence. subst r. split; assumption. }
  assert (Hold : lookup (store s) k <> None) by congruence.
  destruct (start_rotate_resolves s k (full D U) (full_codec D U) (full_access D U) (full_created D U)
              q s' res cks HJ Hcok Hq Hold Hrot HS) as (l & X & S & Hnew).
  exists l. split; [apply (x_evs _ _ _ X)|]. split.
  - intro n. apply (steps_frozen (fun stor => resolves_to (full D U) stor k)). exact S.
  - intros o Hok. destruct (Hnew o Hok) as (r & rr & A & B & C & E & G).
    split; [apply frozen_all; exact X|]. split; [eapply resolves_here; eassumption|]. exists rr. auto.
Qed.
