(* The browser jar of Model/Cookie.v along the histories of Model/Hist.v: the
   abstract jars of Hist.world (CNone / CKey k) are what browsers keyed by
   (name, domain, path) hold under the session cookie's identity, step by step,
   for every history (whatever its faults, crashes and scripts). So every
   theorem about ob_jar / w_jars (C07, C18H_session, C03) is a theorem about
   those browsers. Statements: Properties/C18A.v. *)
From Coq Require Import String.
From Sessions Require Import Model.Base Model.Sess Model.Hist Model.Cookie Proofs.SessDefs
  Proofs.HistInv3 Proofs.HistLift3 Proofs.HistLift5 Proofs.HistLift9 Proofs.CookieRender.

(* ------------------------------------------------------- one request step *)

(* the client's abstract jar after a request step that presented it is the jar
   before with the response's cookies applied (no response after a crash) *)
Lemma step_jar_eq w r : rq_present r = PJar ->
  ob_jar (snd (step w (HReq r))) =
  apply_cookies (jar_of (w_jars w) (rq_client r)) (ob_cookies (snd (step w (HReq r)))).
Proof.
  intro Hj. rewrite step_req_eq. cbv zeta.
  destruct (req_body _ _ _) as [[[[[s3 rc] st0] sr] fin] cks]. destruct (rq_crash r).
  - destruct (fold_left apply_ev _ _). reflexivity.
  - rewrite Hj. reflexivity.
Qed.

Lemma step_jar_forged w r c : rq_present r = PForge c ->
  ob_jar (snd (step w (HReq r))) = jar_of (w_jars w) (rq_client r).
Proof.
  intro Hj. rewrite step_req_eq. cbv zeta.
  destruct (req_body _ _ _) as [[[[[s3 rc] st0] sr] fin] cks]. destruct (rq_crash r).
  - destruct (fold_left apply_ev _ _). reflexivity.
  - rewrite Hj. reflexivity.
Qed.

Lemma jar_of_set_same jars c v : jar_of (jar_set jars c v) c = v.
Proof.
  induction jars as [|[c' v'] t IH]; cbn [jar_set jar_of].
  - rewrite N.eqb_refl. reflexivity.
  - destruct (N.eqb c c') eqn:E; cbn [jar_of]; [rewrite N.eqb_refl; reflexivity | rewrite E; exact IH].
Qed.

Lemma jar_of_set_other jars c v c' : N.eqb c' c = false -> jar_of (jar_set jars c v) c' = jar_of jars c'.
Proof.
  intro Hne. induction jars as [|[c2 v2] t IH]; cbn [jar_set jar_of].
  - rewrite Hne. reflexivity.
  - destruct (N.eqb c c2) eqn:E; cbn [jar_of].
    + apply N.eqb_eq in E. subst c2. rewrite Hne. reflexivity.
    + destruct (N.eqb c' c2); [reflexivity | exact IH].
Qed.

Lemma bjar_of_set_same bs c v : bjar_of (bjar_set bs c v) c = v.
Proof.
  induction bs as [|[c' v'] t IH]; cbn [bjar_set bjar_of].
  - rewrite N.eqb_refl. reflexivity.
  - destruct (N.eqb c c') eqn:E; cbn [bjar_of]; [rewrite N.eqb_refl; reflexivity | rewrite E; exact IH].
Qed.

Lemma bjar_of_set_other bs c v c' : N.eqb c' c = false -> bjar_of (bjar_set bs c v) c' = bjar_of bs c'.
Proof.
  intro Hne. induction bs as [|[c2 v2] t IH]; cbn [bjar_set bjar_of].
  - rewrite Hne. reflexivity.
  - destruct (N.eqb c c2) eqn:E; cbn [bjar_of].
    + apply N.eqb_eq in E. subst c2. rewrite Hne. reflexivity.
    + destruct (N.eqb c' c2); [reflexivity | exact IH].
Qed.

(* the abstract jars after any step *)
Lemma step_jars w h c :
  jar_of (w_jars (fst (step w h))) c =
  match h with
  | HReq r => if N.eqb c (rq_client r) then ob_jar (snd (step w h)) else jar_of (w_jars w) c
  | _ => jar_of (w_jars w) c
  end.
Proof.
  destruct h as [r|d|tbl pl| | |u tbl pl|u tbl pl|cf]; try reflexivity.
  - rewrite step_req_eq. cbv zeta.
    destruct (req_body _ _ _) as [[[[[s3 rc] st0] sr] fin] cks]. destruct (rq_crash r).
    + destruct (fold_left apply_ev _ _). cbn [fst snd w_jars mk_obs ob_jar].
      destruct (N.eqb c (rq_client r)) eqn:E; [apply N.eqb_eq in E; subst c|]; reflexivity.
    + cbn [fst snd w_jars mk_obs ob_jar]. destruct (N.eqb c (rq_client r)) eqn:E.
      * apply N.eqb_eq in E. subst c. apply jar_of_set_same.
      * apply jar_of_set_other. exact E.
  - cbn [step]. destruct (logout_user _ u) as [s1 res]. reflexivity.
  - cbn [step]. destruct (refresh_user _ u) as [s1 res]. reflexivity.
Qed.

(* (c) for the response of any request step of any history: a browser that
   holds what the abstract jar says, applies the rendered Set-Cookie headers
   and ends on what the observation says *)
Theorem step_browser w r x nowb name t j :
  rq_present r = PJar -> tmpl_usable x nowb name t = true ->
  abs_jar x name t j = jar_of (w_jars w) (rq_client r) ->
  abs_jar x name t (jar_apply_all x nowb j (render_all name t (ob_cookies (snd (step w (HReq r)))))) =
  ob_jar (snd (step w (HReq r))).
Proof.
  intros Hj Hu Habs. rewrite (step_jar_eq w r Hj), <- Habs.
  apply jar_refines; [exact Hu | exact (step_plain w (HReq r))].
Qed.

(* --------------------------------------------------------- whole histories *)

Definition hop_ok (name : string) (t : template) (K : ckey) (hx : hop * ctx * Z) : Prop :=
  session_key (snd (fst hx)) name t = K /\ tmpl_usable (snd (fst hx)) (snd hx) name t = true.

Definition jars_agree (K : ckey) (w : world) (bs : bjars) : Prop :=
  forall c, abs_at K (bjar_of bs c) = jar_of (w_jars w) c.

Lemma bstep_agree name t K w bs h x nowb : hop_ok name t K (h, x, nowb) -> jars_agree K w bs ->
  jars_agree K (fst (step w h)) (bstep name t bs h x nowb (snd (step w h))).
Proof.
  intros [HK Hu] Hag c. cbn [fst snd] in HK, Hu. rewrite step_jars.
  destruct h as [r|d|tbl pl| | |u tbl pl|u tbl pl|cf]; cbn [bstep]; try apply Hag.
  destruct (rq_present r) as [|fc] eqn:Hp.
  - destruct (N.eqb c (rq_client r)) eqn:E.
    + apply N.eqb_eq in E. subst c. rewrite bjar_of_set_same. rewrite <- HK, <- abs_jar_at.
      apply step_browser; [exact Hp | exact Hu |]. rewrite abs_jar_at, HK. apply Hag.
    + rewrite bjar_of_set_other by exact E. apply Hag.
  - destruct (N.eqb c (rq_client r)) eqn:E; [|apply Hag].
    apply N.eqb_eq in E. subst c. rewrite (step_jar_forged w r fc Hp). apply Hag.
Qed.

Theorem browser_sim name t K : forall hs w bs,
  Forall (hop_ok name t K) hs -> jars_agree K w bs ->
  fst (brun name t w bs hs) = after w (map (fun hx => fst (fst hx)) hs) /\
  jars_agree K (fst (brun name t w bs hs)) (snd (brun name t w bs hs)).
Proof.
  induction hs as [|[[h x] nowb] tl IH]; intros w bs Hok Hag; [split; [reflexivity | exact Hag]|].
  inversion Hok as [|? ? H1 Hrest]; subst. cbn [brun map after fst snd].
  apply IH; [exact Hrest | apply bstep_agree; assumption].
Qed.

(* from the initial state: nobody holds a cookie *)
Corollary browser_sim_init name t K c hs : Forall (hop_ok name t K) hs ->
  fst (brun name t (mkWorld (init_st c) []) [] hs) = reach c (map (fun hx => fst (fst hx)) hs) /\
  jars_agree K (reach c (map (fun hx => fst (fst hx)) hs)) (snd (brun name t (mkWorld (init_st c) []) [] hs)).
Proof.
  intro Hok. destruct (browser_sim name t K hs (mkWorld (init_st c) []) [] Hok) as [E A].
  - intro cl. reflexivity.
  - unfold reach. rewrite <- E. split; [reflexivity | exact A].
Qed.

(* ------------------------------------ two transferred statements, spelled out *)

(* C18H_session for the browser: after a fault-free request step that returns
   a session and does not destroy it, the client's browser holds, under the
   session cookie's identity, the live cookie with the session's final ID kf -
   with every attribute of the template if the response set anything. *)
Theorem browser_session c hs r x nowb name t j :
  Forall ff_hop hs -> Forall crash_free hs -> rq_plan r = [] -> rq_crash r = None ->
  let w := reach c hs in let o := snd (step w (HReq r)) in
  ob_res o = RSess -> ~ In SDestroy (firstn (List.length (ob_script o)) (rq_script r)) ->
  rq_present r = PJar -> tmpl_usable x nowb name t = true ->
  abs_jar x name t j = jar_of (w_jars w) (rq_client r) ->
  let j' := jar_apply_all x nowb j (render_all name t (ob_cookies o)) in
  exists kf rf, ob_final o = Some (kf, rf) /\ abs_jar x name t j' = CKey kf /\
    (ob_cookies o <> [] -> jar_lookup (session_key x name t) j' = Some (live_cookie name t kf)).
Proof.
  intros Hff Hcf Hpl Hcr. cbv zeta. intros Hres Hnd Hp Hu Habs.
  destruct (c18_reach c hs r Hff Hcf Hpl Hcr Hres) as (kf & rf & Hfin & _ & _ & _ & Hrest).
  destruct (Hrest Hnd) as (Happ & _ & _). exists kf, rf. split; [exact Hfin|].
  unfold presents in Happ. rewrite Hp in Happ.
  assert (Hnb : no_bad (ob_cookies (snd (step (reach c hs) (HReq r))))) by exact (step_plain _ _).
  split.
  - rewrite jar_refines by assumption. rewrite Habs. exact Happ.
  - intro Hne. destruct (ob_cookies (snd (step (reach c hs) (HReq r)))) as [|c0 cs] eqn:Ecs; [contradiction|].
    rewrite jar_entry_after by assumption.
    assert (E : apply_cookies CNone (c0 :: cs) = CKey kf).
    { rewrite <- Happ. rewrite !apply_cookies_cons.
      apply no_bad_cons in Hnb as [Hc0 _]. destruct c0; [reflexivity | reflexivity | discriminate]. }
    rewrite E. reflexivity.
Qed.

(* whenever a theorem says the abstract jar is empty after a step (C07, C03:
   the response that ends a session), the browser holds no cookie at all under
   the session cookie's identity *)
Theorem browser_emptied w r x nowb name t j :
  rq_present r = PJar -> tmpl_usable x nowb name t = true ->
  abs_jar x name t j = jar_of (w_jars w) (rq_client r) ->
  ob_jar (snd (step w (HReq r))) = CNone ->
  jar_lookup (session_key x name t) (jar_apply_all x nowb j (render_all name t (ob_cookies (snd (step w (HReq r)))))) = None.
Proof.
  intros Hp Hu Habs Hnone. pose proof (step_browser w r x nowb name t j Hp Hu Habs) as H. rewrite Hnone in H.
  unfold abs_jar in H. destruct (jar_lookup _ _) as [hc|]; [|reflexivity].
  destruct (h_value hc); discriminate.
Qed.
