(* C01, history level, part 9: every step of a fault-free, crash-free history of
   cookie-following clients (any scripts) preserves the jar invariant and
   is admissible for the ghost specification; the theorem. *)
From Sessions Require Import Model.Base Model.Sess Model.Hist Model.Corr Proofs.SessDefs
  Proofs.WriteThrough Proofs.WriteThrough2 Proofs.WriteThrough3 Proofs.WriteThrough4 Proofs.WriteThrough5
  Proofs.RotateLaws Proofs.RotateLaws2
  Proofs.C01Spec Proofs.C01Hist Proofs.C01Hist2 Proofs.C01Hist3 Proofs.C01Hist4 Proofs.C01Hist5
  Proofs.C01Hist6 Proofs.C01Hist7 Proofs.C01Hist8.
From Sessions Require Proofs.HistInv Proofs.HistInv3.
From Coq Require Import Lia.

Lemma core_prep s t : plan s = [] ->
  WriteThrough.core s = WriteThrough.core (set_tb (set_plan (set_evs s []) []) t).
Proof. intro H. unfold WriteThrough.core. cbn. rewrite H. reflexivity. Qed.

Lemma core_fin s : plan s = [] -> WriteThrough.core s = WriteThrough.core (set_tb (set_plan s []) []).
Proof. intro H. unfold WriteThrough.core. cbn. rewrite H. reflexivity. Qed.

(* ------------------------------------------------- steps other than requests *)

Lemma quiet_set_pending_nil s : GR s -> quiet_step s (set_pending s []) (fun d => d).
Proof.
  intro HG. constructor.
  - apply GR_set_pending; [exact HG | intros d k []].
  - cbn. lia.
  - intros e [].
  - intros k d _ Hv. rewrite (view_ext s (set_pending s []) k); auto.
Qed.

Lemma quiet_set_conf s c : GR s -> quiet_step s (set_conf s c) (fun d => d).
Proof.
  intro HG.
  assert (Hv : forall k, view (set_conf s c) k = view s k) by (intro k; apply view_ext; reflexivity).
  constructor.
  - apply (GR_pres s _ (fun _ => False) HG); cbn [graves pending supply store set_conf].
    + reflexivity.
    + auto.
    + lia.
    + intros k _. apply Hv.
    + intros k x [].
    + apply HG.
  - cbn. lia.
  - auto.
  - intros k d _ Hvk. rewrite Hv. exact Hvk.
Qed.

Lemma quiet_logout_user s u s' :
  Inv noex s -> GR s -> logout_user s u = (s', Ok tt) -> quiet_step s s' (dropd [u]).
Proof.
  intros HI HG Hs. destruct (logout_user_eff s u HI HG) as (s2 & Hs2 & _ & HG2 & Hv & _ & Fpe & _ & Fu & _).
  assert (s2 = s') by congruence. subst s2. constructor; auto.
  - rewrite Fu. lia.
  - intro e. rewrite Fpe. auto.
  - intros k d _ [Hvk|Hvk]; rewrite Hv, Hvk; [left; reflexivity|]. right.
    change (dropu u (Some (None, d))) with (dropl [u] (Some (None, d))). apply dropl_dropd.
Qed.

Lemma quiet_refresh_user s u s' :
  Inv noex s -> GR s -> refresh_user s u = (s', Ok tt) -> quiet_step s s' (fun d => d).
Proof.
  intros HI HG Hs. destruct (refresh_user_eff s u HI HG) as (s2 & Hs2 & _ & HG2 & Hv & Fpe & _ & Fu & _).
  assert (s2 = s') by congruence. subst s2. constructor; auto.
  - rewrite Fu. lia.
  - intro e. rewrite Fpe. auto.
  - intros k d _ Hvk. rewrite Hv. exact Hvk.
Qed.

Lemma quiet_trans_id s s1 s2 :
  Inv noex s -> quiet_step s s1 (fun d => d) -> quiet_step s1 s2 (fun d => d) -> quiet_step s s2 (fun d => d).
Proof. intros HI H1 H2. exact (quiet_trans s s1 s2 _ _ HI H1 H2). Qed.

Definition is_req (h : hop) : bool := match h with HReq _ => true | _ => false end.

Lemma g_get_id g c : g_get g c = option_map (fun d : gdata => d) (g_get g c).
Proof. destruct (g_get g c); reflexivity. Qed.

Lemma step_other_JI w g h j :
  JI w g -> c_json (conf (w_st w)) = j -> wf_hop j h = true -> is_req h = false ->
  JI (fst (step w h)) (snd (g_step g h (snd (step w h)))) /\ fst (g_step g h (snd (step w h))) = true.
Proof.
  intros HJ Hj Hwf Hnr. pose proof (ji_inv _ _ HJ) as HI. pose proof (ji_gr _ _ HJ) as HG.
  destruct (step_Inv w h j HI Hj Hwf) as (HI' & _).
  assert (HW' : HistInv3.winv 0 HistInv.ND (w_st (fst (step w h)))).
  { destruct (HistInv3.step_winv 0 HistInv.ND w h (ji_pf _ _ HJ)) as (b' & HW & Hb & _).
    - destruct h as [r|d|tbl pl| | |u tbl pl|u tbl pl|c]; cbn [wf_hop HistInv3.ff_hop] in *; try exact I;
        try discriminate Hnr; destruct pl; try discriminate Hwf; reflexivity.
    - rewrite <- Hb; [exact HW|]. destruct h; cbn; try exact I. discriminate Hnr. }
  set (s := set_evs (w_st w) []) in *.
  assert (Hp : plan (w_st w) = []) by apply (inv_plan _ _ HI).
  assert (Hcs : WriteThrough.core (w_st w) = WriteThrough.core s) by reflexivity.
  assert (HIs : Inv noex s) by (apply (Inv_core noex _ _ Hcs HI)).
  assert (HGs : GR s) by (apply (GR_core _ _ Hcs); auto).
  assert (Qs : quiet_step (w_st w) s (fun d => d)) by (apply quiet_core; auto).
  destruct h as [r|d|tbl pl| | |u tbl pl|u tbl pl|c]; cbn [wf_hop] in Hwf; try discriminate Hnr.
  - (* wait *)
    revert HI' HW'. cbn [step fst snd g_step w_st]. fold s. intros HI' HW'. split; [|reflexivity].
    set (s1 := set_now s (now s + d)%Z) in *.
    assert (Hc1 : WriteThrough.core s = WriteThrough.core s1) by reflexivity.
    assert (HI1 : Inv noex s1) by (apply (Inv_core noex _ _ Hc1 HIs)).
    assert (HG1 : GR s1) by (apply (GR_core _ _ Hc1); auto).
    apply (JI_quiet w _ g g (fun d => d) HJ HI' HW'); [|apply g_get_id].
    apply (quiet_trans_id _ s _ HI Qs). apply (quiet_trans_id _ s1 _ HIs).
    + apply (quiet_core s s1); auto.
    + apply quiet_fire_due; assumption.
  - (* purge *)
    destruct pl; [|discriminate].
    revert HI' HW'. cbn [step fst snd g_step w_st]. fold s. intros HI' HW'. split; [|reflexivity].
    set (s1 := set_tb (set_plan s []) tbl) in *.
    assert (Hc1 : WriteThrough.core (w_st w) = WriteThrough.core s1) by (apply core_prep; exact Hp).
    assert (HI1 : Inv noex s1) by (apply (Inv_core noex _ _ Hc1 HI)).
    assert (HG1 : GR s1) by (apply (GR_core _ _ Hc1); auto).
    pose proof (purge_Inv noex s1 HI1) as HI2.
    pose proof (quiet_purge s1 HI1 HG1) as Q2.
    apply (JI_quiet w _ g g (fun d => d) HJ HI' HW'); [|apply g_get_id].
    apply (quiet_trans_id _ s1 _ HI); [apply (quiet_core _ s1 Hc1); auto|].
    apply (quiet_trans_id _ (purge s1) _ HI1 Q2).
    apply quiet_core; [apply core_fin; apply (inv_plan _ _ HI2) | reflexivity | reflexivity | apply Q2].
  - (* cache loss *)
    revert HI' HW'. cbn [step fst snd g_step w_st]. fold s. intros HI' HW'. split; [|reflexivity].
    apply (JI_quiet w _ g g (fun d => d) HJ HI' HW'); [|apply g_get_id].
    apply (quiet_trans_id _ s _ HI Qs). apply quiet_drop_cache; assumption.
  - (* restart *)
    revert HI' HW'. cbn [step fst snd g_step w_st]. fold s. unfold restart. intros HI' HW'. split; [|reflexivity].
    apply (JI_quiet w _ g g (fun d => d) HJ HI' HW'); [|apply g_get_id].
    pose proof (quiet_drop_cache s HIs HGs) as Q1.
    apply (quiet_trans_id _ s _ HI Qs).
    apply (quiet_trans_id _ (set_cache s []) _ HIs Q1). apply quiet_set_pending_nil. apply Q1.
  - (* LogOut(userID) *)
    destruct pl; [|discriminate]. revert HI' HW'. cbn [step]. fold s.
    set (s1 := set_tb (set_plan s []) tbl).
    assert (Hc1 : WriteThrough.core (w_st w) = WriteThrough.core s1) by (apply core_prep; exact Hp).
    assert (HI1 : Inv noex s1) by (apply (Inv_core noex _ _ Hc1 HI)).
    assert (HG1 : GR s1) by (apply (GR_core _ _ Hc1); auto).
    destruct (logout_user_eff s1 u HI1 HG1) as (s2 & Hs2 & HI2 & HG2 & _).
    pose proof (quiet_logout_user s1 u s2 HI1 HG1 Hs2) as Q2.
    rewrite Hs2. cbn [fst snd g_step w_st]. intros HI' HW'. split; [|reflexivity].
    set (s3 := set_tb (set_plan s2 []) []) in *.
    assert (Hc3 : WriteThrough.core s2 = WriteThrough.core s3) by (apply core_fin; apply (inv_plan _ _ HI2)).
    assert (HI3 : Inv noex s3) by (apply (Inv_core noex _ _ Hc3 HI2)).
    assert (HG3 : GR s3) by (apply (GR_core _ _ Hc3); auto).
    apply (JI_quiet w _ g _ (dropd [u]) HJ HI' HW'); [|intro c; apply g_get_drop_user].
    assert (QA : quiet_step (w_st w) s2 (dropd [u])).
    { exact (quiet_trans _ s1 _ _ _ HI (quiet_core _ s1 Hc1 eq_refl eq_refl HG) Q2). }
    assert (QB : quiet_step s2 (fire_due s3) (fun d => d)).
    { apply (quiet_trans_id _ s3 _ HI2); [apply (quiet_core _ s3 Hc3); auto|]. apply quiet_fire_due; assumption. }
    exact (quiet_trans _ s2 _ _ _ HI QA QB).
  - (* RefreshUser *)
    destruct pl; [|discriminate]. revert HI' HW'. cbn [step]. fold s.
    set (s1 := set_tb (set_plan s []) tbl).
    assert (Hc1 : WriteThrough.core (w_st w) = WriteThrough.core s1) by (apply core_prep; exact Hp).
    assert (HI1 : Inv noex s1) by (apply (Inv_core noex _ _ Hc1 HI)).
    assert (HG1 : GR s1) by (apply (GR_core _ _ Hc1); auto).
    destruct (refresh_user_eff s1 u HI1 HG1) as (s2 & Hs2 & HI2 & HG2 & _).
    pose proof (quiet_refresh_user s1 u s2 HI1 HG1 Hs2) as Q2.
    rewrite Hs2. cbn [fst snd g_step w_st]. intros HI' HW'. split; [|reflexivity].
    set (s3 := set_tb (set_plan s2 []) []) in *.
    assert (Hc3 : WriteThrough.core s2 = WriteThrough.core s3) by (apply core_fin; apply (inv_plan _ _ HI2)).
    assert (HI3 : Inv noex s3) by (apply (Inv_core noex _ _ Hc3 HI2)).
    assert (HG3 : GR s3) by (apply (GR_core _ _ Hc3); auto).
    apply (JI_quiet w _ g g (fun d => d) HJ HI' HW'); [|apply g_get_id].
    apply (quiet_trans_id _ s1 _ HI); [apply (quiet_core _ s1 Hc1); auto|].
    apply (quiet_trans_id _ s2 _ HI1 Q2).
    apply (quiet_trans_id _ s3 _ HI2); [apply (quiet_core _ s3 Hc3); auto|].
    apply quiet_fire_due; assumption.
  - (* configuration change *)
    revert HI' HW'. cbn [step fst snd g_step w_st]. fold s. intros HI' HW'. split; [|reflexivity].
    apply (JI_quiet w _ g g (fun d => d) HJ HI' HW'); [|apply g_get_id].
    apply (quiet_trans_id _ s _ HI Qs). apply quiet_set_conf. exact HGs.
Qed.
