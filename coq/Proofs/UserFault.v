(* Task A6, C11/C08: the user field under ARBITRARY fault plans, part 1: a
   condition on the user recorded under one ID (store side Ps, memory side Pm),
   and what the cache operations do to it whatever fails.

   wfc s: cached indices are valid (cv), every cached object's own ID is the key
   it is cached under (cok), cache keys are unique. cv and uniqueness hold in
   every reachable state; cok holds in every state reached without faults but
   is NOT kept by a RegenerateID whose first save fails (the object then has
   the new ID and is still cached under the old one): see UserFaultEx.v for
   what LogOut(userID) acknowledges from such a state. *)
From Sessions Require Import Model.Base Model.Sess Model.Hist Proofs.SessDefs Proofs.CrashFault
  Proofs.CrashFault2 Proofs.CrashFault3 Proofs.CrashFault4.
From Coq Require Import Lia.

(* the user after the codec's round trip: stored by ID, re-loaded as version 0 *)
Definition cu (x : option user) : option user :=
  match x with Some (i, _) => Some (i, 0%N) | None => None end.

Lemma codec_user c r : r_user (codec c r) = cu (r_user r).
Proof. unfold codec, cu. cbn [r_user]. destruct (r_user r) as [[i v]|]; reflexivity. Qed.

Definition KT : key -> rec -> Prop := fun _ _ => True.

Definition wfc (s : st) : Prop := cv s /\ cok s /\ NoDup (map fst (cache s)).

Lemma cv_J s : cv s -> J KT s.
Proof. intro H. split; [exact H|]. split; repeat intro; exact I. Qed.

Lemma wfc_same s s' : heap s' = heap s -> cache s' = cache s -> wfc s -> wfc s'.
Proof.
  intros Hh Hc (A & B & C). unfold wfc, cv, cok. rewrite Hc, Hh. split; [exact A|]. split; [|exact C].
  intros k o ob Hi Ho. rewrite (hget_eq _ _ _ Hh) in Ho. eapply B; eassumption.
Qed.

Lemma lookup_None_In {A} (l : list (key * A)) k v : lookup l k = None -> ~ In (k, v) l.
Proof. intros H Hi. apply lookup_None_notin in H. apply H. apply (in_map fst) in Hi. exact Hi. Qed.


(* The listed IDs whose round of the loop of LogOut(userID) / RefreshUser was
   completed (the ID was gone and skipped, or its session was changed and the
   write-through save succeeded), in list order. Executable; a prefix of ids. *)
Fixpoint eus_done (s : st) (ids : list key) (u : option user) : list key :=
  match ids with
  | [] => []
  | k :: t =>
    let '(s, r) := cache_get s k in
    match r with
    | None => []
    | Some None => k :: eus_done s t u
    | Some (Some o) =>
      let s := hupd s o (fun r => set_user r u) in
      let '(s, ok) := cache_set s o in
      if ok then k :: eus_done s t u else []
    end
  end.

Section UCond.
  Variables Ps Pm : option user -> Prop.
  Hypothesis Pcodec : forall x, Pm x -> Ps (cu x).

  Definition uS (s : st) (k : key) : Prop := forall r, lookup (store s) k = Some r -> Ps (r_user r).
  Definition uM (s : st) (k : key) : Prop :=
    forall o ob, lookup (cache s) k = Some o -> hget s o = Some ob -> Pm (r_user (o_rec ob)).
  Definition uc (s : st) (k : key) : Prop := uS s k /\ uM s k.

  (* the store side as a save discipline *)
  Definition Kk (k : key) : key -> rec -> Prop := fun k' r => k' = k -> Ps (r_user r).

  Lemma uS_storeK s k : uS s k <-> storeK (Kk k) (store s).
  Proof.
    split.
    - intros H k' r Hl ->. apply H. exact Hl.
    - intros H r Hl. apply (H k r Hl). reflexivity.
  Qed.

  Lemma uS_ext s s' l k : ext s s' l -> Forall (QK (Kk k)) l -> uS s k -> uS s' k.
  Proof. intros X HQ H. apply uS_storeK. eapply storeK_ext; [exact X | apply uS_storeK; exact H | exact HQ]. Qed.

  Lemma uS_store_eq s s' k : store s' = store s -> uS s k -> uS s' k.
  Proof. intros E H r. rewrite E. apply H. Qed.

  Lemma Fl_QK s k : NoDup (map fst (cache s)) -> uM s k ->
    forall e, Fl (heap s) (conf s) (cache s) e -> QK (Kk k) e.
  Proof.
    intros Hn HM e (k0 & o0 & ob0 & b & -> & Hin & Hnth). apply QK_save. intros ->.
    rewrite codec_user. apply Pcodec. apply (HM o0 ob0); [apply NoDup_lookup; assumption | exact Hnth].
  Qed.

  Lemma uM_flushes s s' k : flushes (cache s) s s' -> uM s k -> uM s' k.
  Proof.
    intros (l & _ & _ & Hh & _ & _ & Hl & _) HM o ob El Ho. rewrite (hget_eq _ _ _ Hh) in Ho.
    apply (HM o ob (Hl _ _ El) Ho).
  Qed.

  Lemma uc_flushes s s' k : NoDup (map fst (cache s)) -> flushes (cache s) s s' -> uc s k -> uc s' k.
  Proof.
    intros Hn F [HS HM]. split; [|eapply uM_flushes; eassumption].
    destruct F as (l & X & HF & _). eapply uS_ext; [exact X| |exact HS].
    eapply Forall_impl; [|exact HF]. apply Fl_QK; assumption.
  Qed.

  (* states with the same cache whose heaps agree, as far as the user goes, on
     the object cached under k *)
  Lemma uM_same s s' k : cache s' = cache s ->
    (forall o ob, lookup (cache s) k = Some o -> hget s' o = Some ob ->
       exists ob0, hget s o = Some ob0 /\ r_user (o_rec ob0) = r_user (o_rec ob)) ->
    uM s k -> uM s' k.
  Proof.
    intros Hc Hh HM o ob El Ho. rewrite Hc in El. destruct (Hh o ob El Ho) as (ob0 & Ho0 & <-). apply (HM o ob0 El Ho0).
  Qed.

  Lemma uc_same s s' k : cache s' = cache s -> store s' = store s ->
    (forall o ob, lookup (cache s) k = Some o -> hget s' o = Some ob ->
       exists ob0, hget s o = Some ob0 /\ r_user (o_rec ob0) = r_user (o_rec ob)) ->
    uc s k -> uc s' k.
  Proof. intros Hc Hs Hh [HS HM]. split; [eapply uS_store_eq; eassumption | eapply uM_same; eassumption]. Qed.

  Lemma uM_mem s s' k : same_mem s s' -> uM s k -> uM s' k.
  Proof.
    intros (Hh & Hc & _). apply uM_same; [exact Hc|].
    intros o ob _ Ho. rewrite (hget_eq _ _ _ Hh) in Ho. exists ob. auto.
  Qed.

  Lemma uc_mem s s' k : same_mem s s' -> store s' = store s -> uc s k -> uc s' k.
  Proof. intros M Hs [HS HM]. split; [eapply uS_store_eq; eassumption | eapply uM_mem; eassumption]. Qed.

  Lemma uc_halloc s v k : cv s -> uc s k -> uc (fst (halloc s v)) k.
  Proof.
    intros Hv. apply uc_same; try reflexivity. intros o ob El Ho.
    rewrite hget_halloc_old in Ho by (eapply Hv; apply lookup_In; exact El). exists ob. auto.
  Qed.

  (* replacing an object by one with the same user *)
  Lemma hput_user_agree s o ob v : hget s o = Some ob -> r_user (o_rec v) = r_user (o_rec ob) ->
    forall o' ob', hget (hput s o v) o' = Some ob' ->
      exists ob0, hget s o' = Some ob0 /\ r_user (o_rec ob0) = r_user (o_rec ob').
  Proof.
    intros Ho Hu o' ob' Ho'. destruct (Nat.eq_dec o o') as [<-|Hne].
    - rewrite hget_hput_same in Ho' by (eapply hget_Some_lt; exact Ho). injection Ho' as <-. exists ob. auto.
    - rewrite hget_hput_other in Ho' by exact Hne. exists ob'. auto.
  Qed.

  Lemma uM_hput_user s o ob v k : hget s o = Some ob -> r_user (o_rec v) = r_user (o_rec ob) ->
    uM s k -> uM (hput s o v) k.
  Proof. intros Ho Hu. apply uM_same; [reflexivity|]. intros o' ob' _. apply (hput_user_agree _ _ _ _ Ho Hu). Qed.

  Lemma uc_hput_user s o ob v k : hget s o = Some ob -> r_user (o_rec v) = r_user (o_rec ob) ->
    uc s k -> uc (hput s o v) k.
  Proof. intros Ho Hu [HS HM]. split; [exact HS | eapply uM_hput_user; eassumption]. Qed.

  (* replacing an object that is not the one cached under k *)
  Lemma uc_hput_other s o v k : lookup (cache s) k <> Some o -> uc s k -> uc (hput s o v) k.
  Proof.
    intros Hne. apply uc_same; try reflexivity. intros o' ob' El Ho'.
    rewrite hget_hput_other in Ho' by congruence. exists ob'. auto.
  Qed.

  Lemma uc_upsert_other s k0 o0 k : k <> k0 -> uc s k -> uc (set_cache s (upsert (cache s) k0 o0)) k.
  Proof.
    intros Hne [HS HM]. split; [exact HS|]. intros o ob. cbn [cache set_cache].
    rewrite lookup_upsert_other by exact Hne. apply HM.
  Qed.

  Lemma uM_upsert_own s k0 o0 ob0 : hget s o0 = Some ob0 -> Pm (r_user (o_rec ob0)) ->
    uM (set_cache s (upsert (cache s) k0 o0)) k0.
  Proof.
    intros Ho HP o ob. cbn [cache set_cache]. rewrite lookup_upsert_same. intro E. injection E as <-.
    change (hget (set_cache s (upsert (cache s) k0 o0)) o0) with (hget s o0). rewrite Ho. intro E. injection E as <-. exact HP.
  Qed.

  Lemma uc_psave_other s k0 r s' b k : p_save s k0 r = (s', b) -> k <> k0 -> uc s k -> uc s' k.
  Proof.
    intros HS Hne [H1 H2]. apply p_save_spec in HS. destruct HS as (M & _ & _ & Hst & _).
    split; [|eapply uM_mem; eassumption]. intros r'. rewrite Hst.
    destruct b; [rewrite lookup_upsert_other by exact Hne|]; apply H1.
  Qed.

  (* ---------------------------------------------------------- cache_get *)
  Lemma cache_get_uc s k0 s' g :
    wfc s -> cache_get s k0 = (s', g) ->
    wfc s' /\
    (forall k, k <> k0 -> uc s k -> uc s' k) /\
    (uS s k0 -> uS s' k0) /\
    (g = None \/ g = Some None -> heap s' = heap s /\ cache s' = cache s /\ store s' = store s) /\
    (g = Some None -> lookup (cache s) k0 = None /\ lookup (store s) k0 = None) /\
    (forall o, g = Some (Some o) ->
       (exists ob, hget s' o = Some ob /\ o_id ob = k0) /\
       (lookup (cache s') k0 = Some o \/ lookup (cache s') k0 = None)).
  Proof.
    intros (Hcv & Hcok & Hnd) HG.
    destruct (cache_get_safe KT (fun _ _ _ H => H) _ _ _ _ (cv_J _ Hcv) HG) as (l0 & X0 & _ & HJ' & _ & HE & Hi & Hn' & Hr).
    destruct (cache_get_cok KT (fun _ _ _ H => H) _ _ _ _ (cv_J _ Hcv) Hcok HG) as [Hcok' Hg'].
    assert (W' : wfc s') by (split; [apply HJ' | split; [exact Hcok' | apply Hn'; exact Hnd]]).
    split; [exact W'|].
    apply cache_get_spec in HG. destruct HG as [(o & EL & -> & ->)|(EL & s1 & lr & EP & HG)].
    { split; [auto|]. split; [auto|]. split; [intros [E|E]; discriminate|]. split; [discriminate|].
      intros o' E. injection E as <-. split; [|left; exact EL].
      destruct Hg' as (ob & A & B & _). exists ob. auto. }
    apply p_load_spec in EP. destruct EP as (M1 & Hs1 & _ & l1 & X1 & _ & _ & Hres).
    destruct lr as [[rc|]|].
    2,3: destruct HG as [-> ->];
      (split; [intros k _; apply uc_mem; [exact M1 | exact Hs1]|]);
      (split; [apply uS_store_eq; exact Hs1|]);
      (split; [intros _; destruct M1 as (Hh & Hc & _); auto|]);
      (split; [try discriminate; intros _; split; assumption|]); intros o E; discriminate.
    destruct HG as [-> ->].
    assert (Hload : forall k, uc s k -> uc (fst (halloc s1 (mkObj k0 rc))) k).
    { intros k H. apply uc_halloc; [|eapply uc_mem; [exact M1 | exact Hs1 | exact H]].
      destruct M1 as (Hh & Hc & _). unfold cv. rewrite Hh, Hc. exact Hcv. }
    assert (Hnd1 : NoDup (map fst (cache (fst (halloc s1 (mkObj k0 rc)))))).
    { destruct M1 as (_ & Hc & _). cbn [halloc fst cache set_heap]. rewrite Hc. exact Hnd. }
    assert (Hall : forall k, uc s k -> uc (if (c_maxcache (conf (fst (halloc s1 (mkObj k0 rc)))) =? 0)%Z
                                           then fst (halloc s1 (mkObj k0 rc))
                                           else compact (fst (halloc s1 (mkObj k0 rc))) 1) k).
    { intros k H. destruct (_ =? _)%Z; [apply Hload; exact H|].
      apply uc_flushes with (s := fst (halloc s1 (mkObj k0 rc))); [exact Hnd1 | apply compact_flushes | apply Hload; exact H]. }
    assert (Hunc : uM s k0) by (intros o ob El; congruence).
    split; [|split; [|split; [|split]]].
    - intros k Hne H. unfold after_load. cbv zeta. pose proof (Hall k H) as H1.
      destruct (_ =? _)%Z; [exact H1|]. apply uc_upsert_other; assumption.
    - intros HS. unfold after_load. cbv zeta. pose proof (Hall k0 (conj HS Hunc)) as [H1 _].
      destruct (_ =? _)%Z; exact H1.
    - intros [E|E]; discriminate.
    - discriminate.
    - intros o E. injection E as <-. split.
      + destruct Hg' as (ob & A & B & _). exists ob. auto.
      + destruct (lookup (cache (after_load s1 k0 rc)) k0) as [o'|] eqn:El'; [left|right; reflexivity].
        apply lookup_In in El'. destruct (Hi _ _ El') as [Hin|(_ & _ & E & _)].
        * exfalso. eapply lookup_None_In; eassumption.
        * congruence.
  Qed.

  (* ---------------------------------------------------------- cache_set *)
  Lemma cache_set_uc s o ob s' b :
    cv s -> NoDup (map fst (cache s)) -> hget s o = Some ob -> cache_set s o = (s', b) ->
    cv s' /\ NoDup (map fst (cache s')) /\ (cok s -> cok s') /\
    (forall k, k <> o_id ob -> uc s k -> uc s' k) /\
    (Pm (r_user (o_rec ob)) ->
     (lookup (cache s) (o_id ob) = Some o \/ lookup (cache s) (o_id ob) = None) ->
     uM s' (o_id ob) /\ (b = true -> uS s' (o_id ob)) /\ (uS s (o_id ob) -> uS s' (o_id ob))).
  Proof.
    intros Hcv Hnd Ho HS.
    destruct (cache_set_safe KT (fun _ _ _ H => H) (fun _ _ _ H => H) _ _ _ _ _ (cv_J _ Hcv) Ho HS)
      as (l0 & _ & _ & _ & Hcv' & _ & _ & _ & Hn' & _).
    split; [exact Hcv'|]. split; [apply Hn'; exact Hnd|]. split.
    { intro Hcok. destruct (cache_set_user KT (fun _ _ _ H => H) (fun _ _ _ H => H) _ _ _ _ _ (cv_J _ Hcv) Hcok Ho I HS)
        as (l1 & _ & _ & _ & Hcok' & _). exact Hcok'. }
    apply cache_set_spec in HS. destruct HS as [(Hn & _)|(ob0 & Ho0 & HS)]; [congruence|].
    assert (ob0 = ob) by congruence. subst ob0. clear Ho0. cbv zeta in HS.
    set (s1 := hput s o (touch s ob)) in *.
    set (req := (if has (cache s1) (o_id ob) then 0 else 1)%Z) in *.
    set (s2 := compact s1 req) in *.
    set (s3 := if (c_maxcache (conf s2) =? 0)%Z then s2 else set_cache s2 (upsert (cache s2) (o_id ob) o)) in *.
    assert (F12 : flushes (cache s1) s1 s2) by apply compact_flushes.
    assert (Hnd1 : NoDup (map fst (cache s1))) by exact Hnd.
    assert (Hh2 : heap s2 = heap s1) by (destruct F12 as (l & _ & _ & Hh & _); exact Hh).
    assert (Ho2 : hget s2 o = Some (touch s ob)).
    { rewrite (hget_eq _ _ _ Hh2). apply hget_hput_same. eapply hget_Some_lt; exact Ho. }
    assert (H02 : forall k, uc s k -> uc s2 k).
    { intros k H. apply uc_flushes with (s := s1); [exact Hnd1 | exact F12|].
      eapply uc_hput_user; [exact Ho | reflexivity | exact H]. }
    pose proof (p_save_spec _ _ _ _ _ HS) as (M34 & _ & _ & Hst4 & _).
    split.
    - intros k Hne H. eapply uc_psave_other; [exact HS | exact Hne|].
      unfold s3. destruct (_ =? _)%Z; [apply H02; exact H | apply uc_upsert_other; [exact Hne | apply H02; exact H]].
    - intros HP Hca.
      assert (HM0 : uM s (o_id ob)).
      { intros o' ob' El Ho'. destruct Hca as [E|E]; [|congruence]. assert (o' = o) by congruence. subst o'.
        assert (ob' = ob) by congruence. subst ob'. exact HP. }
      assert (HM2 : uM s2 (o_id ob)).
      { apply uM_flushes with (s := s1); [exact F12|]. eapply uM_hput_user; [exact Ho | reflexivity | exact HM0]. }
      assert (HM3 : uM s3 (o_id ob)).
      { unfold s3. destruct (_ =? _)%Z; [exact HM2|]. eapply uM_upsert_own; [exact Ho2 | exact HP]. }
      assert (Hst3 : store s3 = store s2) by (unfold s3; destruct (_ =? _)%Z; reflexivity).
      split; [eapply uM_mem; eassumption|]. split.
      + intros -> r. rewrite Hst4, lookup_upsert_same. intro E. injection E as <-.
        rewrite codec_user. apply Pcodec. exact HP.
      + intros HS0 r. rewrite Hst4. destruct b.
        * rewrite lookup_upsert_same. intro E. injection E as <-. rewrite codec_user. apply Pcodec. exact HP.
        * rewrite Hst3. apply (H02 _ (conj HS0 HM0)).
  Qed.

  (* ------------------------------- one round of the loop that found a session *)
  Lemma round_uc s k0 s1 o u s3 b :
    wfc s -> cache_get s k0 = (s1, Some (Some o)) ->
    cache_set (hupd s1 o (fun r => set_user r u)) o = (s3, b) ->
    wfc s3 /\
    (forall k, k <> k0 -> uc s k -> uc s3 k) /\
    (Pm u -> uM s3 k0 /\ (b = true -> uS s3 k0) /\ (uS s k0 -> uS s3 k0)).
  Proof.
    intros W HG HS.
    destruct (cache_get_uc _ _ _ _ W HG) as (W1 & Hfr1 & HS1 & _ & _ & Hg).
    destruct (Hg o eq_refl) as ((ob & Ho & Hid) & Hca). clear Hg.
    rewrite (hupd_spec _ _ _ _ Ho) in HS.
    set (ob' := mkObj (o_id ob) (set_user (o_rec ob) u)) in *. set (s2 := hput s1 o ob') in *.
    pose proof W1 as (Hcv1 & Hcok1 & Hnd1).
    assert (Hlt : o < length (heap s1)) by (eapply hget_Some_lt; exact Ho).
    assert (Ho2 : hget s2 o = Some ob') by (apply hget_hput_same; exact Hlt).
    assert (W2 : wfc s2).
    { split; [|split; [|exact Hnd1]].
      - intros k' o' H. unfold s2. rewrite hput_len. eapply Hcv1. exact H.
      - eapply cok_hput; [exact Hcok1 | exact Ho | reflexivity]. }
    assert (Hother : forall k, k <> k0 -> lookup (cache s1) k <> Some o).
    { intros k Hne El. apply lookup_In in El. pose proof (Hcok1 _ _ _ El Ho). congruence. }
    destruct (cache_set_uc _ _ _ _ _ (proj1 W2) (proj2 (proj2 W2)) Ho2 HS) as (Hcv3 & Hnd3 & Hcok3 & Hfr3 & Hown).
    split; [split; [exact Hcv3 | split; [apply Hcok3; apply W2 | exact Hnd3]]|]. split.
    - intros k Hne H. apply Hfr3; [cbn [ob' o_id]; congruence|].
      apply uc_hput_other; [apply Hother; exact Hne | apply Hfr1; assumption].
    - intro Hu. cbn [ob' o_id o_rec set_user r_user] in Hown. rewrite Hid in Hown.
      destruct (Hown Hu Hca) as (A & B & C). split; [exact A|]. split; [exact B|].
      intro H. apply C. apply HS1. exact H.
  Qed.

  (* ------------------------------------------------------------- the loop *)
  (* keys that already satisfied the condition keep it (the loop writes u) *)
  Lemma eus_fault u : Pm u -> forall ids s s' r,
    wfc s -> each_user_session s ids u = (s', r) ->
    wfc s' /\
    (forall k, uc s k -> uc s' k) /\
    (forall k, In k (eus_done s ids u) -> uc s' k) /\
    match r with
    | Ok _ => eus_done s ids u = ids
    | Err e => exists k post, ids = eus_done s ids u ++ k :: post /\
                 (e = ECacheGet \/ (e = ECacheSet /\ uM s' k))
    | Panic _ => False
    end.
  Proof.
    intro Hu. induction ids as [|k0 t IH]; intros s s' r W HE; cbn [each_user_session eus_done] in *.
    - injection HE as <- <-. split; [exact W|]. split; [auto|]. split; [intros k []|reflexivity].
    - destruct (cache_get s k0) as [s1 g] eqn:EG.
      pose proof (cache_get_uc _ _ _ _ W EG) as (W1 & Hfr1 & HS1 & Hsame & Hgone & _).
      destruct g as [[o|]|].
      + destruct (cache_set (hupd s1 o (fun r => set_user r u)) o) as [s3 b] eqn:ES.
        destruct (round_uc _ _ _ _ _ _ _ W EG ES) as (W3 & Hfr3 & Hown). destruct (Hown Hu) as (HM3 & HSb & HSk).
        assert (Hkeep : forall k, uc s k -> uc s3 k).
        { intros k H. destruct (key_eq_dec k k0) as [->|Hne]; [|apply Hfr3; assumption].
          split; [apply HSk; apply H | exact HM3]. }
        destruct b.
        * destruct (IH _ _ _ W3 HE) as (W' & Hk' & Hd' & Hr'). split; [exact W'|].
          split; [intros k H; apply Hk', Hkeep, H|]. split.
          { intros k [<-|Hin]; [apply Hk'; split; [apply HSb; reflexivity | exact HM3] | apply Hd'; exact Hin]. }
          destruct r as [a|e|e]; [rewrite Hr'; reflexivity| |exact Hr'].
          destruct Hr' as (k & post & Hids & Hcase). exists k, post. split; [cbn [app]; rewrite <- Hids; reflexivity|].
          exact Hcase.
        * injection HE as <- <-. split; [exact W3|]. split; [exact Hkeep|]. split; [intros k []|].
          exists k0, t. split; [reflexivity|]. right. split; [reflexivity | exact HM3].
      + destruct (Hsame (or_intror eq_refl)) as (Hh & Hc & Hst). destruct (Hgone eq_refl) as [Hcn Hsn].
        assert (Hkeep : forall k, uc s k -> uc s1 k).
        { intros k. apply uc_same; [exact Hc | exact Hst|]. intros o ob _ Ho. rewrite (hget_eq _ _ _ Hh) in Ho. exists ob. auto. }
        destruct (IH _ _ _ W1 HE) as (W' & Hk' & Hd' & Hr'). split; [exact W'|].
        split; [intros k H; apply Hk', Hkeep, H|]. split.
        { intros k [<-|Hin]; [|apply Hd'; exact Hin]. apply Hk', Hkeep. split; [intros r0 E | intros o ob E]; congruence. }
        destruct r as [a|e|e]; [rewrite Hr'; reflexivity| |exact Hr'].
        destruct Hr' as (k & post & Hids & Hcase). exists k, post. split; [cbn [app]; rewrite <- Hids; reflexivity|].
        exact Hcase.
      + injection HE as <- <-. destruct (Hsame (or_introl eq_refl)) as (Hh & Hc & Hst).
        split; [exact W1|]. split.
        { intros k. apply uc_same; [exact Hc | exact Hst|]. intros o ob _ Ho. rewrite (hget_eq _ _ _ Hh) in Ho. exists ob. auto. }
        split; [intros k []|]. exists k0, t. split; [reflexivity|]. left. reflexivity.
  Qed.

  (* the sessions not yet reached are untouched: any codec-closed condition on
     the user under another ID is kept (no assumption on u) *)
  Lemma eus_frame u : forall ids s s' r,
    wfc s -> each_user_session s ids u = (s', r) ->
    forall k, ~ In k (eus_done s ids u) ->
      (r = Err ECacheSet -> forall post, ids <> eus_done s ids u ++ k :: post) ->
      uc s k -> uc s' k.
  Proof.
    induction ids as [|k0 t IH]; intros s s' r W HE k Hnin Hset H; cbn [each_user_session eus_done] in *.
    - injection HE as <- <-. exact H.
    - destruct (cache_get s k0) as [s1 g] eqn:EG.
      pose proof (cache_get_uc _ _ _ _ W EG) as (W1 & Hfr1 & HS1 & Hsame & Hgone & _).
      destruct g as [[o|]|].
      + destruct (cache_set (hupd s1 o (fun r => set_user r u)) o) as [s3 b] eqn:ES.
        destruct (round_uc _ _ _ _ _ _ _ W EG ES) as (W3 & Hfr3 & _).
        destruct b.
        * assert (Hne : k <> k0) by (intro E; apply Hnin; left; congruence).
          apply (IH _ _ _ W3 HE k); [intro Hin; apply Hnin; right; exact Hin| |apply Hfr3; assumption].
          intros Hr post E. apply (Hset Hr post). cbn [app]. rewrite <- E. reflexivity.
        * injection HE as <- <-. apply Hfr3; [|exact H]. intros ->. apply (Hset eq_refl t). reflexivity.
      + destruct (Hsame (or_intror eq_refl)) as (Hh & Hc & Hst).
        apply (IH _ _ _ W1 HE k); [intro Hin; apply Hnin; right; exact Hin| |].
        * intros Hr post E. apply (Hset Hr post). cbn [app]. rewrite <- E. reflexivity.
        * revert H. apply uc_same; [exact Hc | exact Hst|]. intros o ob _ Ho. rewrite (hget_eq _ _ _ Hh) in Ho. exists ob. auto.
      + injection HE as <- <-. destruct (Hsame (or_introl eq_refl)) as (Hh & Hc & Hst).
        revert H. apply uc_same; [exact Hc | exact Hst|]. intros o ob _ Ho. rewrite (hget_eq _ _ _ Hh) in Ho. exists ob. auto.
  Qed.

  (* ------------------------------------------------------- RegenerateID *)
  (* whatever fails, RegenerateID leaves the condition alone under every ID
     other than the session's old and new one *)
  Lemma regenerate_frame s o ob s' res cks k :
    cv s -> cok s -> NoDup (map fst (cache s)) -> hget s o = Some ob -> regenerate s o = (s', res, cks) ->
    k <> o_id ob -> k <> KGen (supply s) -> uc s k -> uc s' k.
  Proof.
    intros Hcv Hcok Hnd Ho HR Hne1 Hne2 H.
    pose proof (regenerate_spec _ _ _ _ _ _ Ho HR) as HS. cbv zeta in HS.
    set (nid := KGen (supply s)) in *.
    set (ob1 := mkObj nid (set_created (o_rec ob) (now s))) in *.
    set (s1 := hput (fst (gen_id s)) o ob1) in *.
    destruct HS as (s2 & b1 & EC1 & Ho1 & HS).
    assert (Hno : lookup (cache s) k <> Some o).
    { intro El. apply lookup_In in El. pose proof (Hcok _ _ _ El Ho). congruence. }
    assert (H1 : uc s1 k).
    { unfold s1. apply uc_hput_other; [exact Hno|]. revert H. apply uc_same; try reflexivity.
      intros o' ob' _ Ho'. exists ob'. auto. }
    assert (Hcv1 : cv s1). { intros k' o' Hi. unfold s1. rewrite hput_len. eapply Hcv. exact Hi. }
    assert (Hnd1 : NoDup (map fst (cache s1))) by exact Hnd.
    destruct (cache_set_uc _ _ _ _ _ Hcv1 Hnd1 Ho1 EC1) as (Hcv2 & Hnd2 & _ & Hfr2 & _).
    assert (H2 : uc s2 k) by (apply Hfr2; [exact Hne2 | exact H1]).
    destruct b1; [|destruct HS as (-> & _); exact H2].
    destruct HS as (Ho2 & s4 & b2 & EC2 & HS).
    set (obr := mkObj (o_id ob) (ref_rec (o_rec (touch s1 ob1)) (now s2) nid)) in *.
    set (s3 := fst (halloc s2 obr)) in *.
    assert (H3 : uc s3 k) by (apply uc_halloc; assumption).
    assert (Hcv3 : cv s3).
    { intros k' o' Hi. unfold s3. cbn [halloc fst heap set_heap]. rewrite app_length. pose proof (Hcv2 _ _ Hi). lia. }
    assert (Hor : hget s3 (length (heap s2)) = Some obr) by apply (hget_halloc_new s2).
    destruct (cache_set_uc _ _ _ _ _ Hcv3 Hnd2 Hor EC2) as (_ & _ & _ & Hfr4 & _).
    assert (H4 : uc s4 k) by (apply Hfr4; [exact Hne1 | exact H3]).
    destruct b2; destruct HS as (-> & _); [|exact H4].
    revert H4. apply uc_same; try reflexivity. intros o' ob' _ Ho'. exists ob'. auto.
  Qed.
End UCond.
