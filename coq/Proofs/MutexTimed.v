(* C13/C14, timed layer (audit task A7): the timed model of Model/MutexTimed.v
   erases to the untimed protocol of Model/Mutex.v, and under the time proviso
   ("holds are short", `tadm`/`tshort`) the erased run is admissible (`adm`),
   so that every theorem about admissible runs applies to timed runs.

   The argument that used to be prose: at a purge loop (manager in MPurge) an
   entry with lock count > 0 has a holder (untimed invariant); the holder's
   hold started at a getItem of that key, and lastAccess of the entry is at
   least that instant (timed invariant below); the proviso bounds the age of
   the hold by `stale`; hence `time.Since(lastAccess) > stale` is false. *)
From Sessions Require Import Model.Base Model.Mutex Model.MutexTimed
  Proofs.MutexBasics Proofs.MutexSafety.
From Coq Require Import Lia.

(* ---- time maps ---- *)

Lemma mget_mkeep p m k : mget (mkeep p m) k = if p k then mget m k else None.
Proof.
  unfold mkeep. induction m as [|[k' v] m IH]; simpl; [destruct (p k); reflexivity|].
  destruct (p k') eqn:Ep; simpl.
  - destruct (Nat.eqb k' k) eqn:E; [|exact IH].
    apply Nat.eqb_eq in E; subst k'. rewrite Ep. reflexivity.
  - rewrite IH. destruct (Nat.eqb k' k) eqn:E; [|reflexivity].
    apply Nat.eqb_eq in E; subst k'. rewrite Ep. reflexivity.
Qed.

Lemma mget_mset k v m k' : mget (mset k v m) k' = if Nat.eqb k k' then Some v else mget m k'.
Proof.
  unfold mset. simpl. destruct (Nat.eqb k k') eqn:E; [reflexivity|].
  rewrite mget_mkeep. rewrite Nat.eqb_sym, E. reflexivity.
Qed.

(* ---- the shape of a timed step ---- *)

Definition touchm (st : state) (l : label) (t : N) (m : tmap) : tmap :=
  match touched st l with Some k => mset k t m | None => m end.

Definition hs_after (ts : tstate) (l : label) (t : N) : tmap :=
  match l with
  | LGrant g =>
      match waited (ust ts) g with
      | Some k => mset g (match mget (tch ts) k with Some v => v | None => t end) (hs ts)
      | None => hs ts
      end
  | _ => hs ts
  end.

Definition gt_after (ts : tstate) (l : label) (t : N) : tmap :=
  match l with
  | LGrant g =>
      match waited (ust ts) g with
      | Some _ => mset g t (gt ts)
      | None => gt ts
      end
  | _ => gt ts
  end.

Lemma tstep_TL stale ts t l ts' :
  tstep stale ts (t, TL l) = Some ts' ->
  (now ts <= t)%N /\ (forall d, l <> LPurge d) /\
  exists st', step (ust ts) l = Some st' /\
    ts' = mkTS st' t (touchm (ust ts) l t (la ts)) (touchm (ust ts) l t (tch ts)) (hs_after ts l t)
               (gt_after ts l t).
Proof.
  unfold tstep. cbn [fst snd]. destruct (N.ltb_spec t (now ts)) as [Hlt|Hge]; [discriminate|].
  destruct l; try discriminate;
    (destruct (step (ust ts) _) as [st'|] eqn:E; [|discriminate]; intro H; injection H as <-;
     split; [exact Hge|]; split; [discriminate|]; exists st'; split; reflexivity).
Qed.

Lemma tstep_TPurge stale ts t vis ts' :
  tstep stale ts (t, TPurge vis) = Some ts' ->
  (now ts <= t)%N /\
  exists st', step (ust ts) (LPurge (purge_dels stale t (la ts) vis)) = Some st' /\
    ts' = mkTS st' t (mkeep (has_entry st') (la ts)) (tch ts) (hs ts) (gt ts).
Proof.
  unfold tstep. cbn [fst snd]. destruct (N.ltb_spec t (now ts)) as [Hlt|Hge]; [discriminate|].
  destruct (step (ust ts) _) as [st'|] eqn:E; [|discriminate]. intro H; injection H as <-.
  split; [exact Hge|]. exists st'. split; reflexivity.
Qed.

(* ---- (1) erasure: every timed step is the untimed step of its erased label ---- *)

Theorem tstep_erases stale ts ev ts' :
  tstep stale ts ev = Some ts' ->
  step (ust ts) (erase stale ts ev) = Some (ust ts') /\ (now ts <= fst ev)%N /\ now ts' = fst ev.
Proof.
  destruct ev as [t [l|vis]]; intro H.
  - destruct (tstep_TL _ _ _ _ _ H) as (Ht & _ & st' & Hs & ->). auto.
  - destruct (tstep_TPurge _ _ _ _ _ H) as (Ht & st' & Hs & ->). auto.
Qed.

Theorem trun_erases stale evs : forall ts ts',
  trun stale ts evs = Some ts' -> run (ust ts) (erase_run stale ts evs) = Some (ust ts').
Proof.
  induction evs as [|ev evs IH]; intros ts ts' H; simpl in *.
  - injection H as <-. reflexivity.
  - destruct (tstep stale ts ev) as [ts1|] eqn:E; [|discriminate].
    destruct (tstep_erases _ _ _ _ E) as (Hs & _). rewrite Hs. apply IH. exact H.
Qed.

(* the clock never runs backwards *)
Lemma trun_now stale evs : forall ts ts', trun stale ts evs = Some ts' -> (now ts <= now ts')%N.
Proof.
  induction evs as [|ev evs IH]; intros ts ts' H; simpl in *.
  - injection H as <-. lia.
  - destruct (tstep stale ts ev) as [ts1|] eqn:E; [|discriminate].
    destruct (tstep_erases _ _ _ _ E) as (_ & H1 & H2). specialize (IH _ _ H). lia.
Qed.

(* ---- who holds after a step ---- *)

Definition hkey (x : gor) : option nat :=
  match gc x with GHold k | GSendRel k => Some k | _ => None end.

Lemma holds_hkey st g k :
  holds st g k <-> exists x, nth_error (gs st) g = Some x /\ hkey x = Some k.
Proof.
  split.
  - intros [r [H|H]]; eexists; (split; [exact H|reflexivity]).
  - intros [[c r] [H Hk]]. destruct c; simpl in Hk; try discriminate; injection Hk as ->;
      exists r; auto.
Qed.

Lemma gs_get_item k ov st st1 e : get_item k ov st = (st1, e) -> gs st1 = gs st.
Proof. intro H. apply (get_item_spec _ _ _ _ _ H). Qed.

Lemma step_gs st l st' :
  step st l = Some st' ->
  gs st' = gs st \/
  exists g x y, nth_error (gs st) g = Some x /\ gs st' = upd g y (gs st) /\
    (hkey y = None \/ hkey y = hkey x \/
     (l = LGrant g /\ exists c k r, x = mkG (GWait c k) r /\ y = mkG (GHold k) r)).
Proof.
  intro Hs. destruct l; cbn [step] in Hs.
  - (* LStart *)
    destruct (nth_error (gs st) g) as [[c scr]|] eqn:Hg; try discriminate.
    destruct c; try discriminate.
    destruct scr as [|[k|k] r]; try discriminate; injection Hs as <-;
      right; do 3 eexists; (split; [exact Hg|]); (split; [reflexivity|]); left; reflexivity.
  - (* LAcquire *)
    destruct (mgr st); try discriminate.
    destruct (nth_error (gs st) g) as [[c scr]|] eqn:Hg; try discriminate.
    destruct c; try discriminate. injection Hs as <-.
    right; do 3 eexists; (split; [exact Hg|]); (split; [reflexivity|]); left; reflexivity.
  - (* LMgrGet *)
    left. destruct (mgr st); try discriminate;
      destruct (get_item k ov st) as [st1 e] eqn:Hgi; pose proof (gs_get_item _ _ _ _ _ Hgi) as G.
    + destruct (Nat.eqb (locks e) 0); injection Hs as <-; ssimp; rewrite ?gs_bump; exact G.
    + destruct (Nat.ltb 0 (locks e)); [destruct (Nat.ltb 0 (pred (locks e)))|];
        injection Hs as <-; ssimp; rewrite ?gs_bump; exact G.
  - (* LGet *)
    destruct (nth_error (gs st) g) as [[c scr]|] eqn:Hg; try discriminate.
    destruct c; try discriminate.
    destruct (get_item k ov st) as [st1 e] eqn:Hgi. pose proof (gs_get_item _ _ _ _ _ Hgi) as G.
    injection Hs as <-. right; do 3 eexists; (split; [exact Hg|]). split; [ssimp; rewrite G; reflexivity|].
    left; reflexivity.
  - (* LGrant *)
    destruct (mgr st); try discriminate;
      destruct (nth_error (gs st) g) as [[c0 scr]|] eqn:Hg; try discriminate;
      destruct c0 as [| | |c' k'| | |]; try discriminate;
      destruct (Nat.eqb c c'); try discriminate; injection Hs as <-;
      right; do 3 eexists; (split; [exact Hg|]);
      (split; [ssimp; rewrite ?gs_bump; reflexivity|]); right; right; (split; [reflexivity|]);
      do 3 eexists; split; reflexivity.
  - (* LLeave *)
    destruct (nth_error (gs st) g) as [[c scr]|] eqn:Hg; try discriminate.
    destruct c; try discriminate. injection Hs as <-.
    right; do 3 eexists; (split; [exact Hg|]); (split; [reflexivity|]); right; left; reflexivity.
  - (* LRelease *)
    destruct (mgr st); try discriminate.
    destruct (nth_error (gs st) g) as [[c scr]|] eqn:Hg; try discriminate.
    destruct c; try discriminate; injection Hs as <-;
      right; do 3 eexists; (split; [exact Hg|]); (split; [reflexivity|]); left; reflexivity.
  - (* LPurgeReq *)
    destruct (mgr st); try discriminate. destruct (pend st); try discriminate.
    injection Hs as <-. left; reflexivity.
  - (* LPurge *)
    destruct (mgr st); try discriminate. injection Hs as <-. left; reflexivity.
Qed.

(* a holder after a step held before it, or was just granted the key it waited for *)
Lemma step_holds_back st l st' g k :
  step st l = Some st' -> holds st' g k ->
  holds st g k \/ (l = LGrant g /\ waited st g = Some k).
Proof.
  intros Hs Hh. apply holds_hkey in Hh as [z [Hz Hk]].
  destruct (step_gs _ _ _ Hs) as [E|(g0 & x & y & Hx & E & Hy)].
  - left. apply holds_hkey. exists z. rewrite <- E. auto.
  - rewrite E, (nth_error_upd _ _ _ _ _ Hx) in Hz. destruct (Nat.eqb g0 g) eqn:Eg.
    + apply Nat.eqb_eq in Eg; subst g0. injection Hz as <-.
      destruct Hy as [Hy|[Hy|(Hl & c & k0 & r & -> & ->)]].
      * congruence.
      * left. apply holds_hkey. exists x. split; [exact Hx|congruence].
      * right. split; [exact Hl|]. unfold waited. rewrite Hx. simpl in Hk. exact Hk.
    + left. apply holds_hkey. exists z. auto.
Qed.

(* ---- the timed invariant ---- *)

Record TInv (ts : tstate) : Prop := mkTInv {
  ti_inv : Inv (ust ts);
  ti_la_now : forall k v, mget (la ts) k = Some v -> (v <= now ts)%N;
  ti_tch_now : forall k v, mget (tch ts) k = Some v -> (v <= now ts)%N;
  ti_la_tch : forall k v, mget (la ts) k = Some v -> mget (tch ts) k = Some v;
  ti_hs_now : forall g h, mget (hs ts) g = Some h -> (h <= now ts)%N;
  (* lastAccess of a held key's entry is not older than the holder's hold *)
  ti_hold : forall g k v, holds (ust ts) g k -> mget (la ts) k = Some v -> (hstart ts g <= v)%N
}.

Lemma hstart_now ts g : TInv ts -> (hstart ts g <= now ts)%N.
Proof.
  intro I. unfold hstart. destruct (mget (hs ts) g) as [h|] eqn:E; [|lia].
  eapply ti_hs_now; eauto.
Qed.

Lemma tinv_init scripts purges t0 : TInv (tinit scripts purges t0).
Proof.
  split; simpl; try discriminate.
  apply inv_init.
Qed.

(* ---- (2) the time proviso gives admissibility ---- *)

(* at a purge loop a key with lock count > 0 has a holder *)
Lemma purge_locked_has_holder st k :
  Inv st -> mgr st = MPurge -> 0 < lk st k -> exists g, holds st g k.
Proof.
  intros [I _] Hm Hl. specialize (I k). unfold invk in I. rewrite Hm in I.
  destruct I as (_ & _ & I3). specialize (I3 Hl).
  destruct (cnt_pos_ex (inH k) (gs st)) as (g & [c r] & Hg & Hp); [unfold cH in I3; lia|].
  exists g. unfold inH in Hp. simpl in Hp.
  destruct c; try discriminate; apply Nat.eqb_eq in Hp; subst; exists r; auto.
Qed.

Lemma hold_within_holds stale ts t g k :
  hold_within stale ts t -> holds (ust ts) g k -> (t <= hstart ts g + stale)%N.
Proof. intros H [r Hr]. eapply H; eassumption. Qed.

Lemma in_purge_dels stale t m vis k s o :
  In (k, s, o) (purge_dels stale t m vis) -> s = stale_bit stale t m k.
Proof.
  unfold purge_dels. intro H. apply in_map_iff in H as [[k0 o0] [E _]]. simpl in E.
  injection E as <- <- <-. reflexivity.
Qed.

Theorem tadm_adm stale ts ev ts' :
  TInv ts -> tstep stale ts ev = Some ts' -> tadm stale ts ev ->
  adm (ust ts) (erase stale ts ev).
Proof.
  intros I Hs Ha. destruct ev as [t [l|vis]]; unfold tadm, erase in *; cbn [fst snd] in *.
  - destruct (tstep_TL _ _ _ _ _ Hs) as (_ & Hnp & _).
    destruct l; cbn [adm no_spurious] in *; auto. exfalso. eapply Hnp; reflexivity.
  - destruct (tstep_TPurge _ _ _ _ _ Hs) as (_ & st' & Hst & _).
    cbn [adm]. intros k s o Hin Hstale.
    apply in_purge_dels in Hin. rewrite Hstale in Hin. symmetry in Hin.
    unfold stale_bit in Hin. destruct (mget (la ts) k) as [v|] eqn:Ev; [|discriminate].
    apply N.ltb_lt in Hin.
    destruct (Nat.eq_dec (lk (ust ts) k) 0) as [|Hne]; [assumption|exfalso].
    assert (Hm : mgr (ust ts) = MPurge).
    { cbn [step] in Hst. destruct (mgr (ust ts)); try discriminate. reflexivity. }
    destruct (purge_locked_has_holder (ust ts) k (ti_inv _ I) Hm) as [g Hg]; [lia|].
    pose proof (hold_within_holds _ _ _ _ _ Ha Hg) as H1.
    pose proof (ti_hold _ I _ _ _ Hg Ev) as H2. lia.
Qed.

Lemma touched_not_grant st l k : touched st l = Some k -> forall g, l <> LGrant g.
Proof. destruct l; simpl; intros H g0; try discriminate. Qed.

Theorem tinv_step stale ts ev ts' :
  TInv ts -> tstep stale ts ev = Some ts' -> tadm stale ts ev -> TInv ts'.
Proof.
  intros I Hs Ha.
  pose proof (tadm_adm _ _ _ _ I Hs Ha) as Hadm.
  destruct (tstep_erases _ _ _ _ Hs) as (Hstep & Hnow & Hnow').
  pose proof (inv_step _ _ _ Hstep Hadm (ti_inv _ I)) as Inv'.
  destruct ev as [t [l|vis]]; unfold erase in *; cbn [fst snd] in *.
  - destruct (tstep_TL _ _ _ _ _ Hs) as (_ & Hnp & st' & Hst & ->). cbn [ust now la tch hs] in *.
    clear Hs Hnow'.
    assert (Hback : forall g k, holds st' g k -> holds (ust ts) g k \/ (l = LGrant g /\ waited (ust ts) g = Some k)).
    { intros g k. eapply step_holds_back; eauto. }
    unfold touchm. destruct (touched (ust ts) l) as [k0|] eqn:Et.
    + (* a getItem of k0 at t *)
      assert (Hhs : hs_after ts l t = hs ts).
      { unfold hs_after. destruct l; try reflexivity. exfalso. eapply touched_not_grant; eauto. }
      rewrite Hhs. split; cbn [ust now la tch hs].
      * exact Inv'.
      * intros k v. rewrite mget_mset. destruct (Nat.eqb k0 k); intro H.
        -- injection H as <-. lia.
        -- pose proof (ti_la_now _ I _ _ H). lia.
      * intros k v. rewrite mget_mset. destruct (Nat.eqb k0 k); intro H.
        -- injection H as <-. lia.
        -- pose proof (ti_tch_now _ I _ _ H). lia.
      * intros k v. rewrite !mget_mset. destruct (Nat.eqb k0 k); [auto|]. apply (ti_la_tch _ I).
      * intros g h H. pose proof (ti_hs_now _ I _ _ H). lia.
      * intros g k v Hh. unfold hstart; cbn [hs]. fold (hstart ts g).
        destruct (Hback _ _ Hh) as [Hh0|[Hl _]]; [|exfalso; eapply touched_not_grant; eauto].
        rewrite mget_mset. destruct (Nat.eqb k0 k); intro H.
        -- injection H as <-. pose proof (hstart_now ts g I). lia.
        -- eapply ti_hold; eauto.
    + (* no getItem *)
      split; cbn [ust now la tch hs].
      * exact Inv'.
      * intros k v H. pose proof (ti_la_now _ I _ _ H). lia.
      * intros k v H. pose proof (ti_tch_now _ I _ _ H). lia.
      * apply (ti_la_tch _ I).
      * intros g h. unfold hs_after. destruct l; try (intro H; pose proof (ti_hs_now _ I _ _ H); lia).
        destruct (waited (ust ts) g0) as [k|]; [|intro H; pose proof (ti_hs_now _ I _ _ H); lia].
        rewrite mget_mset. destruct (Nat.eqb g0 g); [|intro H; pose proof (ti_hs_now _ I _ _ H); lia].
        destruct (mget (tch ts) k) as [w|] eqn:Ew; intro H; injection H as <-; [|lia].
        pose proof (ti_tch_now _ I _ _ Ew). lia.
      * intros g k v Hh Hv. unfold hstart; cbn [hs].
        destruct (Hback _ _ Hh) as [Hh0|[Hl Hw]].
        -- (* held before *)
           assert (E : mget (hs_after ts l t) g = mget (hs ts) g \/
                       exists k1, waited (ust ts) g = Some k1 /\ l = LGrant g).
           { unfold hs_after. destruct l; auto. destruct (waited (ust ts) g0) as [k1|] eqn:Ew; auto.
             rewrite mget_mset. destruct (Nat.eqb g0 g) eqn:Eg; auto.
             apply Nat.eqb_eq in Eg; subst g0. right. exists k1. auto. }
           destruct E as [E|(k1 & Hw & _)].
           ++ rewrite E. fold (hstart ts g). eapply ti_hold; eauto.
           ++ (* a holder does not wait *)
              exfalso. apply holds_hkey in Hh0 as [x [Hx Hk]]. unfold waited in Hw. rewrite Hx in Hw.
              destruct x as [c r]; destruct c; simpl in Hk; discriminate.
        -- (* just granted: the hold starts at the latest getItem of k *)
           subst l. unfold hs_after. rewrite Hw, mget_mset, Nat.eqb_refl.
           rewrite (ti_la_tch _ I _ _ Hv). lia.
  - destruct (tstep_TPurge _ _ _ _ _ Hs) as (_ & st' & Hst & ->). cbn [ust now la tch hs] in *.
    assert (Hsub : forall k v, mget (mkeep (has_entry st') (la ts)) k = Some v -> mget (la ts) k = Some v).
    { intros k v. rewrite mget_mkeep. destruct (has_entry st' k); [auto|discriminate]. }
    split; cbn [ust now la tch hs].
    + exact Inv'.
    + intros k v H. pose proof (ti_la_now _ I _ _ (Hsub _ _ H)). lia.
    + intros k v H. pose proof (ti_tch_now _ I _ _ H). lia.
    + intros k v H. apply (ti_la_tch _ I). auto.
    + intros g h H. pose proof (ti_hs_now _ I _ _ H). lia.
    + intros g k v Hh Hv. unfold hstart; cbn [hs]. fold (hstart ts g).
      destruct (step_holds_back _ _ _ _ _ Hst Hh) as [Hh0|[Hl _]]; [|discriminate].
      eapply ti_hold; eauto.
Qed.

Theorem trun_tinv stale evs : forall ts ts',
  TInv ts -> trun stale ts evs = Some ts' -> tadm_run stale ts evs -> TInv ts'.
Proof.
  induction evs as [|ev evs IH]; intros ts ts' I H Ha; simpl in *.
  - injection H as <-. exact I.
  - destruct (tstep stale ts ev) as [ts1|] eqn:E; [|discriminate]. destruct Ha as [Ha1 Ha2].
    eapply IH; [eapply tinv_step; eauto|exact H|exact Ha2].
Qed.

Theorem trun_adm stale evs : forall ts ts',
  TInv ts -> trun stale ts evs = Some ts' -> tadm_run stale ts evs ->
  adm_run (ust ts) (erase_run stale ts evs).
Proof.
  induction evs as [|ev evs IH]; intros ts ts' I H Ha; simpl in *; [exact Logic.I|].
  destruct (tstep stale ts ev) as [ts1|] eqn:E; [|discriminate]. destruct Ha as [Ha1 Ha2].
  split; [eapply tadm_adm; eauto|].
  destruct (tstep_erases _ _ _ _ E) as (Hs & _). rewrite Hs.
  eapply IH; [eapply tinv_step; eauto|exact H|exact Ha2].
Qed.

(* "every hold lasts at most `stale`" is the stronger proviso *)
Lemma tshort_tadm stale ts ev : tshort stale ts ev -> tadm stale ts ev.
Proof. destruct ev as [t [l|vis]]; unfold tshort, tadm; cbn [fst snd]; tauto. Qed.

Lemma tshort_run_tadm stale evs : forall ts, tshort_run stale ts evs -> tadm_run stale ts evs.
Proof.
  induction evs as [|ev evs IH]; intros ts H; simpl in *; [exact Logic.I|].
  destruct H as [H1 H2]. split; [apply tshort_tadm; exact H1|].
  destruct (tstep stale ts ev); [apply IH; exact H2|exact Logic.I].
Qed.

(* ---- the executable provisos are sound ---- *)

Lemma hold_withinb_go stale ts t : forall l i,
  (fix go (l : list gor) (i : nat) : bool :=
     match l with
     | [] => true
     | x :: r =>
         match gc x with
         | GHold _ | GSendRel _ => N.leb t (hstart ts i + stale)
         | _ => true
         end && go r (S i)
     end) l i = true ->
  forall g x k, nth_error l g = Some x -> hkey x = Some k -> (t <= hstart ts (i + g) + stale)%N.
Proof.
  induction l as [|a l IH]; intros i H g x k Hg Hk; [destruct g; discriminate|].
  apply andb_true_iff in H as [H1 H2]. destruct g as [|g]; simpl in Hg.
  - injection Hg as ->. rewrite Nat.add_0_r. unfold hkey in Hk.
    destruct (gc x); try discriminate; apply N.leb_le; exact H1.
  - replace (i + S g) with (S i + g) by lia. eapply IH; eauto.
Qed.

Lemma hold_withinb_sound stale ts t : hold_withinb stale ts t = true -> hold_within stale ts t.
Proof.
  intros H g k r Hg.
  assert (Hh : holds (ust ts) g k) by (exists r; exact Hg).
  apply holds_hkey in Hh as [x [Hx Hk]].
  exact (hold_withinb_go stale ts t _ 0 H g x k Hx Hk).
Qed.

Lemma no_spuriousb_sound st l : no_spuriousb st l = true -> no_spurious st l.
Proof.
  destruct l; simpl; auto. intros H k r Hg. rewrite Hg in H. apply Nat.eqb_eq. exact H.
Qed.

Lemma tadmb_sound stale ts ev : tadmb stale ts ev = true -> tadm stale ts ev.
Proof.
  destruct ev as [t [l|vis]]; unfold tadmb, tadm; cbn [fst snd].
  - apply no_spuriousb_sound.
  - apply hold_withinb_sound.
Qed.

Lemma tshortb_sound stale ts ev : tshortb stale ts ev = true -> tshort stale ts ev.
Proof.
  destruct ev as [t [l|vis]]; unfold tshortb, tshort; cbn [fst snd]; intro H;
    apply andb_true_iff in H as [H1 H2]; (split; [apply hold_withinb_sound; exact H1|]).
  - apply no_spuriousb_sound; exact H2.
  - exact Logic.I.
Qed.

Lemma trun_okb_tadm stale evs : forall ts,
  trun_okb tadmb stale ts evs = true -> tadm_run stale ts evs /\ exists ts', trun stale ts evs = Some ts'.
Proof.
  induction evs as [|ev evs IH]; intros ts H; simpl in *; [eauto|].
  apply andb_true_iff in H as [H1 H2].
  destruct (tstep stale ts ev) as [ts1|]; [|discriminate].
  destruct (IH _ H2) as [A [ts' R]]. split; [split; [apply tadmb_sound; exact H1|exact A]|eauto].
Qed.

Lemma trun_okb_tshort stale evs : forall ts,
  trun_okb tshortb stale ts evs = true -> tshort_run stale ts evs /\ exists ts', trun stale ts evs = Some ts'.
Proof.
  induction evs as [|ev evs IH]; intros ts H; simpl in *; [eauto|].
  apply andb_true_iff in H as [H1 H2].
  destruct (tstep stale ts ev) as [ts1|]; [|discriminate].
  destruct (IH _ H2) as [A [ts' R]]. split; [split; [apply tshortb_sound; exact H1|exact A]|eauto].
Qed.
