(* C17: the JSON round trip over the tables regenerated from the Go source,
   totality of UnmarshalJSON, re-encodability of what it accepts. Library
   behaviour (LoadUser, time.Format/Parse, the string coercion of
   encoding/json) is a section parameter with the assumed facts as section
   hypotheses: the theorems hold for every library that satisfies them. *)
From Sessions Require Import Model.Base Model.Codec Gen.Layout Proofs.BaseLemmas Proofs.CodecLaws.
From Coq Require Import Lia ZifyBool ZifyN ZifyNat.
Local Open Scope N_scope.

(* Does UnmarshalJSON, as it is now, accept the null that MarshalJSON writes
   for a nil data map? Read off the regenerated table. *)
Definition json_da_null_ok : bool := null_ok_for k_da json_dec.

Lemma json_pinned_lemma : json_enc = json_enc_v1 /\ json_dec = json_dec_v1 json_da_null_ok.
Proof. split; reflexivity. Qed.

Local Arguments format_radix : simpl never.
Local Arguments parse_radix : simpl never.
Local Arguments f64_of_Z : simpl never.

Section JsonLaws.
  Variable load : loader.
  Variable fmt_time : bytes -> gtime -> bytes.
  Variable parse_time : bytes -> bytes -> option gtime.
  Variable jstr : bytes -> bytes.

  (* assumed of encoding/json: ASCII strings come back unchanged *)
  Hypothesis jstr_ascii : forall s, all_ascii s = true -> jstr s = s.
  (* assumed of time: RFC 3339 text is ASCII, and parses back to the instant
     floored to the second with the same offset, within RFC 3339's domain *)
  Hypothesis fmt_ascii : forall t, all_ascii (fmt_time lay_rfc3339 t) = true.
  Hypothesis rfc3339_roundtrip :
    forall t, rfc_dom t = true -> parse_time lay_rfc3339 (fmt_time lay_rfc3339 t) = Some (floor_sec t).

  Lemma reparse_DMap (m : list (bytes * dval)) :
    reparse jstr (DMap m) =
    match reparse_map jstr m with Some m' => Some (DMap m') | None => None end.
  Proof.
    cbn [reparse].
    match goal with |- match ?f m with _ => _ end = _ => assert (E : f m = reparse_map jstr m) end.
    { induction m as [|[k x] t IH]; [reflexivity|]. cbn [reparse_map]. rewrite <- IH. reflexivity. }
    rewrite E. reflexivity.
  Qed.

  Lemma reparse_DInt z : reparse jstr (DInt z) = Some (DFloat (f64_of_Z z)).
  Proof. reflexivity. Qed.
  Lemma reparse_DStr x : reparse jstr (DStr x) = Some (DStr (jstr x)).
  Proof. reflexivity. Qed.
  Lemma reparse_DNull : reparse jstr DNull = Some DNull.
  Proof. reflexivity. Qed.

  Local Arguments reparse : simpl never.

  Ltac jstr_lits :=
    repeat match goal with
           | |- context [jstr ?x] =>
               rewrite (jstr_ascii x)
                 by (first [reflexivity | apply fmt_ascii | apply format_radix_ascii; reflexivity])
           end.

  Local Arguments json_unmarshal : simpl never.

  (* the marshalling half: build the map, push it through json *)
  Ltac jmarshal :=
    repeat (progress (cbn; rewrite ?reparse_DInt, ?reparse_DStr, ?reparse_DNull, ?reparse_DMap));
    repeat match goal with
           | |- context [reparse_map jstr ?m] => is_var m; destruct (reparse_map jstr m)
           | |- context [reparse jstr (u_id ?u)] => destruct (reparse jstr (u_id u))
           end;
    cbn.

  (* the validation cascade on the resulting tree *)
  Ltac jrun Hua :=
    jstr_lits; unfold json_unmarshal;
    repeat (progress (cbn;
                      jstr_lits;
                      rewrite ?N.eqb_refl;
                      rewrite ?rfc3339_roundtrip by assumption;
                      rewrite ?parse_format_radix by (first [reflexivity | exact Hua | lia])));
    try match goal with |- context [load ?x] => destruct (load x) end;
    cbn; jstr_lits.

  Ltac jcase Hua := jmarshal; try reflexivity; jrun Hua; try reflexivity.

  (* The round trip for the tables as generated, by evaluating both
     interpreters on a symbolic session: holds for all sessions in the domain,
     and re-checks whatever MarshalJSON/UnmarshalJSON currently say. The
     premise is decided by the regenerated table (it is false exactly when
     UnmarshalJSON refuses the null that MarshalJSON writes for nil data). *)
  Lemma json_roundtrip_lemma :
    json_da_null_ok = true ->
    forall s, json_dom s = true ->
      json_roundtrip load fmt_time parse_time jstr json_enc json_dec s = jnorm load jstr s.
  Proof.
    intros Hok s. destruct s as [cr la ip ua rf us da]. unfold json_dom. cbn [cs_created cs_access cs_ua].
    intro Hd. apply andb_true_iff in Hd as [Hd Hua]. apply andb_true_iff in Hd as [Hcr Hla].
    apply N.ltb_lt in Hua.
    unfold json_roundtrip, json_marshal, json_enc, json_dec, jnorm.
    destruct rf as [|c rf]; destruct us as [u|]; destruct da as [m|]; jcase Hua;
      exfalso; vm_compute in Hok; discriminate Hok.
  Qed.

  (* Whatever the table says about null: sessions with a data map round-trip. *)
  Lemma json_roundtrip_nonnil_lemma :
    forall s, cs_data s <> None -> json_dom s = true ->
      json_roundtrip load fmt_time parse_time jstr json_enc json_dec s = jnorm load jstr s.
  Proof.
    intros s. destruct s as [cr la ip ua rf us da]. unfold json_dom. cbn [cs_created cs_access cs_ua cs_data].
    intros Hnn Hd. apply andb_true_iff in Hd as [Hd Hua]. apply andb_true_iff in Hd as [Hcr Hla].
    apply N.ltb_lt in Hua.
    unfold json_roundtrip, json_marshal, json_enc, json_dec, jnorm.
    destruct da as [m|]; [|congruence].
    destruct rf as [|c rf]; destruct us as [u|]; jcase Hua.
  Qed.

  (* D3: when the table says null is refused, the record RegenerateID leaves
     under the replaced ID (a reference, no user, nil data) does not survive. *)
  Lemma json_roundtrip_refuted_lemma :
    json_da_null_ok = false ->
    exists s, json_dom s = true /\ cs_data s = None /\ cs_ref s <> [] /\ cs_user s = None /\
              json_roundtrip load fmt_time parse_time jstr json_enc json_dec s = Err /\
              jnorm load jstr s = Ok (mkSess (floor_sec (cs_created s)) (floor_sec (cs_access s)) (jstr (cs_ip s))
                                             (cs_ua s) (jstr (cs_ref s)) None (Some [])).
  Proof.
    intro Hno. exists ex_placeholder.
    split; [reflexivity|]. split; [reflexivity|]. split; [discriminate|]. split; [reflexivity|].
    split; [|reflexivity].
    assert (Hua : cs_ua ex_placeholder < 2 ^ 64) by (vm_compute; reflexivity).
    assert (Hcr : rfc_dom ex_time = true) by reflexivity.
    unfold ex_placeholder in *. cbn [cs_ua] in Hua.
    unfold json_roundtrip, json_marshal, json_enc, json_dec.
    jmarshal. jrun Hua.
    first [reflexivity | exfalso; vm_compute in Hno; discriminate Hno].
  Qed.
End JsonLaws.

(* What is assumed of the libraries, as one predicate, and the three round-trip
   results restated over it. *)
Definition json_lib_ok (fmt_time : bytes -> gtime -> bytes)
                       (parse_time : bytes -> bytes -> option gtime) (jstr : bytes -> bytes) : Prop :=
  (forall s, all_ascii s = true -> jstr s = s) /\
  (forall t, all_ascii (fmt_time lay_rfc3339 t) = true) /\
  (forall t, rfc_dom t = true -> parse_time lay_rfc3339 (fmt_time lay_rfc3339 t) = Some (floor_sec t)).

Lemma json_roundtrip_thm :
  json_da_null_ok = true ->
  forall load fmt_time parse_time jstr, json_lib_ok fmt_time parse_time jstr ->
  forall s, json_dom s = true ->
    json_roundtrip load fmt_time parse_time jstr json_enc json_dec s = jnorm load jstr s.
Proof.
  intros Hok load fmt_time parse_time jstr [H1 [H2 H3]].
  exact (json_roundtrip_lemma load fmt_time parse_time jstr H1 H2 H3 Hok).
Qed.

Lemma json_roundtrip_nonnil_thm :
  forall load fmt_time parse_time jstr, json_lib_ok fmt_time parse_time jstr ->
  forall s, cs_data s <> None -> json_dom s = true ->
    json_roundtrip load fmt_time parse_time jstr json_enc json_dec s = jnorm load jstr s.
Proof.
  intros load fmt_time parse_time jstr [H1 [H2 H3]].
  exact (json_roundtrip_nonnil_lemma load fmt_time parse_time jstr H1 H2 H3).
Qed.

Lemma json_roundtrip_refuted_thm :
  json_da_null_ok = false ->
  forall load fmt_time parse_time jstr, json_lib_ok fmt_time parse_time jstr ->
  exists s, json_dom s = true /\ cs_data s = None /\ cs_ref s <> [] /\ cs_user s = None /\
            json_roundtrip load fmt_time parse_time jstr json_enc json_dec s = Err /\
            jnorm load jstr s = Ok (mkSess (floor_sec (cs_created s)) (floor_sec (cs_access s)) (jstr (cs_ip s))
                                           (cs_ua s) (jstr (cs_ref s)) None (Some [])).
Proof.
  intros Hno load fmt_time parse_time jstr [H1 [H2 H3]].
  exact (json_roundtrip_refuted_lemma load fmt_time parse_time jstr H1 H2 H3 Hno).
Qed.

(* ------------------------------------------------- UnmarshalJSON is total *)

Section JsonTotal.
  Variable load : loader.
  Variable parse_time : bytes -> bytes -> option gtime.

  Ltac destr_matches :=
    repeat match goal with
           | |- context [match ?x with _ => _ end] => destruct x
           end.

  (* one block of the cascade, when its assertion is typed and in comma-ok
     form, yields Ok or Err whatever the value under the key is *)
  Lemma block_no_panic (b : ublock) (v : dval) (s : csess) :
    ublock_checked b = true ->
    rbind (run_guard (ub_guard b) v) (fun v' => run_use load parse_time (ub_use b) v' s) <> Panic.
  Proof.
    destruct b as [key mand g u]. unfold ublock_checked, ublock_typed.
    cbn [ub_guard ub_use]. intro H.
    destruct g as [|t ok|t ok]; destruct u; cbn in H; try discriminate H;
      try (destruct t; cbn in H; try discriminate H);
      try (destruct ok; cbn in H; try discriminate H);
      destruct v; cbn; destr_matches; discriminate.
  Qed.

  Lemma json_blocks_panic (dec : list ublock) (obj : list (bytes * dval)) (s : csess) :
    json_blocks load parse_time dec obj s = Panic ->
    exists b, In b dec /\ ublock_checked b = false.
  Proof.
    revert s. induction dec as [|b dec IH]; intros s H; cbn [json_blocks] in H; [discriminate|].
    destruct (ublock_checked b) eqn:Hb; [|exists b; split; [left; reflexivity | exact Hb]].
    assert (Hnp := block_no_panic b).
    destruct (assoc (ub_key b) obj) as [v|].
    - specialize (Hnp v s Hb).
      destruct (run_guard (ub_guard b) v) as [v'| |]; cbn [rbind] in H, Hnp; try discriminate H.
      + destruct (run_use load parse_time (ub_use b) v' s) as [s'| |]; cbn [rbind] in H; try discriminate H.
        * destruct (IH s' H) as [b' [Hin Hb']]. exists b'. split; [right; exact Hin | exact Hb'].
        * congruence.
      + congruence.
    - destruct (ub_mandatory b); [discriminate|].
      destruct (IH s H) as [b' [Hin Hb']]. exists b'. split; [right; exact Hin | exact Hb'].
  Qed.

  (* a panic can only come from a type assertion that is not in comma-ok form
     (or from a table that no Go compiler would have accepted) *)
  Lemma json_unmarshal_panic (dec : list ublock) (j : dval) :
    json_unmarshal load parse_time dec j = Panic ->
    exists b, In b dec /\ ublock_checked b = false.
  Proof.
    unfold json_unmarshal. destruct j; try discriminate; apply json_blocks_panic.
  Qed.

  Lemma json_total_lemma (j : dval) : json_unmarshal load parse_time json_dec j <> Panic.
  Proof.
    intro H. apply json_unmarshal_panic in H as [b [Hin Hb]].
    assert (Hall : forallb ublock_checked json_dec = true) by reflexivity.
    rewrite forallb_forall in Hall. rewrite (Hall b Hin) in Hb. discriminate.
  Qed.
End JsonTotal.

(* ...and the converse on an example: drop the `, ok` from the assertion on
   "ip" and a document with a number there panics *)
Definition ex_parse : bytes -> bytes -> option gtime := fun _ _ => Some zero_time.
Definition ex_doc (ip : dval) : dval :=
  DMap [(k_v, DFloat (f64_of_Z 1)); (k_cr, DStr [120]); (k_la, DStr [120]); (k_ip, ip);
        (k_ua, DStr [48]); (k_da, DMap [])].
Definition json_dec_unchecked : list ublock :=
  [mkU k_v true (GAssert TFloat true) (UVersion 1);
   mkU k_cr true (GAssert TStr true) (UTime lay_rfc3339 FCreated);
   mkU k_la true (GAssert TStr true) (UTime lay_rfc3339 FAccess);
   mkU k_ip true (GAssert TStr false) (UStrF FIP);
   mkU k_ua true (GAssert TStr true) (UUA 36 64);
   mkU k_da true (GAssert TMap true) UData].

Example json_total_nonvacuous :
  json_unmarshal (case_load 0) ex_parse json_dec_unchecked (ex_doc (DFloat 0)) = Panic /\
  json_unmarshal (case_load 0) ex_parse json_dec (ex_doc (DFloat 0)) = Err /\
  json_unmarshal (case_load 0) ex_parse json_dec (ex_doc (DStr [49])) =
    Ok (mkSess zero_time zero_time [49] 0 [] None (Some [])) /\
  json_unmarshal (case_load 0) ex_parse json_dec (DList []) = Err /\
  json_unmarshal (case_load 0) ex_parse json_dec DNull = Err.
Proof. repeat split; vm_compute; reflexivity. Qed.

(* ------------------------------------- what UnmarshalJSON accepts re-encodes *)

Section DvalInd.
  Variable P : dval -> Prop.
  Hypothesis HNull : P DNull.
  Hypothesis HBool : forall b, P (DBool b).
  Hypothesis HInt : forall z, P (DInt z).
  Hypothesis HFloat : forall b, P (DFloat b).
  Hypothesis HStr : forall s, P (DStr s).
  Hypothesis HList : forall l, Forall P l -> P (DList l).
  Hypothesis HMap : forall m, Forall (fun kv => P (snd kv)) m -> P (DMap m).

  Fixpoint dval_ind' (d : dval) : P d :=
    match d with
    | DNull => HNull
    | DBool b => HBool b
    | DInt z => HInt z
    | DFloat b => HFloat b
    | DStr s => HStr s
    | DList l =>
        HList l ((fix go (l : list dval) : Forall P l :=
                    match l with
                    | [] => Forall_nil P
                    | x :: t => Forall_cons x (dval_ind' x) (go t)
                    end) l)
    | DMap m =>
        HMap m ((fix go (m : list (bytes * dval)) : Forall (fun kv => P (snd kv)) m :=
                   match m with
                   | [] => Forall_nil _
                   | kv :: t => Forall_cons kv (dval_ind' (snd kv)) (go t)
                   end) m)
    end.
End DvalInd.

(* A tree as json.Unmarshal produces it: no Go ints, only finite numbers. *)
Fixpoint is_wire (d : dval) : bool :=
  match d with
  | DNull | DBool _ | DStr _ => true
  | DInt _ => false
  | DFloat b => f64_finite b
  | DList l => (fix go (l : list dval) : bool :=
                  match l with [] => true | x :: t => is_wire x && go t end) l
  | DMap m => (fix go (m : list (bytes * dval)) : bool :=
                 match m with [] => true | kv :: t => is_wire (snd kv) && go t end) m
  end.

Definition wire_map (m : list (bytes * dval)) : bool := forallb (fun kv => is_wire (snd kv)) m.

Lemma is_wire_DMap m : is_wire (DMap m) = wire_map m.
Proof.
  cbn [is_wire]. unfold wire_map. induction m as [|kv t IH]; [reflexivity|].
  cbn [forallb]. rewrite <- IH. reflexivity.
Qed.

Lemma is_wire_DList l : is_wire (DList l) = forallb is_wire l.
Proof.
  cbn [is_wire]. induction l as [|x t IH]; [reflexivity|].
  cbn [forallb]. rewrite <- IH. reflexivity.
Qed.

Section Reencode.
  Variable load : loader.
  Variable fmt_time : bytes -> gtime -> bytes.
  Variable parse_time : bytes -> bytes -> option gtime.
  Variable jstr : bytes -> bytes.

  Lemma reparse_DList l :
    reparse jstr (DList l) =
    match (fix go (l : list dval) : option (list dval) :=
             match l with
             | [] => Some []
             | x :: t => match reparse jstr x, go t with
                         | Some x', Some t' => Some (x' :: t')
                         | _, _ => None
                         end
             end) l with
    | Some l' => Some (DList l')
    | None => None
    end.
  Proof. reflexivity. Qed.

  Lemma reparse_wire (d : dval) : is_wire d = true -> reparse jstr d <> None.
  Proof.
    induction d as [| b | z | b | s | l IHl | m IHm] using dval_ind'; intro H; try (cbn; congruence).
    - cbn in *. rewrite H. discriminate.
    - rewrite is_wire_DList in H. rewrite reparse_DList.
      match goal with |- match ?f l with _ => _ end <> None => assert (E : f l <> None) end.
      { induction l as [|x t IHt]; [discriminate|].
        cbn [forallb] in H. apply andb_true_iff in H as [Hx Ht].
        inversion IHl as [|? ? Px Pt]; subst.
        specialize (Px Hx). specialize (IHt Pt Ht).
        destruct (reparse jstr x); [|congruence].
        match goal with |- match ?g with _ => _ end <> None => destruct g end; congruence. }
      match goal with |- match ?g with _ => _ end <> None => destruct g end; congruence.
    - rewrite is_wire_DMap in H. rewrite reparse_DMap.
      assert (E : reparse_map jstr m <> None).
      { induction m as [|[k x] t IHt]; [discriminate|].
        cbn [wire_map forallb snd] in H. apply andb_true_iff in H as [Hx Ht].
        inversion IHm as [|? ? Px Pt]; subst. cbn [snd] in Px.
        specialize (Px Hx). specialize (IHt Pt Ht).
        cbn [reparse_map]. destruct (reparse jstr x); [|congruence].
        destruct (reparse_map jstr t); congruence. }
      destruct (reparse_map jstr m); congruence.
  Qed.

  Lemma reparse_map_wire (m : list (bytes * dval)) : wire_map m = true -> reparse_map jstr m <> None.
  Proof.
    intro H. rewrite <- is_wire_DMap in H. apply reparse_wire in H.
    rewrite reparse_DMap in H. destruct (reparse_map jstr m); congruence.
  Qed.

  (* users that LoadUser returns have IDs that json.Marshal accepts *)
  Hypothesis load_ids_ok : forall id u, load id = Some (Some u) -> reparse jstr (u_id u) <> None.

  (* what a session must satisfy for MarshalJSON to succeed on it *)
  Definition encodable (s : csess) : Prop :=
    reparse_map jstr (data_or_empty (cs_data s)) <> None /\
    match cs_user s with Some u => reparse jstr (u_id u) <> None | None => True end.

  Local Arguments format_radix : simpl never.
  Local Arguments reparse : simpl never.

  Lemma json_marshal_defined (s : csess) :
    encodable s -> exists w, json_marshal fmt_time jstr json_enc s = Ok w.
  Proof.
    destruct s as [cr la ip ua rf us da]. unfold encodable. cbn [cs_data cs_user]. intros [Hd Hu].
    unfold json_marshal, json_enc.
    destruct rf as [|c rf]; destruct us as [u|]; destruct da as [m|]; cbn [data_or_empty] in Hd;
      repeat (progress (cbn; rewrite ?reparse_DInt, ?reparse_DStr, ?reparse_DNull, ?reparse_DMap));
      try (destruct (reparse_map jstr m); [|congruence]);
      try (destruct (reparse jstr (u_id u)); [|congruence]);
      cbn; eexists; reflexivity.
  Qed.

  (* the invariant of the cascade: data is part of the document, the user is
     one that LoadUser returned *)
  Definition sess_wire (s : csess) : Prop :=
    match cs_data s with Some m => wire_map m = true | None => True end /\
    match cs_user s with Some u => exists id, load id = Some (Some u) | None => True end.

  Lemma run_guard_wire g v v' : is_wire v = true -> run_guard g v = Ok v' -> is_wire v' = true.
  Proof.
    intros Hv. destruct g as [|t ok|t ok]; cbn [run_guard].
    - intro E. injection E as <-. exact Hv.
    - unfold run_assert. destruct (has_ty t v); [|destruct ok; discriminate].
      intro E. injection E as <-. exact Hv.
    - destruct v; try (unfold run_assert; destruct (has_ty t _); [|destruct ok; discriminate];
                       intro E; injection E as <-; exact Hv).
      destruct t; try discriminate. intro E. injection E as <-. reflexivity.
  Qed.

  Lemma run_use_wire u v s s' :
    is_wire v = true -> sess_wire s -> run_use load parse_time u v s = Ok s' -> sess_wire s'.
  Proof.
    intros Hv. destruct s as [cr la ip ua rf us da]. unfold sess_wire. cbn [cs_data cs_user].
    intros [Hd Hu].
    destruct u as [z|lay f|f|r bits| |]; destruct v; cbn [run_use]; try discriminate.
    1: { destruct (_ =? _); [|discriminate]. intro E. injection E as <-. split; assumption. }
    1: { destruct (parse_time lay s) as [t|]; [|discriminate]. intro E. injection E as <-.
         destruct f; split; assumption. }
    1: { intro E. injection E as <-. destruct f; split; assumption. }
    1: { destruct (parse_radix r bits s) as [n|]; [|discriminate]. intro E. injection E as <-. split; assumption. }
    1-6: (destruct (load _) as [o|] eqn:El; [|discriminate]; intro E; injection E as <-; cbn;
          (split; [assumption|]); destruct o; [eexists; exact El | exact I]).
    intro E. injection E as <-. rewrite is_wire_DMap in Hv. split; assumption.
  Qed.

  Lemma json_blocks_wire dec obj s s' :
    wire_map obj = true -> sess_wire s ->
    json_blocks load parse_time dec obj s = Ok s' -> sess_wire s'.
  Proof.
    intro Hobj. revert s. induction dec as [|b dec IH]; intros s Hs H; cbn [json_blocks] in H.
    - injection H as <-. exact Hs.
    - destruct (assoc (ub_key b) obj) as [v|] eqn:Ha.
      + assert (Hv : is_wire v = true).
        { clear - Ha Hobj. induction obj as [|[k x] t IHt]; [discriminate|].
          cbn [wire_map forallb snd] in Hobj. apply andb_true_iff in Hobj as [Hx Ht].
          cbn [assoc] in Ha. destruct (bytes_eqb (ub_key b) k).
          - injection Ha as <-. exact Hx.
          - apply IHt; assumption. }
        destruct (run_guard (ub_guard b) v) as [v'| |] eqn:Hg; cbn [rbind] in H; try discriminate.
        destruct (run_use load parse_time (ub_use b) v' s) as [s1| |] eqn:Hu; cbn [rbind] in H; try discriminate.
        apply (IH s1); [|exact H].
        eapply run_use_wire; [eapply run_guard_wire; eassumption | exact Hs | exact Hu].
      + destruct (ub_mandatory b); [discriminate|]. apply (IH s); assumption.
  Qed.

  Lemma sess_wire_encodable s : sess_wire s -> encodable s.
  Proof.
    intros [Hd Hu]. split.
    - destruct (cs_data s) as [m|]; cbn [data_or_empty]; [apply reparse_map_wire; exact Hd | discriminate].
    - destruct (cs_user s) as [u|]; [|exact I]. destruct Hu as [id Hid]. eapply load_ids_ok; exact Hid.
  Qed.

  Lemma json_reencodes_lemma (j : dval) (s : csess) :
    is_wire j = true ->
    json_unmarshal load parse_time json_dec j = Ok s ->
    exists w, json_marshal fmt_time jstr json_enc s = Ok w.
  Proof.
    intros Hj H. apply json_marshal_defined, sess_wire_encodable.
    assert (Hz : sess_wire zero_sess) by (split; exact I).
    unfold json_unmarshal in H. destruct j; try discriminate.
    all: first [ rewrite is_wire_DMap in Hj; eapply json_blocks_wire; [exact Hj | exact Hz | exact H]
               | eapply json_blocks_wire; [ | exact Hz | exact H]; reflexivity ].
  Qed.
End Reencode.

(* -------------------------------------------- the hypotheses are satisfiable *)

(* the executable coercion used by the correspondence check fixes ASCII *)
Lemma u8_coerce_ascii (s : bytes) : all_ascii s = true -> u8_coerce s = s.
Proof.
  unfold u8_coerce. induction s as [|b t IH]; intro H; [reflexivity|].
  cbn [all_ascii forallb] in H. apply andb_true_iff in H as [Hb Ht].
  cbn [length u8_coerce_fuel u8_width]. rewrite Hb. cbn [firstn skipn app].
  f_equal. apply IH. exact Ht.
Qed.

(* A concrete library for the examples: time.Format / time.Parse as look-up
   tables holding the RFC 3339 text of the example instant (the form in which
   the correspondence check feeds observed library results to the model). *)
Definition ex_fmt : fmt_table :=
  [(lay_rfc3339, ex_time, [50;48;50;48;45;48;49;45;48;50;84;48;51;58;48;52;58;48;53;43;48;53;58;52;53])].
Definition ex_parse_tbl : parse_table :=
  [(lay_rfc3339, [50;48;50;48;45;48;49;45;48;50;84;48;51;58;48;52;58;48;53;43;48;53;58;52;53],
    Some (mkTime 1577934245 0 20700))].
Definition ex_json_sess : csess :=
  mkSess ex_time ex_time [49;46;50;46;51;46;52;58;53] 18446744073709551615 [] (Some ex_user)
         (Some [([107], DStr [118; 255]); ([110], DInt 7)]).

Example json_roundtrip_nonvacuous :
  json_dom ex_json_sess = true /\
  json_roundtrip (case_load 0) (tbl_fmt ex_fmt) (tbl_parse ex_parse_tbl) u8_coerce json_enc json_dec ex_json_sess
  = Ok (mkSess (mkTime 1577934245 0 20700) (mkTime 1577934245 0 20700) [49;46;50;46;51;46;52;58;53]
               18446744073709551615 [] (Some (mkUser (DFloat 4631107791820423168) 7))
               (Some [([107], DStr [118; 239; 191; 189]); ([110], DFloat 4619567317775286272)])) /\
  jnorm (case_load 0) u8_coerce ex_json_sess
  = Ok (mkSess (mkTime 1577934245 0 20700) (mkTime 1577934245 0 20700) [49;46;50;46;51;46;52;58;53]
               18446744073709551615 [] (Some (mkUser (DFloat 4631107791820423168) 7))
               (Some [([107], DStr [118; 239; 191; 189]); ([110], DFloat 4619567317775286272)])).
Proof. repeat split; vm_compute; reflexivity. Qed.

(* the placeholder record: accepted iff the table says null is accepted *)
Example json_placeholder_decided :
  json_roundtrip (case_load 0) (tbl_fmt ex_fmt) (tbl_parse ex_parse_tbl) u8_coerce json_enc json_dec ex_placeholder
  = if json_da_null_ok
    then Ok (mkSess (mkTime 1577934245 0 20700) (mkTime 1577934245 0 20700) [49;46;50;46;51;46;52;58;53]
                    77 [110;101;119;45;105;100] None (Some []))
    else Err.
Proof. vm_compute. reflexivity. Qed.
