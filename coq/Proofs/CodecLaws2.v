(* C17: the JSON round trip over the tables regenerated from the Go source
   (totality and re-encodability are in CodecLaws3.v). Library
   behaviour (LoadUser, time.Format/Parse, the string coercion of
   encoding/json) is a section parameter with the assumed facts as section
   hypotheses: the theorems hold for every library that satisfies them. *)
From Sessions Require Import Model.Base Model.Codec Gen.Layout Proofs.BaseLemmas Proofs.CodecText Proofs.CodecDefs.
From Coq Require Import Lia ZifyBool ZifyN ZifyNat.
Local Open Scope N_scope.

Local Arguments format_radix : simpl never.
Local Arguments parse_radix : simpl never.
Local Arguments f64_of_Z : simpl never.

Section JsonLaws.
  Variable load : loader.
  Variable fmt_time : bytes -> gtime -> bytes.
  Variable parse_time : bytes -> bytes -> option gtime.
  Variable jstr : bytes -> bytes.

  (* assumed of encoding/json: ASCII strings come back unchanged *)
  Hypothesis jstr_ascii : forall s, all_ascii s = true -> jstr s = s.
  (* assumed of time: RFC 3339 text is ASCII, and parses back to the instant
     floored to the second with the same offset, within RFC 3339's domain *)
  Hypothesis fmt_ascii : forall t, all_ascii (fmt_time lay_rfc3339 t) = true.
  Hypothesis rfc3339_roundtrip :
    forall t, rfc_dom t = true -> parse_time lay_rfc3339 (fmt_time lay_rfc3339 t) = Some (floor_sec t).

  Local Arguments reparse : simpl never.

  Ltac jstr_lits :=
    repeat match goal with
           | |- context [jstr ?x] =>
               rewrite (jstr_ascii x)
                 by (first [reflexivity | apply fmt_ascii | apply format_radix_ascii; reflexivity])
           end.

  Local Arguments json_unmarshal : simpl never.

  (* the marshalling half: build the map, push it through json *)
  Ltac jmarshal :=
    repeat (progress (cbn; rewrite ?reparse_DInt, ?reparse_DStr, ?reparse_DNull, ?reparse_DMap));
    repeat match goal with
           | |- context [reparse_map jstr ?m] => is_var m; destruct (reparse_map jstr m)
           | |- context [reparse jstr (u_id ?u)] => destruct (reparse jstr (u_id u))
           end;
    cbn.

  (* the validation cascade on the resulting tree *)
  Ltac jrun Hua :=
    jstr_lits; unfold json_unmarshal;
    repeat (progress (cbn;
                      jstr_lits;
                      rewrite ?N.eqb_refl;
                      rewrite ?rfc3339_roundtrip by assumption;
                      rewrite ?parse_format_radix by (first [reflexivity | exact Hua | lia])));
    try match goal with |- context [load ?x] => destruct (load x) end;
    cbn; jstr_lits.

  Ltac jcase Hua := jmarshal; try reflexivity; jrun Hua; try reflexivity.

  (* The round trip for the tables as generated, by evaluating both
     interpreters on a symbolic session: holds for all sessions in the domain,
     and re-checks whatever MarshalJSON/UnmarshalJSON currently say. The
     premise is decided by the regenerated table (it is false exactly when
     UnmarshalJSON refuses the null that MarshalJSON writes for nil data). *)
  Lemma json_roundtrip_lemma :
    json_da_null_ok = true ->
    forall s, json_dom s = true ->
      json_roundtrip load fmt_time parse_time jstr json_enc json_dec s = jnorm load jstr s.
  Proof.
    intros Hok s. destruct s as [cr la ip ua rf us da]. unfold json_dom. cbn [cs_created cs_access cs_ua].
    intro Hd. apply andb_true_iff in Hd as [Hd Hua]. apply andb_true_iff in Hd as [Hcr Hla].
    apply N.ltb_lt in Hua.
    unfold json_roundtrip, json_marshal, json_enc, json_dec, jnorm.
    destruct rf as [|c rf]; destruct us as [u|]; destruct da as [m|]; jcase Hua;
      exfalso; vm_compute in Hok; discriminate Hok.
  Qed.

  (* Whatever the table says about null: sessions with a data map round-trip. *)
  Lemma json_roundtrip_nonnil_lemma :
    forall s, cs_data s <> None -> json_dom s = true ->
      json_roundtrip load fmt_time parse_time jstr json_enc json_dec s = jnorm load jstr s.
  Proof.
    intros s. destruct s as [cr la ip ua rf us da]. unfold json_dom. cbn [cs_created cs_access cs_ua cs_data].
    intros Hnn Hd. apply andb_true_iff in Hd as [Hd Hua]. apply andb_true_iff in Hd as [Hcr Hla].
    apply N.ltb_lt in Hua.
    unfold json_roundtrip, json_marshal, json_enc, json_dec, jnorm.
    destruct da as [m|]; [|congruence].
    destruct rf as [|c rf]; destruct us as [u|]; jcase Hua.
  Qed.

  (* D3: when the table says null is refused, the record RegenerateID leaves
     under the replaced ID (a reference, no user, nil data) does not survive. *)
  Lemma json_roundtrip_refuted_lemma :
    json_da_null_ok = false ->
    exists s, json_dom s = true /\ cs_data s = None /\ cs_ref s <> [] /\ cs_user s = None /\
              json_roundtrip load fmt_time parse_time jstr json_enc json_dec s = Err /\
              jnorm load jstr s = Ok (mkSess (floor_sec (cs_created s)) (floor_sec (cs_access s)) (jstr (cs_ip s))
                                             (cs_ua s) (jstr (cs_ref s)) None (Some [])).
  Proof.
    intro Hno. exists ex_placeholder.
    split; [reflexivity|]. split; [reflexivity|]. split; [discriminate|]. split; [reflexivity|].
    split; [|reflexivity].
    assert (Hua : cs_ua ex_placeholder < 2 ^ 64) by (vm_compute; reflexivity).
    assert (Hcr : rfc_dom ex_time = true) by reflexivity.
    unfold ex_placeholder in *. cbn [cs_ua] in Hua.
    unfold json_roundtrip, json_marshal, json_enc, json_dec.
    jmarshal. jrun Hua.
    first [reflexivity | exfalso; vm_compute in Hno; discriminate Hno].
  Qed.
End JsonLaws.

(* What is assumed of the libraries, as one predicate, and the three round-trip
   results restated over it. *)
Definition json_lib_ok (fmt_time : bytes -> gtime -> bytes)
                       (parse_time : bytes -> bytes -> option gtime) (jstr : bytes -> bytes) : Prop :=
  (forall s, all_ascii s = true -> jstr s = s) /\
  (forall t, all_ascii (fmt_time lay_rfc3339 t) = true) /\
  (forall t, rfc_dom t = true -> parse_time lay_rfc3339 (fmt_time lay_rfc3339 t) = Some (floor_sec t)).

Lemma json_roundtrip_thm :
  json_da_null_ok = true ->
  forall load fmt_time parse_time jstr, json_lib_ok fmt_time parse_time jstr ->
  forall s, json_dom s = true ->
    json_roundtrip load fmt_time parse_time jstr json_enc json_dec s = jnorm load jstr s.
Proof.
  intros Hok load fmt_time parse_time jstr [H1 [H2 H3]].
  exact (json_roundtrip_lemma load fmt_time parse_time jstr H1 H2 H3 Hok).
Qed.

Lemma json_roundtrip_nonnil_thm :
  forall load fmt_time parse_time jstr, json_lib_ok fmt_time parse_time jstr ->
  forall s, cs_data s <> None -> json_dom s = true ->
    json_roundtrip load fmt_time parse_time jstr json_enc json_dec s = jnorm load jstr s.
Proof.
  intros load fmt_time parse_time jstr [H1 [H2 H3]].
  exact (json_roundtrip_nonnil_lemma load fmt_time parse_time jstr H1 H2 H3).
Qed.

Lemma json_roundtrip_refuted_thm :
  json_da_null_ok = false ->
  forall load fmt_time parse_time jstr, json_lib_ok fmt_time parse_time jstr ->
  exists s, json_dom s = true /\ cs_data s = None /\ cs_ref s <> [] /\ cs_user s = None /\
            json_roundtrip load fmt_time parse_time jstr json_enc json_dec s = Err /\
            jnorm load jstr s = Ok (mkSess (floor_sec (cs_created s)) (floor_sec (cs_access s)) (jstr (cs_ip s))
                                           (cs_ua s) (jstr (cs_ref s)) None (Some [])).
Proof.
  intros Hno load fmt_time parse_time jstr [H1 [H2 H3]].
  exact (json_roundtrip_refuted_lemma load fmt_time parse_time jstr H1 H2 H3 Hno).
Qed.

(* -------------------------------------------- the hypotheses are satisfiable *)

(* the executable coercion used by the correspondence check fixes ASCII *)
Lemma u8_coerce_ascii (s : bytes) : all_ascii s = true -> u8_coerce s = s.
Proof.
  unfold u8_coerce. induction s as [|b t IH]; intro H; [reflexivity|].
  cbn [all_ascii forallb] in H. apply andb_true_iff in H as [Hb Ht].
  cbn [length u8_coerce_fuel u8_width]. rewrite Hb. cbn [firstn skipn app].
  f_equal. apply IH. exact Ht.
Qed.

(* A concrete library for the examples: time.Format / time.Parse as look-up
   tables holding the RFC 3339 text of the example instant (the form in which
   the correspondence check feeds observed library results to the model). *)
Definition ex_fmt : fmt_table :=
  [(lay_rfc3339, ex_time, [50;48;50;48;45;48;49;45;48;50;84;48;51;58;48;52;58;48;53;43;48;53;58;52;53])].
Definition ex_parse_tbl : parse_table :=
  [(lay_rfc3339, [50;48;50;48;45;48;49;45;48;50;84;48;51;58;48;52;58;48;53;43;48;53;58;52;53],
    Some (mkTime 1577934245 0 20700))].
Definition ex_json_sess : csess :=
  mkSess ex_time ex_time [49;46;50;46;51;46;52;58;53] 18446744073709551615 [] (Some ex_user)
         (Some [([107], DStr [118; 255]); ([110], DInt 7)]).

Example json_roundtrip_nonvacuous :
  json_dom ex_json_sess = true /\
  json_roundtrip (case_load 0) (tbl_fmt ex_fmt) (tbl_parse ex_parse_tbl) u8_coerce json_enc json_dec ex_json_sess
  = Ok (mkSess (mkTime 1577934245 0 20700) (mkTime 1577934245 0 20700) [49;46;50;46;51;46;52;58;53]
               18446744073709551615 [] (Some (mkUser (DFloat 4631107791820423168) 7))
               (Some [([107], DStr [118; 239; 191; 189]); ([110], DFloat 4619567317775286272)])) /\
  jnorm (case_load 0) u8_coerce ex_json_sess
  = Ok (mkSess (mkTime 1577934245 0 20700) (mkTime 1577934245 0 20700) [49;46;50;46;51;46;52;58;53]
               18446744073709551615 [] (Some (mkUser (DFloat 4631107791820423168) 7))
               (Some [([107], DStr [118; 239; 191; 189]); ([110], DFloat 4619567317775286272)])).
Proof. repeat split; vm_compute; reflexivity. Qed.

(* the placeholder record: accepted iff the table says null is accepted *)
Example json_placeholder_decided :
  json_roundtrip (case_load 0) (tbl_fmt ex_fmt) (tbl_parse ex_parse_tbl) u8_coerce json_enc json_dec ex_placeholder
  = if json_da_null_ok
    then Ok (mkSess (mkTime 1577934245 0 20700) (mkTime 1577934245 0 20700) [49;46;50;46;51;46;52;58;53]
                    77 [110;101;119;45;105;100] None (Some []))
    else Err.
Proof. vm_compute. reflexivity. Qed.
