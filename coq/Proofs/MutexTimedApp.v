(* C13, timed layer (audit task A7): the proviso as an application sees it.
   `tadm` counts a hold from the latest getItem of the key at or before the
   grant, because that is what lastAccess records; an application sees the
   return of Lock. If every grant follows that getItem within `lat` and every
   hold, counted from the return of Lock, is at most `hold` old at every purge
   loop, with lat + hold <= stale, then `tadm` holds - and with it everything
   in Properties/C13T.v and C14T.v. *)
From Sessions Require Import Model.Base Model.Mutex Model.MutexTimed
  Proofs.MutexBasics Proofs.MutexSafety Proofs.MutexTimed Proofs.MutexTimedThms.
From Coq Require Import Lia.

(* the grant of a current hold is at most `lat` after its start *)
Definition GInv (lat : N) (ts : tstate) : Prop :=
  forall g k, holds (ust ts) g k -> (gtime ts g <= hstart ts g + lat)%N.

Lemma ginv_init lat scripts purges t0 : GInv lat (tinit scripts purges t0).
Proof.
  intros g k [r [H|H]]; unfold tinit, init in H; cbn [ust gs] in H; rewrite nth_error_map in H;
    destruct (nth_error scripts g); discriminate.
Qed.

Lemma holder_not_waiting st g k : holds st g k -> waited st g = None.
Proof.
  intros [r [H|H]]; unfold waited; rewrite H; reflexivity.
Qed.

Lemma after_same ts l t g :
  (l = LGrant g -> waited (ust ts) g = None) ->
  mget (hs_after ts l t) g = mget (hs ts) g /\ mget (gt_after ts l t) g = mget (gt ts) g.
Proof.
  intro H. unfold hs_after, gt_after. destruct l; auto.
  destruct (Nat.eq_dec g0 g) as [->|Hne].
  - rewrite (H eq_refl). auto.
  - destruct (waited (ust ts) g0); auto. rewrite !mget_mset.
    apply Nat.eqb_neq in Hne. rewrite Hne. auto.
Qed.

Lemma ginv_step stale lat ts ev ts' :
  GInv lat ts -> tstep stale ts ev = Some ts' -> grant_prompt lat ts ev -> GInv lat ts'.
Proof.
  intros I Hs Hp. destruct ev as [t [l|vis]]; unfold grant_prompt in Hp; cbn [fst snd] in Hp.
  - destruct (tstep_TL _ _ _ _ _ Hs) as (_ & _ & st' & Hst & ->).
    intros g k Hh. cbn [ust] in Hh. unfold gtime, hstart. cbn [hs gt].
    destruct (step_holds_back _ _ _ _ _ Hst Hh) as [Hh0|[Hl Hw]].
    + destruct (after_same ts l t g) as [E1 E2].
      { intros _. eapply holder_not_waiting; eauto. }
      rewrite E1, E2. exact (I g k Hh0).
    + subst l. unfold hs_after, gt_after. rewrite Hw, !mget_mset, Nat.eqb_refl.
      exact (Hp k Hw).
  - destruct (tstep_TPurge _ _ _ _ _ Hs) as (_ & st' & Hst & ->).
    intros g k Hh. cbn [ust] in Hh. unfold gtime, hstart. cbn [hs gt].
    destruct (step_holds_back _ _ _ _ _ Hst Hh) as [Hh0|[Hl _]]; [|discriminate].
    exact (I g k Hh0).
Qed.

Lemma tapp_tadm stale lat hold ts ev :
  (lat + hold <= stale)%N -> GInv lat ts -> tapp lat hold ts ev -> tadm stale ts ev.
Proof.
  intros Hle I [_ Ha]. destruct ev as [t [l|vis]]; unfold tadm; cbn [fst snd] in *; [exact Ha|].
  intros g k r Hg. pose proof (Ha g k r Hg) as H1.
  assert (Hh : holds (ust ts) g k) by (exists r; exact Hg).
  pose proof (I g k Hh) as H2. lia.
Qed.

Theorem tapp_run_tadm stale lat hold evs :
  (lat + hold <= stale)%N ->
  forall ts, GInv lat ts -> tapp_run stale lat hold ts evs -> tadm_run stale ts evs.
Proof.
  intro Hle. induction evs as [|ev evs IH]; intros ts I H; simpl in *; [exact Logic.I|].
  destruct H as [H1 H2]. split; [eapply tapp_tadm; eauto|].
  destruct (tstep stale ts ev) as [ts1|] eqn:E; [|exact Logic.I].
  apply IH; [|exact H2]. eapply ginv_step; eauto. exact (proj1 H1).
Qed.

Theorem c13t_exclusion_app stale lat hold scripts purges t0 evs ts :
  (lat + hold <= stale)%N ->
  trun stale (tinit scripts purges t0) evs = Some ts ->
  tapp_run stale lat hold (tinit scripts purges t0) evs ->
  forall k g1 g2, holds (ust ts) g1 k -> holds (ust ts) g2 k -> g1 = g2.
Proof.
  intros Hle R A. eapply c13t_exclusion; [exact R|].
  eapply tapp_run_tadm; [exact Hle|apply ginv_init|exact A].
Qed.

(* ---- the executable form is sound ---- *)

Lemma held_since_grantb_go hold ts t : forall l i,
  (fix go (l : list gor) (i : nat) : bool :=
     match l with
     | [] => true
     | x :: r =>
         match gc x with
         | GHold _ | GSendRel _ => N.leb t (gtime ts i + hold)
         | _ => true
         end && go r (S i)
     end) l i = true ->
  forall g x k, nth_error l g = Some x -> hkey x = Some k -> (t <= gtime ts (i + g) + hold)%N.
Proof.
  induction l as [|a l IH]; intros i H g x k Hg Hk; [destruct g; discriminate|].
  apply andb_true_iff in H as [H1 H2]. destruct g as [|g]; simpl in Hg.
  - injection Hg as ->. rewrite Nat.add_0_r. unfold hkey in Hk.
    destruct (gc x); try discriminate; apply N.leb_le; exact H1.
  - replace (i + S g) with (S i + g) by lia. eapply IH; eauto.
Qed.

Lemma tappb_sound lat hold ts ev : tappb lat hold ts ev = true -> tapp lat hold ts ev.
Proof.
  unfold tappb, tapp. intro H. apply andb_true_iff in H as [H1 H2]. split.
  - unfold grant_promptb in H1. unfold grant_prompt. destruct (snd ev) as [l|vis]; [|exact Logic.I].
    destruct l; try exact Logic.I. intros k Hw. rewrite Hw in H1. apply N.leb_le. exact H1.
  - destruct (snd ev) as [l|vis].
    + apply no_spuriousb_sound; exact H2.
    + intros g k r Hg.
      assert (Hh : holds (ust ts) g k) by (exists r; exact Hg).
      apply holds_hkey in Hh as [x [Hx Hk]].
      exact (held_since_grantb_go hold ts (fst ev) _ 0 H2 g x k Hx Hk).
Qed.

Lemma trun_okb_tapp stale lat hold evs : forall ts,
  trun_okb (fun _ => tappb lat hold) stale ts evs = true ->
  tapp_run stale lat hold ts evs /\ exists ts', trun stale ts evs = Some ts'.
Proof.
  induction evs as [|ev evs IH]; intros ts H; simpl in *; [eauto|].
  apply andb_true_iff in H as [H1 H2].
  destruct (tstep stale ts ev) as [ts1|]; [|discriminate].
  destruct (IH _ H2) as [A [ts' R]]. split; [split; [apply tappb_sound; exact H1|exact A]|eauto].
Qed.
