(* The per-cache-operation system of Model/StartConcOps.v, part 1: the program
   `rest_prog`, run to its end with nothing in between, is start_rest. *)
From Sessions Require Import Model.Base Model.Sess Model.Hist Model.Mutex Model.StartConc Model.StartConcFine
  Model.StartConcOps.
From Coq Require Import Lia.

Lemma run_bind {A B} (f : A -> prog B) : forall (p : prog A) s,
  run (bind p f) s = let '(s', a) := run p s in run (f a) s'.
Proof.
  fix IH 1. intros [a|k] s; cbn [bind run]; [reflexivity|].
  destruct (k s) as [s' p']. apply IH.
Qed.

Lemma run_op1 {A} (f : st -> st * A) s : run (op1 f) s = f s.
Proof. unfold op1. cbn [run]. destruct (f s). reflexivity. Qed.

Lemma run_destroy o s hc :
  run (destroy_p o) s = let '(s', r, c) := destroy s o hc in (s', (r, c)).
Proof.
  unfold destroy_p, destroy. rewrite run_op1. destruct (hget s o); [|reflexivity].
  destruct (cache_delete s (o_id o0)) as [s' ok]. destruct ok; reflexivity.
Qed.

Lemma run_create q s :
  run (create_p q) s = let '(s', r, c) := create_session s q in (s', (r, c)).
Proof.
  unfold create_p, create_session. rewrite run_op1. destruct (gen_id s) as [s1 nid].
  destruct (halloc s1 _) as [s2 o]. destruct (cache_set s2 o) as [s3 ok]. destruct ok; reflexivity.
Qed.

Lemma run_regenerate o s :
  run (regenerate_p o) s = let '(s', r, c) := regenerate s o in (s', (r, c)).
Proof.
  unfold regenerate_p, regenerate. rewrite run_bind, run_op1.
  destruct (hget s o) as [ob|]; [|reflexivity].
  destruct (gen_id s) as [s1 nid]. destruct (cache_set _ o) as [s2 ok]. destruct ok; cbn [negb]; [|reflexivity].
  rewrite run_op1. destruct (hget s2 o) as [ob2|]; [|reflexivity].
  destruct (halloc s2 _) as [s3 ro]. destruct (cache_set s3 ro) as [s4 ok]. destruct ok; reflexivity.
Qed.

Lemma run_follow : forall fuel o last s, run (follow_p fuel o last) s = follow fuel s o last.
Proof.
  induction fuel as [|f IH]; intros o last s; cbn [follow_p follow run].
  - destruct (hget s o) as [ob|]; [|reflexivity]. destruct (r_ref (o_rec ob)); reflexivity.
  - destruct (hget s o) as [ob|]; [|reflexivity]. destruct (r_ref (o_rec ob)) as [target|]; [|reflexivity].
    destruct (cache_get s target) as [s' [[o'|]|]]; cbn [run]; [apply IH | reflexivity | reflexivity].
Qed.

Theorem run_rest_prog c s q found cks failed :
  run (rest_prog c q found cks failed) s =
  let '(s', r, ck) := start_rest c s q found cks failed in (s', (r, ck)).
Proof.
  unfold rest_prog, start_rest. destruct failed; [reflexivity|].
  destruct found as [[k o]|].
  - cbn [run]. unfold start_read. destruct (hget s o) as [ob|] eqn:Eo; [|reflexivity].
    cbn [run]. rewrite Eo.
    set (valid := negb (c_expiry c <=? since (r_access (o_rec ob)) (now s))%Z
                  && ip_ok (c_acceptip c) (r_ip (o_rec ob)) (q_addr q)
                  && ua_ok (c_acceptua c) (r_ua (o_rec ob)) (q_ua q)).
    destruct (negb valid); clear valid.
    + rewrite run_bind, (run_destroy o s (had_cookie q)).
      destruct (destroy s o (had_cookie q)) as [[s1 res] dck]. destruct res as [u|e|e]; try reflexivity.
      destruct (q_create q); [|reflexivity].
      rewrite run_bind, run_create. destruct (create_session s1 q) as [[s2 res2] nck]. reflexivity.
    + set (isref := match r_ref (o_rec ob) with Some _ => true | None => false end).
      rewrite run_bind.
      assert (Estep :
        run (if negb isref && (c_idexpiry c <=? since (r_created (o_rec ob)) (now s))%Z
             then bind (regenerate_p o) (fun x => let '(res, rck) := x in Done (res, cks ++ rck))
             else if (sat_add (c_idexpiry c) (c_grace c) <=? since (r_created (o_rec ob)) (now s))%Z
                  then op1 (fun s0 => let '(s1, ok) := cache_delete s0 k in
                                      (s1, (if ok then Err EExpiredID else Err EDeleteExpired, cks)))
                  else Done (Ok tt, cks)) s =
        let '(s', st, ck) :=
          (if negb isref && (c_idexpiry c <=? since (r_created (o_rec ob)) (now s))%Z
           then let '(s1, res, rck) := regenerate s o in (s1, res, cks ++ rck)
           else if (sat_add (c_idexpiry c) (c_grace c) <=? since (r_created (o_rec ob)) (now s))%Z
                then let '(s1, ok) := cache_delete s k in
                     (s1, if ok then Err EExpiredID else Err EDeleteExpired, cks)
                else (s, Ok tt, cks)) in (s', (st, ck))).
      { destruct (negb isref && _).
        - rewrite run_bind, run_regenerate. destruct (regenerate s o) as [[s1 res] rck]. reflexivity.
        - destruct (sat_add (c_idexpiry c) (c_grace c) <=? since (r_created (o_rec ob)) (now s))%Z; [|reflexivity].
          rewrite run_op1. destruct (cache_delete s k). reflexivity. }
      rewrite Estep. clear Estep.
      destruct (if negb isref && _ then _ else _) as [[s1 stp] cks1].
      destruct stp as [u|e|e]; try reflexivity.
      rewrite run_bind.
      assert (Efr : run (if isref then Op (fun s0 => (s0, follow_p (S (N.to_nat (supply s0))) o k)) else Done (Ok (o, k))) s1 =
                    (if isref then follow (S (N.to_nat (supply s1))) s1 o k else (s1, Ok (o, k)))).
      { destruct isref; [|reflexivity]. cbn [run]. apply run_follow. }
      rewrite Efr. clear Efr.
      destruct (if isref then follow _ s1 o k else _) as [s2 fr].
      destruct fr as [[o' lk]|e|e]; reflexivity.
  - destruct (q_create q); [|reflexivity].
    rewrite run_bind, run_create. destruct (create_session s q) as [[s2 res2] nck]. reflexivity.
Qed.
