(* C10, orphan copies (audit task A9), part 8: "nobody who follows cookies ever
   presents the orphan's ID" - the full statement (orphan_never_presented_statement;
   proved in CrashChain11.v) and its first instance: the step right after the
   crash (any hop, any fault plan, any crash point, any handler script) neither
   presents nor announces the orphan's ID, unless the request forges that very
   value. Also: the cookies of a whole request step (req_body_never_names). *)
From Sessions Require Import Model.Base Model.Sess Model.Hist Proofs.SessDefs
  Proofs.HistInv Proofs.HistInv2 Proofs.HistInv3.
From Sessions Require Proofs.CrashFault Proofs.CrashFault2 Proofs.CrashFault3 Proofs.CrashFault4 Proofs.CrashFault5
  Proofs.CrashFault6 Proofs.CrashFault8 Proofs.CrashFault9 Proofs.CrashFault13 Proofs.CrashFault14 Proofs.LiveHist4.
From Sessions Require Import Proofs.CrashRestart Proofs.CrashRestart2 Proofs.CrashRestart3 Proofs.CrashRestart4
  Proofs.CrashChain Proofs.CrashChain2 Proofs.CrashChain3 Proofs.CrashChain4 Proofs.CrashChain5 Proofs.CrashChain7.
From Coq Require Import Lia.
Import CrashFault CrashFault2 CrashFault3 CrashFault5 CrashFault6 LiveHist4.
Local Open Scope Z_scope.

(* a hop that does not forge the value v *)
Definition no_forge (v : key) (h : hop) : Prop :=
  match h with HReq r => rq_present r <> PForge (CKey v) | _ => True end.

(* v is neither presented nor announced in step h of world w *)
Definition untouched (v : key) (w : world) (h : hop) : Prop :=
  (forall r, h = HReq r -> pres w r <> CKey v) /\ ~ In (CkLive v) (ob_cookies (snd (step w h))).

(* The claim: in the scenario of C10C at the orphan stage (a record under the
   new ID, kn not yet redirected), no jar holding the not yet drawn ID
   beforehand: in every continuation whose requests do not forge the orphan's
   ID, no request ever presents it and no response ever carries it. *)
Definition orphan_never_presented_statement : Prop :=
  forall w r n k0 rest D U hs,
    chain_crash w r n k0 rest D U [SRegen] ->
    let w' := fst (step w (HReq r)) in let nid := KGen (supply (w_st w)) in
    (forall c, jar_of (w_jars w) c <> CKey nid) ->
    lookup (store (w_st w')) nid <> None ->
    (exists y, lookup (store (w_st w')) (last rest k0) = Some y /\ r_ref y = None) ->
    Forall (no_forge nid) hs ->
    forall hs1 h hs2, hs = hs1 ++ h :: hs2 -> untouched nid (after w' hs1) h.

Lemma run_script_cookies_fresh : forall ops s o hc s' rs cks,
  run_script s o hc ops = (s', rs, cks) -> forall k, In (CkLive k) cks -> exists j, k = KGen j /\ (supply s <= j)%N.
Proof.
  induction ops as [|op t IH]; intros s o hc s' rs cks HR; cbn [run_script] in HR.
  - injection HR as _ _ <-. intros k [].
  - destruct (do_sop s o hc op) as [[s1 r1] c1] eqn:E.
    pose proof (CrashChain7.keeps_supply' _ _ (CrashFault13.keeps_do_sop _ _ _ _ _ _ _ E)) as H1.
    pose proof (CrashChain7.keeps_supply' _ _ (CrashFault13.keeps_fire_due s1)) as H2.
    destruct (match op with SDestroy => true | _ => match r1 with SPanic _ => true | _ => false end end) eqn:Est.
    + assert (HR' : (fire_due s1, [r1], c1) = (s', rs, cks)) by (destruct op, r1; try discriminate Est; exact HR).
      injection HR' as _ _ <-. eapply do_sop_cookies_fresh. exact E.
    + destruct (run_script (fire_due s1) o hc t) as [[s2 rs2] c2] eqn:ER.
      assert (HR' : (s2, r1 :: rs2, c1 ++ c2) = (s', rs, cks)) by (destruct op, r1; try discriminate Est; exact HR).
      injection HR' as _ _ <-. intros k Hin. apply in_app_iff in Hin. destruct Hin as [Hin|Hin].
      * eapply do_sop_cookies_fresh; eassumption.
      * destruct (IH _ _ _ _ _ _ ER _ Hin) as (j & -> & Hj). exists j. split; [reflexivity | lia].
Qed.

(* the cookies of a request step, in a state with no cached or stored reference
   to v = KGen m, m below the supply, presented with anything but v *)
Lemma req_body_never_names m s1 q script s3 rc st0 sr fin cks :
  (m < supply s1)%N -> J (fun _ x => r_ref x <> Some (KGen m)) s1 -> q_cookie q <> CKey (KGen m) ->
  req_body s1 q script = (s3, rc, st0, sr, fin, cks) -> ~ In (CkLive (KGen m)) cks.
Proof.
  intros Hm HJ Hq HB. unfold req_body in HB.
  destruct (start s1 q) as [[s2 res] cks0] eqn:ES.
  pose proof (start_never_names (KGen m) s1 q s2 res cks0 m eq_refl Hm HJ Hq ES) as H0.
  pose proof (CrashChain7.keeps_supply' _ _ (CrashFault14.keeps_start _ _ _ _ _ ES)) as H1.
  pose proof (CrashChain7.keeps_supply' _ _ (CrashFault13.keeps_fire_due s2)) as H2.
  destruct res as [[o|]|e|e]; try (injection HB as _ _ _ _ _ <-; exact H0).
  destruct (run_script (fire_due s2) o (had_cookie q) script) as [[s3' sr'] cks'] eqn:ER.
  injection HB as _ _ _ _ _ <-. intro Hin. apply in_app_iff in Hin. destruct Hin as [Hin|Hin]; [exact (H0 Hin)|].
  destruct (run_script_cookies_fresh _ _ _ _ _ _ _ ER _ Hin) as (j & E & Hj). injection E as E. lia.
Qed.

(* the step right after the crash *)
Theorem orphan_first_step w r n k0 rest D U h :
  chain_crash w r n k0 rest D U [SRegen] ->
  let w' := fst (step w (HReq r)) in let nid := KGen (supply (w_st w)) in
  (forall c, jar_of (w_jars w) c <> CKey nid) ->
  lookup (store (w_st w')) nid <> None ->
  (exists y, lookup (store (w_st w')) (last rest k0) = Some y /\ r_ref y = None) ->
  no_forge nid h -> untouched nid w' h.
Proof.
  intros Hcc w' nid Hjar Hx (y & Hy & Hry) Hnf.
  destruct (lookup (store (w_st w')) nid) as [x|] eqn:Ex; [|congruence].
  destruct (orphan_stage w r n k0 rest D U Hcc x y Ex Hy Hry) as (_ & (_ & _ & Hj) & _ & _ & Hno & _).
  fold w' in Hj, Hno. fold nid in Hno.
  destruct (crash_store_chain w r n k0 rest D U Hcc)
    as (l & _ & C1 & C2 & _ & _ & _ & _ & _ & _ & _ & _ & _ & _ & Hsup & _).
  fold w' in C1, C2, Hsup. fold nid in Hsup.
  assert (Hm : (supply (w_st w) < supply (w_st w'))%N) by (apply Hsup; congruence).
  split.
  - intros r2 -> . unfold pres. unfold no_forge in Hnf. destruct (rq_present r2) as [|c].
    + rewrite Hj. apply Hjar.
    + intros ->. apply Hnf. reflexivity.
  - destruct h as [r2|d|tbl pl| | |u tbl pl|u tbl pl|c]; try (cbn [step]; cbv zeta;
      repeat match goal with |- context [let '(_, _) := ?x in _] => destruct x end; cbn; tauto).
    rewrite step_req_eq. cbv zeta.
    destruct (req_body _ _ (rq_script r2)) as [[[[[s3 rc] st0] sr] fin] cks] eqn:EB.
    assert (Hck : ~ In (CkLive nid) cks).
    { eapply (req_body_never_names (supply (w_st w))); [| | |exact EB].
      - exact Hm.
      - split; [intros k o Hin; cbn in Hin; rewrite C1 in Hin; destruct Hin|]. split.
        + intros k o ob Hin. cbn in Hin. rewrite C1 in Hin. destruct Hin.
        + intros k z Hk. apply (Hno k z). exact Hk.
      - cbn [q_cookie]. unfold no_forge in Hnf. destruct (rq_present r2) as [|c].
        + rewrite Hj. apply Hjar.
        + intros ->. apply Hnf. reflexivity. }
    destruct (rq_crash r2) as [n2|].
    + destruct (fold_left apply_ev _ _) as [stor gr]. cbn. tauto.
    + cbn [snd mk_obs ob_cookies]. exact Hck.
Qed.

(* ... which is the instance hs1 = [] of the claim *)
Theorem orphan_never_presented_partial :
  forall w r n k0 rest D U hs,
    chain_crash w r n k0 rest D U [SRegen] ->
    let w' := fst (step w (HReq r)) in let nid := KGen (supply (w_st w)) in
    (forall c, jar_of (w_jars w) c <> CKey nid) ->
    lookup (store (w_st w')) nid <> None ->
    (exists y, lookup (store (w_st w')) (last rest k0) = Some y /\ r_ref y = None) ->
    Forall (no_forge nid) hs ->
    forall h hs2, hs = h :: hs2 -> untouched nid w' h.
Proof.
  intros w r n k0 rest D U hs Hcc w' nid Hjar Hx Hy Hnf h hs2 ->.
  apply (orphan_first_step w r n k0 rest D U h Hcc Hjar Hx Hy). inversion Hnf; assumption.
Qed.

Lemma no_forge_def v h :
  no_forge v h <-> match h with HReq r => rq_present r <> PForge (CKey v) | _ => True end.
Proof. reflexivity. Qed.

Lemma untouched_def v w h :
  untouched v w h <->
  (forall r, h = HReq r -> pres w r <> CKey v) /\ ~ In (CkLive v) (ob_cookies (snd (step w h))).
Proof. reflexivity. Qed.

Lemma orphan_never_presented_statement_def :
  orphan_never_presented_statement <->
  forall w r n k0 rest D U hs,
    chain_crash w r n k0 rest D U [SRegen] ->
    let w' := fst (step w (HReq r)) in let nid := KGen (supply (w_st w)) in
    (forall c, jar_of (w_jars w) c <> CKey nid) ->
    lookup (store (w_st w')) nid <> None ->
    (exists y, lookup (store (w_st w')) (last rest k0) = Some y /\ r_ref y = None) ->
    Forall (no_forge nid) hs ->
    forall hs1 h hs2, hs = hs1 ++ h :: hs2 -> untouched nid (after w' hs1) h.
Proof. reflexivity. Qed.
