(* Cookie attributes and the browser's cookie identity (task A1, C18/C07/C03):
   what render builds, and the refinement from the browser jar of Model/Cookie.v
   (keyed by name, domain, path) to the abstract jar of Model/Hist.v. Statements
   are collected in Properties/C18A.v. *)
From Coq Require Import String Ascii Lia.
From Sessions Require Import Model.Base Model.Sess Model.Hist Model.Cookie.

(* ------------------------------------------------------------ identities *)

Lemma ckey_eqb_refl k : ckey_eqb k k = true.
Proof. unfold ckey_eqb. rewrite !String.eqb_refl. reflexivity. Qed.

Lemma ckey_eqb_eq a b : ckey_eqb a b = true <-> a = b.
Proof.
  destruct a as [n d p], b as [n' d' p']. unfold ckey_eqb. cbn [k_name k_domain k_path].
  rewrite !andb_true_iff, !String.eqb_eq. split.
  - intros [[-> ->] ->]. reflexivity.
  - intro E. injection E as -> -> ->. auto.
Qed.

Lemma ckey_eqb_neq a b : ckey_eqb a b = false <-> a <> b.
Proof.
  split.
  - intros E H. apply ckey_eqb_eq in H. congruence.
  - intro H. destruct (ckey_eqb a b) eqn:E; [|reflexivity]. apply ckey_eqb_eq in E. contradiction.
Qed.

(* ------------------------------------------- (a) the rendered live cookie *)

Theorem render_live_attrs name t k :
  exists h, render name t (CkLive k) = Some h /\
    h_name h = name /\ h_value h = VId k /\
    h_domain h = t_domain t /\ h_path h = t_path t /\
    h_secure h = t_secure t /\ h_httponly h = t_httponly t /\ h_partitioned h = t_partitioned t /\
    h_samesite h = t_samesite t /\ h_maxage h = t_maxage t /\ h_expires h = t_expires t.
Proof. eexists. split; [reflexivity|]. cbn. repeat split. Qed.

(* two templates that render the same live cookie are the same template: no
   attribute is dropped or merged *)
Theorem render_live_injective name name' t t' k k' :
  render name t (CkLive k) = render name' t' (CkLive k') -> name = name' /\ t = t' /\ k = k'.
Proof.
  destruct t, t'. cbn. unfold live_cookie. cbn. intro E. injection E as -> -> -> -> -> -> -> -> -> ->. auto.
Qed.

(* ---------------------------------------- (b) the rendered deletion cookie *)

Lemma key_of_live x name t k : key_of x (live_cookie name t k) = session_key x name t.
Proof. reflexivity. Qed.

Lemma key_of_delete x name t : key_of x (delete_cookie name t) = session_key x name t.
Proof. reflexivity. Qed.

Lemma accepted_delete x name t k : accepted x (delete_cookie name t) = accepted x (live_cookie name t k).
Proof. reflexivity. Qed.

Lemma expired_delete now name t : expired_at now (delete_cookie name t) = true.
Proof. reflexivity. Qed.

Theorem render_delete_ok name t :
  exists h, render name t CkDelete = Some h /\
    h_name h = name /\ is_id (h_value h) = false /\
    (forall now, expired_at now h = true) /\
    h_domain h = t_domain t /\ h_path h = t_path t /\
    h_secure h = t_secure t /\ h_httponly h = t_httponly t /\ h_partitioned h = t_partitioned t /\
    h_samesite h = t_samesite t /\
    (forall x k, key_of x h = key_of x (live_cookie name t k)) /\
    (forall x k, accepted x h = accepted x (live_cookie name t k)).
Proof. eexists. split; [reflexivity|]. cbn. repeat split. Qed.

(* when the template names its Domain and a Path beginning with "/", the
   identity does not depend on the request that is being answered *)
Theorem session_key_fixed x x' name t :
  t_domain t <> EmptyString -> starts_with_slash (t_path t) = true ->
  session_key x name t = session_key x' name t.
Proof.
  intros Hd Hp. unfold session_key. rewrite Hp.
  destruct (String.eqb (t_domain t) "") eqn:E; [apply String.eqb_eq in E; contradiction | reflexivity].
Qed.

(* -------------------------------------------------- the store, one cookie *)

Lemma lookup_remove_same k j : jar_lookup k (jar_remove k j) = None.
Proof.
  induction j as [|[k' c] tl IH]; cbn [jar_remove jar_lookup]; [reflexivity|].
  destruct (ckey_eqb k k') eqn:E; [exact IH | cbn [jar_lookup]; rewrite E; exact IH].
Qed.

Lemma lookup_remove_other k k' j : ckey_eqb k' k = false -> jar_lookup k' (jar_remove k j) = jar_lookup k' j.
Proof.
  intro Hn. induction j as [|[k2 c] tl IH]; cbn [jar_remove jar_lookup]; [reflexivity|].
  destruct (ckey_eqb k k2) eqn:E.
  - apply ckey_eqb_eq in E. subst k2. rewrite Hn. exact IH.
  - cbn [jar_lookup]. destruct (ckey_eqb k' k2); [reflexivity | exact IH].
Qed.

Lemma lookup_app k j j2 :
  jar_lookup k (j ++ j2) = match jar_lookup k j with Some c => Some c | None => jar_lookup k j2 end.
Proof.
  induction j as [|[k2 c] tl IH]; cbn [app jar_lookup]; [reflexivity|].
  destruct (ckey_eqb k k2); [reflexivity | exact IH].
Qed.

Lemma apply_lookup_same x now j c : accepted x c = true ->
  jar_lookup (key_of x c) (jar_apply x now j c) = if expired_at now c then None else Some c.
Proof.
  intro Ha. unfold jar_apply. rewrite Ha. cbn [negb]. destruct (expired_at now c).
  - apply lookup_remove_same.
  - rewrite lookup_app, lookup_remove_same. cbn [jar_lookup]. rewrite ckey_eqb_refl. reflexivity.
Qed.

Lemma apply_lookup_other x now j c k : ckey_eqb k (key_of x c) = false ->
  jar_lookup k (jar_apply x now j c) = jar_lookup k j.
Proof.
  intro Hn. unfold jar_apply. destruct (accepted x c); cbn [negb]; [|reflexivity].
  destruct (expired_at now c).
  - apply lookup_remove_other. exact Hn.
  - rewrite lookup_app, lookup_remove_other by exact Hn.
    destruct (jar_lookup k j); [reflexivity|]. cbn [jar_lookup]. rewrite Hn. reflexivity.
Qed.

(* a browser that does not accept the Domain leaves its store alone *)
Lemma apply_rejected x now j c : accepted x c = false -> jar_apply x now j c = j.
Proof. intro Ha. unfold jar_apply. rewrite Ha. reflexivity. Qed.

(* at most one cookie per identity is kept *)
Lemma nodup_remove k j : jar_nodup j = true -> jar_nodup (jar_remove k j) = true.
Proof.
  induction j as [|[k2 c] tl IH]; cbn [jar_nodup jar_remove]; [reflexivity|].
  destruct (jar_lookup k2 tl) eqn:El; [discriminate|]. intro Hn.
  destruct (ckey_eqb k k2) eqn:E; [exact (IH Hn)|]. cbn [jar_nodup].
  destruct (ckey_eqb k2 k) eqn:E2.
  - apply ckey_eqb_eq in E2. subst k2. rewrite ckey_eqb_refl in E. discriminate.
  - rewrite lookup_remove_other by exact E2. rewrite El. exact (IH Hn).
Qed.

Lemma nodup_snoc k c j : jar_nodup j = true -> jar_lookup k j = None -> jar_nodup (j ++ [(k, c)]) = true.
Proof.
  induction j as [|[k2 c2] tl IH]; cbn [jar_nodup app jar_lookup]; [reflexivity|].
  destruct (jar_lookup k2 tl) eqn:El; [discriminate|]. intros Hn Hl.
  destruct (ckey_eqb k k2) eqn:E; [discriminate|].
  rewrite lookup_app, El. cbn [jar_lookup].
  destruct (ckey_eqb k2 k) eqn:E2.
  - apply ckey_eqb_eq in E2. subst k2. rewrite ckey_eqb_refl in E. discriminate.
  - exact (IH Hn Hl).
Qed.

Lemma nodup_apply x now j c : jar_nodup j = true -> jar_nodup (jar_apply x now j c) = true.
Proof.
  intro Hn. unfold jar_apply. destruct (accepted x c); cbn [negb]; [|exact Hn].
  destruct (expired_at now c); [apply nodup_remove; exact Hn|].
  apply nodup_snoc; [apply nodup_remove; exact Hn | apply lookup_remove_same].
Qed.

(* ------------------------------------- the store, the cookies of a response *)

Lemma render_all_cons name t c cs :
  render_all name t (c :: cs) =
  match render name t c with Some h => h :: render_all name t cs | None => render_all name t cs end.
Proof. unfold render_all. cbn [flat_map]. destruct (render name t c); reflexivity. Qed.

Lemma apply_all_cons x now j h hs : jar_apply_all x now j (h :: hs) = jar_apply_all x now (jar_apply x now j h) hs.
Proof. reflexivity. Qed.

Lemma apply_cookies_cons v c cs :
  apply_cookies v (c :: cs) =
  apply_cookies (match c with CkLive k => CKey k | CkDelete => CNone | CkBad _ => v end) cs.
Proof. reflexivity. Qed.

Definition no_bad (cs : list cookie) : Prop := forall n, ~ In (CkBad n) cs.

Lemma no_bad_cons c cs : no_bad (c :: cs) -> is_bad c = false /\ no_bad cs.
Proof.
  intro H. split.
  - destruct c as [k| |n]; try reflexivity. exfalso. apply (H n). left. reflexivity.
  - intros n Hin. apply (H n). right. exact Hin.
Qed.

Lemma usable_accepted x now name t k : tmpl_usable x now name t = true -> accepted x (live_cookie name t k) = true.
Proof. unfold tmpl_usable. intro H. apply andb_true_iff in H as [H _]. exact H. Qed.

Lemma usable_alive x now name t k : tmpl_usable x now name t = true -> expired_at now (live_cookie name t k) = false.
Proof. unfold tmpl_usable. intro H. apply andb_true_iff in H as [_ H]. apply negb_true_iff in H. exact H. Qed.

(* one live cookie: stored under the session identity, whatever was there *)
Lemma apply_live_lookup x now name t j k : tmpl_usable x now name t = true ->
  jar_lookup (session_key x name t) (jar_apply x now j (live_cookie name t k)) = Some (live_cookie name t k).
Proof.
  intro Hu. rewrite <- (key_of_live x name t k).
  rewrite apply_lookup_same by (eapply usable_accepted; exact Hu).
  rewrite (usable_alive x now name t k Hu). reflexivity.
Qed.

(* one deletion cookie: nothing is left under the session identity *)
Lemma apply_delete_lookup x now name t j : tmpl_usable x now name t = true ->
  jar_lookup (session_key x name t) (jar_apply x now j (delete_cookie name t)) = None.
Proof.
  intro Hu. rewrite <- (key_of_delete x name t).
  rewrite apply_lookup_same by (rewrite (accepted_delete x name t (KGen 0)); eapply usable_accepted; exact Hu).
  rewrite expired_delete. reflexivity.
Qed.

(* (c) refinement, one response *)
Theorem jar_refines x now name t : tmpl_usable x now name t = true ->
  forall cs j, no_bad cs ->
    abs_jar x name t (jar_apply_all x now j (render_all name t cs)) = apply_cookies (abs_jar x name t j) cs.
Proof.
  intro Hu. induction cs as [|c cs IH]; intros j Hnb; [reflexivity|].
  apply no_bad_cons in Hnb as [Hc Hnb]. rewrite render_all_cons, apply_cookies_cons.
  destruct c as [k| |n]; cbn [render is_bad] in *; try discriminate; rewrite apply_all_cons, (IH _ Hnb); f_equal.
  - unfold abs_jar. rewrite apply_live_lookup by exact Hu. reflexivity.
  - unfold abs_jar. rewrite apply_delete_lookup by exact Hu. reflexivity.
Qed.

(* what exactly is stored: the live cookie with every attribute of the template *)
Definition entry_of (name : string) (t : template) (v : cval) : option http_cookie :=
  match v with CKey k => Some (live_cookie name t k) | _ => None end.

Theorem jar_entry_refines x now name t : tmpl_usable x now name t = true ->
  forall cs j v, no_bad cs -> jar_lookup (session_key x name t) j = entry_of name t v ->
    jar_lookup (session_key x name t) (jar_apply_all x now j (render_all name t cs)) = entry_of name t (apply_cookies v cs).
Proof.
  intro Hu. induction cs as [|c cs IH]; intros j v Hnb Hj; [exact Hj|].
  apply no_bad_cons in Hnb as [Hc Hnb]. rewrite render_all_cons, apply_cookies_cons.
  destruct c as [k| |n]; cbn [render is_bad] in *; try discriminate; rewrite apply_all_cons; apply (IH _ _ Hnb).
  - rewrite apply_live_lookup by exact Hu. reflexivity.
  - rewrite apply_delete_lookup by exact Hu. reflexivity.
Qed.

(* a response that sets at least one cookie determines the stored cookie,
   whatever the browser held before *)
Theorem jar_entry_after x now name t c cs j : tmpl_usable x now name t = true -> no_bad (c :: cs) ->
  jar_lookup (session_key x name t) (jar_apply_all x now j (render_all name t (c :: cs))) =
  entry_of name t (apply_cookies CNone (c :: cs)).
Proof.
  intros Hu Hnb. pose proof (no_bad_cons _ _ Hnb) as [Hc Hnb'].
  rewrite render_all_cons, apply_cookies_cons.
  destruct c as [k| |n]; cbn [render is_bad] in *; try discriminate; rewrite apply_all_cons;
    apply (jar_entry_refines x now name t Hu cs _ _ Hnb').
  - rewrite apply_live_lookup by exact Hu. reflexivity.
  - rewrite apply_delete_lookup by exact Hu. reflexivity.
Qed.

(* cookies with any other identity (another name, domain or path) are not touched *)
Theorem jar_others_kept x now name t k' : ckey_eqb k' (session_key x name t) = false ->
  forall cs j, jar_lookup k' (jar_apply_all x now j (render_all name t cs)) = jar_lookup k' j.
Proof.
  intro Hn. induction cs as [|c cs IH]; intro j; [reflexivity|]. rewrite render_all_cons.
  destruct c as [k| |n]; cbn [render]; [| |apply IH]; rewrite apply_all_cons, IH; apply apply_lookup_other; exact Hn.
Qed.

Theorem jar_nodup_kept x now : forall hs j, jar_nodup j = true -> jar_nodup (jar_apply_all x now j hs) = true.
Proof.
  induction hs as [|h hs IH]; intros j Hn; [exact Hn|]. rewrite apply_all_cons. apply IH. apply nodup_apply. exact Hn.
Qed.

(* ------------------------------------------ (c) refinement, many responses *)

(* every response is answered in a context that gives the session cookie the
   identity K, finds the template usable, and sets no CkBad *)
Definition resp_ok (name : string) (t : template) (K : ckey) (r : ctx * Z * list cookie) : Prop :=
  session_key (fst (fst r)) name t = K /\ tmpl_usable (fst (fst r)) (snd (fst r)) name t = true /\ no_bad (snd r).

Definition abs_at (K : ckey) (j : bjar) : cval :=
  match jar_lookup K j with
  | None => CNone
  | Some c => match h_value c with VId k => CKey k | VText _ => COther 0 end
  end.

Lemma abs_jar_at x name t j : abs_jar x name t j = abs_at (session_key x name t) j.
Proof. reflexivity. Qed.

Theorem browse_refines name t K : forall rs j, Forall (resp_ok name t K) rs ->
  abs_at K (browse name t j rs) = abs_browse (abs_at K j) rs.
Proof.
  induction rs as [|[[x now] cs] rs IH]; intros j Hok; [reflexivity|].
  inversion Hok as [|r0 rs0 (HK & Hu & Hnb) Hrest]; subst. cbn [fst snd] in *.
  unfold browse, abs_browse. cbn [fold_left fst snd]. fold (browse name t (jar_apply_all x now j (render_all name t cs)) rs).
  fold (abs_browse (apply_cookies (abs_at (session_key x name t) j) cs) rs).
  rewrite (IH _ Hrest). f_equal. rewrite <- !abs_jar_at. apply jar_refines; assumption.
Qed.

(* ------------------------------------- (d) the deletion cookie before 7b26151 *)

Local Open Scope string_scope.

Definition d11_name : string := "id".
Definition d11_tmpl : template := mkTmpl "" "/app" false true false 0 0 None.
(* the deletion answers a request for /logout on the same host: default-path "/" *)
Definition d11_ctx : ctx := mkCtx "www.example.com" "/".

Theorem old_delete_refuted :
  exists name t x now k,
    tmpl_usable x now name t = true /\ t_path t <> "" /\
    let j1 := jar_apply_all x now [] (render_all name t [CkLive k]) in
    let j2 := jar_apply_all x now j1 (render_all_old name t true [CkDelete]) in
    (* the abstract jar is empty ... *)
    apply_cookies (apply_cookies CNone [CkLive k]) [CkDelete] = CNone /\
    (* ... the browser still holds the live cookie ... *)
    abs_jar x name t j2 = CKey k /\
    jar_lookup (session_key x name t) j2 = Some (live_cookie name t k) /\
    (* ... while the repaired deletion cookie removes it *)
    jar_apply_all x now j1 (render_all name t [CkDelete]) = [].
Proof.
  exists d11_name, d11_tmpl, d11_ctx, 1000%Z, (KGen 0).
  split; [reflexivity|]. split; [discriminate|]. cbv zeta. repeat split.
Qed.
