(* C12 at the level of the public API, part 1: every API entry point, run from
   any state, is a sequence of primitive state changes

     cache.Get, cache.Set, cache.Delete, a direct SaveSession, UserSessions,
     a mutation of one object, a change of the pending clean-ups,
     session creation (draw, allocate, Set), RegenerateID (draw, re-key, Set,
     allocate the replaced-ID record, Set, schedule the clean-up).

   No hypothesis on the state: the decomposition is purely structural (papi).
   A state predicate kept by the nine "micro" changes (record micro) is kept by
   every primitive, hence by every API call; a predicate that is absorbing and
   is established by every Set of a live object holds after every call that
   drew an ID (papi_establish): creation and RegenerateID are the only
   primitives that draw, and both end in a Set. *)
From Sessions Require Import Model.Base Model.Sess Model.Hist Proofs.SessDefs.
From Sessions Require Proofs.HistInv Proofs.HistInv2 Proofs.HistInv3.
From Coq Require Import Lia.

(* ------------------------------------------------------------ primitives *)

Inductive prim : st -> st -> Prop :=
  | PGet s k : prim s (fst (cache_get s k))
  | PSet s o : prim s (fst (cache_set s o))
  | PDel s k : prim s (fst (cache_delete s k))
  | PSave s k r : prim s (fst (p_save s k r))
  | PUs s u : prim s (fst (p_usersessions s u))
  | PPut s o ob : prim s (hput s o ob)
  | PPend s l : prim s (set_pending s l)
  | PCreate s q : prim s (fst (fst (create_session s q)))
  | PRegen s o : prim s (fst (fst (regenerate s o))).

Inductive papi : st -> st -> Prop :=
  | papi_refl s : papi s s
  | papi_step s s1 s2 : prim s s1 -> papi s1 s2 -> papi s s2.

Lemma papi_one s s' : prim s s' -> papi s s'.
Proof. intro H. eapply papi_step; [exact H | apply papi_refl]. Qed.

Lemma papi_trans s1 s2 s3 : papi s1 s2 -> papi s2 s3 -> papi s1 s3.
Proof. induction 1; intro H2; [exact H2 | eapply papi_step; [eassumption | auto]]. Qed.

(* --------------------------------------------- the API is made of primitives *)

Lemma hupd_papi s o f : papi s (hupd s o f).
Proof. unfold hupd. destruct (hget s o); [apply papi_one; constructor | apply papi_refl]. Qed.

Lemma destroy_papi s o hc : papi s (fst (fst (destroy s o hc))).
Proof.
  unfold destroy. destruct (hget s o) as [ob|]; [|apply papi_refl].
  generalize (PDel s (o_id ob)). destruct (cache_delete s (o_id ob)) as [s1 ok]. cbn [fst]. intro H.
  destruct (negb ok); cbn [fst]; apply papi_one; exact H.
Qed.

Lemma follow_papi : forall fuel s o lk, papi s (fst (follow fuel s o lk)).
Proof.
  induction fuel as [|f IH]; intros s o lk; cbn [follow]; destruct (hget s o) as [ob|]; try apply papi_refl;
    destruct (r_ref (o_rec ob)) as [t|]; try apply papi_refl.
  generalize (PGet s t). destruct (cache_get s t) as [s1 [[o'|]|]]; cbn [fst]; intro H;
    try (apply papi_one; exact H).
  eapply papi_step; [exact H | apply IH].
Qed.

Lemma save_direct_papi s o : papi s (fst (save_direct s o)).
Proof.
  unfold save_direct. destruct (hget s o) as [ob|]; [|apply papi_refl].
  generalize (PSave s (o_id ob) (o_rec ob)). destruct (p_save s (o_id ob) (o_rec ob)) as [s1 ok].
  cbn [fst]. intro H. apply papi_one. exact H.
Qed.

Lemma logout_papi s o : papi s (fst (logout s o)).
Proof.
  unfold logout. destruct (hget s o) as [ob|]; [|apply papi_refl].
  destruct (r_user (o_rec ob)); [|apply papi_refl].
  eapply papi_trans; [apply hupd_papi | apply save_direct_papi].
Qed.

Lemma eus_papi u : forall ids s, papi s (fst (each_user_session s ids u)).
Proof.
  induction ids as [|k t IH]; intro s; cbn [each_user_session]; [apply papi_refl|].
  generalize (PGet s k). destruct (cache_get s k) as [s1 [[o|]|]]; cbn [fst]; intro H1.
  - generalize (PSet (hupd s1 o (fun r => set_user r u)) o).
    destruct (cache_set (hupd s1 o (fun r => set_user r u)) o) as [s3 ok]. cbn [fst]. intro H3.
    assert (H13 : papi s s3).
    { eapply papi_step; [exact H1|]. eapply papi_trans; [apply hupd_papi | apply papi_one; exact H3]. }
    destruct ok; [eapply papi_trans; [exact H13 | apply IH] | exact H13].
  - eapply papi_step; [exact H1 | apply IH].
  - apply papi_one. exact H1.
Qed.

Lemma logout_user_papi s u : papi s (fst (logout_user s u)).
Proof.
  unfold logout_user. generalize (PUs s u). destruct (p_usersessions s u) as [s1 [ids|]]; cbn [fst]; intro H.
  - eapply papi_step; [exact H | apply eus_papi].
  - apply papi_one. exact H.
Qed.

Lemma refresh_user_papi s u : papi s (fst (refresh_user s u)).
Proof.
  unfold refresh_user. generalize (PUs s (fst u)). destruct (p_usersessions s (fst u)) as [s1 [ids|]]; cbn [fst]; intro H.
  - eapply papi_step; [exact H | apply eus_papi].
  - apply papi_one. exact H.
Qed.

Lemma login_papi s o u ex : papi s (fst (fst (login s o u ex))).
Proof.
  unfold login.
  assert (H1 : papi s (fst (if ex then logout_user s (fst u) else let '(s0, _) := logout s o in (s0, Ok tt)))).
  { destruct ex; [apply logout_user_papi|]. generalize (logout_papi s o). destruct (logout s o) as [s0 x]. cbn [fst]. auto. }
  destruct (if ex then logout_user s (fst u) else let '(s0, _) := logout s o in (s0, Ok tt)) as [s1 r1].
  cbn [fst] in H1. destruct r1 as [x|e|e]; cbn [fst]; try exact H1.
  generalize (PSet (hupd s1 o (fun r => set_user r (Some u))) o).
  destruct (cache_set (hupd s1 o (fun r => set_user r (Some u))) o) as [s3 ok]. cbn [fst]. intro H3.
  assert (H13 : papi s s3).
  { eapply papi_trans; [exact H1|]. eapply papi_trans; [apply hupd_papi | apply papi_one; exact H3]. }
  destruct (negb ok); cbn [fst]; [exact H13|].
  generalize (PRegen s3 o). destruct (regenerate s3 o) as [[s4 r2] cks]. cbn [fst]. intro H4.
  assert (H14 : papi s s4) by (eapply papi_trans; [exact H13 | apply papi_one; exact H4]).
  destruct r2; cbn [fst]; exact H14.
Qed.

Lemma do_sop_papi s o hc op : papi s (fst (fst (do_sop s o hc op))).
Proof.
  destruct op as [k v|k|k|k|u ex| | | ]; cbn [do_sop].
  - destruct (data_of s o) as [d|]; [|apply papi_refl].
    generalize (save_direct_papi (hupd s o (fun r => set_data r (Some (kv_set d k v)))) o).
    destruct (save_direct (hupd s o (fun r => set_data r (Some (kv_set d k v)))) o) as [s1 r]. cbn [fst]. intro H.
    eapply papi_trans; [apply hupd_papi | exact H].
  - assert (H0 : papi s (match data_of s o with
                         | Some d => hupd s o (fun r => set_data r (Some (kv_del d k)))
                         | None => s end)).
    { destruct (data_of s o); [apply hupd_papi | apply papi_refl]. }
    generalize (save_direct_papi (match data_of s o with
                         | Some d => hupd s o (fun r => set_data r (Some (kv_del d k)))
                         | None => s end) o).
    destruct (save_direct _ o) as [s1 r]. cbn [fst]. intro H. eapply papi_trans; [exact H0 | exact H].
  - apply papi_refl.
  - destruct (data_of s o) as [d|]; cbn [fst]; [|apply papi_refl].
    destruct (kv_get d k); [|apply papi_refl].
    generalize (save_direct_papi (hupd s o (fun r => set_data r (Some (kv_del d k)))) o).
    destruct (save_direct (hupd s o (fun r => set_data r (Some (kv_del d k)))) o) as [s1 r]. cbn [fst]. intro H.
    eapply papi_trans; [apply hupd_papi | exact H].
  - generalize (login_papi s o u ex). destruct (login s o u ex) as [[s1 r] cks]. cbn [fst]. auto.
  - generalize (logout_papi s o). destruct (logout s o) as [s1 r]. cbn [fst]. auto.
  - generalize (PRegen s o). destruct (regenerate s o) as [[s1 r] cks]. cbn [fst]. intro H. apply papi_one. exact H.
  - generalize (destroy_papi s o hc). destruct (destroy s o hc) as [[s1 r] cks]. cbn [fst]. auto.
Qed.

Lemma fire_papi : forall l s, papi s (fst (fire s l)).
Proof.
  induction l as [|[due k] t IH]; intro s; cbn [fire]; [apply papi_refl|].
  destruct (due <=? now s)%Z.
  - generalize (PDel s k). destruct (cache_delete s k) as [s1 x]. cbn [fst]. intro H.
    eapply papi_step; [exact H | apply IH].
  - generalize (IH s). destruct (fire s t) as [s1 rest]. cbn [fst]. auto.
Qed.

Lemma fire_due_papi s : papi s (fire_due s).
Proof.
  unfold fire_due. generalize (fire_papi (pending s) (set_pending s [])).
  destruct (fire (set_pending s []) (pending s)) as [s' rest]. cbn [fst]. intro H.
  eapply papi_step; [apply (PPend s [])|]. eapply papi_trans; [exact H|]. apply papi_one. constructor.
Qed.

Lemma run_script_papi hc : forall ops s o, papi s (fst (fst (run_script s o hc ops))).
Proof.
  induction ops as [|op t IH]; intros s o; cbn [run_script]; [apply papi_refl|].
  generalize (do_sop_papi s o hc op). destruct (do_sop s o hc op) as [[s1 r] cks]. cbn [fst]. intro H1.
  assert (H2 : papi s (fire_due s1)) by (eapply papi_trans; [exact H1 | apply fire_due_papi]).
  match goal with |- context [if ?b then _ else _] => destruct b end.
  - cbn [fst]. exact H2.
  - generalize (IH (fire_due s1) o). destruct (run_script (fire_due s1) o hc t) as [[s2 rs] cks'].
    cbn [fst]. intro H3. eapply papi_trans; [exact H2 | exact H3].
Qed.

Import HistInv2.

Lemma start_none_papi s q cks : papi s (fst (fst (start_none s q cks))).
Proof.
  unfold start_none. destruct (q_create q); [|apply papi_refl].
  generalize (PCreate s q). destruct (create_session s q) as [[s1 r] nck]. cbn [fst]. intro H.
  apply papi_one. exact H.
Qed.

Lemma start_found_papi c s q k o ob cks : papi s (fst (fst (start_found c s q k o ob cks))).
Proof.
  unfold start_found. cbv zeta. destruct (negb (rec_valid c (now s) q (o_rec ob))).
  - generalize (destroy_papi s o (had_cookie q)). destruct (destroy s o (had_cookie q)) as [[s1 res] dck].
    cbn [fst]. intro H1. destruct res as [x|e|e]; cbn [fst]; try exact H1.
    destruct (q_create q); cbn [fst]; [|exact H1].
    generalize (PCreate s1 q). destruct (create_session s1 q) as [[s2 r] nck]. cbn [fst]. intro H2.
    eapply papi_trans; [exact H1 | apply papi_one; exact H2].
  - set (isr := match r_ref (o_rec ob) with Some _ => true | None => false end).
    assert (H1 : papi s (fst (fst
       (if negb isr && (c_idexpiry c <=? since (r_created (o_rec ob)) (now s))%Z
        then let '(s0, res, rck) := regenerate s o in (s0, res, cks ++ rck)
        else if (sat_add (c_idexpiry c) (c_grace c) <=? since (r_created (o_rec ob)) (now s))%Z
             then let '(s0, ok) := cache_delete s k in (s0, if ok then Err EExpiredID else Err EDeleteExpired, cks)
             else (s, Ok tt, cks))))).
    { destruct (negb isr && (c_idexpiry c <=? since (r_created (o_rec ob)) (now s))%Z).
      - generalize (PRegen s o). destruct (regenerate s o) as [[s0 res] rck]. cbn [fst]. intro H. apply papi_one. exact H.
      - destruct (sat_add (c_idexpiry c) (c_grace c) <=? since (r_created (o_rec ob)) (now s))%Z.
        + generalize (PDel s k). destruct (cache_delete s k) as [s0 ok]. cbn [fst]. intro H. apply papi_one. exact H.
        + apply papi_refl. }
    destruct (if negb isr && (c_idexpiry c <=? since (r_created (o_rec ob)) (now s))%Z
        then let '(s0, res, rck) := regenerate s o in (s0, res, cks ++ rck)
        else if (sat_add (c_idexpiry c) (c_grace c) <=? since (r_created (o_rec ob)) (now s))%Z
             then let '(s0, ok) := cache_delete s k in (s0, if ok then Err EExpiredID else Err EDeleteExpired, cks)
             else (s, Ok tt, cks)) as [[s1 stp] cks1].
    cbn [fst] in H1. destruct stp as [x|e|e]; cbn [fst]; try exact H1.
    assert (H2 : papi s1 (fst (if isr then follow (S (N.to_nat (supply s1))) s1 o k else (s1, Ok (o, k))))).
    { destruct isr; [apply follow_papi | apply papi_refl]. }
    destruct (if isr then follow (S (N.to_nat (supply s1))) s1 o k else (s1, Ok (o, k))) as [s2 fr].
    cbn [fst] in H2. assert (H12 : papi s s2) by (eapply papi_trans; eassumption).
    destruct fr as [[o' lk']|e|e]; cbn [fst]; try exact H12.
    eapply papi_trans; [exact H12 | apply hupd_papi].
Qed.

Lemma start_papi s q : papi s (fst (fst (start s q))).
Proof.
  rewrite start_eq. destruct (q_cookie q) as [|k|n]; try apply start_none_papi.
  generalize (PGet s k). destruct (cache_get s k) as [s1 [[o|]|]]; cbn [fst]; intro H1.
  - destruct (hget s1 o) as [ob|]; [|apply papi_one; exact H1].
    eapply papi_step; [exact H1 | apply start_found_papi].
  - eapply papi_step; [exact H1 | apply start_none_papi].
  - apply papi_one. exact H1.
Qed.

Import HistInv3.

Lemma req_body_papi s1 q script :
  papi s1 (fst (fst (fst (fst (fst (req_body s1 q script)))))).
Proof.
  unfold req_body. generalize (start_papi s1 q). destruct (start s1 q) as [[s2 res] cks]. cbn [fst]. intro H1.
  assert (H2 : papi s1 (fire_due s2)) by (eapply papi_trans; [exact H1 | apply fire_due_papi]).
  destruct res as [[o|]|e|e]; cbv zeta; cbn [fst]; try exact H2.
  generalize (run_script_papi (had_cookie q) script (fire_due s2) o).
  destruct (run_script (fire_due s2) o (had_cookie q) script) as [[s3 sr] cks']. cbn [fst]. intro H3.
  eapply papi_trans; eassumption.
Qed.

(* ------------------------------------------ predicates through primitives *)

(* the nine micro changes the primitives are made of *)
Record micro (Q : st -> Prop) : Prop := mkMicro {
  m_get : forall s k, Q s -> Q (fst (cache_get s k));
  m_set : forall s o, Q s -> Q (fst (cache_set s o));
  m_del : forall s k, Q s -> Q (fst (cache_delete s k));
  m_save : forall s k r, Q s -> Q (fst (p_save s k r));
  m_us : forall s u, Q s -> Q (fst (p_usersessions s u));
  m_draw : forall s, Q s -> Q (fst (gen_id s));
  m_new : forall s ob, Q s -> Q (fst (halloc s ob));
  m_put : forall s o ob, Q s -> Q (hput s o ob);
  m_pend : forall s l, Q s -> Q (set_pending s l) }.

(* creation and RegenerateID as micro changes *)
Lemma create_session_state s q :
  fst (fst (create_session s q)) =
  fst (cache_set (fst (halloc (fst (gen_id s))
         (mkObj (KGen (supply s)) (mkRec (now s) (now s) (q_addr q) (q_ua q) None None (Some [])))))
       (length (heap s))).
Proof.
  unfold create_session. cbn [gen_id halloc fst log set_supply set_evs set_heap heap now].
  match goal with |- context [cache_set ?a ?b] => destruct (cache_set a b) as [s1 ok] end.
  destruct (negb ok); reflexivity.
Qed.

Section Micro.
  Variable Q : st -> Prop.
  Hypothesis M : micro Q.

  Lemma micro_create s q : Q s -> Q (fst (fst (create_session s q))).
  Proof.
    intro H. rewrite create_session_state. apply (m_set Q M). apply (m_new Q M). apply (m_draw Q M). exact H.
  Qed.

  Lemma micro_regen s o : Q s -> Q (fst (fst (regenerate s o))).
  Proof.
    intro H. unfold regenerate. destruct (hget s o) as [ob|]; [|exact H].
    pose proof (m_draw Q M s H) as H1. destruct (gen_id s) as [s1 nid]. cbn [fst] in H1.
    pose proof (m_put Q M s1 o (mkObj nid (set_created (o_rec ob) (now s1))) H1) as H2.
    pose proof (m_set Q M _ o H2) as H3.
    destruct (cache_set (hput s1 o (mkObj nid (set_created (o_rec ob) (now s1)))) o) as [s3 ok]. cbn [fst] in H3.
    destruct (negb ok); cbn [fst]; [exact H3|].
    destruct (hget s3 o) as [ob3|]; cbn [fst]; [|exact H3].
    pose proof (m_new Q M s3 (mkObj (o_id ob)
      (mkRec (r_created (o_rec ob3)) (now s3) (r_ip (o_rec ob3)) (r_ua (o_rec ob3)) (Some nid) None None)) H3) as H4.
    destruct (halloc s3 _) as [s4 ro]. cbn [fst] in H4.
    pose proof (m_set Q M s4 ro H4) as H5. destruct (cache_set s4 ro) as [s5 ok5]. cbn [fst] in H5.
    destruct (negb ok5); cbn [fst]; [exact H5|]. apply (m_pend Q M). exact H5.
  Qed.

  Lemma micro_prim s s' : prim s s' -> Q s -> Q s'.
  Proof.
    intros Hp H. destruct Hp.
    - apply (m_get Q M); exact H.
    - apply (m_set Q M); exact H.
    - apply (m_del Q M); exact H.
    - apply (m_save Q M); exact H.
    - apply (m_us Q M); exact H.
    - apply (m_put Q M); exact H.
    - apply (m_pend Q M); exact H.
    - apply micro_create; exact H.
    - apply micro_regen; exact H.
  Qed.

  Lemma micro_papi s s' : papi s s' -> Q s -> Q s'.
  Proof. intros Hp. induction Hp as [s|s s1 s2 Hp Hr IH]; intro Hq; [exact Hq | apply IH; eapply micro_prim; eassumption]. Qed.
End Micro.

(* ---------------------------------------- calls that draw end in a Set *)

Lemma p_save_supply s k r : supply (fst (p_save s k r)) = supply s.
Proof.
  unfold p_save, next_fault. destruct (plan s) as [|f p]; [reflexivity|]. destruct f; reflexivity.
Qed.

Lemma p_delete_supply s k : supply (fst (p_delete s k)) = supply s.
Proof.
  unfold p_delete, next_fault. destruct (plan s) as [|f p]; [reflexivity|]. destruct f; reflexivity.
Qed.

Lemma next_fault_supply s : supply (snd (next_fault s)) = supply s.
Proof. unfold next_fault. destruct (plan s); reflexivity. Qed.

Lemma p_load_supply s k : supply (fst (p_load s k)) = supply s.
Proof.
  unfold p_load. pose proof (next_fault_supply s) as H. destruct (next_fault s) as [f s1]. cbn [snd] in H.
  destruct f; [exact H|]. change (store (log s1 (EvLoad k true))) with (store s1).
  destruct (lookup (store s1) k) as [r|]; [|exact H].
  destruct (r_user r) as [[u v]|]; [|exact H].
  pose proof (next_fault_supply (log s1 (EvLoad k true))) as H2.
  destruct (next_fault (log s1 (EvLoad k true))) as [f2 s2]. cbn [snd supply set_evs log] in H2.
  destruct f2; cbn [fst supply set_evs log]; congruence.
Qed.

Lemma p_usersessions_supply s u : supply (fst (p_usersessions s u)) = supply s.
Proof.
  unfold p_usersessions, next_fault. destruct (plan s) as [|f p]; [reflexivity|]. destruct f; reflexivity.
Qed.

Lemma sweep_supply : forall es s, supply (fst (sweep s es)) = supply s.
Proof.
  induction es as [|[k o] t IH]; intro s; cbn [sweep]; [reflexivity|].
  destruct (hget s o) as [ob|]; [|apply IH].
  pose proof (p_save_supply (set_tb s (drop_first (tb s) k)) k (o_rec ob)) as H.
  destruct (p_save (set_tb s (drop_first (tb s) k)) k (o_rec ob)) as [s1 ok]. cbn [fst] in H.
  destruct ok; [rewrite IH; exact H | exact H].
Qed.

Lemma evict_supply : forall f s req, supply (fst (evict f s req)) = supply s.
Proof.
  induction f as [|f IH]; intros s req; cbn [evict]; [reflexivity|].
  destruct (c_maxcache (conf s) <? Z.of_nat (length (cache s)) + req)%Z; [|reflexivity].
  destruct (pick_victim s) as [[k o]|]; [|reflexivity].
  destruct (hget s o) as [ob|]; [|reflexivity].
  pose proof (p_save_supply (set_tb s (drop_first (tb s) k)) k (o_rec ob)) as H.
  destruct (p_save (set_tb s (drop_first (tb s) k)) k (o_rec ob)) as [s1 ok]. cbn [fst] in H.
  destruct ok; [rewrite IH; exact H | exact H].
Qed.

Lemma compact_supply s req : supply (compact s req) = supply s.
Proof.
  unfold compact. pose proof (sweep_supply (order_by_tb (tb s) (filter (is_idle s) (cache s))) s) as H.
  destruct (sweep s _) as [s1 ok]. cbn [fst] in H. destruct (negb ok); [exact H|].
  destruct ((c_maxcache (conf s1) <? 0)%Z || _); [exact H|]. rewrite evict_supply. exact H.
Qed.

Lemma cache_get_supply s k : supply (fst (cache_get s k)) = supply s.
Proof.
  unfold cache_get. destruct (lookup (cache s) k); [reflexivity|].
  pose proof (p_load_supply s k) as H. destruct (p_load s k) as [s1 [[r|]|]]; cbn [fst] in *; try exact H.
  cbn [halloc]. destruct (c_maxcache _ =? 0)%Z; cbn [fst supply set_heap set_cache]; [exact H|].
  rewrite compact_supply. exact H.
Qed.

Lemma hupd_supply s o f : supply (hupd s o f) = supply s.
Proof. unfold hupd. destruct (hget s o); reflexivity. Qed.

Lemma cache_set_supply s o : supply (fst (cache_set s o)) = supply s.
Proof.
  unfold cache_set. destruct (hget s o) as [ob0|]; [|reflexivity].
  destruct (hget (hupd s o _) o) as [ob|]; [|apply hupd_supply].
  rewrite p_save_supply.
  destruct (c_maxcache _ =? 0)%Z; cbn [supply set_cache]; rewrite compact_supply; apply hupd_supply.
Qed.

Lemma cache_delete_supply s k : supply (fst (cache_delete s k)) = supply s.
Proof. unfold cache_delete. rewrite p_delete_supply. reflexivity. Qed.

(* a Set of a live object happened on the way *)
Definition live_set (Q A : st -> Prop) : Prop :=
  forall s o, Q s -> hget s o <> None -> A (fst (cache_set s o)).

Section Establish.
  Variables Q A : st -> Prop.
  Hypothesis MQ : micro Q.
  Hypothesis MA : micro (fun s => Q s /\ A s).
  Hypothesis HS : live_set Q A.

  Lemma establish_create s q : Q s -> A (fst (fst (create_session s q))).
  Proof.
    intro H. rewrite create_session_state. apply HS.
    - apply (m_new Q MQ). apply (m_draw Q MQ). exact H.
    - cbn [gen_id halloc fst]. unfold hget. cbn [heap set_heap log set_supply set_evs].
      rewrite nth_error_app2 by lia. rewrite Nat.sub_diag. discriminate.
  Qed.

  Lemma establish_regen s o : Q s -> hget s o <> None -> A (fst (fst (regenerate s o))).
  Proof.
    intros H Hl. unfold regenerate. destruct (hget s o) as [ob|] eqn:Ho; [|congruence].
    pose proof (m_draw Q MQ s H) as H1.
    assert (Hlt : o < length (heap (fst (gen_id s)))) by (apply hget_Some_lt in Ho; exact Ho).
    destruct (gen_id s) as [s1 nid]. cbn [fst] in H1, Hlt.
    pose proof (m_put Q MQ s1 o (mkObj nid (set_created (o_rec ob) (now s1))) H1) as H2.
    assert (Hl2 : hget (hput s1 o (mkObj nid (set_created (o_rec ob) (now s1)))) o <> None).
    { rewrite hget_hput_same by exact Hlt. discriminate. }
    pose proof (HS _ o H2 Hl2) as A3. pose proof (m_set Q MQ _ o H2) as H3.
    destruct (cache_set (hput s1 o (mkObj nid (set_created (o_rec ob) (now s1)))) o) as [s3 ok]. cbn [fst] in A3, H3.
    destruct (negb ok); cbn [fst]; [exact A3|].
    destruct (hget s3 o) as [ob3|]; cbn [fst]; [|exact A3].
    pose proof (m_new _ MA s3 (mkObj (o_id ob)
      (mkRec (r_created (o_rec ob3)) (now s3) (r_ip (o_rec ob3)) (r_ua (o_rec ob3)) (Some nid) None None))
      (conj H3 A3)) as H4.
    destruct (halloc s3 _) as [s4 ro]. cbn [fst] in H4.
    pose proof (m_set _ MA s4 ro H4) as H5. destruct (cache_set s4 ro) as [s5 ok5]. cbn [fst] in H5.
    destruct (negb ok5); cbn [fst]; [exact (proj2 H5)|]. apply (m_pend _ MA). exact H5.
  Qed.

  Lemma regenerate_supply_dead s o : hget s o = None -> fst (fst (regenerate s o)) = s.
  Proof. intro H. unfold regenerate. rewrite H. reflexivity. Qed.

  Lemma prim_establish s s' : prim s s' -> Q s -> supply s' <> supply s -> A s'.
  Proof.
    intros Hp H Hne. destruct Hp.
    - exfalso. apply Hne. apply cache_get_supply.
    - exfalso. apply Hne. apply cache_set_supply.
    - exfalso. apply Hne. apply cache_delete_supply.
    - exfalso. apply Hne. apply p_save_supply.
    - exfalso. apply Hne. apply p_usersessions_supply.
    - exfalso. apply Hne. reflexivity.
    - exfalso. apply Hne. reflexivity.
    - apply establish_create. exact H.
    - destruct (hget s o) eqn:Ho.
      + apply establish_regen; [exact H | congruence].
      + exfalso. apply Hne. rewrite regenerate_supply_dead by exact Ho. reflexivity.
  Qed.

  Lemma papi_establish s s' : papi s s' -> Q s -> supply s' <> supply s -> A s'.
  Proof.
    induction 1 as [s|s s1 s2 Hp Hr IH]; intros H Hne; [congruence|].
    destruct (N.eq_dec (supply s1) (supply s)) as [E|E].
    - apply IH; [eapply micro_prim; eassumption | congruence].
    - pose proof (prim_establish s s1 Hp H E) as A1.
      pose proof (micro_prim Q MQ s s1 Hp H) as Q1.
      exact (proj2 (micro_papi _ MA s1 s2 Hr (conj Q1 A1))).
  Qed.
End Establish.
