(* R10, C10: no dangling reference at ANY crash point of ANY fault-free request step,
   part 2: Start, the handler operations, scripts, whole request steps - nd_ok
   (CrashAny.v) of each, following the proofs of LineageE2.v (which follow
   start_Gb .. req_body_Gb of HistLiftB.v for the invariant between the calls);
   then the theorem about the state a process stop leaves.

   No axioms; standard library only. *)
From Sessions Require Import Model.Base Model.Sess Model.Hist Proofs.SessDefs
  Proofs.HistInv Proofs.HistInv2 Proofs.HistInv3 Proofs.HistLift Proofs.HistLift2 Proofs.HistLift3
  Proofs.HistLift4 Proofs.HistLiftB Proofs.LineageB Proofs.LineageK Proofs.LineageK3 Proofs.LineageF Proofs.CrashAny.
From Sessions Require Proofs.CrashFault Proofs.CrashFault2 Proofs.CrashFault3 Proofs.CrashFault13.
From Coq Require Import Lia.

Section NoD2.
  Variable b : nat.
  Variable X0 : key -> Prop.
  Notation nd_ok := (nd_ok X0).
  Notation nd_ok_refl := (nd_ok_refl X0).
  Notation nd_ok_trans := (nd_ok_trans X0).
  Notation nd_ok_hupd := (nd_ok_hupd X0).

  Lemma G_qt1 base s s' : inv b base NX ND s' -> Kcs s' -> qt s s' -> Gb b Q0 base s -> Gb b Q0 base s'.
  Proof. apply (Gb_qt b Q0 Q0_qt). Qed.

  Lemma hget_hupd_same s o ob f : hget s o = Some ob -> hget (hupd s o f) o = Some (mkObj (o_id ob) (f (o_rec ob))).
  Proof. intro Ho. rewrite (CrashFault.hupd_spec _ _ _ _ Ho). apply hget_hput_same. eapply hget_Some_lt. exact Ho. Qed.

  Lemma hgK base s o ob : Gb b Q0 base s -> hg s o -> hget s o = Some ob -> r_ref (o_rec ob) = None /\ True.
  Proof. intros _ (ob' & Ho' & Hr & _) Ho. rewrite Ho in Ho'. injection Ho' as <-. split; [exact Hr | exact Logic.I]. Qed.

  (* update the handler's object, then save it directly *)
  Lemma nd_upd_save s o ob f : hget s o = Some ob -> r_ref (o_rec ob) = None -> (forall r, r_ref (f r) = r_ref r) ->
    nd_ok s (fst (save_direct (hupd s o f) o)).
  Proof.
    intros Ho HK Hf. destruct (save_direct (hupd s o f) o) as [s' r] eqn:E. cbn [fst].
    eapply nd_ok_trans; [apply nd_ok_hupd|].
    eapply (nd_save_direct X0 _ o _ s' r (hget_hupd_same s o ob f Ho)); [|exact E].
    cbn [o_id o_rec]. rewrite Hf. exact HK.
  Qed.

  (* ---------------------------------------------------------------- Start *)

  Lemma nd_start_none base s q cks0 : Gb b Q0 base s -> nd_ok s (fst (fst (start_none s q cks0))).
  Proof.
    intro Hg. unfold start_none. destruct (q_create q); [|apply nd_ok_refl].
    destruct (create_session s q) as [[s1 r1] c1] eqn:E. cbn [fst]. exact (nd_create b X0 _ _ _ _ _ _ Hg E).
  Qed.

  Lemma nd_start_found base c s q k o ob cks :
    Gb b Q0 base s -> b <= o -> hget s o = Some ob -> o_id ob = k -> sc s o ->
    nd_ok s (fst (fst (start_found c s q k o ob cks))).
  Proof.
    intros Hg Hbo Ho Hid Hsc. pose proof Hg as (I & Kc & P & Hq).
    assert (F : ffnd s) by (eapply inv_ffnd; exact I). assert (Hp : plan s = []) by apply F.
    assert (Hs : sref s (o_id ob) = Some (r_ref (o_rec ob))).
    { destruct Hsc as (ob' & Ho' & Hs). rewrite Ho in Ho'. injection Ho' as <-. exact Hs. }
    assert (Hdel : forall k', nd_ok s (fst (cache_delete s k'))).
    { intro k'. destruct (cache_delete s k') as [s1 okd] eqn:Ed. exact (nd_cache_delete X0 _ _ _ _ Ed). }
    destruct (rec_valid c (now s) q (o_rec ob)) eqn:Hv.
    - destruct (r_ref (o_rec ob)) as [t|] eqn:Hr.
      + destruct (sat_add (c_idexpiry c) (c_grace c) <=? since (r_created (o_rec ob)) (now s))%Z eqn:Hb.
        * rewrite sf_backstop; [| exact Hp | exact Hv | unfold isref; rewrite Hr; reflexivity | exact Hb]. apply Hdel.
        * rewrite (sf_ref _ _ _ _ _ _ _ t Hv Hr Hb).
          assert (Hok : hok b ND s o) by (split; [exact Hbo | exists ob; split; [exact Ho | intros []]]).
          pose proof (nd_follow b X0 base (S (N.to_nat (supply s))) s o k Hg Hok Hsc) as Ef.
          destruct (follow (S (N.to_nat (supply s))) s o k) as [s1 [[o' lk']|e|e]]; cbn [fst] in *; try exact Ef.
          eapply nd_ok_trans; [exact Ef | apply nd_ok_hupd].
      + assert (Hh : hg s o) by (exists ob; split; [exact Ho | split; [exact Hr | exact Hs]]).
        destruct (c_idexpiry c <=? since (r_created (o_rec ob)) (now s))%Z eqn:Ha.
        * rewrite (sf_rotate _ _ _ _ _ _ _ F Ho Hv Hr Ha). cbn [fst].
          eapply nd_ok_trans; [|apply nd_ok_hupd].
          exact (nd_regenerate b X0 _ _ _ _ _ _ Hg Hh (regenerate_ff _ _ _ F Ho)).
        * destruct (sat_add (c_idexpiry c) (c_grace c) <=? since (r_created (o_rec ob)) (now s))%Z eqn:Hb.
          -- rewrite sf_backstop; [| exact Hp | exact Hv | rewrite Ha; apply andb_false_r | exact Hb]. apply Hdel.
          -- rewrite (sf_plain _ _ _ _ _ _ _ Hv Hr Ha Hb). apply nd_ok_hupd.
    - rewrite (sf_invalid c s q k o ob cks Hp Ho Hv).
      destruct (cdel_Gb b Q0 DEL0 Q0_del base s (o_id ob) Hg Logic.I) as (G1 & _).
      destruct (q_create q); [|apply Hdel].
      destruct (create_session (fst (cache_delete s (o_id ob))) q) as [[s2 r2] c2] eqn:Ec. cbn [fst].
      eapply nd_ok_trans; [apply Hdel | exact (nd_create b X0 _ _ _ _ _ _ G1 Ec)].
  Qed.

  Theorem nd_start base s q : Gb b Q0 base s -> nd_ok s (fst (fst (start s q))).
  Proof.
    intros Hg. pose proof Hg as (I & Kc & P & Hq). rewrite start_eq.
    destruct (q_cookie q) as [|k|n]; try (apply (nd_start_none base); exact Hg).
    destruct (cache_get_inv _ _ _ _ _ k I) as (s1 & r & E & I1 & Hr).
    destruct (cache_get_qt _ _ _ _ k I Kc) as (Qt & K1 & Hobj).
    pose proof (nd_cache_get b X0 _ _ _ _ _ Hg E) as Ev1. rewrite E in *. cbn [fst snd] in *.
    assert (G1 : Gb b Q0 base s1) by (eapply G_qt1; eassumption).
    destruct r as [o|].
    - destruct Hr as [Hbo [ob (Ho & _)]]. destruct (Hobj o eq_refl) as (ob' & Ho' & Hid & Hs).
      rewrite Ho in Ho'. injection Ho' as <-. rewrite Ho.
      eapply nd_ok_trans; [exact Ev1|]. apply (nd_start_found base); [exact G1 | exact Hbo | exact Ho | exact Hid|].
      exists ob. split; [exact Ho | rewrite Hid; exact Hs].
    - eapply nd_ok_trans; [exact Ev1 | apply (nd_start_none base); exact G1].
  Qed.

  (* ----------------------------------------------------- handler operations *)

  Lemma nd_logout base s o : Gb b Q0 base s -> hg s o -> nd_ok s (fst (logout s o)).
  Proof.
    intros Hg Hh. pose proof Hh as (ob & Ho & _). destruct (hgK _ _ _ _ Hg Hh Ho) as (HK & _).
    unfold logout. rewrite Ho. destruct (r_user (o_rec ob)); [|apply nd_ok_refl].
    apply (nd_upd_save s o ob); [exact Ho | exact HK | reflexivity].
  Qed.

  Lemma nd_login base s o u ex : Gb b Q0 base s -> b <= o -> hg s o -> nd_ok s (fst (fst (login s o u ex))).
  Proof.
    intros Hg Hbo Hh. pose proof Hg as (I & Kc & P & Hq). pose proof (hg_hokb _ _ _ Hbo Hh) as Hok. unfold login.
    assert (Hpre : exists s1, (if ex then logout_user s (fst u) else let '(s0, _) := logout s o in (s0, Ok tt)) = (s1, Ok tt)
                              /\ inv b base NX ND s1 /\ Kcs s1 /\ qt s s1 /\ nd_ok s s1).
    { destruct ex.
      - destruct (logout_user_inv _ _ _ _ (fst u) I) as (s1 & E & I1 & _).
        destruct (logout_user_qt _ _ _ _ (fst u) I Kc) as [Qa Ka].
        pose proof (nd_logout_user b X0 _ _ _ _ _ Hg E) as Ev. rewrite E in *. cbn [fst] in *.
        exists s1. auto.
      - destruct (logout_inv _ _ _ _ _ I Hok) as (s1 & E & I1 & _).
        destruct (logout_qt s o (i_plan _ _ _ _ _ I) Kc (hg_sc _ _ Hh)) as [Qa Ka].
        pose proof (nd_logout base s o Hg Hh) as Ev. rewrite E in *. cbn [fst] in *.
        exists s1. auto. }
    destruct Hpre as (s1 & E1 & I1 & Ka & Qa & Ev1). rewrite E1.
    assert (H1 : hg s1 o) by (eapply hg_qt; eassumption).
    destruct (hupd_qt s1 o (fun r => set_user r (Some u)) (fun _ => eq_refl) Ka) as [Qb Kb].
    set (s2 := hupd s1 o (fun r => set_user r (Some u))) in *.
    assert (I2 : inv b base NX ND s2) by (apply inv_hupd; [exact I1 | reflexivity]).
    assert (H2 : hg s2 o) by (eapply hg_qt; eassumption).
    assert (Q12 : qt s s2) by (eapply qt_trans; eassumption).
    assert (G2 : Gb b Q0 base s2) by (eapply G_qt1; eassumption).
    pose proof H2 as (ob2 & Ho2 & Hr2 & Hs2).
    assert (F2 : ffnd s2) by (eapply inv_ffnd; exact I2).
    pose proof (cache_set_ff _ _ _ F2 Ho2) as Ecs. rewrite Ecs. cbn [negb].
    destruct (hgK _ _ _ _ G2 H2 Ho2) as (HK2 & _).
    pose proof (nd_cache_set b X0 _ _ _ _ _ _ G2 Ho2 HK2 Ecs) as Ev3.
    assert (Hs2' : sref s2 (o_id ob2) = Some (r_ref (o_rec ob2))) by (rewrite Hs2, Hr2; reflexivity).
    destruct (cset_qt _ _ _ _ _ _ _ I2 Kb Ho2 Hs2') as [Qc Kc3].
    assert (I3 : inv b base NX ND (cset s2 o ob2)) by (apply inv_cset; [exact I2 | exact Ho2 | exact Hbo | intros []]).
    assert (Q13 : qt s (cset s2 o ob2)) by (eapply qt_trans; eassumption).
    assert (G3 : Gb b Q0 base (cset s2 o ob2)) by (eapply G_qt1; eassumption).
    assert (H3 : hg (cset s2 o ob2) o) by (eapply hg_qt; eassumption).
    destruct (regenerate (cset s2 o ob2) o) as [[s4 r4] c4] eqn:E4.
    pose proof (nd_regenerate b X0 _ _ _ _ _ _ G3 H3 E4) as Ev4.
    assert (Ev : nd_ok s s4).
    { eapply nd_ok_trans; [exact Ev1|]. eapply nd_ok_trans; [apply nd_ok_hupd|]. fold s2.
      eapply nd_ok_trans; [exact Ev3 | exact Ev4]. }
    destruct r4; exact Ev.
  Qed.

  Theorem nd_do_sop base s o hc op : Gb b Q0 base s -> b <= o -> hg s o -> nd_ok s (fst (fst (do_sop s o hc op))).
  Proof.
    intros Hg Hbo Hh. pose proof Hh as (ob & Ho & _). destruct (hgK _ _ _ _ Hg Hh Ho) as (HK & _).
    pose proof Hg as (I & _). assert (Hp : plan s = []) by apply (i_plan _ _ _ _ _ I).
    destruct op as [k v|k|k|k|u ex| | |]; cbn [do_sop].
    - unfold data_of. rewrite Ho. destruct (r_data (o_rec ob)) as [d|]; [|apply nd_ok_refl].
      pose proof (nd_upd_save s o ob (fun r => set_data r (Some (kv_set d k v))) Ho HK (fun _ => eq_refl)) as Ev.
      destruct (save_direct _ o) as [s' r]. exact Ev.
    - unfold data_of. rewrite Ho. destruct (r_data (o_rec ob)) as [d|].
      + pose proof (nd_upd_save s o ob (fun r => set_data r (Some (kv_del d k))) Ho HK (fun _ => eq_refl)) as Ev.
        destruct (save_direct _ o) as [s' r]. exact Ev.
      + destruct (save_direct s o) as [s' r] eqn:E. exact (nd_save_direct X0 _ _ _ _ _ Ho HK E).
    - apply nd_ok_refl.
    - unfold data_of. rewrite Ho. destruct (r_data (o_rec ob)) as [d|]; [|apply nd_ok_refl].
      destruct (kv_get d k); [|apply nd_ok_refl].
      pose proof (nd_upd_save s o ob (fun r => set_data r (Some (kv_del d k))) Ho HK (fun _ => eq_refl)) as Ev.
      destruct (save_direct _ o) as [s' r]. exact Ev.
    - pose proof (nd_login base s o u ex Hg Hbo Hh) as Ev. destruct (login s o u ex) as [[s' r] c]. exact Ev.
    - pose proof (nd_logout base s o Hg Hh) as Ev. destruct (logout s o) as [s' r]. exact Ev.
    - destruct (regenerate s o) as [[s' r] c] eqn:E. exact (nd_regenerate b X0 _ _ _ _ _ _ Hg Hh E).
    - rewrite (destroy_ff _ _ _ _ Hp Ho). cbn [fst].
      destruct (cache_delete s (o_id ob)) as [s1 okd] eqn:Ed. exact (nd_cache_delete X0 _ _ _ _ Ed).
  Qed.

  (* ---------------------------------------------------------------- scripts *)

  Theorem nd_run_script base hc : forall ops s o, Gb b Q0 base s -> b <= o -> hg s o ->
    nd_ok s (fst (fst (run_script s o hc ops))).
  Proof.
    induction ops as [|op t IH]; intros s o Hg Hbo Hh; cbn [run_script]; [apply nd_ok_refl|].
    pose proof (nd_do_sop base s o hc op Hg Hbo Hh) as Ev1.
    destruct (do_sop_Gb b Q0 DEL0 Q0_qt Q0_repl Q0_del base s o hc op Hg Hbo Hh) as (s1 & r & cks & E & G1 & _ & H1 & _).
    { intros _ ob _. exact Logic.I. }
    rewrite E in *. cbn [fst] in Ev1.
    destruct (fire_due_Gb b Q0 FOK0 Q0_fire _ _ G1 Logic.I) as (G2 & _ & H2 & _).
    assert (Ev2 : nd_ok s (fire_due s1)) by (eapply nd_ok_trans; [exact Ev1 | apply (nd_fire_due X0)]).
    assert (Hdec : op = SDestroy \/ op <> SDestroy) by (destruct op; ((left; reflexivity) || (right; discriminate))).
    destruct Hdec as [->|Hop]; [exact Ev2|].
    match goal with |- context [if ?c then _ else _] => destruct c end; [exact Ev2|].
    pose proof (IH (fire_due s1) o G2 Hbo (H2 o (H1 Hop))) as Ev3.
    destruct (run_script (fire_due s1) o hc t) as [[s' rs] cks']. cbn [fst] in *.
    eapply nd_ok_trans; eassumption.
  Qed.

  Theorem nd_req_body base s q script : Gb b Q0 base s ->
    nd_ok s (fst (fst (fst (fst (fst (req_body s q script)))))).
  Proof.
    intro Hg. unfold req_body. pose proof (nd_start base s q Hg) as Ev1.
    destruct (start_Gb b Q0 DEL0 Q0_qt Q0_new Q0_repl Q0_del base s q Hg) as (s2 & res & cks & E & G2 & _ & H2 & _).
    { intros; exact Logic.I. }
    rewrite E in *. cbn [fst] in Ev1.
    destruct (fire_due_Gb b Q0 FOK0 Q0_fire _ _ G2 Logic.I) as (G3 & _ & H3 & _).
    assert (Ev2 : nd_ok s (fire_due s2)) by (eapply nd_ok_trans; [exact Ev1 | apply (nd_fire_due X0)]).
    destruct res as [[o|]|e|e]; try exact Ev2.
    pose proof (nd_run_script base (had_cookie q) script (fire_due s2) o G3 (proj1 (H2 o eq_refl)) (H3 o (proj1 (proj2 (H2 o eq_refl))))) as Ev3.
    cbv zeta. destruct (run_script (fire_due s2) o (had_cookie q) script) as [[s3 sr] cks']. cbn [fst] in *.
    eapply nd_ok_trans; eassumption.
  Qed.

  (* ---------------------------------------------------------------- whole steps *)

  Theorem step_nodangling w r : LIb b (w_st w) -> rq_plan r = [] ->
    NoDang X0 (store (w_st w), graves (w_st w)) ->
    CrashFault2.steps_ok (NoDang X0) (store (w_st w), graves (w_st w)) (ob_evs (snd (step w (HReq (nocrash r))))).
  Proof.
    intros Hl Hpl H0. rewrite <- req_final_evs. unfold req_final.
    pose proof (GWb_Gb b Q0 Q0_qt (w_st w) (rq_plan r) (rq_tb r) Hl Hpl) as G1. fold (pre_of w r) in G1.
    destruct (nd_req_body _ (pre_of w r) (req_of w r) (rq_script r) G1 H0) as (l & X & S).
    pose proof (CrashFault.x_evs _ _ _ X) as Xe. unfold pre_of in Xe at 2. sst. rewrite app_nil_r in Xe.
    rewrite Xe, rev_involutive. exact S.
  Qed.
End NoD2.

(* ------------------------------------------------ the state a process stop leaves *)

(* drawn before and absent *)
Definition gone_in (s0 : st) (t : key) : Prop := lookup (store s0) t = None /\ key_drawn s0 t.

Lemma LIb_NoDang b s : LIb b s -> NoDang (gone_in s) (store s, graves s).
Proof.
  intros (_ & _ & _ & [Hw _]) k r t Hl Hr. cbn [fst snd] in *.
  destruct (lookup (store s) t) as [rt|] eqn:Ht; [left; discriminate|].
  right. left. split; [exact Ht|].
  destruct (Hw k t) as (m & -> & Hm & _); [rewrite (sref_lookup _ _ _ Hl), Hr; reflexivity | exact Hm].
Qed.

(* store and index of deleted IDs after a stop behind n persistence calls *)
Lemma crash_sg w r n : rq_crash r = Some n ->
  (store (w_st (fst (step w (HReq r)))), graves (w_st (fst (step w (HReq r))))) =
  fold_left apply_ev (ev_prefix (ob_evs (snd (step w (HReq (nocrash r))))) n) (store (w_st w), graves (w_st w)).
Proof.
  intro Hcr. rewrite <- req_final_evs. unfold req_final, pre_of, req_of, presents.
  rewrite step_req_eq. cbv zeta. rewrite Hcr.
  destruct (req_body _ _ (rq_script r)) as [[[[[s3 rc] st0] sr] fin] cks]. cbn [fst]. sst.
  destruct (fold_left apply_ev _ _) as [stor gr]. unfold restart. cbn [fst w_st]. sst. reflexivity.
Qed.

(* C10's last clause in full: a fault-free request step with ANY handler script,
   stopped after ANY number n of its persistence calls, from any state a fault-free
   history reaches: a replaced-ID record of the store it leaves names an ID that the
   store holds - unless that ID has been deleted (it is in the index of deleted IDs:
   an invalidation or a backstop expiry by Start, a clean-up that came due, earlier
   steps) or was drawn before the step and already absent before it. Never an ID
   that the step drew and has not saved yet. *)
Theorem no_dangling_any w r n :
  LIx (w_st w) -> rq_plan r = [] -> rq_crash r = Some n ->
  forall k rk t,
    lookup (store (w_st (fst (step w (HReq r))))) k = Some rk -> r_ref rk = Some t ->
    lookup (store (w_st (fst (step w (HReq r))))) t <> None \/
    lookup (graves (w_st (fst (step w (HReq r))))) t <> None \/
    gone_in (w_st w) t.
Proof.
  intros [b Hl] Hpl Hcr k rk t Hk Hr.
  pose proof (step_nodangling b (gone_in (w_st w)) w r Hl Hpl (LIb_NoDang b _ Hl)) as S.
  pose proof (CrashFault2.steps_ok_prefix _ _ _ n S) as Hn. unfold CrashFault.replay in Hn.
  rewrite <- (crash_sg w r n Hcr) in Hn.
  destruct (Hn k rk t Hk Hr) as [A|[A|A]]; [left; exact A | right; right; exact A | right; left; exact A].
Qed.

(* in particular: a reference to an ID drawn by the crashed step itself *)
Corollary no_dangling_fresh w r n :
  LIx (w_st w) -> rq_plan r = [] -> rq_crash r = Some n ->
  forall k rk m,
    lookup (store (w_st (fst (step w (HReq r))))) k = Some rk -> r_ref rk = Some (KGen m) ->
    (supply (w_st w) <= m)%N ->
    lookup (store (w_st (fst (step w (HReq r))))) (KGen m) <> None \/
    lookup (graves (w_st (fst (step w (HReq r))))) (KGen m) <> None.
Proof.
  intros Hl Hpl Hcr k rk m Hk Hr Hm.
  destruct (no_dangling_any w r n Hl Hpl Hcr k rk (KGen m) Hk Hr) as [A|[A|[_ A]]]; [left; exact A | right; exact A|].
  unfold key_drawn in A. lia.
Qed.
