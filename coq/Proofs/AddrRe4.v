(* The address pattern of Start, part 4: a string of the net/http shape
   (digits c digits c digits c digits ":" digits, the c's single non-digit
   bytes) has exactly one decomposition along the pattern: the separators are
   those bytes. (So the greedy choice of submatch_some is the only choice.) *)
From Sessions Require Import Model.Base Model.Codec Model.Sess Model.AddrRe
  Proofs.BaseLemmas Proofs.AddrRe Proofs.AddrRe2.
From Coq Require Import Lia ZifyBool ZifyN ZifyNat.
Local Open Scope N_scope.

(* no two adjacent non-digit bytes *)
Fixpoint noadj (l : bytes) : bool :=
  match l with
  | [] => true
  | a :: t => match t with
              | [] => true
              | b :: _ => is_digit a || is_digit b
              end && noadj t
  end.

Lemma noadj_suffix (p t : bytes) : noadj (p ++ t) = true -> noadj t = true.
Proof.
  induction p as [|a p IH]; [auto|]. cbn [app noadj]. rewrite andb_true_iff. intros [_ H]. apply IH, H.
Qed.

Lemma noadj_digits_app (g r : bytes) : forallb is_digit g = true -> noadj r = true -> noadj (g ++ r) = true.
Proof.
  induction g as [|a g IH]; [auto|]. cbn [forallb app noadj]. rewrite andb_true_iff.
  intros [Ha Hg] Hr. rewrite (IH Hg Hr), Ha. destruct (g ++ r); reflexivity.
Qed.

Lemma noadj_cons_digs (c : N) (g r : bytes) : digs g -> noadj (g ++ r) = true -> noadj (c :: g ++ r) = true.
Proof.
  intros Hg H. destruct (digs_head g r Hg) as [d [t [He Hd]]]. rewrite He in *.
  change (noadj (c :: d :: t)) with ((is_digit c || is_digit d) && noadj (d :: t)).
  rewrite Hd, orb_true_r, H. reflexivity.
Qed.

Lemma rune_width_single (c : N) : rune_width [c] = 1%nat.
Proof.
  unfold rune_width. repeat match goal with |- context [if ?b then _ else _] => destruct b end; reflexivity.
Qed.

Lemma noadj_width (t : bytes) : t <> [] -> noadj t = true -> rune_width t = 1%nat.
Proof.
  destruct t as [|a [|b t]]; [congruence | intros; apply rune_width_single|].
  intros _ H. cbn [noadj] in H. rewrite andb_true_iff, orb_true_iff in H. destruct H as [[Ha|Hb] _].
  - apply rune_width_ascii. unfold is_digit in Ha. lia.
  - apply rune_width_before_ascii. unfold is_digit in Hb. lia.
Qed.

Lemma sep_single (x rest : bytes) : sep x rest -> noadj (x ++ rest) = true -> exists y, x = [y].
Proof.
  intros (Hne & _ & Hl) Hn. rewrite noadj_width in Hl; [|destruct x; [congruence | discriminate] | exact Hn].
  destruct x as [|y [|z x]]; [congruence | exists y; reflexivity | discriminate].
Qed.

(* number of non-digit bytes *)
Definition ndc (l : bytes) : nat := length (filter (fun c => negb (is_digit c)) l).

Lemma ndc_app a b : ndc (a ++ b) = (ndc a + ndc b)%nat.
Proof. unfold ndc. rewrite filter_app, app_length. reflexivity. Qed.

Lemma ndc_digits g : forallb is_digit g = true -> ndc g = 0%nat.
Proof.
  unfold ndc. induction g as [|a g IH]; [reflexivity|]. cbn [forallb filter]. rewrite andb_true_iff.
  intros [Ha Hg]. rewrite Ha. cbn [negb]. apply IH, Hg.
Qed.

Lemma ndc_cons c l : ndc (c :: l) = ((if is_digit c then 0 else 1) + ndc l)%nat.
Proof. unfold ndc. cbn [filter]. destruct (is_digit c); reflexivity. Qed.

(* a run of digits ends at the first non-digit *)
Lemma split_nd (g g' r r' : bytes) (c c' : N) :
  forallb is_digit g = true -> forallb is_digit g' = true ->
  is_digit c = false -> is_digit c' = false ->
  g ++ c :: r = g' ++ c' :: r' -> g = g' /\ c = c' /\ r = r'.
Proof.
  revert g'. induction g as [|a g IH]; intros [|a' g'] Hg Hg' Hc Hc' He; cbn [app forallb] in *.
  - injection He as -> ->. auto.
  - injection He as -> _. rewrite andb_true_iff in Hg'. destruct Hg' as [Ha _]. congruence.
  - injection He as <- _. rewrite andb_true_iff in Hg. destruct Hg as [Ha _]. congruence.
  - injection He as -> He. rewrite andb_true_iff in Hg, Hg'.
    destruct (IH g' (proj2 Hg) (proj2 Hg') Hc Hc' He) as (-> & -> & ->). auto.
Qed.

Theorem plain_unique (g1 g2 g3 g4 ds : bytes) (c1 c2 c3 : N) :
  digs g1 -> digs g2 -> digs g3 -> digs g4 -> digs ds ->
  is_digit c1 = false -> is_digit c2 = false -> is_digit c3 = false ->
  forall g1' x1' g2' x2' g3' x3' g4' ds',
    shape (g1 ++ c1 :: g2 ++ c2 :: g3 ++ c3 :: g4 ++ 58 :: ds) g1' x1' g2' x2' g3' x3' g4' ds' ->
    g1' = g1 /\ x1' = [c1] /\ g2' = g2 /\ x2' = [c2] /\ g3' = g3 /\ x3' = [c3] /\ g4' = g4 /\ ds' = ds.
Proof.
  intros Hg1 Hg2 Hg3 Hg4 Hds Hc1 Hc2 Hc3 g1' x1' g2' x2' g3' x3' g4' ds'
         (He & (Hg1' & Hg2' & Hg3' & Hg4' & Hds') & Hx1 & Hx2 & Hx3).
  set (s := g1 ++ c1 :: g2 ++ c2 :: g3 ++ c3 :: g4 ++ 58 :: ds) in *.
  (* no two adjacent non-digits in s *)
  assert (Hn : noadj s = true).
  { unfold s.
    apply noadj_digits_app; [apply Hg1|]. apply noadj_cons_digs; [exact Hg2|].
    apply noadj_digits_app; [apply Hg2|]. apply noadj_cons_digs; [exact Hg3|].
    apply noadj_digits_app; [apply Hg3|]. apply noadj_cons_digs; [exact Hg4|].
    apply noadj_digits_app; [apply Hg4|].
    rewrite <- (app_nil_r ds). apply noadj_cons_digs; [exact Hds|].
    apply noadj_digits_app; [apply Hds | reflexivity]. }
  (* so every separator of the other decomposition is a single byte *)
  assert (H1 : exists y, x1' = [y]).
  { apply (sep_single _ _ Hx1). apply (noadj_suffix g1'). rewrite <- He. exact Hn. }
  assert (H2 : exists y, x2' = [y]).
  { apply (sep_single _ _ Hx2). apply (noadj_suffix (g1' ++ x1' ++ g2')). rewrite <- !app_assoc, <- He. exact Hn. }
  assert (H3 : exists y, x3' = [y]).
  { apply (sep_single _ _ Hx3). apply (noadj_suffix (g1' ++ x1' ++ g2' ++ x2' ++ g3')). rewrite <- !app_assoc, <- He. exact Hn. }
  destruct H1 as [y1 ->], H2 as [y2 ->], H3 as [y3 ->]. cbn [app] in He.
  (* count the non-digits: four on the left, so y1 y2 y3 are non-digits *)
  assert (Hcount : ndc s = 4%nat).
  { unfold s. repeat (rewrite ndc_app || rewrite ndc_cons). rewrite Hc1, Hc2, Hc3.
    rewrite (ndc_digits g1), (ndc_digits g2), (ndc_digits g3), (ndc_digits g4), (ndc_digits ds);
      [reflexivity | apply Hds | apply Hg4 | apply Hg3 | apply Hg2 | apply Hg1]. }
  assert (Hcount' : ndc s = ((if is_digit y1 then 0 else 1) + ((if is_digit y2 then 0 else 1) + ((if is_digit y3 then 0 else 1) + 1)))%nat).
  { rewrite He. repeat (rewrite ndc_app || rewrite ndc_cons).
    rewrite (ndc_digits g1'), (ndc_digits g2'), (ndc_digits g3'), (ndc_digits g4'), (ndc_digits ds');
      [cbn; lia | apply Hds' | apply Hg4' | apply Hg3' | apply Hg2' | apply Hg1']. }
  assert (Hy : is_digit y1 = false /\ is_digit y2 = false /\ is_digit y3 = false).
  { rewrite Hcount in Hcount'. destruct (is_digit y1), (is_digit y2), (is_digit y3); cbn in Hcount'; try lia; auto. }
  destruct Hy as (Hy1 & Hy2 & Hy3).
  unfold s in He.
  destruct (split_nd _ _ _ _ _ _ (proj2 Hg1) (proj2 Hg1') Hc1 Hy1 He) as (<- & <- & He2).
  destruct (split_nd _ _ _ _ _ _ (proj2 Hg2) (proj2 Hg2') Hc2 Hy2 He2) as (<- & <- & He3).
  destruct (split_nd _ _ _ _ _ _ (proj2 Hg3) (proj2 Hg3') Hc3 Hy3 He3) as (<- & <- & He4).
  destruct (split_nd g4 g4' ds ds' 58 58 (proj2 Hg4) (proj2 Hg4') eq_refl eq_refl He4) as (<- & _ & <-).
  repeat split; reflexivity.
Qed.
