(* The composed system of Model/StartConc.v, part 3 (task R2 (b)): K goroutines
   on one due ID. The serial order that Proofs/StartConc2.v extracts from a
   run of the locked system is fed to the two inductive steps behind
   C04C_serialised (Proofs/C04Conc2.v: first_call, mid_wait, mid_call and
   Proofs/C04Conc3.v: checks_ok_bounds, acc_req): whichever goroutine the
   schedule serves first rotates, every other one follows the replaced ID,
   with the clock advancing by any amounts between the critical sections as
   long as the total stays inside the bounds of C04C's delays_ok. *)
From Sessions Require Import Model.Base Model.Mutex Model.StartConc Proofs.MutexBasics Proofs.StartConc Proofs.StartConc2.
From Sessions Require Import Model.Sess Model.Hist Proofs.SessDefs
  Proofs.HistInv Proofs.HistInv3 Proofs.HistLift3 Proofs.HistLift4 Proofs.HistLift8
  Proofs.C04Conc2 Proofs.C04Conc3.
From Sessions Require Proofs.RotateLaws2 Proofs.RotateLaws3 Proofs.StartLaws4 Proofs.C01Spec.
From Coq Require Import Lia.

(* what the ghost log of a run is *)
Lemma cstep_acts locked reqs cs lab cs' : cstep locked reqs cs lab = Some cs' ->
  c_acts cs' = act_of lab ++ c_acts cs /\ (forall g, lab = CRest g -> nth_error reqs g <> None).
Proof.
  intro Hs. destruct lab as [l|g|g|d].
  - destruct (cstep_CL _ _ _ _ _ Hs) as (st' & _ & -> & _). split; [reflexivity|discriminate].
  - destruct (cstep_CLook _ 0 _ _ _ _ Hs) as (r & s1 & f & c & b & _ & _ & _ & _ & ->). split; [reflexivity|discriminate].
  - destruct (cstep_CRest _ _ _ _ _ Hs) as (s0 & jar & f & c & b & r & w' & o & _ & Hr & _ & ->).
    split; [reflexivity|]. intros g' E. injection E as <-. congruence.
  - destruct (cstep_CTick _ _ _ _ _ Hs) as (_ & ->). split; [reflexivity|discriminate].
Qed.

Lemma crun_acts locked reqs : forall ls cs cs', crun locked reqs cs ls = Some cs' ->
  c_acts cs' = rev (acts_of ls) ++ c_acts cs /\
  ((forall g, In g (goroutines (c_acts cs)) -> nth_error reqs g <> None) ->
   forall g, In g (goroutines (c_acts cs')) -> nth_error reqs g <> None).
Proof.
  induction ls as [|l ls IH]; intros cs cs' Hr; cbn [crun] in Hr.
  - injection Hr as <-. split; [reflexivity | auto].
  - destruct (cstep locked reqs cs l) as [cs1|] eqn:E; [|discriminate].
    destruct (cstep_acts _ _ _ _ _ E) as [A1 A2]. destruct (IH _ _ Hr) as [B1 B2]. split.
    + rewrite B1, A1. unfold acts_of. cbn [flat_map]. rewrite rev_app_distr, <- app_assoc.
      f_equal. destruct l; reflexivity.
    + intro H0. apply B2. intros g Hg. rewrite A1 in Hg. unfold goroutines in Hg. rewrite flat_map_app in Hg.
      apply in_app_or in Hg as [Hg|Hg]; [|apply H0; exact Hg].
      destruct l as [l0|g0|g0|d]; cbn in Hg; try contradiction. destruct Hg as [<-|[]]. apply (A2 g0 eq_refl).
Qed.

Lemma ticks_nonneg acts : Forall tick_nonneg acts -> (0 <= ticks acts)%Z.
Proof.
  induction 1 as [|a t Ha _ IH]; cbn [ticks]; [lia|]. destruct a; cbn [tick_nonneg] in Ha; lia.
Qed.

Section OneNewID.
  Variables (reqs : list reqstep) (k : key) (rc : rec) (w : world).
  Let c := conf (w_st w).
  Let t := now (w_st w).
  Let n := supply (w_st w).

  Hypothesis Hli : LI (w_st w).
  Hypothesis HL : L (w_st w) k = Some rc.
  Hypothesis Href : r_ref rc = None.
  Hypothesis Hdue : (c_idexpiry c <= since (r_created rc) t)%Z.
  Hypothesis Hgrace : (0 < c_grace c)%Z.
  Hypothesis Hlive : (since (r_access rc) t < c_expiry c)%Z.
  Hypothesis Hacc : Forall (acc_req k rc c) reqs.

  Lemma req_acc g r : nth_error reqs g = Some r -> acc_req k rc c r.
  Proof. intro H. rewrite Forall_forall in Hacc. apply Hacc. eapply nth_error_In; exact H. Qed.

  Lemma acc_presents w' r : acc_req k rc c r -> presents w' r = CKey k.
  Proof. intros (_ & Hp & _). unfold presents. rewrite Hp. reflexivity. Qed.

  Lemma acc_valid r : acc_req k rc c r -> RotateLaws3.valid_for c rc t (req_of w r) = true.
  Proof.
    intros (_ & _ & Hip & Hua). unfold RotateLaws3.valid_for, req_of. cbn [q_addr q_ua]. rewrite Hip, Hua.
    destruct (Z.leb_spec (c_expiry c) (since (r_access rc) t)); [lia|reflexivity].
  Qed.

  (* the state of the serial execution after a non-empty log *)
  Definition served (acts : list act) : Prop :=
    let W := fst (serial reqs w acts) in
    let res := snd (serial reqs w acts) in
    exists g1 r1 rest,
      nth_error reqs g1 = Some r1 /\ res = rest ++ [(g1, snd (Hist.step w (HReq r1)))] /\
      Forall (fun go => joined (KGen n) rc n (snd go) /\ dlist (ob_evs (snd go)) = []) rest /\
      mid k rc t n c (w_st W) /\ now (w_st W) = (t + ticks acts)%Z.

  Lemma serial_served : forall acts, acts <> [] ->
    request_first acts -> Forall tick_nonneg acts ->
    (forall g, In g (goroutines acts) -> nth_error reqs g <> None) ->
    (ticks acts < c_grace c)%Z ->
    (ticks acts + StartLaws4.slack c < c_expiry c)%Z ->
    (ticks acts + StartLaws4.slack c < sat_add (c_idexpiry c) (c_grace c))%Z ->
    served acts.
  Proof.
    induction acts as [|a acts IH]; [congruence|]. intros _ Hrf Hnn Hrng Hg He Hb.
    inversion Hnn as [|? ? Ha Hnn']; subst.
    destruct acts as [|a' acts'].
    - (* the first world action: a request *)
      destruct a as [d|g]; [contradiction|].
      destruct (nth_error reqs g) as [r|] eqn:Er; [|exfalso; apply (Hrng g); [left; reflexivity | exact Er]].
      pose proof (req_acc _ _ Er) as Har. pose proof Har as (Hplain & _).
      destruct (first_call k rc w r Hli Hplain (acc_presents w r Har) HL Href (acc_valid r Har) Hdue Hgrace)
        as (_ & Hm & Hn).
      unfold served. cbn [serial]. rewrite Er. cbn [fst snd ticks].
      exists g, r, []. split; [exact Er|]. split; [reflexivity|]. split; [constructor|].
      split; [exact Hm|]. fold t in Hn. rewrite Hn. lia.
    - (* a later one *)
      set (tl := a' :: acts') in *.
      assert (Htl : (ticks tl <= ticks (a :: tl))%Z) by (destruct a; cbn [ticks tick_nonneg] in *; lia).
      assert (S : served tl).
      { apply IH; try lia; [discriminate | exact Hrf | exact Hnn'|].
        intros g Hin. apply Hrng. unfold goroutines in *. cbn [flat_map]. apply in_or_app. right. exact Hin. }
      destruct S as (g1 & r1 & rest & Er1 & Eres & Hrest & Hm & Hn).
      pose proof (ticks_nonneg _ Hnn') as H0.
      unfold served. cbn [serial]. destruct (serial reqs w tl) as [W res] eqn:ES. cbn [fst snd] in *.
      destruct a as [d|g].
      + cbn [tick_nonneg ticks] in *.
        destruct (mid_wait k rc t n c W d Hm Ha ltac:(lia)) as (Hm1 & Hn1 & _).
        exists g1, r1, rest. cbn [fst snd]. split; [exact Er1|]. split; [exact Eres|]. split; [exact Hrest|].
        split; [exact Hm1|]. rewrite Hn1, Hn. lia.
      + cbn [ticks] in *.
        destruct (nth_error reqs g) as [r|] eqn:Er; [|exfalso; apply (Hrng g); [left; reflexivity | exact Er]].
        pose proof (req_acc _ _ Er) as Har. pose proof Har as (Hplain & _ & Hip & Hua).
        assert (Hchk : checks_ok c rc t (KGen n) (now (w_st W)) (req_of W r)).
        { apply checks_ok_bounds; [rewrite Hn; lia | rewrite Hn; lia | rewrite Hn; lia | exact Hip | exact Hua]. }
        assert (Hlt : (now (w_st W) < t + c_grace c)%Z) by (rewrite Hn; lia).
        destruct (mid_call k rc t n c W r Hm Hplain (acc_presents W r Har) Hlt Hchk) as (Hj & Hm2 & Hn2).
        pose proof (mid_call_draws k rc t n c W r Hm Hplain (acc_presents W r Har) Hlt Hchk) as Hdr.
        exists g1, r1, ((g, snd (Hist.step W (HReq r))) :: rest). cbn [fst snd]. split; [exact Er1|].
        split; [rewrite Eres; reflexivity|]. split; [constructor; [split; assumption | exact Hrest]|].
        split; [exact Hm2|]. rewrite Hn2, Hn. reflexivity.
  Qed.

  (* what the goroutine served first reports *)
  Lemma first_served g1 r1 : nth_error reqs g1 = Some r1 ->
    let o1 := snd (Hist.step w (HReq r1)) in
    rotated (KGen n) rc t (req_of w r1) n o1 /\ dlist (ob_evs o1) = [n] /\ joined (KGen n) rc n o1.
  Proof.
    intro Er. cbv zeta. pose proof (req_acc _ _ Er) as Har. pose proof Har as (Hplain & _).
    destruct (first_call k rc w r1 Hli Hplain (acc_presents w r1 Har) HL Href (acc_valid r1 Har) Hdue Hgrace)
      as (Hrot & _ & _).
    pose proof (first_call_draws k rc w r1 Hli Hplain (acc_presents w r1 Har) HL Href (acc_valid r1 Har) Hdue Hgrace) as Hd.
    split; [exact Hrot|]. split; [exact Hd|].
    destruct Hrot as (R1 & R2 & R3 & R4). split; [exact R1|]. split; [exact R2|]. split; [|exact R4].
    eexists. split; [exact R3|]. destruct (rotated_content rc t (req_of w r1)) as [Hc Hr].
    split; [exact (eq_trans Hr Href) | exact Hc].
  Qed.

  (* ---- the composed system ---- *)

  Variable kk : nat.   (* the lock key standing for the presented ID k *)

  Theorem one_new_id cs0 ls cs :
    CI0 kk reqs w cs0 ->
    crun true reqs cs0 ls = Some cs -> cadm_run true reqs cs0 ls ->
    let acts := c_acts cs in
    request_first acts -> Forall tick_nonneg acts ->
    (ticks acts < c_grace c)%Z ->
    (ticks acts + StartLaws4.slack c < c_expiry c)%Z ->
    (ticks acts + StartLaws4.slack c < sat_add (c_idexpiry c) (c_grace c))%Z ->
    (* every goroutine whose Start has returned reports the session under the one new ID *)
    (forall g o, nth_error (c_ph cs) g = Some (PDone o) ->
       joined (KGen n) rc n o /\ (dlist (ob_evs o) = [n] \/ dlist (ob_evs o) = [])) /\
    (* exactly one of them drew an ID: the one served first, which rotated *)
    (goroutines acts <> [] ->
       exists g1 r1 o1 rest,
         nth_error reqs g1 = Some r1 /\ nth_error (c_ph cs) g1 = Some (PDone o1) /\
         snd (serial reqs w acts) = rest ++ [(g1, o1)] /\
         rotated (KGen n) rc t (req_of w r1) n o1 /\ dlist (ob_evs o1) = [n] /\
         Forall (fun go => dlist (ob_evs (snd go)) = []) rest /\
         (existsb is_looked (c_ph cs) = false -> supply (c_st cs) = (n + 1)%N)) /\
    (goroutines acts = [] -> existsb is_looked (c_ph cs) = false -> supply (c_st cs) = n).
  Proof.
    intros H0 Hrun Hadm acts Hrf Hnn Hg He Hb.
    pose proof (ci_run kk reqs w ls cs0 cs (ci0_ci _ _ _ _ H0) Hrun Hadm) as (HI & HP & W1 & W2 & W3 & W4).
    destruct (crun_acts _ _ _ _ _ Hrun) as [_ Hrng].
    assert (Hrng' : forall g, In g (goroutines acts) -> nth_error reqs g <> None).
    { apply Hrng. destruct H0 as (_ & _ & _ & Ha0 & _). rewrite Ha0. intros g []. }
    assert (Hcase : acts = [] \/ acts <> []) by (destruct acts; [left; reflexivity | right; discriminate]).
    destruct Hcase as [Hnil|Hne].
    - (* nothing served yet *)
      fold acts in W3, W2. rewrite Hnil in *. cbn [serial fst snd goroutines flat_map] in *.
      split; [intros g o Hd; apply W3 in Hd; destruct Hd|]. split; [congruence|].
      intros _ Hq. specialize (W2 Hq). unfold world_of in W2. unfold n. rewrite <- W2. reflexivity.
    - destruct (serial_served acts Hne Hrf Hnn Hrng' Hg He Hb) as (g1 & r1 & rest & Er1 & Eres & Hrest & Hm & Hn).
      destruct (first_served g1 r1 Er1) as (Hrot & Hd1 & Hj1). cbv zeta in Hrot, Hd1, Hj1.
      fold acts in W3, W2.
      split; [|split].
      + intros g o Hd. apply W3 in Hd. rewrite Eres in Hd. apply in_app_or in Hd as [Hd|[Hd|[]]].
        * rewrite Forall_forall in Hrest. destruct (Hrest _ Hd) as [A B]. cbn [snd] in A, B. auto.
        * injection Hd as <- <-. auto.
      + intros _. exists g1, r1, (snd (Hist.step w (HReq r1))), rest.
        split; [exact Er1|]. split; [apply W3; rewrite Eres; apply in_or_app; right; left; reflexivity|].
        split; [exact Eres|]. split; [exact Hrot|]. split; [exact Hd1|].
        split; [eapply Forall_impl; [|exact Hrest]; intros go [_ B]; exact B|].
        intro Hq. specialize (W2 Hq). unfold world_of in W2.
        rewrite <- (m_supply _ _ _ _ _ _ Hm), <- W2. reflexivity.
      + intro Hgn. exfalso. destruct acts as [|a acts']; [congruence|].
        (* a non-empty log that starts with a request has a goroutine *)
        clear - Hgn Hrf. revert a Hgn Hrf. induction acts' as [|a' t' IH]; intros a Hgn Hrf.
        * destruct a; [contradiction | discriminate].
        * unfold goroutines in Hgn. cbn [flat_map] in Hgn. apply app_eq_nil in Hgn as [_ Hgn].
          apply (IH a' Hgn). exact Hrf.
  Qed.
End OneNewID.
