(* Audit task A5, C07, part 9: Start may change the ID too (rotation when the ID
   is due), or reach the session from a replaced ID. Whatever stored ID the
   ending request presented is linked to the ID the handler destroyed:

   follow_tr        the ID Start's reference-following arrives at is reached, on
                    the store's view, from the ID it started from;
   start_tr         if Start returns a session for a request that presented a
                    stored ID kp, then kp reaches that session's ID (TR of
                    Lineage8.v): it is that ID; or Start rotated and left kp
                    as a replaced-ID record; or kp was a replaced-ID record that
                    leads there; or kp was invalid, is deleted now, and the
                    session is a new one;
   destroyed_presented_link   a whole request step that presented a stored ID kp
                    and whose script ends with Destroy: kp, and every chain of
                    replaced-ID records that led to kp before the step, is in
                    the lineage (taken right after the step) of the ID the
                    handler destroyed.

   No axioms; standard library only. *)
From Sessions Require Import Model.Base Model.Sess Model.Hist Proofs.SessDefs
  Proofs.HistInv Proofs.HistInv2 Proofs.HistInv3 Proofs.HistLift Proofs.HistLift2 Proofs.HistLift3
  Proofs.HistLift4 Proofs.HistLift6 Proofs.IsoLaws Proofs.DeadLaws
  Proofs.Lineage Proofs.Lineage3 Proofs.Lineage4 Proofs.Lineage5 Proofs.Lineage7 Proofs.Lineage8.
From Coq Require Import Lia.

Notation GQ := (G Q0).

Lemma G_stored_drawn base s k x : GQ base s -> sref s k = Some x -> kd (supply s) k.
Proof.
  intros (I & _) Hs. unfold sref in Hs. destruct (lookup (store s) k) as [r|] eqn:Hst; [|discriminate].
  apply lookup_In in Hst. apply (i_fs _ _ _ _ _ I k r Hst).
Qed.

Lemma lreach_new s s' k0 cur k : eff_new s s' k0 -> lreach s cur k -> lreach s' cur k.
Proof.
  intro E. apply lreach_weak; [rewrite (en_supply _ _ _ E); lia|]. intros k' Hk'. left.
  apply (en_oth _ _ _ E). intro Heq. subst k'. rewrite (en_key _ _ _ E) in Hk'. cbn [kd] in Hk'. lia.
Qed.

Lemma follow_tr base : forall fuel s o lk s' o' lk', GQ base s ->
  (exists ob, hget s o = Some ob /\ sref s lk = Some (r_ref (o_rec ob))) ->
  follow fuel s o lk = (s', Ok (o', lk')) -> lreach s' lk' lk.
Proof.
  induction fuel as [|f IH]; intros s o lk s' o' lk' Hg (ob & Ho & Hs) E; cbn [follow] in E; rewrite Ho in E.
  - destruct (r_ref (o_rec ob)); [discriminate|]. injection E as <- <- <-. constructor.
  - destruct (r_ref (o_rec ob)) as [t|] eqn:Hr; [|injection E as <- <- <-; constructor].
    pose proof Hg as (I & K & _).
    destruct (cache_get_inv _ _ _ _ _ t I) as (s1 & r & E1 & I1 & Hres).
    destruct (cache_get_qt _ _ _ _ t I K) as (Qt & K1 & Hobj). rewrite E1 in *. cbn [fst snd] in *.
    assert (G1 : GQ base s1) by (eapply (G_qt Q0 Q0_qt); eassumption).
    destruct r as [o1|]; [|discriminate].
    destruct (Hobj o1 eq_refl) as (ob1 & Ho1 & Hid1 & Hs1).
    assert (Hok1 : hok 0 ND s1 o1) by (split; [lia | exists ob1; split; [exact Ho1 | intros []]]).
    assert (Hsc1 : sc s1 o1) by (exists ob1; split; [exact Ho1 | rewrite Hid1; exact Hs1]).
    destruct (follow_qt 0 base ND f s1 o1 t I1 K1 Hok1 Hsc1) as (Qt2 & _). rewrite E in Qt2. cbn [fst] in Qt2.
    pose proof (IH s1 o1 t s' o' lk' G1 (ex_intro _ ob1 (conj Ho1 Hs1)) E) as Hl.
    eapply lr_ref; [| |exact Hl].
    + rewrite (qt_supply _ _ Qt2), (qt_supply _ _ Qt). eapply G_stored_drawn; eassumption.
    + rewrite (qt_sref _ _ Qt2), (qt_sref _ _ Qt). exact Hs.
Qed.

Lemma start_tr base s q kp x : GQ base s -> q_cookie q = CKey kp -> sref s kp = Some x ->
  forall s' o cks, start s q = (s', Ok (Some o), cks) -> TR s' o kp.
Proof.
  intros Hg Hq Hx s' o cks Es. pose proof Hg as (I & K & P & _).
  rewrite start_eq, Hq in Es.
  destruct (cache_get_inv _ _ _ _ _ kp I) as (s1 & r & E & I1 & Hres).
  destruct (cache_get_qt _ _ _ _ kp I K) as (Qt & K1 & Hobj). rewrite E in *. cbn [fst snd] in *.
  assert (G1 : GQ base s1) by (eapply (G_qt Q0 Q0_qt); eassumption).
  assert (F1 : ffnd s1) by (eapply inv_ffnd; exact I1). assert (Hp1 : plan s1 = []) by apply F1.
  destruct r as [o0|].
  2:{ destruct Hres as [_ Hst]. unfold sref in Hx. rewrite Hst in Hx. discriminate. }
  destruct (Hobj o0 eq_refl) as (ob & Ho & Hid & Hs). rewrite Ho in Es.
  assert (Hkd1 : kd (supply s1) kp) by (eapply G_stored_drawn; eassumption).
  set (c := conf s) in *.
  destruct (rec_valid c (now s1) q (o_rec ob)) eqn:Hv.
  - destruct (r_ref (o_rec ob)) as [t|] eqn:Hr.
    + (* a replaced-ID record: followed *)
      destruct (sat_add (c_idexpiry c) (c_grace c) <=? since (r_created (o_rec ob)) (now s1))%Z eqn:Hb.
      * rewrite sf_backstop in Es; [| exact Hp1 | exact Hv | unfold isref; rewrite Hr; reflexivity | exact Hb]. discriminate.
      * rewrite (sf_ref _ _ _ _ _ _ _ t Hv Hr Hb) in Es.
        destruct (follow (S (N.to_nat (supply s1))) s1 o0 kp) as [s2 fr] eqn:Ef.
        destruct fr as [[o' lk']|e|e]; [|discriminate | discriminate]. injection Es as <- <- <-.
        assert (Hok : hok 0 ND s1 o0) by (split; [lia | exists ob; split; [exact Ho | intros []]]).
        assert (Hs' : sref s1 kp = Some (r_ref (o_rec ob))) by (rewrite Hr; exact Hs).
        assert (Hsc : sc s1 o0) by (exists ob; split; [exact Ho | rewrite Hid; exact Hs']).
        destruct (follow_qt 0 base ND (S (N.to_nat (supply s1))) s1 o0 kp I1 K1 Hok Hsc) as (Qt2 & K2 & Hh2).
        rewrite Ef in *. cbn [fst snd] in *.
        destruct (follow_key 0 base ND _ _ _ _ _ _ _ I1 (ex_intro _ ob (conj Ho Hid)) Ef) as (ob' & Ho' & Hid').
        pose proof (follow_tr base _ _ _ _ _ _ _ G1 (ex_intro _ ob (conj Ho Hs')) Ef) as Hl.
        destruct (hupd_qt s2 o' (upd_req s2 q) (fun _ => eq_refl) K2) as [Qt3 _].
        apply (TR_qt s2 _ o' kp Qt3 (Hh2 o' lk' eq_refl)).
        exists lk'. split; [unfold hid; rewrite Ho'; cbn [option_map]; rewrite Hid'; reflexivity | exact Hl].
    + (* the session itself *)
      assert (Hh : hg s1 o0) by (exists ob; split; [exact Ho | split; [exact Hr | rewrite Hid; exact Hs]]).
      assert (T1 : TR s1 o0 kp) by (exists kp; split; [unfold hid; rewrite Ho; cbn [option_map]; rewrite Hid; reflexivity | constructor]).
      destruct (c_idexpiry c <=? since (r_created (o_rec ob)) (now s1))%Z eqn:Ha.
      * rewrite (sf_rotate _ _ _ _ _ _ _ F1 Ho Hv Hr Ha) in Es. injection Es as <- <- <-.
        destruct (regen_tr base s1 o0 ob G1 Ho Hh) as (G' & H' & T').
        pose proof G' as (_ & K' & _).
        destruct (hupd_qt (regen s1 o0 ob) o0 (upd_req (regen s1 o0 ob) q) (fun _ => eq_refl) K') as [Qt3 _].
        apply (TR_qt _ _ o0 kp Qt3 H'). apply T'. exact T1.
      * destruct (sat_add (c_idexpiry c) (c_grace c) <=? since (r_created (o_rec ob)) (now s1))%Z eqn:Hb.
        -- rewrite sf_backstop in Es; [| exact Hp1 | exact Hv | rewrite Ha; apply andb_false_r | exact Hb]. discriminate.
        -- rewrite (sf_plain _ _ _ _ _ _ _ Hv Hr Ha Hb) in Es. injection Es as <- <- <-.
           destruct (hupd_qt s1 o0 (upd_req s1 q) (fun _ => eq_refl) K1) as [Qt3 _].
           apply (TR_qt _ _ o0 kp Qt3 Hh). exact T1.
  - (* invalid: destroyed; a session created instead *)
    rewrite (sf_invalid _ _ _ _ _ _ _ Hp1 Ho Hv) in Es. rewrite Hid in Es.
    destruct (cdel_G Q0 DEL0 Q0_del base s1 kp G1 Logic.I) as (Gd & _ & Ed & _).
    destruct (q_create q); [|discriminate].
    rewrite create_session_ff in Es by (eapply inv_ffnd; apply Gd). injection Es as <- <- <-.
    destruct (created_G Q0 Q0_new base _ q Gd) as (_ & _ & _ & Hi' & Hsu').
    pose proof Gd as (Id & Kd & Pd & _).
    destruct (created_eff _ _ _ _ q Id Kd Pd) as (_ & _ & En & _).
    exists (KGen (supply (fst (cache_delete s1 kp)))). split; [exact Hi'|].
    apply lr_gone.
    + rewrite Hsu', (ed_supply _ _ _ Ed). eapply kd_mono; [|exact Hkd1]. lia.
    + rewrite (en_oth _ _ _ En); [exact (ed_gone _ _ _ Ed)|].
      intro Heq. rewrite (ed_supply _ _ _ Ed) in Heq. rewrite Heq in Hkd1. cbn [kd] in Hkd1. lia.
Qed.

(* a whole request step that presented a stored ID and whose script ends with Destroy *)
Theorem destroyed_presented_link w r kp x :
  LI (w_st w) -> rq_plan r = [] -> rq_crash r = None ->
  presents w r = CKey kp -> sref (w_st w) kp = Some x ->
  ob_script (snd (step w (HReq r))) <> [] ->
  nth_error (rq_script r) (length (ob_script (snd (step w (HReq r)))) - 1) = Some SDestroy ->
  exists kn rcf,
    ob_final (snd (step w (HReq r))) = Some (kn, rcf) /\
    forall k, rchain (w_st w) k kp -> lineage (w_st (fst (step w (HReq r)))) kn k.
Proof.
  intros Hl Hpl Hcr Hpr Hx.
  pose proof (LI_step w (HReq r) Hl Hpl Hcr) as Hl'.
  pose proof (step_destroy 0 w r (LI_winv _ Hl) Hpl Hcr) as Hsd.
  assert (Hch : forall kn, lineage (w_st (fst (step w (HReq r)))) kn kp ->
                forall k, rchain (w_st w) k kp -> lineage (w_st (fst (step w (HReq r)))) kn k).
  { intros kn Hkp k Hc.
    apply (chain_into_lineage w [HReq r] kn k kp Hl); [repeat constructor; assumption | repeat constructor; assumption | exact Hc | exact Hkp]. }
  revert Hl' Hsd Hch. rewrite step_req_eq. cbv zeta. rewrite Hcr.
  change (match rq_present r with PJar => jar_of (w_jars w) (rq_client r) | PForge c => c end) with (presents w r).
  change (mkReq (presents w r) (rq_create r) (rq_addr r) (rq_ua r)) with (req_of w r).
  change (set_tb (set_plan (set_evs (w_st w) []) (rq_plan r)) (rq_tb r)) with (pre_of w r).
  pose proof (GW_G Q0 Q0_qt (w_st w) (rq_plan r) (rq_tb r) Hl Hpl) as G1. fold (pre_of w r) in G1.
  unfold req_body.
  destruct (start_G Q0 DEL0 Q0_qt Q0_new Q0_repl Q0_del _ (pre_of w r) (req_of w r) G1) as (s2 & res & cks & E & G2 & _ & H2 & _).
  { intros; exact Logic.I. }
  rewrite E.
  destruct res as [[o|]|e|e]; try (cbn [fst snd mk_obs ob_script]; intros _ _ _ Hne; congruence).
  assert (T2 : TR s2 o kp).
  { apply (start_tr _ (pre_of w r) (req_of w r) kp x G1 Hpr Hx _ _ _ E). }
  destruct (fire_due_tr _ s2 o G2 (proj1 (H2 o eq_refl))) as (G3 & H3 & _ & T3).
  destruct (run_script (fire_due s2) o (had_cookie (req_of w r)) (rq_script r)) as [[s3 sr] cks'] eqn:E'.
  cbn [fst snd mk_obs ob_script ob_start ob_final w_st]. intros Hl' Hsd Hch Hne Hn.
  destruct (Hsd Hne Hn) as (kn' & rc' & A1 & _ & [_ A3] & _).
  destruct (script_link _ _ _ _ _ _ _ _ G3 H3 E' Hne Hn) as (kn & Hk & Hlr).
  unfold hid in Hk. destruct (hget s3 o) as [obf|] eqn:Hof; [|discriminate].
  cbn [option_map] in Hk. injection Hk as Hk.
  exists kn, (o_rec obf). split; [unfold handle_view; rewrite Hof, Hk; reflexivity|].
  unfold handle_view in A1. rewrite Hof in A1. injection A1 as A1 _. rewrite Hk in A1. subst kn'.
  apply Hch. apply lreach_lineage; [exact Hl' | unfold sref; sst; rewrite A3; reflexivity|].
  eapply (lreach_weak s3); [sst; lia | intros k' _; left; reflexivity|].
  apply Hlr. apply T3. exact T2.
Qed.

(* From a reachable state, with the continuation: the ending request presented
   kp (resolving to some record: the session's current ID, or a replaced one
   still in grace) and its handler ended with Destroy. Every ID that led to kp
   before that request - k0 -> .. -> kp - and kp itself, presented at any later
   point by anybody, gets a dead_answer, whether or not Start or the handler
   changed the session's ID in the ending request. *)
Theorem destroyed_presented_chain c hs1 r kp r0 :
  Forall ff_hop hs1 -> Forall crash_free hs1 -> rq_plan r = [] -> rq_crash r = None ->
  presents (reach c hs1) r = CKey kp -> L (w_st (reach c hs1)) kp = Some r0 ->
  ob_script (snd (step (reach c hs1) (HReq r))) <> [] ->
  nth_error (rq_script r) (length (ob_script (snd (step (reach c hs1) (HReq r)))) - 1) = Some SDestroy ->
  exists kn rcf, ob_final (snd (step (reach c hs1) (HReq r))) = Some (kn, rcf) /\
    (forall k, rchain (w_st (reach c hs1)) k kp -> lineage (w_st (fst (step (reach c hs1) (HReq r)))) kn k) /\
    forall k hs2 r2,
      rchain (w_st (reach c hs1)) k kp ->
      Forall ff_hop hs2 -> Forall crash_free hs2 -> rq_plan r2 = [] -> rq_crash r2 = None ->
      presents (after (fst (step (reach c hs1) (HReq r))) hs2) r2 = CKey k ->
      dead_answer (snd (step (after (fst (step (reach c hs1) (HReq r))) hs2) (HReq r2))).
Proof.
  intros H1 C1 Hpl Hcr Hpr HL Hne Hn.
  pose proof (LI_reach c hs1 H1 C1) as Hl.
  assert (Hx : sref (w_st (reach c hs1)) kp = Some (r_ref r0)).
  { apply (LI_Lref_iff _ kp (r_ref r0) Hl). exists r0. split; [exact HL | reflexivity]. }
  destruct (destroyed_presented_link _ r kp _ Hl Hpl Hcr Hpr Hx Hne Hn) as (kn & rcf & A1 & A2).
  destruct (step_destroy 0 _ r (LI_winv _ Hl) Hpl Hcr Hne Hn) as (kn' & rc' & B1 & B2 & B3 & _).
  rewrite A1 in B1. injection B1 as <- _.
  exists kn, rcf. split; [exact A1|]. split; [exact A2|].
  intros k hs2 r2 Hch H2 C2 Hpl2 Hcr2 Hpr2.
  apply (lineage_probe (fst (step (reach c hs1) (HReq r))) kn hs2 r2 k); try assumption.
  - apply LI_step; assumption.
  - apply A2. exact Hch.
Qed.
