(* C03/C02/C06 at the history level, part 1: a generic invariant on the logical
   contents of the IDs and its preservation by the primitive state changes and
   the cache operations (fault-free).

     P k r   a predicate on (ID, record): every record an ID resolves to (the
             cached object, else the stored record) satisfies it;
     K k     a set of IDs that must stay present (cached or stored) and are
             not awaiting a clean-up.

   Instances (LiveHist3.v): upper bound "access time <= now" (all IDs), lower
   bound "a <= access time seen through the codec" (one ID), and the lower
   bound together with "present, not a replaced-ID record" (one ID). The
   structural facts (cached indices are objects, unique keys, no fault planned)
   come from PF's invariant inv (HistInv.v). *)
From Sessions Require Import Model.Base Model.Sess Model.Hist Proofs.SessDefs Proofs.HistInv.
From Coq Require Import Lia.

Definition here (s : st) (k : key) : Prop := lookup (cache s) k <> None \/ lookup (store s) k <> None.

Lemma here_L s k : cache_valid s -> here s k -> L s k <> None.
Proof.
  intros Hv [H|H]; unfold L.
  - destruct (lookup (cache s) k) as [o|] eqn:E; [|congruence].
    destruct (hget s o) eqn:Eo; [discriminate | exfalso; eapply Hv; eauto].
  - destruct (lookup (cache s) k) as [o|] eqn:E; [|exact H].
    destruct (hget s o) eqn:Eo; [discriminate | exfalso; eapply Hv; eauto].
Qed.

Lemma L_here s k : L s k <> None -> here s k.
Proof.
  unfold L, here. destruct (lookup (cache s) k); [left; discriminate | intro H; right; exact H].
Qed.

Lemma lookup_upsert_keeps {A} (l : list (key * A)) k v k' : lookup l k' <> None -> lookup (upsert l k v) k' <> None.
Proof.
  intro H. destruct (key_eq_dec k' k) as [->|Hne]; [rewrite lookup_upsert_same; discriminate|].
  rewrite lookup_upsert_other by exact Hne. exact H.
Qed.

Section Gen.
  Variable P : key -> rec -> Prop.
  Variable K : key -> Prop.

  Record G (s : st) : Prop := mkG {
    g_c : forall k o ob, lookup (cache s) k = Some o -> hget s o = Some ob -> P k (o_rec ob);
    g_s : forall k r, lookup (cache s) k = None -> lookup (store s) k = Some r -> P k r;
    g_K : forall k, K k -> here s k;
    g_p : forall d k, In (d, k) (pending s) -> ~ K k }.

  (* the same through the logical lookup *)
  Lemma G_L s k r : G s -> L s k = Some r -> P k r.
  Proof.
    intros HG. unfold L. destruct (lookup (cache s) k) as [o|] eqn:E.
    - destruct (hget s o) as [ob|] eqn:Eo; [|discriminate]. intro H. injection H as <-. eapply g_c; eauto.
    - intro H. eapply g_s; eauto.
  Qed.

  Lemma G_present s k : cache_valid s -> G s -> K k -> L s k <> None.
  Proof. intros Hv HG Hk. apply here_L; [exact Hv | apply (g_K _ HG); exact Hk]. Qed.

  Definition Pcodec (c : cfg) : Prop := forall k r, P k r -> P k (codec c r).
  Definition Ptouch (t : Z) : Prop := forall k r, P k r -> P k (set_access r t).

  Lemma G_same s s' : heap s' = heap s -> cache s' = cache s -> store s' = store s -> pending s' = pending s ->
    G s -> G s'.
  Proof.
    intros Hh Hc Hs Hp [A B C E]. constructor; unfold here, hget in *; rewrite ?Hh, ?Hc, ?Hs, ?Hp; assumption.
  Qed.

  Lemma G_set_evs s l : G s -> G (set_evs s l).
  Proof. apply G_same; reflexivity. Qed.
  Lemma G_set_tb s l : G s -> G (set_tb s l).
  Proof. apply G_same; reflexivity. Qed.
  Lemma G_set_plan s l : G s -> G (set_plan s l).
  Proof. apply G_same; reflexivity. Qed.
  Lemma G_set_now s t : G s -> G (set_now s t).
  Proof. apply G_same; reflexivity. Qed.
  Lemma G_set_conf s c : G s -> G (set_conf s c).
  Proof. apply G_same; reflexivity. Qed.
  Lemma G_drawn1 s : G s -> G (drawn1 s).
  Proof. apply G_same; reflexivity. Qed.

  Lemma G_set_pending s l : G s -> (forall d k, In (d, k) l -> ~ K k) -> G (set_pending s l).
  Proof. intros [A B C E] Hl. constructor; sst; assumption. Qed.

  Lemma G_saved s k r : G s -> (lookup (cache s) k = None -> P k (codec (conf s) r)) -> G (saved s k r).
  Proof.
    intros [A B C E] Hk. unfold saved. constructor; unfold here in *; sst.
    - exact A.
    - intros k' r' Hc Hs. destruct (key_eq_dec k' k) as [->|Hne].
      + rewrite lookup_upsert_same in Hs. injection Hs as <-. apply Hk. exact Hc.
      + rewrite lookup_upsert_other in Hs by exact Hne. eapply B; eauto.
    - intros k' Hk'. destruct (C k' Hk') as [H|H]; [left; exact H | right; apply lookup_upsert_keeps; exact H].
    - exact E.
  Qed.

  Lemma G_flush1 s k o ob : G s -> Pcodec (conf s) ->
    lookup (cache s) k = Some o -> hget s o = Some ob -> G (flush1 s k ob).
  Proof.
    intros [A B C E] Hcd Hl Ho. unfold flush1, saved. constructor; unfold here in *; sst.
    - intros k' o' ob' Hl' Ho'. destruct (key_eq_dec k' k) as [->|Hne]; [rewrite lookup_remove_same in Hl'; discriminate|].
      rewrite lookup_remove_other in Hl' by exact Hne. eapply A; eauto.
    - intros k' r' Hc Hs. destruct (key_eq_dec k' k) as [->|Hne].
      + rewrite lookup_upsert_same in Hs. injection Hs as <-. apply Hcd. eapply A; eauto.
      + rewrite lookup_remove_other in Hc by exact Hne. rewrite lookup_upsert_other in Hs by exact Hne. eapply B; eauto.
    - intros k' Hk'. destruct (key_eq_dec k' k) as [->|Hne].
      + right. rewrite lookup_upsert_same. discriminate.
      + destruct (C k' Hk') as [H|H].
        * left. rewrite lookup_remove_other by exact Hne. exact H.
        * right. rewrite lookup_upsert_other by exact Hne. exact H.
    - exact E.
  Qed.

  Lemma G_flushes s s' : flushes s s' -> G s -> Pcodec (conf s) -> G s'.
  Proof.
    intros Hf HG Hcd.
    assert (H : G s' /\ conf s' = conf s).
    { apply (flushes_pres (fun x => G x /\ conf x = conf s)) with (s := s); [|exact Hf | split; [exact HG | reflexivity]].
      intros x k o ob [Hx Hc] Hl Ho. split; [|exact Hc]. eapply G_flush1; eauto. rewrite Hc. exact Hcd. }
    apply H.
  Qed.

  Lemma G_compact s req : ffnd s -> G s -> Pcodec (conf s) -> G (compact s req).
  Proof. intros F. apply G_flushes. apply compact_flushes. exact F. Qed.

  Lemma G_cache_delete s k : plan s = [] -> G s -> ~ K k -> G (fst (cache_delete s k)).
  Proof.
    intros Hp [A B C E] HnK. rewrite cache_delete_ff by exact Hp. cbn [fst]. unfold deleted. constructor; unfold here in *; sst.
    - intros k' o' ob' Hl' Ho'. destruct (key_eq_dec k' k) as [->|Hne]; [rewrite lookup_remove_same in Hl'; discriminate|].
      rewrite lookup_remove_other in Hl' by exact Hne. eapply A; eauto.
    - intros k' r' Hc Hs. destruct (key_eq_dec k' k) as [->|Hne]; [rewrite lookup_remove_same in Hs; discriminate|].
      rewrite lookup_remove_other in Hc by exact Hne. rewrite lookup_remove_other in Hs by exact Hne. eapply B; eauto.
    - intros k' Hk'. assert (Hne : k' <> k) by (intro; subst; contradiction).
      destruct (C k' Hk') as [H|H]; [left | right]; rewrite lookup_remove_other by exact Hne; exact H.
    - exact E.
  Qed.

  Lemma G_halloc s v : cache_valid s -> G s -> G (fst (halloc s v)).
  Proof.
    intros Hv [A B C E]. constructor; try (unfold halloc; sst; assumption).
    intros k o ob Hl Ho. change (cache (fst (halloc s v))) with (cache s) in Hl.
    rewrite hget_halloc in Ho. destruct (Nat.eqb o (length (heap s))) eqn:Eo.
    - exfalso. apply Nat.eqb_eq in Eo. subst o. apply (Hv k _ Hl). apply nth_error_None. lia.
    - eapply A; eauto.
  Qed.

  Lemma G_hput s o ob v : G s -> hget s o = Some ob ->
    (forall k, lookup (cache s) k = Some o -> P k (o_rec v)) -> G (hput s o v).
  Proof.
    intros [A B C E] Ho Hv. constructor; try (unfold hput; sst; assumption).
    intros k o' ob' Hl Ho'. change (cache (hput s o v)) with (cache s) in Hl. rewrite hget_hput in Ho'.
    destruct (Nat.eqb o o') eqn:Eo.
    - apply Nat.eqb_eq in Eo. subst o'. rewrite Ho in Ho'. injection Ho' as <-. apply Hv. exact Hl.
    - eapply A; eauto.
  Qed.

  Lemma G_hupd s o f : G s -> (forall k r, P k r -> P k (f r)) -> G (hupd s o f).
  Proof.
    intros HG Hf. unfold hupd. destruct (hget s o) as [ob|] eqn:Ho; [|exact HG].
    eapply G_hput; [exact HG | exact Ho |]. intros k Hl. cbn [o_rec]. apply Hf. eapply g_c; eauto.
  Qed.

  Lemma G_cache_upsert s k o ob : G s -> hget s o = Some ob -> P k (o_rec ob) ->
    G (set_cache s (upsert (cache s) k o)).
  Proof.
    intros [A B C E] Ho HP. constructor; unfold here in *; sst.
    - intros k' o' ob' Hl Ho'. destruct (key_eq_dec k' k) as [->|Hne].
      + rewrite lookup_upsert_same in Hl. injection Hl as <-. change (hget s o = Some ob') in Ho'.
        rewrite Ho in Ho'. injection Ho' as <-. exact HP.
      + rewrite lookup_upsert_other in Hl by exact Hne. eapply A; eauto.
    - intros k' r' Hc Hs. destruct (key_eq_dec k' k) as [->|Hne]; [rewrite lookup_upsert_same in Hc; discriminate|].
      rewrite lookup_upsert_other in Hc by exact Hne. eapply B; eauto.
    - intros k' Hk'. destruct (C k' Hk') as [H|H]; [left; apply lookup_upsert_keeps; exact H | right; exact H].
    - exact E.
  Qed.

  (* ---------------------------------------------------- cache operations *)

  Lemma G_loaded b base X D s k r es :
    inv b base X D s -> G s -> Pcodec (conf s) -> Forall quiet es ->
    lookup (cache s) k = None -> lookup (store s) k = Some r -> G (loaded s k r es).
  Proof.
    intros I HG Hcd Hq Hcn Hst.
    assert (HPk : P k r) by (eapply g_s; eauto).
    pose (s1 := fst (halloc (set_evs s (es ++ evs s)) (mkObj k r))).
    assert (G1 : G s1).
    { apply G_halloc; [|apply G_set_evs; exact HG]. intros k' o' Hl. apply (inv_cache_valid _ _ _ _ _ I k' o' Hl). }
    assert (F1 : ffnd s1) by exact (inv_ffnd _ _ _ _ _ I).
    assert (H1 : hget s1 (length (heap s)) = Some (mkObj k r)).
    { unfold s1. rewrite hget_halloc. sst. rewrite Nat.eqb_refl. reflexivity. }
    rewrite loaded_eq. cbv zeta. fold s1. destruct (c_maxcache (conf s) =? 0)%Z; [exact G1|].
    eapply G_cache_upsert; [apply G_compact; [exact F1 | exact G1 | exact Hcd] | rewrite hget_compact by exact F1; exact H1 | exact HPk].
  Qed.

  (* cache.Get: the state keeps G; a returned object satisfies P under the
     looked-up ID (which, with no excused entries, is its own) *)
  Lemma cache_get_G b base D s k s' r :
    inv b base NX D s -> G s -> Pcodec (conf s) -> cache_get s k = (s', Some r) ->
    G s' /\ match r with
            | Some o => exists ob, hget s' o = Some ob /\ o_id ob = k /\ P k (o_rec ob)
            | None => True
            end.
  Proof.
    intros I HG Hcd E. pose proof (cache_get_ff s k (i_plan _ _ _ _ _ I)) as Hff.
    destruct (lookup (cache s) k) as [o|] eqn:Hl.
    - rewrite Hff in E. injection E as <- <-. split; [exact HG|].
      destruct (i_cok _ _ _ _ _ I k o Hl) as [ob [Ho [Hid|[]]]]. exists ob. split; [exact Ho|]. split; [exact Hid|].
      eapply g_c; eauto.
    - destruct Hff as [es [Hq Hff]]. destruct (lookup (store s) k) as [r0|] eqn:Hst; rewrite Hff in E; injection E as <- <-.
      + split; [eapply G_loaded; eauto|].
        destruct (inv_loaded _ _ _ _ _ _ _ _ I Hq Hl Hst) as [_ Hg]. exists (mkObj k r0). split; [exact Hg|].
        split; [reflexivity|]. eapply g_s; eauto.
      + split; [apply G_set_evs; exact HG | exact Logic.I].
  Qed.

  (* cache.Set of an object that satisfies P under its own ID *)
  Lemma G_cset b base X D s o ob :
    inv b base X D s -> G s -> Pcodec (conf s) -> Ptouch (now s) ->
    hget s o = Some ob -> P (o_id ob) (o_rec ob) -> G (cset s o ob).
  Proof.
    intros I HG Hcd Htc Ho HP. assert (F : ffnd s) by (eapply inv_ffnd; exact I).
    set (s1 := hput s o (touched s ob)).
    assert (G1 : G s1).
    { eapply G_hput; [exact HG | exact Ho |]. intros k Hl. cbn [touched o_rec]. apply Htc. eapply g_c; eauto. }
    assert (F1 : ffnd s1) by exact F.
    assert (H1 : hget s1 o = Some (touched s ob)) by (apply hget_hput_same; eapply hget_Some_lt; exact Ho).
    assert (Gmid : G (cset_mid s o ob)).
    { unfold cset_mid. fold s1. set (req := (if has (cache s1) (o_id ob) then 0 else 1)%Z).
      assert (G2 : G (compact s1 req)) by (apply G_compact; [exact F1 | exact G1 | exact Hcd]).
      destruct (c_maxcache _ =? 0)%Z; [exact G2|].
      eapply G_cache_upsert; [exact G2 | rewrite hget_compact by exact F1; exact H1|].
      cbn [touched o_rec]. apply Htc. exact HP. }
    rewrite cset_eq. apply G_saved; [exact Gmid|]. intros _.
    destruct (cset_mid_frame s o ob F) as (_ & _ & _ & -> & _). apply Hcd. cbn [touched o_rec]. apply Htc. exact HP.
  Qed.

  (* PurgeSessions *)
  Lemma G_purge_saves b base X D : forall entries s, inv b base X D s -> G s -> Pcodec (conf s) ->
    (forall k o, In (k, o) entries -> lookup (cache s) k = Some o) ->
    G (purge_saves s entries).
  Proof.
    induction entries as [|[k o] t IH]; intros s I HG Hcd Hl; cbn [purge_saves]; [exact HG|].
    destruct (hget s o) as [ob|] eqn:Ho.
    - rewrite p_save_ff by apply (i_plan _ _ _ _ _ I). cbn [fst].
      assert (Hlk : lookup (cache s) k = Some o) by (apply Hl; left; reflexivity).
      destruct (inv_cached_facts _ _ _ _ _ _ _ _ I Hlk Ho) as (H1 & H2 & H3 & H4 & H5 & H6).
      apply IH.
      + apply inv_saved; assumption.
      + apply G_saved; [exact HG|]. intro Hn. congruence.
      + exact Hcd.
      + intros k' o' Hin. unfold saved. sst. apply Hl. right. exact Hin.
    - apply IH; [exact I | exact HG | exact Hcd | intros; apply Hl; right; assumption].
  Qed.
End Gen.

Arguments G_L {P K s k r}.

(* G is monotone in P and antitone in K *)
Lemma G_mono (P P' : key -> rec -> Prop) (K K' : key -> Prop) s :
  (forall k r, P k r -> P' k r) -> (forall k, K' k -> K k) -> G P K s -> G P' K' s.
Proof.
  intros HP HK [A B C E]. constructor.
  - intros k o ob Hl Ho. apply HP. eapply A; eauto.
  - intros k r Hc Hs. apply HP. eapply B; eauto.
  - intros k Hk. apply C. apply HK. exact Hk.
  - intros d k Hin Hk. apply (E d k Hin). apply HK. exact Hk.
Qed.

(* dropping the cache after saving everything: every ID resolves to what it
   resolved to, or to that record as the codec returns it *)
Lemma purge_store b base X D s : inv b base X D s ->
  cache (purge s) = [] /\ pending (purge s) = pending s /\ heap (purge s) = heap s /\
  forall k, lookup (store (purge s)) k =
            match lookup (cache s) k with
            | Some o => match hget s o with Some ob => Some (codec (conf s) (o_rec ob)) | None => None end
            | None => lookup (store s) k
            end.
Proof.
  intro I. assert (Hp : plan s = []) by apply (i_plan _ _ _ _ _ I).
  assert (Hnd : NoDup (map fst (cache s))) by apply (i_ndc _ _ _ _ _ I).
  unfold purge. sst. split; [reflexivity|].
  assert (Hgen : forall entries s0, plan s0 = [] -> heap s0 = heap s -> conf s0 = conf s -> NoDup (map fst entries) ->
            (forall k o, In (k, o) entries -> hget s o <> None) ->
            pending (purge_saves s0 entries) = pending s0 /\ heap (purge_saves s0 entries) = heap s0 /\
            forall k, lookup (store (purge_saves s0 entries)) k =
                      match lookup entries k with
                      | Some o => match hget s o with Some ob => Some (codec (conf s) (o_rec ob)) | None => None end
                      | None => lookup (store s0) k
                      end).
  { induction entries as [|[k o] t IH]; intros s0 Hp0 Hh0 Hc0 Hn Hv; cbn [purge_saves].
    - repeat split.
    - inversion Hn as [|? ? Hx Hn']; subst.
      assert (Ho : hget s0 o = hget s o) by (unfold hget; rewrite Hh0; reflexivity).
      destruct (hget s o) as [ob|] eqn:Eo; [|exfalso; apply (Hv k o); [left; reflexivity | exact Eo]].
      rewrite Ho. rewrite p_save_ff by exact Hp0. cbn [fst].
      destruct (IH (saved s0 k (o_rec ob))) as (A1 & A2 & A3); try assumption.
      { intros k' o' Hin. apply (Hv k' o'). right. exact Hin. }
      split; [exact A1|]. split; [exact A2|]. intro k'. rewrite A3. cbn [lookup].
      destruct (key_eqb k' k) eqn:Ek.
      + apply key_eqb_eq in Ek. subst k'.
        assert (Hnt : lookup t k = None) by (apply lookup_None_notin; exact Hx).
        rewrite Hnt. unfold saved. sst. rewrite lookup_upsert_same, Hc0, Eo. reflexivity.
      + destruct (lookup t k'); [reflexivity|]. unfold saved. sst. apply lookup_upsert_other.
        apply key_eqb_neq. exact Ek. }
  destruct (Hgen (order_by_tb (tb s) (cache s)) s Hp eq_refl eq_refl) as (A1 & A2 & A3).
  - apply order_by_tb_NoDup. exact Hnd.
  - intros k o Hin. apply order_by_tb_lookup in Hin; [|exact Hnd]. apply (inv_cache_valid _ _ _ _ _ I k o Hin).
  - split; [exact A1|]. split; [exact A2|]. intro k. rewrite A3.
    destruct (lookup (cache s) k) as [o|] eqn:El.
    + assert (Hin : lookup (order_by_tb (tb s) (cache s)) k = Some o).
      { destruct (lookup (order_by_tb (tb s) (cache s)) k) as [o'|] eqn:E2.
        - apply lookup_In in E2. apply order_by_tb_lookup in E2; [|exact Hnd]. congruence.
        - exfalso. apply lookup_None_notin in E2. apply E2.
          unfold order_by_tb. rewrite map_app. apply in_or_app.
          destruct (existsb (key_eqb k) (tb s)) eqn:Ex.
          + left. apply existsb_exists in Ex. destruct Ex as [k' [Hk' Hek]]. apply key_eqb_eq in Hek. subst k'.
            apply in_map_iff. exists (k, o). split; [reflexivity|]. apply in_flat_map. exists k.
            split; [apply nodup_keys_In; exact Hk' | rewrite El; left; reflexivity].
          + right. apply in_map_iff. exists (k, o). split; [reflexivity|]. apply filter_In.
            split; [apply lookup_In; exact El | cbn [fst]; rewrite Ex; reflexivity]. }
      rewrite Hin. reflexivity.
    + assert (Hin : lookup (order_by_tb (tb s) (cache s)) k = None).
      { destruct (lookup (order_by_tb (tb s) (cache s)) k) as [o'|] eqn:E2; [|reflexivity].
        apply lookup_In in E2. apply order_by_tb_lookup in E2; [|exact Hnd]. congruence. }
      rewrite Hin. reflexivity.
Qed.

Lemma G_purge P K b base X D s : inv b base X D s -> G P K s -> Pcodec P (conf s) -> G P K (purge s).
Proof.
  intros I [A B C E] Hcd. destruct (purge_store _ _ _ _ _ I) as (Hc & Hpd & Hh & Hst).
  constructor.
  - intros k o ob Hl. rewrite Hc in Hl. discriminate.
  - intros k r _ Hs. rewrite Hst in Hs. destruct (lookup (cache s) k) as [o|] eqn:El.
    + destruct (hget s o) as [ob|] eqn:Eo; [|discriminate]. injection Hs as <-. apply Hcd. eapply A; eauto.
    + eapply B; eauto.
  - intros k Hk. right. rewrite Hst. destruct (C k Hk) as [H|H].
    + destruct (lookup (cache s) k) as [o|] eqn:El; [|congruence].
      destruct (hget s o) eqn:Eo; [discriminate|]. exfalso. eapply (inv_cache_valid _ _ _ _ _ I); eauto.
    + destruct (lookup (cache s) k) as [o|] eqn:El; [|exact H].
      destruct (hget s o) eqn:Eo; [discriminate|]. exfalso. eapply (inv_cache_valid _ _ _ _ _ I); eauto.
  - rewrite Hpd. exact E.
Qed.
