(* B2 (C05), part (b): Start interrupted by the due clean-ups, for a request
   presenting a replaced ID at the head of an intact chain. *)
From Sessions Require Import Model.Base Model.Sess Model.Hist Model.StartSteps Proofs.SessDefs
  Proofs.RotateLaws Proofs.RotateLaws2 Proofs.RotateLaws3 Proofs.RotateLaws4 Proofs.StartSteps
  Proofs.StartSteps2 Proofs.StartSteps3.
From Sessions Require Proofs.StartLaws Proofs.StartLaws3.
From Coq Require Import Lia.

(* ------------------------------------------------ hooks that never act *)

Section Ext.
  Variable h : hook.
  Hypothesis Hh : forall n s, h (S n) s = s.

  Lemma follow_h_ext fuel : forall n s o lk, follow_h h n fuel s o lk = follow fuel s o lk.
  Proof.
    induction fuel as [|f IH]; intros n s o lk; cbn [follow_h follow].
    - reflexivity.
    - destruct (hget s o) as [ob|]; [|reflexivity].
      destruct (r_ref (o_rec ob)) as [t|]; [|reflexivity].
      destruct (cache_get s t) as [s1 [[o1|]|]]; rewrite Hh; try reflexivity.
      apply IH.
  Qed.

  Lemma regenerate_h_ext n s o : regenerate_h h n s o = regenerate s o.
  Proof.
    unfold regenerate_h, regenerate. destruct (hget s o) as [ob|]; [|reflexivity].
    destruct (gen_id s) as [s1 nid].
    destruct (cache_set _ o) as [s2 ok]. rewrite Hh. destruct (negb ok); [reflexivity|].
    destruct (hget s2 o) as [ob2|]; [|reflexivity].
    destruct (halloc s2 _) as [s3 ro]. destruct (cache_set s3 ro) as [s4 ok4]. rewrite Hh. reflexivity.
  Qed.

  Lemma destroy_h_ext n s o hc : destroy_h h n s o hc = destroy s o hc.
  Proof.
    unfold destroy_h, destroy. destruct (hget s o) as [ob|]; [|reflexivity].
    destruct (cache_delete s (o_id ob)) as [s1 ok]. rewrite Hh. reflexivity.
  Qed.

  Lemma create_h_ext n s q : create_session_h h n s q = create_session s q.
  Proof.
    unfold create_session_h, create_session. destruct (gen_id s) as [s1 nid].
    destruct (halloc s1 _) as [s2 o]. destruct (cache_set s2 o) as [s3 ok]. rewrite Hh. reflexivity.
  Qed.

  Lemma start_body_ext s q : start_body h s q = start s q.
  Proof.
    unfold start_body, start.
    destruct (q_cookie q) as [|k|x]; try (destruct (q_create q); [rewrite create_h_ext|]; reflexivity).
    destruct (cache_get s k) as [s1 [[o|]|]]; rewrite Hh; try reflexivity.
    - destruct (hget s1 o) as [ob|]; [|reflexivity].
      destruct (negb _).
      + rewrite destroy_h_ext. destruct (destroy s1 o (had_cookie q)) as [[s2 [u|e|e]] dck]; try reflexivity.
        destruct (q_create q); [rewrite create_h_ext|]; reflexivity.
      + destruct (r_ref (o_rec ob)) as [t|]; cbn [negb andb].
        * destruct (sat_add _ _ <=? _)%Z.
          -- destruct (cache_delete s1 k) as [s2 [|]]; rewrite Hh; reflexivity.
          -- rewrite follow_h_ext. reflexivity.
        * destruct (_ <=? _)%Z; [rewrite regenerate_h_ext; reflexivity|].
          destruct (sat_add _ _ <=? _)%Z; [|reflexivity].
          destruct (cache_delete s1 k) as [s2 [|]]; rewrite Hh; reflexivity.
    - destruct (q_create q); [rewrite create_h_ext|]; reflexivity.
  Qed.
End Ext.

(* interruption point 0 is the serial order "clean-ups, then the request" *)
Theorem start_interrupted_before s q : start_interrupted s q (Some 0) = start (fire_due s) q.
Proof. rewrite start_interrupted_0. apply start_body_ext. intros n s'. reflexivity. Qed.

(* ------------------------------------------------ the request on a chain *)

Theorem start_interrupted_chain s q k r rest i :
  plan s = [] -> cache_ok s -> nodup_ok s -> fresh_ok s -> ref_wf s ->
  q_cookie q = CKey k -> L s k = Some r -> chain_rec s r rest -> rest <> [] ->
  valid_for (conf s) r (now s) q = true ->
  (since (r_created r) (now s) < sat_add (c_idexpiry (conf s)) (c_grace (conf s)))%Z ->
  (forall k', In k' rest -> notdue s k') ->
  1 <= i ->
  let kn := last rest k in
  exists s' o' rn r',
    start_interrupted s q (Some i) = (s', Ok (Some o'), [CkLive kn]) /\
    L s kn = Some rn /\ r_ref rn = None /\ (r' = rn \/ r' = codec (conf s) rn) /\
    hget s' o' = Some (mkObj kn (seen_rec r' (now s) q)) /\
    supply s' = supply s /\ plan s' = [] /\ cache_ok s' /\
    (exists rk, L s' kn = Some rk /\ r_ref rk = None) /\
    (i <= S (length rest) -> forall d k0, In (d, k0) (pending s) -> (d <= now s)%Z ->
       lookup (cache s') k0 = None /\ lookup (store s') k0 = None /\ ~ In (d, k0) (pending s')) /\
    (S (length rest) < i -> start_interrupted s q (Some i) = start s q).
Proof.
  intros Hp Hco [Hndc Hnds] Hf Hw Hq HL Hch Hne Hvalid Hage Hdue Hi kn.
  pose proof (drawn_not_next s k (L_drawn s k r Hf HL)) as Hkj.
  destruct (lookup_found s k r Hp Hco Hndc Hkj HL) as [s1 [o0 [Eg [Q Pobj Pca PLk]]]].
  assert (Href : exists k1, r_ref r = Some k1).
  { destruct rest as [|k1 t]; [congruence|]. exists k1. apply Hch. }
  destruct Href as [k1 Href].
  destruct (hook_qx i 1 s1 (qu_plan _ _ Q) (qu_cok _ _ Q) (qu_ndc _ _ Q)) as (X1 & X2 & X3 & X4 & X5).
  set (s1' := fire_at i 1 s1) in *.
  assert (Hobj' : hget s1' o0 = Some (mkObj k r)) by (apply (qx_ext _ _ X1); exact Pobj).
  assert (Hnow' : now s1' = now s) by (rewrite (qx_now _ _ X1); exact (qu_now _ _ Q)).
  assert (Hdue1 : forall k', In k' rest -> notdue s1 k').
  { intros k' Hk. apply (notdue_qx s s1 k' (qx_of_quiet _ _ Q)). apply Hdue. exact Hk. }
  assert (Hlen : length rest <= N.to_nat (supply s)).
  { destruct rest as [|k1' t']; [congruence|].
    destruct (chain_len s Hw t' k r k1' HL Hch) as [m1 [_ Hl1]]. lia. }
  assert (Hsup' : supply s1' = supply s) by (rewrite (qx_supply _ _ X1); exact (qu_supply _ _ Q)).
  destruct (follow_h_chain i rest 1 (S (N.to_nat (supply s1'))) s1' o0 (mkObj k r) k)
    as [s2 [o' [ob' (Ef & Q2 & Hg2 & Hr2 & Hid2 & _ & Hcons & Hfd & Hsame)]]].
  { rewrite Hsup'. lia. }
  { exact (qx_plan _ _ X1). }
  { exact (qx_cok _ _ X1). }
  { exact (qx_ndc _ _ X1). }
  { intros k' Hin. rewrite Hsup'. destruct (chain_rec_L s rest r k' Hch Hin) as [r0 Hl'].
    apply drawn_not_next. eapply L_drawn; eassumption. }
  { intros k' Hin. apply (notdue_qx s1 s1' k' X1). apply Hdue1. exact Hin. }
  { exact Hobj'. }
  { cbn [o_rec]. apply (chain_rec_qx s1 s1' rest X1 Hdue1). eapply chain_rec_pres; [exact (qu_L _ _ Q) | exact Hch]. }
  assert (Hfire0 : fire_at i 0 s = s).
  { unfold fire_at. destruct (Nat.eqb 0 i) eqn:E0; [apply Nat.eqb_eq in E0; lia | reflexivity]. }
  assert (Elhs : start_interrupted s q (Some i) =
                 (hupd s2 o' (fun r0 => set_ua (set_ip (set_access r0 (now s2)) (q_addr q)) (q_ua q)),
                  Ok (Some o'), [CkLive kn])).
  { unfold start_interrupted, start_h. rewrite Hfire0. unfold start_body. rewrite Hq, Eg.
    fold s1'. cbn [negb]. rewrite Hobj'. cbn [o_rec]. rewrite Hnow'.
    unfold valid_for in Hvalid. rewrite Hvalid. cbn [negb]. rewrite Href. cbn [negb andb].
    replace (sat_add (c_idexpiry (conf s)) (c_grace (conf s)) <=? since (r_created r) (now s))%Z with false
      by (symmetry; apply Z.leb_gt; exact Hage).
    rewrite Ef. fold kn. reflexivity. }
  cbn [o_id] in Hid2. fold kn in Hid2.
  destruct (Hcons Hne) as [HL2 [rn1 [Hrn1 Hcase1]]]. rewrite Hid2 in HL2, Hrn1.
  assert (Hkn : In kn rest) by (apply last_in; exact Hne).
  assert (Hrn : exists rn, L s kn = Some rn /\ (o_rec ob' = rn \/ o_rec ob' = codec (conf s) rn)).
  { rewrite (X2 kn (Hdue1 kn Hkn)) in Hrn1. rewrite (qx_conf _ _ X1) in Hcase1.
    destruct (qu_L _ _ Q kn) as [EL|EL]; rewrite EL in Hrn1.
    - exists rn1. split; [exact Hrn1|]. rewrite <- (qu_conf _ _ Q). exact Hcase1.
    - destruct (L s kn) as [r0|] eqn:E0; [|discriminate]. cbn in Hrn1. injection Hrn1 as <-.
      exists r0. split; [reflexivity|]. right.
      destruct Hcase1 as [Hc1|Hc1]; rewrite Hc1; [reflexivity|].
      rewrite (qu_conf _ _ Q). apply StartLaws.codec_idem. }
  destruct Hrn as [rn [Hrn Hcase]].
  set (s' := hupd s2 o' _) in Elhs.
  exists s', o', rn, (o_rec ob'). split; [exact Elhs|].
  destruct (hupd_fields s2 o' (fun r0 => set_ua (set_ip (set_access r0 (now s2)) (q_addr q)) (q_ua q)))
    as (Hc & Hs & Hpe & He & Hsu & Hn & Hcf & Hpl).
  fold s' in Hc, Hs, Hpe, He, Hsu, Hn, Hcf, Hpl.
  assert (Ho : hget s' o' = Some (mkObj kn (seen_rec (o_rec ob') (now s) q))).
  { unfold s'. rewrite (hget_hupd_same s2 o' _ _ Hg2). rewrite Hid2.
    rewrite (qx_now _ _ Q2), Hnow'. reflexivity. }
  assert (Hcok' : cache_ok s').
  { intros k' o1 Hlk. rewrite Hc in Hlk. destruct (qx_cok _ _ Q2 k' o1 Hlk) as (ob1 & Hg1 & Hid1).
    destruct (Nat.eq_dec o' o1) as [<-|Hno].
    - rewrite Ho. eexists. split; [reflexivity|]. cbn [o_id]. rewrite Hg2 in Hg1. injection Hg1 as <-. congruence.
    - exists ob1. split; [unfold s'; rewrite hget_hupd_other by exact Hno; exact Hg1 | exact Hid1]. }
  split; [exact Hrn|]. split.
  { destruct Hcase as [Hc0|Hc0]; rewrite Hc0 in Hr2; exact Hr2. }
  split; [exact Hcase|]. split; [exact Ho|].
  split; [rewrite Hsu, (qx_supply _ _ Q2); exact Hsup'|].
  split; [rewrite Hpl; exact (qx_plan _ _ Q2)|]. split; [exact Hcok'|]. split; [|split].
  - unfold L. rewrite Hc, Hs. unfold L in HL2.
    destruct (lookup (cache s2) kn) as [ox|] eqn:Ecx.
    + destruct (Nat.eq_dec o' ox) as [<-|Hnx].
      * rewrite Ho. eexists. split; [reflexivity|]. exact Hr2.
      * unfold s'. rewrite hget_hupd_other by exact Hnx.
        destruct (hget s2 ox) as [obx|]; [|discriminate]. injection HL2 as HL2.
        eexists. split; [reflexivity|]. rewrite HL2. exact Hr2.
    + exists (o_rec ob'). split; [exact HL2 | exact Hr2].
  - intros Hi2 d k0 Hin Hd.
    assert (G : L s2 k0 = None /\ ~ In (d, k0) (pending s2)).
    { destruct (Nat.eq_dec 1 i) as [Ei|Ei].
      - specialize (X4 Ei). rewrite <- (qu_pending _ _ Q) in Hin. rewrite <- (qu_now _ _ Q) in Hd.
        destruct (fired_due_gone s1 s1' d k0 X4 Hin Hd) as (_ & _ & G1 & G2).
        split; [apply (qx_none _ _ Q2); exact G1|]. intro H. apply G2. apply (qx_pending _ _ Q2). exact H.
      - assert (Es : s1' = s1) by (apply X5; exact Ei).
        apply Hfd; [lia | rewrite Es, (qu_pending _ _ Q); exact Hin | rewrite Es, (qu_now _ _ Q); exact Hd]. }
    destruct G as [G1 G2]. destruct (StartLaws.L_None_lookups s2 k0 (qx_cok _ _ Q2) G1) as [G3 G4].
    rewrite Hc, Hs, Hpe. auto.
  - intros Hi2. rewrite Elhs. assert (Ei : 1 <> i) by lia.
    assert (Es : s1' = s1) by (apply X5; exact Ei).
    unfold start. rewrite Hq, Eg. cbn [negb]. rewrite Pobj. cbn [o_rec]. rewrite (qu_now _ _ Q).
    unfold valid_for in Hvalid. rewrite Hvalid. cbn [negb]. rewrite Href. cbn [negb andb].
    replace (sat_add (c_idexpiry (conf s)) (c_grace (conf s)) <=? since (r_created r) (now s))%Z with false
      by (symmetry; apply Z.leb_gt; exact Hage).
    rewrite <- Es. rewrite <- Hsame by lia. rewrite Ef. reflexivity.
Qed.
