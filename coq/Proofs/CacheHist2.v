(* C12 at the level of the public API, part 2: PA's standing assumptions (cinv)
   and the size bounds as predicates kept by the nine micro changes, hence by
   every API call (CacheHist.v), and the generic step lemma: a predicate kept
   by the micro changes, by PurgeSessions and by emptying the cache is kept by
   every fault-free step of a history (crashes included: a crash empties the
   cache). *)
From Sessions Require Import Model.Base Model.Sess Model.Hist Proofs.SessDefs
  Proofs.CacheInv Proofs.CacheInv2 Proofs.CacheInv3 Proofs.CacheInv4 Proofs.CacheInv5 Proofs.CacheHist.
From Sessions Require Proofs.HistInv Proofs.HistInv2 Proofs.HistInv3.
From Coq Require Import Lia.
Local Open Scope Z_scope.

(* ------------------------------------------------ cinv is kept everywhere *)

Lemma cinv_sim s s' : heap s' = heap s -> cache s' = cache s -> plan s' = plan s -> cinv s -> cinv s'.
Proof.
  intros Hh Hc Hp [A [B C]]. split; [congruence|]. split; [|rewrite Hc; exact C].
  intros k o Hk. rewrite Hc in Hk. destruct (B k o Hk) as [ob Hob]. exists ob. unfold hget in *. rewrite Hh. exact Hob.
Qed.

Lemma p_usersessions_sim s u : plan s = [] ->
  heap (fst (p_usersessions s u)) = heap s /\ cache (fst (p_usersessions s u)) = cache s /\
  plan (fst (p_usersessions s u)) = plan s /\ conf (fst (p_usersessions s u)) = conf s.
Proof. intro H. unfold p_usersessions. rewrite next_fault_ff by exact H. repeat split. Qed.

Lemma p_save_sim s k r : plan s = [] ->
  heap (fst (p_save s k r)) = heap s /\ cache (fst (p_save s k r)) = cache s /\
  plan (fst (p_save s k r)) = plan s /\ conf (fst (p_save s k r)) = conf s.
Proof. intro H. rewrite p_save_ff by exact H. repeat split. Qed.

Lemma micro_cinv : micro cinv.
Proof.
  constructor.
  - intros s k H. apply get_cinv_all. exact H.
  - intros s o H. apply set_cinv_all. exact H.
  - intros s k H. apply delete_cinv. exact H.
  - intros s k r H. destruct (p_save_sim s k r (proj1 H)) as (A & B & C & _). eapply cinv_sim; eassumption.
  - intros s u H. destruct (p_usersessions_sim s u (proj1 H)) as (A & B & C & _). eapply cinv_sim; eassumption.
  - intros s H. eapply cinv_sim; [| | |exact H]; reflexivity.
  - intros s ob [A [B C]]. split; [exact A|]. split; [apply halloc_live; exact B | exact C].
  - intros s o ob [A [B C]]. split; [exact A|]. split; [apply hput_live; exact B | exact C].
  - intros s l H. eapply cinv_sim; [| | |exact H]; reflexivity.
Qed.

(* ---------------------------- predicates on (cache, configuration) under cinv *)

Section CC.
  Variable B : list (key * nat) -> cfg -> Prop.
  Definition cc (s : st) : Prop := cinv s /\ B (cache s) (conf s).

  Hypothesis Bget : forall s k, cinv s -> B (cache s) (conf s) ->
    B (cache (fst (cache_get s k))) (conf s).
  Hypothesis Bset : forall s o, cinv s -> B (cache s) (conf s) ->
    B (cache (fst (cache_set s o))) (conf s).
  Hypothesis Brem : forall l c k, B l c -> B (remove l k) c.

  Lemma micro_cc : micro cc.
  Proof.
    constructor.
    - intros s k [H HB]. split; [apply get_cinv_all; exact H|]. rewrite cache_get_conf by exact H. apply Bget; assumption.
    - intros s o [H HB]. split; [apply set_cinv_all; exact H|]. rewrite cache_set_conf by exact H. apply Bset; assumption.
    - intros s k [H HB]. split; [apply delete_cinv; exact H|]. rewrite delete_cache.
      unfold cache_delete. destruct (p_delete_cache (set_cache s (remove (cache s) k)) k) as (_ & _ & ->).
      apply Brem. exact HB.
    - intros s k r [H HB]. split; [apply (m_save _ micro_cinv); exact H|].
      destruct (p_save_sim s k r (proj1 H)) as (_ & -> & _ & ->). exact HB.
    - intros s u [H HB]. split; [apply (m_us _ micro_cinv); exact H|].
      destruct (p_usersessions_sim s u (proj1 H)) as (_ & -> & _ & ->). exact HB.
    - intros s [H HB]. split; [apply (m_draw _ micro_cinv); exact H | exact HB].
    - intros s ob [H HB]. split; [apply (m_new _ micro_cinv); exact H | exact HB].
    - intros s o ob [H HB]. split; [apply (m_put _ micro_cinv); exact H | exact HB].
    - intros s l [H HB]. split; [apply (m_pend _ micro_cinv); exact H | exact HB].
  Qed.
End CC.

(* within N (PA's invariant) and within N + 1 *)
Definition Bwithin (l : list (key * nat)) (c : cfg) : Prop :=
  0 <= c_maxcache c -> Z.of_nat (length l) <= c_maxcache c.
Definition Bweak (l : list (key * nat)) (c : cfg) : Prop :=
  0 <= c_maxcache c -> Z.of_nat (length l) <= c_maxcache c + 1.

Definition weak (s : st) : Prop := Bweak (cache s) (conf s).

Lemma within_B s : within s <-> Bwithin (cache s) (conf s).
Proof. reflexivity. Qed.

Lemma micro_within : micro (cc Bwithin).
Proof.
  apply micro_cc.
  - intros s k H HB. pose proof (get_within s k H HB) as G. unfold within in G.
    rewrite cache_get_conf in G by exact H. exact G.
  - intros s o H HB. pose proof (set_within s o H HB) as G. unfold within in G.
    rewrite cache_set_conf in G by exact H. exact G.
  - intros l c k HB Hmx. pose proof (length_remove_le l k). specialize (HB Hmx). lia.
Qed.

Lemma set_weak s o : cinv s -> hget s o <> None -> Bweak (cache (fst (cache_set s o))) (conf s).
Proof.
  intros H Hl Hmx. destruct (hget s o) as [ob|] eqn:Ho; [|congruence].
  exact (set_bound_weak s o ob H Ho Hmx).
Qed.

Lemma micro_weak : micro (cc Bweak).
Proof.
  apply micro_cc.
  - intros s k H HB Hmx. pose proof H as [Hp _].
    destruct (lookup (cache s) k) as [o|] eqn:Hc.
    { rewrite get_nogrow; [exact (HB Hmx) | exact Hp | left; congruence]. }
    destruct (lookup (store s) k) as [r|] eqn:Hs.
    2:{ rewrite get_nogrow; [exact (HB Hmx) | exact Hp | right; exact Hs]. }
    destruct (Z.eq_dec (c_maxcache (conf s)) 0) as [E0|E0].
    + rewrite get_zero by exact E0. exact (HB Hmx).
    + pose proof (get_bound s k r H Hc Hs). lia.
  - intros s o H HB. destruct (hget s o) eqn:Ho.
    + apply set_weak; [exact H | congruence].
    + rewrite cache_set_none by exact Ho. exact HB.
  - intros l c k HB Hmx. pose proof (length_remove_le l k). specialize (HB Hmx). lia.
Qed.

(* with N = 0: once empty, always empty; a Set of a live object empties it *)
Definition Bzero (l : list (key * nat)) (c : cfg) : Prop := c_maxcache c = 0 -> l = [].

Lemma micro_zero : micro (cc Bzero).
Proof.
  apply micro_cc.
  - intros s k H HB E0. rewrite get_zero by exact E0. exact (HB E0).
  - intros s o H HB E0. destruct (hget s o) as [ob|] eqn:Ho.
    + exact (set_zero s o ob H Ho E0).
    + rewrite cache_set_none by exact Ho. exact (HB E0).
  - intros l c k HB E0. rewrite (HB E0). reflexivity.
Qed.

Lemma set_Bzero s o : cinv s -> hget s o <> None -> Bzero (cache (fst (cache_set s o))) (conf s).
Proof.
  intros H Hl E0. destruct (hget s o) as [ob|] eqn:Ho; [|congruence]. exact (set_zero s o ob H Ho E0).
Qed.

(* -------------------------------------------------- the generic step lemma *)

Import HistInv3.

Section StepQ.
  Variable Q : st -> Prop.
  Hypothesis MQ : micro Q.
  Hypothesis Qplan : forall s, Q s -> plan s = [].
  Hypothesis Qsim : forall s s', heap s' = heap s -> cache s' = cache s -> conf s' = conf s -> plan s' = plan s ->
    Q s -> Q s'.
  Hypothesis Qpurge : forall s, Q s -> Q (purge s).
  Hypothesis Qempty : forall s s', Q s -> heap s' = heap s -> conf s' = conf s -> plan s' = [] -> cache s' = [] -> Q s'.

  Lemma Q_setup s t : Q s -> Q (set_tb (set_plan (set_evs s []) []) t).
  Proof. intro H. eapply Qsim; [| | | |exact H]; try reflexivity. cbn. symmetry. apply Qplan. exact H. Qed.

  Lemma Q_teardown s : Q s -> Q (set_tb (set_plan s []) []).
  Proof. intro H. eapply Qsim; [| | | |exact H]; try reflexivity. cbn. symmetry. apply Qplan. exact H. Qed.

  (* the state the API calls of a request step produce, before the crash split *)
  Definition req_mid (w : world) (r : reqstep) : st :=
    fst (fst (fst (fst (fst (req_body (set_tb (set_plan (set_evs (w_st w) []) (rq_plan r)) (rq_tb r))
       (mkReq (match rq_present r with PJar => jar_of (w_jars w) (rq_client r) | PForge c => c end)
              (rq_create r) (rq_addr r) (rq_ua r)) (rq_script r)))))).

  Lemma req_mid_papi w r : papi (set_tb (set_plan (set_evs (w_st w) []) (rq_plan r)) (rq_tb r)) (req_mid w r).
  Proof. apply req_body_papi. Qed.

  Lemma step_req_state w r :
    let s' := w_st (fst (step w (HReq r))) in
    heap s' = heap (req_mid w r) /\ conf s' = conf (req_mid w r) /\ plan s' = [] /\
    match rq_crash r with
    | Some _ => cache s' = []
    | None => cache s' = cache (req_mid w r) /\ supply s' = supply (req_mid w r)
    end.
  Proof.
    cbv zeta. rewrite step_req_eq. cbv zeta. unfold req_mid.
    destruct (req_body _ _ (rq_script r)) as [[[[[s3 rc] st0] sr] fin] cks]. cbn [fst].
    destruct (rq_crash r) as [n|].
    - destruct (fold_left apply_ev _ _) as [stor gr]. cbn [fst w_st]. repeat split.
    - cbn [fst w_st]. repeat split.
  Qed.

  Theorem step_Q w h :
    Q (w_st w) -> ff_hop h -> (forall c, h = HSetCfg c -> Q (set_conf (set_evs (w_st w) []) c)) ->
    Q (w_st (fst (step w h))).
  Proof.
    intros H Hff Hcfg. destruct h as [r|d|tbl pl| | |u tbl pl|u tbl pl|c]; cbn [ff_hop] in Hff.
    - assert (H3 : Q (req_mid w r)).
      { eapply micro_papi; [exact MQ | apply req_mid_papi|]. rewrite Hff. apply Q_setup. exact H. }
      destruct (step_req_state w r) as (A1 & A2 & A3 & A4). destruct (rq_crash r) as [n|].
      + eapply Qempty; eassumption.
      + destruct A4 as [A4 _]. eapply Qsim; [exact A1 | exact A4 | exact A2 | | exact H3].
        rewrite A3. symmetry. apply Qplan. exact H3.
    - cbn [step fst w_st]. eapply micro_papi; [exact MQ | apply fire_due_papi|].
      eapply Qsim; [| | | |exact H]; reflexivity.
    - subst pl. cbn [step fst w_st]. apply Q_teardown. apply Qpurge. apply Q_setup. exact H.
    - cbn [step fst w_st]. eapply Qempty; [exact H| | | |]; try reflexivity. cbn. apply Qplan. exact H.
    - cbn [step fst w_st]. eapply Qempty; [exact H| | | |]; try reflexivity. cbn. apply Qplan. exact H.
    - subst pl. cbn [step].
      pose proof (logout_user_papi (set_tb (set_plan (set_evs (w_st w) []) []) tbl) u) as Hp.
      destruct (logout_user _ u) as [s1 r]. cbn [fst w_st] in *.
      eapply micro_papi; [exact MQ | apply fire_due_papi|]. apply Q_teardown.
      eapply micro_papi; [exact MQ | exact Hp|]. apply Q_setup. exact H.
    - subst pl. cbn [step].
      pose proof (refresh_user_papi (set_tb (set_plan (set_evs (w_st w) []) []) tbl) u) as Hp.
      destruct (refresh_user _ u) as [s1 r]. cbn [fst w_st] in *.
      eapply micro_papi; [exact MQ | apply fire_due_papi|]. apply Q_teardown.
      eapply micro_papi; [exact MQ | exact Hp|]. apply Q_setup. exact H.
    - cbn [step fst w_st]. apply Hcfg. reflexivity.
  Qed.
End StepQ.

(* ------------------------------------------------------- instances *)

Lemma purge_conf s : cinv s -> conf (purge s) = conf s.
Proof. intro H. destruct (purge_spec s H) as [Hf _]. apply (fr_conf _ _ Hf). Qed.

Section CCStep.
  Variable B : list (key * nat) -> cfg -> Prop.
  Hypothesis MB : micro (cc B).
  Hypothesis Bnil : forall l c, B l c -> B [] c.

  Theorem step_cc w h :
    cc B (w_st w) -> ff_hop h -> (forall c, h = HSetCfg c -> B (cache (w_st w)) c) ->
    cc B (w_st (fst (step w h))).
  Proof.
    intros H Hff Hcfg. apply step_Q; try assumption.
    - intros s [[Hp _] _]. exact Hp.
    - intros s s' Hh Hc Hcf Hp [Hi HB]. split; [eapply cinv_sim; eassumption | rewrite Hc, Hcf; exact HB].
    - intros s [Hi HB]. split; [apply purge_cinv; exact Hi|].
      rewrite (purge_conf s Hi). destruct (purge_spec s Hi) as [_ [-> _]]. eapply Bnil; exact HB.
    - intros s s' [Hi HB] Hh Hcf Hp Hc. split; [|rewrite Hc, Hcf; eapply Bnil; exact HB].
      split; [exact Hp|]. split; [intros k o Hk; rewrite Hc in Hk; discriminate | rewrite Hc; constructor].
    - intros c ->. destruct H as [Hi HB]. split; [eapply cinv_sim; [| | |exact Hi]; reflexivity|].
      cbn. apply Hcfg. reflexivity.
  Qed.
End CCStep.

(* reachable states satisfy PA's standing assumptions (crashes allowed) *)
Lemma cinv_of_winv b D s : winv b D s -> cinv s.
Proof.
  intro W. destruct (winv_sessdefs _ _ _ W) as (Hp & Hc & [Hn _] & _). apply cinv_of_ok; assumption.
Qed.

Lemma reach_cinv c hs : Forall ff_hop hs -> cinv (w_st (reach c hs)).
Proof. intro Hff. destruct (reach_winv c hs Hff) as [b W]. eapply cinv_of_winv; exact W. Qed.
