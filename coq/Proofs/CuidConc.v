(* C19K, part 1: the cut of CUID into actions is faithful (one goroutine's
   seven actions, uninterrupted, are Model/Ids.v's cuid_step); list-update,
   measure, ghost-log and serial-reference lemmas. *)
From Sessions Require Import Model.Base Model.Ids Model.Mutex Model.CuidConc Gen.Consts
  Proofs.MutexBasics.
From Coq Require Import Lia.

(* ---- the cut ---- *)

(* compare; count; set; assemble on the generator state alone *)
Lemma cut_is_cuid_step (mac : bytes) (st : cuid_state) (c : Z) :
  let same := (ts_at c =? cs_last_time st)%N in
  let st1 := {| cs_last_time := cs_last_time st;
                cs_last_counter := if same then u64 (cs_last_counter st + 1) else lit 5 |} in
  let st2 := {| cs_last_time := ts_at c; cs_last_counter := cs_last_counter st1 |} in
  (st2, cuid_string (cuid_bits mac (ts_at c) (cs_last_counter st2))) = cuid_at mac st c.
Proof. reflexivity. Qed.

(* ---- list update ---- *)

Lemma upd_length {A} (l : list A) i x : length (upd i x l) = length l.
Proof. revert i; induction l as [|a l IH]; intros [|i]; simpl; auto. Qed.

Lemma nth_error_upd_same {A} (l : list A) i x y :
  nth_error l i = Some y -> nth_error (upd i x l) i = Some x.
Proof. intro H. rewrite (nth_error_upd _ _ _ _ _ H), Nat.eqb_refl. reflexivity. Qed.

Lemma nth_error_upd_other {A} (l : list A) i x j :
  i <> j -> nth_error (upd i x l) j = nth_error l j.
Proof.
  intro Hne. destruct (nth_error l i) as [y|] eqn:E.
  - rewrite (nth_error_upd _ _ _ _ _ E). apply Nat.eqb_neq in Hne. rewrite Hne. reflexivity.
  - rewrite (nth_error_upd_none _ _ _ E). reflexivity.
Qed.

Lemma upd_upd {A} (l : list A) i x y : upd i x (upd i y l) = upd i x l.
Proof. revert i; induction l as [|a l IH]; intros [|i]; simpl; try reflexivity. rewrite IH. reflexivity. Qed.

Lemma nth_error_repeat {A} (x : A) n i : i < n -> nth_error (repeat x n) i = Some x.
Proof. revert i; induction n as [|n IH]; intros [|i] H; simpl; try lia; [reflexivity | apply IH; lia]. Qed.

(* ---- the system-level cut: goroutine g alone, from a state with the mutex
   free, runs its script to the state cuid_step gives ---- *)

Lemma script_run (mac : bytes) (cs : cstate) (g : nat) :
  nth_error (k_ph cs) g = Some PIdle -> k_mutex cs = None ->
  let x := cuid_at mac (k_last cs) (k_clock cs) in
  crun false true mac cs (script false g) =
  Some (mkK None (fst x) (k_clock cs) (upd g (PDone (k_clock cs) (snd x)) (k_ph cs)) ((g, k_clock cs) :: k_log cs)).
Proof.
  intros Hg Hm. unfold script. cbn [app crun cstep].
  rewrite Hg, Hm.
  do 6 (cbn [crun cstep k_ph k_mutex k_last k_clock k_log set_ph];
        rewrite ?upd_upd, (nth_error_upd_same _ _ _ _ Hg)).
  cbn [crun cstep k_ph k_mutex k_last k_clock k_log set_ph]. rewrite ?upd_upd. reflexivity.
Qed.

(* ---- runs ---- *)

Section Any.
  Variables (narrow locked : bool) (mac : bytes).

  Lemma crun_app cs l1 l2 :
    crun narrow locked mac cs (l1 ++ l2) =
    match crun narrow locked mac cs l1 with Some cs' => crun narrow locked mac cs' l2 | None => None end.
  Proof.
    revert cs; induction l1 as [|l r IH]; intro cs; simpl; [reflexivity|].
    destruct (cstep narrow locked mac cs l); [apply IH | reflexivity].
  Qed.

  Lemma crun_snoc cs ls lab cs' :
    crun narrow locked mac cs (ls ++ [lab]) = Some cs' <->
    exists mid, crun narrow locked mac cs ls = Some mid /\ cstep narrow locked mac mid lab = Some cs'.
  Proof.
    rewrite crun_app. destruct (crun narrow locked mac cs ls) as [mid|].
    - simpl. destruct (cstep narrow locked mac mid lab) as [x|] eqn:E.
      + split; [intro H; exists mid; split; [reflexivity | congruence]|].
        intros (m & Hm & Hs). injection Hm as <-. congruence.
      + split; [discriminate|]. intros (m & Hm & Hs). injection Hm as <-. congruence.
    - split; [discriminate|]. intros (m & Hm & _). discriminate.
  Qed.

  (* every step keeps the number of goroutines *)
  Lemma cstep_length cs lab cs' :
    cstep narrow locked mac cs lab = Some cs' -> length (k_ph cs') = length (k_ph cs).
  Proof.
    destruct lab as [g|g|g|g|g|g|g|d]; cbn [cstep];
      try (destruct (nth_error (k_ph cs) g) as [p|]; [|discriminate]).
    - destruct narrow; destruct p; try discriminate; destruct locked; try destruct (k_mutex cs); try discriminate;
        intro H; injection H as <-; cbn [k_ph set_ph]; apply upd_length.
    - destruct p; try discriminate; destruct narrow; try discriminate;
        intro H; injection H as <-; cbn [k_ph set_ph]; apply upd_length.
    - destruct p; try discriminate. intro H; injection H as <-; cbn [k_ph set_ph]; apply upd_length.
    - destruct p; try discriminate. intro H; injection H as <-; cbn [k_ph set_ph]; apply upd_length.
    - destruct p; try discriminate. intro H; injection H as <-; cbn [k_ph set_ph]; apply upd_length.
    - destruct p; try discriminate. intro H; injection H as <-; cbn [k_ph set_ph]; apply upd_length.
    - destruct p; try discriminate. destruct locked; try destruct (k_mutex cs); try discriminate;
        intro H; injection H as <-; cbn [k_ph set_ph]; apply upd_length.
    - intro H; injection H as <-. reflexivity.
  Qed.

  (* the ghost log grows at CAsm only, by the goroutine named *)
  Lemma cstep_log cs lab cs' :
    cstep narrow locked mac cs lab = Some cs' ->
    map fst (k_log cs') = match lab with CAsm g => [g] | _ => [] end ++ map fst (k_log cs).
  Proof.
    destruct lab as [g|g|g|g|g|g|g|d]; cbn [cstep];
      try (destruct (nth_error (k_ph cs) g) as [p|]; [|discriminate]).
    - destruct narrow; destruct p; try discriminate; destruct locked; try destruct (k_mutex cs); try discriminate;
        intro H; injection H as <-; reflexivity.
    - destruct p; try discriminate; destruct narrow; try discriminate;
        intro H; injection H as <-; reflexivity.
    - destruct p; try discriminate. intro H; injection H as <-; reflexivity.
    - destruct p; try discriminate. intro H; injection H as <-; reflexivity.
    - destruct p; try discriminate. intro H; injection H as <-; reflexivity.
    - destruct p; try discriminate. intro H; injection H as <-; reflexivity.
    - destruct p; try discriminate. destruct locked; try destruct (k_mutex cs); try discriminate;
        intro H; injection H as <-; reflexivity.
    - intro H; injection H as <-. reflexivity.
  Qed.

  Lemma crun_log cs ls cs' :
    crun narrow locked mac cs ls = Some cs' ->
    map fst (k_log cs') = rev (asm_of ls) ++ map fst (k_log cs).
  Proof.
    revert cs; induction ls as [|lab r IH]; intros cs H; simpl in H.
    - injection H as <-. reflexivity.
    - destruct (cstep narrow locked mac cs lab) as [mid|] eqn:E; [|discriminate].
      rewrite (IH _ H), (cstep_log _ _ _ E).
      unfold asm_of. cbn [flat_map]. rewrite rev_app_distr, <- app_assoc.
      f_equal. destruct lab; reflexivity.
  Qed.

  Lemma crun_length cs ls cs' :
    crun narrow locked mac cs ls = Some cs' -> length (k_ph cs') = length (k_ph cs).
  Proof.
    revert cs; induction ls as [|lab r IH]; intros cs H; simpl in H.
    - injection H as <-. reflexivity.
    - destruct (cstep narrow locked mac cs lab) as [mid|] eqn:E; [|discriminate].
      rewrite (IH _ H). apply (cstep_length _ _ _ E).
  Qed.

  (* the clock never goes back *)
  Lemma cstep_clock cs lab cs' :
    cstep narrow locked mac cs lab = Some cs' ->
    k_clock cs' = match lab with CTick d => (k_clock cs + Z.of_N d)%Z | _ => k_clock cs end.
  Proof.
    destruct lab as [g|g|g|g|g|g|g|d]; cbn [cstep];
      try (destruct (nth_error (k_ph cs) g) as [p|]; [|discriminate]).
    - destruct narrow; destruct p; try discriminate; destruct locked; try destruct (k_mutex cs); try discriminate;
        intro H; injection H as <-; reflexivity.
    - destruct p; try discriminate; destruct narrow; try discriminate;
        intro H; injection H as <-; reflexivity.
    - destruct p; try discriminate. intro H; injection H as <-; reflexivity.
    - destruct p; try discriminate. intro H; injection H as <-; reflexivity.
    - destruct p; try discriminate. intro H; injection H as <-; reflexivity.
    - destruct p; try discriminate. intro H; injection H as <-; reflexivity.
    - destruct p; try discriminate. destruct locked; try destruct (k_mutex cs); try discriminate;
        intro H; injection H as <-; reflexivity.
    - intro H; injection H as <-. reflexivity.
  Qed.

  (* ---- the measure ---- *)

  Lemma weight_upd (l : list phase) g p q :
    nth_error l g = Some q ->
    (list_sum (map p_weight (upd g p l)) + p_weight q = list_sum (map p_weight l) + p_weight p)%nat.
  Proof.
    revert g; induction l as [|a l IH]; intros [|g] H; simpl in *; try discriminate.
    - injection H as ->. lia.
    - specialize (IH _ H). lia.
  Qed.

  Lemma cstep_measure cs lab cs' :
    cstep narrow locked mac cs lab = Some cs' ->
    if is_tick lab then cmeasure cs' = cmeasure cs else S (cmeasure cs') = cmeasure cs.
  Proof.
    unfold cmeasure.
    destruct lab as [g|g|g|g|g|g|g|d]; cbn [cstep is_tick];
      try (destruct (nth_error (k_ph cs) g) as [p|] eqn:Hp; [|discriminate]).
    - destruct narrow; destruct p; try discriminate; destruct locked; try destruct (k_mutex cs); try discriminate;
        intro H; injection H as <-; cbn [k_ph set_ph];
        match goal with |- context [upd g ?q _] => pose proof (weight_upd _ _ q _ Hp) as W end;
        cbn [p_weight] in W; lia.
    - destruct p; try discriminate; destruct narrow; try discriminate;
        intro H; injection H as <-; cbn [k_ph set_ph];
        match goal with |- context [upd g ?q _] => pose proof (weight_upd _ _ q _ Hp) as W end;
        cbn [p_weight] in W; lia.
    - destruct p; try discriminate. intro H; injection H as <-; cbn [k_ph set_ph];
        match goal with |- context [upd g ?q _] => pose proof (weight_upd _ _ q _ Hp) as W end;
        cbn [p_weight] in W; lia.
    - destruct p; try discriminate. intro H; injection H as <-; cbn [k_ph set_ph];
        match goal with |- context [upd g ?q _] => pose proof (weight_upd _ _ q _ Hp) as W end;
        cbn [p_weight] in W; lia.
    - destruct p; try discriminate. intro H; injection H as <-; cbn [k_ph set_ph];
        match goal with |- context [upd g ?q _] => pose proof (weight_upd _ _ q _ Hp) as W end;
        cbn [p_weight] in W; lia.
    - destruct p; try discriminate. intro H; injection H as <-; cbn [k_ph set_ph];
        match goal with |- context [upd g ?q _] => pose proof (weight_upd _ _ q _ Hp) as W end;
        cbn [p_weight] in W; lia.
    - destruct p; try discriminate. destruct locked; try destruct (k_mutex cs); try discriminate;
        intro H; injection H as <-; cbn [k_ph set_ph];
        match goal with |- context [upd g ?q _] => pose proof (weight_upd _ _ q _ Hp) as W end;
        cbn [p_weight] in W; lia.
    - intro H; injection H as <-. reflexivity.
  Qed.

  Lemma crun_measure cs ls cs' :
    crun narrow locked mac cs ls = Some cs' ->
    (length (filter (fun lab => negb (is_tick lab)) ls) + cmeasure cs' = cmeasure cs)%nat.
  Proof.
    revert cs; induction ls as [|lab r IH]; intros cs H; simpl in H.
    - injection H as <-. reflexivity.
    - destruct (cstep narrow locked mac cs lab) as [mid|] eqn:E; [|discriminate].
      specialize (IH _ H). pose proof (cstep_measure _ _ _ E) as M.
      simpl filter. destruct (is_tick lab); simpl; lia.
  Qed.

  (* ---- the serial reference ---- *)

  Lemma serial_log st0 log : map fst (snd (serial mac st0 log)) = log.
  Proof.
    induction log as [|[g c] t IH]; [reflexivity|].
    cbn [serial snd fst map]. rewrite IH. reflexivity.
  Qed.

  (* every reported ID is what cuid_step gives at that instant in some state *)
  Lemma serial_in st0 log g c id :
    In (g, c, id) (snd (serial mac st0 log)) -> exists st, id = snd (cuid_at mac st c).
  Proof.
    induction log as [|[g1 c1] t IH]; [intros []|].
    cbn [serial snd fst]. intros [E|H]; [|apply IH, H].
    injection E as _ <- <-. eexists. reflexivity.
  Qed.

  Lemma cuid_run_snoc st times t :
    cuid_run mac st (times ++ [t]) =
    cuid_run mac st times ++ [snd (cuid_step mac (cuid_run_state mac st times) (fst t) (snd t))].
  Proof.
    revert st; induction times as [|[sec nsec] r IH]; intro st.
    - destruct t as [sec nsec]. cbn [app cuid_run cuid_run_state fst snd].
      destruct (cuid_step mac st sec nsec); reflexivity.
    - cbn [app cuid_run cuid_run_state]. destruct (cuid_step mac st sec nsec) as [st' id] eqn:E.
      cbn [fst]. rewrite IH. reflexivity.
  Qed.

  Lemma cuid_run_state_snoc st times t :
    cuid_run_state mac st (times ++ [t]) =
    fst (cuid_step mac (cuid_run_state mac st times) (fst t) (snd t)).
  Proof.
    revert st; induction times as [|[sec nsec] r IH]; intro st.
    - destruct t as [sec nsec]. reflexivity.
    - cbn [app cuid_run_state]. apply IH.
  Qed.

  (* the serial reference is Model/Ids.v's run over the instants, oldest first *)
  Lemma serial_is_run st0 log :
    let times := map reading (rev (map snd log)) in
    fst (serial mac st0 log) = cuid_run_state mac st0 times /\
    map snd (rev (snd (serial mac st0 log))) = cuid_run mac st0 times.
  Proof.
    induction log as [|[g c] t [IH1 IH2]]; [split; reflexivity|].
    cbn [serial snd fst map rev]. rewrite !map_app. cbn [map].
    rewrite cuid_run_state_snoc, cuid_run_snoc, IH2, <- IH1. split; reflexivity.
  Qed.
End Any.

(* the model's small definitions, unfolded *)
Lemma state_meaning :
  (forall st0 c0 K, cinit st0 c0 K = mkK None st0 c0 (repeat PIdle K) []) /\
  (forall cs g c id, returned cs g c id <->
     nth_error (k_ph cs) g = Some (PRet c id) \/ nth_error (k_ph cs) g = Some (PDone c id)) /\
  (forall cs, all_done cs = forallb is_done (k_ph cs)) /\
  (forall p, held p = true <->
     p = PHeld \/ (exists c, p = PRead c) \/ (exists c s, p = PCmp c s) \/ (exists c, p = PCnt c) \/
     (exists c, p = PSet c) \/ (exists c id, p = PRet c id)) /\
  (forall ls, asm_of ls = flat_map (fun lab => match lab with CAsm g => [g] | _ => [] end) ls).
Proof.
  split; [reflexivity|]. split; [intros; apply iff_refl|]. split; [reflexivity|]. split; [|reflexivity].
  intro p. split.
  - destruct p; try discriminate; intros _; eauto 10.
  - intros [->|[[c ->]|[[c [s ->]]|[[c ->]|[[c ->]|[c [id ->]]]]]]]; reflexivity.
Qed.
