(* C11_ack: a call that reports success has written the session through to the
   store: after it the stored record under the session's ID is the codec image
   of the object in memory. For every fault plan: a failed save is never
   acknowledged. *)
From Sessions Require Import Model.Base Model.Sess Model.Hist Proofs.SessDefs Proofs.CrashFault
  Proofs.CrashFault2 Proofs.CrashFault3 Proofs.CrashFault4 Proofs.CrashFault5 Proofs.CrashFault6
  Proofs.CrashFault7 Proofs.CrashFault8 Proofs.CrashFault9.
From Coq Require Import Lia.

(* the store holds the object's current fields under its ID *)
Definition written (s : st) (o : nat) : Prop :=
  exists ob, hget s o = Some ob /\ lookup (store s) (o_id ob) = Some (codec (conf s) (o_rec ob)).

Lemma written_durable s o :
  written s o -> exists ob r, hget s o = Some ob /\ lookup (store s) (o_id ob) = Some r /\
                              durable r = durable (codec (conf s) (o_rec ob)).
Proof. intros (ob & A & B). exists ob, (codec (conf s) (o_rec ob)). auto. Qed.

Lemma cache_set_ack s o ob s' :
  hget s o = Some ob -> cache_set s o = (s', true) ->
  hget s' o = Some (touch s ob) /\ lookup (store s') (o_id ob) = Some (codec (conf s) (o_rec (touch s ob))) /\
  conf s' = conf s /\ written s' o.
Proof.
  intros Ho HS. pose proof (cache_set_heap _ _ _ _ _ Ho HS) as Hh.
  assert (Ho' : hget s' o = Some (touch s ob)).
  { rewrite (hget_eq _ _ _ Hh). apply hget_hput_same. eapply hget_Some_lt. exact Ho. }
  destruct (cache_set_quiet _ _ _ _ HS) as (l & X & _).
  apply cache_set_spec in HS. destruct HS as [(Hn & _)|(ob0 & Ho0 & HS)]; [congruence|].
  assert (ob0 = ob) by congruence. subst ob0. cbv zeta in HS.
  apply p_save_spec in HS. destruct HS as (_ & X4 & _ & Hst & _).
  set (s3 := if (_ =? 0)%Z then _ else _) in *.
  assert (Hcf : conf s3 = conf s).
  { rewrite <- (x_conf _ _ _ X), (x_conf _ _ _ X4). reflexivity. }
  assert (Hl : lookup (store s') (o_id ob) = Some (codec (conf s) (o_rec (touch s ob)))).
  { rewrite Hst, Hcf. apply lookup_upsert_same. }
  split; [exact Ho'|]. split; [exact Hl|]. split; [apply (x_conf _ _ _ X)|].
  exists (touch s ob). split; [exact Ho'|]. rewrite (x_conf _ _ _ X). exact Hl.
Qed.

Lemma save_direct_ack s o s' : save_direct s o = (s', Ok tt) -> written s' o /\ heap s' = heap s /\ cache s' = cache s.
Proof.
  unfold save_direct. destruct (hget s o) as [ob|] eqn:Ho; [|discriminate].
  destruct (p_save s (o_id ob) (o_rec ob)) as [s1 b] eqn:E. apply p_save_spec in E.
  destruct E as ((Hh & Hc & _) & X & _ & Hst & _). destruct b; [|discriminate]. intro H. injection H as <-.
  split; [|split; assumption]. exists ob. rewrite (hget_eq _ _ _ Hh). split; [exact Ho|].
  rewrite Hst, (x_conf _ _ _ X). apply lookup_upsert_same.
Qed.

(* Session.Set / Session.Delete *)
Theorem ack_set s o hc k v s' cks :
  do_sop s o hc (SSet k v) = (s', SOk, cks) ->
  written s' o /\ exists d, data_of s o = Some d /\ data_of s' o = Some (kv_set d k v).
Proof.
  simpl. destruct (data_of s o) as [d|] eqn:Ed; [|discriminate].
  destruct (save_direct _ o) as [s1 r1] eqn:ES. destruct r1 as [[]|e|e]; try discriminate.
  intro H. injection H as <- _. destruct (save_direct_ack _ _ _ ES) as (W & Hh & _).
  split; [exact W|]. exists d. split; [reflexivity|].
  unfold data_of in *. rewrite (hget_eq _ _ _ Hh). destruct (hget s o) as [ob|] eqn:Ho; [|discriminate].
  rewrite (hupd_spec _ _ _ _ Ho), hget_hput_same by (eapply hget_Some_lt; exact Ho). reflexivity.
Qed.

Theorem ack_del s o hc k s' cks :
  do_sop s o hc (SDel k) = (s', SOk, cks) ->
  written s' o /\ data_of s' o = option_map (fun d => kv_del d k) (data_of s o).
Proof.
  simpl. destruct (save_direct _ o) as [s1 r1] eqn:ES. destruct r1 as [[]|e|e]; try discriminate.
  intro H. injection H as <- _. destruct (save_direct_ack _ _ _ ES) as (W & Hh & _).
  split; [exact W|]. unfold data_of in *. rewrite (hget_eq _ _ _ Hh).
  destruct (hget s o) as [ob|] eqn:Ho.
  - destruct (r_data (o_rec ob)) as [d|] eqn:Ed.
    + rewrite (hupd_spec _ _ _ _ Ho), hget_hput_same by (eapply hget_Some_lt; exact Ho). reflexivity.
    + rewrite Ho, Ed. reflexivity.
  - rewrite Ho. reflexivity.
Qed.

(* Session.LogOut() *)
Theorem ack_logout s o hc s' cks :
  do_sop s o hc SLogOut = (s', SOk, cks) ->
  (exists ob, hget s' o = Some ob /\ r_user (o_rec ob) = None) /\ (s' = s \/ written s' o).
Proof.
  simpl. destruct (logout s o) as [s1 r1] eqn:EL. destruct r1 as [[]|e|e]; try discriminate.
  intro H. injection H as <- _. unfold logout in EL. destruct (hget s o) as [ob|] eqn:Ho; [|discriminate].
  destruct (r_user (o_rec ob)) eqn:Eu.
  - destruct (save_direct_ack _ _ _ EL) as (W & Hh & _). split; [|right; exact W].
    rewrite (hget_eq _ _ _ Hh), (hupd_spec _ _ _ _ Ho), hget_hput_same by (eapply hget_Some_lt; exact Ho).
    eexists. split; reflexivity.
  - injection EL as <-. split; [exists ob; auto | left; reflexivity].
Qed.

(* what fresh_ok gives about the next ID *)
Lemma fresh_nid s :
  fresh_ok s ->
  (forall k o, In (k, o) (cache s) -> k <> KGen (supply s)) /\
  (forall k r, lookup (store s) k = Some r -> k <> KGen (supply s)) /\
  (forall o ob, hget s o = Some ob -> o_id ob <> KGen (supply s)).
Proof.
  intros (F1 & F2 & F3 & _). split; [|split].
  - intros k o H. apply key_drawn_ne. eapply F1. exact H.
  - intros k r H. apply key_drawn_ne. apply lookup_In in H. apply (F2 _ _ H).
  - intros o ob H. apply key_drawn_ne. apply (F3 _ _ H).
Qed.

(* Session.RegenerateID *)
Theorem ack_regen s o hc ob s' cks :
  cache_ok s -> nodup_ok s -> fresh_ok s -> hget s o = Some ob ->
  do_sop s o hc SRegen = (s', SOk, cks) ->
  let nid := KGen (supply s) in
  written s' o /\ (exists ob', hget s' o = Some ob' /\ o_id ob' = nid) /\ cks = [CkLive nid] /\
  exists rr, lookup (store s') (o_id ob) = Some rr /\ r_ref rr = Some nid.
Proof.
  intros Hc [Hn _] Hf Ho. simpl. destruct (regenerate s o) as [[s1 r1] c1] eqn:ER.
  destruct r1 as [[]|e|e]; try discriminate. intro H. injection H as <- <-. set (nid := KGen (supply s)).
  destruct (cache_ok_cv _ Hc Hn) as [Hcv _]. destruct (fresh_nid _ Hf) as (F1 & _ & F3).
  destruct (regenerate_ack s o ob s1 c1 Hcv Ho ER) as (A & B & C & D0 & Hcf & _).
  - intros o' Hi. eapply F1; [exact Hi | reflexivity].
  - eapply F3. exact Ho.
  - split; [|split; [|split; [exact D0|]]].
    + eexists. split; [exact A|]. simpl. rewrite Hcf. exact B.
    + eexists. split; [exact A | reflexivity].
    + eexists. split; [exact C | reflexivity].
Qed.

(* Session.LogIn: whatever happened to the preliminary logout's save (its error
   is ignored in the non-exclusive mode), a LogIn that reports success has
   stored the session, with the user, under its new ID. *)
Theorem ack_login s o hc ob u ex s' cks :
  cache_ok s -> nodup_ok s -> fresh_ok s -> hget s o = Some ob ->
  do_sop s o hc (SLogIn u ex) = (s', SOk, cks) ->
  let nid := KGen (supply s) in
  written s' o /\ (exists ob', hget s' o = Some ob' /\ o_id ob' = nid /\ r_user (o_rec ob') = Some u) /\
  cks = [CkLive nid].
Proof.
  intros Hc [Hn _] Hf Ho. simpl. destruct (login s o u ex) as [[s1 r1] c1] eqn:EL.
  destruct r1 as [[]|e|e]; try discriminate. intro H. injection H as <- <-. set (nid := KGen (supply s)).
  destruct (cache_ok_cv _ Hc Hn) as [Hcv Hcok]. destruct (fresh_nid _ Hf) as (F1 & F2 & F3).
  set (K := not_key nid (fun _ _ => True)).
  assert (HJ : J K s).
  { split; [exact Hcv|]. split.
    - intros k o' ob' Hi _. split; [eapply F1; exact Hi | exact I].
    - intros k r Hl. split; [eapply F2; exact Hl | exact I]. }
  assert (Ht : tracked K s o (o_id ob)) by (apply tracked_init; [exact Ho | split; [eapply F3; exact Ho | exact I]]).
  destruct (login_pre K (fun _ _ _ H => H) (fun _ _ _ H => H) (fun _ _ _ H => H) _ _ _ _ _ _ _ _ HJ Hcok Ht EL)
    as (l0 & HQ0 & [(_ & [e E] & _)|(sC & obC & r2 & X0 & HJC & _ & _ & _ & HoC & HidC & HuC & _ & _ & _ & HR & Hres & _)]);
    [discriminate|].
  destruct r2 as [[]|e|e]; try discriminate.
  pose proof (supply_ext _ _ _ _ X0 HQ0) as Hsup.
  assert (Hnc : forall o', ~ In (KGen (supply sC), o') (cache sC)) by (rewrite Hsup; eapply J_not_key_uncached; exact HJC).
  assert (Hne : o_id obC <> KGen (supply sC)) by (rewrite Hsup, HidC; eapply F3; exact Ho).
  destruct (regenerate_ack sC o obC s1 c1 (proj1 HJC) HoC HR Hnc Hne) as (A & B & _ & D0 & Hcf & _).
  rewrite Hsup in A, B, D0. fold nid in A, B, D0.
  split; [|split; [|exact D0]].
  - eexists. split; [exact A|]. simpl. rewrite Hcf. exact B.
  - eexists. split; [exact A|]. split; [reflexivity | exact HuC].
Qed.

(* creation of a session by Start *)
Theorem ack_create s q s' o cks :
  create_session s q = (s', Ok (Some o), cks) ->
  written s' o /\ (exists ob, hget s' o = Some ob /\ o_id ob = KGen (supply s)) /\ cks = [CkLive (KGen (supply s))].
Proof.
  unfold create_session. cbn [gen_id]. unfold halloc. cbn [fst snd].
  match goal with |- context [cache_set ?a ?b] => destruct (cache_set a b) as [s1 b1] eqn:E; set (sa := a) in * end.
  destruct b1; simpl; [|discriminate]. intro H. injection H as <- <- <-.
  assert (Hn : hget sa (length (heap s)) = Some (mkObj (KGen (supply s)) (mkRec (now s) (now s) (q_addr q) (q_ua q) None None (Some [])))).
  { unfold sa, hget. simpl. rewrite nth_error_app2 by lia. rewrite Nat.sub_diag. reflexivity. }
  destruct (cache_set_ack _ _ _ _ Hn E) as (A & _ & _ & W).
  split; [exact W|]. split; [|reflexivity]. eexists. split; [exact A | reflexivity].
Qed.

(* Start: whenever Start hands out a session under an ID it drew in this very
   call (a created session, or an automatic rotation), the store already holds
   that session under that ID; only the bookkeeping of the request (access
   time, peer, agent) may be newer in memory. *)
Lemma durable_bookkeep cf r s q : durable (codec cf (bookkeep s q r)) = durable (codec cf r).
Proof. reflexivity. Qed.

Lemma start_none_ack s q cks0 s' o cks :
  start_none s q cks0 = (s', Ok (Some o), cks) -> written s' o.
Proof.
  unfold start_none. destruct (q_create q); [|discriminate].
  destruct (create_session s q) as [[s1 r1] c1] eqn:E. intro H. injection H as -> -> _.
  apply ack_create in E. apply E.
Qed.

Theorem ack_start s q s' o cks :
  cache_ok s -> nodup_ok s -> fresh_ok s ->
  start s q = (s', Ok (Some o), cks) -> supply s' <> supply s ->
  exists ob r, hget s' o = Some ob /\ lookup (store s') (o_id ob) = Some r /\
               durable r = durable (codec (conf s') (o_rec ob)).
Proof.
  intros Hc [Hn _] Hf HS Hsup. destruct (cache_ok_cv _ Hc Hn) as [Hcv Hcok].
  destruct (fresh_nid _ Hf) as (F1 & F2 & F3).
  rewrite start_unfold in HS.
  destruct (q_cookie q) as [|k|n]; try (apply written_durable; eapply start_none_ack; exact HS).
  destruct (cache_get s k) as [s1 g] eqn:EG.
  set (K := not_key (KGen (supply s)) (fun _ _ => True)).
  assert (HJ : J K s).
  { split; [exact Hcv|]. split.
    - intros k0 o' ob' Hi _. split; [eapply F1; exact Hi | exact I].
    - intros k0 r Hl. split; [eapply F2; exact Hl | exact I]. }
  destruct (cache_get_safe K (fun _ _ _ H => H) _ _ _ _ HJ EG) as (l0 & X0 & HQ0 & HJ1 & _ & _ & _ & Hn1 & _).
  destruct (cache_get_cok K (fun _ _ _ H => H) _ _ _ _ HJ Hcok EG) as (_ & Hg).
  pose proof (supply_ext _ _ _ _ X0 HQ0) as Hsup1.
  destruct g as [[o1|]|]; [|apply written_durable; eapply start_none_ack; exact HS | discriminate].
  destruct Hg as (ob & Ho & Hid & [Hne _]).
  unfold start_found in HS. rewrite Ho in HS.
  destruct (negb (rec_valid (conf s) (o_rec ob) q (now s1))).
  { destruct (destroy s1 o1 (had_cookie q)) as [[s2 r2] dck]. destruct r2 as [[]|e|e]; try discriminate.
    apply written_durable. eapply start_none_ack. exact HS. }
  (* the branches that draw nothing *)
  assert (Hnodraw : forall isref, start_finish s1 q k o1 isref [] = (s', Ok (Some o), cks) -> False).
  { intros isref H. apply Hsup. rewrite <- Hsup1.
    destruct (start_finish_load _ _ _ _ _ _ _ _ _ (proj1 HJ1) (Hn1 Hn) H) as (l & X & _).
    unfold start_finish in H. destruct isref.
    - destruct (follow (S (N.to_nat (supply s1))) s1 o1 k) as [s2 fr] eqn:EF.
      destruct (follow_load _ _ _ _ _ _ (proj1 HJ1) (Hn1 Hn) EF) as (l2 & X2 & C2 & _).
      destruct fr as [[o' lk']|e|e]; try discriminate. injection H as <- _ _.
      change (supply (hupd s2 o' _)) with (supply (hupd s2 o' (bookkeep s2 q))).
      rewrite (x_supply _ _ _ (ext_hupd s2 o' (bookkeep s2 q))), (x_supply _ _ _ X2).
      rewrite (count_draws_none l2); [change (count_draws []) with 0%N; lia|]. eapply Forall_impl; [|exact C2]. intros e He. apply He.
    - injection H as <- _ _. change (supply (hupd s1 o1 _)) with (supply (hupd s1 o1 (bookkeep s1 q))).
      rewrite (x_supply _ _ _ (ext_hupd s1 o1 (bookkeep s1 q))). change (count_draws []) with 0%N. lia. }
  destruct (is_ref (o_rec ob)) eqn:Eref; cbn [negb andb] in HS.
  - destruct (sat_add _ _ <=? _)%Z; [destruct (cache_delete s1 k) as [s2 b]; discriminate|].
    exfalso. eapply Hnodraw. exact HS.
  - destruct (c_idexpiry (conf s) <=? _)%Z.
    + destruct (regenerate s1 o1) as [[s2 r2] rck] eqn:ER. destruct r2 as [[]|e|e]; try discriminate.
      unfold start_finish in HS. injection HS as <- <- _.
      assert (Hnc : forall o', ~ In (KGen (supply s1), o') (cache s1)) by (rewrite Hsup1; eapply J_not_key_uncached; exact HJ1).
      assert (Hne1 : o_id ob <> KGen (supply s1)) by (rewrite Hsup1, Hid; exact Hne).
      destruct (regenerate_ack s1 o1 ob s2 rck (proj1 HJ1) Ho ER Hnc Hne1) as (A & B & _ & _ & Hcf & _).
      rewrite (hupd_spec _ _ _ _ A). eexists. eexists.
      split; [apply hget_hput_same; eapply hget_Some_lt; exact A|]. split; [exact B|].
      simpl. rewrite Hcf. reflexivity.
    + destruct (sat_add _ _ <=? _)%Z; [destruct (cache_delete s1 k) as [s2 b]; discriminate|].
      exfalso. eapply Hnodraw. exact HS.
Qed.
