(* Bridge Sess.codec <-> Model/Codec.v, part 4: the limits of the agreement.
   Sess.codec treats data values as opaque and says they come back unchanged.
   That is what the codec model proves of gob for every value, and of JSON for
   the values of the class jstable (Model/CodecBridge.v) - and only "up to the
   documented conversions" (C17: jnorm / reparse) outside it: a Go int comes
   back as a float64, a string that is not UTF-8 comes back coerced. So C01's
   and C09's "exactly the data last written" reads, behind a JSON store,
   "exactly, for JSON-stable values; converted as C17 says, otherwise".
   Statements: Properties/C09B.v. *)
From Coq Require Import Lia ZifyBool ZifyNat ZifyN.
From Sessions Require Import Model.Base Model.Codec Model.JsonLib Model.Rfc3339 Model.GobWire Model.CodecBridge
  Gen.Layout Proofs.BaseLemmas Proofs.CodecText Proofs.CodecDefs Proofs.CodecLaws Proofs.CodecLaws2
  Proofs.CodecLaws4 Proofs.CodecBridge Proofs.CodecBridge2.
From Sessions Require Model.Sess.
Local Open Scope N_scope.

Lemma jstable_DList l : jstable (DList l) = forallb jstable l.
Proof.
  cbn [jstable]. induction l as [|x t IH]; [reflexivity|]. cbn [forallb]. rewrite <- IH. reflexivity.
Qed.

Lemma jstable_DMap m : jstable (DMap m) = jstable_map m.
Proof.
  cbn [jstable]. unfold jstable_map. induction m as [|kv t IH]; [reflexivity|].
  cbn [forallb]. rewrite <- IH. reflexivity.
Qed.

Section Stable.
  Variable jstr : bytes -> bytes.
  Hypothesis jstr_ascii : forall s, all_ascii s = true -> jstr s = s.

  (* the positive side: a JSON-stable value comes back as it was *)
  Lemma reparse_stable (d : dval) : jstable d = true -> reparse jstr d = Some d.
  Proof.
    induction d as [| b | z | b | s | l IHl | m IHm] using dval_ind'; intro H;
      try reflexivity; try discriminate H.
    - cbn in *. rewrite H. reflexivity.
    - cbn in *. rewrite jstr_ascii by exact H. reflexivity.
    - rewrite jstable_DList in H. rewrite reparse_DList.
      match goal with |- match ?f l with _ => _ end = _ => assert (E : f l = Some l) end.
      { induction l as [|x t IHt]; [reflexivity|].
        cbn [forallb] in H. apply andb_true_iff in H as [Hx Ht].
        inversion IHl as [|? ? Px Pt]; subst.
        rewrite (Px Hx), (IHt Pt Ht). reflexivity. }
      rewrite E. reflexivity.
    - rewrite jstable_DMap in H. rewrite reparse_DMap.
      assert (E : reparse_map jstr m = Some m).
      { induction m as [|[k x] t IHt]; [reflexivity|].
        unfold jstable_map in H. cbn [forallb fst snd] in H.
        apply andb_true_iff in H as [Hx Ht]. apply andb_true_iff in Hx as [Hk Hx].
        inversion IHm as [|? ? Px Pt]; subst. cbn [snd] in Px.
        cbn [reparse_map]. rewrite (Px Hx), (IHt Pt Ht), (jstr_ascii _ Hk). reflexivity. }
      rewrite E. reflexivity.
  Qed.

  Lemma reparse_map_stable (m : list (bytes * dval)) : jstable_map m = true -> reparse_map jstr m = Some m.
  Proof.
    intro H. rewrite <- jstable_DMap in H. apply reparse_stable in H.
    rewrite reparse_DMap in H. destruct (reparse_map jstr m); congruence.
  Qed.

  (* the negative side: an int never comes back as an int *)
  Lemma reparse_int (z : Z) : reparse jstr (DInt z) = Some (DFloat (f64_of_Z z)).
  Proof. reflexivity. Qed.

  Lemma reparse_map_in (m m' : list (bytes * dval)) (k : bytes) (v v' : dval) :
    reparse_map jstr m = Some m' -> In (k, v) m -> reparse jstr v = Some v' -> In (jstr k, v') m'.
  Proof.
    revert m'. induction m as [|[k0 x] t IH]; intros m' Hm Hin Hv; [destruct Hin|].
    cbn [reparse_map] in Hm.
    destruct (reparse jstr x) as [x'|] eqn:Ex; [|discriminate Hm].
    destruct (reparse_map jstr t) as [t'|] eqn:Et; [|discriminate Hm].
    inversion Hm; subst m'. destruct Hin as [Heq | Hin].
    - inversion Heq; subst. left. congruence.
    - right. apply (IH t' eq_refl Hin Hv).
  Qed.

  (* what jnorm makes of the data *)
  Lemma jnorm_data (load : loader) (s s' : csess) :
    jnorm load jstr s = Ok s' ->
    exists m', reparse_map jstr (data_or_empty (cs_data s)) = Some m' /\ cs_data s' = Some m'.
  Proof.
    unfold jnorm. destruct (reparse_map jstr (data_or_empty (cs_data s))) as [m'|]; [|discriminate].
    intro H. exists m'. split; [reflexivity|].
    destruct (cs_user s) as [u|].
    - destruct (reparse jstr (u_id u)); [|discriminate H].
      destruct (load d) as [u'|]; [|discriminate H]. inversion H. reflexivity.
    - inversion H. reflexivity.
  Qed.
End Stable.

(* Any session, any library satisfying C17's hypotheses: an integer stored as
   a data value is a float64 after MarshalJSON/UnmarshalJSON - not what was
   written. (The clause of C17: "numbers come back as float64".) *)
Lemma json_int_becomes_float load fmt_time parse_time jstr (s s' : csess) (k : bytes) (z : Z) :
  json_da_null_ok = true -> json_lib_ok fmt_time parse_time jstr -> json_dom s = true ->
  json_roundtrip load fmt_time parse_time jstr json_enc json_dec s = Ok s' ->
  In (k, DInt z) (data_or_empty (cs_data s)) ->
  In (jstr k, DFloat (f64_of_Z z)) (data_or_empty (cs_data s')).
Proof.
  intros Hok Hlib Hd Hrt Hin.
  rewrite (json_roundtrip_thm Hok load _ _ _ Hlib s Hd) in Hrt.
  destruct (jnorm_data jstr load s s' Hrt) as [m' [Hm Hs']].
  rewrite Hs'. cbn [data_or_empty].
  exact (reparse_map_in jstr _ _ k (DInt z) _ Hm Hin (reparse_int jstr z)).
Qed.

(* ... whereas a session whose data is JSON-stable gets its data back exactly
   (nil as the empty map) *)
Lemma json_stable_data_kept load fmt_time parse_time jstr (s s' : csess) :
  json_da_null_ok = true -> json_lib_ok fmt_time parse_time jstr -> json_dom s = true ->
  jstable_map (data_or_empty (cs_data s)) = true ->
  json_roundtrip load fmt_time parse_time jstr json_enc json_dec s = Ok s' ->
  cs_data s' = Some (data_or_empty (cs_data s)).
Proof.
  intros Hok Hlib Hd Hst Hrt.
  rewrite (json_roundtrip_thm Hok load _ _ _ Hlib s Hd) in Hrt.
  destruct (jnorm_data jstr load s s' Hrt) as [m' [Hm Hs']].
  destruct Hlib as [H1 _]. rewrite (reparse_map_stable jstr H1 _ Hst) in Hm. congruence.
Qed.

(* gob keeps every data map, whatever the values *)
Lemma gob_data_kept load (s s' : csess) :
  gob_dom s = true ->
  gob_roundtrip load gob_version gob_enc gob_dec s = Ok s' ->
  cs_data s' = Some (data_or_empty (cs_data s)).
Proof.
  intros Hd Hrt. rewrite (gob_roundtrip_lemma load s Hd) in Hrt.
  unfold gob_norm in Hrt. destruct (cs_user s) as [u|].
  - destruct (load (u_id u)) as [u'|]; [|discriminate Hrt]. inversion Hrt. reflexivity.
  - inversion Hrt. reflexivity.
Qed.

(* the embedded records are in the stable class *)
Lemma emb_data_stable (d : list (N * N)) : jstable_map (emb_data d) = true.
Proof.
  induction d as [|[k v] t IH]; [reflexivity|].
  unfold jstable_map, emb_data in *. cbn [map emb_kv forallb fst snd jstable].
  rewrite !dec_ascii, IH. reflexivity.
Qed.

(* Witnesses, down to the byte string (concrete libraries of C17I): the session
   of ex_rec with the integer 10 under data key "1", and with the one-byte
   string 0xFF there. gob hands both back as written; JSON hands back the
   float64 10.0 and U+FFFD, which are no values of the session model (the
   projection fails). *)
Lemma bridge_json_int_refuted :
  json_dom ex_int_sess = true /\ sess_num_wf ex_int_sess = true /\
  (exists g, decode_encode (ex_cfg false) ex_int_sess = Ok g /\ cs_data g = cs_data ex_int_sess) /\
  (exists j, decode_encode (ex_cfg true) ex_int_sess = Ok j /\
             cs_data j = Some [(dec 1, DFloat (f64_of_Z 10))] /\ cs_data j <> cs_data ex_int_sess /\
             proj_rec j = None).
Proof.
  split; [vm_compute; reflexivity|]. split; [vm_compute; reflexivity|]. split.
  - eexists. split; [vm_compute; reflexivity|]. vm_compute. reflexivity.
  - eexists. split; [vm_compute; reflexivity|]. split; [vm_compute; reflexivity|].
    split; [vm_compute; discriminate | vm_compute; reflexivity].
Qed.

Lemma bridge_json_utf8_refuted :
  json_dom ex_bad_utf8_sess = true /\ sess_num_wf ex_bad_utf8_sess = true /\
  (exists g, decode_encode (ex_cfg false) ex_bad_utf8_sess = Ok g /\ cs_data g = cs_data ex_bad_utf8_sess) /\
  (exists j, decode_encode (ex_cfg true) ex_bad_utf8_sess = Ok j /\
             cs_data j = Some [(dec 1, DStr [239; 191; 189])] /\ cs_data j <> cs_data ex_bad_utf8_sess).
Proof.
  split; [vm_compute; reflexivity|]. split; [vm_compute; reflexivity|]. split.
  - eexists. split; [vm_compute; reflexivity|]. vm_compute. reflexivity.
  - eexists. split; [vm_compute; reflexivity|]. split; [vm_compute; reflexivity|].
    vm_compute; discriminate.
Qed.

(* Everything an embedded record holds lies in the classes on which both
   codecs are exact: UTC instants (time's binary form restores the offset),
   ASCII strings, a string as user ID, JSON-stable data, no numbers at all. *)
Lemma emb_rec_stable (r : Sess.rec) :
  gob_dom (emb_rec r) = true /\ sess_num_wf (emb_rec r) = true /\
  all_ascii (cs_ip (emb_rec r)) = true /\ all_ascii (cs_ref (emb_rec r)) = true /\
  jstable_map (data_or_empty (cs_data (emb_rec r))) = true /\
  match cs_user (emb_rec r) with Some u => jstable (u_id u) = true | None => True end.
Proof.
  split; [reflexivity|]. split; [apply emb_rec_num_wf|].
  split; [apply addr_txt_ascii|]. split; [apply ref_txt_ascii|]. split.
  - unfold emb_rec. cbn [cs_data]. destruct (Sess.r_data r) as [d|]; [apply emb_data_stable | reflexivity].
  - unfold emb_rec. cbn [cs_user]. destruct (Sess.r_user r) as [[u v]|]; [|exact I].
    cbn [option_map emb_user u_id fst emb_uid jstable]. apply dec_ascii.
Qed.

(* decode_encode is decode_encode_with for the loader of Sess.codec *)
Lemma decode_encode_with_bridge (c : Sess.cfg) (s : csess) :
  decode_encode_with bridge_load c s = decode_encode c s.
Proof. reflexivity. Qed.

(* the premise of the JSON theorems is the closed boolean of C17 *)
Lemma da_null_ok_now_eq : da_null_ok_now = json_da_null_ok.
Proof. reflexivity. Qed.

(* Integer user IDs (the kind C16 names) are outside the bridge. Witness, down
   to the byte string: the session of ex_rec logged in as the user whose ID is
   the Go int 7. Behind gob LoadUser is handed DInt 7 - a loader that knows
   exactly that ID finds the user. Behind JSON LoadUser is handed the float64
   7.0: the same loader fails and the record cannot be decoded; a loader that
   accepts anything attaches a user whose ID is the float, not the int. Under
   neither codec is the result a record of the session model. *)
Lemma bridge_json_int_user_refuted :
  json_dom ex_int_user_sess = true /\ sess_num_wf ex_int_user_sess = true /\
  (exists g, decode_encode_with int7_load (ex_cfg false) ex_int_user_sess = Ok g /\
             cs_user g = Some (mkUser (DInt 7) 0)) /\
  decode_encode_with int7_load (ex_cfg true) ex_int_user_sess = Err /\
  (exists j, decode_encode_with echo_load (ex_cfg true) ex_int_user_sess = Ok j /\
             cs_user j = Some (mkUser (DFloat (f64_of_Z 7)) 0) /\
             DFloat (f64_of_Z 7) <> DInt 7 /\ proj_rec j = None).
Proof.
  split; [vm_compute; reflexivity|]. split; [vm_compute; reflexivity|]. split.
  - eexists. split; vm_compute; reflexivity.
  - split; [vm_compute; reflexivity|].
    eexists. split; [vm_compute; reflexivity|]. split; [vm_compute; reflexivity|].
    split; [discriminate | vm_compute; reflexivity].
Qed.

(* The same in general, for every library satisfying C17's hypotheses: under
   JSON LoadUser is called with float64(z), never with the int z - a loader
   that does not know the float makes the decoder fail. *)
Lemma json_int_user_reaches_loader_as_float load fmt_time parse_time jstr (s : csess) (z : Z) (tag : N) :
  json_da_null_ok = true -> json_lib_ok fmt_time parse_time jstr -> json_dom s = true ->
  cs_user s = Some (mkUser (DInt z) tag) ->
  load (DFloat (f64_of_Z z)) = None ->
  json_roundtrip load fmt_time parse_time jstr json_enc json_dec s = Err.
Proof.
  intros Hok Hlib Hd Hu Hl.
  rewrite (json_roundtrip_thm Hok load _ _ _ Hlib s Hd).
  unfold jnorm. destruct (reparse_map jstr (data_or_empty (cs_data s))); [|reflexivity].
  rewrite Hu. cbn [u_id reparse]. rewrite Hl. reflexivity.
Qed.
