(* Non-vacuity of the history-level theorems of HistLift*.v: one concrete
   history (a session is created, its ID is changed by RegenerateID, a second
   browser tab still presents the replaced ID, the ID is changed again by LogIn,
   the first replaced ID is presented again, and after the grace period it is
   gone) on which the hypotheses of each theorem hold and the conclusions are
   read off by computation. *)
From Sessions Require Import Model.Base Model.Sess Model.Hist Proofs.SessDefs
  Proofs.HistInv Proofs.HistInv2 Proofs.HistInv3 Proofs.HistLift Proofs.HistLift2 Proofs.HistLift3
  Proofs.HistLift4 Proofs.HistLift5 Proofs.HistLift6 Proofs.HistLift7 Proofs.HistLift8.
From Sessions Require Proofs.RotateLaws3.
From Coq Require Import Lia.

Definition cX : cfg := mkCfg 1000000000000 1000000000000 5000000000 max64 10 1 true false.

Definition rqX (c : N) (p : present) (cr : bool) (sc : list sop) : reqstep :=
  mkReqStep c p cr (V4 1 2 3 4 5) 7 sc [] [] None.

Definition h1 := HReq (rqX 1 PJar true [SSet 1 2]).                      (* creates KGen 0 *)
Definition h2 := HReq (rqX 1 PJar false [SRegen]).                       (* KGen 0 -> KGen 1 *)
Definition h3 := HWait 1000000000.
Definition h4 := HReq (rqX 2 (PForge (CKey (KGen 0))) false []).         (* the replaced ID, redirected *)
Definition h5 := HReq (rqX 1 PJar false [SLogIn (7, 1)%N false]).        (* KGen 1 -> KGen 2 *)
Definition h6 := HReq (rqX 2 (PForge (CKey (KGen 0))) false [SGet 1]).   (* two hops *)
Definition h7 := HWait 10000000000.
Definition h8 := HReq (rqX 2 (PForge (CKey (KGen 0))) false []).         (* after the grace period *)

Definition hX : list hop := [h1; h2; h3; h4; h5; h6; h7; h8].

Lemma hX_ff : Forall ff_hop hX.
Proof. repeat constructor. Qed.
Lemma hX_cf : Forall crash_free hX.
Proof. repeat constructor. Qed.

(* what the history shows *)
Example hX_run :
  map (fun o => (ob_res o, ob_cookies o, option_map fst (ob_final o), ob_drawn o)) (run cX hX) =
  [(RSess, [CkLive (KGen 0)], Some (KGen 0), 1%N);
   (RSess, [CkLive (KGen 1)], Some (KGen 1), 2%N);
   (RVoid, [], None, 2%N);
   (RSess, [CkLive (KGen 1)], Some (KGen 1), 2%N);
   (RSess, [CkLive (KGen 2)], Some (KGen 2), 3%N);
   (RSess, [CkLive (KGen 2)], Some (KGen 2), 3%N);
   (RVoid, [], None, 3%N);
   (RNone, [CkDelete], None, 3%N)].
Proof. vm_compute. reflexivity. Qed.

(* Task 1: the invariant and its consequences hold along hX; references are
   followed in steps 4 and 6 *)
Example ref_wf_ex : RotateLaws4.ref_wf (w_st (reach cX hX)) /\ Forall obs_c05 (run cX hX).
Proof. split; [apply ref_wf_hist | apply never_placeholder_hist]; (exact hX_ff || exact hX_cf). Qed.

(* Task 2: the LogIn step (5th): the last live cookie, the jar and the final ID agree *)
Example c18_ex :
  let w := reach cX [h1; h2; h3; h4] in
  let o := snd (step w h5) in
  ob_res o = RSess /\ option_map fst (ob_final o) = Some (KGen 2) /\
  lastl None (ob_cookies o) = Some (KGen 2) /\ ob_jar o = CKey (KGen 2) /\
  ~ In SDestroy (firstn (length (ob_script o)) [SLogIn (7, 1)%N false]) /\
  option_map r_ref (L (w_st (fst (step w h5))) (KGen 2)) = Some None.
Proof. vm_compute. repeat split; try reflexivity. intros [H|[]]. discriminate. Qed.

(* ... and the hypotheses of step_silent hold for a request presenting the
   current ID with a script that only reads *)
Example silent_ex :
  let w := reach cX [h1] in
  let r := rqX 1 PJar false [SGet 1] in
  RotateLaws3.cfg_ok (conf (w_st w)) /\ presents w r = CKey (KGen 0) /\
  (exists rk, L (w_st w) (KGen 0) = Some rk /\ r_ref rk = None /\
     RotateLaws3.valid_for (conf (w_st w)) rk (now (w_st w)) (req_of w r) = true /\
     (since (r_created rk) (now (w_st w)) < c_idexpiry (conf (w_st w)))%Z) /\
  forallb calm_op (rq_script r) = true /\
  ob_cookies (snd (step w (HReq r))) = [].
Proof.
  cbv zeta. split; [split; vm_compute; discriminate|]. split; [vm_compute; reflexivity|].
  split; [|split; vm_compute; reflexivity].
  eexists. split; [vm_compute; reflexivity|]. split; [reflexivity|]. split; vm_compute; reflexivity.
Qed.

(* Task 3: after the RegenerateID step the replaced ID is a reference whose
   clean-up is queued for the time of the step plus the grace period *)
Example origin_ex :
  let w := reach cX [h1] in
  sref (w_st w) (KGen 0) = Some None /\
  sref (w_st (fst (step w h2))) (KGen 0) = Some (Some (KGen 1)) /\
  In ((now (w_st w) + c_grace (conf (w_st w)))%Z, KGen 0) (pending (w_st (fst (step w h2)))).
Proof. vm_compute. repeat split. left. reflexivity. Qed.

(* the record is kept through h3 .. h6 (clock below the due instant, the
   presentations of KGen 0 are not refused) *)
Example kept_ex :
  let w := reach cX [h1; h2] in
  sref (w_st w) (KGen 0) = Some (Some (KGen 1)) /\ In (5000000000%Z, KGen 0) (pending (w_st w)) /\
  hist_ok (kept_hop (KGen 0) 5000000000) w [h3; h4; h5; h6].
Proof.
  cbv zeta. split; [vm_compute; reflexivity|]. split; [vm_compute; left; reflexivity|].
  cbn [hist_ok]. repeat split; try exact Logic.I; try (vm_compute; reflexivity);
    try (intros _; split; vm_compute; [intros [H|[]]; discriminate | discriminate]);
    try (intro H; vm_compute in H; discriminate);
    try (vm_compute; intros [H'|[]]; discriminate); try (vm_compute; discriminate).
Qed.

(* the grace window from the state in which KGen 0 is a session's ID: two ID
   changes (RegenerateID, LogIn), one wait, two redirected presentations *)
Example window_ex :
  let w := reach cX [h1] in
  sref (w_st w) (KGen 0) = Some None /\ (0 < c_grace (conf (w_st w)))%Z /\
  hist_ok (live_hop (KGen 0) (now (w_st w)) (c_grace (conf (w_st w)))) w [h2; h3; h4; h5; h6] /\
  schain (w_st (after w [h2; h3; h4; h5; h6])) (KGen 0) [KGen 1; KGen 2].
Proof.
  cbv zeta. split; [vm_compute; reflexivity|]. split; [vm_compute; reflexivity|]. split.
  - vm_compute. repeat split; try discriminate; try (intros [H|[]]; discriminate); try (intros []).
  - vm_compute. repeat split.
Qed.

(* once the clock has passed the due instant the replaced ID is gone *)
Example dead_ex :
  let w := reach cX [h1; h2] in
  In (5000000000%Z, KGen 0) (pending (w_st w)) /\ hist_ok norestart_hop w [h3; h4; h5; h6] /\
  (5000000000 <= now (w_st (after w [h3; h4; h5; h6])) + 10000000000)%Z /\
  L (w_st (fst (step (after w [h3; h4; h5; h6]) h7))) (KGen 0) = None.
Proof.
  cbv zeta. split; [vm_compute; left; reflexivity|]. split.
  - cbn [hist_ok]. repeat split; try exact Logic.I; unfold h3, h4, h5, h6; discriminate.
  - split; [vm_compute; discriminate | vm_compute; reflexivity].
Qed.

(* Task 4: draws against live cookies: the LogIn step draws KGen 2 and announces
   it; the redirected step announces KGen 2 (old by then) and draws nothing *)
Example draws_ex :
  let w := reach cX [h1; h2; h3; h4] in
  dlist (ob_evs (snd (step w h5))) = [2%N] /\
  flv (supply (w_st w)) (ob_cookies (snd (step w h5))) = [2%N] /\
  let w' := fst (step w h5) in
  dlist (ob_evs (snd (step w' h6))) = [] /\ ob_cookies (snd (step w' h6)) = [CkLive (KGen 2)] /\
  flv (supply (w_st w')) (ob_cookies (snd (step w' h6))) = [].
Proof. vm_compute. repeat split. Qed.
