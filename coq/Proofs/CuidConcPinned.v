(* C19K: the position of CUID's clock read and shared accesses relative to
   lastMutex (Gen/CuidPos.v, translator/cuid_pos.go), pinned to the copy
   Model/CuidConc.v was written against, and what the table says. *)
From Coq Require Import List String Bool Arith.
From Sessions Require Import Gen.CuidPos.
Import ListNotations.
Local Open Scope string_scope.

Definition cev := (nat * string * string)%type.
Definition depth_of (e : cev) : nat := fst (fst e).
Definition kind_of (e : cev) : string := snd (fst e).

Definition cuid_events_v1 : list cev := [
  (0, "lock", "lastMutex.Lock()");
  (0, "defer unlock", "lastMutex.Unlock()");
  (0, "clock", "time.Now()");
  (0, "call", "uint64");
  (0, "call", "now.Unix");
  (0, "call", "uint64");
  (0, "call", "now.Nanosecond");
  (0, "read", "lastTime");
  (1, "incdec", "lastCounter++");
  (1, "write", "lastCounter");
  (0, "write", "lastTime");
  (0, "call", "uint64");
  (0, "read", "lastCounter");
  (0, "read", "macAddress");
  (1, "call", "uint16");
  (0, "read", "lastCounter");
  (1, "call", "uint16");
  (0, "call", "uint64");
  (0, "call", "uint64");
  (0, "call", "len");
  (1, "call", "string");
  (0, "return", "base64")].

Lemma cuid_events_eq_v1 : cuid_events = cuid_events_v1.
Proof. reflexivity. Qed.

(* the events other than plain calls and conversions *)
Definition critical (evs : list cev) : list cev :=
  filter (fun e => negb (String.eqb (kind_of e) "call")) evs.

(* the model's actions in order: CAcq (and the defer that becomes CRel at the
   return); CNow; CCmp; CCnt (either branch); CSet; CAsm (lastCounter, macAddress,
   lastCounter); return = CRel *)
Lemma cuid_critical_order :
  critical cuid_events =
  [(0, "lock", "lastMutex.Lock()"); (0, "defer unlock", "lastMutex.Unlock()");
   (0, "clock", "time.Now()");
   (0, "read", "lastTime");
   (1, "incdec", "lastCounter++"); (1, "write", "lastCounter");
   (0, "write", "lastTime");
   (0, "read", "lastCounter"); (0, "read", "macAddress"); (0, "read", "lastCounter");
   (0, "return", "base64")].
Proof. vm_compute. reflexivity. Qed.

(* an event that neither touches the mutex nor moves code out of the calling
   goroutine or past the return *)
Definition inert (e : cev) : bool :=
  negb (existsb (String.eqb (kind_of e))
          ["lock"; "unlock"; "mutex"; "defer lock"; "defer unlock"; "defer mutex";
           "defer clock"; "defer call"; "go"; "funclit"; "addr"]).

(* The body begins, at depth 0, with lastMutex.Lock() and the deferred
   lastMutex.Unlock(); nothing after them touches the mutex, takes an address
   of a shared variable, defers, starts a goroutine or builds a closure; and
   the clock is read after them, outside any branch or loop. So time.Now() and
   every access to lastTime/lastCounter are made while lastMutex is held. *)
Definition clock_under_lock (evs : list cev) : Prop :=
  exists rest,
    evs = (0, "lock", "lastMutex.Lock()") :: (0, "defer unlock", "lastMutex.Unlock()") :: rest /\
    Forall (fun e => inert e = true) rest /\
    Exists (fun e => kind_of e = "clock") rest /\
    Forall (fun e => kind_of e = "clock" -> depth_of e = 0) rest.

Definition cev_eqb (a b : cev) : bool :=
  Nat.eqb (depth_of a) (depth_of b) && String.eqb (kind_of a) (kind_of b) && String.eqb (snd a) (snd b).

Definition clock_under_lockb (evs : list cev) : bool :=
  match evs with
  | a :: b :: rest =>
    cev_eqb a (0, "lock", "lastMutex.Lock()") && cev_eqb b (0, "defer unlock", "lastMutex.Unlock()") &&
    forallb inert rest && existsb (fun e => String.eqb (kind_of e) "clock") rest &&
    forallb (fun e => negb (String.eqb (kind_of e) "clock") || Nat.eqb (depth_of e) 0) rest
  | _ => false
  end.

Lemma cev_eqb_eq a b : cev_eqb a b = true -> a = b.
Proof.
  destruct a as [[d k] t], b as [[d' k'] t']. unfold cev_eqb, depth_of, kind_of. cbn [fst snd].
  rewrite !andb_true_iff. intros [[H1 H2] H3].
  apply Nat.eqb_eq in H1. apply String.eqb_eq in H2. apply String.eqb_eq in H3. congruence.
Qed.

Lemma clock_under_lockb_sound evs : clock_under_lockb evs = true -> clock_under_lock evs.
Proof.
  destruct evs as [|a [|b rest]]; try discriminate. cbn [clock_under_lockb].
  rewrite !andb_true_iff. intros [[[[Ha Hb] Hi] He] Hd].
  apply cev_eqb_eq in Ha. apply cev_eqb_eq in Hb. subst a b. exists rest.
  split; [reflexivity|]. split; [|split].
  - apply Forall_forall. rewrite forallb_forall in Hi. exact Hi.
  - apply Exists_exists. apply existsb_exists in He. destruct He as (e & Hin & E).
    exists e. split; [exact Hin | apply String.eqb_eq, E].
  - apply Forall_forall. rewrite forallb_forall in Hd. intros e Hin Hk.
    specialize (Hd e Hin). apply orb_true_iff in Hd. destruct Hd as [Hd|Hd].
    + apply negb_true_iff in Hd. apply String.eqb_neq in Hd. contradiction.
    + apply Nat.eqb_eq, Hd.
Qed.

Lemma clock_under_lock_meaning evs :
  clock_under_lock evs <->
  exists rest,
    evs = (0, "lock", "lastMutex.Lock()") :: (0, "defer unlock", "lastMutex.Unlock()") :: rest /\
    Forall (fun e => inert e = true) rest /\
    Exists (fun e => kind_of e = "clock") rest /\
    Forall (fun e => kind_of e = "clock" -> depth_of e = 0) rest.
Proof. apply iff_refl. Qed.

Lemma inert_meaning e :
  inert e = true <->
  ~ In (kind_of e) ["lock"; "unlock"; "mutex"; "defer lock"; "defer unlock"; "defer mutex";
                    "defer clock"; "defer call"; "go"; "funclit"; "addr"].
Proof.
  unfold inert. rewrite negb_true_iff. split.
  - intros H Hin. assert (existsb (String.eqb (kind_of e))
      ["lock"; "unlock"; "mutex"; "defer lock"; "defer unlock"; "defer mutex";
       "defer clock"; "defer call"; "go"; "funclit"; "addr"] = true) as T.
    { apply existsb_exists. exists (kind_of e). split; [exact Hin | apply String.eqb_refl]. }
    congruence.
  - intro H. destruct (existsb _ _) eqn:E; [|reflexivity]. exfalso. apply H.
    apply existsb_exists in E. destruct E as (x & Hin & Hx). apply String.eqb_eq in Hx. subst x. exact Hin.
Qed.

Lemma cuid_clock_under_lock : clock_under_lock cuid_events.
Proof. apply clock_under_lockb_sound. vm_compute. reflexivity. Qed.

(* a narrowed CUID (time.Now() moved in front of Lock) does not have the shape *)
Example narrowed_not_under_lock :
  clock_under_lockb ((0, "clock", "time.Now()") :: (0, "lock", "lastMutex.Lock()") ::
                     (0, "defer unlock", "lastMutex.Unlock()") :: [(0, "read", "lastTime")]) = false.
Proof. reflexivity. Qed.
