(* Lifting to histories, part 7 (C05 at history level, chains): a session's ID
   keeps resolving to the session through any number of ID changes made inside
   one grace window.

   Window: it starts at instant T0, in a state where k0 is the ID of a session
   (no reference), with grace period g0 > 0 configured. During the window the
   clock stays in [T0, T0 + g0), the configured grace period stays g0, nothing
   restarts, no handler destroys a session, and no request that presents an ID
   on the chain from k0 is refused (deletion cookie / expired-ID error).
   Then at the end of the window the chain from k0 is intact on the store's view
   (schain), each ID change made meanwhile having appended one hop; by
   chain_live (C05_chain) presenting k0 returns the live session. *)
From Sessions Require Import Model.Base Model.Sess Model.Hist Proofs.SessDefs
  Proofs.HistInv Proofs.HistInv2 Proofs.HistInv3 Proofs.HistLift Proofs.HistLift2 Proofs.HistLift3
  Proofs.HistLift4 Proofs.HistLift6.
From Coq Require Import Lia.

Lemma last_default {A} : forall (l : list A) (b d d' : A), last (b :: l) d = last (b :: l) d'.
Proof. induction l as [|c l IH]; intros b d d'; [reflexivity|]. cbn [last] in *. apply (IH c d d'). Qed.

Lemma last_cons' {A} (a : A) l d : last (a :: l) d = last l a.
Proof. destruct l as [|b l]; [reflexivity|]. change (last (a :: b :: l) d) with (last (b :: l) d). apply last_default. Qed.

Lemma schain_same s s' : forall rest k,
  (forall x, In x (k :: rest) -> sref s' x = sref s x) -> schain s k rest -> schain s' k rest.
Proof.
  induction rest as [|k' t IH]; intros k H Hc; cbn [schain] in *.
  - rewrite H; [exact Hc | left; reflexivity].
  - destruct Hc as [A B]. split; [rewrite H; [exact A | left; reflexivity]|].
    apply IH; [intros x Hx; apply H; right; exact Hx | exact B].
Qed.

Lemma schain_stored s : forall rest k x, schain s k rest -> In x (k :: rest) -> sref s x <> None.
Proof.
  induction rest as [|k' t IH]; intros k x Hc Hin; cbn [schain] in Hc.
  - destruct Hin as [<-|[]]. rewrite Hc. discriminate.
  - destruct Hc as [A B]. destruct Hin as [<-|Hin]; [rewrite A; discriminate | exact (IH k' x B Hin)].
Qed.

Lemma schain_end s : forall rest k, schain s k rest -> sref s (last rest k) = Some None.
Proof.
  induction rest as [|k' t IH]; intros k Hc; cbn [schain] in Hc; [exact Hc|].
  destruct Hc as [_ B]. rewrite last_cons'. exact (IH k' B).
Qed.

Lemma schain_live_last s : forall rest k x,
  schain s k rest -> In x (k :: rest) -> sref s x = Some None -> x = last rest k.
Proof.
  induction rest as [|k' t IH]; intros k x Hc Hin Hs; cbn [schain] in Hc.
  - destruct Hin as [<-|[]]. reflexivity.
  - destruct Hc as [A B]. rewrite last_cons'. destruct Hin as [<-|Hin]; [rewrite A in Hs; discriminate|].
    exact (IH k' x B Hin Hs).
Qed.

Lemma schain_snoc s s' n : forall rest k, schain s k rest ->
  (forall x, In x (k :: rest) -> x <> last rest k -> sref s' x = sref s x) ->
  sref s' (last rest k) = Some (Some n) -> sref s' n = Some None -> schain s' k (rest ++ [n]).
Proof.
  induction rest as [|k' t IH]; intros k Hc Hsame Hold Hnew; cbn [schain app] in *; [split; assumption|].
  destruct Hc as [A B]. rewrite last_cons' in *. split.
  - rewrite Hsame; [exact A | left; reflexivity|]. intro E. pose proof (schain_end s t k' B) as He.
    rewrite <- E, A in He. discriminate.
  - apply IH; [exact B | intros x Hx Hne; apply Hsame; [right; exact Hx | exact Hne] | exact Hold | exact Hnew].
Qed.

Section Lives.
  Variables (k0 : key) (T0 g0 : Z).

  Definition chain_due (s : st) (l : list key) : Prop :=
    forall x d, In x l -> In (d, x) (pending s) -> (T0 + g0 <= d)%Z.

  Definition Q3 (s : st) : Prop :=
    Q0 s /\ c_grace (conf s) = g0 /\ (T0 <= now s < T0 + g0)%Z /\
    exists rest, schain s k0 rest /\ chain_due s (k0 :: rest).

  Definition DEL3 (s : st) (k : key) : Prop := forall rest, schain s k0 rest -> ~ In k (k0 :: rest).
  Definition FOK3 (t : Z) : Prop := True.

  Lemma Q3_qt s s' : qt s s' -> Q3 s -> Q3 s'.
  Proof.
    intros Qt (H0 & Hg & Hn & rest & Hc & Hd). split; [eapply Q0_qt; eassumption|].
    split; [rewrite (qt_conf _ _ Qt); exact Hg|]. split; [rewrite (qt_now _ _ Qt); exact Hn|].
    exists rest. split; [apply (schain_same s s'); [intros x _; apply (qt_sref _ _ Qt) | exact Hc]|].
    intros x d Hx Hin. rewrite (qt_pending _ _ Qt) in Hin. exact (Hd x d Hx Hin).
  Qed.

  Lemma Q3_new s s' k : eff_new s s' k -> Q3 s -> Q3 s'.
  Proof.
    intros E (H0 & Hg & Hn & rest & Hc & Hd). split; [eapply Q0_new; eassumption|].
    split; [rewrite (en_conf _ _ _ E); exact Hg|]. split; [rewrite (en_now _ _ _ E); exact Hn|].
    exists rest. split.
    - apply (schain_same s s'); [|exact Hc]. intros x Hx. apply (en_oth _ _ _ E). intros ->.
      apply (schain_stored s rest k0 k Hc Hx). exact (en_old _ _ _ E).
    - intros x d Hx Hin. rewrite (en_pending _ _ _ E) in Hin. exact (Hd x d Hx Hin).
  Qed.

  Lemma Q3_repl s s' k : eff_repl s s' k -> Q3 s -> Q3 s'.
  Proof.
    intros E (H0 & Hg & Hn & rest & Hc & Hd). split; [eapply Q0_repl; eassumption|].
    split; [rewrite (er_conf _ _ _ E); exact Hg|]. split; [rewrite (er_now _ _ _ E); exact Hn|].
    assert (Hnew : forall x, In x (k0 :: rest) -> x <> KGen (supply s)).
    { intros x Hx ->. apply (schain_stored s rest k0 _ Hc Hx). exact (er_fresh _ _ _ E). }
    destruct (in_dec key_eq_dec k (k0 :: rest)) as [Hin|Hnin].
    - pose proof (schain_live_last s rest k0 k Hc Hin (er_old _ _ _ E)) as Ek.
      exists (rest ++ [KGen (supply s)]). split.
      + apply (schain_snoc s s'); [exact Hc | | rewrite <- Ek; exact (er_old' _ _ _ E) | exact (er_new' _ _ _ E)].
        intros x Hx Hne. apply (er_oth _ _ _ E); [rewrite Ek; exact Hne | exact (Hnew x Hx)].
      + intros x d Hx Hp. rewrite (er_pending _ _ _ E) in Hp. apply in_app_or in Hp. destruct Hp as [Hp|[Hp|[]]].
        * change (k0 :: rest ++ [KGen (supply s)]) with ((k0 :: rest) ++ [KGen (supply s)]) in Hx.
          apply in_app_or in Hx. destruct Hx as [Hx|[<-|[]]]; [exact (Hd x d Hx Hp)|].
          exfalso. exact (er_newnp _ _ _ E d Hp).
        * injection Hp as <- _. lia.
    - exists rest. split.
      + apply (schain_same s s'); [|exact Hc]. intros x Hx. apply (er_oth _ _ _ E); [intros ->; contradiction | exact (Hnew x Hx)].
      + intros x d Hx Hp. rewrite (er_pending _ _ _ E) in Hp. apply in_app_or in Hp. destruct Hp as [Hp|[Hp|[]]]; [exact (Hd x d Hx Hp)|].
        injection Hp as _ <-. contradiction.
  Qed.

  Lemma Q3_del s s' k : eff_del s s' k -> DEL3 s k -> Q3 s -> Q3 s'.
  Proof.
    intros E Hdel (H0 & Hg & Hn & rest & Hc & Hd). split; [eapply (Q0_del s s' k); [exact E | exact Logic.I | exact H0]|].
    split; [rewrite (ed_conf _ _ _ E); exact Hg|]. split; [rewrite (ed_now _ _ _ E); exact Hn|].
    exists rest. split.
    - apply (schain_same s s'); [|exact Hc]. intros x Hx. apply (ed_oth _ _ _ E). intros ->. exact (Hdel rest Hc Hx).
    - intros x d Hx Hin. rewrite (ed_pending _ _ _ E) in Hin. exact (Hd x d Hx Hin).
  Qed.

  Lemma Q3_fire s s' : eff_fire s s' -> FOK3 (now s) -> Q3 s -> Q3 s'.
  Proof.
    intros E _ (H0 & Hg & Hn & rest & Hc & Hd). split; [eapply (Q0_fire s s'); [exact E | exact Logic.I | exact H0]|].
    split; [rewrite (ef_conf _ _ E); exact Hg|]. split; [rewrite (ef_now _ _ E); exact Hn|].
    exists rest. split.
    - apply (schain_same s s'); [|exact Hc]. intros x Hx.
      destruct (ef_sref _ _ E x) as [Es|[_ (d & Hin & Hle)]]; [exact Es|]. pose proof (Hd x d Hx Hin). lia.
    - intros x d Hx Hin. rewrite (ef_pending _ _ E) in Hin. apply filter_In in Hin. exact (Hd x d Hx (proj1 Hin)).
  Qed.

  Definition VI (s : st) : Prop := GW Q3 s.

  Definition on_chain (s : st) (k : key) : Prop := exists rest, schain s k0 rest /\ In k (k0 :: rest).

  (* the hops of a grace window, from the worlds they start in *)
  Definition live_hop (w : world) (h : hop) : Prop :=
    ff_hop h /\ crash_free h /\
    match h with
    | HReq r => ~ In SDestroy (rq_script r) /\
                forall k, presents w r = CKey k -> on_chain (w_st w) k ->
                  ~ In CkDelete (ob_cookies (snd (step w h))) /\ ob_res (snd (step w h)) <> RErr EExpiredID
    | HWait d => (0 <= d)%Z /\ (now (w_st w) + d < T0 + g0)%Z
    | HSetCfg c => c_grace c = g0
    | HRestart => False
    | _ => True
    end.

  Lemma VI_step w h : VI (w_st w) -> live_hop w h -> VI (w_st (fst (step w h))).
  Proof.
    intros Hk (Hff & Hcf & Hh). destruct h as [r|d|tbl pl| | |u tbl pl|u tbl pl|c]; cbn [ff_hop crash_free] in *.
    - destruct Hh as [Hnd Hpres].
      apply (step_req_GW Q3 DEL3 FOK3 Q3_qt Q3_new Q3_repl Q3_del Q3_fire w r Hk Hff Hcf Logic.I).
      + intros k s' res cks Hp E Hor s1 Qt _ rest Hc Hin.
        assert (Hon : on_chain (w_st w) k).
        { exists rest. split; [|exact Hin]. apply (schain_same s1 (w_st w)); [|exact Hc].
          intros x _. rewrite (qt_sref _ _ Qt). reflexivity. }
        destruct (Hpres k Hp Hon) as [Hn1 Hn2]. destruct Hor as [Hd| ->].
        * apply Hn1. eapply step_req_cookies_incl; eassumption.
        * apply Hn2. rewrite (step_req_res w r Hcf _ _ _ E). reflexivity.
      + intros o Hin. contradiction.
    - destruct Hh as [Hd0 Hlt]. destruct Hk as (W & K & P & H0 & Hg & Hn & rest & Hc & Hd). cbn [step fst w_st].
      set (s0 := set_now (set_evs (w_st w) []) (now (set_evs (w_st w) []) + d)).
      assert (G0 : G Q3 (supply (w_st w), []) s0).
      { split; [apply inv_set_now; exact W|]. split; [eapply Kcs_same; [| | |exact K]; reflexivity|].
        split; [intros d' k Hin; exact (P d' k Hin)|]. split; [eapply Q0_same; [| | |exact H0]; reflexivity|].
        split; [exact Hg|]. split; [unfold s0; cbn [now set_now set_evs]; lia|]. exists rest.
        split; [apply (schain_same (w_st w) s0); [intros x _; reflexivity | exact Hc] | exact Hd]. }
      destruct (fire_due_G Q3 FOK3 Q3_fire _ _ G0 Logic.I) as (G1 & _). exact (G_GW' _ _ _ G1).
    - apply (step_gen_GW Q3 FOK3 Q3_qt Q3_fire w (HPurge tbl pl) Hk Hff Logic.I Logic.I).
    - apply (step_gen_GW Q3 FOK3 Q3_qt Q3_fire w HDropCache Hk Hff Logic.I Logic.I).
    - contradiction.
    - apply (step_gen_GW Q3 FOK3 Q3_qt Q3_fire w (HLogoutUser u tbl pl) Hk Hff Logic.I Logic.I).
    - apply (step_gen_GW Q3 FOK3 Q3_qt Q3_fire w (HRefreshUser u tbl pl) Hk Hff Logic.I Logic.I).
    - destruct Hk as (W & K & P & H0 & Hg & Hn & rest & Hc & Hd). cbn [step fst w_st].
      split; [eapply winv_of_inv'; apply inv_set_conf; exact W|].
      split; [eapply Kcs_same; [| | |exact K]; reflexivity|].
      split; [intros d' k Hin; exact (P d' k Hin)|]. split; [eapply Q0_same; [| | |exact H0]; reflexivity|].
      split; [exact Hh|]. split; [exact Hn|]. exists rest.
      split; [apply (schain_same (w_st w)); [intros x _; reflexivity | exact Hc] | exact Hd].
  Qed.
End Lives.

(* From a state in which k is a session's ID, through a grace window: the chain
   from k is intact at the end of the window. *)
Theorem chain_kept k w hs :
  LI (w_st w) -> sref (w_st w) k = Some None -> (0 < c_grace (conf (w_st w)))%Z ->
  hist_ok (live_hop k (now (w_st w)) (c_grace (conf (w_st w)))) w hs ->
  let s := w_st (after w hs) in
  LI s /\ exists rest, schain s k rest.
Proof.
  intros Hl Hs Hg Hok. cbv zeta.
  assert (Hv : VI k (now (w_st w)) (c_grace (conf (w_st w))) (w_st w)).
  { pose proof Hl as (W & K & P & H0). split; [exact W|]. split; [exact K|]. split; [exact P|]. split; [exact H0|].
    split; [reflexivity|]. split; [lia|]. exists []. split; [exact Hs|].
    intros x d [<-|[]] Hin. exfalso. exact (P d _ Hin Hs). }
  pose proof (after_pres (fun w' => VI k (now (w_st w)) (c_grace (conf (w_st w))) (w_st w')) _
                (VI_step k (now (w_st w)) (c_grace (conf (w_st w)))) hs w Hv Hok) as (W' & K' & P' & H0' & _ & _ & rest & Hc & _).
  split; [split; [exact W' | split; [exact K' | split; [exact P' | exact H0']]]|]. exists rest. exact Hc.
Qed.
