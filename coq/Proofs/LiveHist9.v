(* C03 at the history level, part 9 (audit finding 6): which calls of the model
   can ask the store to delete, for ARBITRARY fault plans.

     nds s s'   the call that led from s to s' logged no DeleteSession (the new
                events, newest first, are a prefix of evs s' before evs s and
                none is an EvDelete) and drew IDs at most forwards.

   Every entry point other than Destroy, the clean-up goroutines and the two
   refusing branches of Start is nds; the clean-ups delete only IDs that were
   pending; Start is nds whenever it returns a session without having sent the
   deletion cookie. Used by LiveHist10.v for "the client is served its own
   session". *)
From Sessions Require Import Model.Base Model.Sess Model.Hist Proofs.SessDefs.
From Sessions Require Proofs.CrashFault8.
From Coq Require Import Lia.

Definition nodel (e : ev) : Prop := match e with EvDelete _ _ => False | _ => True end.

Definition nds (s s' : st) : Prop :=
  (exists es, evs s' = es ++ evs s /\ Forall nodel es) /\ (supply s <= supply s')%N.

Lemma nds_refl s : nds s s.
Proof. split; [exists []; split; [reflexivity | constructor] | lia]. Qed.

Lemma nds_trans a b c : nds a b -> nds b c -> nds a c.
Proof.
  intros [(e1 & E1 & F1) S1] [(e2 & E2 & F2) S2]. split; [|lia].
  exists (e2 ++ e1). split; [rewrite E2, E1; apply app_assoc | apply Forall_app; split; assumption].
Qed.

Lemma nds_same s s' : evs s' = evs s -> supply s' = supply s -> nds s s'.
Proof. intros E S. split; [exists []; split; [exact E | constructor] | lia]. Qed.

Lemma nds_cons s s' e : evs s' = e :: evs s -> nodel e -> (supply s <= supply s')%N -> nds s s'.
Proof. intros E N S. split; [exists [e]; split; [exact E | repeat constructor; exact N] | exact S]. Qed.

(* the deletions logged so far are those logged before *)
Lemma nds_dels s s' k b : nds s s' -> In (EvDelete k b) (evs s') -> In (EvDelete k b) (evs s).
Proof.
  intros [(es & E & F) _] Hin. rewrite E in Hin. apply in_app_iff in Hin. destruct Hin as [Hin|Hin]; [|exact Hin].
  exfalso. rewrite Forall_forall in F. exact (F _ Hin).
Qed.

Ltac nds_then L := eapply nds_trans; [apply L|].

(* ------------------------------------------------------ persistence layer *)

Lemma next_fault_evs s : evs (snd (next_fault s)) = evs s /\ supply (snd (next_fault s)) = supply s.
Proof. unfold next_fault. destruct (plan s); split; reflexivity. Qed.

Lemma p_save_nds s k r : nds s (fst (p_save s k r)).
Proof.
  unfold p_save. destruct (next_fault_evs s) as [E Hs]. destruct (next_fault s) as [f s1]. cbn [snd] in *.
  destruct f; cbn [fst]; (eapply nds_cons; [cbn; rewrite E; reflexivity | exact I | cbn in *; lia]).
Qed.

Lemma p_load_nds s k : nds s (fst (p_load s k)).
Proof.
  unfold p_load. destruct (next_fault_evs s) as [E Hs]. destruct (next_fault s) as [f s1]. cbn [snd] in *.
  destruct f; cbn [fst]; [eapply nds_cons; [cbn; rewrite E; reflexivity | exact I | cbn in *; lia]|].
  assert (N1 : nds s (log s1 (EvLoad k true))) by (eapply nds_cons; [cbn; rewrite E; reflexivity | exact I | cbn in *; lia]).
  destruct (lookup (store (log s1 (EvLoad k true))) k) as [r|]; [|exact N1].
  destruct (r_user r) as [[u v]|]; [|exact N1].
  destruct (next_fault_evs (log s1 (EvLoad k true))) as [E2 Hs2].
  destruct (next_fault (log s1 (EvLoad k true))) as [f2 s2]. cbn [snd] in *.
  eapply nds_trans; [exact N1|].
  destruct f2; cbn [fst]; (eapply nds_cons; [cbn; rewrite E2; reflexivity | exact I | cbn in *; lia]).
Qed.

Lemma p_usersessions_nds s u : nds s (fst (p_usersessions s u)).
Proof.
  unfold p_usersessions. destruct (next_fault_evs s) as [E Hs]. destruct (next_fault s) as [f s1]. cbn [snd] in *.
  destruct f; cbn [fst]; (eapply nds_cons; [cbn; rewrite E; reflexivity | exact I | cbn in *; lia]).
Qed.

(* ------------------------------------------------------------------ cache *)

Lemma sweep_nds : forall entries s, nds s (fst (sweep s entries)).
Proof.
  induction entries as [|[k o] t IH]; intro s; cbn [sweep]; [apply nds_refl|].
  destruct (hget s o) as [ob|]; [|apply IH].
  pose proof (p_save_nds (set_tb s (drop_first (tb s) k)) k (o_rec ob)) as H.
  destruct (p_save (set_tb s (drop_first (tb s) k)) k (o_rec ob)) as [s1 ok]. cbn [fst] in H.
  assert (H0 : nds s s1) by (eapply nds_trans; [apply nds_same; reflexivity | exact H]).
  destruct ok; [|exact H0]. eapply nds_trans; [exact H0|].
  eapply nds_trans; [|apply IH]. apply nds_same; reflexivity.
Qed.

Lemma evict_nds : forall f s req, nds s (fst (evict f s req)).
Proof.
  induction f as [|f IH]; intros s req; cbn [evict]; [apply nds_refl|].
  destruct (_ <? _)%Z; [|apply nds_refl].
  destruct (pick_victim s) as [[k o]|]; [|apply nds_refl].
  destruct (hget s o) as [ob|]; [|apply nds_refl].
  pose proof (p_save_nds (set_tb s (drop_first (tb s) k)) k (o_rec ob)) as H.
  destruct (p_save (set_tb s (drop_first (tb s) k)) k (o_rec ob)) as [s1 ok]. cbn [fst] in H.
  assert (H0 : nds s s1) by (eapply nds_trans; [apply nds_same; reflexivity | exact H]).
  destruct ok; [|exact H0]. eapply nds_trans; [exact H0|].
  eapply nds_trans; [|apply IH]. apply nds_same; reflexivity.
Qed.

Lemma compact_nds s req : nds s (compact s req).
Proof.
  unfold compact. pose proof (sweep_nds (order_by_tb (tb s) (filter (is_idle s) (cache s))) s) as H.
  destruct (sweep s _) as [s1 ok]. cbn [fst] in H. destruct (negb ok); [exact H|].
  destruct (_ || _); [exact H|]. eapply nds_trans; [exact H | apply evict_nds].
Qed.

Lemma nds_halloc s v : nds s (fst (halloc s v)).
Proof. apply nds_same; reflexivity. Qed.
Lemma nds_hput s o v : nds s (hput s o v).
Proof. apply nds_same; reflexivity. Qed.
Lemma nds_hupd s o f : nds s (hupd s o f).
Proof. unfold hupd. destruct (hget s o); [apply nds_hput | apply nds_refl]. Qed.
Lemma nds_set_cache s v : nds s (set_cache s v).
Proof. apply nds_same; reflexivity. Qed.
Lemma nds_set_pending s v : nds s (set_pending s v).
Proof. apply nds_same; reflexivity. Qed.

Lemma cache_get_nds s k : nds s (fst (cache_get s k)).
Proof.
  unfold cache_get. destruct (lookup (cache s) k); [apply nds_refl|].
  pose proof (p_load_nds s k) as H. destruct (p_load s k) as [s1 [[r|]|]]; cbn [fst] in *; try exact H.
  eapply nds_trans; [exact H|]. cbn [halloc fst snd].
  destruct (_ =? _)%Z; [apply nds_same; reflexivity|].
  eapply nds_trans; [apply (nds_halloc s1 (mkObj k r))|].
  eapply nds_trans; [apply compact_nds | apply nds_set_cache].
Qed.

Lemma cache_set_nds s o : nds s (fst (cache_set s o)).
Proof.
  unfold cache_set. destruct (hget s o); [|apply nds_refl]. cbv zeta.
  destruct (hget (hupd s o _) o) as [ob|]; [|apply nds_hupd].
  eapply nds_trans; [apply nds_hupd|].
  eapply nds_trans; [|apply p_save_nds].
  eapply nds_trans; [apply compact_nds|].
  destruct (_ =? _)%Z; [apply nds_refl | apply nds_set_cache].
Qed.

(* --------------------------------------------------------------- the API *)

Lemma gen_id_nds s : nds s (fst (gen_id s)).
Proof. unfold gen_id. cbn [fst]. eapply nds_cons; [reflexivity | exact I | cbn; lia]. Qed.

Lemma regenerate_nds s o : nds s (fst (fst (regenerate s o))).
Proof.
  unfold regenerate. destruct (hget s o) as [ob|]; [|apply nds_refl].
  pose proof (gen_id_nds s) as H1. destruct (gen_id s) as [s1 nid]. cbn [fst] in H1.
  set (s2 := hput s1 o _).
  pose proof (cache_set_nds s2 o) as H2. destruct (cache_set s2 o) as [s3 ok]. cbn [fst] in H2.
  assert (H3 : nds s s3) by (eapply nds_trans; [exact H1|]; eapply nds_trans; [apply nds_hput | exact H2]).
  destruct ok; cbn [negb]; [|exact H3].
  destruct (hget s3 o) as [ob3|]; [|exact H3].
  match goal with |- context [halloc s3 ?v] => pose proof (nds_halloc s3 v) as H4; destruct (halloc s3 v) as [s4 ro] end.
  cbn [fst] in H4.
  pose proof (cache_set_nds s4 ro) as H5. destruct (cache_set s4 ro) as [s5 ok2]. cbn [fst] in H5.
  assert (H6 : nds s s5) by (eapply nds_trans; [exact H3|]; eapply nds_trans; eassumption).
  destruct ok2; cbn [negb fst]; [|exact H6]. eapply nds_trans; [exact H6 | apply nds_set_pending].
Qed.

(* its cookies: none, or the live cookie of an ID drawn from s on *)
Lemma regenerate_cks s o :
  snd (regenerate s o) = [] \/ snd (regenerate s o) = [CkLive (KGen (supply s))].
Proof.
  unfold regenerate. destruct (hget s o) as [ob|]; [|left; reflexivity].
  cbn [gen_id]. destruct (cache_set _ o) as [s3 ok]. destruct ok; cbn [negb]; [|left; reflexivity].
  destruct (hget s3 o) as [ob3|]; [|left; reflexivity].
  destruct (halloc s3 _) as [s4 ro]. destruct (cache_set s4 ro) as [s5 ok2].
  destruct ok2; cbn [negb snd]; [right | left]; reflexivity.
Qed.

Lemma create_session_nds s q : nds s (fst (fst (create_session s q))).
Proof.
  unfold create_session. pose proof (gen_id_nds s) as H1. destruct (gen_id s) as [s1 nid]. cbn [fst] in H1.
  match goal with |- context [halloc s1 ?v] => pose proof (nds_halloc s1 v) as H2; destruct (halloc s1 v) as [s2 o] end.
  cbn [fst] in H2. pose proof (cache_set_nds s2 o) as H3. destruct (cache_set s2 o) as [s3 ok]. cbn [fst] in H3.
  assert (H4 : nds s s3) by (eapply nds_trans; [exact H1|]; eapply nds_trans; eassumption).
  destruct ok; exact H4.
Qed.

Lemma create_session_cks s q : forall c, In c (snd (create_session s q)) -> c <> CkDelete.
Proof.
  unfold create_session. destruct (gen_id s) as [s1 nid]. destruct (halloc s1 _) as [s2 o].
  destruct (cache_set s2 o) as [s3 ok]. destruct ok; cbn [negb snd]; intros c Hc; [destruct Hc as [<-|[]]; discriminate | destruct Hc].
Qed.

Lemma follow_nds : forall fuel s o last, nds s (fst (follow fuel s o last)).
Proof.
  induction fuel as [|f IH]; intros s o last; cbn [follow].
  - destruct (hget s o) as [ob|]; [|apply nds_refl]. destruct (r_ref (o_rec ob)); apply nds_refl.
  - destruct (hget s o) as [ob|]; [|apply nds_refl]. destruct (r_ref (o_rec ob)) as [t|]; [|apply nds_refl].
    pose proof (cache_get_nds s t) as H. destruct (cache_get s t) as [s1 [[o'|]|]]; cbn [fst] in *; try exact H.
    eapply nds_trans; [exact H | apply IH].
Qed.

Lemma save_direct_nds s o : nds s (fst (save_direct s o)).
Proof.
  unfold save_direct. destruct (hget s o) as [ob|]; [|apply nds_refl].
  pose proof (p_save_nds s (o_id ob) (o_rec ob)) as H. destruct (p_save s (o_id ob) (o_rec ob)) as [s1 ok]. exact H.
Qed.

Lemma logout_nds s o : nds s (fst (logout s o)).
Proof.
  unfold logout. destruct (hget s o) as [ob|]; [|apply nds_refl]. destruct (r_user (o_rec ob)); [|apply nds_refl].
  eapply nds_trans; [apply nds_hupd | apply save_direct_nds].
Qed.

Lemma each_user_session_nds : forall ids s u, nds s (fst (each_user_session s ids u)).
Proof.
  induction ids as [|k t IH]; intros s u; cbn [each_user_session]; [apply nds_refl|].
  pose proof (cache_get_nds s k) as H. destruct (cache_get s k) as [s1 [[o|]|]]; cbn [fst] in *.
  - set (s2 := hupd s1 o _). pose proof (cache_set_nds s2 o) as H2. destruct (cache_set s2 o) as [s3 ok]. cbn [fst] in H2.
    assert (H3 : nds s s3) by (eapply nds_trans; [exact H|]; eapply nds_trans; [apply nds_hupd | exact H2]).
    destruct ok; [|exact H3]. eapply nds_trans; [exact H3 | apply IH].
  - eapply nds_trans; [exact H | apply IH].
  - exact H.
Qed.

Lemma logout_user_nds s u : nds s (fst (logout_user s u)).
Proof.
  unfold logout_user. pose proof (p_usersessions_nds s u) as H. destruct (p_usersessions s u) as [s1 [ids|]]; cbn [fst] in *.
  - eapply nds_trans; [exact H | apply each_user_session_nds].
  - exact H.
Qed.

Lemma refresh_user_nds s u : nds s (fst (refresh_user s u)).
Proof.
  unfold refresh_user. pose proof (p_usersessions_nds s (fst u)) as H.
  destruct (p_usersessions s (fst u)) as [s1 [ids|]]; cbn [fst] in *.
  - eapply nds_trans; [exact H | apply each_user_session_nds].
  - exact H.
Qed.

Lemma login_nds s o u ex : nds s (fst (fst (login s o u ex))) /\
  (snd (login s o u ex) = [] \/ exists n, (supply s <= n)%N /\ snd (login s o u ex) = [CkLive (KGen n)]).
Proof.
  unfold login.
  assert (H1 : nds s (fst (if ex then logout_user s (fst u) else let '(s0, _) := logout s o in (s0, Ok tt)))).
  { destruct ex; [apply logout_user_nds|]. pose proof (logout_nds s o) as H. destruct (logout s o) as [s0 r0]. exact H. }
  destruct (if ex then logout_user s (fst u) else let '(s0, _) := logout s o in (s0, Ok tt)) as [s1 r1]. cbn [fst] in H1.
  destruct r1 as [[]|e|e]; cbn [fst snd]; try (split; [exact H1 | left; reflexivity]).
  set (s2 := hupd s1 o _). pose proof (cache_set_nds s2 o) as H2. destruct (cache_set s2 o) as [s3 ok]. cbn [fst] in H2.
  assert (H3 : nds s s3) by (eapply nds_trans; [exact H1|]; eapply nds_trans; [apply nds_hupd | exact H2]).
  destruct ok; cbn [negb fst snd]; [|split; [exact H3 | left; reflexivity]].
  pose proof (regenerate_nds s3 o) as H4. pose proof (regenerate_cks s3 o) as H5.
  destruct (regenerate s3 o) as [[s4 r2] cks]. cbn [fst snd] in *.
  assert (H6 : nds s s4) by (eapply nds_trans; eassumption).
  assert (H7 : cks = [] \/ exists n, (supply s <= n)%N /\ cks = [CkLive (KGen n)]).
  { destruct H5 as [->| ->]; [left; reflexivity | right]. exists (supply s3). split; [apply H3 | reflexivity]. }
  destruct r2; cbn [fst snd]; split; assumption.
Qed.

(* a handler operation other than Destroy: no deletion; its cookies are none or
   the live cookie of an ID not drawn before *)
Lemma do_sop_nds s o hc op : op <> SDestroy ->
  nds s (fst (fst (do_sop s o hc op))) /\
  (snd (do_sop s o hc op) = [] \/ exists n, (supply s <= n)%N /\ snd (do_sop s o hc op) = [CkLive (KGen n)]).
Proof.
  intro Hop. destruct op as [k v|k|k|k|u ex| | |]; cbn [do_sop]; try congruence.
  - destruct (data_of s o) as [d|]; [|split; [apply nds_refl | left; reflexivity]].
    set (s1 := hupd s o _). pose proof (save_direct_nds s1 o) as H. destruct (save_direct s1 o) as [s2 r]. cbn [fst snd] in *.
    split; [eapply nds_trans; [apply nds_hupd | exact H] | left; reflexivity].
  - set (s1 := match data_of s o with Some d => _ | None => s end).
    assert (H1 : nds s s1) by (unfold s1; destruct (data_of s o); [apply nds_hupd | apply nds_refl]).
    pose proof (save_direct_nds s1 o) as H. destruct (save_direct s1 o) as [s2 r]. cbn [fst snd] in *.
    split; [eapply nds_trans; eassumption | left; reflexivity].
  - split; [apply nds_refl | left; reflexivity].
  - destruct (data_of s o) as [d|]; [|split; [apply nds_refl | left; reflexivity]].
    destruct (kv_get d k); [|split; [apply nds_refl | left; reflexivity]].
    set (s1 := hupd s o _). pose proof (save_direct_nds s1 o) as H. destruct (save_direct s1 o) as [s2 r]. cbn [fst snd] in *.
    split; [eapply nds_trans; [apply nds_hupd | exact H] | left; reflexivity].
  - destruct (login_nds s o u ex) as [H1 H2]. destruct (login s o u ex) as [[s1 r] cks]. cbn [fst snd] in *. split; assumption.
  - pose proof (logout_nds s o) as H. destruct (logout s o) as [s1 r]. cbn [fst snd] in *. split; [exact H | left; reflexivity].
  - pose proof (regenerate_nds s o) as H1. pose proof (regenerate_cks s o) as H2.
    destruct (regenerate s o) as [[s1 r] cks]. cbn [fst snd] in *. split; [exact H1|].
    destruct H2 as [->| ->]; [left; reflexivity | right]. exists (supply s). split; [lia | reflexivity].
Qed.

(* ------------------------------------------------------------ clean-ups *)

(* the clean-up goroutines delete only IDs that were pending *)
Definition del_of (l : list (Z * key)) (e : ev) : Prop :=
  match e with EvDelete k _ => exists d, In (d, k) l | _ => True end.

Lemma fire_dels : forall l s, exists es, evs (fst (fire s l)) = es ++ evs s /\ Forall (del_of l) es /\
  supply (fst (fire s l)) = supply s.
Proof.
  induction l as [|[due k] t IH]; intro s; cbn [fire].
  - exists []. repeat split. constructor.
  - assert (Hw : forall es, Forall (del_of t) es -> Forall (del_of ((due, k) :: t)) es).
    { intros es. apply Forall_impl. intros e. destruct e; cbn; try tauto. intros [d Hd]. exists d. right. exact Hd. }
    destruct (due <=? now s)%Z.
    + unfold cache_delete, p_delete.
      destruct (next_fault_evs (set_cache s (remove (cache s) k))) as [E Hs].
      destruct (next_fault (set_cache s (remove (cache s) k))) as [f s1]. cbn [snd] in *.
      destruct f.
      * destruct (IH (log s1 (EvDelete k false))) as (es & E2 & F2 & S2). exists (es ++ [EvDelete k false]).
        split; [rewrite E2; cbn; rewrite E, <- app_assoc; reflexivity|].
        split; [apply Forall_app; split; [apply Hw; exact F2 | repeat constructor; exists due; left; reflexivity] | rewrite S2; cbn; exact Hs].
      * match goal with |- context [fire ?x t] => destruct (IH x) as (es & E2 & F2 & S2) end.
        exists (es ++ [EvDelete k true]).
        split; [rewrite E2; cbn; rewrite E, <- app_assoc; reflexivity|].
        split; [apply Forall_app; split; [apply Hw; exact F2 | repeat constructor; exists due; left; reflexivity] | rewrite S2; cbn; exact Hs].
    + destruct (IH s) as (es & E2 & F2 & S2). destruct (fire s t) as [s1 rest]. cbn [fst] in *.
      exists es. split; [exact E2|]. split; [apply Hw; exact F2 | exact S2].
Qed.

Lemma fire_due_dels s : exists es, evs (fire_due s) = es ++ evs s /\ Forall (del_of (pending s)) es /\
  supply (fire_due s) = supply s.
Proof.
  unfold fire_due. destruct (fire_dels (pending s) (set_pending s [])) as (es & E & F & S).
  destruct (fire (set_pending s []) (pending s)) as [s1 rest]. cbn [fst] in *. exists es. repeat split; assumption.
Qed.

(* --------------------------------------------------------------- Start *)

Lemma start_none_nds s q cks0 : nds s (fst (fst (CrashFault8.start_none s q cks0))) /\
  (forall c, In c (snd (CrashFault8.start_none s q cks0)) -> c = CkDelete -> In CkDelete cks0).
Proof.
  unfold CrashFault8.start_none. destruct (q_create q); [|split; [apply nds_refl | intros c Hc ->; exact Hc]].
  pose proof (create_session_nds s q) as H. pose proof (create_session_cks s q) as H2.
  destruct (create_session s q) as [[s1 r] nck]. cbn [fst snd] in *. split; [exact H|].
  intros c Hc ->. apply in_app_iff in Hc. destruct Hc as [Hc|Hc]; [exact Hc | exfalso; exact (H2 _ Hc eq_refl)].
Qed.

Lemma start_finish_nds s q k o isref cks0 :
  nds s (fst (fst (CrashFault8.start_finish s q k o isref cks0))).
Proof.
  unfold CrashFault8.start_finish.
  assert (H : nds s (fst (if isref then follow (S (N.to_nat (supply s))) s o k else (s, Ok (o, k))))).
  { destruct isref; [apply follow_nds | apply nds_refl]. }
  destruct (if isref then follow (S (N.to_nat (supply s))) s o k else (s, Ok (o, k))) as [s1 fr]. cbn [fst] in H.
  destruct fr as [[o' lk]|e|e]; cbn [fst]; try exact H. eapply nds_trans; [exact H | apply nds_hupd].
Qed.

(* Start returned a session and the response carries no deletion cookie: the
   store was not asked to delete anything (the two refusing branches return an
   error; the invalid branch and the miss send the deletion cookie first) *)
Theorem start_nds s q s' o cks :
  start s q = (s', Ok (Some o), cks) -> ~ In CkDelete cks -> nds s s'.
Proof.
  rewrite CrashFault8.start_unfold. intros E Hnd.
  assert (Hnone : forall s0 cks0, CrashFault8.start_none s0 q cks0 = (s', Ok (Some o), cks) -> ~ In CkDelete cks0 -> nds s0 s').
  { intros s0 cks0 E0 _. destruct (start_none_nds s0 q cks0) as [H _]. rewrite E0 in H. exact H. }
  destruct (q_cookie q) as [|k|n]; try (eapply Hnone; [exact E | intros []]).
  pose proof (cache_get_nds s k) as H1. destruct (cache_get s k) as [s1 [[o1|]|]]; cbn [fst] in H1.
  - eapply nds_trans; [exact H1|]. unfold CrashFault8.start_found in E.
    destruct (hget s1 o1) as [ob|]; [|discriminate].
    destruct (negb (CrashFault8.rec_valid (conf s) (o_rec ob) q (now s1))).
    { (* invalid: Destroy, then the deletion cookie heads the response *)
      exfalso. unfold destroy in E. destruct (hget s1 o1) as [ob'|]; [|discriminate].
      destruct (cache_delete s1 (o_id ob')) as [s2 ok]. destruct ok; cbn [negb] in E; [|discriminate].
      destruct (start_none_nds s2 q [CkDelete]) as [_ H]. rewrite E in H. cbn [snd] in H.
      unfold CrashFault8.start_none in E. destruct (q_create q); [|discriminate].
      destruct (create_session s2 q) as [[s3 r3] nck]. injection E as _ _ <-. apply Hnd. left. reflexivity. }
    destruct (_ && _).
    + pose proof (regenerate_nds s1 o1) as H2. destruct (regenerate s1 o1) as [[s2 res] rck]. cbn [fst] in H2.
      destruct res as [[]|e|e]; try discriminate.
      eapply nds_trans; [exact H2|]. pose proof (start_finish_nds s2 q k o1 (CrashFault8.is_ref (o_rec ob)) rck) as H3.
      rewrite E in H3. exact H3.
    + destruct (_ <=? _)%Z.
      * destruct (cache_delete s1 k) as [s2 ok]. discriminate.
      * pose proof (start_finish_nds s1 q k o1 (CrashFault8.is_ref (o_rec ob)) []) as H3. rewrite E in H3. exact H3.
  - exfalso. destruct (start_none_nds s1 q [CkDelete]) as [_ H]. rewrite E in H. cbn [snd] in H.
    unfold CrashFault8.start_none in E. destruct (q_create q); [|discriminate].
    destruct (create_session s1 q) as [[s3 r3] nck]. injection E as _ _ <-. apply Hnd. left. reflexivity.
  - discriminate.
Qed.
