(* C12, part 1: the building blocks of compaction. Association-list facts,
   the tie-break order, the codec, fault-free persistence calls, and the
   relation [drops]: a sequence of "save the cached object under its cache key,
   then remove the key" steps, which is what both phases of cache.compact are.
   The phases themselves (sweep, pick_victim, evict, compact) are characterised
   in CacheInv2.v; the cache entry points and C12 proper are in CacheInv3.v. *)
From Sessions Require Import Model.Base Model.Sess Model.Hist Proofs.SessDefs.
From Coq Require Import Lia.

(* ------------------------------------------------------------------------ *)
(* Association lists *)

Definition memk (k : key) (D : list key) : bool := existsb (key_eqb k) D.

Lemma memk_In k D : memk k D = true <-> In k D.
Proof.
  unfold memk. rewrite existsb_exists. split.
  - intros [x [Hin He]]. apply key_eqb_eq in He. subst. exact Hin.
  - intro H. exists k. split; [exact H | apply key_eqb_refl].
Qed.

Lemma memk_notIn k D : memk k D = false <-> ~ In k D.
Proof.
  rewrite <- memk_In. destruct (memk k D); split; intro H.
  - discriminate.
  - exfalso. apply H. reflexivity.
  - intro H'. discriminate.
  - reflexivity.
Qed.

Section Assoc2.
  Context {A : Type}.
  Implicit Types (l : list (key * A)) (k : key) (v : A).

  Lemma remove_filter l k : remove l k = filter (fun e => negb (key_eqb k (fst e))) l.
  Proof.
    induction l as [|[k' v'] l IH]; simpl; [reflexivity|].
    destruct (key_eqb k k'); simpl; rewrite IH; reflexivity.
  Qed.

  Lemma lookup_remove_Some l k k' v :
    lookup (remove l k) k' = Some v -> k' <> k /\ lookup l k' = Some v.
  Proof.
    intro H. destruct (key_eq_dec k' k) as [E|E].
    - subst. rewrite lookup_remove_same in H. discriminate.
    - split; [exact E|]. rewrite lookup_remove_other in H by exact E. exact H.
  Qed.

  Lemma In_remove l k e : In e (remove l k) -> In e l.
  Proof. rewrite remove_filter. intro H. apply filter_In in H. tauto. Qed.

  Lemma lookup_keys l k v : lookup l k = Some v -> In k (map fst l).
  Proof. intro H. apply lookup_In in H. apply in_map_iff. exists (k, v). split; [reflexivity | exact H]. Qed.

  Lemma In_lookup l k v : NoDup (map fst l) -> In (k, v) l -> lookup l k = Some v.
  Proof.
    induction l as [|[k' v'] l IH]; simpl; intros Hnd Hin; [contradiction|].
    inversion Hnd as [|x xs Hx Hnd']; subst.
    destruct Hin as [Hin|Hin].
    - injection Hin as -> ->. rewrite key_eqb_refl. reflexivity.
    - assert (Hne : k <> k').
      { intro E. subst. apply Hx. apply in_map_iff. exists (k', v). split; [reflexivity | exact Hin]. }
      apply key_eqb_neq in Hne. rewrite Hne. apply IH; assumption.
  Qed.

  Lemma NoDup_keys_filter l (q : key * A -> bool) :
    NoDup (map fst l) -> NoDup (map fst (filter q l)).
  Proof.
    induction l as [|e l IH]; simpl; intro Hnd; [constructor|].
    inversion Hnd as [|x xs Hx Hnd']; subst.
    destruct (q e); simpl; [|apply IH; exact Hnd'].
    constructor; [|apply IH; exact Hnd'].
    intro Hin. apply Hx. apply in_map_iff in Hin. destruct Hin as [e' [He' Hin]].
    apply filter_In in Hin. apply in_map_iff. exists e'. tauto.
  Qed.

  Lemma NoDup_keys_remove l k : NoDup (map fst l) -> NoDup (map fst (remove l k)).
  Proof. rewrite remove_filter. apply NoDup_keys_filter. Qed.

  Lemma In_keys_upsert l k v x : In x (map fst (upsert l k v)) -> x = k \/ In x (map fst l).
  Proof.
    induction l as [|[k' v'] l IH]; simpl.
    - intros [H|[]]. left. congruence.
    - destruct (key_eqb k k') eqn:E; simpl.
      + apply key_eqb_eq in E. subst. intros [H|H]; [left; congruence | right; right; exact H].
      + intros [H|H]; [right; left; exact H|]. apply IH in H. tauto.
  Qed.

  Lemma NoDup_keys_upsert l k v : NoDup (map fst l) -> NoDup (map fst (upsert l k v)).
  Proof.
    induction l as [|[k' v'] l IH]; simpl; intro Hnd.
    - constructor; [intros [] | constructor].
    - inversion Hnd as [|x xs Hx Hnd']; subst.
      destruct (key_eqb k k') eqn:E; simpl.
      + apply key_eqb_eq in E. subst. constructor; assumption.
      + constructor; [|apply IH; exact Hnd'].
        intro Hin. apply In_keys_upsert in Hin. destruct Hin as [Hin|Hin]; [|contradiction].
        apply key_eqb_neq in E. congruence.
  Qed.

  Lemma length_upsert_new l k v : lookup l k = None -> length (upsert l k v) = S (length l).
  Proof.
    intro H. rewrite <- (map_length fst (upsert l k v)), (keys_upsert_notin l k v H).
    rewrite app_length, map_length. simpl. lia.
  Qed.

  Lemma length_upsert_old l k v : lookup l k <> None -> length (upsert l k v) = length l.
  Proof.
    intro H. rewrite <- (map_length fst (upsert l k v)), (keys_upsert_in l k v H).
    apply map_length.
  Qed.

  Lemma length_upsert_le l k v : length (upsert l k v) <= S (length l).
  Proof.
    destruct (lookup l k) eqn:E.
    - rewrite length_upsert_old by congruence. lia.
    - rewrite length_upsert_new by exact E. lia.
  Qed.

  Lemma length_remove_lt l k v : lookup l k = Some v -> length (remove l k) < length l.
  Proof.
    induction l as [|[k' v'] l IH]; simpl; [discriminate|].
    destruct (key_eqb k k') eqn:E; simpl.
    - intros _. pose proof (length_remove_le l k). lia.
    - intro H. apply IH in H. lia.
  Qed.

  Lemma length_remove_nodup l k v :
    NoDup (map fst l) -> lookup l k = Some v -> S (length (remove l k)) = length l.
  Proof.
    induction l as [|[k' v'] l IHl]; simpl; [discriminate|]. intros Hnd Hk.
    inversion Hnd as [|x xs Hx Hnd']; subst.
    destruct (key_eqb k k') eqn:E.
    - apply key_eqb_eq in E. subst k'. rewrite remove_notin; [reflexivity|].
      apply lookup_None_notin. exact Hx.
    - simpl. rewrite IHl by assumption. reflexivity.
  Qed.

  Lemma lookup_filter_keys l (q : key -> bool) k :
    lookup (filter (fun e => q (fst e)) l) k = if q k then lookup l k else None.
  Proof.
    induction l as [|[k' v'] l IH]; simpl.
    - destruct (q k); reflexivity.
    - destruct (q k') eqn:Eq; simpl.
      + destruct (key_eqb k k') eqn:E.
        * apply key_eqb_eq in E. subst. rewrite Eq. reflexivity.
        * exact IH.
      + destruct (key_eqb k k') eqn:E.
        * apply key_eqb_eq in E. subst. rewrite Eq in IH. rewrite Eq. exact IH.
        * exact IH.
  Qed.

  (* removing a list of keys one after the other *)
  Lemma fold_remove_filter (D : list key) l :
    fold_left (fun c k => remove c k) D l = filter (fun e => negb (memk (fst e) D)) l.
  Proof.
    revert l. induction D as [|d D IH]; intro l; simpl.
    - induction l as [|e l IHl]; simpl; [reflexivity | rewrite <- IHl; reflexivity].
    - rewrite IH. rewrite remove_filter.
      induction l as [|e l IHl]; simpl; [reflexivity|].
      rewrite (key_eqb_sym (fst e) d).
      destruct (key_eqb d (fst e)); simpl; [exact IHl|].
      destruct (memk (fst e) D); simpl; [exact IHl | rewrite IHl; reflexivity].
  Qed.
End Assoc2.

Lemma NoDup_app_intro {A} (a b : list A) :
  NoDup a -> NoDup b -> (forall x, In x a -> ~ In x b) -> NoDup (a ++ b).
Proof.
  induction a as [|x a IH]; simpl; intros Ha Hb Hd; [exact Hb|].
  inversion Ha as [|y ys Hx Ha']; subst. constructor.
  - intro Hin. apply in_app_or in Hin. destruct Hin as [Hin|Hin]; [contradiction|].
    apply (Hd x); [left; reflexivity | exact Hin].
  - apply IH; [exact Ha' | exact Hb |]. intros y Hy. apply Hd. right. exact Hy.
Qed.

(* ------------------------------------------------------------------------ *)
(* The tie-break order is a rearrangement of the entries *)

Lemma In_nodup_keys k l : In k (nodup_keys l) <-> In k l.
Proof.
  induction l as [|a l IH]; simpl; [tauto|]. split.
  - intros [H|H]; [left; exact H|]. apply filter_In in H. right. apply IH. tauto.
  - intros [H|H]; [left; exact H|].
    destruct (key_eq_dec a k) as [E|E]; [left; exact E|]. right.
    apply filter_In. split; [apply IH; exact H|]. apply key_eqb_neq in E. rewrite E. reflexivity.
Qed.

Lemma NoDup_nodup_keys l : NoDup (nodup_keys l).
Proof.
  induction l as [|a l IH]; simpl; constructor.
  - intro H. apply filter_In in H. destruct H as [_ H]. rewrite key_eqb_refl in H. discriminate.
  - apply NoDup_filter. exact IH.
Qed.

Definition tb_part (l : list (key * nat)) (ks : list key) : list (key * nat) :=
  flat_map (fun k => match lookup l k with Some o => [(k, o)] | None => [] end) ks.

Lemma order_by_tb_eq tbl l :
  order_by_tb tbl l = tb_part l (nodup_keys tbl) ++ filter (fun e => negb (memk (fst e) tbl)) l.
Proof. reflexivity. Qed.

Lemma keys_tb_part l ks : map fst (tb_part l ks) = filter (has l) ks.
Proof.
  unfold tb_part, has. induction ks as [|k ks IH]; simpl; [reflexivity|].
  rewrite map_app, IH. destruct (lookup l k); reflexivity.
Qed.

Lemma In_tb_part l ks e : In e (tb_part l ks) <-> In (fst e) ks /\ lookup l (fst e) = Some (snd e).
Proof.
  unfold tb_part. rewrite in_flat_map. split.
  - intros [k [Hk He]]. destruct (lookup l k) as [o|] eqn:E; [|contradiction].
    destruct He as [He|[]]. subst e. simpl. tauto.
  - intros [Hk He]. exists (fst e). split; [exact Hk|]. rewrite He. left. destruct e; reflexivity.
Qed.

Lemma In_order_by_tb tbl l e : In e (order_by_tb tbl l) -> In e l.
Proof.
  rewrite order_by_tb_eq. intro H. apply in_app_or in H. destruct H as [H|H].
  - apply In_tb_part in H. destruct H as [_ H]. apply lookup_In in H. destruct e; exact H.
  - apply filter_In in H. tauto.
Qed.

Lemma In_order_by_tb_rev tbl l e : NoDup (map fst l) -> In e l -> In e (order_by_tb tbl l).
Proof.
  intros Hnd Hin. rewrite order_by_tb_eq. apply in_or_app.
  destruct (memk (fst e) tbl) eqn:E.
  - left. apply In_tb_part. split.
    + apply In_nodup_keys. apply memk_In. exact E.
    + apply In_lookup; [exact Hnd | destruct e; exact Hin].
  - right. apply filter_In. split; [exact Hin | rewrite E; reflexivity].
Qed.

Lemma keys_order_by_tb tbl l k : In k (map fst (order_by_tb tbl l)) <-> In k (map fst l).
Proof.
  split.
  - intro H. apply in_map_iff in H. destruct H as [e [He H]]. apply In_order_by_tb in H.
    apply in_map_iff. exists e. tauto.
  - intro H. rewrite order_by_tb_eq, map_app. apply in_or_app.
    destruct (memk k tbl) eqn:E.
    + left. rewrite keys_tb_part. apply filter_In. split.
      * apply In_nodup_keys. apply memk_In. exact E.
      * unfold has. destruct (lookup l k) eqn:El; [reflexivity|].
        apply lookup_None_notin in El. contradiction.
    + right. apply in_map_iff in H. destruct H as [e [He H]]. apply in_map_iff. exists e.
      split; [exact He|]. apply filter_In. split; [exact H|]. rewrite He, E. reflexivity.
Qed.

Lemma order_by_tb_nil tbl l : order_by_tb tbl l = [] -> l = [].
Proof.
  intro H. destruct l as [|e l]; [reflexivity|]. exfalso.
  assert (Hk : In (fst e) (map fst (order_by_tb tbl (e :: l)))).
  { apply keys_order_by_tb. left. reflexivity. }
  rewrite H in Hk. exact Hk.
Qed.

Lemma NoDup_keys_order_by_tb tbl l : NoDup (map fst l) -> NoDup (map fst (order_by_tb tbl l)).
Proof.
  intro Hnd. rewrite order_by_tb_eq, map_app. apply NoDup_app_intro.
  - rewrite keys_tb_part. apply NoDup_filter. apply NoDup_nodup_keys.
  - apply NoDup_keys_filter. exact Hnd.
  - intros k H1 H2. rewrite keys_tb_part in H1. apply filter_In in H1. destruct H1 as [H1 _].
    apply (proj1 (In_nodup_keys _ _)) in H1. apply in_map_iff in H2. destruct H2 as [e [He H2]].
    apply filter_In in H2. destruct H2 as [_ H2]. subst k.
    apply (proj2 (memk_In _ _)) in H1. rewrite H1 in H2. discriminate.
Qed.

(* ------------------------------------------------------------------------ *)
(* The codec is idempotent *)

Lemma floor_second_idem t : ((t - t mod second) - (t - t mod second) mod second = t - t mod second)%Z.
Proof.
  assert (H : ((t - t mod second) mod second = 0)%Z).
  { assert (E : (t - t mod second = (t / second) * second)%Z).
    { pose proof (Z_div_mod_eq_full t second). lia. }
    rewrite E. apply Z_mod_mult. }
  rewrite H. lia.
Qed.

Lemma codec_idem c r : codec c (codec c r) = codec c r.
Proof.
  unfold codec. destruct r as [cr ac ip ua rf us da]. simpl.
  f_equal.
  - destruct (c_json c); [apply floor_second_idem | reflexivity].
  - destruct (c_json c); [apply floor_second_idem | reflexivity].
  - destruct us as [[u v]|]; reflexivity.
  - destruct da; reflexivity.
Qed.

(* the codec keeps the reference and the durable part (SessDefs.durable is
   defined through the same normalisation of user and data) *)
Lemma codec_ref c r : r_ref (codec c r) = r_ref r.
Proof. reflexivity. Qed.

(* ------------------------------------------------------------------------ *)
(* Fault-free persistence calls *)

Lemma next_fault_ff s : plan s = [] -> next_fault s = (false, s).
Proof. intro H. unfold next_fault. rewrite H. reflexivity. Qed.

Lemma p_save_ff s k r : plan s = [] ->
  p_save s k r =
  (log (set_store s (upsert (store s) k (codec (conf s) r))) (EvSave k (codec (conf s) r) true), true).
Proof. intro H. unfold p_save. rewrite next_fault_ff by exact H. reflexivity. Qed.

Lemma p_delete_ff s k : plan s = [] ->
  p_delete s k =
  (log (set_graves (set_store s (remove (store s) k))
          (match lookup (store s) k with
           | Some r => upsert (graves s) k (match r_user r with Some (u, _) => Some u | None => None end)
           | None => graves s
           end)) (EvDelete k true), true).
Proof. intro H. unfold p_delete. rewrite next_fault_ff by exact H. reflexivity. Qed.

(* two states that differ at most in the event log *)
Definition same_but_evs (s s' : st) : Prop := exists l, s' = set_evs s (l ++ evs s).

Lemma p_load_ff s k : plan s = [] ->
  exists s', p_load s k = (s', Some (lookup (store s) k)) /\ same_but_evs s s'.
Proof.
  intro H. unfold p_load. rewrite next_fault_ff by exact H.
  change (store (log s (EvLoad k true))) with (store s).
  destruct (lookup (store s) k) as [r|] eqn:E.
  - destruct (r_user r) as [[u v]|] eqn:Eu.
    + rewrite next_fault_ff by exact H. eexists. split; [reflexivity|].
      exists [EvLoadUser u true; EvLoad k true]. reflexivity.
    + eexists. split; [reflexivity|]. exists [EvLoad k true]. reflexivity.
  - eexists. split; [reflexivity|]. exists [EvLoad k true]. reflexivity.
Qed.

(* ------------------------------------------------------------------------ *)
(* Liveness of cache entries: every cached index is an object of the heap.
   This is the part of SessDefs.cache_ok the cache functions rely on; it also
   holds inside RegenerateID, between the change of the object's ID and the
   second cache write, where cache_ok does not. *)

Definition cache_live (s : st) : Prop :=
  forall k o, lookup (cache s) k = Some o -> exists ob, hget s o = Some ob.

Lemma cache_ok_live s : cache_ok s -> cache_live s.
Proof. intros H k o Hl. destruct (H k o Hl) as [ob [Hob _]]. exists ob. exact Hob. Qed.

Lemma obj_access_heap s s' o : heap s' = heap s -> obj_access s' o = obj_access s o.
Proof. intro H. unfold obj_access, hget. rewrite H. reflexivity. Qed.

Lemma hget_heap s s' o : heap s' = heap s -> hget s' o = hget s o.
Proof. intro H. unfold hget. rewrite H. reflexivity. Qed.

(* ------------------------------------------------------------------------ *)
(* One flush-and-drop step, and sequences of them *)

(* the state after SaveSession(k, object with record r) succeeded, with k taken
   off the tie-break list *)
Definition save1 (s : st) (k : key) (r : rec) : st :=
  mkSt (heap s) (cache s) (upsert (store s) k (codec (conf s) r)) (graves s) (pending s)
       (now s) (supply s) (conf s) (plan s) (EvSave k (codec (conf s) r) true :: evs s)
       (drop_first (tb s) k).

(* ... and k removed from the cache *)
Definition drop1 (s : st) (k : key) (r : rec) : st :=
  set_cache (save1 s k r) (remove (cache s) k).

Lemma flush_step s k r : plan s = [] ->
  p_save (set_tb s (drop_first (tb s) k)) k r = (save1 s k r, true).
Proof. intro H. rewrite p_save_ff by exact H. reflexivity. Qed.

(* [drops P s D s']: from s, the keys D were flushed and dropped one after the
   other (each cached at its moment, each step satisfying P), giving s'. *)
Inductive drops (P : st -> key -> nat -> Prop) : st -> list key -> st -> Prop :=
  | drops_nil s : drops P s [] s
  | drops_cons s k o ob D s' :
      lookup (cache s) k = Some o -> hget s o = Some ob -> P s k o ->
      drops P (drop1 s k (o_rec ob)) D s' -> drops P s (k :: D) s'.

Lemma drops_impl (P Q : st -> key -> nat -> Prop) s D s' :
  (forall s k o, P s k o -> Q s k o) -> drops P s D s' -> drops Q s D s'.
Proof. intros HPQ H. induction H; econstructor; eauto. Qed.

Lemma drops_app P s D1 s1 D2 s2 : drops P s D1 s1 -> drops P s1 D2 s2 -> drops P s (D1 ++ D2) s2.
Proof. intros H1 H2. induction H1; simpl; [exact H2 | econstructor; eauto]. Qed.

(* what a drops sequence leaves alone *)
Record frame (s s' : st) : Prop := mkFrame {
  fr_heap : heap s' = heap s;
  fr_graves : graves s' = graves s;
  fr_pending : pending s' = pending s;
  fr_now : now s' = now s;
  fr_supply : supply s' = supply s;
  fr_conf : conf s' = conf s;
  fr_plan : plan s' = plan s }.

Lemma frame_refl s : frame s s.
Proof. constructor; reflexivity. Qed.

Lemma frame_trans s1 s2 s3 : frame s1 s2 -> frame s2 s3 -> frame s1 s3.
Proof. intros [] []. constructor; congruence. Qed.

Lemma frame_drop1 s k r : frame s (drop1 s k r).
Proof. constructor; reflexivity. Qed.

Lemma drops_frame P s D s' : drops P s D s' -> frame s s'.
Proof.
  intro H. induction H; [apply frame_refl|].
  eapply frame_trans; [apply frame_drop1 | exact IHdrops].
Qed.

Lemma drops_cache P s D s' :
  drops P s D s' -> cache s' = filter (fun e => negb (memk (fst e) D)) (cache s).
Proof.
  intro H. rewrite <- fold_remove_filter. induction H; simpl; [reflexivity|]. exact IHdrops.
Qed.

Lemma drops_NoDup_keys P s D s' :
  drops P s D s' -> NoDup (map fst (cache s)) -> NoDup (map fst (cache s')).
Proof. intros H Hnd. rewrite (drops_cache _ _ _ _ H). apply NoDup_keys_filter. exact Hnd. Qed.

Lemma drops_In P s D s' e : drops P s D s' -> In e (cache s') -> In e (cache s).
Proof. intros H Hin. rewrite (drops_cache _ _ _ _ H) in Hin. apply filter_In in Hin. tauto. Qed.

Lemma drops_live P s D s' : drops P s D s' -> cache_live s -> cache_live s'.
Proof.
  intros H Hl k o Hk. rewrite (hget_heap s s') by (apply (drops_frame _ _ _ _ H)).
  apply (Hl k). rewrite (drops_cache _ _ _ _ H) in Hk.
  rewrite (lookup_filter_keys (cache s) (fun k => negb (memk k D))) in Hk.
  destruct (negb (memk k D)); [exact Hk | discriminate].
Qed.

(* a key that was not dropped keeps its cache entry and its stored record *)
Lemma drops_kept P s D s' k :
  drops P s D s' -> ~ In k D ->
  lookup (cache s') k = lookup (cache s) k /\ lookup (store s') k = lookup (store s) k.
Proof.
  intros H. induction H as [|s k0 o ob D s' Hk Hob HP Hd IH]; intro Hn; [tauto|].
  assert (Hne : k <> k0) by (intro E; apply Hn; left; congruence).
  destruct IH as [IH1 IH2]; [intro Hi; apply Hn; right; exact Hi|].
  rewrite IH1, IH2. cbn [drop1 save1 cache store set_cache].
  rewrite lookup_remove_other, lookup_upsert_other by exact Hne. tauto.
Qed.

(* a dropped key was cached, is cached no more, and the store holds its
   in-memory record (after the codec) *)
Lemma drops_dropped P s D s' k :
  drops P s D s' -> In k D ->
  exists o ob, lookup (cache s) k = Some o /\ hget s o = Some ob /\
               lookup (cache s') k = None /\
               lookup (store s') k = Some (codec (conf s) (o_rec ob)).
Proof.
  intros H. induction H as [|s k0 o ob D s' Hk Hob HP Hd IH]; intro Hin; [contradiction|].
  destruct (key_eq_dec k k0) as [E|E].
  - subst k0. exists o, ob. split; [exact Hk|]. split; [exact Hob|].
    assert (Hn : ~ In k D).
    { intro Hi. destruct (IH Hi) as [o' [ob' [Hc _]]]. cbn [drop1 save1 cache set_cache] in Hc.
      rewrite lookup_remove_same in Hc. discriminate. }
    destruct (drops_kept _ _ _ _ k Hd Hn) as [H1 H2]. rewrite H1, H2.
    cbn [drop1 save1 cache store set_cache]. rewrite lookup_remove_same, lookup_upsert_same. tauto.
  - destruct Hin as [Hin|Hin]; [congruence|].
    destruct (IH Hin) as [o' [ob' [Hc [Ho' [Hc' Hs']]]]]. exists o', ob'.
    cbn [drop1 save1 cache set_cache] in Hc. rewrite lookup_remove_other in Hc by exact E.
    tauto.
Qed.

Lemma drops_NoDup P s D s' : drops P s D s' -> NoDup D.
Proof.
  intro H. induction H as [|s k0 o ob D s' Hk Hob HP Hd IH]; constructor; [|exact IH].
  intro Hi. destruct (drops_dropped _ _ _ _ k0 Hd Hi) as [o' [ob' [Hc _]]].
  cbn [drop1 save1 cache set_cache] in Hc. rewrite lookup_remove_same in Hc. discriminate.
Qed.

Lemma drops_length P s D s' :
  drops P s D s' -> NoDup (map fst (cache s)) -> length (cache s') + length D = length (cache s).
Proof.
  intros H. induction H as [|s k0 o ob D s' Hk Hob HP Hd IH]; intro Hnd; simpl; [lia|].
  pose proof (length_remove_nodup (cache s) k0 o Hnd Hk) as Hl.
  specialize (IH (NoDup_keys_remove _ _ Hnd)). cbn [drop1 save1 cache set_cache] in IH. lia.
Qed.

(* the persistence calls of a drops sequence: one successful save per dropped
   key, in order, each carrying what the store then holds *)
Lemma drops_evs P s D s' :
  drops P s D s' ->
  exists l, evs s' = l ++ evs s /\ map (fun e => match e with EvSave k _ true => Some k | _ => None end) (rev l) = map Some D.
Proof.
  intro H. induction H as [|s k0 o ob D s' Hk Hob HP Hd IH]; [exists []; split; reflexivity|].
  destruct IH as [l [Hl Hm]]. exists (l ++ [EvSave k0 (codec (conf s) (o_rec ob)) true]). split.
  - rewrite Hl. cbn [drop1 save1 evs set_cache]. rewrite <- app_assoc. reflexivity.
  - rewrite rev_app_distr. simpl. rewrite Hm. reflexivity.
Qed.
