(* Laws of the concrete JSON library, part 4: whatever the parser accepts is
   a tree as json.Unmarshal produces it (is_wire of Proofs/CodecLaws4.v: no Go
   ints, only finite float64 values), so C17_reencodes holds from the byte
   string on. Audit task A8. *)
From Sessions Require Import Model.Base Model.Codec Model.JsonLib Model.Rfc3339 Gen.Layout
  Proofs.BaseLemmas Proofs.CodecText Proofs.CodecDefs Proofs.CodecLaws4
  Proofs.JsonLibOk Proofs.JsonLibOk2 Proofs.JsonLibOk3.
From Coq Require Import Lia ZifyBool ZifyN ZifyNat.
Local Open Scope N_scope.

Ltac Zify.zify_post_hook ::= Z.div_mod_to_equations.

Lemma fin_finite (neg : bool) (bits : N) (s r : bytes) (b : N) :
  fin neg bits s = Some (b, r) -> f64_finite b = true.
Proof.
  unfold fin. destruct (bits <? 2047 * 2 ^ 52) eqn:Hb; [|discriminate].
  intro H. injection H as <- _. unfold f64_finite, sign_bit.
  change (2 ^ 52) with 4503599627370496 in *. change (2 ^ 63) with 9223372036854775808.
  destruct neg; lia.
Qed.

Lemma read_number_finite (s r : bytes) (b : N) : read_number s = Some (b, r) -> f64_finite b = true.
Proof.
  unfold read_number. destruct (rd_sign s) as [neg s1].
  destruct (read_digits s1 0 0) as [[ip icnt] s2].
  destruct (icnt =? 0); [discriminate|].
  destruct (rd_frac s2) as [[[fp fcnt] s3]|]; [|discriminate].
  destruct (rd_exp s3) as [[[[eneg ev]|] s4]|]; [| |discriminate].
  - cbv zeta. apply fin_finite.
  - destruct (fcnt =? 0); [|apply fin_finite].
    cbv zeta. match goal with |- context [f64_finite ?x] => destruct (f64_finite x) eqn:Hf end; [|discriminate].
    intro H. injection H as <- _. exact Hf.
Qed.

Definition wire_res (p : pres) : Prop :=
  match p with Some (d, _) => is_wire d = true | None => True end.

Lemma forallb_rev {A} (f : A -> bool) (l : list A) : forallb f l = true -> forallb f (rev l) = true.
Proof.
  rewrite !forallb_forall. intros H x Hx. apply H. apply in_rev. exact Hx.
Qed.

Lemma parser_wire (fuel : nat) :
  (forall s, wire_res (pval fuel s)) /\
  (forall s acc, forallb is_wire acc = true -> wire_res (ptail fuel s acc)) /\
  (forall s acc, wire_map acc = true -> wire_res (pmtail fuel s acc)).
Proof.
  induction fuel as [|f [IHv [IHt IHm]]]; [repeat split; intros; exact I|].
  split; [|split].
  - intro s. rewrite pval_S. unfold pval_body. destruct s as [|c r]; [exact I|].
    destruct (c =? 110). { unfold expect. destruct (is_prefix lit_null (c :: r)); [reflexivity | exact I]. }
    destruct (c =? 116). { unfold expect. destruct (is_prefix lit_true (c :: r)); [reflexivity | exact I]. }
    destruct (c =? 102). { unfold expect. destruct (is_prefix lit_false (c :: r)); [reflexivity | exact I]. }
    destruct (c =? 34). { destruct (read_str r []) as [[x r']|]; [reflexivity | exact I]. }
    destruct (c =? 91).
    { assert (Hv := IHv r). destruct (pval f r) as [[x r']|].
      - apply IHt. cbn [forallb]. cbn [wire_res] in Hv. rewrite Hv. reflexivity.
      - destruct r as [|c1 r1]; [exact I|]. destruct (c1 =? 93); [reflexivity | exact I]. }
    destruct (c =? 123).
    { destruct (read_key r) as [[k r']|].
      - assert (Hv := IHv r'). destruct (pval f r') as [[x r'']|]; [|exact I].
        apply IHm. unfold wire_map. cbn [forallb snd]. cbn [wire_res] in Hv. rewrite Hv. reflexivity.
      - destruct r as [|c1 r1]; [exact I|]. destruct (c1 =? 125); [reflexivity | exact I]. }
    destruct (read_number (c :: r)) as [[b r']|] eqn:Hn; [|exact I].
    cbn [wire_res is_wire]. exact (read_number_finite _ _ _ Hn).
  - intros s acc Hacc. rewrite ptail_S. unfold ptail_body. destruct s as [|c r]; [exact I|].
    destruct (c =? 93).
    { cbn [wire_res]. rewrite is_wire_DList. apply forallb_rev. exact Hacc. }
    destruct (c =? 44); [|exact I].
    assert (Hv := IHv r). destruct (pval f r) as [[x r']|]; [|exact I].
    apply IHt. cbn [forallb]. cbn [wire_res] in Hv. rewrite Hv. exact Hacc.
  - intros s acc Hacc. rewrite pmtail_S. unfold pmtail_body. destruct s as [|c r]; [exact I|].
    destruct (c =? 125).
    { cbn [wire_res]. rewrite is_wire_DMap. unfold wire_map in *. apply forallb_rev. exact Hacc. }
    destruct (c =? 44); [|exact I].
    destruct (read_key r) as [[k r']|]; [|exact I].
    assert (Hv := IHv r'). destruct (pval f r') as [[x r'']|]; [|exact I].
    apply IHm. unfold wire_map in *. cbn [forallb snd]. cbn [wire_res] in Hv. rewrite Hv. exact Hacc.
Qed.

(* json.Unmarshal yields only trees of the wire domain *)
Lemma jparse_wire (b : bytes) (j : dval) : jparse b = Some j -> is_wire j = true.
Proof.
  unfold jparse. intro H.
  assert (Hw := proj1 (parser_wire (S (length b))) b).
  destruct (pval (S (length b)) b) as [[d r]|]; [|discriminate].
  destruct r; [|discriminate]. injection H as <-. exact Hw.
Qed.

(* whatever UnmarshalJSON accepts from a byte string, MarshalJSON writes again *)
Lemma json_reencodes_bytes (load : loader) :
  (forall id u, load id = Some (Some u) -> reparse u8_coerce (u_id u) <> None) ->
  forall (b : bytes) (s : csess),
    json_unmarshal_bytes load lib_parse_time json_dec b = Ok s ->
    exists w, json_marshal_bytes lib_fmt_time json_enc s = Ok w.
Proof.
  intros Hl b s H. unfold json_unmarshal_bytes in H.
  destruct (jparse b) as [j|] eqn:Hj; [|discriminate].
  destruct (json_reencodes_lemma load lib_fmt_time lib_parse_time u8_coerce Hl j s (jparse_wire _ _ Hj) H) as [w Hm].
  unfold json_marshal in Hm. unfold json_marshal_bytes.
  destruct (json_tree lib_fmt_time json_enc s) as [t| |]; cbn [rbind] in *; try discriminate Hm.
  rewrite reparse_map_rp in Hm. unfold jmarshal.
  destruct (jok (DMap t)); [eexists; reflexivity | discriminate Hm].
Qed.

Example reencodes_nonvacuous :
  exists b s w,
    json_unmarshal_bytes (case_load 0) lib_parse_time json_dec b = Ok s /\
    json_marshal_bytes lib_fmt_time json_enc s = Ok w /\ w = b /\ cs_ua s = 77.
Proof.
  destruct (json_marshal_bytes lib_fmt_time json_enc_v1 (set_data (Some []) ex_placeholder)) as [b| |] eqn:Hb;
    try (vm_compute in Hb; discriminate Hb).
  exists b. vm_compute in Hb. injection Hb as <-.
  eexists. eexists. split; [vm_compute; reflexivity|]. split; [vm_compute; reflexivity|]. split; reflexivity.
Qed.
