(* C10 for requests that presented a REPLACED ID (audit task A9), part 4: the
   handler calls RegenerateID (script [SRegen]) after Start followed the chain
   k0 -> .. -> kn; the process stops after n persistence calls of the step. The
   world after the crash (crash_store_chain) and the requests after the restart
   presenting k0 - what the client holds - or, when every call was made, the new
   ID k(n+1) (chain_restart_old / chain_restart_new). *)
From Sessions Require Import Model.Base Model.Sess Model.Hist Proofs.SessDefs
  Proofs.HistInv Proofs.HistInv2 Proofs.HistInv3.
From Sessions Require Proofs.CrashFault Proofs.CrashFault2 Proofs.CrashFault3 Proofs.CrashFault4 Proofs.CrashFault5
  Proofs.CrashFault6 Proofs.CrashFault8 Proofs.LiveHist4 Proofs.LiveHist8 Proofs.UserHist Proofs.UserHist2.
From Sessions Require Import Proofs.CrashRestart Proofs.CrashRestart2 Proofs.CrashRestart3 Proofs.CrashRestart4
  Proofs.CrashChain Proofs.CrashChain2 Proofs.CrashChain3.
From Coq Require Import Lia.
Import CrashFault CrashFault2 CrashFault3 CrashFault4 CrashFault5 CrashFault6 LiveHist4.
Local Open Scope Z_scope.

Lemma crash_world_supply w r n : rq_crash r = Some n ->
  supply (w_st (fst (step w (HReq r)))) =
  (supply (w_st w) + count_draws (ev_prefix (rev (evs (req_end w r))) n))%N.
Proof.
  intro Hcr. rewrite step_req_eq. cbv zeta. unfold req_end, req_q, pres. rewrite Hcr.
  destruct (req_body _ _ (rq_script r)) as [[[[[s3 rc] st0] sr] fin] cks]. cbn [fst].
  change (evs (set_tb (set_plan s3 []) [])) with (evs s3).
  destruct (fold_left apply_ev (ev_prefix (rev (evs s3)) n) _) as [stor gr].
  reflexivity.
Qed.

Lemma steps_two (I : sgT -> Prop) s1 s0 l0 lR :
  ext s1 s0 l0 -> steps_ok I (sg_of s1) l0 -> steps_ok I (sg_of s0) lR -> steps_ok I (sg_of s1) (l0 ++ lR).
Proof. intros X A B. apply steps_ok_app. split; [exact A|]. rewrite <- (sg_ext _ _ _ X). exact B. Qed.

(* what the three invariants of the step give at the crash point *)
Section AtCrash.
  Variables (w : world) (r : reqstep) (n : nat) (k0 : key) (rest : list key) (F0 : rec -> Prop) (l : list ev).
  Let s1 := req_s1 w r.
  Let E := path_edges k0 rest.
  Let kn := last rest k0.
  Hypothesis Hcr : rq_crash r = Some n.
  Hypothesis Hl : l = rev (evs (req_end w r)).
  Hypothesis SE : steps_ok (fun sg => edges_in (fst sg) E) (sg_of s1) l.
  Hypothesis SR : steps_ok (fun sg => resolves_to F0 (fst sg) kn) (sg_of s1) l.
  Hypothesis SN : steps_ok (fun sg => nodangling_rel (Xmiss s1) (fst sg)) (sg_of s1) l.

  Lemma at_crash :
    let s' := w_st (fst (step w (HReq r))) in
    store s' = frozen (w_st w) l n /\
    (supply (w_st w) <= supply s')%N /\
    edges_in (store s') E /\
    (exists tl, (length tl <= 1)%nat /\ spath F0 (store s') k0 (rest ++ tl)) /\
    resolves_chain F0 (store s') k0 /\
    nodangling_rel (Xmiss (w_st w)) (store s').
  Proof.
    cbv zeta. destruct (crash_world w r n Hcr) as (_ & _ & _ & _ & _ & _ & W6). cbv zeta in W6.
    rewrite <- Hl in W6.
    assert (Hfz : frozen (w_st w) l n = frozen s1 l n) by reflexivity.
    pose proof (steps_frozen (fun stor => edges_in stor E) s1 l SE n) as A.
    pose proof (steps_frozen (fun stor => resolves_to F0 stor kn) s1 l SR n) as B.
    pose proof (steps_frozen (fun stor => nodangling_rel (Xmiss s1) stor) s1 l SN n) as C.
    rewrite <- Hfz, <- W6 in A, B, C.
    split; [exact W6|]. split; [rewrite (crash_world_supply w r n Hcr); lia|]. split; [exact A|].
    destruct (resolves_to_spath F0 _ _ B) as (tl & Htl & Hs).
    assert (Hsp : spath F0 (store (w_st (fst (step w (HReq r))))) k0 (rest ++ tl)) by (apply spath_app; assumption).
    split; [exists tl; split; assumption|]. split; [eapply spath_resolves_chain; exact Hsp | exact C].
  Qed.
End AtCrash.

Lemma steps_storeK (K : key -> rec -> Prop) l : forall sg,
  storeK K (fst sg) -> Forall (QK K) l -> steps_ok (fun sg => storeK K (fst sg)) sg l.
Proof.
  intros sg H HF. apply (steps_inv (fun sg => storeK K (fst sg)) (QK K)); try assumption.
  intros sg0 e. apply storeK_apply.
Qed.

Lemma steps_draw (I : sgT -> Prop) sg d l : steps_ok I sg l -> steps_ok I sg (EvDraw d :: l).
Proof. intro H. cbn [steps_ok]. rewrite apply_draw. split; [eapply steps_ok_here; exact H | exact H]. Qed.

Lemma In_firstn {A} (l : list A) : forall m x, In x (firstn m l) -> In x l.
Proof.
  induction l as [|a l IH]; intros [|m] x H; cbn [firstn] in H; try (destruct H; fail).
  destruct H as [H|H]; [left; exact H | right; eapply IH; exact H].
Qed.

(* a record under an ID that the events before a draw never save under can
   only be in the store once the draw is behind *)
Lemma prefix_draw (K : key -> rec -> Prop) nid (sg0 : sgT) l0 d lR2 m :
  storeK (not_key nid K) (fst sg0) -> Forall (QK (not_key nid K)) l0 ->
  lookup (fst (replay (firstn m (l0 ++ EvDraw d :: lR2)) sg0)) nid <> None ->
  (1 <= count_draws (firstn m (l0 ++ EvDraw d :: lR2)))%N.
Proof.
  intros HS HQ Hl. rewrite firstn_app in *. destruct (le_lt_dec m (length l0)) as [Hle|Hlt].
  - exfalso. replace (m - length l0)%nat with 0%nat in Hl by lia. cbn [firstn] in Hl. rewrite app_nil_r in Hl.
    assert (HQ' : Forall (QK (not_key nid K)) (firstn m l0)).
    { apply Forall_forall. intros e He. rewrite Forall_forall in HQ. apply HQ. eapply In_firstn. exact He. }
    pose proof (storeK_replay (not_key nid K) _ _ HS HQ') as HS'.
    destruct (lookup (fst (replay (firstn m l0) sg0)) nid) as [x|] eqn:E; [|congruence].
    destruct (HS' _ _ E) as [Hne _]. congruence.
  - rewrite firstn_all2 by lia. destruct (m - length l0)%nat as [|j] eqn:Ej; [lia|].
    cbn [firstn]. rewrite count_draws_app. change (EvDraw d :: firstn j lR2) with ([EvDraw d] ++ firstn j lR2).
    rewrite count_draws_app. change (count_draws [EvDraw d]) with 1%N. lia.
Qed.

Lemma Fn_codec D U cf x : (r_ref x = None /\ full D U x) -> (r_ref (codec cf x) = None /\ full D U (codec cf x)).
Proof. intros [A B]. split; [exact A | apply full_codec; exact B]. Qed.

(* the world after the crash, from the state s0 in which the handler starts: s0
   is reached from the request's initial state by Kc-safe events l0 (Start's), is
   Kc-safe itself, and the handle o holds the session, whose ID is the last of
   the chain (rest may be empty: the presented ID is then the current one) *)
Lemma crash_store_of_setup w r n k0 rest D U s0 o ob0 l0 :
  rq_crash r = Some n ->
  (forall d k', In (d, k') (pending (w_st w)) -> now (w_st w) < d) -> 0 < c_grace (conf (w_st w)) ->
  sess_inv s0 -> ext (req_s1 w r) s0 l0 ->
  Forall (QK (Kc (req_s1 w r) (path_edges k0 rest) (last rest k0) (full D U))) l0 ->
  J (Kc (req_s1 w r) (path_edges k0 rest) (last rest k0) (full D U)) (req_s1 w r) ->
  J (Kc (req_s1 w r) (path_edges k0 rest) (last rest k0) (full D U)) s0 ->
  hget s0 o = Some ob0 -> o_id ob0 = last rest k0 ->
  Kc (req_s1 w r) (path_edges k0 rest) (last rest k0) (full D U) (last rest k0) (o_rec ob0) ->
  pending s0 = pending (w_st w) ->
  lookup (store (req_s1 w r)) (last rest k0) <> None -> edges_in (store (req_s1 w r)) (path_edges k0 rest) ->
  req_end w r = fst (fst (run_script s0 o (had_cookie (req_q w r)) [SRegen])) ->
  let s' := w_st (fst (step w (HReq r))) in let nid := KGen (supply (w_st w)) in
  exists l,
    l = rev (evs (req_end w r)) /\
    cache s' = [] /\ plan s' = [] /\ pending s' = [] /\ now s' = now (w_st w) /\ conf s' = conf (w_st w) /\
    (supply (w_st w) <= supply s')%N /\
    store s' = frozen (w_st w) l n /\
    (exists tl, (length tl <= 1)%nat /\ spath (full D U) (store s') k0 (rest ++ tl)) /\
    resolves_chain (full D U) (store s') k0 /\
    ((length l <= n)%nat -> spath (full D U) (store s') k0 (rest ++ [nid]) /\ spath (full D U) (store s') nid []) /\
    nodangling_rel (Xmiss (w_st w)) (store s') /\
    (forall x, lookup (store s') nid = Some x -> r_ref x = None /\ full D U x) /\
    (lookup (store s') nid <> None -> (supply (w_st w) < supply s')%N) /\
    (forall k x, lookup (store s') k = Some x -> r_ref x = Some nid -> k = last rest k0).
Proof.
  intros Hcr Hpend Hg Hsi X0 HQ0 HJ1 HJ0 Ho0 Hid0 HK0 Hpe0 Hkn HE1 Hend. cbv zeta.
  set (s1 := req_s1 w r) in *. set (E := path_edges k0 rest) in *. set (kn := last rest k0) in *.
  destruct Hsi as (Hp0 & Hcok0 & Hn0 & Hf0).
  assert (F2 : ffnd s0) by (split; [exact Hp0 | apply Hn0]).
  pose proof (regenerate_ff s0 o ob0 F2 Ho0) as ER.
  pose proof (supply_ext _ _ _ _ X0 HQ0) as Hsup.
  destruct HK0 as (Hnek & Hrf & Hck & Hak). destruct (Hak eq_refl) as [Hr0 Hfull0].
  assert (Hnc : forall o', ~ In (KGen (supply s0), o') (cache s0)).
  { rewrite Hsup. eapply J_not_key_uncached. exact HJ0. }
  assert (Hkn0 : lookup (store s0) kn <> None) by (eapply store_present_ext; eassumption).
  (* (a) the last ID of the chain keeps resolving *)
  assert (HJa : J (at_keys (fun k => k = kn) (fun x => r_ref x = None /\ full D U x)) s0).
  { eapply J_mono; [|exact HJ0]. intros k x Hx. apply (Kc_res _ _ _ _ _ _ Hx). }
  assert (Hnek' : kn <> KGen (supply s0)) by (rewrite Hsup; exact Hnek).
  destruct (regenerate_resolves s0 kn (full D U) (full_codec D U) (full_access D U) (full_created D U)
              o ob0 _ _ _ HJa Ho0 Hid0 ER (conj Hr0 Hfull0) Hkn0 Hnek' Hnc) as (lR & XR & SRr & HnewR).
  (* (b) the chain's edges stay *)
  assert (Hsrc1 : forall t, ~ In (KGen (supply s0), t) E).
  { intros t Hin. destruct (HE1 _ _ Hin) as (x & A & _). destruct HJ1 as (_ & _ & C). destruct (C _ _ A) as [Hx _].
    apply Hx. rewrite Hsup. reflexivity. }
  assert (Hsrc2 : forall t, ~ In (o_id ob0, t) E).
  { rewrite Hid0. intros t Hin. destruct (HE1 _ _ Hin) as (x & A & B). destruct HJ1 as (_ & _ & C).
    destruct (C _ _ A) as (_ & _ & _ & G). destruct (G eq_refl) as [G1 _]. congruence. }
  assert (HQc : Forall (QK (chainK E)) l0).
  { eapply Forall_impl; [|exact HQ0]. intro e. apply QK_mono. intros k x Hx. eapply Kc_chain. exact Hx. }
  destruct (steps_edges E l0 (sg_of s1) HE1 HQc) as [SE0 EE0].
  assert (HE0 : edges_in (store s0) E) by (rewrite (store_of_ext _ _ _ X0); exact EE0).
  assert (HJc : J (chainK E) s0).
  { eapply J_mono; [|exact HJ0]. intros k x Hx. eapply Kc_chain. exact Hx. }
  destruct (regenerate_chain_kept E s0 o ob0 _ _ _ HJc Ho0 ER Hnc Hsrc1 Hsrc2 HE0) as (lR' & XR' & SEr).
  assert (lR' = lR) by (eapply CrashFault8.appended_unique_ext; eassumption). subst lR'.
  (* (c) no new dangling reference *)
  assert (HQn : Forall (QK (not_key (KGen (supply s1)) (ref_in (T1c s1)))) l0).
  { eapply Forall_impl; [|exact HQ0]. intro e. apply QK_mono. intros k x Hx. eapply Kc_nd. exact Hx. }
  assert (HJn1 : J (not_key (KGen (supply s1)) (ref_in (T1c s1))) s1).
  { eapply J_mono; [|exact HJ1]. intros k x Hx. eapply Kc_nd. exact Hx. }
  assert (HJn0 : J (not_key (KGen (supply s1)) (ref_in (T1c s1))) s0).
  { eapply J_mono; [|exact HJ0]. intros k x Hx. eapply Kc_nd. exact Hx. }
  destruct (regen_nodangling_from s1 (Xmiss s1) l0 s0 o ob0 _ _ _ X0 HQn HJn0 Ho0 Hrf ER) as (lR'' & XR'' & SNr).
  assert (lR'' = lR) by (eapply CrashFault8.appended_unique_ext; eassumption). subst lR''.
  pose proof (pre_nodangling s1 (Xmiss s1) l0 HJn1 HQn) as SN0.
  (* (d) whatever is stored under the new ID is a full copy; the shape of the ID change's events *)
  set (Fn := fun x : rec => r_ref x = None /\ full D U x).
  set (Knid := at_keys (fun k => k = KGen (supply s0)) Fn).
  assert (HJd : J Knid s0).
  { eapply J_mono; [|exact HJ0]. intros k x [Hx _] Hkk. exfalso. apply Hx. rewrite <- Hsup. exact Hkk. }
  destruct (regenerate_safe Knid Knid
              (at_keys_codec Fn (Fn_codec D U) _) (at_keys_access Fn (fun x t h => h) _) (at_keys_created Fn (fun x t h => h) _)
              (at_keys_codec Fn (Fn_codec D U) _) (at_keys_access Fn (fun x t h => h) _) (at_keys_created Fn (fun x t h => h) _)
              s0 o ob0 _ _ _ HJd Ho0 ER Hnc (fun _ => conj Hr0 Hfull0) (fun _ => conj Hr0 Hfull0) (fun k x _ h => h))
    as (l1 & b1 & HQ1 & HKn1 & _ & Hcase).
  destruct Hcase as [(_ & _ & Hres & _)|(-> & l2 & rr & b2 & HQ2 & Hrr & Xe & _)]; [discriminate|].
  set (lR2 := l1 ++ [EvSave (KGen (supply s0)) (codec (conf s0) (set_access (set_created (o_rec ob0) (now s0)) (now s0))) true] ++ l2 ++ [EvSave (o_id ob0) rr b2]) in *.
  assert (ElR : lR = EvDraw (supply s0) :: lR2) by (eapply CrashFault8.appended_unique_ext; eassumption).
  assert (HQd : Forall (QK Knid) lR2).
  { unfold lR2. apply Forall_app. split; [exact HQ1|]. constructor; [apply QK_save; exact HKn1|].
    apply Forall_app. split; [exact HQ2|]. constructor; [|constructor]. apply QK_save.
    intro Hkk. exfalso. apply Hnek'. rewrite <- Hid0. exact Hkk. }
  assert (HQ0d : Forall (QK Knid) l0).
  { eapply Forall_impl; [|exact HQ0]. intro e. apply QK_mono. intros k x [Hx _] Hkk. exfalso. apply Hx. rewrite <- Hsup. exact Hkk. }
  assert (HSd1 : storeK Knid (store s1)).
  { intros k x Hl Hkk. exfalso. destruct HJ1 as (_ & _ & C). destruct (C _ _ Hl) as [Hx _]. apply Hx. rewrite <- Hsup. exact Hkk. }
  pose proof (steps_storeK Knid l0 (sg_of s1) HSd1 HQ0d) as SO0.
  assert (SOr : steps_ok (fun sg => storeK Knid (fst sg)) (sg_of s0) lR).
  { rewrite ElR. apply steps_draw. apply steps_storeK; [|exact HQd].
    change (fst (sg_of s0)) with (store s0). rewrite (store_of_ext _ _ _ X0).
    apply storeK_replay; assumption. }
  (* (e) only the chain's last ID may come to refer to the new ID *)
  set (Kr := fun (k : key) (x : rec) => r_ref x = Some (KGen (supply s0)) -> k = kn).
  assert (HQr0 : Forall (QK Kr) l0).
  { eapply Forall_impl; [|exact HQ0]. intro e. apply QK_mono. intros k x (_ & Hx & _) Hrx. exfalso.
    destruct (Hx _ Hrx) as [_ Hx']. apply Hx'. rewrite Hsup. reflexivity. }
  assert (HSr1 : storeK Kr (store s1)).
  { intros k x Hl Hrx. exfalso. destruct HJ1 as (_ & _ & C). destruct (C _ _ Hl) as (_ & Hx & _).
    destruct (Hx _ Hrx) as [_ Hx']. apply Hx'. rewrite Hsup. reflexivity. }
  assert (HJr : J Kr s0).
  { eapply J_mono; [|exact HJ0]. intros k x (_ & Hx & _) Hrx. exfalso.
    destruct (Hx _ Hrx) as [_ Hx']. apply Hx'. rewrite Hsup. reflexivity. }
  destruct (regenerate_safe Kr Kr (fun cf k x h => h) (fun k x t h => h) (fun k x t h => h)
              (fun cf k x h => h) (fun k x t h => h) (fun k x t h => h)
              s0 o ob0 _ _ _ HJr Ho0 ER Hnc) as (l1' & b1' & HQ1' & HKr1 & _ & Hcase').
  { intro Hrx. congruence. }
  { intro Hrx. congruence. }
  { intros k x _ h. exact h. }
  destruct Hcase' as [(_ & _ & Hres' & _)|(-> & l2' & rr2 & b2' & HQ2' & Hrr' & Xe' & _)]; [discriminate|].
  assert (ElR' : lR = EvDraw (supply s0) :: l1' ++ [EvSave (KGen (supply s0)) (codec (conf s0) (set_access (set_created (o_rec ob0) (now s0)) (now s0))) true] ++ l2' ++ [EvSave (o_id ob0) rr2 b2'])
    by (eapply CrashFault8.appended_unique_ext; eassumption).
  assert (SRk : steps_ok (fun sg => storeK Kr (fst sg)) (sg_of s0) lR).
  { rewrite ElR'. apply steps_draw. apply steps_storeK.
    - change (fst (sg_of s0)) with (store s0). rewrite (store_of_ext _ _ _ X0). apply storeK_replay; assumption.
    - apply Forall_app. split; [exact HQ1'|]. constructor; [apply QK_save; exact HKr1|].
      apply Forall_app. split; [exact HQ2'|]. constructor; [|constructor]. apply QK_save. intros _. exact Hid0. }
  pose proof (steps_storeK Kr l0 (sg_of s1) HSr1 HQr0) as SRk0.
  (* the start phase keeps the last ID resolving *)
  assert (SR0 : steps_ok (fun sg => resolves_to (full D U) (fst sg) kn) (sg_of s1) l0).
  { apply (pre_resolves_gen s1 kn (full D U)); [|exact Hkn|].
    - eapply J_mono; [|exact HJ1]. intros k x Hx. eapply Kc_res. exact Hx.
    - eapply Forall_impl; [|exact HQ0]. intro e. apply QK_mono. intros k x Hx. eapply Kc_res. exact Hx. }
  set (l := l0 ++ lR).
  pose proof (steps_two _ _ _ _ _ X0 SE0 SEr) as SE. pose proof (steps_two _ _ _ _ _ X0 SR0 SRr) as SR.
  pose proof (steps_two _ _ _ _ _ X0 SN0 SNr) as SN. pose proof (steps_two _ _ _ _ _ X0 SO0 SOr) as SO. pose proof (steps_two _ _ _ _ _ X0 SRk0 SRk) as SK. fold l in SE, SR, SN, SO, SK.
  (* the end of the step's API calls *)
  set (s3 := regen s0 o ob0) in *.
  assert (X : ext s1 s3 l) by (eapply ext_trans; eassumption).
  destruct (regen_frames s0 o ob0 F2) as [_ (C1 & C2 & C3 & C4 & C5 & C6 & C7)].
  assert (Hq3 : forall d k', In (d, k') (pending s3) -> now s3 < d).
  { intros d k' Hin. unfold s3, regen in Hin |- *. sst. rewrite C6 in Hin. rewrite C2.
    apply in_app_iff in Hin. destruct Hin as [Hin|[Hin|[]]].
    - rewrite Hpe0 in Hin. rewrite (x_now _ _ _ X0). exact (Hpend d k' Hin).
    - injection Hin as <- _. rewrite C2, C3, (x_now _ _ _ X0), (x_conf _ _ _ X0).
      change (now s1) with (now (w_st w)). change (conf s1) with (conf (w_st w)). lia. }
  destruct (fire_due_same s3 Hq3) as (D1 & D2 & D3 & D4 & D5 & D6 & D7 & D8 & D9 & D10).
  assert (Hend' : req_end w r = fire_due s3).
  { rewrite Hend. cbn [run_script do_sop]. rewrite ER. reflexivity. }
  assert (El : l = rev (evs (req_end w r))).
  { rewrite Hend', D10, (x_evs _ _ _ X). change (evs s1) with (@nil ev). rewrite app_nil_r, rev_involutive. reflexivity. }
  destruct (crash_world w r n Hcr) as (_ & W1 & W2 & W3 & W4 & W5 & _). cbv zeta in *.
  destruct (at_crash w r n k0 rest (full D U) l Hcr El SE SR SN) as (A1 & A2 & A3 & A4 & A5 & A6).
  exists l. split; [exact El|]. split; [exact W1|]. split; [exact W2|]. split; [exact W3|].
  split; [rewrite W4, Hend', D6, (x_now _ _ _ X); reflexivity|].
  split; [rewrite W5, Hend', D8, (x_conf _ _ _ X); reflexivity|].
  split; [exact A2|]. split; [exact A1|]. split; [exact A4|]. split; [exact A5|]. split; [|split; [exact A6|split; [|split]]].
  - intro Hle. rewrite A1. unfold frozen. rewrite ev_prefix_all by exact Hle.
    change (fold_left apply_ev l (store (w_st w), graves (w_st w))) with (replay l (sg_of s1)).
    rewrite <- (store_of_ext _ _ _ X).
    destruct (HnewR eq_refl) as (x & rr' & B1 & [B2 B3] & B4 & B5).
    rewrite Hsup in B1, B5. change (supply s1) with (supply (w_st w)) in B1, B5.
    split; [|exists x; auto].
    apply spath_app; [|fold kn; split; [exists rr'; auto | exists x; auto]].
    rewrite (store_of_ext _ _ _ X).
    pose proof (steps_ok_firstn _ _ _ (length l) SE) as Hfin. rewrite firstn_all in Hfin. exact Hfin.
  - intros x Hx. rewrite A1 in Hx.
    pose proof (steps_frozen (fun stor => storeK Knid stor) s1 l SO n) as HS.
    change (frozen s1 l n) with (frozen (w_st w) l n) in HS. apply (HS _ _ Hx).
    rewrite Hsup. reflexivity.
  - intro Hx. rewrite (crash_world_supply w r n Hcr), <- El.
    destruct (ev_prefix_firstn l n) as [m Em]. rewrite Em.
    rewrite A1 in Hx. unfold frozen in Hx. rewrite Em in Hx.
    assert (Hd : (1 <= count_draws (firstn m l))%N).
    { unfold l in *. rewrite ElR in *.
      apply (prefix_draw (fun _ _ => True) (KGen (supply s1)) (sg_of s1) l0 (supply s0) lR2 m).
      - intros k x Hl. destruct HJ1 as (_ & _ & C). destruct (C _ _ Hl) as [Hx' _]. split; [exact Hx' | exact I].
      - eapply Forall_impl; [|exact HQ0]. intro e. apply QK_mono. intros k x [Hx' _]. split; [exact Hx' | exact I].
      - exact Hx. }
    lia.
  - intros k x Hkx Hrx. rewrite A1 in Hkx.
    pose proof (steps_frozen (fun stor => storeK Kr stor) s1 l SK n) as HS.
    change (frozen s1 l n) with (frozen (w_st w) l n) in HS. apply (HS _ _ Hkx).
    rewrite Hsup. exact Hrx.
Qed.

Theorem crash_store_chain w r n k0 rest D U :
  chain_crash w r n k0 rest D U [SRegen] ->
  let s' := w_st (fst (step w (HReq r))) in let nid := KGen (supply (w_st w)) in
  exists l,
    l = rev (evs (req_end w r)) /\
    cache s' = [] /\ plan s' = [] /\ pending s' = [] /\ now s' = now (w_st w) /\ conf s' = conf (w_st w) /\
    (supply (w_st w) <= supply s')%N /\
    store s' = frozen (w_st w) l n /\
    (exists tl, (length tl <= 1)%nat /\ spath (full D U) (store s') k0 (rest ++ tl)) /\
    resolves_chain (full D U) (store s') k0 /\
    ((length l <= n)%nat -> spath (full D U) (store s') k0 (rest ++ [nid]) /\ spath (full D U) (store s') nid []) /\
    nodangling_rel (Xmiss (w_st w)) (store s') /\
    (forall x, lookup (store s') nid = Some x -> r_ref x = None /\ full D U x) /\
    (lookup (store s') nid <> None -> (supply (w_st w) < supply s')%N) /\
    (forall k x, lookup (store s') k = Some x -> r_ref x = Some nid -> k = last rest k0).
Proof.
  intros Hcc.
  destruct (chain_setup w r n k0 rest D U [SRegen] (full D U) Hcc (fun x h => h) (full_codec D U) (fun x t a u h => h))
    as (s0 & o & ob0 & l0 & Hat & Hsi & X0 & HQ0 & HJ1 & HJ0 & Hc0 & Ho0 & Hid0 & HK0 & Hu0 & Hpe0 & Hkn & HE1 & Hend).
  pose proof Hcc as [Hinv Hpl Hcr Hsc Hk Hne Hm Hcont Hfuel Hval Hg Hpend].
  exact (crash_store_of_setup w r n k0 rest D U s0 o ob0 l0 Hcr Hpend Hg Hsi X0 HQ0 HJ1 HJ0 Ho0 Hid0 HK0 Hpe0 Hkn HE1 Hend).
Qed.

(* ------------------------------------------ the request after the restart *)

Lemma full_ip D U x a : full D U x -> full D U (set_ip x a). Proof. exact (fun H => H). Qed.
Lemma full_ua D U x a : full D U x -> full D U (set_ua x a). Proof. exact (fun H => H). Qed.

(* C10_restart for the presented (replaced) ID: after a crash at ANY
   persistence-call boundary of the step, the next request (any script, any
   client or a forged cookie) presenting k0 is served: Start follows the chain
   and returns a session, not a replaced-ID record, with the data and user the
   session had *)
Theorem chain_restart_old w r n k0 rest D U r2 :
  chain_crash w r n k0 rest D U [SRegen] ->
  let w' := fst (step w (HReq r)) in
  rq_plan r2 = [] -> rq_crash r2 = None -> pres w' r2 = CKey k0 ->
  (forall rk, lookup (store (w_st w')) k0 = Some rk ->
     probe_ok (conf (w_st w)) (now (w_st w)) (probe_q k0 r2) rk) ->
  ob_res (snd (step w' (HReq r2))) = RSess /\
  exists id rc, ob_start (snd (step w' (HReq r2))) = Some (id, rc) /\ r_ref rc = None /\ full D U rc.
Proof.
  intros Hcc w' Hpl Hcr Hk Hok.
  destruct (crash_store_chain w r n k0 rest D U Hcc)
    as (l & _ & C1 & C2 & _ & C3 & C4 & C5 & _ & (tl & Htl & Hsp) & _).
  fold w' in C1, C2, C3, C4, C5, Hsp.
  apply (probe_chain_step (full D U) w' r2 k0 (rest ++ tl) (full_codec D U) (full_access D U) (full_created D U)
           (full_ip D U) (full_ua D U) C2 C1 Hpl Hcr Hk Hsp).
  - rewrite app_length. pose proof (cc_fuel _ _ _ _ _ _ _ _ Hcc). lia.
  - rewrite C3, C4. exact Hok.
Qed.

(* ... and the new ID k(n+1), when the process stopped after the last
   persistence call of the step *)
Theorem chain_restart_new w r n k0 rest D U r2 :
  chain_crash w r n k0 rest D U [SRegen] ->
  let w' := fst (step w (HReq r)) in let nid := KGen (supply (w_st w)) in
  (length (evs (req_end w r)) <= n)%nat ->
  rq_plan r2 = [] -> rq_crash r2 = None -> pres w' r2 = CKey nid ->
  (forall rk, lookup (store (w_st w')) nid = Some rk ->
     probe_ok (conf (w_st w)) (now (w_st w)) (probe_q nid r2) rk) ->
  ob_res (snd (step w' (HReq r2))) = RSess /\
  exists id rc, ob_start (snd (step w' (HReq r2))) = Some (id, rc) /\ r_ref rc = None /\ full D U rc.
Proof.
  intros Hcc w' nid Hn Hpl Hcr Hk Hok.
  destruct (crash_store_chain w r n k0 rest D U Hcc)
    as (l & El & C1 & C2 & _ & C3 & C4 & C5 & _ & _ & _ & Hnew & _).
  fold w' in C1, C2, C3, C4, C5, Hnew.
  assert (Hle : (length l <= n)%nat) by (rewrite El, rev_length; exact Hn).
  destruct (Hnew Hle) as [_ Hsp].
  apply (probe_chain_step (full D U) w' r2 nid [] (full_codec D U) (full_access D U) (full_created D U)
           (full_ip D U) (full_ua D U) C2 C1 Hpl Hcr Hk Hsp).
  - cbn [length]. lia.
  - rewrite C3, C4. exact Hok.
Qed.

Lemma path_edges_last x : forall rest k0, In (last rest k0, x) (path_edges k0 (rest ++ [x])).
Proof.
  induction rest as [|k1 t IH]; intro k0; [left; reflexivity|].
  cbn [app path_edges]. right. rewrite last_cons. apply IH.
Qed.

(* when every call of the step was made, the client's old cookie k0 leads to the
   session THROUGH the new ID: the chain is now k0 -> .. -> kn -> k(n+1) *)
Theorem chain_restart_old_via_new w r n k0 rest D U :
  chain_crash w r n k0 rest D U [SRegen] ->
  let w' := fst (step w (HReq r)) in let nid := KGen (supply (w_st w)) in
  (length (evs (req_end w r)) <= n)%nat ->
  spath (full D U) (store (w_st w')) k0 (rest ++ [nid]) /\
  (exists rr, lookup (store (w_st w')) (last rest k0) = Some rr /\ r_ref rr = Some nid).
Proof.
  intros Hcc w' nid Hn.
  destruct (crash_store_chain w r n k0 rest D U Hcc)
    as (l & El & _ & _ & _ & _ & _ & _ & _ & _ & _ & Hnew & _).
  fold w' in Hnew. assert (Hle : (length l <= n)%nat) by (rewrite El, rev_length; exact Hn).
  destruct (Hnew Hle) as [Hsp _]. split; [exact Hsp|].
  apply (spath_edges (full D U) _ _ _ Hsp). apply path_edges_last.
Qed.
