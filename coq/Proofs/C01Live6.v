(* C01, liveness half, part 6: the theorem. Along every admissible history
   (cookie-following clients with any scripts, no faults, crashes or cache loss, the
   clock not running backwards, configuration changes keeping the codec and the
   peer/agent rules) every request for which the promise is due — cache enabled,
   sane durations, less than SessionExpiry (minus the codec's resolution) after
   the client's last accepted request, same peer, same agent — is served: Start
   returns the presented ID's own session, and (safety half) with the content
   the ghost specification has for the client. *)
From Sessions Require Import Model.Base Model.Sess Model.Hist Model.Corr Proofs.SessDefs
  Proofs.WriteThrough Proofs.WriteThrough4 Proofs.WriteThrough5 Proofs.RotateLaws3
  Proofs.C01Spec Proofs.C01Hist Proofs.C01Hist4 Proofs.C01Hist7 Proofs.C01Hist10 Proofs.C01Hist11
  Proofs.C01Live Proofs.C01Live2 Proofs.C01Live3 Proofs.C01Live4 Proofs.C01Live5 Proofs.C01Peer5.
From Sessions Require Proofs.HistInv Proofs.HistInv3 Proofs.StartLaws4 Proofs.LiveHist4 Proofs.LiveHist5 Proofs.LiveHist6.
From Coq Require Import Lia.

(* every admissible hop keeps the invariant and the promise *)
Theorem LI_step_full j n b w g cf lg h :
  LI j n b w g cf lg -> live_hop n b j h = true ->
  fst (l_step2 live_cond (cf, lg) w h (snd (step w h))) = true /\
  LI j n b (fst (step w h)) (snd (g_step g h (snd (step w h))))
     (fst (snd (l_step2 live_cond (cf, lg) w h (snd (step w h)))))
     (snd (snd (l_step2 live_cond (cf, lg) w h (snd (step w h))))).
Proof. exact (LI_step j n b (peer_foreign j n b) (peer_own j n b) w g cf lg h). Qed.

(* the liveness half of C01 *)
Theorem c01_liveness c hs :
  forallb (live_hop (c_acceptip c) (c_acceptua c) (c_json c)) hs = true ->
  l_run2 live_cond (c, []) (mkWorld (init_st c) []) hs = true.
Proof.
  intro H.
  exact (live_from (c_json c) (c_acceptip c) (c_acceptua c)
           (peer_foreign _ _ _) (peer_own _ _ _) hs _ [] c [] (LI_init c) H).
Qed.

(* ---------------------------------------------------- the readable form *)

(* the liveness ghost after a history *)
Fixpoint l_after2 (cl : cfg * list (N * lrec)) (w : world) (hs : list hop) : cfg * list (N * lrec) :=
  match hs with
  | [] => cl
  | h :: t => let '(w', o) := step w h in l_after2 (snd (l_step2 live_cond cl w h o)) w' t
  end.

Lemma LI_after j n b : forall hs w g cf lg,
  LI j n b w g cf lg -> forallb (live_hop n b j) hs = true ->
  LI j n b (HistInv3.after w hs) (g_after g hs (run_from w hs))
     (fst (l_after2 (cf, lg) w hs)) (snd (l_after2 (cf, lg) w hs)).
Proof.
  induction hs as [|h t IH]; intros w g cf lg HL Hhs; [exact HL|].
  cbn [forallb] in Hhs. apply andb_prop in Hhs. destruct Hhs as [Hh Ht].
  destruct (LI_step_full j n b w g cf lg h HL Hh) as [_ HL'].
  cbn [l_after2 run_from HistInv3.after]. destruct (step w h) as [w' o]. cbn [fst snd g_after] in *.
  destruct (l_step2 live_cond (cf, lg) w h o) as [ok [cf' lg']]. cbn [fst snd] in *.
  apply (IH w' _ cf' lg' HL' Ht).
Qed.

(* a request for which the promise is due, in a state satisfying the invariant *)
Lemma due_step j n b w g cf lg r t0 a0 u0 :
  LI j n b w g cf lg -> wf_req r = true -> rq_present r = PJar ->
  l_get lg (rq_client r) = Some (t0, a0, u0) ->
  live_cond cf (now (w_st w)) (t0, a0, u0) (rq_addr r) (rq_ua r) = true ->
  served w r = true /\
  ob_res (snd (step w (HReq r))) = RSess /\
  exists id rc, ob_start (snd (step w (HReq r))) = Some (id, rc) /\
                g_get g (rq_client r) = Some (content_of rc).
Proof.
  intros [HJ HW Hcf Hn Hb Hown] Hwf Hpj Eg Ec.
  destruct (Hown _ t0 a0 u0 Eg) as (k & HO & HP).
  unfold live_cond in Ec. cbn [fst snd] in Ec.
  repeat (apply andb_prop in Ec; destruct Ec as [Ec ?]).
  repeat match goal with
         | E : (_ <=? _)%Z = true |- _ => apply Z.leb_le in E
         | E : (_ <? _)%Z = true |- _ => apply Z.ltb_lt in E
         | E : N.eqb _ _ = true |- _ => apply N.eqb_eq in E
         | E : addr_eqb _ _ = true |- _ => apply addr_eqb_eq in E
         end.
  subst a0 u0. rewrite <- Hcf in *.
  destruct (LiveHist6.owns_L j _ k _ w HO) as (r0 & HL & Hrf & Hlb & _).
  pose proof HO as ((_ & Hj & _) & Hjar & _ & Hle).
  destruct (HP r0 HL) as [Hip Hua]. rewrite <- Hn in Hip. rewrite <- Hb in Hua.
  destruct (live_step w g r k r0 HJ Hwf Hpj Hjar HL Hrf) as (A & B & id & rc & C & _ & D).
  - unfold valid_for. cbn [q_addr q_ua]. rewrite Hip, Hua.
    rewrite (LiveHist5.not_stale (conf (w_st w)) r0 (now (w_st w)) (fl j t0) j Hlb Hle); [reflexivity|].
    pose proof (LiveHist4.fl_slack j t0) as Hs.
    match goal with E : (_ - t0 + StartLaws4.slack _ < _)%Z |- _ => unfold StartLaws4.slack in E; rewrite Hj in E end.
    lia.
  - split; assumption.
  - split; [exact A|]. split; [exact B|]. exists id, rc. auto.
Qed.

(* After any admissible history: a request of a cookie-following client whose
   last accepted request (as the liveness ghost recorded it) lies less than
   SessionExpiry minus the codec's resolution back, from the same peer with the
   same agent, cache enabled, sane durations: Start returns the presented ID's
   own session (no deletion cookie), the step reports a session, and its content
   is what the ghost specification of the safety half has for the client. *)
Theorem c01_served_spec c hs r t0 a0 u0 :
  forallb (live_hop (c_acceptip c) (c_acceptua c) (c_json c)) (hs ++ [HReq r]) = true ->
  let w := HistInv3.after (mkWorld (init_st c) []) hs in
  let g := g_after [] hs (run c hs) in
  let cl := l_after2 (c, []) (mkWorld (init_st c) []) hs in
  l_get (snd cl) (rq_client r) = Some (t0, a0, u0) ->
  live_cond (fst cl) (now (w_st w)) (t0, a0, u0) (rq_addr r) (rq_ua r) = true ->
  served w r = true /\
  ob_res (snd (step w (HReq r))) = RSess /\
  exists id rc, ob_start (snd (step w (HReq r))) = Some (id, rc) /\
                g_get g (rq_client r) = Some (content_of rc).
Proof.
  intro Hhs. cbv zeta. intros Eg Ec.
  rewrite forallb_app in Hhs. apply andb_prop in Hhs. destruct Hhs as [H1 H2].
  cbn [forallb] in H2. rewrite Bool.andb_true_r in H2.
  pose proof (LI_after _ _ _ hs _ [] c [] (LI_init c) H1) as HL.
  destruct (live_hop_parts _ _ _ _ H2) as (_ & Hwf & Hc01 & _).
  unfold run. apply (due_step _ _ _ _ _ _ _ r t0 a0 u0 HL Hwf (c01_wf_pjar r Hc01) Eg Ec).
Qed.

(* ---------------------------------------------------------- non-vacuity *)

(* the history of C01Live.v up to its cache loss *)
Definition hist_live2 : list hop := firstn 23 hist_live.

(* at which requests the promise was due *)
Fixpoint l_due (cl : cfg * list (N * lrec)) (w : world) (hs : list hop) : list bool :=
  match hs with
  | [] => []
  | h :: t =>
    let '(w', o) := step w h in
    let cl' := snd (l_step2 live_cond cl w h o) in
    match h with
    | HReq r => match l_get (snd cl) (rq_client r) with
                | Some x => live_cond (fst cl) (now (w_st w)) x (rq_addr r) (rq_ua r)
                | None => false
                end :: l_due cl' w' t
    | _ => l_due cl' w' t
    end
  end.

Example hist_live2_admissible :
  forallb (fun x : Z * Z * bool =>
             forallb (live_hop 3 false (snd x)) hist_live2)
          [(0, 1, false); (0, 10, true); (max64, 1, true); (max64, -1, false); (300000000000, 1, false)]%Z = true /\
  (* the promise is due at 5 of the 13 requests (cache size 1, JSON, no rotation) *)
  l_due (cfL max64 1 true, []) (mkWorld (init_st (cfL max64 1 true)) []) hist_live2 =
    [false; false; false; true; false; true; true; false; false; false; true; true; false].
Proof. vm_compute. split; reflexivity. Qed.

Example hist_live2_live :
  l_run2 live_cond (cfL max64 1 true, []) (mkWorld (init_st (cfL max64 1 true)) []) hist_live2 = true /\
  l_run2 live_cond (cfL 0 1 false, []) (mkWorld (init_st (cfL 0 1 false)) []) hist_live2 = true.
Proof. split; apply c01_liveness; vm_compute; reflexivity. Qed.

(* the size-1 caveat, concretely: cache size 1, rotation on every request. The
   second request (from an address the pattern does not match) is accepted and
   reported with that peer (C06_moves), but the session's object left the cache
   inside RegenerateID, so what the new ID resolves to still records the first
   peer — which accepts the second request's, as peer_own says, but is not it. *)
Example peer_not_moved_size1 :
  let hs := [rq' 1 (V4 10 0 0 1 80) 7 true []; HWait 10] in
  let w := HistInv3.after (mkWorld (init_st (cfR 1)) []) hs in
  let st := step w (rq' 1 (AOther 5) 7 false []) in
  option_map (fun x => r_ip (snd x)) (ob_start (snd st)) = Some (AOther 5) /\
  ob_jar (snd st) = CKey (KGen 1) /\
  option_map r_ip (L (w_st (fst st)) (KGen 1)) = Some (V4 10 0 0 1 80) /\
  (* with room for two sessions the peer is moved *)
  option_map r_ip (L (w_st (fst (step (HistInv3.after (mkWorld (init_st (cfR 2)) []) hs)
                                   (rq' 1 (AOther 5) 7 false [])))) (KGen 1)) = Some (AOther 5).
Proof. vm_compute. repeat split. Qed.

(* ------------------------------------------------ the vocabulary, unfolded *)

Lemma live_hop_meaning n b j h :
  live_hop n b j h =
  match h with
  | HReq _ => c01_hop h
  | HWait d => (0 <=? d)%Z
  | HPurge _ pl | HLogoutUser _ _ pl | HRefreshUser _ _ pl => nil_plan pl
  | HDropCache | HRestart => false
  | HSetCfg c' => Bool.eqb (c_json c') j && (c_acceptip c' =? n)%Z && Bool.eqb (c_acceptua c') b
  end.
Proof. reflexivity. Qed.

Lemma live_cond_meaning cf t t0 a0 u0 a u :
  live_cond cf t (t0, a0, u0) a u =
  negb (c_maxcache cf =? 0)%Z && (0 <=? c_expiry cf)%Z && (0 <=? c_grace cf)%Z && (c_idexpiry cf <=? max64)%Z &&
  (t - t0 + StartLaws4.slack cf <? c_expiry cf)%Z && addr_eqb a0 a && N.eqb u0 u.
Proof. reflexivity. Qed.

Lemma served_meaning w r :
  served w r =
  match start (set_tb (set_plan (set_evs (w_st w) []) (rq_plan r)) (rq_tb r))
              (mkReq (jar_of (w_jars w) (rq_client r)) (rq_create r) (rq_addr r) (rq_ua r)) with
  | (_, Ok (Some _), CkDelete :: _) => false
  | (_, Ok (Some _), _) => true
  | _ => false
  end.
Proof. reflexivity. Qed.

Lemma l_step2_req_meaning cond cf lg w r o :
  l_step2 cond (cf, lg) w (HReq r) o =
  (match l_get lg (rq_client r) with
   | Some x => if cond cf (now (w_st w)) x (rq_addr r) (rq_ua r) then served w r else true
   | None => true
   end,
   (cf, match ob_start o, ob_jar o with
        | Some _, CKey _ =>
          if (c_maxcache cf =? 0)%Z || existsb is_destroy (rq_script r) then l_del lg (rq_client r)
          else l_set lg (rq_client r) (now (w_st w), rq_addr r, rq_ua r)
        | _, _ => l_del lg (rq_client r)
        end)).
Proof. reflexivity. Qed.

Lemma LI_meaning j n b w g cf lg :
  LI j n b w g cf lg <->
  JI w g /\ W j w /\ conf (w_st w) = cf /\ c_acceptip cf = n /\ c_acceptua cf = b /\
  (forall c t0 a0 u0, l_get lg c = Some (t0, a0, u0) ->
     exists k, owns j c k (fl j t0) w /\ peer_ok n b a0 u0 (w_st w) k).
Proof.
  split.
  - intros [A B C D E F]. auto 10.
  - intros (A & B & C & D & E & F). constructor; assumption.
Qed.

Lemma peer_ok_meaning n b a0 u0 s k :
  peer_ok n b a0 u0 s k <->
  (forall r, L s k = Some r -> ip_ok n (r_ip r) a0 = true /\ ua_ok b (r_ua r) u0 = true).
Proof. reflexivity. Qed.
