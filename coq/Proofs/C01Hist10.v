(* C01, history level, part 10: request steps of cookie-following clients
   preserve the jar invariant and are admissible for the ghost specification;
   the history theorem (the safety half of C01). *)
From Sessions Require Import Model.Base Model.Sess Model.Hist Model.Corr Proofs.SessDefs
  Proofs.WriteThrough Proofs.WriteThrough2 Proofs.WriteThrough3 Proofs.WriteThrough4 Proofs.WriteThrough5
  Proofs.RotateLaws Proofs.RotateLaws2
  Proofs.C01Spec Proofs.C01Hist Proofs.C01Hist2 Proofs.C01Hist3 Proofs.C01Hist4 Proofs.C01Hist5
  Proofs.C01Hist6 Proofs.C01Hist7 Proofs.C01Hist8 Proofs.C01Hist9.
From Sessions Require Proofs.HistInv Proofs.HistInv3.
From Coq Require Import Lia.

(* the invariant after a request step of client c, from what the body did *)
Lemma JI_req w g c jar' s3 g' U x :
  JI w g -> Inv noex s3 -> GR s3 -> HistInv3.winv 0 HistInv.ND s3 -> (supply (w_st w) <= supply s3)%N ->
  (forall k, CKey k <> jar_of (w_jars w) c -> key_drawn (w_st w) k ->
     view s3 k = None \/ view s3 k = dropl U (view (w_st w) k)) ->
  (forall dd k, In (dd, k) (pending s3) ->
     In (dd, k) (pending (w_st w)) \/ CKey k = jar_of (w_jars w) c \/ ~ key_drawn (w_st w) k) ->
  (forall c0, c0 <> c -> g_get g' c0 = option_map (dropd U) (g_get g c0)) ->
  g_get g' c = x -> jar_ok s3 jar' x ->
  (forall kk, jar' = CKey kk -> CKey kk = jar_of (w_jars w) c \/ ~ key_drawn (w_st w) kk) ->
  JI (mkWorld s3 (jar_set (w_jars w) c jar')) g'.
Proof.
  intros [J1 J2 J3 J4 J5] HI HG HW Hu Hv Hp Hgo Hgc Hjc Hsep.
  assert (Hdr : forall c0 k, jar_of (w_jars w) c0 = CKey k -> key_drawn (w_st w) k).
  { intros c0 k Hj. specialize (J4 c0). rewrite Hj in J4. destruct (g_get g c0) as [d|]; cbn in J4.
    - destruct J4 as (k' & E & Hd & _). injection E as <-. exact Hd.
    - discriminate J4. }
  assert (Hsepc : forall c2 kk, c2 <> c -> jar' = CKey kk -> jar_of (w_jars w) c2 <> CKey kk).
  { intros c2 kk Hne Hj Hj2. destruct (Hsep kk Hj) as [H|H].
    - apply (J5 c c2 kk); [congruence | symmetry; exact H | exact Hj2].
    - apply H. apply (Hdr c2 kk Hj2). }
  constructor; cbn [w_st w_jars]; auto.
  - intro c0. destruct (N.eq_dec c0 c) as [->|Hne].
    + rewrite jar_of_set_same, Hgc. exact Hjc.
    + rewrite jar_of_set_other by exact Hne. rewrite (Hgo c0 Hne).
      specialize (J4 c0). destruct (g_get g c0) as [d|]; cbn [option_map jar_ok] in *; [|exact J4].
      destruct J4 as (k & Hj & Hd & Hpe & Hvk). exists k. split; [exact Hj|].
      assert (Hkc : CKey k <> jar_of (w_jars w) c).
      { intro E. apply (J5 c c0 k); [congruence | symmetry; exact E | exact Hj]. }
      split; [apply (key_drawn_mono (w_st w) s3 k Hu Hd)|]. split.
      * intros dd H. destruct (Hp dd k H) as [H'|[H'|H']]; [apply (Hpe dd H') | contradiction | contradiction].
      * destruct (Hv k Hkc Hd) as [H|H]; [left; exact H|]. rewrite H.
        destruct Hvk as [->| ->]; [left; apply dropl_none | right; apply dropl_dropd].
  - intros c1 c2 kk Hne. destruct (N.eq_dec c1 c) as [->|H1]; [|destruct (N.eq_dec c2 c) as [->|H2]].
    + rewrite jar_of_set_same, jar_of_set_other by congruence. intro Hj. apply Hsepc; [congruence | exact Hj].
    + rewrite jar_of_set_same, jar_of_set_other by congruence. intros Hj Hj'.
      apply (Hsepc c1 kk H1 Hj' Hj).
    + rewrite !jar_of_set_other by assumption. apply J5. exact Hne.
Qed.

Lemma kgen_of_fresh s k : ~ key_drawn s k -> exists m, k = KGen m /\ (supply s <= m)%N.
Proof. destruct k as [m|m]; cbn; intro H; [exists m; split; [reflexivity | lia] | exfalso; apply H; exact I]. Qed.

Lemma step_req_JI w g r j :
  JI w g -> c_json (conf (w_st w)) = j -> wf_req r = true -> rq_present r = PJar ->
  JI (fst (step w (HReq r))) (snd (g_step g (HReq r) (snd (step w (HReq r))))) /\
  fst (g_step g (HReq r) (snd (step w (HReq r)))) = true.
Proof.
  intros HJ Hj Hwf Hpj. pose proof (ji_inv _ _ HJ) as HI. pose proof (ji_gr _ _ HJ) as HG.
  unfold wf_req in Hwf. apply andb_prop in Hwf. destruct Hwf as [Hpl Hcr].
  assert (Hpl' : rq_plan r = []) by (destruct (rq_plan r); [reflexivity | discriminate]).
  assert (Hcr' : rq_crash r = None) by (destruct (rq_crash r); [discriminate | reflexivity]).
  assert (HW' : HistInv3.winv 0 HistInv.ND (w_st (fst (step w (HReq r))))).
  { destruct (HistInv3.step_winv 0 HistInv.ND w (HReq r) (ji_pf _ _ HJ) Hpl') as (b' & HW & Hb & _).
    rewrite <- Hb; [exact HW | exact Hcr']. }
  revert HW'. rewrite (step_req_shape w r Hpl' Hcr' Hpj). cbv zeta.
  set (c := rq_client r). set (jar := jar_of (w_jars w) c).
  set (q := mkReq jar (rq_create r) (rq_addr r) (rq_ua r)).
  set (s1 := set_tb (set_plan (set_evs (w_st w) []) []) (rq_tb r)).
  assert (Hp : plan (w_st w) = []) by apply (inv_plan _ _ HI).
  assert (Hc1 : WriteThrough.core (w_st w) = WriteThrough.core s1) by (apply core_prep; exact Hp).
  assert (HI1 : Inv noex s1) by (apply (Inv_core noex _ _ Hc1 HI)).
  assert (HG1 : GR s1) by (apply (GR_core _ _ Hc1); auto).
  assert (Hv1 : forall k, view s1 k = view (w_st w) k) by (intro k; apply view_core; exact Hc1).
  pose proof (ji_jar _ _ HJ c) as Hjc. fold jar in Hjc.
  assert (Hjar : forall k, q_cookie q = CKey k ->
            (forall dd, ~ In (dd, k) (pending s1)) /\ (view s1 k = None \/ exists d, view s1 k = Some (None, d))).
  { intros k Hq. cbn in Hq. rewrite Hq in Hjc. destruct (g_get g c) as [d|]; cbn in Hjc; [|discriminate Hjc].
    destruct Hjc as (k' & E & _ & Hpe & Hvk). injection E as <-. split; [exact Hpe|]. rewrite Hv1.
    destruct Hvk as [H|H]; [left; exact H | right; eauto]. }
  assert (Hno : forall n, q_cookie q <> COther n).
  { intros n Hq. cbn in Hq. rewrite Hq in Hjc. destruct (g_get g c) as [d|]; cbn in Hjc.
    - destruct Hjc as (k' & E & _). discriminate E.
    - discriminate Hjc. }
  destruct (req_body s1 q (rq_script r)) as [[[[[s3 rc] st0] sr] fin] cks] eqn:Hrb.
  destruct (req_body_eff s1 q (rq_script r) s3 rc st0 sr fin cks HI1 HG1 Hjar Hno Hrb)
    as (HI3 & HG3 & Hu3 & U & Hv3 & Hp3 & Hst).
  pose proof (req_body_draws (w_st w) q (rq_script r) (ji_pf _ _ HJ) (rq_tb r) s3 rc st0 sr fin cks Hrb) as Hdraws.
  set (s3' := set_tb (set_plan s3 []) []).
  assert (Hc3 : WriteThrough.core s3 = WriteThrough.core s3') by (apply core_fin; apply (inv_plan _ _ HI3)).
  assert (HI3' : Inv noex s3') by (apply (Inv_core noex _ _ Hc3 HI3)).
  assert (HG3' : GR s3') by (apply (GR_core _ _ Hc3); auto).
  assert (Hv33 : forall k, view s3' k = view s3 k) by (intro k; apply view_core; exact Hc3).
  set (jar' := apply_cookies jar cks).
  cbn [fst snd w_st]. intro HW'.
  assert (Hfr : forall k, CKey k <> jar_of (w_jars w) c -> key_drawn (w_st w) k ->
                  view s3' k = None \/ view s3' k = dropl U (view (w_st w) k)).
  { intros k H1 H2. rewrite Hv33, <- Hv1. apply Hv3; [exact H1 | exact H2]. }
  assert (Hpf : forall dd k, In (dd, k) (pending s3') ->
                  In (dd, k) (pending (w_st w)) \/ CKey k = jar_of (w_jars w) c \/ ~ key_drawn (w_st w) k).
  { intros dd k H. apply (Hp3 dd k H). }
  assert (Hu3' : (supply (w_st w) <= supply s3')%N) by exact Hu3.
  cbn [g_step ob_start mk_obs ob_script ob_evs ob_jar].
  destruct st0 as [[id rc0]|].
  - (* Start returned a session *)
    destruct Hst as (Horg & Hidd & gfin & Hgs & Hfin). fold c.
    rewrite Hgs.
    set (g1 := match gfin with Some d => g_set g c d | None => g_del g c end).
    change (fold_left _ U g1) with (ex_fold c U g1). cbn [fst snd].
    split.
    + apply (JI_req w g c jar' s3' _ U (g_get g1 c) HJ HI3' HG3' HW' Hu3' Hfr Hpf).
      * intros c0 Hne. rewrite (ex_fold_other c c0 U Hne). unfold g1.
        destruct gfin; [rewrite g_get_set_other by exact Hne | rewrite g_get_del_other by exact Hne]; reflexivity.
      * apply ex_fold_own.
      * unfold g1. destruct gfin as [d'|].
        -- rewrite g_get_set_same. destruct Hfin as (id' & Hck & Hd' & Hpe' & Hvw' & _).
           exists id'. split; [exact Hck|]. split; [exact Hd'|]. split; [exact Hpe'|]. right. rewrite Hv33. exact Hvw'.
        -- rewrite g_get_del_same. exact Hfin.
      * intros kk Hjk. destruct gfin as [d'|].
        -- destruct Hfin as (id' & Hck & _ & _ & _ & Hor). unfold jar' in Hjk. cbn [q_cookie q] in Hck.
           rewrite Hck in Hjk. injection Hjk as <-. exact Hor.
        -- unfold jar' in Hjk. cbn [q_cookie q] in Hfin. rewrite Hfin in Hjk. discriminate Hjk.
    + (* admissible *)
      destruct Horg as [[Hfresh Hemp]|(k & Hq & Hvk)].
      * destruct (kgen_of_fresh s1 id Hfresh) as (m & -> & Hm).
        assert (Hdi : drawn_in (rev (evs s3')) (KGen m) = true).
        { apply Hdraws. split; [exact Hm | exact Hidd]. }
        rewrite Hemp, Hdi. cbn. destruct (g_get g c); [apply Bool.orb_true_r | reflexivity].
      * cbn in Hq. rewrite Hq in Hjc. destruct (g_get g c) as [d|]; cbn in Hjc; [|discriminate Hjc].
        destruct Hjc as (k' & E & _ & _ & Hvw). injection E as <-. rewrite Hv1 in Hvk.
        destruct Hvw as [Hvw|Hvw]; rewrite Hvw in Hvk; [discriminate Hvk|]. injection Hvk as <-.
        rewrite gdata_eqb_refl. reflexivity.
  - (* no session *)
    destruct Hst as (-> & Hjr). split; [|reflexivity]. cbn [snd]. fold c.
    assert (Hcases : (jar' = CNone) \/ (exists k, jar' = CKey k /\ jar = CKey k /\ view s3 k = None /\
                                                  forall dd, ~ In (dd, k) (pending s3))).
    { destruct Hjr as [H|[H1 H2]]; [left; exact H|]. cbn [q_cookie q] in *. fold jar' in H1.
      destruct jar as [|k|n] eqn:Ej; [left; exact H1 | right | exfalso; apply (Hno n); reflexivity].
      exists k. destruct (H2 k eq_refl) as [A B]. auto. }
    destruct Hcases as [Hn|(k & Hj' & Hjk & Hdead & Hpe)].
    + rewrite Hn.
      apply (JI_req w g c CNone s3' _ [] None HJ HI3' HG3' HW' Hu3' Hfr Hpf).
      * intros c0 Hne. rewrite g_get_del_other by exact Hne. destruct (g_get g c0); cbn; [rewrite dropd_nil|]; reflexivity.
      * apply g_get_del_same.
      * reflexivity.
      * intros kk H. discriminate H.
    + rewrite Hj'. fold jar in Hjk. rewrite Hjk in Hjc.
      destruct (g_get g c) as [d|] eqn:Eg; cbn in Hjc; [|discriminate Hjc].
      destruct Hjc as (k' & E & Hd & _). injection E as <-.
      apply (JI_req w g c (CKey k) s3' g [] (Some d) HJ HI3' HG3' HW' Hu3' Hfr Hpf).
      * intros c0 Hne. destruct (g_get g c0); cbn; [rewrite dropd_nil|]; reflexivity.
      * exact Eg.
      * exists k. split; [reflexivity|]. split; [apply (key_drawn_mono (w_st w) s3' k Hu3' Hd)|].
        split; [exact Hpe|]. left. rewrite Hv33. exact Hdead.
      * intros kk H. injection H as <-. left. symmetry. exact Hjk.
Qed.

(* ------------------------------------------------------------ histories *)

Lemma c01_wf_pjar r : c01_hop (HReq r) = true -> rq_present r = PJar.
Proof. cbn. destruct (rq_present r); [reflexivity | discriminate]. Qed.

Theorem c01_hist_from j : forall hs w g,
  JI w g -> c_json (conf (w_st w)) = j ->
  forallb (wf_hop j) hs = true -> forallb c01_hop hs = true ->
  g_run g hs (run_from w hs) = true.
Proof.
  induction hs as [|h t IH]; intros w g HJ Hj Hwf Hc01; [reflexivity|].
  cbn [forallb] in Hwf, Hc01. apply andb_prop in Hwf. destruct Hwf as [Hh Ht].
  apply andb_prop in Hc01. destruct Hc01 as [Hch Hct].
  assert (Hstep : JI (fst (step w h)) (snd (g_step g h (snd (step w h)))) /\
                  fst (g_step g h (snd (step w h))) = true).
  { destruct (is_req h) eqn:Er.
    - destruct h as [r| | | | | | |]; try discriminate Er.
      apply (step_req_JI w g r j HJ Hj Hh). apply c01_wf_pjar. exact Hch.
    - apply (step_other_JI w g h j HJ Hj Hh Er). }
  destruct (step_Inv w h j (ji_inv _ _ HJ) Hj Hh) as (_ & Hj').
  cbn [run_from]. destruct (step w h) as [w' o]. cbn [g_run fst snd] in *.
  destruct (g_step g h o) as [ok g']. cbn [fst snd] in *. destruct Hstep as [HJ' ->]. cbn [andb].
  apply (IH w' g' HJ' Hj' Ht Hct).
Qed.

(* The safety half of C01 along histories: fault-free, crash-free, cookie-following
   clients, any scripts (GetAndDelete included), the codec unchanged by
   configuration changes. *)
Theorem c01_safety c hs :
  wf_hist c hs = true -> forallb c01_hop hs = true -> g_run [] hs (run c hs) = true.
Proof.
  intros Hwf Hc. unfold run. apply (c01_hist_from (c_json c)); [apply JI_init | reflexivity | exact Hwf | exact Hc].
Qed.
