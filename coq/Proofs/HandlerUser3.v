(* Round 4 R1 (audit task B1), C08, part 3: the composite request hu_step of
   Model/HandlerUser.v at the handler positions of fault-free, crash-free
   histories (handler_at of Proofs/UserHist.v). *)
From Sessions Require Import Model.Base Model.Sess Model.Hist Model.HandlerUser Proofs.SessDefs
  Proofs.HistInv Proofs.HistInv2 Proofs.HistInv3 Proofs.UserLaws Proofs.UserHist Proofs.UserHist2 Proofs.UserHistEx
  Proofs.HandlerUser Proofs.HandlerUser2.
From Sessions Require Proofs.LiveHist4 Proofs.LiveHist8.
Import LiveHist4.

Lemma hu_ran_ran : forall ops rs, hu_ran ops rs = ran ops rs.
Proof. induction ops as [|op t IH]; intros [|r rt]; cbn [hu_ran ran]; try reflexivity. Qed.

(* a prefix that ran to its end: the handler is at hu_tail *)
Lemma hu_body_at s0 o had pre c post s rs ck :
  run_script s0 o had pre = (s, rs, ck) -> ran pre rs = true ->
  hu_body s0 o had pre c post =
  let '(s2, rs2, ck2, mid) := hu_tail s o had c post in (s2, rs ++ rs2, ck ++ ck2, mid).
Proof. intros E Hr. unfold hu_body. rewrite E, hu_ran_ran, Hr. reflexivity. Qed.

(* the composite step runs hu_tail at the state the handler reached, and reports
   what it yields *)
Theorem hu_step_reports w r c post s o :
  handler_at w r (rq_script r) s o -> rq_plan r = [] ->
  let out := snd (hu_step w r c post) in
  let t := hu_tail s o (had_cookie (req_q w r)) c post in
  ob_res (fst out) = RSess /\ snd out = snd t /\
  w_st (fst (hu_step w r c post)) = set_tb (set_plan (fst (fst (fst t))) []) [] /\
  exists rs, ob_script (fst out) = rs ++ snd (fst (fst t)) /\ length rs = length (rq_script r).
Proof.
  intros (s2 & cks & rs & cks' & E & Er & Hr) Hpl. cbv zeta.
  unfold hu_step. rewrite Hpl. unfold req_s1, req_q, pres in E, Er. rewrite E.
  rewrite (hu_body_at _ _ _ _ c post _ _ _ Er Hr). unfold req_q, pres.
  destruct (hu_tail s o _ c post) as [[[s3 rs3] ck3] mid]. cbn [fst snd mk_obs ob_res ob_script w_st].
  split; [reflexivity|]. split; [reflexivity|]. split; [reflexivity|].
  exists rs. split; [reflexivity | apply ran_length; exact Hr].
Qed.

Section Reach.
  Variables (c : cfg) (hs : list hop).
  Hypothesis Hff : Forall ff_hop hs.
  Hypothesis Hcf : Forall crash_free hs.
  Let w := reach c hs.

  (* (1) at every handler position of every fault-free, crash-free history *)
  Theorem hu_logout_hist r pre s o ob u post :
    handler_at w r pre s o -> own_cached s o ob (listed s u) -> In (o_id ob) (listed s u) ->
    forallb data_op post = true ->
    exists s1 s' rs mid new,
      logout_user s u = (s1, Ok tt) /\
      hu_tail s o (had_cookie (req_q w r)) (ULogout u) post = (s', SOk :: rs, [], Some (o_id ob, mid)) /\
      r_user mid = None /\ sess_inv s' /\
      (exists ob', hget s' o = Some ob' /\ o_id ob' = o_id ob /\ r_user (o_rec ob') = None) /\
      evs s' = new ++ evs (fire_due s1) /\ Forall nouser_ev new /\
      (forall k, In k (listed s u) -> nouser_at s' k).
  Proof.
    intros Hat Hown Hin Hd. destruct (handler_inv_hist c hs Hff Hcf r pre s o Hat) as [HI _].
    apply hu_tail_logout; assumption.
  Qed.

  (* (3) *)
  Theorem hu_refresh_hist r pre s o ob u :
    handler_at w r pre s o -> own_cached s o ob (listed s (fst u)) -> In (o_id ob) (listed s (fst u)) ->
    exists s1 mid,
      refresh_user s u = (s1, Ok tt) /\
      hu_tail s o (had_cookie (req_q w r)) (URefresh u) [] = (fire_due s1, [SOk], [], Some (o_id ob, mid)) /\
      r_user mid = Some u /\ sess_inv (fire_due s1).
  Proof.
    intros Hat Hown Hin. destruct (handler_inv_hist c hs Hff Hcf r pre s o Hat) as [HI _].
    apply hu_tail_refresh; assumption.
  Qed.
End Reach.
