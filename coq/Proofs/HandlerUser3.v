(* Round 4 R1 (audit task B1), C08, part 3: the composite request hu_step of
   Model/HandlerUser.v at the handler positions of fault-free, crash-free
   histories (handler_at of Proofs/UserHist.v). *)
From Sessions Require Import Model.Base Model.Sess Model.Hist Model.HandlerUser Proofs.SessDefs
  Proofs.HistInv Proofs.HistInv2 Proofs.HistInv3 Proofs.UserLaws Proofs.UserHist Proofs.UserHist2 Proofs.UserHistEx
  Proofs.HandlerUser Proofs.HandlerUser2.
From Sessions Require Proofs.LiveHist4 Proofs.LiveHist8.
Import LiveHist4.

Lemma hu_ran_ran : forall ops rs, hu_ran ops rs = ran ops rs.
Proof. induction ops as [|op t IH]; intros [|r rt]; cbn [hu_ran ran]; try reflexivity. Qed.

(* a prefix that ran to its end: the handler is at hu_tail *)
Lemma hu_body_at s0 o had pre c post s rs ck :
  run_script s0 o had pre = (s, rs, ck) -> ran pre rs = true ->
  hu_body s0 o had pre c post =
  let '(s2, rs2, ck2, mid) := hu_tail s o had c post in (s2, rs ++ rs2, ck ++ ck2, mid).
Proof. intros E Hr. unfold hu_body. rewrite E, hu_ran_ran, Hr. reflexivity. Qed.

(* the composite step runs hu_tail at the state the handler reached, and reports
   what it yields *)
Theorem hu_step_reports w r c post s o :
  handler_at w r (rq_script r) s o -> rq_plan r = [] ->
  let out := snd (hu_step w r c post) in
  let t := hu_tail s o (had_cookie (req_q w r)) c post in
  ob_res (fst out) = RSess /\ snd out = snd t /\
  w_st (fst (hu_step w r c post)) = set_tb (set_plan (fst (fst (fst t))) []) [] /\
  exists rs, ob_script (fst out) = rs ++ snd (fst (fst t)) /\ length rs = length (rq_script r).
Proof.
  intros (s2 & cks & rs & cks' & E & Er & Hr) Hpl. cbv zeta.
  unfold hu_step. rewrite Hpl. unfold req_s1, req_q, pres in E, Er. rewrite E.
  rewrite (hu_body_at _ _ _ _ c post _ _ _ Er Hr). unfold req_q, pres.
  destruct (hu_tail s o _ c post) as [[[s3 rs3] ck3] mid]. cbn [fst snd mk_obs ob_res ob_script w_st].
  split; [reflexivity|]. split; [reflexivity|]. split; [reflexivity|].
  exists rs. split; [reflexivity | apply ran_length; exact Hr].
Qed.

(* ------------------------------------- the composite step keeps the invariants *)

Lemma user_call_inv b base D s c : inv b base NX D s ->
  exists s', user_call s c = (s', Ok tt) /\ inv b base NX D s' /\ ids_pres s s'.
Proof. intro I. destruct c as [u|u]; cbn [user_call]; [apply logout_user_inv | apply refresh_user_inv]; exact I. Qed.

Lemma hu_tail_inv base s o had c post : inv 0 base NX ND s -> hok 0 ND s o ->
  inv 0 base NX ND (fst (fst (fst (hu_tail s o had c post)))).
Proof.
  intros I H. unfold hu_tail. destruct (user_call_inv _ _ _ s c I) as (s1 & E & I1 & Hi). rewrite E.
  destruct (fire_due_inv _ _ _ _ I1) as (I2 & Hh & _).
  assert (H2 : hok 0 ND (fire_due s1) o).
  { eapply hok_ids; [apply ids_pres_heap; exact Hh|]. eapply hok_ids; eassumption. }
  destruct (run_script_inv _ _ _ had post _ _ I2 H2) as (s' & rs & ck & E2 & I3 & _). rewrite E2. exact I3.
Qed.

Lemma hu_body_inv base s o had pre c post : inv 0 base NX ND s -> hok 0 ND s o ->
  inv 0 base NX ND (fst (fst (fst (hu_body s o had pre c post)))).
Proof.
  intros I H. unfold hu_body.
  destruct (run_script_inv _ _ _ had pre _ _ I H) as (s1 & rs & ck & E & I1 & H1 & _). rewrite E.
  destruct (hu_ran pre rs); [|exact I1].
  pose proof (hu_tail_inv base s1 o had c post I1 H1) as I2.
  destruct (hu_tail s1 o had c post) as [[[s2 rs2] ck2] mid]. exact I2.
Qed.

(* a fault-free composite request step preserves the invariants of SessDefs.v *)
Theorem hu_step_sess_inv w r c post : sess_inv (w_st w) -> rq_plan r = [] ->
  sess_inv (w_st (fst (hu_step w r c post))).
Proof.
  intros Hinv Hpl. pose proof (sess_inv_inv _ (LiveHist8.req_s1_sess_inv w r Hinv)) as I1.
  unfold hu_step. rewrite Hpl. fold (req_s1 w r).
  set (q := mkReq _ (rq_create r) (rq_addr r) (rq_ua r)).
  destruct (start_inv _ _ _ _ q I1) as (s2 & res & cks & E & I2 & Hres & _). rewrite E.
  destruct (fire_due_inv _ _ _ _ I2) as (I3 & Hh & _).
  assert (Fin : forall s3, inv 0 (supply (req_s1 w r), evs (req_s1 w r)) NX ND s3 -> sess_inv (set_tb (set_plan s3 []) [])).
  { intros s3 I. eapply inv_sess_inv. apply inv_set_tb. apply inv_set_plan_nil. exact I. }
  destruct res as [[o|]|e|e]; cbn [res_ok] in Hres.
  - assert (H3 : hok 0 ND (fire_due s2) o) by (eapply hok_ids; [apply ids_pres_heap; exact Hh | exact Hres]).
    pose proof (hu_body_inv _ (fire_due s2) o (had_cookie q) (rq_script r) c post I3 H3) as I4.
    destruct (hu_body (fire_due s2) o (had_cookie q) (rq_script r) c post) as [[[s3 sr] ck'] mid].
    cbn [fst w_st]. apply Fin. exact I4.
  - cbn [fst w_st]. apply Fin. exact I3.
  - cbn [fst w_st]. apply Fin. exact I3.
  - contradiction.
Qed.

(* histories mixing plain steps and composite requests *)
Definition ff_hstep (x : hstep) : Prop :=
  match x with
  | HPlain h => ff_hop h /\ crash_free h
  | HUser r _ _ => rq_plan r = []
  end.

Theorem hu_step1_sess_inv w x : sess_inv (w_st w) -> ff_hstep x -> sess_inv (w_st (fst (hu_step1 w x))).
Proof.
  intros Hinv Hx. destruct x as [h|r c post]; cbn [hu_step1].
  - destruct Hx as [Hff Hcf]. pose proof (step_sess_inv w h Hinv Hff Hcf) as H.
    destruct (step w h) as [w' ob]. exact H.
  - apply hu_step_sess_inv; assumption.
Qed.

Theorem hu_after_sess_inv : forall l w, sess_inv (w_st w) -> Forall ff_hstep l -> sess_inv (w_st (hu_after w l)).
Proof.
  induction l as [|x t IH]; intros w Hinv Hl; cbn [hu_after]; [exact Hinv|].
  inversion Hl as [|? ? Hx Ht]; subst. apply IH; [apply hu_step1_sess_inv; assumption | exact Ht].
Qed.

(* the world a mixed history reaches *)
Definition hu_reach (c : cfg) (l : list hstep) : world := hu_after (mkWorld (init_st c) []) l.

Theorem hu_reach_sess_inv c l : Forall ff_hstep l -> sess_inv (w_st (hu_reach c l)).
Proof.
  intro Hl. apply hu_after_sess_inv; [|exact Hl].
  exact (LiveHist8.reach_sess_inv c [] (Forall_nil _) (Forall_nil _)).
Qed.

(* plain histories are a special case *)
Lemma hu_after_plain : forall hs w, hu_after w (map HPlain hs) = after w hs.
Proof.
  induction hs as [|h t IH]; intro w; cbn [map hu_after after]; [reflexivity|].
  cbn [hu_step1]. destruct (step w h) as [w' ob]. cbn [fst]. apply IH.
Qed.

Lemma hu_reach_plain c hs : hu_reach c (map HPlain hs) = reach c hs.
Proof. apply hu_after_plain. Qed.

Lemma ff_hstep_plain hs : Forall ff_hop hs -> Forall crash_free hs -> Forall ff_hstep (map HPlain hs).
Proof.
  induction hs as [|h t IH]; intros Hf Hc; cbn [map]; [constructor|].
  inversion Hf; inversion Hc; subst. constructor; [split; assumption | apply IH; assumption].
Qed.

Section Reach.
  (* any world satisfying the invariants: in particular the world after any
     fault-free, crash-free history mixing plain steps and composite requests *)
  Variable w : world.
  Hypothesis Hinv : sess_inv (w_st w).

  (* (1) at every handler position *)
  Theorem hu_logout_at r pre s o ob u post :
    handler_at w r pre s o -> own_cached s o ob (listed s u) -> In (o_id ob) (listed s u) ->
    forallb data_op post = true ->
    exists s1 s' rs mid new,
      logout_user s u = (s1, Ok tt) /\
      hu_tail s o (had_cookie (req_q w r)) (ULogout u) post = (s', SOk :: rs, [], Some (o_id ob, mid)) /\
      r_user mid = None /\ sess_inv s' /\
      (exists ob', hget s' o = Some ob' /\ o_id ob' = o_id ob /\ r_user (o_rec ob') = None) /\
      evs s' = new ++ evs (fire_due s1) /\ Forall nouser_ev new /\
      (forall k, In k (listed s u) -> nouser_at s' k).
  Proof.
    intros Hat Hown Hin Hd. destruct (handler_at_inv w r pre s o Hinv Hat) as [HI _].
    apply hu_tail_logout; assumption.
  Qed.

  (* (3) *)
  Theorem hu_refresh_at r pre s o ob u post :
    handler_at w r pre s o -> own_cached s o ob (listed s (fst u)) -> In (o_id ob) (listed s (fst u)) ->
    forallb data_op post = true ->
    exists s1 s' rs mid new,
      refresh_user s u = (s1, Ok tt) /\
      hu_tail s o (had_cookie (req_q w r)) (URefresh u) post = (s', SOk :: rs, [], Some (o_id ob, mid)) /\
      r_user mid = Some u /\ sess_inv s' /\
      (exists ob', hget s' o = Some ob' /\ o_id ob' = o_id ob /\ r_user (o_rec ob') = Some u) /\
      evs s' = new ++ evs (fire_due s1) /\ Forall (ev_sat (fun x => x = Some (fst u, 0%N))) new /\
      (forall k, In k (listed s (fst u)) ->
         (forall rr, lookup (store s') k = Some rr -> r_user rr = Some (fst u, 0%N)) /\
         (forall o2 ob2, lookup (cache s') k = Some o2 -> hget s' o2 = Some ob2 -> r_user (o_rec ob2) = Some u)).
  Proof.
    intros Hat Hown Hin Hd. destruct (handler_at_inv w r pre s o Hinv Hat) as [HI _].
    apply hu_tail_refresh; assumption.
  Qed.
End Reach.

(* at every handler position of every fault-free, crash-free history that may
   itself contain earlier in-handler calls *)
Theorem hu_logout_hist c l : Forall ff_hstep l ->
  forall r pre s o ob u post,
  handler_at (hu_reach c l) r pre s o -> own_cached s o ob (listed s u) -> In (o_id ob) (listed s u) ->
  forallb data_op post = true ->
  exists s1 s' rs mid new,
    logout_user s u = (s1, Ok tt) /\
    hu_tail s o (had_cookie (req_q (hu_reach c l) r)) (ULogout u) post = (s', SOk :: rs, [], Some (o_id ob, mid)) /\
    r_user mid = None /\ sess_inv s' /\
    (exists ob', hget s' o = Some ob' /\ o_id ob' = o_id ob /\ r_user (o_rec ob') = None) /\
    evs s' = new ++ evs (fire_due s1) /\ Forall nouser_ev new /\
    (forall k, In k (listed s u) -> nouser_at s' k).
Proof. intros Hl r pre s o ob u post. apply hu_logout_at. apply hu_reach_sess_inv. exact Hl. Qed.

Theorem hu_refresh_hist c l : Forall ff_hstep l ->
  forall r pre s o ob u post,
  handler_at (hu_reach c l) r pre s o -> own_cached s o ob (listed s (fst u)) -> In (o_id ob) (listed s (fst u)) ->
  forallb data_op post = true ->
  exists s1 s' rs mid new,
    refresh_user s u = (s1, Ok tt) /\
    hu_tail s o (had_cookie (req_q (hu_reach c l) r)) (URefresh u) post = (s', SOk :: rs, [], Some (o_id ob, mid)) /\
    r_user mid = Some u /\ sess_inv s' /\
    (exists ob', hget s' o = Some ob' /\ o_id ob' = o_id ob /\ r_user (o_rec ob') = Some u) /\
    evs s' = new ++ evs (fire_due s1) /\ Forall (ev_sat (fun x => x = Some (fst u, 0%N))) new /\
    (forall k, In k (listed s (fst u)) ->
       (forall rr, lookup (store s') k = Some rr -> r_user rr = Some (fst u, 0%N)) /\
       (forall o2 ob2, lookup (cache s') k = Some o2 -> hget s' o2 = Some ob2 -> r_user (o_rec ob2) = Some u)).
Proof. intros Hl r pre s o ob u post. apply hu_refresh_at. apply hu_reach_sess_inv. exact Hl. Qed.
