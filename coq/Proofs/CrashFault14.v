(* C11_nopanic at the level of histories, part 2: every step of every history
   (requests with scripts, waits, purges, cache loss, restarts, user-wide calls,
   configuration changes; any fault plan, any crash point, any tie-break)
   preserves NP and yields an observation without a panic; hence no history
   started from the initial state ever panics. *)
From Sessions Require Import Model.Base Model.Sess Model.Hist Proofs.SessDefs Proofs.CrashFault
  Proofs.CrashFault2 Proofs.CrashFault3 Proofs.CrashFault8 Proofs.CrashFault9 Proofs.CrashFault10
  Proofs.CrashFault13.
From Coq Require Import Lia.

Lemma keeps_start_none s q cks0 s' res cks : start_none s q cks0 = (s', res, cks) -> keeps s s'.
Proof.
  unfold start_none. destruct (q_create q).
  - destruct (create_session s q) as [[s1 r1] c1] eqn:E. intro H. injection H as <- _ _. eapply keeps_create; exact E.
  - intro H. injection H as <- _ _. apply keeps_refl.
Qed.

Lemma keeps_bookkeep s o q : keeps s (hupd s o (fun r => set_ua (set_ip (set_access r (now s)) (q_addr q)) (q_ua q))).
Proof. apply keeps_hupd. apply same_ref_data. intro r. split; reflexivity. Qed.

Lemma keeps_start_finish s q k o isref cks0 s' res cks : start_finish s q k o isref cks0 = (s', res, cks) -> keeps s s'.
Proof.
  unfold start_finish. destruct isref.
  - destruct (follow (S (N.to_nat (supply s))) s o k) as [s2 fr] eqn:EF. apply keeps_follow in EF.
    destruct fr as [[o' lk']|e|e]; intro H; injection H as <- _ _; try exact EF.
    eapply keeps_trans; [exact EF | apply keeps_bookkeep].
  - intro H. injection H as <- _ _. apply keeps_bookkeep.
Qed.

Lemma keeps_start_found c s q k o s' res cks : start_found c s q k o = (s', res, cks) -> keeps s s'.
Proof.
  unfold start_found. destruct (hget s o) as [ob|]; [|intro H; injection H as <- _ _; apply keeps_refl].
  destruct (negb (rec_valid c (o_rec ob) q (now s))).
  { destruct (destroy s o (had_cookie q)) as [[s1 r1] dck] eqn:ED. apply keeps_destroy in ED.
    destruct r1 as [[]|e|e]; intro H; try (injection H as <- _ _; exact ED).
    eapply keeps_trans; [exact ED | eapply keeps_start_none; exact H]. }
  destruct (negb (is_ref (o_rec ob)) && (c_idexpiry c <=? since (r_created (o_rec ob)) (now s))%Z).
  { destruct (regenerate s o) as [[s1 r1] rck] eqn:ER. apply keeps_regenerate in ER.
    destruct r1 as [[]|e|e]; intro H; try (injection H as <- _ _; exact ER).
    eapply keeps_trans; [exact ER | eapply keeps_start_finish; exact H]. }
  destruct (sat_add (c_idexpiry c) (c_grace c) <=? since (r_created (o_rec ob)) (now s))%Z.
  - destruct (cache_delete s k) as [s1 b] eqn:EC. apply keeps_cache_delete in EC. intro H. injection H as <- _ _. exact EC.
  - apply keeps_start_finish.
Qed.

Lemma keeps_start s q s' res cks : start s q = (s', res, cks) -> keeps s s'.
Proof.
  rewrite start_unfold. destruct (q_cookie q) as [|k|n]; try apply keeps_start_none.
  destruct (cache_get s k) as [s1 g] eqn:EG. apply keeps_cache_get in EG.
  destruct g as [[o|]|]; intro H.
  - eapply keeps_trans; [exact EG | eapply keeps_start_found; exact H].
  - eapply keeps_trans; [exact EG | eapply keeps_start_none; exact H].
  - injection H as <- _ _. exact EG.
Qed.

Lemma keeps_purge_saves entries : forall s, keeps s (purge_saves s entries).
Proof.
  induction entries as [|[k o] t IH]; intro s; simpl; [apply keeps_refl|].
  destruct (hget s o) as [ob|]; [|apply IH].
  destruct (p_save s k (o_rec ob)) as [s1 b] eqn:E. apply keeps_p_save in E. simpl.
  eapply keeps_trans; [exact E | apply IH].
Qed.

Lemma NP_drop_cache s : NP s -> NP (set_cache s []).
Proof. intros (A & B & C). split; [intros k o []|]. split; assumption. Qed.

Lemma NP_purge s : NP s -> NP (purge s).
Proof. intro H. unfold purge. apply NP_drop_cache. eapply keeps_NP; [apply keeps_purge_saves | exact H]. Qed.

(* ------------------------------------------------------------------- steps *)

Definition obs_nopanic (ob : obs) : Prop :=
  (forall e, ob_res ob <> RPanic e) /\ Forall (fun r => forall e, r <> SPanic e) (ob_script ob).

Lemma NP_frame s s' : heap s' = heap s -> cache s' = cache s -> store s' = store s -> NP s -> NP s'.
Proof. apply NP_same. Qed.

Theorem step_nopanic w h w' ob :
  NP (w_st w) -> step w h = (w', ob) -> NP (w_st w') /\ obs_nopanic ob.
Proof.
  intros HNP HS. unfold step in HS.
  set (s := set_evs (w_st w) []) in *.
  assert (HNs : NP s) by (eapply NP_frame; [..|exact HNP]; reflexivity).
  destruct h as [r|d|tbl pl| | |u tbl pl|u tbl pl|c].
  - (* a request *)
    set (jar := jar_of (w_jars w) (rq_client r)) in *.
    set (q := mkReq (match rq_present r with PJar => jar | PForge c => c end) (rq_create r) (rq_addr r) (rq_ua r)) in *.
    set (s1 := set_tb (set_plan s (rq_plan r)) (rq_tb r)) in *.
    assert (HN1 : NP s1) by (eapply NP_frame; [..|exact HNs]; reflexivity).
    destruct (start s1 q) as [[s2 res] cks] eqn:EST.
    pose proof (keeps_start _ _ _ _ _ EST) as K2.
    pose proof (keeps_NP _ _ K2 HN1) as HN2.
    destruct (start_nopanic _ _ _ _ _ (proj1 HN1) EST) as (Hnp & _ & _).
    pose proof (keeps_NP _ _ (keeps_fire_due s2) HN2) as HN2'.
    assert (Tail : forall s3 rc st0 sr fin cks3,
              keeps (fire_due s2) s3 -> (forall e, rc <> RPanic e) -> Forall (fun r0 => forall e, r0 <> SPanic e) sr ->
              (let s3' := set_tb (set_plan s3 []) [] in
               match rq_crash r with
               | Some n =>
                 let pre := ev_prefix (rev (evs s3')) n in
                 let '(stor, gr) := fold_left apply_ev pre (store s, graves s) in
                 let s4 := restart (set_supply (set_graves (set_store (set_evs s3' (rev pre)) stor) gr)
                                               (supply s + count_draws pre)%N) in
                 (mkWorld s4 (w_jars w), mk_obs RCrashed None [] [] None s4 jar)
               | None =>
                 let jar' := match rq_present r with
                             | PJar => apply_cookies jar cks3
                             | PForge _ => jar
                             end in
                 (mkWorld s3' (jar_set (w_jars w) (rq_client r) jar'), mk_obs rc st0 cks3 sr fin s3' jar')
               end) = (w', ob) ->
              NP (w_st w') /\ obs_nopanic ob).
    { intros s3 rc st0 sr fin cks3 K3 Hrc Hsr HT. cbv zeta in HT.
      pose proof (keeps_NP _ _ K3 HN2') as HN3.
      set (s3' := set_tb (set_plan s3 []) []) in *.
      assert (HN3' : NP s3') by (eapply NP_frame; [..|exact HN3]; reflexivity).
      destruct (rq_crash r) as [n|].
      + assert (Kall : keeps s1 s3) by (eapply keeps_trans; [exact K2|]; eapply keeps_trans; [apply keeps_fire_due | exact K3]).
        destruct Kall as ([l X] & _ & _).
        assert (Hl : rev (evs s3') = l).
        { change (evs s3') with (evs s3). rewrite (x_evs _ _ _ X). change (evs s1) with (@nil ev).
          rewrite app_nil_r. apply rev_involutive. }
        rewrite Hl in HT.
        destruct (fold_left apply_ev (ev_prefix l n) (store s, graves s)) as [stor gr] eqn:EF.
        injection HT as <- <-. split; [|split; [discriminate | constructor]].
        split; [intros k o []|]. split.
        * intros o ob0 H. apply (proj1 (proj2 HN3)) with (o := o). exact H.
        * change (storeD stor). replace stor with (fst (replay (ev_prefix l n) (store s, graves s))) by (unfold replay; rewrite EF; reflexivity).
          apply storeD_replay; [apply HNs|]. apply ev_prefix_Forall. apply (x_codec _ _ _ X).
      + injection HT as <- <-. split; [exact HN3'|]. split; [exact Hrc | exact Hsr]. }
    destruct res as [[o|]|e|e].
    + destruct (run_script (fire_due s2) o (had_cookie q) (rq_script r)) as [[s3 sr] cks'] eqn:ER.
      refine (Tail _ _ _ _ _ _ _ _ _ HS); [eapply keeps_run_script; exact ER | discriminate |].
      pose proof (start_handle _ _ _ _ _ (NP_J _ HN1) EST) as Hh.
      eapply run_script_nopanic; [|exact ER]. eapply handle_ok_stable; [apply stable_fire_due | exact Hh].
    + refine (Tail _ _ _ _ _ _ _ _ _ HS); [apply keeps_refl | discriminate | constructor].
    + refine (Tail _ _ _ _ _ _ _ _ _ HS); [apply keeps_refl | discriminate | constructor].
    + exfalso. eapply Hnp. reflexivity.
  - (* wait *)
    injection HS as <- <-. split; [|split; [discriminate | constructor]].
    eapply keeps_NP; [apply keeps_fire_due|]. eapply NP_frame; [..|exact HNs]; reflexivity.
  - (* purge *)
    injection HS as <- <-. split; [|split; [discriminate | constructor]].
    eapply NP_frame; [..|apply NP_purge; eapply NP_frame; [..|exact HNs]]; reflexivity.
  - injection HS as <- <-. split; [|split; [discriminate | constructor]]. apply NP_drop_cache. exact HNs.
  - injection HS as <- <-. split; [|split; [discriminate | constructor]].
    unfold restart. eapply NP_frame; [..|apply NP_drop_cache; exact HNs]; reflexivity.
  - destruct (logout_user (set_tb (set_plan s pl) tbl) u) as [s1 r] eqn:E.
    pose proof (keeps_logout_user _ _ _ _ E) as K1. destruct (logout_user_nopanic _ _ _ _ E) as [_ Hnp].
    injection HS as <- <-. split.
    + eapply keeps_NP; [apply keeps_fire_due|]. eapply NP_frame; [..|eapply keeps_NP; [exact K1|]]; try reflexivity.
      eapply NP_frame; [..|exact HNs]; reflexivity.
    + split; [|constructor]. simpl. destruct r; try discriminate. intros e0 E0. injection E0 as ->. eapply Hnp. reflexivity.
  - destruct (refresh_user (set_tb (set_plan s pl) tbl) u) as [s1 r] eqn:E.
    pose proof (keeps_refresh_user _ _ _ _ E) as K1. destruct (refresh_user_nopanic _ _ _ _ E) as [_ Hnp].
    injection HS as <- <-. split.
    + eapply keeps_NP; [apply keeps_fire_due|]. eapply NP_frame; [..|eapply keeps_NP; [exact K1|]]; try reflexivity.
      eapply NP_frame; [..|exact HNs]; reflexivity.
    + split; [|constructor]. simpl. destruct r; try discriminate. intros e0 E0. injection E0 as ->. eapply Hnp. reflexivity.
  - injection HS as <- <-. split; [|split; [discriminate | constructor]].
    eapply NP_frame; [..|exact HNs]; reflexivity.
Qed.

(* C11_nopanic, history level: no observation of any history is a panic. *)
Theorem run_from_nopanic h : forall w, NP (w_st w) -> Forall obs_nopanic (run_from w h).
Proof.
  induction h as [|x t IH]; intros w HN; simpl; [constructor|].
  destruct (step w x) as [w' o] eqn:E. destruct (step_nopanic _ _ _ _ HN E) as [HN' Ho].
  constructor; [exact Ho | apply IH; exact HN'].
Qed.

Theorem run_nopanic c h : Forall obs_nopanic (run c h).
Proof. apply run_from_nopanic. apply NP_init. Qed.
