(* Bridge Sess.codec <-> Model/Codec.v, part 1: the embedding is invertible and
   lands in the classes the codec theorems call stable (ASCII strings, UTC
   instants). Statements: Properties/C09B.v. *)
From Coq Require Import Lia ZifyBool ZifyNat ZifyN.
From Sessions Require Import Model.Base Model.Codec Model.JsonLib Model.CodecBridge
  Proofs.BaseLemmas Proofs.CodecText Proofs.JsonLibOk.
From Sessions Require Model.Sess.
Local Open Scope N_scope.

(* ------------------------------------------------------------ decimal text *)

Lemma rd_n_dec (n : N) (rest : bytes) :
  nondig_head rest = true -> rd_n (dec n ++ rest) = Some (n, rest).
Proof.
  intro H. unfold rd_n. destruct (read_digits_dec n rest H) as [c [Hc Hr]].
  rewrite Hr, Hc. reflexivity.
Qed.

Lemma rd_all_dec (n : N) : rd_all (dec n) = Some n.
Proof.
  unfold rd_all. rewrite <- (app_nil_r (dec n)). rewrite rd_n_dec by reflexivity. reflexivity.
Qed.

Lemma dec_ascii (n : N) : all_ascii (dec n) = true.
Proof. unfold dec. apply format_radix_ascii. reflexivity. Qed.

Lemma all_ascii_app (a b : bytes) : all_ascii (a ++ b) = all_ascii a && all_ascii b.
Proof. unfold all_ascii. apply forallb_app. Qed.

Lemma all_ascii_cons (x : N) (b : bytes) : all_ascii (x :: b) = (x <? 128) && all_ascii b.
Proof. reflexivity. Qed.

(* ---------------------------------------------------------------- addresses *)

Lemma txt_addr_txt (a : Sess.addr) : txt_addr (addr_txt a) = Some a.
Proof.
  destruct a as [a b c d p | n].
  - unfold addr_txt. destruct (dec_head a) as [x [r [Hx Hr]]].
    unfold txt_addr. rewrite Hx. cbn [app]. replace (x =? 91) with false by lia.
    change (x :: r ++ ?t) with ((x :: r) ++ t). rewrite <- Hx.
    unfold txt_v4.
    rewrite rd_n_dec by reflexivity.
    rewrite rd_n_dec by reflexivity.
    rewrite rd_n_dec by reflexivity.
    rewrite rd_n_dec by reflexivity.
    rewrite rd_all_dec. reflexivity.
  - unfold addr_txt, txt_addr. replace (91 =? 91) with true by reflexivity.
    rewrite rd_n_dec by reflexivity. reflexivity.
Qed.

Lemma addr_txt_ascii (a : Sess.addr) : all_ascii (addr_txt a) = true.
Proof.
  destruct a as [a b c d p | n]; unfold addr_txt;
    repeat (first [rewrite all_ascii_app | rewrite all_ascii_cons | rewrite dec_ascii]); reflexivity.
Qed.

(* --------------------------------------------------------------------- IDs *)

Lemma txt_key_txt (k : Sess.key) : txt_key (key_txt k) = Some k.
Proof. destruct k as [n | n]; unfold key_txt, txt_key; rewrite rd_all_dec; reflexivity. Qed.

Lemma key_txt_ascii (k : Sess.key) : all_ascii (key_txt k) = true.
Proof. destruct k as [n | n]; unfold key_txt; rewrite all_ascii_cons, dec_ascii; reflexivity. Qed.

Lemma txt_ref_txt (r : option Sess.key) : txt_ref (ref_txt r) = Some r.
Proof.
  destruct r as [k|]; [|reflexivity]. unfold ref_txt, txt_ref.
  rewrite txt_key_txt. destruct k; reflexivity.
Qed.

Lemma ref_txt_ascii (r : option Sess.key) : all_ascii (ref_txt r) = true.
Proof. destruct r as [k|]; [apply key_txt_ascii | reflexivity]. Qed.

(* the reference is set (non-empty referenceID) exactly when the record has one *)
Lemma ref_txt_nil (r : option Sess.key) : is_nil (ref_txt r) = negb (is_some r).
Proof. destruct r as [[n|n]|]; reflexivity. Qed.

(* ---------------------------------------------------------------- instants *)

Lemma second_val : Sess.second = 1000000000%Z.
Proof. reflexivity. Qed.

Lemma proj_emb_time (t : Z) : proj_time (emb_time t) = Some t.
Proof.
  unfold proj_time, emb_time, nano. cbn [t_off t_nsec t_sec]. rewrite second_val.
  assert (Hm := Z.mod_pos_bound t 1000000000 ltac:(lia)).
  assert (Hd := Z.div_mod t 1000000000 ltac:(lia)).
  replace ((0 =? 0)%Z && (Z.to_N (t mod 1000000000) <? 1000000000)) with true by lia.
  f_equal. rewrite Z2N.id by lia. lia.
Qed.

(* flooring to the second on either side *)
Lemma emb_time_floor (t : Z) : emb_time (t - t mod Sess.second) = floor_sec (emb_time t).
Proof.
  unfold emb_time, floor_sec. cbn [t_off t_nsec t_sec]. rewrite second_val.
  assert (Hm := Z.mod_pos_bound t 1000000000 ltac:(lia)).
  assert (Hd := Z.div_mod t 1000000000 ltac:(lia)).
  assert (Hq : ((t - t mod 1000000000) / 1000000000 = t / 1000000000)%Z).
  { replace (t - t mod 1000000000)%Z with (t / 1000000000 * 1000000000)%Z by lia.
    apply Z.div_mul. lia. }
  assert (Hr : ((t - t mod 1000000000) mod 1000000000 = 0)%Z).
  { replace (t - t mod 1000000000)%Z with (t / 1000000000 * 1000000000)%Z by lia.
    apply Z.mod_mul. lia. }
  rewrite Hq, Hr. reflexivity.
Qed.

Lemma emb_time_off (t : Z) : t_off (emb_time t) = 0%Z.
Proof. reflexivity. Qed.

Lemma emb_time_rfc (t : Z) : inst_ok t = true -> rfc_dom (emb_time t) = true.
Proof.
  unfold inst_ok, rfc_dom, emb_time. cbn [t_off t_sec]. intro H.
  rewrite Z.add_0_r. rewrite H. reflexivity.
Qed.

(* every instant an int64 of nanoseconds around the model's epoch can express
   lies in RFC 3339's domain (years 1707..2292) *)
Lemma inst64_ok (t : Z) : inst64 t = true -> inst_ok t = true.
Proof.
  unfold inst64, inst_ok, min64, max64, epoch_sec. rewrite second_val. intro H.
  assert (Hm := Z.mod_pos_bound t 1000000000 ltac:(lia)).
  assert (Hd := Z.div_mod t 1000000000 ltac:(lia)).
  lia.
Qed.

(* ------------------------------------------------------------ user and data *)

Lemma proj_emb_uid (u : N) : proj_uid (emb_uid u) = Some u.
Proof. unfold proj_uid, emb_uid. apply rd_all_dec. Qed.

Lemma proj_emb_user (o : option Sess.user) : proj_user (option_map emb_user o) = Some o.
Proof.
  destruct o as [[u v]|]; [|reflexivity].
  unfold proj_user, option_map, emb_user. cbn [u_id u_tag fst snd]. rewrite proj_emb_uid. reflexivity.
Qed.

Lemma proj_emb_data (d : list (N * N)) : proj_data (emb_data d) = Some d.
Proof.
  induction d as [|[k v] t IH]; [reflexivity|].
  unfold emb_data in *. cbn [map emb_kv fst snd proj_data].
  rewrite rd_all_dec. change (proj_uid (DStr (dec v))) with (proj_uid (emb_uid v)).
  rewrite proj_emb_uid, IH. reflexivity.
Qed.

Lemma proj_emb_odata (o : option (list (N * N))) : proj_odata (option_map emb_data o) = Some o.
Proof.
  destruct o as [d|]; [|reflexivity]. unfold proj_odata, option_map. rewrite proj_emb_data. reflexivity.
Qed.

(* ----------------------------------------------------------------- records *)

(* proj_rec is a left inverse of emb_rec: the embedding loses nothing *)
Lemma proj_emb_rec (r : Sess.rec) : proj_rec (emb_rec r) = Some r.
Proof.
  destruct r as [cr ac ip ua rf us da].
  unfold proj_rec, emb_rec.
  cbn [cs_created cs_access cs_ip cs_ua cs_ref cs_user cs_data
       Sess.r_created Sess.r_access Sess.r_ip Sess.r_ua Sess.r_ref Sess.r_user Sess.r_data].
  rewrite !proj_emb_time, txt_addr_txt, txt_ref_txt, proj_emb_user, proj_emb_odata. reflexivity.
Qed.

Lemma emb_rec_inj (r r' : Sess.rec) : emb_rec r = emb_rec r' -> r = r'.
Proof.
  intro H. assert (H' : proj_rec (emb_rec r) = proj_rec (emb_rec r')) by (rewrite H; reflexivity).
  rewrite !proj_emb_rec in H'. congruence.
Qed.

(* the numbers in an embedded record are Go values (there are none) *)
Lemma emb_data_num_wf (d : list (N * N)) : num_wf (DMap (emb_data d)) = true.
Proof.
  induction d as [|[k v] t IH]; [reflexivity|].
  unfold emb_data in *. cbn [map emb_kv]. cbn in IH |- *. exact IH.
Qed.

Lemma emb_rec_num_wf (r : Sess.rec) : sess_num_wf (emb_rec r) = true.
Proof.
  destruct r as [cr ac ip ua rf us da]. unfold sess_num_wf, emb_rec.
  cbn [cs_user cs_data Sess.r_user Sess.r_data].
  destruct us as [[u v]|]; destruct da as [d|]; cbn [option_map data_or_empty emb_user u_id emb_uid num_wf andb fst];
    first [apply emb_data_num_wf | reflexivity].
Qed.
