(* C01, liveness half, part 8 (audit task A4): the promise for clients whose
   peer alternates between addresses Start's pattern matches and addresses it
   does not (IPv4 / IPv6), which C01Rules.v leaves out.

   C01Peer6.v: after a client's own request that is given a session, the ID in
   its jar resolves to a record with THIS request's peer and agent, or — only
   when Start rotated the ID — with what the presented ID resolved to before;
   nothing else. So a ghost that keeps, per client, the peers and agents of its
   accepted requests since the last one at which Start did NOT rotate the ID
   (candidates; newest first) knows that the record holds one of them — or,
   when the entry began at a rotating request that presented a cookie the ghost
   knew nothing about (open: Some (oldest candidate)), a record that accepted
   that oldest candidate. The promise is due when every candidate accepts the
   request's peer and agent (and, open, acceptance passes on from the oldest
   one). After a request at which Start returned the session under the
   presented ID (or created one) the only candidate is that request's peer and
   agent: there the promise is the plain rule-based one. Every cache size; same
   admissible histories; same invariant otherwise (the safety half's jar
   invariant, C03H's W, owns). *)
From Sessions Require Import Model.Base Model.Sess Model.Hist Model.Corr Proofs.SessDefs
  Proofs.WriteThrough Proofs.WriteThrough4 Proofs.WriteThrough5 Proofs.RotateLaws3
  Proofs.C01Spec Proofs.C01Hist Proofs.C01Hist4 Proofs.C01Hist7 Proofs.C01Hist10 Proofs.C01Hist11
  Proofs.C01Live Proofs.C01Live2 Proofs.C01Live3 Proofs.C01Live4 Proofs.C01Live5
  Proofs.C01Peer Proofs.C01Peer3 Proofs.C01Peer5 Proofs.C01Live6 Proofs.C01Peer6 Proofs.C01Rules.
From Sessions Require Proofs.HistInv Proofs.HistInv3 Proofs.StartLaws4 Proofs.StartLaws5
  Proofs.LiveHist4 Proofs.LiveHist5 Proofs.LiveHist6.
From Coq Require Import Lia.

(* ------------------------------------------------------------ the ghost *)

(* when the last accepted request came; the peers and agents of the accepted
   requests since the last one without a rotation by Start, newest first; Some
   (the oldest of them) when the entry began at a rotating request presenting a
   cookie the ghost had no entry for *)
Definition lrec3 : Type := (Z * list (addr * N) * option (addr * N))%type.

Fixpoint a_get {A} (g : list (N * A)) (c : N) : option A :=
  match g with [] => None | (c', d) :: t => if N.eqb c c' then Some d else a_get t c end.
Fixpoint a_del {A} (g : list (N * A)) (c : N) : list (N * A) :=
  match g with [] => [] | (c', d) :: t => if N.eqb c c' then a_del t c else (c', d) :: a_del t c end.
Definition a_set {A} (g : list (N * A)) (c : N) (d : A) : list (N * A) := (c, d) :: a_del g c.

Lemma a_get_del_same {A} (g : list (N * A)) c : a_get (a_del g c) c = None.
Proof.
  induction g as [|[c' d] t IH]; cbn [a_del a_get]; [reflexivity|].
  destruct (N.eqb c c') eqn:E; [exact IH|]. cbn [a_get]. rewrite E. exact IH.
Qed.

Lemma a_get_del_other {A} (g : list (N * A)) c c' : c' <> c -> a_get (a_del g c) c' = a_get g c'.
Proof.
  intro Hne. induction g as [|[c2 d] t IH]; cbn [a_del a_get]; [reflexivity|].
  destruct (N.eqb c c2) eqn:E.
  - apply N.eqb_eq in E. subst c2. rewrite IH. apply N.eqb_neq in Hne. rewrite Hne. reflexivity.
  - cbn [a_get]. rewrite IH. reflexivity.
Qed.

Lemma a_get_set_same {A} (g : list (N * A)) c d : a_get (a_set g c d) c = Some d.
Proof. unfold a_set. cbn [a_get]. rewrite N.eqb_refl. reflexivity. Qed.

Lemma a_get_set_other {A} (g : list (N * A)) c d c' : c' <> c -> a_get (a_set g c d) c' = a_get g c'.
Proof.
  intro Hne. unfold a_set. cbn [a_get]. apply N.eqb_neq in Hne. rewrite Hne.
  apply a_get_del_other. apply N.eqb_neq. exact Hne.
Qed.

(* a recorded peer and agent accept peer a and agent u under the rules n, b *)
Definition acc (n : Z) (b : bool) (p : addr * N) (a : addr) (u : N) : bool :=
  ip_ok n (fst p) a && ua_ok b (snd p) u.

(* the promise applies: sane durations, cache in use, the gap below
   SessionExpiry, every candidate accepts the request's peer and agent, and
   when the entry is open acceptance passes on from its oldest candidate *)
Definition live_cond_set (cf : cfg) (t : Z) (x : lrec3) (a : addr) (u : N) : bool :=
  negb (c_maxcache cf =? 0)%Z && (0 <=? c_expiry cf)%Z && (0 <=? c_grace cf)%Z && (c_idexpiry cf <=? max64)%Z &&
  (t - fst (fst x) + StartLaws4.slack cf <? c_expiry cf)%Z &&
  forallb (fun p => acc (c_acceptip cf) (c_acceptua cf) p a u) (snd (fst x)) &&
  match snd x with Some p0 => ip_pass (c_acceptip cf) (fst p0) a | None => true end.

(* Start returned the session under the ID the jar held: no rotation by Start *)
Definition same_id (jar : cval) (id : key) : bool :=
  match jar with CKey k => key_eqb k id | _ => false end.

(* the entry after an accepted request from peer a with agent u, at which Start
   returned the session under ID id *)
Definition entry_after (old : option lrec3) (jar : cval) (id : key) (t : Z) (a : addr) (u : N) : lrec3 :=
  if same_id jar id then (t, [(a, u)], None)
  else match old with
       | Some (_, cs, op) => (t, (a, u) :: cs, op)
       | None => (t, [(a, u)], match jar with CKey _ => Some (a, u) | _ => None end)
       end.

Definition l_step3 (cond : cfg -> Z -> lrec3 -> addr -> N -> bool)
           (cl : cfg * list (N * lrec3)) (w : world) (h : hop) (o : obs) : bool * (cfg * list (N * lrec3)) :=
  let '(cf, lg) := cl in
  match h with
  | HReq r =>
    let c := rq_client r in
    let ok := match a_get lg c with
              | Some x => if cond cf (now (w_st w)) x (rq_addr r) (rq_ua r) then served w r else true
              | None => true
              end in
    let lg' := match ob_start o, ob_jar o with
               | Some x, CKey _ =>
                 if (c_maxcache cf =? 0)%Z || existsb is_destroy (rq_script r) then a_del lg c
                 else a_set lg c (entry_after (a_get lg c) (jar_of (w_jars w) c) (fst x) (now (w_st w)) (rq_addr r) (rq_ua r))
               | _, _ => a_del lg c
               end in
    (ok, (cf, lg'))
  | HSetCfg c' => (true, (c', lg))
  | HDropCache | HRestart => (true, (cf, []))
  | _ => (true, cl)
  end.

Fixpoint l_run3 (cond : cfg -> Z -> lrec3 -> addr -> N -> bool)
         (cl : cfg * list (N * lrec3)) (w : world) (hs : list hop) : bool :=
  match hs with
  | [] => true
  | h :: t => let '(w', o) := step w h in
              let '(ok, cl') := l_step3 cond cl w h o in ok && l_run3 cond cl' w' t
  end.

(* the ghost after a history *)
Fixpoint l_after3 (cl : cfg * list (N * lrec3)) (w : world) (hs : list hop) : cfg * list (N * lrec3) :=
  match hs with
  | [] => cl
  | h :: t => let '(w', o) := step w h in l_after3 (snd (l_step3 live_cond_set cl w h o)) w' t
  end.

(* -------------------------------------------------------- the invariant *)

(* the record an ID resolves to holds one of the candidates, or (open) one
   that accepts the oldest candidate *)
Definition PK (n : Z) (b : bool) (cs : list (addr * N)) (op : option (addr * N)) (s : st) (k : key) : Prop :=
  forall p, pv s k = Some p ->
    In p cs \/ exists p0, op = Some p0 /\ okp n b (fst p0) (snd p0) p.

Lemma PK_keep n b cs op s s' k :
  (pv s' k = None \/ pv s' k = pv s k) -> PK n b cs op s k -> PK n b cs op s' k.
Proof. intros Hv H p Hp. destruct Hv as [Hv|Hv]; [congruence|]. apply H. congruence. Qed.

(* what the condition is for *)
Lemma cond_set_accepts n b cs op s k a u r0 :
  PK n b cs op s k -> (forall p0, op = Some p0 -> In p0 cs) ->
  forallb (fun p => acc n b p a u) cs = true ->
  match op with Some p0 => ip_pass n (fst p0) a | None => true end = true ->
  L s k = Some r0 -> ip_ok n (r_ip r0) a = true /\ ua_ok b (r_ua r0) u = true.
Proof.
  intros HP Hop Hall Hpass HL.
  assert (Hpv : pv s k = Some (pcont r0)) by (unfold pv; rewrite HL; reflexivity).
  rewrite forallb_forall in Hall.
  destruct (HP _ Hpv) as [Hin|(p0 & -> & Hip & Hua)].
  - specialize (Hall _ Hin). unfold acc in Hall. cbn [pcont fst snd] in Hall. apply andb_prop in Hall. exact Hall.
  - specialize (Hall p0 (Hop p0 eq_refl)). unfold acc in Hall. apply andb_prop in Hall. destruct Hall as [Hi Hu].
    cbn [pcont fst snd] in Hip, Hua. split.
    + apply (ip_pass_sound n (r_ip r0) (fst p0) a Hi Hpass Hip).
    + apply (ua_ok_trans b (r_ua r0) (snd p0) u Hua Hu).
Qed.

Record LI3 (j : bool) (n : Z) (b : bool) (w : world) (g : list (N * gdata)) (cf : cfg) (lg : list (N * lrec3)) : Prop := mkLI3 {
  li3_ji : JI w g;
  li3_w : W j w;
  li3_cf : conf (w_st w) = cf;
  li3_n : c_acceptip cf = n;
  li3_b : c_acceptua cf = b;
  li3_own : forall c t0 cs op, a_get lg c = Some (t0, cs, op) ->
              (forall p0, op = Some p0 -> In p0 cs) /\
              exists k, owns j c k (fl j t0) w /\ PK n b cs op (w_st w) k }.

Lemma LI3_init c : LI3 (c_json c) (c_acceptip c) (c_acceptua c) (mkWorld (init_st c) []) [] c [].
Proof.
  constructor; try reflexivity.
  - apply JI_init.
  - apply LiveHist4.W_init.
  - intros c0 t0 cs op H. discriminate H.
Qed.

(* the part of LI (C01Live5.v) that does not concern the entries *)
Lemma LI_of_LI3 j n b w g cf lg : LI3 j n b w g cf lg -> LI j n b w g cf [].
Proof. intros [A B C D E _]. constructor; auto. intros c t0 a0 u0 H. discriminate H. Qed.

Lemma l_step3_cf cond cf lg w h o : fst (snd (l_step3 cond (cf, lg) w h o)) = fst (snd (l_step2 live_cond (cf, []) w h o)).
Proof. destruct h; reflexivity. Qed.

Section Set3.
  Variables (j : bool) (n : Z) (b : bool).

  (* a request for which the promise is due, in a state satisfying the invariant *)
  Lemma due_step_set w g cf lg r t0 cs op :
    LI3 j n b w g cf lg -> wf_req r = true -> rq_present r = PJar ->
    a_get lg (rq_client r) = Some (t0, cs, op) ->
    live_cond_set cf (now (w_st w)) (t0, cs, op) (rq_addr r) (rq_ua r) = true ->
    served w r = true /\
    ob_res (snd (step w (HReq r))) = RSess /\
    exists id rc, ob_start (snd (step w (HReq r))) = Some (id, rc) /\
                  g_get g (rq_client r) = Some (content_of rc).
  Proof.
    intros [HJ HW Hcf Hn Hb Hown] Hwf Hpj Eg Ec.
    destruct (Hown _ t0 cs op Eg) as (Hop & k & HO & HP).
    unfold live_cond_set in Ec. cbn [fst snd] in Ec.
    apply andb_prop in Ec. destruct Ec as [Ec Hpass].
    apply andb_prop in Ec. destruct Ec as [Ec Hall].
    repeat (apply andb_prop in Ec; destruct Ec as [Ec ?]).
    repeat match goal with
           | E : (_ <=? _)%Z = true |- _ => apply Z.leb_le in E
           | E : (_ <? _)%Z = true |- _ => apply Z.ltb_lt in E
           end.
    rewrite Hn in Hall, Hpass. rewrite Hb in Hall. rewrite <- Hcf in *.
    destruct (LiveHist6.owns_L j _ k _ w HO) as (r0 & HL & Hrf & Hlb & _).
    pose proof HO as ((_ & Hj & _) & Hjar & _ & Hle).
    destruct (cond_set_accepts n b cs op (w_st w) k (rq_addr r) (rq_ua r) r0 HP Hop Hall Hpass HL) as [Hip' Hua'].
    rewrite <- Hn in Hip'. rewrite <- Hb in Hua'.
    destruct (live_step w g r k r0 HJ Hwf Hpj Hjar HL Hrf) as (A & B & id & rc & C & _ & D).
    - unfold valid_for. cbn [q_addr q_ua]. rewrite Hip', Hua'.
      rewrite (LiveHist5.not_stale (conf (w_st w)) r0 (now (w_st w)) (fl j t0) j Hlb Hle); [reflexivity|].
      pose proof (LiveHist4.fl_slack j t0) as Hs.
      match goal with E : (_ - t0 + StartLaws4.slack _ < _)%Z |- _ =>
        unfold StartLaws4.slack in E; rewrite Hj in E; clear - E Hs; lia end.
    - split; assumption.
    - split; [exact A|]. split; [exact B|]. exists id, rc. auto.
  Qed.

  (* an entry of another client survives a step that is not that client's request *)
  Lemma entry3_foreign w g h c t0 cs op k :
    JI w g -> W j w -> live_hop n b j h = true -> LiveHist6.is_own c h = false ->
    owns j c k (fl j t0) w -> PK n b cs op (w_st w) k ->
    owns j c k (fl j t0) (fst (step w h)) /\ PK n b cs op (w_st (fst (step w h))) k.
  Proof.
    intros HJ HW Hlh Hown HO HP. destruct (live_hop_parts n b j h Hlh) as (Hcalm & _ & Hc01 & _).
    pose proof HO as (_ & Hjar & _).
    split.
    - apply (LiveHist6.owns_foreign j c k _ w h HO Hcalm Hown).
      destruct h as [r|d|tbl pl| | |u tbl pl|u tbl pl|c']; try exact I.
      destruct Hcalm as [Hpl _]. pose proof (c01_wf_pjar r Hc01) as Hpj.
      apply (respects_other w g r k HJ Hpl Hpj).
      + intro E. cbn [LiveHist6.is_own] in Hown. rewrite Hpj in Hown. rewrite Bool.andb_true_r in Hown.
        apply N.eqb_neq in Hown. apply (ji_sep _ _ HJ (rq_client r) c k Hown E Hjar).
      + pose proof (ji_jar _ _ HJ c) as Hjc. rewrite Hjar in Hjc.
        destruct (g_get g c) as [d|]; cbn in Hjc; [|discriminate Hjc].
        destruct Hjc as (k' & E & Hd & _). injection E as <-. exact Hd.
    - apply (PK_keep n b cs op (w_st w) _ k); [|exact HP].
      apply (pv_foreign j n b w g h c k HJ HW Hlh Hown Hjar).
  Qed.

  Theorem LI3_step w g cf lg h :
    LI3 j n b w g cf lg -> live_hop n b j h = true ->
    fst (l_step3 live_cond_set (cf, lg) w h (snd (step w h))) = true /\
    LI3 j n b (fst (step w h)) (snd (g_step g h (snd (step w h))))
        (fst (snd (l_step3 live_cond_set (cf, lg) w h (snd (step w h)))))
        (snd (snd (l_step3 live_cond_set (cf, lg) w h (snd (step w h))))).
  Proof.
    intros HL3 Hlh.
    destruct (LI_step_full j n b w g cf [] h (LI_of_LI3 _ _ _ _ _ _ _ HL3) Hlh) as [_ [HJ' HW' Hcf' Hn' Hb' _]].
    rewrite <- (l_step3_cf live_cond_set cf lg) in Hcf', Hn', Hb'.
    pose proof HL3 as [HJ HW Hcf Hn Hb Hown].
    destruct (live_hop_parts n b j h Hlh) as (Hcalm & Hwf & Hc01 & Hset).
    (* entries of clients for which h is not an own request *)
    assert (Hkeep : forall c t0 cs op, LiveHist6.is_own c h = false -> a_get lg c = Some (t0, cs, op) ->
              (forall p0, op = Some p0 -> In p0 cs) /\
              exists k, owns j c k (fl j t0) (fst (step w h)) /\ PK n b cs op (w_st (fst (step w h))) k).
    { intros c t0 cs op Hno Hg. destruct (Hown c t0 cs op Hg) as (Hop & k & HO & HP). split; [exact Hop|]. exists k.
      apply (entry3_foreign w g h c t0 cs op k HJ HW Hlh Hno HO HP). }
    split.
    - (* the promise, when due, is kept *)
      destruct h as [r|d|tbl pl| | |u tbl pl|u tbl pl|c']; try reflexivity.
      cbn [l_step3 fst]. cbn [wf_hop] in Hwf. pose proof (c01_wf_pjar r Hc01) as Hpj.
      destruct (a_get lg (rq_client r)) as [[[t0 cs] op]|] eqn:Eg; [|reflexivity].
      destruct (live_cond_set cf (now (w_st w)) (t0, cs, op) (rq_addr r) (rq_ua r)) eqn:Ec; [|reflexivity].
      apply (due_step_set w g cf lg r t0 cs op HL3 Hwf Hpj Eg Ec).
    - constructor; try assumption.
      destruct h as [r|d|tbl pl| | |u tbl pl|u tbl pl|c']; cbn [l_step3 fst snd] in *; try discriminate Hlh.
      + (* a request *)
        pose proof (c01_wf_pjar r Hc01) as Hpj. cbn [wf_hop] in Hwf.
        set (c := rq_client r) in *.
        intros c2 t0 cs op Hg2. destruct (N.eq_dec c2 c) as [->|Hne].
        * (* the client itself *)
          destruct (ob_start (snd (step w (HReq r)))) as [x|] eqn:Est; [|rewrite a_get_del_same in Hg2; discriminate Hg2].
          destruct (ob_jar (snd (step w (HReq r)))) as [|k'|m] eqn:Ejar; try (rewrite a_get_del_same in Hg2; discriminate Hg2).
          destruct ((c_maxcache cf =? 0)%Z || existsb is_destroy (rq_script r)) eqn:Eb;
            [rewrite a_get_del_same in Hg2; discriminate Hg2|].
          rewrite a_get_set_same in Hg2.
          apply Bool.orb_false_iff in Eb. destruct Eb as [Em Ed]. apply Z.eqb_neq in Em. rewrite <- Hcf in Em.
          destruct (own_any j w g r x HJ HW Hwf Hpj Ed Em Est) as (k2 & Ejar2 & HO2).
          assert (k2 = k') by congruence. subst k2.
          destruct x as [id rc0].
          pose proof (peer_own_exact j w g r id rc0 k' HJ HW Hwf Hpj Est Ejar) as Hex.
          assert (Hacc : peer_ok n b (rq_addr r) (rq_ua r) (w_st (fst (step w (HReq r)))) k')
            by (apply (peer_own j n b w g r (id, rc0) k' HJ HW Hwf Hpj); congruence).
          rewrite peer_ok_pv in Hacc.
          fold c in Hex. cbn [fst] in Hg2. unfold entry_after in Hg2.
          destruct (same_id (jar_of (w_jars w) c) id) eqn:Esame.
          { (* no rotation by Start: its note is what the ID resolves to *)
            injection Hg2 as <- <- <-. split; [intros p0 E; discriminate E|].
            exists k'. split; [exact HO2|].
            intros p Hp. destruct (Hex p Hp) as [->|([Hc|Hc] & _)]; [left; left; reflexivity| |].
            - contradiction.
            - exfalso. apply Hc. unfold same_id in Esame. destruct (jar_of (w_jars w) c) as [|kk|mm]; try discriminate Esame.
              apply key_eqb_eq in Esame. congruence. }
          destruct (a_get lg c) as [[[t1 cs1] op1]|] eqn:Eold.
          -- (* the entry grows *)
             injection Hg2 as <- <- <-.
             destruct (Hown c t1 cs1 op1 Eold) as (Hop & k & HO & HP).
             split; [intros p0 E; right; apply (Hop p0 E)|].
             exists k'. split; [exact HO2|].
             intros p Hp. destruct (Hex p Hp) as [->|(_ & k0 & Hk0 & Hp0)]; [left; left; reflexivity|].
             pose proof HO as (_ & Hjar & _). assert (k0 = k) by congruence. subst k0.
             destruct (HP p Hp0) as [Hin|Hopen]; [left; right; exact Hin | right; exact Hopen].
          -- (* a new entry *)
             injection Hg2 as <- <- <-.
             split.
             ++ intros p0 E. destruct (jar_of (w_jars w) c); try discriminate E. injection E as <-. left. reflexivity.
             ++ exists k'. split; [exact HO2|].
                intros p Hp. destruct (Hex p Hp) as [->|(_ & k0 & Hk0 & Hp0)]; [left; left; reflexivity|].
                right. rewrite Hk0. exists (rq_addr r, rq_ua r). split; [reflexivity|]. apply (Hacc p Hp).
        * (* another client *)
          assert (Hno : LiveHist6.is_own c2 (HReq r) = false).
          { cbn [LiveHist6.is_own]. fold c. apply N.eqb_neq in Hne. rewrite N.eqb_sym in Hne. rewrite Hne. reflexivity. }
          apply (Hkeep c2 t0 cs op Hno).
          destruct (ob_start _); [destruct (ob_jar _); [|destruct (_ || _)|]|];
            rewrite ?a_get_del_other, ?a_get_set_other in Hg2 by exact Hne; exact Hg2.
      + intros c t0 cs op; apply Hkeep; reflexivity.
      + intros c t0 cs op; apply Hkeep; reflexivity.
      + intros c t0 cs op; apply Hkeep; reflexivity.
      + intros c t0 cs op; apply Hkeep; reflexivity.
      + intros c t0 cs op; apply Hkeep; reflexivity.
  Qed.

  Theorem live_from_set : forall hs w g cf lg,
    LI3 j n b w g cf lg -> forallb (live_hop n b j) hs = true -> l_run3 live_cond_set (cf, lg) w hs = true.
  Proof.
    induction hs as [|h t IH]; intros w g cf lg HL Hhs; [reflexivity|].
    cbn [forallb] in Hhs. apply andb_prop in Hhs. destruct Hhs as [Hh Ht].
    destruct (LI3_step w g cf lg h HL Hh) as [Hok HL'].
    cbn [l_run3]. destruct (step w h) as [w' o]. cbn [fst snd] in *.
    destruct (l_step3 live_cond_set (cf, lg) w h o) as [ok [cf' lg']]. cbn [fst snd] in *. subst ok. cbn [andb].
    apply (IH w' _ cf' lg' HL' Ht).
  Qed.

  Lemma LI3_after : forall hs w g cf lg,
    LI3 j n b w g cf lg -> forallb (live_hop n b j) hs = true ->
    LI3 j n b (HistInv3.after w hs) (g_after g hs (run_from w hs))
        (fst (l_after3 (cf, lg) w hs)) (snd (l_after3 (cf, lg) w hs)).
  Proof.
    induction hs as [|h t IH]; intros w g cf lg HL Hhs; [exact HL|].
    cbn [forallb] in Hhs. apply andb_prop in Hhs. destruct Hhs as [Hh Ht].
    destruct (LI3_step w g cf lg h HL Hh) as [_ HL'].
    cbn [l_after3 run_from HistInv3.after]. destruct (step w h) as [w' o]. cbn [fst snd g_after] in *.
    destruct (l_step3 live_cond_set (cf, lg) w h o) as [ok [cf' lg']]. cbn [fst snd] in *.
    apply (IH w' _ cf' lg' HL' Ht).
  Qed.
End Set3.

(* the liveness half of C01 with the candidate ghost, every cache size *)
Theorem c01_liveness_set c hs :
  forallb (live_hop (c_acceptip c) (c_acceptua c) (c_json c)) hs = true ->
  l_run3 live_cond_set (c, []) (mkWorld (init_st c) []) hs = true.
Proof.
  intro H. exact (live_from_set (c_json c) (c_acceptip c) (c_acceptua c) hs _ [] c [] (LI3_init c) H).
Qed.

Theorem c01_served_set c hs r t0 cs op :
  forallb (live_hop (c_acceptip c) (c_acceptua c) (c_json c)) (hs ++ [HReq r]) = true ->
  let w := HistInv3.after (mkWorld (init_st c) []) hs in
  let g := g_after [] hs (run c hs) in
  let cl := l_after3 (c, []) (mkWorld (init_st c) []) hs in
  a_get (snd cl) (rq_client r) = Some (t0, cs, op) ->
  live_cond_set (fst cl) (now (w_st w)) (t0, cs, op) (rq_addr r) (rq_ua r) = true ->
  served w r = true /\
  ob_res (snd (step w (HReq r))) = RSess /\
  exists id rc, ob_start (snd (step w (HReq r))) = Some (id, rc) /\
                g_get g (rq_client r) = Some (content_of rc).
Proof.
  intro Hhs. cbv zeta. intros Eg Ec.
  rewrite forallb_app in Hhs. apply andb_prop in Hhs. destruct Hhs as [H1 H2].
  cbn [forallb] in H2. rewrite Bool.andb_true_r in H2.
  pose proof (LI3_after _ _ _ hs _ [] c [] (LI3_init c) H1) as HL.
  destruct (live_hop_parts _ _ _ _ H2) as (_ & Hwf & Hc01 & _).
  unfold run. apply (due_step_set _ _ _ _ _ _ _ r t0 cs op HL Hwf (c01_wf_pjar r Hc01) Eg Ec).
Qed.

(* ------------------------------------------------ the vocabulary, unfolded *)

Lemma live_cond_set_meaning cf t t0 cs op a u :
  live_cond_set cf t (t0, cs, op) a u =
  negb (c_maxcache cf =? 0)%Z && (0 <=? c_expiry cf)%Z && (0 <=? c_grace cf)%Z && (c_idexpiry cf <=? max64)%Z &&
  (t - t0 + StartLaws4.slack cf <? c_expiry cf)%Z &&
  forallb (fun p => ip_ok (c_acceptip cf) (fst p) a && ua_ok (c_acceptua cf) (snd p) u) cs &&
  match op with
  | Some p0 => (c_acceptip cf <=? 1)%Z || (4 <? c_acceptip cf)%Z || is_v4 (fst p0) || negb (is_v4 a)
  | None => true
  end.
Proof. reflexivity. Qed.

(* one candidate, not open — the entry after a request at which Start did not
   rotate the ID (or created the session): the plain rule-based condition *)
Lemma live_cond_set_single cf t t0 a0 u0 a u :
  live_cond_set cf t (t0, [(a0, u0)], None) a u = live_cond_rules cf t (t0, a0, u0) a u.
Proof.
  unfold live_cond_set, live_cond_rules, acc. cbn [fst snd forallb].
  rewrite !Bool.andb_true_r. rewrite !Bool.andb_assoc. reflexivity.
Qed.

Lemma l_step3_req_meaning cond cf lg w r o :
  l_step3 cond (cf, lg) w (HReq r) o =
  (match a_get lg (rq_client r) with
   | Some x => if cond cf (now (w_st w)) x (rq_addr r) (rq_ua r) then served w r else true
   | None => true
   end,
   (cf, match ob_start o, ob_jar o with
        | Some (id, _), CKey _ =>
          if (c_maxcache cf =? 0)%Z || existsb is_destroy (rq_script r) then a_del lg (rq_client r)
          else a_set lg (rq_client r)
                 (if match jar_of (w_jars w) (rq_client r) with CKey k => key_eqb k id | _ => false end
                  then (now (w_st w), [(rq_addr r, rq_ua r)], None)
                  else match a_get lg (rq_client r) with
                       | Some (_, cs, op) => (now (w_st w), (rq_addr r, rq_ua r) :: cs, op)
                       | None => (now (w_st w), [(rq_addr r, rq_ua r)],
                                  match jar_of (w_jars w) (rq_client r) with
                                  | CKey _ => Some (rq_addr r, rq_ua r)
                                  | _ => None
                                  end)
                       end)
        | _, _ => a_del lg (rq_client r)
        end)).
Proof. unfold l_step3, entry_after, same_id. destruct (ob_start o) as [[id rc0]|]; reflexivity. Qed.

Lemma LI3_meaning j n b w g cf lg :
  LI3 j n b w g cf lg <->
  JI w g /\ W j w /\ conf (w_st w) = cf /\ c_acceptip cf = n /\ c_acceptua cf = b /\
  (forall c t0 cs op, a_get lg c = Some (t0, cs, op) ->
     (forall p0, op = Some p0 -> In p0 cs) /\
     exists k, owns j c k (fl j t0) w /\
       forall r, L (w_st w) k = Some r ->
         In (r_ip r, r_ua r) cs \/
         exists p0, op = Some p0 /\ ip_ok n (r_ip r) (fst p0) = true /\ ua_ok b (r_ua r) (snd p0) = true).
Proof.
  assert (HPK : forall cs op s k, PK n b cs op s k <->
            forall r, L s k = Some r ->
              In (r_ip r, r_ua r) cs \/
              exists p0, op = Some p0 /\ ip_ok n (r_ip r) (fst p0) = true /\ ua_ok b (r_ua r) (snd p0) = true).
  { intros cs op s k. unfold PK, pv, okp. split.
    - intros H r Hr. rewrite Hr in H. apply (H (pcont r) eq_refl).
    - intros H p Hp. destruct (L s k) as [r|]; [|discriminate Hp]. injection Hp as <-. apply (H r eq_refl). }
  split.
  - intros [A B C D E F]. repeat (split; [assumption|]).
    intros c t0 cs op Hg. destruct (F c t0 cs op Hg) as (F1 & k & F2 & F3). split; [exact F1|].
    exists k. split; [exact F2|]. apply HPK. exact F3.
  - intros (A & B & C & D & E & F). constructor; try assumption.
    intros c t0 cs op Hg. destruct (F c t0 cs op Hg) as (F1 & k & F2 & F3). split; [exact F1|].
    exists k. split; [exact F2|]. apply HPK. exact F3.
Qed.
