(* C10, orphan copies (audit task A9), part 5. A crash between the save under
   the new ID and the save of the replaced-ID record leaves TWO full copies of
   the session in the store: under the old ID (still the live one) and under the
   new ID, which nobody was told. What holds: no response was sent; the ID the
   client holds still resolves to the full session (CrashChain4.v); the orphan's
   ID is never generated again - the supply of IDs never decreases, in any
   history, with any faults and crashes. What does not hold: a later Destroy of
   the session does NOT remove the orphan copy (orphan_survives_destroy). *)
From Sessions Require Import Model.Base Model.Sess Model.Hist Proofs.SessDefs
  Proofs.HistInv Proofs.HistInv2 Proofs.HistInv3.
From Sessions Require Proofs.CrashFault Proofs.CrashFault2 Proofs.CrashFault3 Proofs.CrashFault4 Proofs.CrashFault5
  Proofs.CrashFault6 Proofs.CrashFault8 Proofs.CrashFault9 Proofs.CrashFault13 Proofs.CrashFault14 Proofs.LiveHist4.
From Sessions Require Import Proofs.CrashRestart Proofs.CrashRestart2 Proofs.CrashRestart3 Proofs.CrashRestart4
  Proofs.CrashChain Proofs.CrashChain2 Proofs.CrashChain3 Proofs.CrashChain4.
From Coq Require Import Lia.
Import CrashFault CrashFault2 CrashFault3 CrashFault5 CrashFault6 LiveHist4.
Local Open Scope Z_scope.

(* ------------------------------------------------- nothing was delivered *)

(* a crashing request step: no response - no result, no cookie -, every cookie
   jar as before *)
Theorem crash_obs w r n : rq_crash r = Some n ->
  let ob := snd (step w (HReq r)) in
  ob_res ob = RCrashed /\ ob_cookies ob = [] /\ ob_start ob = None /\ ob_final ob = None /\
  w_jars (fst (step w (HReq r))) = w_jars w.
Proof.
  intro Hcr. cbv zeta. rewrite step_req_eq. cbv zeta. rewrite Hcr.
  destruct (req_body _ _ (rq_script r)) as [[[[[s3 rc] st0] sr] fin] cks].
  destruct (fold_left apply_ev _ _) as [stor gr]. repeat split.
Qed.

(* ------------------------------------- the supply of IDs never decreases *)

Lemma keeps_supply s s' : CrashFault13.keeps s s' -> (supply s <= supply s')%N.
Proof. intros ([l X] & _). rewrite (x_supply _ _ _ X). lia. Qed.

(* every step of every history - any hop, any fault plan, any crash point *)
Theorem step_supply_mono w h : (supply (w_st w) <= supply (w_st (fst (step w h))))%N.
Proof.
  unfold step. set (s := set_evs (w_st w) []).
  destruct h as [r|d|tbl pl| | |u tbl pl|u tbl pl|c]; cbv zeta.
  - destruct (start _ _) as [[s2 res] cks] eqn:EST.
    pose proof (keeps_supply _ _ (CrashFault14.keeps_start _ _ _ _ _ EST)) as H2. cbn [supply set_tb set_plan] in H2. change (supply s) with (supply (w_st w)) in H2.
    pose proof (keeps_supply _ _ (CrashFault13.keeps_fire_due s2)) as H2'.
    assert (Tail : forall s3 rc st0 sr fin cks3, (supply (w_st w) <= supply s3)%N ->
      (supply (w_st w) <= supply (w_st (fst
         (let s3' := set_tb (set_plan s3 []) [] in
          match rq_crash r with
          | Some n =>
            let pre := ev_prefix (rev (evs s3')) n in
            let '(stor, gr) := fold_left apply_ev pre (store s, graves s) in
            let s4 := restart (set_supply (set_graves (set_store (set_evs s3' (rev pre)) stor) gr)
                                          (supply s + count_draws pre)%N) in
            (mkWorld s4 (w_jars w), mk_obs RCrashed None [] [] None s4 (jar_of (w_jars w) (rq_client r)))
          | None =>
            let jar' := match rq_present r with
                        | PJar => apply_cookies (jar_of (w_jars w) (rq_client r)) cks3
                        | PForge _ => jar_of (w_jars w) (rq_client r)
                        end in
            (mkWorld s3' (jar_set (w_jars w) (rq_client r) jar'), mk_obs rc st0 cks3 sr fin s3' jar')
          end))))%N).
    { intros s3 rc st0 sr fin cks3 H3. cbv zeta. destruct (rq_crash r) as [n|].
      - destruct (fold_left apply_ev _ _) as [stor gr]. cbn [fst w_st restart set_pending set_cache supply set_supply].
        change (supply s) with (supply (w_st w)). lia.
      - cbn [fst w_st supply set_tb set_plan]. exact H3. }
    destruct res as [[o|]|e|e].
    + destruct (run_script (fire_due s2) o _ (rq_script r)) as [[s3 sr] cks'] eqn:ER.
      apply Tail. pose proof (keeps_supply _ _ (CrashFault13.keeps_run_script _ _ _ _ _ _ _ ER)). lia.
    + apply Tail. lia.
    + apply Tail. lia.
    + apply Tail. lia.
  - cbn [fst w_st]. pose proof (keeps_supply _ _ (CrashFault13.keeps_fire_due (set_now s (now s + d)))) as H. exact H.
  - cbn [fst w_st supply set_tb set_plan purge set_cache].
    pose proof (keeps_supply _ _ (CrashFault14.keeps_purge_saves (order_by_tb (tb (set_tb (set_plan s pl) tbl)) (cache (set_tb (set_plan s pl) tbl))) (set_tb (set_plan s pl) tbl))) as H.
    exact H.
  - cbn. lia.
  - cbn. lia.
  - destruct (logout_user _ u) as [s1 r0] eqn:E. cbn [fst w_st].
    pose proof (keeps_supply _ _ (CrashFault13.keeps_logout_user _ _ _ _ E)) as H1.
    pose proof (keeps_supply _ _ (CrashFault13.keeps_fire_due (set_tb (set_plan s1 []) []))) as H2.
    cbn [supply set_tb set_plan] in *. change (supply s) with (supply (w_st w)) in *. lia.
  - destruct (refresh_user _ u) as [s1 r0] eqn:E. cbn [fst w_st].
    pose proof (keeps_supply _ _ (CrashFault13.keeps_refresh_user _ _ _ _ E)) as H1.
    pose proof (keeps_supply _ _ (CrashFault13.keeps_fire_due (set_tb (set_plan s1 []) []))) as H2.
    cbn [supply set_tb set_plan] in *. change (supply s) with (supply (w_st w)) in *. lia.
  - cbn. lia.
Qed.

Theorem after_supply_mono hs : forall w, (supply (w_st w) <= supply (w_st (after w hs)))%N.
Proof.
  induction hs as [|h hs IH]; intro w; [cbn; lia|].
  change (after w (h :: hs)) with (after (fst (step w h)) hs).
  pose proof (step_supply_mono w h). pose proof (IH (fst (step w h))). lia.
Qed.

(* the ID the package generates next is the supply's ordinal: an ID below the
   supply is never generated again, whatever happens *)
Theorem never_generated_again w m hs :
  (m < supply (w_st w))%N -> snd (gen_id (w_st (after w hs))) <> KGen m.
Proof.
  intros Hm E. cbn [gen_id snd] in E. injection E as E. pose proof (after_supply_mono hs w). lia.
Qed.

(* ------------------------------------------------------- the orphan stage *)

Lemma spath_from_last (F : rec -> Prop) stor tl : forall rest k0,
  spath F stor k0 (rest ++ tl) -> spath F stor (last rest k0) tl.
Proof.
  induction rest as [|k1 t IH]; intros k0 H; [exact H|].
  rewrite last_cons. apply IH. apply H.
Qed.

(* no chain passes through an ID that no stored record refers to *)
Lemma spath_not_through (F : rec -> Prop) stor t :
  (forall k z, lookup stor k = Some z -> r_ref z <> Some t) ->
  forall rest k, spath F stor k rest -> ~ In t rest.
Proof.
  intros Hno. induction rest as [|k' tl IH]; intros k H; [intros []|].
  destruct H as [(z & A & B) H']. intros [->|Hin].
  - exact (Hno _ _ A B).
  - exact (IH _ H' Hin).
Qed.

(* Scenario chain_crash with script [RegenerateID]; the crash left a record
   under the new ID k(n+1) while the record under kn is still a session record
   (the process stopped between the two saves of the ID change). Then:
   - both are full copies of the session (data D, user U);
   - no response was sent: no cookie, the jars are as before - nobody was told
     the new ID;
   - the ID the client presented still resolves, through the chain, to the
     session (and the request after the restart is served: chain_restart_old);
   - the orphan's ID is below the supply, so it is never generated again in any
     continuation (any hops, faults, crashes);
   - no record of the store refers to the orphan's ID: resolution from any
     other stored ID never passes through it. *)
Theorem orphan_stage w r n k0 rest D U :
  chain_crash w r n k0 rest D U [SRegen] ->
  let w' := fst (step w (HReq r)) in let nid := KGen (supply (w_st w)) in
  forall x y, lookup (store (w_st w')) nid = Some x -> lookup (store (w_st w')) (last rest k0) = Some y -> r_ref y = None ->
    (r_ref x = None /\ full D U x /\ full D U y) /\
    (ob_res (snd (step w (HReq r))) = RCrashed /\ ob_cookies (snd (step w (HReq r))) = [] /\ w_jars w' = w_jars w) /\
    resolves_chain (full D U) (store (w_st w')) k0 /\
    (forall hs, snd (gen_id (w_st (after w' hs))) <> nid) /\
    (forall k z, lookup (store (w_st w')) k = Some z -> r_ref z <> Some nid) /\
    (forall (F : rec -> Prop) k rest', spath F (store (w_st w')) k rest' -> ~ In nid rest').
Proof.
  intros Hcc w' nid x y Hx Hy Hry.
  destruct (crash_store_chain w r n k0 rest D U Hcc)
    as (l & _ & _ & _ & _ & _ & _ & _ & _ & (tl & _ & Hsp) & Hres & _ & _ & Horph & Hsup & Hunref).
  fold w' in Hsp, Hres, Horph, Hsup, Hunref. fold nid in Horph, Hsup, Hunref.
  destruct (Horph x Hx) as [Hrx Hfx].
  pose proof (spath_from_last _ _ _ _ _ Hsp) as Hl.
  assert (Hfy : full D U y).
  { destruct tl as [|t1 tl'].
    - destruct Hl as (y' & A & _ & C). congruence.
    - destruct Hl as [(y' & A & B) _]. congruence. }
  assert (Hno : forall k z, lookup (store (w_st w')) k = Some z -> r_ref z <> Some nid).
  { intros k z Hk Hz. pose proof (Hunref k z Hk Hz) as ->. congruence. }
  split; [auto|]. split.
  - destruct (crash_obs w r n (cc_crash _ _ _ _ _ _ _ _ Hcc)) as (A & B & _ & _ & C). auto.
  - split; [exact Hres|]. split; [|split; [exact Hno|]].
    + intro hs. apply never_generated_again. apply Hsup. congruence.
    + intros F k rest'. apply spath_not_through. exact Hno.
Qed.
