(* Laws of Start, part 4: accepted requests. C06_moves for every fault plan
   (the returned object carries this request's peer, agent and instant), and
   C03_live for the plain accepted request (no rotation due): what the logical
   content of the presented ID is afterwards, with and without cache. *)
From Sessions Require Import Model.Base Model.Sess Model.Hist Proofs.SessDefs Proofs.StartLaws Proofs.StartLaws2.
From Coq Require Import Lia ZifyBool.

(* ----------------------------------- heap and clock frames, any fault plan *)

Definition hsame (s s' : st) : Prop := heap s' = heap s /\ now s' = now s.

Lemma hsame_refl s : hsame s s.
Proof. split; reflexivity. Qed.

Lemma hsame_trans a b c : hsame a b -> hsame b c -> hsame a c.
Proof. intros [H1 H2] [H3 H4]. split; congruence. Qed.

Lemma p_save_hsame s k r : hsame s (fst (p_save s k r)).
Proof. unfold p_save, next_fault. destruct (plan s) as [|[] p]; split; reflexivity. Qed.

Lemma p_delete_hsame s k : hsame s (fst (p_delete s k)).
Proof. unfold p_delete, next_fault. destruct (plan s) as [|[] p]; split; reflexivity. Qed.

Lemma p_load_hsame s k : hsame s (fst (p_load s k)).
Proof.
  unfold p_load, next_fault.
  destruct (plan s) as [|[] p] eqn:Ep; cbn; try (split; reflexivity);
    (destruct (lookup (store s) k) as [r|]; [destruct (r_user r) as [[u v]|]|]; cbn; try (split; reflexivity)).
  - rewrite Ep. split; reflexivity.
  - destruct p as [|[] p0]; split; reflexivity.
Qed.

Lemma sweep_hsame es : forall s, hsame s (fst (sweep s es)).
Proof.
  induction es as [|[k o] es IH]; intro s; cbn [sweep]; [apply hsame_refl|].
  destruct (hget s o) as [ob|]; [|apply IH].
  pose proof (p_save_hsame (set_tb s (drop_first (tb s) k)) k (o_rec ob)) as H.
  destruct (p_save (set_tb s (drop_first (tb s) k)) k (o_rec ob)) as [s1 ok]. cbn [fst] in H.
  destruct ok; [|exact H]. eapply hsame_trans; [exact H|].
  eapply hsame_trans; [|apply IH]. split; reflexivity.
Qed.

Lemma evict_hsame f : forall s req, hsame s (fst (evict f s req)).
Proof.
  induction f as [|f IH]; intros s req; cbn [evict]; [apply hsame_refl|].
  destruct (c_maxcache (conf s) <? Z.of_nat (length (cache s)) + req)%Z; [|apply hsame_refl].
  destruct (pick_victim s) as [[k o]|]; [|apply hsame_refl].
  destruct (hget s o) as [ob|]; [|apply hsame_refl].
  pose proof (p_save_hsame (set_tb s (drop_first (tb s) k)) k (o_rec ob)) as H.
  destruct (p_save (set_tb s (drop_first (tb s) k)) k (o_rec ob)) as [s1 ok]. cbn [fst] in H.
  destruct ok; [|exact H]. eapply hsame_trans; [exact H|].
  eapply hsame_trans; [|apply IH]. split; reflexivity.
Qed.

Lemma compact_hsame s req : hsame s (compact s req).
Proof.
  unfold compact. pose proof (sweep_hsame (order_by_tb (tb s) (filter (is_idle s) (cache s))) s) as H.
  destruct (sweep s (order_by_tb (tb s) (filter (is_idle s) (cache s)))) as [s1 ok]. cbn [fst] in H.
  destruct (negb ok); [exact H|].
  destruct ((c_maxcache (conf s1) <? 0)%Z || (Z.of_nat (length (cache s1)) + req <=? c_maxcache (conf s1))%Z);
    [exact H|].
  eapply hsame_trans; [exact H | apply evict_hsame].
Qed.

Lemma cache_delete_hsame s k : hsame s (fst (cache_delete s k)).
Proof.
  unfold cache_delete. eapply hsame_trans; [|apply p_delete_hsame]. split; reflexivity.
Qed.

Lemma now_hupd s o f : now (hupd s o f) = now s.
Proof. unfold hupd. destruct (hget s o); reflexivity. Qed.

(* cache.Set changes the heap exactly by its refresh of the access time *)
Lemma cache_set_heap s o :
  heap (fst (cache_set s o)) = heap (hupd s o (fun r => set_access r (now s))) /\
  now (fst (cache_set s o)) = now s.
Proof.
  unfold cache_set. destruct (hget s o) as [ob0|] eqn:E0.
  - set (s1 := hupd s o (fun r => set_access r (now s))).
    assert (Hn1 : now s1 = now s) by apply now_hupd.
    destruct (hget s1 o) as [ob|]; [|split; [reflexivity | exact Hn1]].
    set (req := if has (cache s1) (o_id ob) then 0%Z else 1%Z).
    pose proof (compact_hsame s1 req) as [H1 H2].
    destruct (c_maxcache (conf (compact s1 req)) =? 0)%Z.
    + destruct (p_save_hsame (compact s1 req) (o_id ob) (o_rec ob)) as [H3 H4]. split; congruence.
    + destruct (p_save_hsame (set_cache (compact s1 req) (upsert (cache (compact s1 req)) (o_id ob) o))
                             (o_id ob) (o_rec ob)) as [H3 H4].
      cbn [heap now set_cache] in H3, H4. split; congruence.
  - unfold hupd. rewrite E0. split; reflexivity.
Qed.

(* the heap only grows, the clock stands still *)
Definition hdom (s s' : st) : Prop := length (heap s) <= length (heap s') /\ now s' = now s.

Lemma hdom_refl s : hdom s s.
Proof. split; [lia | reflexivity]. Qed.

Lemma hdom_trans a b c : hdom a b -> hdom b c -> hdom a c.
Proof. intros [H1 H2] [H3 H4]. split; [lia | congruence]. Qed.

Lemma hsame_hdom s s' : hsame s s' -> hdom s s'.
Proof. intros [H1 H2]. split; [rewrite H1; lia | exact H2]. Qed.

Lemma hdom_hget s s' o ob : hdom s s' -> hget s o = Some ob -> exists ob', hget s' o = Some ob'.
Proof.
  intros [H _] Ho. apply hget_Some_lt in Ho. destruct (hget s' o) as [ob'|] eqn:E; [eexists; reflexivity|].
  unfold hget in E. apply nth_error_None in E. lia.
Qed.

Lemma cache_set_hdom s o : hdom s (fst (cache_set s o)).
Proof.
  destruct (cache_set_heap s o) as [H1 H2]. split; [|exact H2]. rewrite H1, heap_len_hupd. lia.
Qed.

Lemma cache_get_hdom s k : hdom s (fst (cache_get s k)).
Proof.
  unfold cache_get. destruct (lookup (cache s) k); [apply hdom_refl|].
  pose proof (p_load_hsame s k) as [H1 H2].
  destruct (p_load s k) as [s1 [[r|]|]]; cbn [fst] in *; try (split; [rewrite H1; lia | exact H2]).
  unfold halloc.
  destruct (c_maxcache (conf (set_heap s1 (heap s1 ++ [mkObj k r]))) =? 0)%Z.
  - cbn [fst]. split; [cbn [heap set_heap]; rewrite app_length, H1; lia | exact H2].
  - cbn [fst]. destruct (compact_hsame (set_heap s1 (heap s1 ++ [mkObj k r])) 1) as [H3 H4].
    split; cbn [heap now set_cache].
    + rewrite H3. cbn [heap set_heap]. rewrite app_length, H1. lia.
    + rewrite H4. exact H2.
Qed.

Lemma regenerate_hdom s o : hdom s (fst (fst (regenerate s o))).
Proof.
  unfold regenerate. destruct (hget s o) as [ob|]; [|apply hdom_refl].
  unfold gen_id.
  set (s1 := hput (log (set_supply s (supply s + 1)%N) (EvDraw (supply s))) o
                  (mkObj (KGen (supply s)) (set_created (o_rec ob) (now (log (set_supply s (supply s + 1)%N) (EvDraw (supply s))))))).
  assert (H1 : hdom s s1).
  { split; [|reflexivity]. unfold s1, hput. cbn [heap set_heap]. rewrite replace_nth_length. cbn. lia. }
  pose proof (cache_set_hdom s1 o) as H2.
  destruct (cache_set s1 o) as [s2 ok]. cbn [fst] in H2.
  assert (H12 : hdom s s2) by (eapply hdom_trans; eassumption).
  destruct ok; cbn [negb]; [|exact H12].
  destruct (hget s2 o) as [ob2|]; [|exact H12].
  unfold halloc.
  set (ro := mkObj (o_id ob) (mkRec (r_created (o_rec ob2)) (now s2) (r_ip (o_rec ob2)) (r_ua (o_rec ob2))
                                   (Some (KGen (supply s))) None None)).
  pose proof (cache_set_hdom (set_heap s2 (heap s2 ++ [ro])) (length (heap s2))) as H3.
  destruct (cache_set (set_heap s2 (heap s2 ++ [ro])) (length (heap s2))) as [s3 ok3]. cbn [fst] in H3.
  assert (H13 : hdom s s3).
  { eapply hdom_trans; [exact H12|]. eapply hdom_trans; [|exact H3].
    split; [cbn [heap set_heap]; rewrite app_length; lia | reflexivity]. }
  destruct ok3; cbn [negb]; exact H13.
Qed.

(* follow returns only objects that exist and are not reference records *)
Lemma follow_ok fuel : forall s o lk s' o' lk',
  follow fuel s o lk = (s', Ok (o', lk')) ->
  now s' = now s /\ exists ob, hget s' o' = Some ob /\ r_ref (o_rec ob) = None.
Proof.
  induction fuel as [|f IH]; intros s o lk s' o' lk'; cbn [follow]; destruct (hget s o) as [ob|] eqn:Ho; try discriminate.
  - destruct (r_ref (o_rec ob)) eqn:Hr; [discriminate|]. intro H. injection H as <- <- <-.
    split; [reflexivity|]. exists ob. split; assumption.
  - destruct (r_ref (o_rec ob)) as [t|] eqn:Hr.
    + pose proof (cache_get_hdom s t) as [_ Hn]. destruct (cache_get s t) as [s1 [[o1|]|]]; try discriminate.
      cbn [fst] in Hn. intro H. apply IH in H. destruct H as [H1 H2]. split; [congruence | exact H2].
    + intro H. injection H as <- <- <-. split; [reflexivity|]. exists ob. split; assumption.
Qed.

(* ---------------------------------------------------------- C06_moves *)

(* the object carries this request's peer address, agent and instant *)
Definition touched (s : st) (q : request) (o : nat) : Prop :=
  exists ob, hget s o = Some ob /\
             r_ip (o_rec ob) = q_addr q /\ r_ua (o_rec ob) = q_ua q /\ r_access (o_rec ob) = now s.

Definition touch (s : st) (q : request) (r : rec) : rec :=
  set_ua (set_ip (set_access r (now s)) (q_addr q)) (q_ua q).

Lemma hupd_touched s q o ob :
  hget s o = Some ob -> touched (hupd s o (touch s q)) q o.
Proof.
  intro Ho. exists (mkObj (o_id ob) (touch s q (o_rec ob))). split; [apply hget_hupd_same; exact Ho|].
  rewrite now_hupd. repeat split.
Qed.

Lemma create_moves s q s' o cks :
  create_session s q = (s', Ok (Some o), cks) -> touched s' q o /\ now s' = now s.
Proof.
  unfold create_session, gen_id, halloc.
  set (s1 := log (set_supply s (supply s + 1)%N) (EvDraw (supply s))).
  set (ob := mkObj (KGen (supply s)) (mkRec (now s1) (now s1) (q_addr q) (q_ua q) None None (Some []))).
  set (s2 := set_heap s1 (heap s1 ++ [ob])).
  pose proof (cache_set_heap s2 (length (heap s1))) as [H1 H2].
  destruct (cache_set s2 (length (heap s1))) as [s3 ok]. cbn [fst] in H1, H2.
  destruct ok; cbn [negb]; [|discriminate]. intro H. injection H as <- <- _.
  assert (Ho2 : hget s2 (length (heap s1)) = Some ob).
  { unfold hget, s2. cbn [heap set_heap]. rewrite nth_error_app2 by lia. rewrite Nat.sub_diag. reflexivity. }
  split; [|rewrite H2; reflexivity].
  exists (mkObj (o_id ob) (set_access (o_rec ob) (now s2))). split.
  - unfold hget. rewrite H1. apply (hget_hupd_same s2 _ ob). exact Ho2.
  - rewrite H2. repeat split.
Qed.

(* the accepted branch of Start, as a function of the state after the look-up *)
Definition valid_part (c : cfg) (s : st) (q : request) (k : key) (o : nat) (r : rec)
  : st * result (option nat) * list cookie :=
  let cks : list cookie := [] in
  let age := since (r_created r) (now s) in
  let isref := match r_ref r with Some _ => true | None => false end in
  let '(s, step, cks) :=
    if negb isref && (c_idexpiry c <=? age)%Z then
      let '(s, res, rck) := regenerate s o in (s, res, cks ++ rck)
    else if (sat_add (c_idexpiry c) (c_grace c) <=? age)%Z then
      let '(s, ok) := cache_delete s k in
      (s, if ok then Err EExpiredID else Err EDeleteExpired, cks)
    else (s, Ok tt, cks) in
  match step with
  | Err e => (s, Err e, cks)
  | Panic e => (s, Panic e, cks)
  | Ok _ =>
    let '(s, fr) := if isref then follow (S (N.to_nat (supply s))) s o k else (s, Ok (o, k)) in
    match fr with
    | Err e => (s, Err e, cks)
    | Panic e => (s, Panic e, cks)
    | Ok (o', lk) =>
      let cks := if isref then cks ++ [CkLive lk] else cks in
      let s := hupd s o' (fun r => set_ua (set_ip (set_access r (now s)) (q_addr q)) (q_ua q)) in
      (s, Ok (Some o'), cks)
    end
  end.

Lemma start_valid_eq s q k s1 o ob :
  q_cookie q = CKey k -> cache_get s k = (s1, Some (Some o)) -> hget s1 o = Some ob ->
  start_valid (conf s) (o_rec ob) q (now s1) = true ->
  start s q = valid_part (conf s) s1 q k o (o_rec ob).
Proof.
  intros Hq Hg Ho Hv. unfold start. rewrite Hq, Hg. cbn iota beta. rewrite Ho.
  unfold start_valid in Hv. cbv zeta. rewrite Hv. reflexivity.
Qed.

Lemma start_getfail s q k s1 :
  q_cookie q = CKey k -> cache_get s k = (s1, None) -> start s q = (s1, Err EGet, []).
Proof. intros Hq Hg. unfold start. rewrite Hq, Hg. reflexivity. Qed.

Lemma start_nohandle s q k s1 o :
  q_cookie q = CKey k -> cache_get s k = (s1, Some (Some o)) -> hget s1 o = None ->
  start s q = (s1, Panic EGet, []).
Proof. intros Hq Hg Ho. unfold start. rewrite Hq, Hg. cbn iota beta. rewrite Ho. reflexivity. Qed.

Lemma valid_part_moves c s q k o r ob s' o' cks :
  hget s o = Some ob ->
  valid_part c s q k o r = (s', Ok (Some o'), cks) -> touched s' q o' /\ now s' = now s.
Proof.
  intros Ho. unfold valid_part.
  destruct (r_ref r) as [t|] eqn:Hr; cbn [negb andb].
  - (* a reference record: backstop test, then follow *)
    destruct (sat_add (c_idexpiry c) (c_grace c) <=? since (r_created r) (now s))%Z.
    + destruct (cache_delete s k) as [s1 ok]. destruct ok; discriminate.
    + destruct (follow (S (N.to_nat (supply s))) s o k) as [s1 [[o1 lk1]|e|e]] eqn:Hf; try discriminate.
      apply follow_ok in Hf as (Hn & ob1 & Ho1 & _).
      intro H. injection H as <- <- _. split; [|rewrite now_hupd; exact Hn].
      apply (hupd_touched s1 q o1 ob1). exact Ho1.
  - destruct (c_idexpiry c <=? since (r_created r) (now s))%Z.
    + (* rotation *)
      pose proof (regenerate_hdom s o) as Hd.
      destruct (regenerate s o) as [[s1 res] rck]. cbn [fst] in Hd.
      destruct res as [u|e|e]; try discriminate.
      intro H. injection H as <- <- _.
      destruct (hdom_hget _ _ _ _ Hd Ho) as (ob1 & Ho1).
      split; [|rewrite now_hupd; apply Hd]. apply (hupd_touched s1 q o ob1). exact Ho1.
    + destruct (sat_add (c_idexpiry c) (c_grace c) <=? since (r_created r) (now s))%Z.
      * destruct (cache_delete s k) as [s1 ok]. destruct ok; discriminate.
      * intro H. injection H as <- <- _. split; [|apply now_hupd]. apply (hupd_touched s q o ob). exact Ho.
Qed.

Lemma destroy_now s o hc : now (fst (fst (destroy s o hc))) = now s.
Proof.
  unfold destroy. destruct (hget s o) as [ob|]; [|reflexivity].
  pose proof (cache_delete_hsame s (o_id ob)) as [_ H].
  destruct (cache_delete s (o_id ob)) as [s1 ok]. destruct ok; exact H.
Qed.

(* C06_moves, for every state and fault plan: whenever Start returns a session,
   the returned object records this request's peer address and agent and has
   the current instant as access time. *)
Theorem start_moves s q s' o cks :
  start s q = (s', Ok (Some o), cks) -> touched s' q o /\ now s' = now s.
Proof.
  destruct (q_cookie q) as [|k|n] eqn:Hq.
  - rewrite start_nolookup by (intros k H; congruence).
    destruct (q_create q); [|discriminate].
    destruct (create_session s q) as [[s1 res] nck] eqn:Hc. intro H. injection H as <- -> _.
    eapply create_moves. exact Hc.
  - pose proof (cache_get_hdom s k) as [_ Hn1].
    destruct (cache_get s k) as [s1 [[o1|]|]] eqn:Hg; cbn [fst] in Hn1.
    + destruct (hget s1 o1) as [ob|] eqn:Ho.
      * destruct (start_valid (conf s) (o_rec ob) q (now s1)) eqn:Hv.
        -- rewrite (start_valid_eq s q k s1 o1 ob Hq Hg Ho Hv). intro H.
           apply (valid_part_moves _ _ _ _ _ _ ob) in H; [|exact Ho].
           destruct H as [H1 H2]. split; [exact H1 | congruence].
        -- rewrite (start_invalid s q k s1 o1 ob Hq Hg Ho Hv).
           pose proof (destroy_now s1 o1 (had_cookie q)) as Hn2.
           destruct (destroy s1 o1 (had_cookie q)) as [[s2 res] dck]. cbn [fst] in Hn2.
           destruct res as [u|e|e]; try discriminate.
           destruct (q_create q); [|discriminate].
           destruct (create_session s2 q) as [[s3 res] nck] eqn:Hc. intro H. injection H as <- -> _.
           apply create_moves in Hc. destruct Hc as [H1 H2]. split; [exact H1 | congruence].
      * rewrite (start_nohandle s q k s1 o1 Hq Hg Ho). discriminate.
    + rewrite (start_miss s q k s1 Hq Hg).
      destruct (q_create q); [|discriminate].
      destruct (create_session s1 q) as [[s2 res] nck] eqn:Hc. intro H. injection H as <- -> _.
      apply create_moves in Hc. destruct Hc as [H1 H2]. split; [exact H1 | congruence].
    + rewrite (start_getfail s q k s1 Hq Hg). discriminate.
  - rewrite start_nolookup by (intros k H; congruence).
    destruct (q_create q); [|discriminate].
    destruct (create_session s q) as [[s1 res] nck] eqn:Hc. intro H. injection H as <- -> _.
    eapply create_moves. exact Hc.
Qed.

(* when the returned object is the cached one for its ID, the comparison point
   of the next request (the logical content) is this request *)
Lemma touched_L s q o :
  touched s q o ->
  forall ob, hget s o = Some ob -> lookup (cache s) (o_id ob) = Some o ->
  exists r, L s (o_id ob) = Some r /\ r_ip r = q_addr q /\ r_ua r = q_ua q /\ r_access r = now s.
Proof.
  intros (ob0 & H0 & H1) ob Ho Hc. rewrite Ho in H0. injection H0 as <-.
  exists (o_rec ob). split; [|exact H1]. unfold L. rewrite Hc, Ho. reflexivity.
Qed.

(* ------------------------------------------------------------ C03_live *)

Lemma cache_hupd s o f : cache (hupd s o f) = cache s.
Proof. unfold hupd. destruct (hget s o); reflexivity. Qed.

Lemma store_hupd s o f : store (hupd s o f) = store s.
Proof. unfold hupd. destruct (hget s o); reflexivity. Qed.

Lemma conf_hupd s o f : conf (hupd s o f) = conf s.
Proof. unfold hupd. destruct (hget s o); reflexivity. Qed.

(* The plain accepted request: the presented ID resolves to a non-reference
   record that passes the tests, and no rotation is due. The returned object is
   the record with this request's bookkeeping. If the ID was cached, or the
   cache is enabled, that object is (now) the cached one, so the logical content
   of the ID has access time = now. With cache size 0 and the ID not cached the
   update reaches only the returned object: nothing is saved, L is unchanged. *)
Theorem live_touch_ok s q k r :
  ok s ->
  q_cookie q = CKey k -> L s k = Some r -> r_ref r = None ->
  start_valid (conf s) r q (now s) = true ->
  (c_idexpiry (conf s) <=? since (r_created r) (now s))%Z = false ->
  (sat_add (c_idexpiry (conf s)) (c_grace (conf s)) <=? since (r_created r) (now s))%Z = false ->
  exists s' o,
    start s q = (s', Ok (Some o), []) /\
    hget s' o = Some (mkObj k (touch s q r)) /\
    (lookup (cache s) k <> None \/ c_maxcache (conf s) <> 0%Z ->
       lookup (cache s') k = Some o /\ L s' k = Some (touch s q r)) /\
    (lookup (cache s) k = None -> c_maxcache (conf s) = 0%Z ->
       cache s' = cache s /\ store s' = store s /\ forall k', L s' k' = L s k') /\
    (forall k', k' <> k -> Lc s' k' = Lc s k') /\
    ok s' /\ conf s' = conf s /\ now s' = now s.
Proof.
  intros Hok Hq HL Hr Hv Hrot Hback. pose proof Hok as (Hp & Hc & Hn).
  destruct (cache_get_found s k r Hok HL) as (s1 & o & Hg & Hgp).
  destruct Hgp as [g1 g1' g2 g3 g4 g5 g6 g7 g8 g9].
  assert (Hv1 : start_valid (conf s) (o_rec (mkObj k r)) q (now s1) = true) by (rewrite g4; exact Hv).
  rewrite (start_valid_eq s q k s1 o _ Hq Hg g1 Hv1). cbn [o_rec].
  unfold valid_part. rewrite Hr. cbn [negb andb]. rewrite g4, Hrot, Hback.
  assert (Ht : touch s1 q = touch s q) by (unfold touch; rewrite g4; reflexivity).
  exists (hupd s1 o (touch s1 q)), o. split; [reflexivity|]. rewrite Ht.
  assert (Hob : hget (hupd s1 o (touch s q)) o = Some (mkObj k (touch s q r))).
  { apply (hget_hupd_same s1 o (mkObj k r)). exact g1. }
  split; [exact Hob|]. split; [|split; [|split; [|split; [|split]]]].
  - intro H. apply g8 in H. split.
    + rewrite cache_hupd. exact H.
    + unfold L. rewrite cache_hupd, H, Hob. reflexivity.
  - intros H1 H2. destruct (g9 H1 H2) as (Hh & Ho & Hca & Hst).
    rewrite cache_hupd, store_hupd. split; [exact Hca|]. split; [exact Hst|].
    intro k'. apply L_frame; [exact Hc | | rewrite cache_hupd; congruence | rewrite store_hupd; congruence].
    intros o' ob' H. rewrite hget_hupd_other.
    + apply g1'. exact H.
    + apply hget_Some_lt in H. lia.
  - intros k' Hne. rewrite <- g6. apply Lc_of_L; [apply conf_hupd|].
    unfold L. rewrite cache_hupd, store_hupd.
    destruct (lookup (cache s1) k') as [o'|] eqn:E; [|reflexivity].
    rewrite hget_hupd_other; [reflexivity|]. intros <-.
    destruct g2 as (_ & Hc1 & _). destruct (Hc1 k' o E) as (ob' & Ho' & Hid).
    rewrite g1 in Ho'. injection Ho' as <-. apply Hne. symmetry. exact Hid.
  - destruct g2 as (Hp1 & Hc1 & Hn1). split; [|split].
    + unfold hupd. destruct (hget s1 o); exact Hp1.
    + intros k' o' H. rewrite cache_hupd in H. destruct (Hc1 k' o' H) as (ob' & Ho' & Hid).
      destruct (Nat.eq_dec o o') as [<-|Hne].
      * rewrite g1 in Ho'. injection Ho' as <-. eexists. split; [exact Hob | exact Hid].
      * exists ob'. split; [rewrite hget_hupd_other by exact Hne; exact Ho' | exact Hid].
    + rewrite cache_hupd. exact Hn1.
  - rewrite conf_hupd. exact g3.
  - rewrite now_hupd. exact g4.
Qed.

Theorem live_touch s q k r :
  plan s = [] -> cache_ok s -> nodup_ok s ->
  q_cookie q = CKey k -> L s k = Some r -> r_ref r = None ->
  start_valid (conf s) r q (now s) = true ->
  (c_idexpiry (conf s) <=? since (r_created r) (now s))%Z = false ->
  (sat_add (c_idexpiry (conf s)) (c_grace (conf s)) <=? since (r_created r) (now s))%Z = false ->
  exists s' o,
    start s q = (s', Ok (Some o), []) /\
    hget s' o = Some (mkObj k (touch s q r)) /\
    (lookup (cache s) k <> None \/ c_maxcache (conf s) <> 0%Z ->
       lookup (cache s') k = Some o /\ L s' k = Some (touch s q r)) /\
    (lookup (cache s) k = None -> c_maxcache (conf s) = 0%Z ->
       cache s' = cache s /\ store s' = store s /\ forall k', L s' k' = L s k') /\
    (forall k', k' <> k -> Lc s' k' = Lc s k') /\
    ok s' /\ conf s' = conf s /\ now s' = now s.
Proof.
  intros Hp Hc [Hn _]. apply live_touch_ok. repeat split; assumption.
Qed.

(* ------------------------------ between two requests of the same client *)

(* what the JSON codec can take off an instant *)
Definition slack (c : cfg) : Z := if c_json c then (second - 1)%Z else 0%Z.

Lemma codec_access c r1 r2 : codec c r2 = codec c r1 -> (r_access r1 - slack c <= r_access r2)%Z.
Proof.
  intro H. apply (f_equal r_access) in H. unfold codec, slack in *. cbn [r_access] in H.
  destruct (c_json c); [|lia]. unfold second in *.
  pose proof (Z.mod_pos_bound (r_access r1) 1000000000 ltac:(lia)).
  pose proof (Z.mod_pos_bound (r_access r2) 1000000000 ltac:(lia)). lia.
Qed.

(* Any sequence of steps that leaves the logical content of k (modulo codec)
   and the configuration alone — evictions, idle sweeps and flushes
   (flush_frame), other clients' requests (the frames of unknown_cookie,
   no_lookup, invalid_destroys, live_touch), the passing of time — keeps the
   session on the live side of the staleness test while less than SessionExpiry
   (minus the codec's resolution) has passed since the access time. *)
Theorem live_kept s1 s2 k r1 :
  L s1 k = Some r1 -> Lc s2 k = Lc s1 k -> conf s2 = conf s1 ->
  (0 <= c_expiry (conf s1))%Z ->
  (now s2 - r_access r1 + slack (conf s1) < c_expiry (conf s1))%Z ->
  exists r2, L s2 k = Some r2 /\ codec (conf s1) r2 = codec (conf s1) r1 /\
             stale (conf s2) r2 (now s2) = false.
Proof.
  intros HL HLc Hcf He Hgap. unfold Lc in HLc. rewrite HL, Hcf in HLc.
  destruct (L s2 k) as [r2|]; [|discriminate]. cbn [option_map] in HLc.
  assert (HLc' : codec (conf s1) r2 = codec (conf s1) r1) by congruence. clear HLc. rename HLc' into HLc.
  exists r2. split; [reflexivity|]. split; [exact HLc|].
  pose proof (codec_access _ _ _ HLc) as Ha.
  unfold stale, since, clamp64, min64, max64. rewrite Hcf.
  destruct (now s2 - r_access r2 <? -9223372036854775808)%Z eqn:E1; [lia|].
  destruct (9223372036854775807 <? now s2 - r_access r2)%Z eqn:E2; lia.
Qed.

(* compaction is such a step *)
Lemma flush_keeps s s' k : flush s s' -> plan s = [] -> Lc s' k = Lc s k /\ conf s' = conf s.
Proof. intros Hf Hp. destruct (flush_props s s' Hf Hp). auto. Qed.

(* so is the clock *)
Lemma set_now_keeps s t k : Lc (set_now s t) k = Lc s k /\ conf (set_now s t) = conf s.
Proof. split; reflexivity. Qed.

(* Two requests of one client, any compaction and any wait in between: if the
   first is a plain accepted request at instant t0 with the cache in use, the
   second, at t1 with t1 - t0 (+ codec resolution) < SessionExpiry, finds a
   record that passes the staleness test. *)
Theorem live_twice s q k r s' o cks sm t1 :
  plan s = [] -> cache_ok s -> nodup_ok s ->
  q_cookie q = CKey k -> L s k = Some r -> r_ref r = None ->
  start_valid (conf s) r q (now s) = true ->
  (c_idexpiry (conf s) <=? since (r_created r) (now s))%Z = false ->
  (sat_add (c_idexpiry (conf s)) (c_grace (conf s)) <=? since (r_created r) (now s))%Z = false ->
  lookup (cache s) k <> None \/ c_maxcache (conf s) <> 0%Z ->
  start s q = (s', Ok (Some o), cks) ->
  flush s' sm ->
  (0 <= c_expiry (conf s))%Z ->
  (t1 - now s + slack (conf s) < c_expiry (conf s))%Z ->
  exists r2, L (set_now sm t1) k = Some r2 /\ stale (conf s) r2 t1 = false /\
             durable (codec (conf s) r2) = durable (codec (conf s) r).
Proof.
  intros Hp Hc Hn Hq HL Hr Hv Hrot Hback Hca Hst Hfl He Hgap.
  destruct (live_touch s q k r Hp Hc Hn Hq HL Hr Hv Hrot Hback)
    as (s0 & o0 & Hst0 & Hob & Hcached & _ & _ & (Hp' & _) & Hcf' & _).
  rewrite Hst in Hst0. injection Hst0 as <- <-.
  destruct (Hcached Hca) as [_ HL'].
  destruct (flush_keeps s' sm k Hfl Hp') as [HLc Hcf].
  destruct (live_kept s' (set_now sm t1) k (touch s q r) HL') as (r2 & H1 & H2 & H3).
  - exact HLc.
  - exact Hcf.
  - rewrite Hcf'. exact He.
  - rewrite Hcf'. cbn [now set_now touch set_ua set_ip set_access r_access]. exact Hgap.
  - exists r2. split; [exact H1|]. cbn [conf set_now now] in H3. rewrite Hcf, Hcf' in H3. split; [exact H3|].
    rewrite Hcf' in H2. rewrite H2. unfold durable, codec, touch. cbn. reflexivity.
Qed.

Lemma compact_flush_nodup s req : plan s = [] -> NoDup (map fst (cache s)) -> flush s (compact s req).
Proof. intros Hp Hn. apply compact_flush; [exact Hp | apply nodup_cgood; exact Hn]. Qed.

(* ------------------------------------------------------------ examples *)

Module Examples.
  Definition cfgc (size : Z) : cfg := mkCfg 100 1000 10 50 size 3 false false.
  Definition peer : addr := V4 10 0 0 1 4000.
  Definition peer' : addr := V4 10 0 7 7 4001.      (* same first two octets *)

  Definition made (size : Z) : st :=
    let '(s, _, _) := start (init_st (cfgc size)) (mkReq CNone true peer 7) in set_now s 60.

  (* cache in use: the logical content follows the request *)
  Example moves_cached :
    let '(s', res, cks) := start (made 1) (mkReq (CKey (KGen 0)) false peer' 7) in
    res = Ok (Some 0) /\ cks = [] /\
    L s' (KGen 0) = Some (mkRec 0 60 peer' 7 None None (Some [])) /\
    lookup (store s') (KGen 0) = Some (mkRec 0 0 peer 7 None None (Some [])).
  Proof. vm_compute. repeat split; reflexivity. Qed.

  (* cache size 0: the returned object follows the request, L does not *)
  Example moves_uncached :
    let '(s', res, cks) := start (made 0) (mkReq (CKey (KGen 0)) false peer' 7) in
    res = Ok (Some 1) /\ option_map o_rec (hget s' 1) = Some (mkRec 0 60 peer' 7 None None (Some [])) /\
    L s' (KGen 0) = Some (mkRec 0 0 peer 7 None None (Some [])).
  Proof. vm_compute. repeat split; reflexivity. Qed.

  (* ... so with cache size 0 a session accessed every 60 ns is stale at 120 *)
  Example uncached_goes_stale :
    let '(s', _, _) := start (made 0) (mkReq (CKey (KGen 0)) false peer 7) in
    let '(s'', res, cks) := start (set_now s' 120) (mkReq (CKey (KGen 0)) false peer 7) in
    res = Ok None /\ cks = [CkDelete].
  Proof. vm_compute. split; reflexivity. Qed.

  (* with the cache it is served *)
  Example cached_stays_live :
    let '(s', _, _) := start (made 1) (mkReq (CKey (KGen 0)) false peer 7) in
    let '(s'', res, cks) := start (set_now s' 120) (mkReq (CKey (KGen 0)) false peer 7) in
    res = Ok (Some 0) /\ cks = [].
  Proof. vm_compute. split; reflexivity. Qed.

  (* rotation (ID expiry 50 reached at 60): the returned object carries the new
     ID and still follows the request *)
  Example moves_rotated :
    let s0 := set_conf (made 2) (mkCfg 100 50 10 50 2 3 false false) in
    let '(s', res, cks) := start s0 (mkReq (CKey (KGen 0)) false peer' 7) in
    res = Ok (Some 0) /\ cks = [CkLive (KGen 1)] /\
    hget s' 0 = Some (mkObj (KGen 1) (mkRec 60 60 peer' 7 None None (Some []))) /\
    L s' (KGen 1) = Some (mkRec 60 60 peer' 7 None None (Some [])).
  Proof. vm_compute. repeat split; reflexivity. Qed.
End Examples.
