(* C19F: what the functions TRANSLATED from ids.go (Gen/IdsFn.v, regenerated on
   every run) compute, as closed arithmetic specifications (spec_* below). This
   file depends on the translation only - not on Model/Ids.v, whose literals
   come from Gen/Consts.v and whose text pins fail under any rewrite of the
   source - so it keeps compiling under a rewrite of the Go code that computes
   the same values and breaks under one that does not. The proofs go through
   what the terms compute (congruences modulo 2^40 / 2^16, ranges), not through
   their shape. Proofs/IdsFnModel.v proves that Model/Ids.v computes the same
   specifications, hence equals the translation. *)
From Sessions Require Import Model.Base Gen.IdsFn.
From Coq Require Import Lia ZifyBool ZifyNat ZifyN Zdiv Znumtheory Setoid Morphisms.
Local Open Scope N_scope.

(* ------------------------------------------------------------------------ *)
(* the unsigned operations as congruences                                    *)

(* congruence modulo P, with +, -, * as morphisms (for setoid rewriting) *)
Definition cg (P a b : Z) : Prop := (a mod P = b mod P)%Z.
Global Instance cg_equiv P : Equivalence (cg P).
Proof.
  unfold cg. constructor; [intro x; reflexivity | intros x y H; symmetry; exact H
                          | intros x y z H1 H2; congruence].
Qed.
Global Instance cg_add P : Proper (cg P ==> cg P ==> cg P) Z.add.
Proof. unfold cg. intros a b H c d H'. rewrite (Zplus_mod a c), (Zplus_mod b d), H, H'. reflexivity. Qed.
Global Instance cg_sub P : Proper (cg P ==> cg P ==> cg P) Z.sub.
Proof. unfold cg. intros a b H c d H'. rewrite (Zminus_mod a c), (Zminus_mod b d), H, H'. reflexivity. Qed.
Global Instance cg_mul P : Proper (cg P ==> cg P ==> cg P) Z.mul.
Proof. unfold cg. intros a b H c d H'. rewrite (Zmult_mod a c), (Zmult_mod b d), H, H'. reflexivity. Qed.

Section Cong.
  Variables (m : N) (P : Z).
  Hypothesis HP : (0 < P)%Z.
  Hypothesis Hm : m <> 0.
  Hypothesis Hdiv : (Z.of_N m mod P = 0)%Z.

  Lemma mod_m_cg a : cg P (Z.of_N (a mod m)) (Z.of_N a).
  Proof.
    unfold cg. rewrite N2Z.inj_mod. symmetry. apply Zmod_div_mod; [exact HP | lia |].
    apply Z.mod_divide; [lia | exact Hdiv].
  Qed.

  Lemma m_cg_0 : cg P (Z.of_N m) 0%Z.
  Proof. unfold cg. rewrite Hdiv. reflexivity. Qed.

  Lemma uadd_cg a b : cg P (Z.of_N (uadd m a b)) (Z.of_N a + Z.of_N b)%Z.
  Proof. unfold uadd. rewrite mod_m_cg, N2Z.inj_add. reflexivity. Qed.

  Lemma usub_cg a b : cg P (Z.of_N (usub m a b)) (Z.of_N a - Z.of_N b)%Z.
  Proof.
    unfold usub. rewrite mod_m_cg, N2Z.inj_add.
    assert (b mod m < m) by (apply N.mod_lt, Hm).
    rewrite N2Z.inj_sub by lia. rewrite m_cg_0, mod_m_cg.
    unfold cg. f_equal; lia.
  Qed.

  Lemma umul_cg a b : cg P (Z.of_N (umul m a b)) (Z.of_N a * Z.of_N b)%Z.
  Proof. unfold umul. rewrite mod_m_cg, N2Z.inj_mul. reflexivity. Qed.

  Lemma ushl_cg a k : cg P (Z.of_N (ushl m a k)) (Z.of_N a * 2 ^ Z.of_N k)%Z.
  Proof. unfold ushl. rewrite mod_m_cg, N.shiftl_mul_pow2, N2Z.inj_mul, N2Z.inj_pow. reflexivity. Qed.

  Lemma uconv_cg a : cg P (Z.of_N (uconv m a)) (Z.of_N a).
  Proof. unfold uconv. apply mod_m_cg. Qed.

  Lemma sconv_cg z : cg P (Z.of_N (sconv m z)) z.
  Proof.
    unfold sconv. assert (0 <= z mod Z.of_N m)%Z by (apply Z.mod_pos_bound; lia).
    rewrite Z2N.id by assumption. unfold cg. symmetry. apply Zmod_div_mod; [exact HP | lia |].
    apply Z.mod_divide; [lia | exact Hdiv].
  Qed.

  (* the model's subtraction (Model/Ids.v: u64_sub, u16_sub) *)
  Lemma msub_cg a b : cg P (Z.of_N ((a mod m + (m - b mod m)) mod m)) (Z.of_N a - Z.of_N b)%Z.
  Proof.
    rewrite mod_m_cg, N2Z.inj_add.
    assert (b mod m < m) by (apply N.mod_lt, Hm).
    rewrite N2Z.inj_sub by lia. rewrite m_cg_0, !mod_m_cg.
    unfold cg. f_equal; lia.
  Qed.
End Cong.

(* two numbers below M that are congruent modulo M are equal *)
Lemma cg_small_eq (M x y : N) : x < M -> y < M -> cg (Z.of_N M) (Z.of_N x) (Z.of_N y) -> x = y.
Proof.
  intros Hx Hy E. unfold cg in E. rewrite !Z.mod_small in E by lia. lia.
Qed.

Lemma sconv_of_N (m a : N) : m <> 0 -> sconv m (Z.of_N a) = a mod m.
Proof. intro Hm. unfold sconv. rewrite <- N2Z.inj_mod, N2Z.id. reflexivity. Qed.

Definition P40 : Z := 1099511627776.
Definition P16 : Z := 65536.
Lemma d6440 : (Z.of_N m64 mod P40 = 0)%Z. Proof. reflexivity. Qed.
Lemma d1616 : (Z.of_N m16 mod P16 = 0)%Z. Proof. reflexivity. Qed.
Lemma p40pos : (0 < P40)%Z. Proof. reflexivity. Qed.
Lemma p16pos : (0 < P16)%Z. Proof. reflexivity. Qed.
Lemma m64nz : m64 <> 0. Proof. discriminate. Qed.
Lemma m16nz : m16 <> 0. Proof. discriminate. Qed.

(* push Z.of_N through the unsigned operations, modulo 2^40 resp. 2^16 *)
Ltac cong40 :=
  repeat first
    [ rewrite (uadd_cg m64 P40 p40pos m64nz d6440) | rewrite (usub_cg m64 P40 p40pos m64nz d6440)
    | rewrite (umul_cg m64 P40 p40pos m64nz d6440) | rewrite (ushl_cg m64 P40 p40pos m64nz d6440)
    | rewrite (uconv_cg m64 P40 p40pos m64nz d6440) | rewrite (sconv_cg m64 P40 p40pos m64nz d6440)
    | rewrite (msub_cg m64 P40 p40pos m64nz d6440) | rewrite (mod_m_cg m64 P40 p40pos m64nz d6440)
    | rewrite N2Z.inj_add | rewrite N2Z.inj_mul | rewrite N.shiftl_mul_pow2 | rewrite N2Z.inj_pow ].
Ltac cong16 :=
  repeat first
    [ rewrite (uadd_cg m16 P16 p16pos m16nz d1616) | rewrite (usub_cg m16 P16 p16pos m16nz d1616)
    | rewrite (umul_cg m16 P16 p16pos m16nz d1616) | rewrite (ushl_cg m16 P16 p16pos m16nz d1616)
    | rewrite (uconv_cg m16 P16 p16pos m16nz d1616)
    | rewrite (msub_cg m16 P16 p16pos m16nz d1616) | rewrite (mod_m_cg m16 P16 p16pos m16nz d1616)
    | rewrite N2Z.inj_add | rewrite N2Z.inj_mul | rewrite N.shiftl_mul_pow2 | rewrite N2Z.inj_pow ].
(* evaluate powers and injections of literals *)
Ltac zlits :=
  cbn [Z.of_N];
  repeat match goal with
         | |- context [Z.pow (Zpos ?a) (Zpos ?b)] =>
           let v := eval vm_compute in (Z.pow (Zpos a) (Zpos b)) in change (Z.pow (Zpos a) (Zpos b)) with v
         end.
(* an unsigned operation's result is below its modulus *)
Ltac urange := unfold uadd, usub, umul, ushl, uconv; apply N.mod_lt; discriminate.

(* ------------------------------------------------------------------------ *)
(* the timestamp                                                             *)

Lemma land_mask40 t : N.land t 1099511627775 = t mod 1099511627776.
Proof. change 1099511627775 with (N.ones 40). apply N.land_ones. Qed.

(* what both compute: seconds * 1000 - reference + (nanoseconds mod 2^64) / 10^6, modulo 2^40 *)
Definition ts_spec (sec : Z) (nsec : N) : Z :=
  (sec * 1000 - 1483228800000 + Z.of_N ((nsec mod m64) / 1000000))%Z.

Definition spec_timestamp (sec : Z) (nsec : N) : N := Z.to_N (ts_spec sec nsec mod P40).

(* below 2^40 and congruent to ts_spec: that is spec_timestamp *)
Lemma spec_timestamp_char (sec : Z) (nsec : N) (x : N) :
  x < 1099511627776 -> cg P40 (Z.of_N x) (ts_spec sec nsec) -> x = spec_timestamp sec nsec.
Proof.
  intros Hx Hc. unfold spec_timestamp. unfold cg in Hc. rewrite <- Hc.
  rewrite Z.mod_small by (unfold P40; lia). rewrite N2Z.id. reflexivity.
Qed.

Lemma spec_timestamp_lt sec nsec : spec_timestamp sec nsec < 1099511627776.
Proof.
  unfold spec_timestamp. pose proof (Z.mod_pos_bound (ts_spec sec nsec) P40 p40pos). unfold P40 in *. lia.
Qed.

Theorem gen_timestamp_spec (sec : Z) (nsec : N) :
  gen_timestamp sec (Z.of_N nsec) = spec_timestamp sec nsec.
Proof.
  apply spec_timestamp_char.
  - unfold gen_timestamp. cbv zeta. rewrite ?land_mask40. apply N.mod_lt; discriminate.
  - unfold gen_timestamp. cbv zeta. rewrite ?land_mask40, ?(sconv_of_N m64 nsec m64nz).
    unfold cg. rewrite N2Z.inj_mod. change (Z.of_N 1099511627776) with P40. rewrite Z.mod_mod by discriminate.
    match goal with |- (?a mod P40 = ?b mod P40)%Z => change (cg P40 a b) end.
    set (K := (nsec mod m64) / 1000000). cong40.
    unfold ts_spec, cg. fold K. f_equal; zlits; lia.
Qed.

(* ------------------------------------------------------------------------ *)
(* the counter                                                               *)

Definition spec_counter_step (lt lc ts : N) : N * N :=
  (ts, if ts =? lt then (lc + 1) mod 18446744073709551616 else 0).

Theorem gen_counter_step_spec (lt lc ts : N) :
  gen_counter_step lt lc ts = spec_counter_step lt lc ts.
Proof.
  unfold gen_counter_step, spec_counter_step. cbv zeta. unfold uadd, m64.
  destruct (ts =? lt); reflexivity.
Qed.

(* ------------------------------------------------------------------------ *)
(* the MAC hash                                                              *)

Definition hstep (h b : N) : N := (31 * h + b) mod 65536.

Lemma fold_left_ext_inv {A B} (f g : A -> B -> A) (Inv : A -> Prop) :
  (forall a b, Inv a -> f a b = g a b) -> (forall a b, Inv a -> Inv (g a b)) ->
  forall l a, Inv a -> fold_left f l a = fold_left g l a.
Proof.
  intros Hfg Hinv. induction l as [|b l IH]; intros a Ha; [reflexivity|].
  cbn [fold_left]. rewrite (Hfg a b Ha). apply IH, Hinv, Ha.
Qed.

Lemma hstep_lt h b : hstep h b < 65536.
Proof. unfold hstep. apply N.mod_lt. discriminate. Qed.

Definition spec_machash (mac : bytes) : N := fold_left hstep mac 0.

Lemma spec_machash_lt (mac : bytes) : spec_machash mac < 65536.
Proof.
  unfold spec_machash.
  assert (H : forall l h, h < 65536 -> fold_left hstep l h < 65536).
  { induction l as [|b l IH]; intros h Hh; [exact Hh|]. cbn [fold_left]. apply IH, hstep_lt. }
  apply H. reflexivity.
Qed.

Theorem gen_machash_spec (mac : bytes) : gen_machash mac = spec_machash mac.
Proof.
  unfold spec_machash, gen_machash. cbv zeta.
  apply (fold_left_ext_inv _ _ (fun h => h < 65536)).
  - intros h b Hh. apply (cg_small_eq 65536); [urange | apply hstep_lt |].
    change (Z.of_N 65536) with P16. unfold hstep. change 65536 with m16.
    cong16. unfold cg. f_equal; zlits; lia.
  - intros h b _. apply hstep_lt.
  - reflexivity.
Qed.

(* ------------------------------------------------------------------------ *)
(* spill, assembly                                                           *)

Lemma land_shiftl_low (b n a : N) : a < 2 ^ n -> N.land (N.shiftl b n) a = 0.
Proof.
  intro Ha. apply N.bits_inj. intro i. rewrite N.land_spec, N.bits_0.
  destruct (N.lt_ge_cases i n) as [Hlt|Hge].
  - rewrite N.shiftl_spec_low by assumption. reflexivity.
  - replace a with (a mod 2 ^ n) by (apply N.mod_small, Ha).
    rewrite N.mod_pow2_bits_high by assumption. apply andb_false_r.
Qed.

Lemma lor_shiftl_add (b n a : N) : a < 2 ^ n -> N.lor (N.shiftl b n) a = b * 2 ^ n + a.
Proof.
  intro Ha.
  rewrite <- N.lxor_lor, <- N.add_nocarry_lxor by (apply land_shiftl_low, Ha).
  rewrite N.shiftl_mul_pow2. reflexivity.
Qed.

Lemma assemble (ts hh c : N) :
  ts < 1099511627776 -> hh < 65536 -> c < 256 ->
  N.lor (N.lor (ushl m64 ts 24) (ushl m64 (uconv m64 hh) 8)) (uconv m64 c) = ts * 16777216 + hh * 256 + c.
Proof.
  intros Hts Hh Hc. unfold ushl, uconv, m64.
  rewrite (N.mod_small hh), (N.mod_small c) by lia.
  rewrite !N.shiftl_mul_pow2. change (2 ^ 24) with 16777216. change (2 ^ 8) with 256.
  rewrite (N.mod_small (ts * 16777216)), (N.mod_small (hh * 256)) by lia.
  rewrite <- N.lor_assoc.
  replace (hh * 256) with (N.shiftl hh 8) by (rewrite N.shiftl_mul_pow2; reflexivity).
  rewrite (lor_shiftl_add hh 8 c) by (change (2 ^ 8) with 256; lia). change (2 ^ 8) with 256.
  replace (ts * 16777216) with (N.shiftl ts 24) by (rewrite N.shiftl_mul_pow2; reflexivity).
  rewrite (lor_shiftl_add ts 24) by (change (2 ^ 24) with 16777216; lia).
  rewrite ?N.shiftl_mul_pow2. change (2 ^ 24) with 16777216. change (2 ^ 8) with 256. lia.
Qed.

(* the word: timestamp above bit 24, below it (hash * 256 + counter) mod 2^24 - the
   statement of C19_cuid_bits_spec *)
Definition spec_bits (ts lc h : N) : N := ts * 16777216 + (h * 256 + lc) mod 16777216.

Theorem gen_bits_spec (ts lc h : N) :
  ts < 1099511627776 -> h < 65536 -> gen_bits ts lc h = spec_bits ts lc h.
Proof.
  intros Hts Hh. unfold gen_bits, spec_bits. cbv zeta.
  change 255 with (N.ones 8). change 65535 with (N.ones 16).
  rewrite !N.land_ones, N.shiftr_div_pow2. change (2 ^ 8) with 256. change (2 ^ 16) with 65536.
  match goal with
  | |- N.lor (N.lor (ushl m64 ts 24) (ushl m64 (uconv m64 ?H) 8)) (uconv m64 ?C) = _ =>
    set (h' := H); set (c := C)
  end.
  assert (Hh' : h' = (h + lc / 256) mod 65536).
  { subst h'. unfold uadd, uconv, m16. destruct (lc / 256 =? 0) eqn:E; cbn [negb]; lia. }
  assert (Hc : c = lc mod 256) by reflexivity.
  clearbody h' c.
  rewrite (assemble ts h' c) by lia. lia.
Qed.

(* ------------------------------------------------------------------------ *)
(* the eleven digits                                                         *)

Lemma iter_succ_r {A} (n : nat) (f : A -> A) (x : A) : Nat.iter (S n) f x = Nat.iter n f (f x).
Proof.
  induction n as [|n IH]; [reflexivity|].
  change (Nat.iter (S (S n)) f x) with (f (Nat.iter (S n) f x)). rewrite IH. reflexivity.
Qed.

(* 0-9 A-Z a-z *)
Definition spec_b62_chars : bytes :=
  [48;49;50;51;52;53;54;55;56;57;65;66;67;68;69;70;71;72;73;74;75;76;77;78;79;80;81;82;83;84;85;86;87;88;89;90;
   97;98;99;100;101;102;103;104;105;106;107;108;109;110;111;112;113;114;115;116;117;118;119;120;121;122].
(* n base-62 digits of w, most significant first, in front of acc *)
Fixpoint spec_b62 (n : nat) (w : N) (acc : bytes) : bytes :=
  match n with
  | O => acc
  | S k => spec_b62 k (w / 62) (nth (N.to_nat (w mod 62)) spec_b62_chars 0 :: acc)
  end.
Definition spec_base62 (bits : N) : bytes := spec_b62 11 bits [].

Theorem gen_base62_spec (bits : N) : gen_base62 bits = spec_base62 bits.
Proof.
  unfold gen_base62, spec_base62. cbv zeta.
  match goal with |- context [Nat.iter 11 ?f _] => set (F := f) end.
  assert (H : forall n w acc, fst (Nat.iter n F (acc, w)) = spec_b62 n w acc).
  { induction n as [|n IH]; intros w acc; [reflexivity|].
    rewrite iter_succ_r.
    change (F (acc, w)) with (nth (N.to_nat (w mod 62)) spec_b62_chars 0 :: acc, w / 62).
    rewrite IH. reflexivity. }
  rewrite <- (H 11%nat bits []).
  destruct (Nat.iter 11 F ([], bits)) as [a b]. reflexivity.
Qed.

(* divisor and index of the digit loop: never zero, never out of range (so the
   totalised N operations of the translation never differ from Go's) *)
Lemma spec_base62_in_range :
  length spec_b62_chars = 62%nat /\ forall w, (N.to_nat (w mod 62) < length spec_b62_chars)%nat.
Proof.
  split; [reflexivity|]. intro w. change (length spec_b62_chars) with 62%nat.
  pose proof (N.mod_lt w 62 ltac:(discriminate)). lia.
Qed.

(* ------------------------------------------------------------------------ *)
(* RandomID's symbol                                                         *)

Theorem gen_random_index_spec (b : N) :
  gen_random_chars = spec_b62_chars /\
  gen_random_index b = Z.of_N (b mod 62) /\
  (Z.to_nat (gen_random_index b) < length gen_random_chars)%nat.
Proof.
  assert (E : gen_random_index b = Z.of_N (b mod 62)).
  { unfold gen_random_index.
    set (L := Z.of_nat (length gen_random_chars)). assert (HL : L = 62%Z) by reflexivity. clearbody L. subst L.
    rewrite N2Z.inj_mod. change (Z.of_N 62) with 62%Z.
    repeat match goal with
           | |- context [Z.rem ?a ?b] => rewrite (Z.rem_mod_nonneg a b) by lia
           end.
    reflexivity. }
  split; [reflexivity|]. split; [exact E|].
  rewrite E. change (length gen_random_chars) with 62%nat.
  pose proof (N.mod_lt b 62 ltac:(discriminate)). lia.
Qed.

(* ------------------------------------------------------------------------ *)
(* the pieces put together                                                   *)

(* one call on the generator state (lastTime, lastCounter) at the reading
   (sec, nsec) with MAC address mac: new state and the 11 characters *)
Definition spec_cuid (mac : bytes) (lt lc : N) (sec : Z) (nsec : N) : N * N * bytes :=
  let ts := spec_timestamp sec nsec in
  let lc' := if ts =? lt then (lc + 1) mod 18446744073709551616 else 0 in
  (ts, lc', spec_base62 (spec_bits ts lc' (spec_machash mac))).

(* the translated whole body has the data flow of the pieces, as Model/CuidConc.v cuts it *)
Theorem gen_cuid_body_is_pieces (unix nanos : Z) (lt lc : N) (mac : bytes) :
  gen_cuid_body unix nanos lt lc mac =
  let ts := gen_timestamp unix nanos in
  let '(lt', lc') := gen_counter_step lt lc ts in
  (lt', lc', gen_base62 (gen_bits ts lc' (gen_machash mac))).
Proof. reflexivity. Qed.

Theorem gen_cuid_body_spec (mac : bytes) (lt lc : N) (sec : Z) (nsec : N) :
  gen_cuid_body sec (Z.of_N nsec) lt lc mac = spec_cuid mac lt lc sec nsec.
Proof.
  rewrite gen_cuid_body_is_pieces. cbv zeta.
  rewrite gen_timestamp_spec, gen_counter_step_spec. unfold spec_counter_step, spec_cuid. cbv zeta.
  rewrite gen_machash_spec, gen_bits_spec by (apply spec_timestamp_lt || apply spec_machash_lt).
  rewrite gen_base62_spec. reflexivity.
Qed.

(* the specifications, unfolded; the ranges *)
Lemma spec_meaning :
  (forall sec nsec, ts_spec sec nsec =
     (sec * 1000 - 1483228800000 + Z.of_N ((nsec mod 18446744073709551616) / 1000000))%Z) /\
  (forall sec nsec, spec_timestamp sec nsec = Z.to_N (ts_spec sec nsec mod 1099511627776)) /\
  (forall lt lc ts, spec_counter_step lt lc ts =
     (ts, if ts =? lt then (lc + 1) mod 18446744073709551616 else 0)) /\
  (forall mac, spec_machash mac = fold_left (fun h b => (31 * h + b) mod 65536) mac 0) /\
  (forall ts lc h, spec_bits ts lc h = ts * 16777216 + (h * 256 + lc) mod 16777216) /\
  (forall w acc, spec_b62 0 w acc = acc) /\
  (forall n w acc, spec_b62 (S n) w acc =
     spec_b62 n (w / 62) (nth (N.to_nat (w mod 62)) spec_b62_chars 0 :: acc)) /\
  (forall bits, spec_base62 bits = spec_b62 11 bits []) /\
  spec_b62_chars =
    [48;49;50;51;52;53;54;55;56;57;65;66;67;68;69;70;71;72;73;74;75;76;77;78;79;80;81;82;83;84;85;86;87;88;89;90;
     97;98;99;100;101;102;103;104;105;106;107;108;109;110;111;112;113;114;115;116;117;118;119;120;121;122] /\
  (forall mac lt lc sec nsec, spec_cuid mac lt lc sec nsec =
     let ts := spec_timestamp sec nsec in
     let lc' := if ts =? lt then (lc + 1) mod 18446744073709551616 else 0 in
     (ts, lc', spec_base62 (spec_bits ts lc' (spec_machash mac)))).
Proof. repeat match goal with |- _ /\ _ => split end; reflexivity. Qed.

Lemma spec_ranges :
  (forall sec nsec, spec_timestamp sec nsec < 1099511627776) /\
  (forall mac, spec_machash mac < 65536) /\
  length spec_b62_chars = 62%nat /\
  (forall w, (N.to_nat (w mod 62) < length spec_b62_chars)%nat).
Proof.
  exact (conj spec_timestamp_lt (conj spec_machash_lt spec_base62_in_range)).
Qed.
