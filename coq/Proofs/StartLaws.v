(* Laws of Start, part 1: the pure decision rules (C06_ip, C06_ua,
   C03_expired_pred), fault-free behaviour of the persistence layer, the codec,
   the logical content modulo codec (Lc), and compaction seen as a sequence of
   flush steps with its frame properties. Part 2 (StartLaws2.v) characterises
   cache_get / cache_delete / create_session and proves the theorems about
   Start itself. *)
From Sessions Require Import Model.Base Model.Sess Model.Hist Proofs.SessDefs.
From Coq Require Import Lia ZifyBool.

(* ====================================================== pure rules: C06 *)

(* The first n-1 octets of two IPv4 peers agree. *)
Definition octets_agree (n : Z) (a b c a' b' c' : N) : Prop :=
  (2 <= n -> a = a')%Z /\ (3 <= n -> b = b')%Z /\ (4 <= n -> c = c')%Z.

Lemma ip_ok_v4 n a b c d p a' b' c' d' p' :
  (2 <= n <= 4)%Z ->
  (ip_ok n (V4 a b c d p) (V4 a' b' c' d' p') = true <-> octets_agree n a b c a' b' c').
Proof.
  intros Hn. unfold ip_ok, octets_agree.
  replace (1 <? n)%Z with true by lia. replace (n <=? 4)%Z with true by lia.
  destruct (2 <=? n)%Z eqn:E2; destruct (3 <=? n)%Z eqn:E3; destruct (4 <=? n)%Z eqn:E4;
    try lia; rewrite ?andb_true_iff, ?N.eqb_eq; intuition (try lia).
Qed.

(* The same as a comparison of octet lists: the first n-1 of [a;b;c;d]. *)
Lemma ip_ok_v4_firstn n a b c d p a' b' c' d' p' :
  (2 <= n <= 4)%Z ->
  (ip_ok n (V4 a b c d p) (V4 a' b' c' d' p') = true <->
   firstn (Z.to_nat (n - 1)) [a; b; c; d] = firstn (Z.to_nat (n - 1)) [a'; b'; c'; d']).
Proof.
  intros Hn. rewrite ip_ok_v4 by exact Hn. unfold octets_agree.
  assert (Hc : n = 2%Z \/ n = 3%Z \/ n = 4%Z) by lia.
  destruct Hc as [->|[->| ->]]; simpl; split.
  - intros (H1 & _ & _). rewrite H1 by lia. reflexivity.
  - intros H. injection H as ->. repeat split; intros; try lia; reflexivity.
  - intros (H1 & H2 & _). rewrite H1, H2 by lia. reflexivity.
  - intros H. injection H as -> ->. repeat split; intros; try lia; reflexivity.
  - intros (H1 & H2 & H3). rewrite H1, H2, H3 by lia. reflexivity.
  - intros H. injection H as -> -> ->. repeat split; intros; reflexivity.
Qed.

(* ports and the octets after the compared prefix are free *)
Lemma ip_ok_port_free n a b c d p p' : ip_ok n (V4 a b c d p) (V4 a b c d p') = true.
Proof.
  unfold ip_ok. destruct (1 <? n)%Z; [|reflexivity]. destruct (n <=? 4)%Z; [|reflexivity].
  rewrite !N.eqb_refl. destruct (2 <=? n)%Z, (3 <=? n)%Z, (4 <=? n)%Z; reflexivity.
Qed.

Lemma ip_ok_last_octet_free n a b c d p d' p' : ip_ok n (V4 a b c d p) (V4 a b c d' p') = true.
Proof.
  unfold ip_ok. destruct (1 <? n)%Z; [|reflexivity]. destruct (n <=? 4)%Z; [|reflexivity].
  rewrite !N.eqb_refl. destruct (2 <=? n)%Z, (3 <=? n)%Z, (4 <=? n)%Z; reflexivity.
Qed.

Lemma ip_ok_other_l n x c : ip_ok n (AOther x) c = true.
Proof. unfold ip_ok. destruct (1 <? n)%Z; reflexivity. Qed.

Lemma ip_ok_other_r n p x : ip_ok n p (AOther x) = true.
Proof. unfold ip_ok. destruct (1 <? n)%Z; [destruct p|]; reflexivity. Qed.

Lemma ip_ok_le1 n p c : (n <= 1)%Z -> ip_ok n p c = true.
Proof. intro H. unfold ip_ok. replace (1 <? n)%Z with false by lia. reflexivity. Qed.

Lemma ip_ok_ge5 n p c : (5 <= n)%Z -> ip_ok n p c = true.
Proof.
  intro H. unfold ip_ok. destruct (1 <? n)%Z; [|reflexivity].
  destruct p, c; try reflexivity. replace (n <=? 4)%Z with false by lia. reflexivity.
Qed.

(* All of the above in one statement. *)
Definition ip_rule (n : Z) (p c : addr) : Prop :=
  match p, c with
  | V4 a b c0 _ _, V4 a' b' c' _ _ => (2 <= n <= 4)%Z -> octets_agree n a b c0 a' b' c'
  | _, _ => True
  end.

Lemma ip_ok_rule n p c : ip_ok n p c = true <-> ip_rule n p c.
Proof.
  destruct p as [a b c0 d p|x]; [destruct c as [a' b' c' d' p'|y]|].
  - unfold ip_rule. destruct (Z_le_gt_dec n 1); [|destruct (Z_le_gt_dec 5 n)].
    + rewrite ip_ok_le1 by lia. split; [intros _ Hn; lia | reflexivity].
    + rewrite ip_ok_ge5 by lia. split; [intros _ Hn; lia | reflexivity].
    + rewrite ip_ok_v4 by lia. split; [intros H _; exact H | intro H; apply H; lia].
  - rewrite ip_ok_other_r. simpl. tauto.
  - rewrite ip_ok_other_l. simpl. tauto.
Qed.

Lemma ua_ok_checking h c : ua_ok false h c = true <-> h = 0%N \/ h = c.
Proof. unfold ua_ok. simpl. rewrite orb_true_iff, !N.eqb_eq. tauto. Qed.

Lemma ua_ok_accepting h c : ua_ok true h c = true.
Proof. reflexivity. Qed.

(* with checking on and a recorded fingerprint: equality decides *)
Lemma ua_ok_recorded h c : h <> 0%N -> (ua_ok false h c = true <-> h = c).
Proof. intro Hh. rewrite ua_ok_checking. tauto. Qed.

(* a request without User-Agent (fingerprint 0) against a recorded one is refused *)
Lemma ua_ok_missing h : h <> 0%N -> ua_ok false h 0 = false.
Proof.
  intro Hh. destruct (ua_ok false h 0) eqn:E; [|reflexivity].
  apply ua_ok_recorded in E; [contradiction | exact Hh].
Qed.

(* non-vacuity: both verdicts occur, just inside / just outside the prefix *)
Example ip_rule_examples :
  ip_ok 3 (V4 10 0 0 1 4000) (V4 10 0 9 9 5000) = true /\
  ip_ok 3 (V4 10 0 0 1 4000) (V4 10 1 0 1 4000) = false /\
  ip_ok 4 (V4 10 0 0 1 4000) (V4 10 0 0 9 4000) = true /\
  ip_ok 4 (V4 10 0 0 1 4000) (V4 10 0 9 1 4000) = false /\
  ip_ok 2 (V4 10 0 0 1 4000) (V4 10 9 9 9 1) = true /\
  ip_ok 2 (V4 10 0 0 1 4000) (V4 11 0 0 1 4000) = false /\
  ip_ok 1 (V4 10 0 0 1 4000) (V4 11 1 1 1 1) = true /\
  ip_ok 3 (V4 10 0 0 1 4000) (AOther 1) = true.
Proof. repeat split; reflexivity. Qed.

Example ua_rule_examples :
  ua_ok false 7 7 = true /\ ua_ok false 7 8 = false /\ ua_ok false 7 0 = false /\
  ua_ok false 0 8 = true /\ ua_ok true 7 8 = true.
Proof. repeat split; reflexivity. Qed.

(* ============================================ pure rule: C03_expired_pred *)

(* The validity test of Start on the record it holds. *)
Definition start_valid (c : cfg) (r : rec) (q : request) (t : Z) : bool :=
  negb (c_expiry c <=? since (r_access r) t)%Z
  && ip_ok (c_acceptip c) (r_ip r) (q_addr q)
  && ua_ok (c_acceptua c) (r_ua r) (q_ua q).

Definition stale (c : cfg) (r : rec) (t : Z) : bool := (c_expiry c <=? since (r_access r) t)%Z.

(* Expired() is false for every non-reference record Start's staleness test
   lets through — for all values of the other durations (the second conjunct
   of Expired can only make it false more often). *)
Lemma expired_false_of_fresh c r t :
  r_ref r = None -> stale c r t = false -> expired c r t = false.
Proof.
  intros Hr Hs. unfold expired, stale in *. rewrite Hr, Hs. reflexivity.
Qed.

Lemma start_valid_not_stale c r q t : start_valid c r q t = true -> stale c r t = false.
Proof.
  unfold start_valid, stale. intro H. apply andb_true_iff in H as [H _].
  apply andb_true_iff in H as [H _]. apply negb_true_iff in H. exact H.
Qed.

Lemma expired_pred c r q t :
  r_ref r = None -> start_valid c r q t = true -> expired c r t = false.
Proof. intros Hr Hv. apply expired_false_of_fresh; [exact Hr | eapply start_valid_not_stale; exact Hv]. Qed.

(* For a reference record Expired() is the grace test or the second disjunct. *)
Lemma expired_ref c r t k :
  r_ref r = Some k ->
  expired c r t = (c_grace c <=? since (r_access r) t)%Z
                  || (stale c r t && (sat_add (c_idexpiry c) (c_grace c) <=? since (r_created r) t)%Z).
Proof. intro Hr. unfold expired, stale. rewrite Hr. reflexivity. Qed.

(* so a reference record that Start accepts can be reported expired: only when
   its grace period is over *)
Lemma expired_ref_valid c r q t k :
  r_ref r = Some k -> start_valid c r q t = true ->
  expired c r t = (c_grace c <=? since (r_access r) t)%Z.
Proof.
  intros Hr Hv. rewrite (expired_ref _ _ _ _ Hr), (start_valid_not_stale _ _ _ _ Hv).
  apply orb_false_r.
Qed.

Lemma since_self t : since t t = 0%Z.
Proof. unfold since. rewrite Z.sub_diag. reflexivity. Qed.

(* the record as Start returns it (access time = now): not expired, given a
   positive SessionExpiry ... *)
Lemma expired_touched c r t :
  r_ref r = None -> r_access r = t -> (0 < c_expiry c)%Z -> expired c r t = false.
Proof.
  intros Hr Ha Hc. apply expired_false_of_fresh; [exact Hr|]. unfold stale. rewrite Ha, since_self. lia.
Qed.

(* ... which the staleness test implies when the access time is not in the future *)
Lemma fresh_expiry_pos c r t : (r_access r <= t)%Z -> stale c r t = false -> (0 < c_expiry c)%Z.
Proof.
  unfold stale, since, clamp64, min64, max64. intros Ha H.
  destruct (t - r_access r <? -9223372036854775808)%Z eqn:E1; [lia|].
  destruct (9223372036854775807 <? t - r_access r)%Z eqn:E2; lia.
Qed.

(* with SessionExpiry = 0 every record whose access time is not in the future is stale *)
Lemma stale_expiry0 c r t : c_expiry c = 0%Z -> (r_access r <= t)%Z -> stale c r t = true.
Proof.
  intros Hc Ha. destruct (stale c r t) eqn:E; [reflexivity|].
  pose proof (fresh_expiry_pos c r t Ha E). lia.
Qed.

(* no rotation due and non-negative grace: the backstop test does not fire *)
Lemma backstop_not_before_rotation c age :
  (0 <= c_grace c)%Z -> (c_idexpiry c <= max64)%Z -> (age <= max64)%Z ->
  (c_idexpiry c <=? age)%Z = false -> (sat_add (c_idexpiry c) (c_grace c) <=? age)%Z = false.
Proof.
  unfold sat_add, clamp64, min64, max64. intros Hg Hi Ha H.
  destruct (c_idexpiry c + c_grace c <? -9223372036854775808)%Z eqn:E1; [lia|].
  destruct (9223372036854775807 <? c_idexpiry c + c_grace c)%Z eqn:E2; lia.
Qed.

Lemma since_le_max a t : (since a t <= max64)%Z.
Proof.
  unfold since, clamp64, min64, max64.
  destruct (t - a <? -9223372036854775808)%Z eqn:E1; [lia|].
  destruct (9223372036854775807 <? t - a)%Z eqn:E2; lia.
Qed.

(* non-vacuity: a record one nanosecond inside the limit is neither stale nor
   expired, even with every other duration at 0 or at "forever" *)
Example expired_pred_example :
  let r := mkRec 0 1 (AOther 0) 0 None None (Some []) in
  let q := mkReq CNone false (AOther 0) 0 in
  start_valid (mkCfg 100 0 0 0 0 1 true false) r q 100 = true /\
  expired (mkCfg 100 0 0 0 0 1 true false) r 100 = false /\
  expired (mkCfg 100 max64 max64 0 0 1 true false) r 100 = false /\
  start_valid (mkCfg 100 0 0 0 0 1 true false) r q 101 = false /\
  expired (mkCfg 100 0 0 0 0 1 true false) r 101 = true.
Proof. vm_compute. repeat split; reflexivity. Qed.

(* =============================================== fault-free persistence *)

Lemma next_fault_nil s : plan s = [] -> next_fault s = (false, s).
Proof. intro H. unfold next_fault. rewrite H. reflexivity. Qed.

Lemma p_save_ok s k r :
  plan s = [] ->
  p_save s k r =
  (log (set_store s (upsert (store s) k (codec (conf s) r))) (EvSave k (codec (conf s) r) true), true).
Proof. intro H. unfold p_save. rewrite next_fault_nil by exact H. reflexivity. Qed.

Definition graves_after (s : st) (k : key) : list (key * option N) :=
  match lookup (store s) k with
  | Some r => upsert (graves s) k (match r_user r with Some (u, _) => Some u | None => None end)
  | None => graves s
  end.

Lemma p_delete_ok s k :
  plan s = [] ->
  p_delete s k =
  (log (set_graves (set_store s (remove (store s) k)) (graves_after s k)) (EvDelete k true), true).
Proof. intro H. unfold p_delete. rewrite next_fault_nil by exact H. reflexivity. Qed.

(* the events of a successful load, newest first *)
Definition load_evs (s : st) (k : key) : list ev :=
  match lookup (store s) k with
  | Some r => match r_user r with
              | Some (u, _) => [EvLoadUser u true; EvLoad k true]
              | None => [EvLoad k true]
              end
  | None => [EvLoad k true]
  end.

Lemma p_load_ok s k :
  plan s = [] ->
  p_load s k = (set_evs s (load_evs s k ++ evs s), Some (lookup (store s) k)).
Proof.
  intro H. unfold p_load, load_evs. rewrite next_fault_nil by exact H.
  cbn [log store set_evs]. destruct (lookup (store s) k) as [r|] eqn:E; [|reflexivity].
  destruct (r_user r) as [[u v]|]; [|reflexivity].
  rewrite next_fault_nil by exact H. reflexivity.
Qed.

(* ================================================================= codec *)

Lemma codec_idem c r : codec c (codec c r) = codec c r.
Proof.
  unfold codec. cbn [r_created r_access r_ip r_ua r_ref r_user r_data].
  assert (Hfl : forall t, (if c_json c then ((if c_json c then t - t mod second else t)
                                            - (if c_json c then t - t mod second else t) mod second)
                           else (if c_json c then t - t mod second else t))%Z
                          = (if c_json c then t - t mod second else t)%Z).
  { intro t. destruct (c_json c); [|reflexivity]. unfold second.
    pose proof (Z.mod_pos_bound t 1000000000 ltac:(lia)).
    assert (((t - t mod 1000000000) mod 1000000000 = 0)%Z).
    { rewrite Zminus_mod, Zmod_mod, Z.sub_diag. reflexivity. }
    lia. }
  rewrite !Hfl. f_equal.
  - destruct (r_user r) as [[u v]|]; reflexivity.
  - destruct (r_data r); reflexivity.
Qed.

(* ------------------------------------------------- content modulo codec *)

Definition Lc (s : st) (k : key) : option rec := option_map (codec (conf s)) (L s k).

Lemma Lc_None s k : Lc s k = None <-> L s k = None.
Proof. unfold Lc. destruct (L s k); simpl; split; congruence. Qed.

Lemma L_None_lookups s k :
  cache_ok s -> L s k = None -> lookup (cache s) k = None /\ lookup (store s) k = None.
Proof.
  intros Hc H. unfold L in H. destruct (lookup (cache s) k) as [o|] eqn:E.
  - destruct (Hc k o E) as (ob & Ho & _). rewrite Ho in H. discriminate.
  - split; [reflexivity | exact H].
Qed.

Lemma lookups_None_L s k : lookup (cache s) k = None -> lookup (store s) k = None -> L s k = None.
Proof. intros H1 H2. unfold L. rewrite H1. exact H2. Qed.

(* ---------------------------------------------------- lists with unique keys *)

Lemma In_lookup_nodup {A} (l : list (key * A)) k v :
  NoDup (map fst l) -> In (k, v) l -> lookup l k = Some v.
Proof.
  induction l as [|[k' v'] l IH]; simpl; [contradiction|].
  intros Hnd [H|H].
  - injection H as -> ->. rewrite key_eqb_refl. reflexivity.
  - inversion Hnd as [|? ? Hni Hnd']; subst.
    destruct (key_eqb k k') eqn:E.
    + apply key_eqb_eq in E. subst. exfalso. apply Hni. apply (in_map fst) in H. exact H.
    + apply IH; assumption.
Qed.

Lemma nodup_remove {A} (l : list (key * A)) k : NoDup (map fst l) -> NoDup (map fst (remove l k)).
Proof. intro H. rewrite keys_remove. apply NoDup_filter. exact H. Qed.

Lemma nodup_upsert {A} (l : list (key * A)) k v : NoDup (map fst l) -> NoDup (map fst (upsert l k v)).
Proof.
  intro H. destruct (lookup l k) eqn:E.
  - rewrite keys_upsert_in by congruence. exact H.
  - rewrite keys_upsert_notin by exact E.
    apply lookup_None_notin in E. clear - H E.
    induction (map fst l) as [|x t IH]; simpl.
    + constructor; [intros []|constructor].
    + inversion H; subst. constructor.
      * rewrite in_app_iff. intros [H0|[H0|[]]]; [contradiction|]. subst. apply E. left. reflexivity.
      * apply IH; [assumption|]. intro H0. apply E. right. exact H0.
Qed.

Lemma lookup_remove_Some {A} (l : list (key * A)) k k' v :
  lookup (remove l k) k' = Some v -> lookup l k' = Some v /\ k' <> k.
Proof.
  intro H. destruct (key_eq_dec k' k) as [->|Hne].
  - rewrite lookup_remove_same in H. discriminate.
  - rewrite lookup_remove_other in H by exact Hne. split; assumption.
Qed.

Lemma In_remove {A} (l : list (key * A)) k e : In e (remove l k) -> In e l.
Proof.
  induction l as [|[k' v'] l IH]; simpl; [tauto|].
  destruct (key_eqb k k'); simpl; intuition.
Qed.

Lemma In_order_by_tb tbl es e : In e (order_by_tb tbl es) -> In e es.
Proof.
  unfold order_by_tb. rewrite in_app_iff. intros [H|H].
  - apply in_flat_map in H as (k & _ & H). destruct (lookup es k) as [o|] eqn:E; [|contradiction].
    destruct H as [<-|[]]. apply lookup_In. exact E.
  - apply filter_In in H. tauto.
Qed.

(* =================================================== compaction as flushes *)

(* One flush: the object o is saved under k (where the logical content of k is
   already that object's record, modulo codec) and k leaves the cache. *)
Definition flush1 (s : st) (tb' : list key) (k : key) (ob : obj) : st :=
  let s1 := fst (p_save (set_tb s tb') k (o_rec ob)) in
  set_cache s1 (remove (cache s1) k).

Inductive flush : st -> st -> Prop :=
  | flush_refl s : flush s s
  | flush_step s tb' k o ob s' :
      hget s o = Some ob ->
      Lc s k = Some (codec (conf s) (o_rec ob)) ->
      flush (flush1 s tb' k ob) s' ->
      flush s s'.

Lemma flush1_eq s tb' k ob :
  plan s = [] ->
  flush1 s tb' k ob =
  mkSt (heap s) (remove (cache s) k) (upsert (store s) k (codec (conf s) (o_rec ob))) (graves s)
       (pending s) (now s) (supply s) (conf s) [] (EvSave k (codec (conf s) (o_rec ob)) true :: evs s) tb'.
Proof.
  intro H. unfold flush1. rewrite p_save_ok by exact H.
  unfold set_cache, log, set_evs, set_store, set_tb. cbn. rewrite H. reflexivity.
Qed.

Lemma flush1_L s tb' k ob k' :
  plan s = [] -> Lc s k = Some (codec (conf s) (o_rec ob)) ->
  Lc (flush1 s tb' k ob) k' = Lc s k'.
Proof.
  intros Hp HL. rewrite flush1_eq by exact Hp. unfold Lc, L, hget in *. cbn [cache store heap conf].
  destruct (key_eq_dec k' k) as [->|Hne].
  - rewrite lookup_remove_same, lookup_upsert_same. cbn [option_map]. rewrite codec_idem. symmetry. exact HL.
  - rewrite lookup_remove_other, lookup_upsert_other by exact Hne. reflexivity.
Qed.

(* Everything a flush sequence leaves alone, and what it does to cache, store
   and event log. *)
Definition saves_of_present (s : st) (e : ev) : Prop :=
  exists k r, e = EvSave k r true /\ Lc s k <> None.

Record flush_frame (s s' : st) : Prop := mkFF {
  ff_heap : heap s' = heap s;
  ff_graves : graves s' = graves s;
  ff_pending : pending s' = pending s;
  ff_now : now s' = now s;
  ff_supply : supply s' = supply s;
  ff_conf : conf s' = conf s;
  ff_plan : plan s' = [];
  ff_Lc : forall k, Lc s' k = Lc s k;
  ff_cache : forall k o, lookup (cache s') k = Some o -> lookup (cache s) k = Some o;
  ff_cache_in : forall e, In e (cache s') -> In e (cache s);
  ff_nodup : NoDup (map fst (cache s)) -> NoDup (map fst (cache s'));
  ff_len : length (cache s') <= length (cache s);
  ff_absent : forall k, lookup (cache s) k = None -> lookup (store s) k = None ->
                        lookup (cache s') k = None /\ lookup (store s') k = None;
  ff_norm : store_norm s -> store_norm s';
  ff_evs : exists new, evs s' = new ++ evs s /\ Forall (saves_of_present s) new }.

Lemma flush_frame_refl s : plan s = [] -> flush_frame s s.
Proof.
  intro Hp. constructor; auto. exists []. split; [reflexivity | constructor].
Qed.

Lemma flush_props s s' : flush s s' -> plan s = [] -> flush_frame s s'.
Proof.
  induction 1 as [s|s tb' k o ob s' Ho HL Hfl IH]; intro Hp; [apply flush_frame_refl; exact Hp|].
  assert (Hp1 : plan (flush1 s tb' k ob) = []) by (rewrite flush1_eq by exact Hp; reflexivity).
  specialize (IH Hp1). destruct IH as [h1 h2 h3 h4 h5 h6 h7 h8 h9 h9' h10 h10' h11 h12 h13].
  pose proof (flush1_L s tb' k ob) as HL1.
  rewrite flush1_eq in * by exact Hp. cbn [heap cache store graves pending now supply conf plan evs] in *.
  constructor; auto.
  - intros k'. rewrite h8. apply HL1; assumption.
  - intros k' o' H'. apply h9 in H'. apply lookup_remove_Some in H'. tauto.
  - intros e H'. apply h9' in H'. eapply In_remove. exact H'.
  - intro Hnd. apply h10. apply nodup_remove. exact Hnd.
  - pose proof (length_remove_le (cache s) k). lia.
  - intros k' Hc Hs. assert (Hne : k' <> k).
    { intros ->. unfold Lc, L in HL. rewrite Hc, Hs in HL. discriminate. }
    apply h11.
    + rewrite lookup_remove_other by exact Hne. exact Hc.
    + rewrite lookup_upsert_other by exact Hne. exact Hs.
  - intro Hn. apply h12. intros k' r'. unfold store_norm in *. cbn [store conf].
    destruct (key_eq_dec k' k) as [->|Hne].
    + rewrite lookup_upsert_same. intro H'. injection H' as <-. apply codec_idem.
    + rewrite lookup_upsert_other by exact Hne. apply Hn.
  - destruct h13 as (new & Hnew & Hall). exists (new ++ [EvSave k (codec (conf s) (o_rec ob)) true]). split.
    + rewrite Hnew. rewrite <- app_assoc. reflexivity.
    + apply Forall_app. split.
      * eapply Forall_impl; [|exact Hall]. intros e (k1 & r1 & -> & Hk1). exists k1, r1. split; [reflexivity|].
        rewrite <- (HL1 k1 Hp HL). exact Hk1.
      * constructor; [|constructor]. exists k, (codec (conf s) (o_rec ob)). split; [reflexivity|].
        rewrite HL. discriminate.
Qed.

Lemma flush_trans s1 s2 s3 : flush s1 s2 -> flush s2 s3 -> flush s1 s3.
Proof.
  induction 1; [auto|]. intro H3. eapply flush_step; eauto.
Qed.

(* Every cache entry's object is the logical content of its key. *)
Definition cgood (s : st) : Prop :=
  forall k o ob, In (k, o) (cache s) -> hget s o = Some ob -> Lc s k = Some (codec (conf s) (o_rec ob)).

Lemma nodup_cgood s : NoDup (map fst (cache s)) -> cgood s.
Proof.
  intros Hnd k o ob Hin Ho. apply In_lookup_nodup in Hin; [|exact Hnd].
  unfold Lc, L. rewrite Hin, Ho. reflexivity.
Qed.

Definition entries_good (s : st) (es : list (key * nat)) : Prop :=
  forall k o ob, In (k, o) es -> hget s o = Some ob -> Lc s k = Some (codec (conf s) (o_rec ob)).

Lemma entries_good_flush1 s tb' k ob es :
  plan s = [] -> Lc s k = Some (codec (conf s) (o_rec ob)) ->
  entries_good s es -> entries_good (flush1 s tb' k ob) es.
Proof.
  intros Hp HL Hg k' o' ob' Hin Ho'. rewrite flush1_L by assumption.
  rewrite flush1_eq in * by exact Hp. unfold hget in *. cbn [heap conf] in *. eapply Hg; eassumption.
Qed.

Lemma sweep_flush es : forall s,
  plan s = [] -> entries_good s es ->
  flush s (fst (sweep s es)) /\ snd (sweep s es) = true.
Proof.
  induction es as [|[k o] es IH]; intros s Hp Hg; cbn [sweep].
  - split; [apply flush_refl | reflexivity].
  - destruct (hget s o) as [ob|] eqn:Ho.
    + assert (HL : Lc s k = Some (codec (conf s) (o_rec ob))) by (eapply Hg; [left; reflexivity | exact Ho]).
      pose proof (flush1_eq s (drop_first (tb s) k) k ob Hp) as Heq. unfold flush1 in Heq.
      destruct (p_save (set_tb s (drop_first (tb s) k)) k (o_rec ob)) as [s1 ok] eqn:Hsv.
      assert (Hok : ok = true).
      { rewrite p_save_ok in Hsv by exact Hp. injection Hsv as _ <-. reflexivity. }
      subst ok. cbn [fst] in Heq.
      assert (Hp1 : plan (set_cache s1 (remove (cache s1) k)) = []) by (rewrite Heq; reflexivity).
      assert (Hg1 : entries_good (set_cache s1 (remove (cache s1) k)) es).
      { pose proof (entries_good_flush1 s (drop_first (tb s) k) k ob es Hp HL) as H1.
        unfold flush1 in H1. rewrite Hsv in H1. apply H1. intros k' o' ob' Hin. apply Hg. right. exact Hin. }
      destruct (IH _ Hp1 Hg1) as [Hf Hs]. split; [|exact Hs].
      eapply flush_step; [exact Ho | exact HL |]. unfold flush1. rewrite Hsv. exact Hf.
    + apply IH; [exact Hp|]. intros k' o' ob' Hin. apply Hg. right. exact Hin.
Qed.

Lemma pick_victim_in s e : pick_victim s = Some e -> In e (cache s).
Proof.
  unfold pick_victim. destruct (min_access s (cache s)) as [m|]; [|discriminate].
  destruct (order_by_tb (tb s) (filter (fun e0 => (obj_access s (snd e0) =? m)%Z) (cache s))) as [|e0 l] eqn:E;
    [discriminate|].
  intro H. injection H as <-.
  assert (Hin : In e0 (order_by_tb (tb s) (filter (fun e1 => (obj_access s (snd e1) =? m)%Z) (cache s))))
    by (rewrite E; left; reflexivity).
  apply In_order_by_tb in Hin. apply filter_In in Hin. tauto.
Qed.

Lemma cgood_flush1 s tb' k ob :
  plan s = [] -> Lc s k = Some (codec (conf s) (o_rec ob)) -> cgood s -> cgood (flush1 s tb' k ob).
Proof.
  intros Hp HL Hg k' o' ob' Hin Ho'. rewrite flush1_L by assumption.
  rewrite flush1_eq in * by exact Hp. unfold hget in *. cbn [heap conf cache] in *.
  eapply Hg; [eapply In_remove; exact Hin | exact Ho'].
Qed.

Lemma evict_flush fuel : forall s req,
  plan s = [] -> cgood s -> flush s (fst (evict fuel s req)).
Proof.
  induction fuel as [|f IH]; intros s req Hp Hg; cbn [evict]; [apply flush_refl|].
  destruct (c_maxcache (conf s) <? Z.of_nat (length (cache s)) + req)%Z; [|apply flush_refl].
  destruct (pick_victim s) as [[k o]|] eqn:Hv; [|apply flush_refl].
  destruct (hget s o) as [ob|] eqn:Ho; [|apply flush_refl].
  assert (HL : Lc s k = Some (codec (conf s) (o_rec ob))).
  { eapply Hg; [apply pick_victim_in; exact Hv | exact Ho]. }
  pose proof (flush1_eq s (drop_first (tb s) k) k ob Hp) as Heq.
  pose proof (cgood_flush1 s (drop_first (tb s) k) k ob Hp HL Hg) as Hg1. unfold flush1 in Heq, Hg1.
  destruct (p_save (set_tb s (drop_first (tb s) k)) k (o_rec ob)) as [s1 ok] eqn:Hsv.
  assert (Hok : ok = true).
  { rewrite p_save_ok in Hsv by exact Hp. injection Hsv as _ <-. reflexivity. }
  subst ok. cbn [fst] in Heq, Hg1.
  eapply flush_step; [exact Ho | exact HL |]. unfold flush1. rewrite Hsv. cbn [fst].
  apply IH; [rewrite Heq; reflexivity | exact Hg1].
Qed.

Lemma cgood_flush s s' : flush s s' -> plan s = [] -> cgood s -> cgood s'.
Proof.
  induction 1 as [s|s tb' k o ob s' Ho HL Hfl IH]; intros Hp Hg; [exact Hg|].
  apply IH; [rewrite flush1_eq by exact Hp; reflexivity | apply cgood_flush1; assumption].
Qed.

Lemma compact_flush s req : plan s = [] -> cgood s -> flush s (compact s req).
Proof.
  intros Hp Hg. unfold compact.
  assert (Heg : entries_good s (order_by_tb (tb s) (filter (is_idle s) (cache s)))).
  { intros k o ob Hin. apply Hg. apply In_order_by_tb in Hin. apply filter_In in Hin. tauto. }
  destruct (sweep_flush _ s Hp Heg) as [Hf Hok].
  destruct (sweep s (order_by_tb (tb s) (filter (is_idle s) (cache s)))) as [s1 ok]. cbn [fst snd] in *.
  subst ok. cbn [negb].
  destruct ((c_maxcache (conf s1) <? 0)%Z || (Z.of_nat (length (cache s1)) + req <=? c_maxcache (conf s1))%Z);
    [exact Hf|].
  eapply flush_trans; [exact Hf|]. apply evict_flush.
  - apply (flush_props _ _ Hf Hp).
  - eapply cgood_flush; eassumption.
Qed.

Lemma compact_frame s req : plan s = [] -> NoDup (map fst (cache s)) -> flush_frame s (compact s req).
Proof.
  intros Hp Hnd. apply flush_props; [|exact Hp]. apply compact_flush; [exact Hp | apply nodup_cgood; exact Hnd].
Qed.

(* --------------------------------------------------------- heap helpers *)

Lemma replace_nth_same {A} (l : list A) n v : nth_error l n = Some v -> replace_nth l n v = l.
Proof.
  revert n; induction l as [|x l IH]; intros [|n] H; simpl in *; try discriminate.
  - injection H as ->. reflexivity.
  - rewrite IH by exact H. reflexivity.
Qed.

Lemma hupd_id s o ob f : hget s o = Some ob -> f (o_rec ob) = o_rec ob -> hupd s o f = s.
Proof.
  intros Ho Hf. unfold hupd. rewrite Ho, Hf. unfold hput. rewrite replace_nth_same.
  - destruct s; reflexivity.
  - destruct ob; exact Ho.
Qed.

Lemma hget_hupd_same s o ob f :
  hget s o = Some ob -> hget (hupd s o f) o = Some (mkObj (o_id ob) (f (o_rec ob))).
Proof.
  intro Ho. unfold hupd. rewrite Ho. apply hget_hput_same. eapply hget_Some_lt. exact Ho.
Qed.

Lemma hget_hupd_other s o o' f : o <> o' -> hget (hupd s o f) o' = hget s o'.
Proof.
  intro Hne. unfold hupd. destruct (hget s o); [apply hget_hput_other; exact Hne | reflexivity].
Qed.

Lemma heap_len_hupd s o f : length (heap (hupd s o f)) = length (heap s).
Proof.
  unfold hupd. destruct (hget s o); [|reflexivity]. unfold hput. cbn [heap set_heap].
  apply replace_nth_length.
Qed.
