(* The remote-address pattern of Start (session.go), the guards around its use
   and every statement that touches it, as Model/AddrRe.v (submatch, ip_ok_str)
   was written against them: the copy that Gen/AddrRe.v, regenerated from the
   source on every run by translator/addr_re.go, is compared with
   (Properties/C06A.v: addr_pattern_pinned). When the source is deliberately
   changed (a fix: commit), the model is revised and this copy is refreshed
   from Gen. *)
From Coq Require Import List String.
Import ListNotations.
Local Open Scope string_scope.

(* the string literal passed to the package's one regexp.MustCompile call (func Start) *)
Definition addr_pattern_v1 : string := "^(\d+).(\d+).(\d+).(\d+):\d+$".

(* the if around the pattern's use, the if inside it, the loop that is its body:
   translated into Gallina (Gen/PureFnIP.v) and proved there (Properties/C06P.v), hence
   named, not quoted *)
Definition addr_guards_v1 : list string := [
  "<translated: gen_ip_ok (Gen/PureFnIP.v)>";
  "<translated: gen_ip_ok (Gen/PureFnIP.v)>";
  "<translated: gen_ip_loop (Gen/PureFnIP.v)>"].

(* every statement mentioning the compiled pattern or package regexp; where the matched variables come from *)
Definition addr_uses_v1 : list string := [
  "Start: ip := session.lastIP";
  "Start: ipFormat := regexp.MustCompile(`^(\d+).(\d+).(\d+).(\d+):\d+$`)";
  "Start: previousIP := ipFormat.FindStringSubmatch(ip)";
  "Start: currentIP := ipFormat.FindStringSubmatch(request.RemoteAddr)"].
