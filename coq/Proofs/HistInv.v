(* Task PF, part 1: fault-free closed forms of the persistence layer, the shape of
   compact (a sequence of single flushes of cached entries), and the state
   invariant with its preservation by the primitive state changes and the cache
   operations. Continued in HistInv2.v (session API) and HistInv3.v (histories). *)
From Sessions Require Import Model.Base Model.Sess Model.Hist Proofs.SessDefs.
From Coq Require Import Lia.

Ltac sst :=
  cbn [heap cache store graves pending now supply conf plan evs tb
       set_heap set_cache set_store set_graves set_pending set_now set_supply
       set_conf set_plan set_evs set_tb log hput halloc fst snd] in *.

(* ------------------------------------------------------- list helpers *)

Lemma NoDup_app_intro {A} (a b : list A) :
  NoDup a -> NoDup b -> (forall x, In x a -> ~ In x b) -> NoDup (a ++ b).
Proof.
  induction a as [|x a IH]; simpl; intros Ha Hb Hd; [exact Hb|].
  inversion Ha as [|? ? Hx Ha']; subst. constructor.
  - rewrite in_app_iff. intros [H|H]; [contradiction | exact (Hd x (or_introl eq_refl) H)].
  - apply IH; auto.
Qed.

Section AssocMore.
  Context {A : Type}.
  Implicit Types (l : list (key * A)) (k : key) (v : A).

  Lemma In_lookup l k v : NoDup (map fst l) -> In (k, v) l -> lookup l k = Some v.
  Proof.
    induction l as [|[k' v'] l IH]; simpl; intros Hnd Hin; [contradiction|].
    inversion Hnd as [|? ? Hx Hnd']; subst.
    destruct Hin as [Heq|Hin].
    - injection Heq as -> ->. rewrite key_eqb_refl. reflexivity.
    - destruct (key_eqb k k') eqn:E.
      + apply key_eqb_eq in E. subst k'. exfalso. apply Hx.
        change k with (fst (k, v)). apply in_map. exact Hin.
      + apply IH; assumption.
  Qed.

  Lemma In_remove l k k' v : In (k', v) (remove l k) -> In (k', v) l /\ k' <> k.
  Proof.
    induction l as [|[k2 v2] l IH]; simpl; [contradiction|].
    destruct (key_eqb k k2) eqn:E.
    - intro H. destruct (IH H). split; [right; assumption | assumption].
    - intros [H|H].
      + injection H as -> ->. split; [left; reflexivity|]. apply key_eqb_neq in E. congruence.
      + destruct (IH H). split; [right; assumption | assumption].
  Qed.

  Lemma In_upsert l k v k' v' : In (k', v') (upsert l k v) -> (k' = k /\ v' = v) \/ In (k', v') l.
  Proof.
    induction l as [|[k2 v2] l IH]; simpl.
    - intros [H|[]]. injection H as -> ->. left. split; reflexivity.
    - destruct (key_eqb k k2) eqn:E.
      + intros [H|H]; [injection H as -> ->; left; split; reflexivity | right; right; exact H].
      + intros [H|H]; [right; left; exact H|]. destruct (IH H) as [H1|H1]; [left; exact H1 | right; right; exact H1].
  Qed.

  Lemma NoDup_remove_keys l k : NoDup (map fst l) -> NoDup (map fst (remove l k)).
  Proof. intro H. rewrite keys_remove. apply NoDup_filter. exact H. Qed.

  Lemma NoDup_upsert_keys l k v : NoDup (map fst l) -> NoDup (map fst (upsert l k v)).
  Proof.
    intro H. destruct (lookup l k) eqn:E.
    - rewrite keys_upsert_in by congruence. exact H.
    - rewrite keys_upsert_notin by exact E. apply NoDup_app_intro; [exact H | repeat constructor; intros [] |].
      intros x Hx [Hk|[]]. subst x. apply lookup_None_notin in E. contradiction.
  Qed.

  Lemma NoDup_filter_keys (g : key * A -> bool) l : NoDup (map fst l) -> NoDup (map fst (filter g l)).
  Proof.
    induction l as [|e l IH]; simpl; intro H; [constructor|].
    inversion H as [|? ? Hx H']; subst. destruct (g e); simpl; [|auto].
    constructor; [|auto]. intro Hin. apply Hx. apply in_map_iff in Hin. destruct Hin as [e' [He Hin]].
    apply filter_In in Hin. apply in_map_iff. exists e'. tauto.
  Qed.

  Lemma lookup_filter_In (g : key * A -> bool) l k v : lookup (filter g l) k = Some v -> In (k, v) l.
  Proof. intro H. apply lookup_In in H. apply filter_In in H. tauto. Qed.

  Lemma lookup_Some_in_keys l k v : lookup l k = Some v -> In k (map fst l).
  Proof. intro H. apply lookup_In in H. change k with (fst (k, v)). apply in_map. exact H. Qed.
End AssocMore.

(* ----------------------------------------------------- tie-break order *)

Lemma nodup_keys_In l k : In k (nodup_keys l) <-> In k l.
Proof.
  induction l as [|x l IH]; simpl; [tauto|]. rewrite filter_In, IH. split.
  - intros [H|[H _]]; auto.
  - intros [H|H]; [left; exact H|]. destruct (key_eqb x k) eqn:E.
    + left. apply key_eqb_eq. exact E.
    + right. split; [exact H | reflexivity].
Qed.

Lemma nodup_keys_NoDup l : NoDup (nodup_keys l).
Proof.
  induction l as [|x l IH]; simpl; constructor.
  - rewrite filter_In. intros [_ H]. rewrite key_eqb_refl in H. discriminate.
  - apply NoDup_filter. exact IH.
Qed.

Section Order.
  Context (tbl : list key) (l : list (key * nat)).
  Let F := fun k : key => match lookup l k with Some o => [(k, o)] | None => [] end.

  Lemma flat_F_In ks k o : In (k, o) (flat_map F ks) -> In k ks /\ lookup l k = Some o.
  Proof.
    rewrite in_flat_map. intros [k0 [Hk Hin]]. unfold F in Hin.
    destruct (lookup l k0) eqn:E; simpl in Hin; [|contradiction].
    destruct Hin as [H|[]]. injection H as -> ->. split; assumption.
  Qed.

  Lemma flat_F_NoDup ks : NoDup ks -> NoDup (map fst (flat_map F ks)).
  Proof.
    induction ks as [|k ks IH]; simpl; intro H; [constructor|].
    inversion H as [|? ? Hx H']; subst. rewrite map_app. apply NoDup_app_intro.
    - unfold F. destruct (lookup l k); simpl; repeat constructor. intros [].
    - auto.
    - intros x Hx1 Hx2. unfold F in Hx1. destruct (lookup l k); simpl in Hx1; [|contradiction].
      destruct Hx1 as [->|[]]. apply in_map_iff in Hx2. destruct Hx2 as [[k' o'] [Hf Hin]]. simpl in Hf. subst k'.
      apply flat_F_In in Hin. tauto.
  Qed.

  Lemma order_by_tb_lookup k o :
    NoDup (map fst l) -> In (k, o) (order_by_tb tbl l) -> lookup l k = Some o.
  Proof.
    intros Hnd Hin. unfold order_by_tb in Hin. apply in_app_iff in Hin. destruct Hin as [Hin|Hin].
    - apply flat_F_In in Hin. tauto.
    - apply filter_In in Hin. apply In_lookup; tauto.
  Qed.

  Lemma order_by_tb_NoDup : NoDup (map fst l) -> NoDup (map fst (order_by_tb tbl l)).
  Proof.
    intro Hnd. unfold order_by_tb. rewrite map_app. apply NoDup_app_intro.
    - apply flat_F_NoDup. apply nodup_keys_NoDup.
    - apply NoDup_filter_keys. exact Hnd.
    - intros x Hx1 Hx2. apply in_map_iff in Hx1. destruct Hx1 as [[k o] [Hf Hin]]. simpl in Hf. subst k.
      apply flat_F_In in Hin. destruct Hin as [Hin _]. apply (proj1 (nodup_keys_In _ _)) in Hin.
      apply in_map_iff in Hx2. destruct Hx2 as [[k o'] [Hf Hin2]]. simpl in Hf. subst k.
      apply filter_In in Hin2. destruct Hin2 as [_ Hg]. simpl in Hg.
      assert (Hex : existsb (key_eqb x) tbl = true).
      { apply existsb_exists. exists x. split; [exact Hin | apply key_eqb_refl]. }
      rewrite Hex in Hg. discriminate.
  Qed.

End Order.

Lemma order_by_tb_nonempty tbl (l : list (key * nat)) : l <> [] -> order_by_tb tbl l <> [].
Proof.
  destruct l as [|[k o] l']; [congruence|]. intros _ Hnil.
  unfold order_by_tb in Hnil. apply app_eq_nil in Hnil. destruct Hnil as [Ha Hb].
  destruct (existsb (key_eqb k) tbl) eqn:Ex.
  - apply existsb_exists in Ex. destruct Ex as [k' [Hk' Hek]]. apply key_eqb_eq in Hek. subst k'.
    apply (proj2 (nodup_keys_In _ _)) in Hk'.
    assert (Hin : In (k, o) (flat_map (fun k0 => match lookup ((k, o) :: l') k0 with Some o0 => [(k0, o0)] | None => [] end) (nodup_keys tbl))).
    { apply in_flat_map. exists k. split; [exact Hk'|]. simpl. rewrite key_eqb_refl. left. reflexivity. }
    rewrite Ha in Hin. contradiction.
  - assert (Hin : In (k, o) (filter (fun e : key * nat => negb (existsb (key_eqb (fst e)) tbl)) ((k, o) :: l'))).
    { apply filter_In. split; [left; reflexivity | simpl; rewrite Ex; reflexivity]. }
    rewrite Hb in Hin. contradiction.
Qed.


(* ----------------------------------------- fault-free persistence layer *)

Lemma next_fault_ff s : plan s = [] -> next_fault s = (false, s).
Proof. unfold next_fault. intros ->. reflexivity. Qed.

Definition saved (s : st) (k : key) (r : rec) : st :=
  log (set_store s (upsert (store s) k (codec (conf s) r))) (EvSave k (codec (conf s) r) true).

Lemma p_save_ff s k r : plan s = [] -> p_save s k r = (saved s k r, true).
Proof. intro H. unfold p_save. rewrite next_fault_ff by exact H. reflexivity. Qed.

Definition deleted (s : st) (k : key) : st :=
  log (set_graves (set_store s (remove (store s) k))
         (match lookup (store s) k with
          | Some r => upsert (graves s) k (match r_user r with Some (u, _) => Some u | None => None end)
          | None => graves s
          end)) (EvDelete k true).

Lemma p_delete_ff s k : plan s = [] -> p_delete s k = (deleted s k, true).
Proof. intro H. unfold p_delete. rewrite next_fault_ff by exact H. reflexivity. Qed.

(* events that neither write nor draw *)
Definition quiet (e : ev) : Prop :=
  match e with EvLoad _ _ | EvLoadUser _ _ | EvUserSessions _ _ => True | _ => False end.

Lemma p_load_ff s k : plan s = [] ->
  exists es, Forall quiet es /\ p_load s k = (set_evs s (es ++ evs s), Some (lookup (store s) k)).
Proof.
  intro H. unfold p_load. rewrite next_fault_ff by exact H. sst.
  destruct (lookup (store s) k) as [r|] eqn:E.
  - destruct (r_user r) as [[u v]|] eqn:Eu.
    + rewrite next_fault_ff by exact H. exists [EvLoadUser u true; EvLoad k true]. split; [repeat constructor | reflexivity].
    + exists [EvLoad k true]. split; [repeat constructor | reflexivity].
  - exists [EvLoad k true]. split; [repeat constructor | reflexivity].
Qed.

Definition listed (s : st) (u : N) : list key :=
  map fst (filter (fun kg : key * option N => match snd kg with Some v => N.eqb u v | None => false end) (graves s)) ++
  map fst (filter (fun kr => user_is u (r_user (snd kr))) (store s)).

Lemma p_usersessions_ff s u : plan s = [] ->
  p_usersessions s u = (set_evs s ([EvUserSessions u true] ++ evs s), Some (listed s u)).
Proof. intro H. unfold p_usersessions. rewrite next_fault_ff by exact H. reflexivity. Qed.

(* ------------------------------------------------- the shape of compact *)

(* One flush: the record of a cached object is saved under the ID it is cached
   under, and the entry leaves the cache. *)
Definition flush1 (s : st) (k : key) (ob : obj) : st :=
  let s1 := saved (set_tb s (drop_first (tb s) k)) k (o_rec ob) in
  set_cache s1 (remove (cache s1) k).

Inductive flushes : st -> st -> Prop :=
| fl_refl s : flushes s s
| fl_step s k o ob s' :
    lookup (cache s) k = Some o -> hget s o = Some ob -> flushes (flush1 s k ob) s' -> flushes s s'.

Lemma flushes_trans s1 s2 s3 : flushes s1 s2 -> flushes s2 s3 -> flushes s1 s3.
Proof. induction 1; intro H3; [exact H3|]. eapply fl_step; eauto. Qed.

Lemma flushes_pres (P : st -> Prop) :
  (forall s k o ob, P s -> lookup (cache s) k = Some o -> hget s o = Some ob -> P (flush1 s k ob)) ->
  forall s s', flushes s s' -> P s -> P s'.
Proof. intros HP s s' H. induction H; intro Hs; [exact Hs|]. apply IHflushes. eapply HP; eauto. Qed.

Definition ffnd (s : st) : Prop := plan s = [] /\ NoDup (map fst (cache s)).

Lemma flushes_ffnd s s' : flushes s s' -> ffnd s -> ffnd s'.
Proof.
  apply flushes_pres. clear. intros s k o ob [Hp Hn] _ _. split; [exact Hp|].
  unfold flush1, saved. sst. apply NoDup_remove_keys. exact Hn.
Qed.

Lemma sweep_flushes : forall entries s, plan s = [] -> NoDup (map fst entries) ->
  (forall k o, In (k, o) entries -> lookup (cache s) k = Some o) ->
  flushes s (fst (sweep s entries)) /\ snd (sweep s entries) = true.
Proof.
  induction entries as [|[k o] t IH]; intros s Hp Hnd Hl; cbn [sweep].
  - split; [constructor | reflexivity].
  - inversion Hnd as [|? ? Hx Hnd']; subst.
    destruct (hget s o) as [ob|] eqn:Eo.
    + rewrite p_save_ff by exact Hp.
      change (set_cache (saved (set_tb s (drop_first (tb s) k)) k (o_rec ob))
                (remove (cache (saved (set_tb s (drop_first (tb s) k)) k (o_rec ob))) k)) with (flush1 s k ob).
      destruct (IH (flush1 s k ob)) as [Hf Ht].
      * exact Hp.
      * exact Hnd'.
      * intros k' o' Hin. unfold flush1, saved. sst. rewrite lookup_remove_other.
        -- apply Hl. right. exact Hin.
        -- intro Heq. subst k'. apply Hx. change k with (fst (k, o')). apply in_map. exact Hin.
      * split; [|exact Ht]. eapply fl_step; [apply Hl; left; reflexivity | exact Eo | exact Hf].
    + apply IH; [exact Hp | exact Hnd' | intros; apply Hl; right; assumption].
Qed.

Lemma pick_victim_lookup s k o :
  NoDup (map fst (cache s)) -> pick_victim s = Some (k, o) -> lookup (cache s) k = Some o.
Proof.
  intros Hnd. unfold pick_victim. destruct (min_access s (cache s)) as [m|]; [|discriminate].
  destruct (order_by_tb _ _) as [|e rest] eqn:Eo; [discriminate|]. intro H. injection H as ->.
  assert (Hin : In (k, o) (order_by_tb (tb s) (filter (fun e => (obj_access s (snd e) =? m)%Z) (cache s)))).
  { rewrite Eo. left. reflexivity. }
  apply order_by_tb_lookup in Hin; [|apply NoDup_filter_keys; exact Hnd].
  apply lookup_filter_In in Hin. apply In_lookup; assumption.
Qed.

Lemma evict_flushes : forall f s req, ffnd s -> flushes s (fst (evict f s req)).
Proof.
  induction f as [|f IH]; intros s req [Hp Hnd]; cbn [evict]; [constructor|].
  destruct (_ <? _)%Z; [|constructor].
  destruct (pick_victim s) as [[k o]|] eqn:Ev; [|constructor].
  destruct (hget s o) as [ob|] eqn:Eo; [|constructor].
  rewrite p_save_ff by exact Hp.
  change (set_cache (saved (set_tb s (drop_first (tb s) k)) k (o_rec ob))
            (remove (cache (saved (set_tb s (drop_first (tb s) k)) k (o_rec ob))) k)) with (flush1 s k ob).
  apply pick_victim_lookup in Ev; [|exact Hnd].
  eapply fl_step; [exact Ev | exact Eo |]. apply IH.
  eapply flushes_ffnd; [|split; eassumption]. eapply fl_step; [exact Ev | exact Eo | constructor].
Qed.

Lemma compact_flushes s req : ffnd s -> flushes s (compact s req).
Proof.
  intros [Hp Hnd]. unfold compact.
  destruct (sweep_flushes (order_by_tb (tb s) (filter (is_idle s) (cache s))) s Hp) as [Hf Ht].
  - apply order_by_tb_NoDup. apply NoDup_filter_keys. exact Hnd.
  - intros k o Hin. apply order_by_tb_lookup in Hin; [|apply NoDup_filter_keys; exact Hnd].
    apply lookup_filter_In in Hin. apply In_lookup; assumption.
  - destruct (sweep s _) as [s1 ok]. cbn [fst snd] in *. subst ok. cbn [negb].
    destruct (_ || _); [exact Hf|].
    eapply flushes_trans; [exact Hf|]. apply evict_flushes. eapply flushes_ffnd; [exact Hf | split; assumption].
Qed.

(* Frame facts of a sequence of flushes. *)
Lemma flushes_frame s s' : flushes s s' ->
  heap s' = heap s /\ supply s' = supply s /\ pending s' = pending s /\ conf s' = conf s /\
  now s' = now s /\ plan s' = plan s /\ graves s' = graves s.
Proof.
  induction 1; [repeat split|]. unfold flush1, saved in *. sst. exact IHflushes.
Qed.

Lemma flushes_cache_sub s s' : flushes s s' ->
  forall k o, lookup (cache s') k = Some o -> lookup (cache s) k = Some o.
Proof.
  induction 1; intros k' o' Hl; [exact Hl|]. apply IHflushes in Hl. unfold flush1, saved in Hl. sst.
  destruct (key_eq_dec k' k) as [->|Hne]; [rewrite lookup_remove_same in Hl; discriminate|].
  rewrite lookup_remove_other in Hl by exact Hne. exact Hl.
Qed.

Lemma flushes_length s s' : flushes s s' -> length (cache s') <= length (cache s).
Proof.
  induction 1; [lia|]. unfold flush1, saved in *. sst.
  pose proof (length_remove_le (cache s) k). lia.
Qed.

(* ------------------------------------------------------- the invariant *)

(* Drawn relative to a number of draws (key_drawn s k is kd (supply s) k). *)
Definition kd (n : N) (k : key) : Prop :=
  match k with KGen m => (m < n)%N | KJunk _ => True end.
Definition refd (n : N) (r : rec) : Prop :=
  match r_ref r with Some t => kd n t | None => True end.

Lemma kd_mono n m k : (n <= m)%N -> kd n k -> kd m k.
Proof. destruct k; simpl; [lia | auto]. Qed.
Lemma refd_mono n m r : (n <= m)%N -> refd n r -> refd m r.
Proof. unfold refd. destruct (r_ref r); [apply kd_mono | auto]. Qed.

Fixpoint draws (l : list ev) : N :=
  match l with
  | [] => 0
  | EvDraw _ :: t => draws t + 1
  | _ :: t => draws t
  end%N.

(* An event is in order when n IDs have been drawn before it: saves are under
   drawn IDs outside the dead set D, a draw yields ordinal n. *)
Definition ev_okn (D : key -> Prop) (n : N) (e : ev) : Prop :=
  match e with
  | EvSave k r _ => kd n k /\ refd n r /\ ~ D k
  | EvDraw d => d = n
  | _ => True
  end.

Fixpoint wf_evs (D : key -> Prop) (base : N) (l : list ev) : Prop :=   (* newest first *)
  match l with
  | [] => True
  | e :: t => ev_okn D (base + draws t) e /\ wf_evs D base t
  end.

Definition NX : key -> nat -> Prop := fun _ _ => False.
Definition ND : key -> Prop := fun _ => False.

(* b: heap indices from b on are live (allocated since the last crash);
   base = (n, old): the event log is new ++ old (newest first) where old is the
      log at some earlier point when the supply was n; claims are about new;
   X: cache entries (key, object) excused from "the object's ID is the key"
      (inside RegenerateID only);
   D: a set of dead IDs: drawn, not stored, not cached, not the ID of a cached
      object, never saved under. *)
Record inv (b : nat) (base : N * list ev) (X : key -> nat -> Prop) (D : key -> Prop) (s : st) : Prop := mkInv {
  i_plan : plan s = [];
  i_b : b <= length (heap s);
  i_cok : forall k o, lookup (cache s) k = Some o -> exists ob, hget s o = Some ob /\ (o_id ob = k \/ X k o);
  i_ndc : NoDup (map fst (cache s));
  i_nds : NoDup (map fst (store s));
  i_fc : forall k o, In (k, o) (cache s) -> kd (supply s) k /\ b <= o;
  i_fs : forall k r, In (k, r) (store s) -> kd (supply s) k /\ refd (supply s) r;
  i_fh : forall o ob, b <= o -> hget s o = Some ob -> kd (supply s) (o_id ob) /\ refd (supply s) (o_rec ob);
  i_fp : forall d k, In (d, k) (pending s) -> kd (supply s) k;
  i_ev : exists new, evs s = new ++ snd base /\ wf_evs D (fst base) new /\ supply s = (fst base + draws new)%N;
  i_Dd : forall k, D k -> kd (supply s) k;
  i_Ds : forall k, D k -> lookup (store s) k = None;
  i_Dc : forall k k' o ob, D k -> lookup (cache s) k' = Some o -> hget s o = Some ob -> k' <> k /\ o_id ob <> k }.

Ltac dinv I :=
  destruct I as [Hp Hb Hc Hndc Hnds Hfc Hfs Hfh Hfp Hev HDd HDs HDc].

Lemma inv_ffnd b base X D s : inv b base X D s -> ffnd s.
Proof. intro I. split; [apply (i_plan _ _ _ _ _ I) | apply (i_ndc _ _ _ _ _ I)]. Qed.

Lemma inv_ev0 b n X D s : inv b (n, []) X D s -> wf_evs D n (evs s) /\ supply s = (n + draws (evs s))%N.
Proof.
  intro I. destruct (i_ev _ _ _ _ _ I) as (new & He & Hw & Hs). cbn [fst snd] in *.
  rewrite app_nil_r in He. subst new. split; assumption.
Qed.

(* the log clause can be restarted at any point, with any dead set that the
   other clauses support *)
Lemma inv_restart_log b base X D s :
  inv b base X D s -> inv b (supply s, evs s) X D s.
Proof.
  intro I. dinv I. constructor; try assumption. exists []. cbn [fst snd app draws wf_evs].
  split; [reflexivity|]. split; [exact Logic.I | lia].
Qed.

Lemma wf_evs_quiet D base es l : Forall quiet es -> wf_evs D base l ->
  wf_evs D base (es ++ l) /\ draws (es ++ l) = draws l.
Proof.
  induction 1 as [|e es He Hes IH]; intro Hl; simpl; [tauto|].
  destruct (IH Hl) as [Hw Hd]. destruct e; simpl in He; try contradiction; simpl; tauto.
Qed.

Lemma inv_quiet b base X D s es : Forall quiet es -> inv b base X D s -> inv b base X D (set_evs s (es ++ evs s)).
Proof.
  intros Hq I. dinv I. constructor; sst; try assumption.
  destruct Hev as (new & He & Hw & Hs). destruct (wf_evs_quiet D (fst base) es new Hq Hw) as [Hw' Hd'].
  exists (es ++ new). split; [rewrite He; apply app_assoc|]. split; [exact Hw' | rewrite Hd'; exact Hs].
Qed.

Lemma inv_set_tb b base X D s t : inv b base X D s -> inv b base X D (set_tb s t).
Proof. intro I. dinv I. constructor; sst; assumption. Qed.

Lemma inv_saved b base X D s k r :
  inv b base X D s -> kd (supply s) k -> refd (supply s) r -> ~ D k -> inv b base X D (saved s k r).
Proof.
  intros I Hk Hr HnD. dinv I. unfold saved. constructor; sst; try assumption.
  - apply NoDup_upsert_keys. exact Hnds.
  - intros k' r' Hin. apply In_upsert in Hin. destruct Hin as [[-> ->]|Hin]; [split; assumption | apply Hfs; exact Hin].
  - destruct Hev as (new & He & Hw & Hs). exists (EvSave k (codec (conf s) r) true :: new).
    split; [rewrite He; reflexivity|]. simpl. rewrite <- Hs. repeat split; assumption.
  - intros k' Hk'. rewrite lookup_upsert_other; [apply HDs; exact Hk' | intro; subst; contradiction].
Qed.

Lemma inv_cache_remove b base X D s k : inv b base X D s -> inv b base X D (set_cache s (remove (cache s) k)).
Proof.
  intro I. dinv I. constructor; sst; try assumption.
  - intros k' o Hl. destruct (key_eq_dec k' k) as [->|Hne]; [rewrite lookup_remove_same in Hl; discriminate|].
    rewrite lookup_remove_other in Hl by exact Hne. apply Hc. exact Hl.
  - apply NoDup_remove_keys. exact Hndc.
  - intros k' o Hin. apply In_remove in Hin. apply Hfc. tauto.
  - intros kD k' o ob HD Hl. destruct (key_eq_dec k' k) as [->|Hne]; [rewrite lookup_remove_same in Hl; discriminate|].
    rewrite lookup_remove_other in Hl by exact Hne. apply HDc; assumption.
Qed.

Lemma inv_cached_facts b base X D s k o ob :
  inv b base X D s -> lookup (cache s) k = Some o -> hget s o = Some ob ->
  kd (supply s) k /\ b <= o /\ kd (supply s) (o_id ob) /\ refd (supply s) (o_rec ob) /\ ~ D k /\ ~ D (o_id ob).
Proof.
  intros I Hl Ho. dinv I. destruct (Hfc k o (lookup_In _ _ _ Hl)) as [H1 H2].
  destruct (Hfh o ob H2 Ho) as [H3 H4]. repeat split; try assumption.
  - intro HD. destruct (HDc k k o ob HD Hl Ho) as [H _]. congruence.
  - intro HD. destruct (HDc _ k o ob HD Hl Ho) as [_ H]. congruence.
Qed.

Lemma inv_flush1 b base X D s k o ob :
  inv b base X D s -> lookup (cache s) k = Some o -> hget s o = Some ob -> inv b base X D (flush1 s k ob).
Proof.
  intros I Hl Ho. destruct (inv_cached_facts _ _ _ _ _ _ _ _ I Hl Ho) as (H1 & H2 & H3 & H4 & H5 & H6).
  unfold flush1. apply inv_cache_remove. apply inv_saved; [apply inv_set_tb; exact I | exact H1 | exact H4 | exact H5].
Qed.

Lemma inv_flushes b base X D s s' : flushes s s' -> inv b base X D s -> inv b base X D s'.
Proof. apply flushes_pres. intros. eapply inv_flush1; eauto. Qed.

Lemma inv_compact b base X D s req : inv b base X D s -> inv b base X D (compact s req).
Proof. intro I. eapply inv_flushes; [apply compact_flushes; eapply inv_ffnd; exact I | exact I]. Qed.

Lemma inv_deleted b base X D s k : inv b base X D s -> inv b base X D (deleted s k).
Proof.
  intro I. dinv I. unfold deleted. constructor; sst; try assumption.
  - apply NoDup_remove_keys. exact Hnds.
  - intros k' r Hin. apply In_remove in Hin. apply Hfs. tauto.
  - destruct Hev as (new & He & Hw & Hs). exists (EvDelete k true :: new).
    split; [rewrite He; reflexivity|]. simpl. split; [split; [exact I|exact Hw] | exact Hs].
  - intros k' Hk'. destruct (key_eq_dec k' k) as [->|Hne]; [apply lookup_remove_same|].
    rewrite lookup_remove_other by exact Hne. apply HDs. exact Hk'.
Qed.

Lemma hget_halloc s v o : hget (fst (halloc s v)) o =
  if Nat.eqb o (length (heap s)) then Some v else hget s o.
Proof.
  destruct (Nat.eqb o (length (heap s))) eqn:E.
  - apply Nat.eqb_eq in E. subst o. apply hget_halloc_new.
  - apply Nat.eqb_neq in E. destruct (Nat.lt_ge_cases o (length (heap s))) as [Hlt|Hge].
    + apply hget_halloc_old. exact Hlt.
    + unfold hget, halloc. sst. transitivity (@None obj).
      * apply nth_error_None. rewrite app_length. simpl. lia.
      * symmetry. apply nth_error_None. exact Hge.
Qed.

Lemma hget_hput s o v o' : hget (hput s o v) o' =
  if Nat.eqb o o' then (match hget s o with Some _ => Some v | None => None end) else hget s o'.
Proof.
  destruct (Nat.eqb o o') eqn:E.
  - apply Nat.eqb_eq in E. subst o'. destruct (hget s o) eqn:Eo.
    + apply hget_hput_same. eapply hget_Some_lt. exact Eo.
    + unfold hget, hput in *. sst. apply nth_error_None. rewrite replace_nth_length. apply nth_error_None. exact Eo.
  - apply Nat.eqb_neq in E. apply hget_hput_other. exact E.
Qed.

Lemma inv_halloc b base X D s v :
  inv b base X D s -> kd (supply s) (o_id v) -> refd (supply s) (o_rec v) -> inv b base X D (fst (halloc s v)).
Proof.
  intros I Hk Hr. dinv I.
  assert (Hold : forall o ob, hget s o = Some ob -> hget (fst (halloc s v)) o = Some ob).
  { intros o ob Ho. rewrite hget_halloc_old; [exact Ho | eapply hget_Some_lt; exact Ho]. }
  constructor; try (unfold halloc; sst; assumption).
  - unfold halloc; sst. rewrite app_length. lia.
  - intros k o Hl. destruct (Hc k o Hl) as [ob [Ho Hx]]. exists ob. split; [apply Hold; exact Ho | exact Hx].
  - intros o ob Hbo Ho. rewrite hget_halloc in Ho. destruct (Nat.eqb o (length (heap s))).
    + injection Ho as <-. split; assumption.
    + apply (Hfh o ob Hbo Ho).
  - intros kD k' o ob HD Hl Ho. destruct (Hc k' o Hl) as [ob' [Ho' _]].
    rewrite (Hold _ _ Ho') in Ho. injection Ho as <-. eapply HDc; eauto.
Qed.

(* replacing an object by one with the same ID *)
Lemma inv_hput b base X D s o ob v :
  inv b base X D s -> hget s o = Some ob -> o_id v = o_id ob -> (b <= o -> refd (supply s) (o_rec v)) ->
  inv b base X D (hput s o v).
Proof.
  intros I Ho Hid Hr. dinv I. constructor; try (unfold hput; sst; assumption).
  - unfold hput; sst. rewrite replace_nth_length. exact Hb.
  - intros k o' Hl. destruct (Hc k o' Hl) as [ob' [Ho' Hx]]. rewrite hget_hput.
    destruct (Nat.eqb o o') eqn:E.
    + apply Nat.eqb_eq in E. subst o'. rewrite Ho. exists v. split; [reflexivity|]. rewrite Hid. congruence.
    + exists ob'. split; assumption.
  - intros o' ob' Hbo Ho'. rewrite hget_hput in Ho'. destruct (Nat.eqb o o') eqn:E.
    + apply Nat.eqb_eq in E. subst o'. rewrite Ho in Ho'. injection Ho' as <-. rewrite Hid. split; [|exact (Hr Hbo)].
      apply (Hfh o ob Hbo Ho).
    + apply (Hfh o' ob' Hbo Ho').
  - intros kD k' o' ob' HD Hl Ho'. rewrite hget_hput in Ho'. destruct (Nat.eqb o o') eqn:E.
    + apply Nat.eqb_eq in E. subst o'. rewrite Ho in Ho'. injection Ho' as <-. rewrite Hid. eapply HDc; eauto.
    + eapply HDc; eauto.
Qed.

Lemma inv_hupd b base X D s o f :
  inv b base X D s -> (forall r, r_ref (f r) = r_ref r) -> inv b base X D (hupd s o f).
Proof.
  intros I Hf. unfold hupd. destruct (hget s o) as [ob|] eqn:Ho; [|exact I].
  eapply inv_hput; [exact I | exact Ho | reflexivity |].
  intro Hbo. cbn [o_rec]. unfold refd. rewrite Hf. apply (i_fh _ _ _ _ _ I o ob Hbo Ho).
Qed.

Lemma hget_hupd s o f o' : hget (hupd s o f) o' =
  if Nat.eqb o o' then (match hget s o with Some ob => Some (mkObj (o_id ob) (f (o_rec ob))) | None => None end)
  else hget s o'.
Proof.
  unfold hupd. destruct (hget s o) as [ob|] eqn:Ho.
  - rewrite hget_hput. rewrite Ho. reflexivity.
  - destruct (Nat.eqb o o') eqn:E; [apply Nat.eqb_eq in E; subst; exact Ho | reflexivity].
Qed.

Lemma inv_cache_upsert b base X D s k o ob :
  inv b base X D s -> hget s o = Some ob -> o_id ob = k -> b <= o -> kd (supply s) k -> ~ D k ->
  inv b base X D (set_cache s (upsert (cache s) k o)).
Proof.
  intros I Ho Hid Hbo Hk HnD. dinv I. constructor; sst; try assumption.
  - intros k' o' Hl. destruct (key_eq_dec k' k) as [->|Hne].
    + rewrite lookup_upsert_same in Hl. injection Hl as <-. exists ob. split; [exact Ho | left; exact Hid].
    + rewrite lookup_upsert_other in Hl by exact Hne. apply Hc. exact Hl.
  - apply NoDup_upsert_keys. exact Hndc.
  - intros k' o' Hin. apply In_upsert in Hin. destruct Hin as [[-> ->]|Hin]; [split; assumption | apply Hfc; exact Hin].
  - intros kD k' o' ob' HD Hl Ho'. destruct (key_eq_dec k' k) as [->|Hne].
    + rewrite lookup_upsert_same in Hl. injection Hl as <-. change (hget s o = Some ob') in Ho'.
      rewrite Ho in Ho'. injection Ho' as <-.
      rewrite Hid. split; intro; subst; contradiction.
    + rewrite lookup_upsert_other in Hl by exact Hne. eapply HDc; eauto.
Qed.

Definition drawn1 (s : st) : st := log (set_supply s (supply s + 1)%N) (EvDraw (supply s)).

Lemma inv_drawn1 b base X D s : inv b base X D s -> inv b base X D (drawn1 s).
Proof.
  intro I. dinv I. assert (Hle : (supply s <= supply s + 1)%N) by lia.
  unfold drawn1. constructor; sst; try assumption.
  - intros k o Hin. destruct (Hfc k o Hin). split; [eapply kd_mono; eassumption | assumption].
  - intros k r Hin. destruct (Hfs k r Hin). split; [eapply kd_mono | eapply refd_mono]; eassumption.
  - intros o ob Hbo Ho. destruct (Hfh o ob Hbo Ho). split; [eapply kd_mono | eapply refd_mono]; eassumption.
  - intros d k Hin. eapply kd_mono; [exact Hle | eapply Hfp; exact Hin].
  - destruct Hev as (new & He & Hw & Hs). exists (EvDraw (supply s) :: new).
    split; [rewrite He; reflexivity|]. simpl. split; [split; [exact Hs | exact Hw] | lia].
  - intros k Hk. eapply kd_mono; [exact Hle | apply HDd; exact Hk].
Qed.

Lemma inv_set_pending b base X D s l :
  inv b base X D s -> (forall d k, In (d, k) l -> kd (supply s) k) -> inv b base X D (set_pending s l).
Proof. intros I Hl. dinv I. constructor; sst; assumption. Qed.

(* RegenerateID gives the object a new ID while the cache may still hold it
   under the old one: that entry is excused. *)
Lemma inv_rekey b base X D s o ob v :
  inv b base X D s -> hget s o = Some ob -> kd (supply s) (o_id v) -> ~ D (o_id v) ->
  refd (supply s) (o_rec v) ->
  inv b base (fun k o' => X k o' \/ (k = o_id ob /\ o' = o)) D (hput s o v).
Proof.
  intros I Ho Hk HnD Hr. dinv I. constructor; try (unfold hput; sst; assumption).
  - unfold hput; sst. rewrite replace_nth_length. exact Hb.
  - intros k o' Hl. destruct (Hc k o' Hl) as [ob' [Ho' Hx]]. rewrite hget_hput.
    destruct (Nat.eqb o o') eqn:E.
    + apply Nat.eqb_eq in E. subst o'. rewrite Ho. exists v. split; [reflexivity|]. right.
      rewrite Ho in Ho'. injection Ho' as <-. destruct Hx as [Hx|Hx]; [right; split; congruence | left; exact Hx].
    + exists ob'. split; [exact Ho'|]. destruct Hx as [Hx|Hx]; [left; exact Hx | right; left; exact Hx].
  - intros o' ob' Hbo Ho'. rewrite hget_hput in Ho'. destruct (Nat.eqb o o') eqn:E.
    + apply Nat.eqb_eq in E. subst o'. rewrite Ho in Ho'. injection Ho' as <-. split; assumption.
    + apply (Hfh o' ob' Hbo Ho').
  - intros kD k' o' ob' HD Hl Ho'. rewrite hget_hput in Ho'. destruct (Nat.eqb o o') eqn:E.
    + apply Nat.eqb_eq in E. subst o'. rewrite Ho in Ho'. injection Ho' as <-.
      destruct (HDc kD k' o ob HD Hl Ho) as [H1 _]. split; [exact H1 | intro; subst; contradiction].
    + eapply HDc; eauto.
Qed.

Lemma inv_weaken_X b base X X' D s :
  inv b base X' D s ->
  (forall k o ob, lookup (cache s) k = Some o -> hget s o = Some ob -> X' k o -> o_id ob = k \/ X k o) ->
  inv b base X D s.
Proof.
  intros I HX. dinv I. constructor; try assumption.
  intros k o Hl. destruct (Hc k o Hl) as [ob [Ho Hx]]. exists ob. split; [exact Ho|].
  destruct Hx as [Hx|Hx]; [left; exact Hx | eapply HX; eauto].
Qed.

(* --------------------------------------------------- cache operations *)

Lemma compact_frame s req : ffnd s ->
  heap (compact s req) = heap s /\ supply (compact s req) = supply s /\ pending (compact s req) = pending s /\
  conf (compact s req) = conf s /\ now (compact s req) = now s /\ plan (compact s req) = plan s /\
  graves (compact s req) = graves s.
Proof. intro H. apply flushes_frame. apply compact_flushes. exact H. Qed.

Lemma hget_compact s req o : ffnd s -> hget (compact s req) o = hget s o.
Proof. intro H. unfold hget. destruct (compact_frame s req H) as [-> _]. reflexivity. Qed.

Lemma cache_delete_ff s k : plan s = [] ->
  cache_delete s k = (deleted (set_cache s (remove (cache s) k)) k, true).
Proof. intro H. unfold cache_delete. apply p_delete_ff. exact H. Qed.

Lemma inv_cache_delete b base X D s k : inv b base X D s -> inv b base X D (fst (cache_delete s k)).
Proof.
  intro I. rewrite cache_delete_ff by apply (i_plan _ _ _ _ _ I). cbn [fst].
  apply inv_deleted. apply inv_cache_remove. exact I.
Qed.

Lemma cache_delete_gone s k : plan s = [] ->
  lookup (cache (fst (cache_delete s k))) k = None /\ lookup (store (fst (cache_delete s k))) k = None /\
  snd (cache_delete s k) = true.
Proof.
  intro H. rewrite cache_delete_ff by exact H. unfold deleted. sst.
  repeat split; apply lookup_remove_same.
Qed.

(* what cache.Get does without faults *)
(* Sealed (opaque to conversion; use loaded_eq): the bodies contain compact, and
   failing conversion checks between such states are very expensive. *)
Definition loaded_body (s : st) (k : key) (r : rec) (es : list ev) : st :=
  let s1 := fst (halloc (set_evs s (es ++ evs s)) (mkObj k r)) in
  if (c_maxcache (conf s) =? 0)%Z then s1
  else set_cache (compact s1 1) (upsert (cache (compact s1 1)) k (length (heap s))).
Definition loaded_sig s k r es : {s' : st | s' = loaded_body s k r es}.
Proof. exists (loaded_body s k r es). reflexivity. Qed.
Definition loaded (s : st) (k : key) (r : rec) (es : list ev) : st := proj1_sig (loaded_sig s k r es).
Lemma loaded_eq s k r es : loaded s k r es =
  let s1 := fst (halloc (set_evs s (es ++ evs s)) (mkObj k r)) in
  if (c_maxcache (conf s) =? 0)%Z then s1
  else set_cache (compact s1 1) (upsert (cache (compact s1 1)) k (length (heap s))).
Proof. exact (proj2_sig (loaded_sig s k r es)). Qed.

Lemma cache_get_ff s k : plan s = [] ->
  match lookup (cache s) k with
  | Some o => cache_get s k = (s, Some (Some o))
  | None =>
    exists es, Forall quiet es /\
    match lookup (store s) k with
    | None => cache_get s k = (set_evs s (es ++ evs s), Some None)
    | Some r => cache_get s k = (loaded s k r es, Some (Some (length (heap s))))
    end
  end.
Proof.
  intro H. unfold cache_get. destruct (lookup (cache s) k) as [o|]; [reflexivity|].
  destruct (p_load_ff s k H) as [es [Hq E]]. exists es. split; [exact Hq|]. rewrite E.
  destruct (lookup (store s) k) as [r|]; [rewrite loaded_eq|]; reflexivity.
Qed.

Lemma inv_loaded b base X D s k r es :
  inv b base X D s -> Forall quiet es -> lookup (cache s) k = None -> lookup (store s) k = Some r ->
  inv b base X D (loaded s k r es) /\ hget (loaded s k r es) (length (heap s)) = Some (mkObj k r).
Proof.
  intros I Hq Hcn Hst.
  assert (Hkr : kd (supply s) k /\ refd (supply s) r) by (apply (i_fs _ _ _ _ _ I); apply lookup_In; exact Hst).
  assert (HnD : ~ D k) by (intro HD; rewrite (i_Ds _ _ _ _ _ I k HD) in Hst; discriminate).
  pose (s1 := fst (halloc (set_evs s (es ++ evs s)) (mkObj k r))).
  assert (I1 : inv b base X D s1).
  { apply inv_halloc; [apply inv_quiet; assumption | apply Hkr | apply Hkr]. }
  assert (H1 : hget s1 (length (heap s)) = Some (mkObj k r)).
  { unfold s1. rewrite hget_halloc. sst. rewrite Nat.eqb_refl. reflexivity. }
  rewrite loaded_eq. cbv zeta. fold s1. destruct (c_maxcache (conf s) =? 0)%Z; [split; assumption|].
  assert (F1 : ffnd s1) by (eapply inv_ffnd; exact I1).
  assert (H2 : hget (compact s1 1) (length (heap s)) = Some (mkObj k r)) by (rewrite hget_compact; assumption).
  split.
  - eapply inv_cache_upsert; [apply inv_compact; exact I1 | exact H2 | reflexivity | apply (i_b _ _ _ _ _ I) | | exact HnD].
    destruct (compact_frame s1 1 F1) as (_ & -> & _). apply Hkr.
  - exact H2.
Qed.

(* cache.Get: result, invariant, and what the returned object is. *)
Lemma cache_get_inv b base X D s k : inv b base X D s ->
  exists s' r, cache_get s k = (s', Some r) /\ inv b base X D s' /\
    match r with
    | None => lookup (cache s) k = None /\ lookup (store s) k = None
    | Some o => b <= o /\ exists ob, hget s' o = Some ob /\ (o_id ob = k \/ X k o) /\ ~ D (o_id ob) /\
                L s k = Some (o_rec ob)
    end.
Proof.
  intro I. pose proof (cache_get_ff s k (i_plan _ _ _ _ _ I)) as Hff.
  destruct (lookup (cache s) k) as [o|] eqn:Hl.
  - exists s, (Some o). split; [exact Hff|]. split; [exact I|].
    destruct (i_cok _ _ _ _ _ I k o Hl) as [ob [Ho Hx]].
    destruct (inv_cached_facts _ _ _ _ _ _ _ _ I Hl Ho) as (H1 & H2 & H3 & H4 & H5 & H6).
    split; [exact H2|]. exists ob. repeat split; try assumption. unfold L. rewrite Hl, Ho. reflexivity.
  - destruct Hff as [es [Hq Hff]]. destruct (lookup (store s) k) as [r|] eqn:Hst.
    + destruct (inv_loaded _ _ _ _ _ _ _ _ I Hq Hl Hst) as [I' Hg].
      exists (loaded s k r es), (Some (length (heap s))). split; [exact Hff|]. split; [exact I'|].
      split; [apply (i_b _ _ _ _ _ I)|]. exists (mkObj k r). repeat split.
      * exact Hg.
      * left. reflexivity.
      * intro HD. cbn [o_id] in HD. rewrite (i_Ds _ _ _ _ _ I k HD) in Hst. discriminate.
      * unfold L. rewrite Hl. exact Hst.
    + exists (set_evs s (es ++ evs s)), None. split; [exact Hff|]. split; [apply inv_quiet; assumption | split; reflexivity].
Qed.

(* what cache.Set does without faults, for the object ob at index o *)
Definition touched (s : st) (ob : obj) : obj := mkObj (o_id ob) (set_access (o_rec ob) (now s)).

Definition cset_mid (s : st) (o : nat) (ob : obj) : st :=
  let s1 := hput s o (touched s ob) in
  let s2 := compact s1 (if has (cache s1) (o_id ob) then 0 else 1)%Z in
  if (c_maxcache (conf s2) =? 0)%Z then s2 else set_cache s2 (upsert (cache s2) (o_id ob) o).

Definition cset_body (s : st) (o : nat) (ob : obj) : st :=
  saved (cset_mid s o ob) (o_id ob) (o_rec (touched s ob)).
Definition cset_sig s o ob : {s' : st | s' = cset_body s o ob}.
Proof. exists (cset_body s o ob). reflexivity. Qed.
Definition cset (s : st) (o : nat) (ob : obj) : st := proj1_sig (cset_sig s o ob).
Lemma cset_eq s o ob : cset s o ob = saved (cset_mid s o ob) (o_id ob) (o_rec (touched s ob)).
Proof. exact (proj2_sig (cset_sig s o ob)). Qed.

Lemma cset_mid_frame s o ob : ffnd s ->
  heap (cset_mid s o ob) = heap (hput s o (touched s ob)) /\ supply (cset_mid s o ob) = supply s /\
  pending (cset_mid s o ob) = pending s /\ conf (cset_mid s o ob) = conf s /\ now (cset_mid s o ob) = now s /\
  plan (cset_mid s o ob) = plan s /\ graves (cset_mid s o ob) = graves s.
Proof.
  intro F. unfold cset_mid.
  pose proof (compact_frame (hput s o (touched s ob)) (if has (cache (hput s o (touched s ob))) (o_id ob) then 0 else 1)%Z F) as Hfr.
  destruct (c_maxcache _ =? 0)%Z; sst; exact Hfr.
Qed.

Lemma cache_set_ff s o ob : ffnd s -> hget s o = Some ob -> cache_set s o = (cset s o ob, true).
Proof.
  intros F Ho. unfold cache_set. rewrite Ho. unfold hupd. rewrite Ho.
  fold (touched s ob). rewrite hget_hput_same by (eapply hget_Some_lt; exact Ho).
  cbn [o_id touched]. fold (touched s ob).
  change (if (c_maxcache (conf (compact (hput s o (touched s ob)) (if has (cache (hput s o (touched s ob))) (o_id ob) then 0%Z else 1%Z))) =? 0)%Z
          then compact (hput s o (touched s ob)) (if has (cache (hput s o (touched s ob))) (o_id ob) then 0%Z else 1%Z)
          else set_cache (compact (hput s o (touched s ob)) (if has (cache (hput s o (touched s ob))) (o_id ob) then 0%Z else 1%Z))
                 (upsert (cache (compact (hput s o (touched s ob)) (if has (cache (hput s o (touched s ob))) (o_id ob) then 0%Z else 1%Z))) (o_id ob) o))
    with (cset_mid s o ob).
  rewrite p_save_ff; [rewrite cset_eq; reflexivity|].
  destruct (cset_mid_frame s o ob F) as (_ & _ & _ & _ & _ & -> & _). apply F.
Qed.

Lemma inv_cset b base X D s o ob :
  inv b base X D s -> hget s o = Some ob -> b <= o -> ~ D (o_id ob) -> inv b base X D (cset s o ob).
Proof.
  intros I Ho Hbo HnD.
  destruct (i_fh _ _ _ _ _ I o ob Hbo Ho) as [Hk Hr].
  assert (I1 : inv b base X D (hput s o (touched s ob))).
  { eapply inv_hput; [exact I | exact Ho | reflexivity | intros _; exact Hr]. }
  assert (F1 : ffnd (hput s o (touched s ob))) by (eapply inv_ffnd; exact I1).
  assert (Imid : inv b base X D (cset_mid s o ob)).
  { unfold cset_mid.
    set (req := (if has (cache (hput s o (touched s ob))) (o_id ob) then 0 else 1)%Z).
    assert (I2 : inv b base X D (compact (hput s o (touched s ob)) req)) by (apply inv_compact; exact I1).
    destruct (c_maxcache _ =? 0)%Z; [exact I2|].
    eapply (inv_cache_upsert _ _ _ _ _ _ _ (touched s ob)); [exact I2 | | reflexivity | exact Hbo | | exact HnD].
    - rewrite hget_compact by exact F1. apply hget_hput_same. eapply hget_Some_lt. exact Ho.
    - destruct (compact_frame _ req F1) as (_ & -> & _). exact Hk. }
  rewrite cset_eq. apply inv_saved; [exact Imid | | | exact HnD].
  - destruct (cset_mid_frame s o ob (inv_ffnd _ _ _ _ _ I)) as (_ & -> & _). exact Hk.
  - destruct (cset_mid_frame s o ob (inv_ffnd _ _ _ _ _ I)) as (_ & -> & _). exact Hr.
Qed.

Lemma hget_cset s o ob o' : ffnd s -> hget s o = Some ob ->
  hget (cset s o ob) o' = if Nat.eqb o o' then Some (touched s ob) else hget s o'.
Proof.
  intros F Ho. rewrite cset_eq. unfold saved, hget. sst. destruct (cset_mid_frame s o ob F) as (-> & _).
  fold (hget (hput s o (touched s ob)) o'). rewrite hget_hput. rewrite Ho. reflexivity.
Qed.

Lemma cset_frame s o ob : ffnd s ->
  supply (cset s o ob) = supply s /\ pending (cset s o ob) = pending s /\ conf (cset s o ob) = conf s /\
  now (cset s o ob) = now s /\ plan (cset s o ob) = plan s /\ graves (cset s o ob) = graves s /\
  length (heap (cset s o ob)) = length (heap s).
Proof.
  intro F. rewrite cset_eq. unfold saved. sst. destruct (cset_mid_frame s o ob F) as (Hh & -> & -> & -> & -> & -> & ->).
  repeat split. rewrite Hh. unfold hput. sst. apply replace_nth_length.
Qed.

(* PurgeSessions *)
Lemma inv_purge_saves b base X D : forall entries s, inv b base X D s ->
  (forall k o, In (k, o) entries -> lookup (cache s) k = Some o) ->
  inv b base X D (purge_saves s entries) /\ cache (purge_saves s entries) = cache s.
Proof.
  induction entries as [|[k o] t IH]; intros s I Hl; cbn [purge_saves]; [split; [exact I | reflexivity]|].
  destruct (hget s o) as [ob|] eqn:Ho.
  - rewrite p_save_ff by apply (i_plan _ _ _ _ _ I). cbn [fst].
    assert (Hlk : lookup (cache s) k = Some o) by (apply Hl; left; reflexivity).
    destruct (inv_cached_facts _ _ _ _ _ _ _ _ I Hlk Ho) as (H1 & H2 & H3 & H4 & H5 & H6).
    destruct (IH (saved s k (o_rec ob))) as [I' Hc'].
    + apply inv_saved; assumption.
    + intros k' o' Hin. unfold saved. sst. apply Hl. right. exact Hin.
    + split; [exact I' | rewrite Hc'; reflexivity].
  - apply IH; [exact I | intros; apply Hl; right; assumption].
Qed.

Lemma inv_set_cache_nil b base X D s : inv b base X D s -> inv b base X D (set_cache s []).
Proof.
  intro I. dinv I. constructor; sst; try assumption.
  - intros k o Hl. discriminate.
  - constructor.
  - intros k o [].
  - intros kD k' o ob _ Hl. discriminate.
Qed.

Lemma inv_purge b base X D s : inv b base X D s -> inv b base X D (purge s).
Proof.
  intro I. unfold purge. apply inv_set_cache_nil. apply inv_purge_saves; [exact I|].
  intros k o Hin. eapply order_by_tb_lookup; [apply (i_ndc _ _ _ _ _ I) | exact Hin].
Qed.

(* ------------------------------------ cache size 0: compact empties the cache *)

Definition minf (s : st) := fun (m : option Z) (e : key * nat) =>
  match m with
  | None => Some (obj_access s (snd e))
  | Some z => Some (Z.min z (obj_access s (snd e)))
  end.

Lemma min_fold_some s l : forall z, exists m, fold_left (minf s) l (Some z) = Some m /\
  (m = z \/ exists e, In e l /\ obj_access s (snd e) = m).
Proof.
  induction l as [|e l IH]; intro z; simpl.
  - exists z. split; [reflexivity | left; reflexivity].
  - destruct (IH (Z.min z (obj_access s (snd e)))) as [m [Hm Hor]]. exists m. split; [exact Hm|].
    destruct Hor as [->|[e' [Hin He']]].
    + destruct (Z.min_dec z (obj_access s (snd e))) as [->| ->]; [left; reflexivity | right; exists e; split; [left; reflexivity | reflexivity]].
    + right. exists e'. split; [right; exact Hin | exact He'].
Qed.

Lemma pick_victim_none s : pick_victim s = None -> cache s = [].
Proof.
  unfold pick_victim, min_access. fold (minf s). destruct (cache s) as [|e l] eqn:Ec; [reflexivity|].
  simpl fold_left. destruct (min_fold_some s l (obj_access s (snd e))) as [m [Hm Hor]]. rewrite Hm.
  assert (Hne : filter (fun e0 => (obj_access s (snd e0) =? m)%Z) (e :: l) <> []).
  { assert (Hex : exists e', In e' (e :: l) /\ obj_access s (snd e') = m).
    { destruct Hor as [->|[e' [Hin He']]]; [exists e; split; [left; reflexivity | reflexivity] | exists e'; split; [right; exact Hin | exact He']]. }
    destruct Hex as [e' [Hin He']]. intro Hnil.
    assert (Hf : In e' (filter (fun e0 => (obj_access s (snd e0) =? m)%Z) (e :: l))).
    { apply filter_In. split; [exact Hin | apply Z.eqb_eq; exact He']. }
    rewrite Hnil in Hf. contradiction. }
  apply (order_by_tb_nonempty (tb s)) in Hne.
  destruct (order_by_tb _ _); [congruence | discriminate].
Qed.

Lemma length_remove_lt {A} (l : list (key * A)) k v : lookup l k = Some v -> length (remove l k) < length l.
Proof.
  induction l as [|[k' v'] l IH]; simpl; [discriminate|].
  destruct (key_eqb k k') eqn:E.
  - intros _. pose proof (length_remove_le l k). lia.
  - intro H. simpl. apply IH in H. lia.
Qed.

Definition cache_valid (s : st) : Prop := forall k o, lookup (cache s) k = Some o -> hget s o <> None.

Lemma evict_zero : forall f s, c_maxcache (conf s) = 0%Z -> ffnd s -> cache_valid s ->
  length (cache s) <= f -> cache (fst (evict f s 0)) = [].
Proof.
  induction f as [|f IH]; intros s Hz F Hv Hlen; cbn [evict].
  - cbn [fst]. apply length_zero_iff_nil. lia.
  - rewrite Hz. destruct (0 <? Z.of_nat (length (cache s)) + 0)%Z eqn:Et.
    + destruct (pick_victim s) as [[k o]|] eqn:Ev; [|cbn [fst]; apply pick_victim_none; exact Ev].
      apply pick_victim_lookup in Ev; [|apply F].
      destruct (hget s o) as [ob|] eqn:Eo; [|exfalso; eapply Hv; eauto].
      rewrite p_save_ff by apply F.
      change (set_cache (saved (set_tb s (drop_first (tb s) k)) k (o_rec ob))
                (remove (cache (saved (set_tb s (drop_first (tb s) k)) k (o_rec ob))) k)) with (flush1 s k ob).
      assert (Hfl : flushes s (flush1 s k ob)) by (eapply fl_step; [exact Ev | exact Eo | constructor]).
      apply IH.
      * unfold flush1, saved. sst. exact Hz.
      * eapply flushes_ffnd; eassumption.
      * intros k' o' Hl. apply (flushes_cache_sub _ _ Hfl) in Hl. unfold flush1, saved, hget. sst. apply (Hv _ _ Hl).
      * unfold flush1, saved. sst. pose proof (length_remove_lt _ _ _ Ev). lia.
    + cbn [fst]. apply length_zero_iff_nil. apply Z.ltb_ge in Et. lia.
Qed.

Lemma compact_zero s req : c_maxcache (conf s) = 0%Z -> ffnd s -> cache_valid s -> (0 <= req)%Z ->
  cache (compact s req) = [].
Proof.
  intros Hz F Hv Hreq. unfold compact.
  destruct (sweep_flushes (order_by_tb (tb s) (filter (is_idle s) (cache s))) s (proj1 F)) as [Hf Ht].
  - apply order_by_tb_NoDup. apply NoDup_filter_keys. apply F.
  - intros k o Hin. apply order_by_tb_lookup in Hin; [|apply NoDup_filter_keys; apply F].
    apply lookup_filter_In in Hin. apply In_lookup; [apply F | exact Hin].
  - destruct (sweep s _) as [s1 ok]. cbn [fst snd] in *. subst ok. cbn [negb].
    destruct (flushes_frame _ _ Hf) as (Hh & _ & _ & Hcf & _).
    rewrite Hcf, Hz. cbn [Z.ltb Z.compare orb].
    destruct (Z.of_nat (length (cache s1)) + req <=? 0)%Z eqn:El.
    + apply length_zero_iff_nil. apply Z.leb_le in El. lia.
    + assert (Hr0 : (if (0 <? req)%Z then 0%Z else req) = 0%Z).
      { destruct (0 <? req)%Z eqn:E; [reflexivity | apply Z.ltb_ge in E; lia]. }
      rewrite Hr0. apply evict_zero.
      * rewrite Hcf. exact Hz.
      * eapply flushes_ffnd; eassumption.
      * intros k o Hl. apply (flushes_cache_sub _ _ Hf) in Hl. unfold hget. rewrite Hh. apply (Hv _ _ Hl).
      * lia.
Qed.

Lemma inv_cache_valid b base X D s : inv b base X D s -> cache_valid s.
Proof. intros I k o Hl. destruct (i_cok _ _ _ _ _ I k o Hl) as [ob [Ho _]]. congruence. Qed.

(* After cache.Set of object o, whatever the cache holds under o's ID is o. *)
Lemma cset_cache_own b base X D s o ob o' :
  inv b base X D s -> hget s o = Some ob -> lookup (cache (cset s o ob)) (o_id ob) = Some o' -> o' = o.
Proof.
  intros I Ho Hl. rewrite cset_eq in Hl. unfold saved in Hl. sst. unfold cset_mid in Hl.
  set (s1 := hput s o (touched s ob)) in *.
  set (req := (if has (cache s1) (o_id ob) then 0 else 1)%Z) in *.
  assert (I1 : inv b base X D s1).
  { eapply inv_hput; [exact I | exact Ho | reflexivity |].
    intro Hbo. apply (i_fh _ _ _ _ _ I o ob Hbo Ho). }
  destruct (c_maxcache (conf (compact s1 req)) =? 0)%Z eqn:Ez.
  - apply Z.eqb_eq in Ez. destruct (compact_frame s1 req (inv_ffnd _ _ _ _ _ I1)) as (_ & _ & _ & Hcf & _).
    rewrite Hcf in Ez. rewrite compact_zero in Hl; [discriminate | exact Ez | eapply inv_ffnd; exact I1 | eapply inv_cache_valid; exact I1 |].
    unfold req. destruct (has _ _); lia.
  - sst. rewrite lookup_upsert_same in Hl. congruence.
Qed.
