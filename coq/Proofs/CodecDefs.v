(* Definitions over the regenerated tables that several proof files share. *)
From Sessions Require Import Model.Base Model.Codec Gen.Layout.

(* Does UnmarshalJSON, as it is now, accept the null that MarshalJSON writes
   for a nil data map? Read off the regenerated table. *)
Definition json_da_null_ok : bool := null_ok_for k_da json_dec.

(* Sessions used in the examples beside the theorems. *)
Local Open Scope N_scope.
Definition ex_time : gtime := mkTime 1577934245 6 20700.       (* 2020-01-02 03:04:05.000000006 +05:45 *)
Definition ex_user : cuser := mkUser (DInt 42) 1.
Definition ex_sess : csess :=
  mkSess ex_time (mkTime (-62135596800) 0 (-12600)) [49;46;50;46;51;46;52;58;53] 18446744073709551615
         [] (Some ex_user) (Some [([107], DStr [118]); ([110], DInt 7)]).
(* the record RegenerateID leaves under the old ID: a reference, no user, nil data *)
Definition ex_placeholder : csess :=
  mkSess ex_time ex_time [49;46;50;46;51;46;52;58;53] 77 [110;101;119;45;105;100] None None.

