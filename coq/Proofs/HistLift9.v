(* Lifting to histories, part 9: the theorems of HistLift4..8 restated from the
   initial state (reach c hs: the world after history hs from init_st c) and on
   the logical contents L of SessDefs.v (cached object over stored record)
   instead of the store's view sref. Properties/C04H.v, C05H.v, C18H.v quote
   these. *)
From Sessions Require Import Model.Base Model.Sess Model.Hist Proofs.SessDefs
  Proofs.HistInv Proofs.HistInv2 Proofs.HistInv3 Proofs.HistLift Proofs.HistLift2 Proofs.HistLift3
  Proofs.HistLift4 Proofs.HistLift5 Proofs.HistLift6 Proofs.HistLift7 Proofs.HistLift8.
From Sessions Require Proofs.RotateLaws3 Proofs.RotateLaws4.
From Coq Require Import Lia.

(* k resolves to a record with reference field x *)
Definition Lref (s : st) (k : key) (x : option key) : Prop := exists r, L s k = Some r /\ r_ref r = x.

Lemma LI_Lref s k x : LI s -> (Lref s k x <-> sref s k = Some x).
Proof.
  intros Hl. destruct (LI_sess_inv _ Hl) as (_ & Hc & _). pose proof Hl as (_ & K & _). apply L_sref; assumption.
Qed.

Lemma LI_reach' c hs : Forall ff_hop hs -> Forall crash_free hs -> LI (w_st (reach c hs)).
Proof. apply LI_reach. Qed.

(* ------------------------------------------------------------- C05 *)

Theorem placeholder_origin_L w r k j : LI (w_st w) -> rq_plan r = [] -> rq_crash r = None ->
  let s := w_st w in let s' := w_st (fst (step w (HReq r))) in
  Lref s' k (Some j) -> Lref s k (Some j) \/ In ((now s + c_grace (conf s))%Z, k) (pending s').
Proof.
  intros Hl Hpl Hcr. cbv zeta. intro H'.
  destruct (placeholder_origin w r Hl Hpl Hcr) as (Hl' & _ & _ & H).
  apply (LI_Lref _ k (Some j) Hl') in H'. destruct (H k j H') as [A|B]; [left; apply (LI_Lref _ k (Some j) Hl); exact A | right; exact B].
Qed.

Theorem kept_after_L k j d0 w hs :
  LI (w_st w) -> Lref (w_st w) k (Some j) -> In (d0, k) (pending (w_st w)) ->
  hist_ok (kept_hop k d0) w hs ->
  let s := w_st (after w hs) in
  LI s /\ Lref s k (Some j) /\ In (d0, k) (pending s).
Proof.
  intros Hl Hr Hp Hok. cbv zeta. apply (LI_Lref _ k (Some j) Hl) in Hr.
  destruct (kept_after k j d0 w hs Hl Hr Hp Hok) as (A & B & _ & D). auto.
Qed.

Theorem chain_kept_L k w hs :
  LI (w_st w) -> Lref (w_st w) k None -> (0 < c_grace (conf (w_st w)))%Z ->
  hist_ok (live_hop k (now (w_st w)) (c_grace (conf (w_st w)))) w hs ->
  let s := w_st (after w hs) in
  LI s /\ exists rest, RotateLaws4.chain_from s k rest.
Proof.
  intros Hl Hr Hg Hok. cbv zeta. apply (LI_Lref _ k None Hl) in Hr.
  destruct (chain_kept k w hs Hl Hr Hg Hok) as (Hl' & rest & Hc). split; [exact Hl'|]. exists rest.
  destruct (LI_sess_inv _ Hl') as (_ & Hcok & _). pose proof Hl' as (_ & K' & _).
  exact (schain_chain_rec _ Hcok K' rest k Hc).
Qed.

Theorem grace_live_L k w hs q r :
  LI (w_st w) -> Lref (w_st w) k None -> (0 < c_grace (conf (w_st w)))%Z ->
  hist_ok (live_hop k (now (w_st w)) (c_grace (conf (w_st w)))) w hs ->
  let s := w_st (after w hs) in
  q_cookie q = CKey k -> L s k = Some r -> r_ref r <> None ->
  RotateLaws3.valid_for (conf s) r (now s) q = true ->
  (since (r_created r) (now s) < sat_add (c_idexpiry (conf s)) (c_grace (conf s)))%Z ->
  exists rest s' o' rn r',
    rest <> [] /\ RotateLaws4.chain_from s k rest /\
    start s q = (s', Ok (Some o'), [CkLive (last rest k)]) /\
    L s (last rest k) = Some rn /\ r_ref rn = None /\ (r' = rn \/ r' = codec (conf s) rn) /\
    hget s' o' = Some (mkObj (last rest k) (RotateLaws3.seen_rec r' (now s) q)).
Proof.
  intros Hl Hr Hg Hok. cbv zeta. intros Hq HL Hnr Hv Hb. apply (LI_Lref _ k None Hl) in Hr.
  destruct (grace_live k w hs q r Hl Hr Hg Hok Hq HL Hnr Hv Hb) as (rest & s' & o' & rn & r' & A & B & C & D & E & F & G).
  exists rest, s', o', rn, r'. split; [exact A|]. split; [|auto 10].
  destruct (chain_kept k w hs Hl Hr Hg Hok) as (Hl' & _).
  destruct (LI_sess_inv _ Hl') as (_ & Hcok & _). pose proof Hl' as (_ & K' & _).
  exact (schain_chain_rec _ Hcok K' rest k B).
Qed.

(* the replaced ID stays dead after the wait, whatever follows (C07_stays_dead) *)
Theorem dead_after_wait_forever k d0 w hs d hs2 :
  LI (w_st w) -> In (d0, k) (pending (w_st w)) -> hist_ok norestart_hop w hs ->
  (d0 <= now (w_st (after w hs)) + d)%Z -> Forall ff_hop hs2 ->
  let w' := fst (step (after w hs) (HWait d)) in
  lookup (cache (w_st (after w' hs2))) k = None /\ lookup (store (w_st (after w' hs2))) k = None /\
  Forall (dead_obs k) (run_from w' hs2).
Proof.
  intros Hl Hp Hok Hle Hff. cbv zeta.
  destruct (dead_after_wait k d0 w hs d Hl Hp Hok Hle) as (Hl' & Hc & Hs & _).
  assert (Hd : key_drawn (w_st (fst (step (after w hs) (HWait d)))) k).
  { pose proof (LI_sess_inv _ Hl) as (_ & _ & _ & (_ & _ & _ & Hfp)). pose proof (Hfp _ _ Hp) as Hk.
    assert (Hmono : forall w0 hs0, hist_ok norestart_hop w0 hs0 -> LI (w_st w0) ->
              (supply (w_st w0) <= supply (w_st (after w0 hs0)))%N /\ LI (w_st (after w0 hs0))).
    { intros w0 hs0. revert w0. induction hs0 as [|h t IH]; intros w0 Hok0 Hl0; cbn [after]; [split; [lia | exact Hl0]|].
      destruct Hok0 as [(Hf & Hcf & _) Ht]. pose proof (LI_step w0 h Hl0 Hf Hcf) as Hl1.
      destruct Hl0 as (W0 & _). destruct (step_winv 0 ND w0 h W0 Hf) as (b' & _ & _ & Hsup & _).
      destruct (IH _ Ht Hl1) as [Hs2 Hl2]. split; [lia | exact Hl2]. }
    destruct (Hmono w hs Hok Hl) as [Hs1 Hl1]. destruct Hl1 as (W1 & _).
    destruct (step_winv 0 ND (after w hs) (HWait d) W1 Logic.I) as (b' & _ & _ & Hs2 & _).
    destruct k as [n|n]; [cbn [key_drawn] in *; lia | exact Logic.I]. }
  destruct Hl' as (W' & _).
  exact (stays_dead 0 _ k hs2 W' Hd Hc Hs Hff).
Qed.

(* ---------------------------------------------- small restatements *)

Lemma LI_implies s : LI s -> sess_inv s /\ RotateLaws4.ref_wf s.
Proof. intros H. split; [apply LI_sess_inv | apply LI_ref_wf]; exact H. Qed.

Lemma kept_hop_def k0 d0 w h : kept_hop k0 d0 w h <->
  ff_hop h /\ crash_free h /\ (now (w_st w) < d0)%Z /\
  match h with
  | HReq r => presents w r = CKey k0 ->
              ~ In CkDelete (ob_cookies (snd (step w h))) /\ ob_res (snd (step w h)) <> RErr EExpiredID
  | HWait d => (now (w_st w) + d < d0)%Z
  | HRestart => False
  | _ => True
  end.
Proof. reflexivity. Qed.

Lemma live_hop_def k0 T0 g0 w h : live_hop k0 T0 g0 w h <->
  ff_hop h /\ crash_free h /\
  match h with
  | HReq r => ~ In SDestroy (rq_script r) /\
              forall k, presents w r = CKey k -> on_chain k0 (w_st w) k ->
                ~ In CkDelete (ob_cookies (snd (step w h))) /\ ob_res (snd (step w h)) <> RErr EExpiredID
  | HWait d => (0 <= d)%Z /\ (now (w_st w) + d < T0 + g0)%Z
  | HSetCfg c => c_grace c = g0
  | HRestart => False
  | _ => True
  end.
Proof. reflexivity. Qed.

(* ------------------------------------------------------------- C18 *)

(* C18 for the request step r issued after history hs *)
Theorem c18_reach c hs r : Forall ff_hop hs -> Forall crash_free hs -> rq_plan r = [] -> rq_crash r = None ->
  let w := reach c hs in let o := snd (step w (HReq r)) in let s' := w_st (fst (step w (HReq r))) in
  ob_res o = RSess ->
  exists kf rf, ob_final o = Some (kf, rf) /\ r_ref rf = None /\
    (forall v, lastl None (ob_cookies o) = Some v -> v = kf) /\
    (lastl None (ob_cookies o) = None -> presents w r = CKey kf) /\
    (~ In SDestroy (firstn (length (ob_script o)) (rq_script r)) ->
       apply_cookies (presents w r) (ob_cookies o) = CKey kf /\
       (rq_present r = PJar -> ob_jar o = CKey kf) /\
       exists rL, L s' kf = Some rL /\ r_ref rL = None).
Proof. intros Hff Hcf Hpl Hcr. exact (c18_hist c hs r Hff Hcf Hpl Hcr). Qed.

Theorem c18_nosess_reach c hs r : Forall ff_hop hs -> Forall crash_free hs -> rq_plan r = [] -> rq_crash r = None ->
  let w := reach c hs in let o := snd (step w (HReq r)) in
  presents w r <> CKey (KGen (supply (w_st w))) -> ob_res o <> RSess ->
  (forall v, ~ In (CkLive v) (ob_cookies o)) /\
  (In CkDelete (ob_cookies o) -> exists k, presents w r = CKey k /\ L (w_st (fst (step w (HReq r)))) k = None).
Proof.
  intros Hff Hcf Hpl Hcr. cbv zeta. apply step_c18_nosess; [apply LI_reach; assumption | exact Hpl | exact Hcr].
Qed.

Theorem silent_reach c hs r k rk : Forall ff_hop hs -> Forall crash_free hs -> rq_plan r = [] -> rq_crash r = None ->
  let w := reach c hs in
  RotateLaws3.cfg_ok (conf (w_st w)) ->
  presents w r = CKey k -> L (w_st w) k = Some rk -> r_ref rk = None ->
  RotateLaws3.valid_for (conf (w_st w)) rk (now (w_st w)) (req_of w r) = true ->
  (since (r_created rk) (now (w_st w)) < c_idexpiry (conf (w_st w)))%Z ->
  forallb calm_op (rq_script r) = true ->
  ob_res (snd (step w (HReq r))) = RSess /\ ob_cookies (snd (step w (HReq r))) = [].
Proof.
  intros Hff Hcf Hpl Hcr. cbv zeta. apply step_silent; [apply LI_reach; assumption | exact Hpl | exact Hcr].
Qed.

Theorem no_bad_run c hs : Forall (fun o => forall n, ~ In (CkBad n) (ob_cookies o)) (run c hs).
Proof. apply run_from_plain. Qed.

(* ------------------------------------------------------------- C04 *)

Theorem draws_reach c hs r : Forall ff_hop hs -> Forall crash_free hs -> rq_plan r = [] -> rq_crash r = None ->
  let w := reach c hs in let n0 := supply (w_st w) in let o := snd (step w (HReq r)) in
  dlist (ob_evs o) = flv n0 (ob_cookies o) /\
  dlist (ob_evs o) = nseq n0 (length (dlist (ob_evs o))) /\
  ob_drawn o = (n0 + N.of_nat (length (dlist (ob_evs o))))%N.
Proof.
  intros Hff Hcf Hpl Hcr. cbv zeta. apply step_draws; [apply LI_reach; assumption | exact Hpl | exact Hcr].
Qed.

Theorem nodraw_reach c hs h : Forall ff_hop hs -> Forall crash_free hs -> ff_hop h -> (forall r, h <> HReq r) ->
  ob_drawn (snd (step (reach c hs) h)) = supply (w_st (reach c hs)).
Proof. intros Hff Hcf Hf Hn. apply step_nodraw; [apply LI_reach; assumption | exact Hf | exact Hn]. Qed.

(* the two halves of the grace period for one ID change, put together: an ID k
   that is a session's ID before a request step and a reference to j after it
   (the step replaced it, at instant T with grace period g) stays a reference to
   j, with its clean-up queued for T + g, through every later history of kept
   hops *)
Theorem replaced_kept w r0 k j hs : LI (w_st w) -> rq_plan r0 = [] -> rq_crash r0 = None ->
  let s := w_st w in let w1 := fst (step w (HReq r0)) in
  Lref s k None -> Lref (w_st w1) k (Some j) ->
  hist_ok (kept_hop k (now s + c_grace (conf s))) w1 hs ->
  let s2 := w_st (after w1 hs) in
  LI s2 /\ Lref s2 k (Some j) /\ In ((now s + c_grace (conf s))%Z, k) (pending s2).
Proof.
  intros Hl Hpl Hcr. cbv zeta. intros Hlive Hrepl Hok.
  destruct (placeholder_origin w r0 Hl Hpl Hcr) as (Hl1 & _ & _ & _).
  destruct (placeholder_origin_L w r0 k j Hl Hpl Hcr Hrepl) as [Hold|Hq].
  - exfalso. destruct Hlive as (r1 & E1 & R1). destruct Hold as (r2 & E2 & R2). rewrite E1 in E2. injection E2 as <-. congruence.
  - exact (kept_after_L k j _ _ hs Hl1 Hrepl Hq Hok).
Qed.
