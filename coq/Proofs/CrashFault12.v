(* Non-vacuity of the C10 / C11 theorems: a concrete state built by running the
   model (two clients, cache size 1, so that compaction flushes interleave with
   the saves of an ID change) satisfies their hypotheses, and the calls in
   question run on it with the outcomes the theorems talk about. *)
From Sessions Require Import Model.Base Model.Sess Model.Hist Proofs.SessDefs Proofs.CrashFault
  Proofs.CrashFault2 Proofs.CrashFault3 Proofs.CrashFault5 Proofs.CrashFault6 Proofs.CrashFault7
  Proofs.CrashFault8 Proofs.CrashFault9 Proofs.CrashFault10 Proofs.CrashFault11.
From Coq Require Import Lia.

Definition cfg_ex : cfg := mkCfg 3600000000000 600000000000 60000000000 max64 1 1 true false.
Definition rq_ex (c : N) (sc : list sop) : hop := HReq (mkReqStep c PJar true (V4 1 2 3 4 5) 7 sc [] [] None).

(* client 1 and client 2 each create a session and set a value; cache size 1 *)
Definition s_ex : st :=
  Eval vm_compute in
    set_evs (w_st (fst (step (fst (step (mkWorld (init_st cfg_ex) []) (rq_ex 1 [SSet 1 2]))) (rq_ex 2 [SSet 3 4])))) [].

Definition ob_ex : obj := Eval vm_compute in match hget s_ex 0 with Some ob => ob | None => mkObj (KJunk 0) (mkRec 0 0 (AOther 0) 0 None None None) end.

Ltac keycase H :=
  repeat match type of H with
         | context [key_eqb ?a ?b] =>
           let E := fresh "E" in destruct (key_eqb a b) eqn:E; [apply key_eqb_eq in E; subst|]
         end.

Lemma s_ex_cache_ok : cache_ok s_ex.
Proof.
  intros k o H. simpl in H. keycase H; [|discriminate]. injection H as <-. eexists. split; reflexivity.
Qed.

Lemma s_ex_nodup : nodup_ok s_ex.
Proof.
  split; simpl; repeat constructor; simpl; intuition discriminate.
Qed.

Lemma s_ex_fresh : fresh_ok s_ex.
Proof.
  split; [|split; [|split]].
  - intros k v H. simpl in H. destruct H as [H|[]]. injection H as <- <-. simpl. lia.
  - intros k r H. simpl in H. destruct H as [H|[H|[]]]; injection H as <- <-; simpl; split; try lia; exact I.
  - intros o ob H. unfold hget in H. simpl in H.
    destruct o as [|[|o]]; simpl in H; [injection H as <- | injection H as <- | destruct o; discriminate];
      simpl; split; try lia; exact I.
  - intros d k [].
Qed.

Lemma s_ex_nodangling : nodangling (store s_ex).
Proof.
  intros k r t H Hr. simpl in H. keycase H; try discriminate; injection H as <-; discriminate.
Qed.

Lemma s_ex_mem_nd : mem_nd s_ex.
Proof.
  intros k o ob t H Ho Hr. simpl in H. keycase H; [|discriminate]. injection H as <-.
  unfold hget in Ho. simpl in Ho. injection Ho as <-. discriminate.
Qed.

Lemma s_ex_holds : holds s_ex 0 ob_ex.
Proof.
  split; [reflexivity|]. split; [reflexivity|]. split.
  - intros o' H. simpl in H. discriminate.
  - eexists. split; reflexivity.
Qed.

(* RegenerateID on s_ex: five events, among them the flush of the other client's
   session and (size-1 cache) the flush of this very session under its new ID. *)
Example C10_regenerate_nonvacuous :
  cache_ok s_ex /\ nodup_ok s_ex /\ fresh_ok s_ex /\ nodangling (store s_ex) /\ mem_nd s_ex /\ holds s_ex 0 ob_ex /\
  exists s', regenerate s_ex 0 = (s', Ok tt, [CkLive (KGen 2)]) /\ length (evs s') = 5 /\
             dat (o_rec ob_ex) = [(1%N, 2%N)].
Proof.
  split; [exact s_ex_cache_ok|]. split; [exact s_ex_nodup|]. split; [exact s_ex_fresh|].
  split; [exact s_ex_nodangling|]. split; [exact s_ex_mem_nd|]. split; [exact s_ex_holds|].
  eexists. split; [vm_compute; reflexivity|]. split; reflexivity.
Qed.

Example C10_login_nonvacuous :
  exists s', login s_ex 0 (5%N, 1%N) true = (s', Ok tt, [CkLive (KGen 2)]) /\ length (evs s') = 8.
Proof. eexists. split; [vm_compute; reflexivity | reflexivity]. Qed.

(* after 700 s the ID (valid for 600 s) is due: Start rotates *)
Definition s_rot : st := Eval vm_compute in set_now s_ex 700000000000.
Definition q_ex : request := mkReq (CKey (KGen 0)) true (V4 1 2 3 4 5) 7.

Example C10_start_nonvacuous :
  start_rotates s_rot q_ex = true /\
  presented s_rot (KGen 0) [(1%N, 2%N)] None /\
  exists s', start s_rot q_ex = (s', Ok (Some 2), [CkLive (KGen 2)]) /\ length (evs s') = 7.
Proof.
  split; [vm_compute; reflexivity|]. split.
  - split.
    + eexists. split; [reflexivity|]. split; [reflexivity|]. split; reflexivity.
    + intros o ob H. simpl in H. discriminate.
  - eexists. split; [vm_compute; reflexivity | reflexivity].
Qed.

(* the invariants do not mention the clock *)
Lemma s_rot_ok : cache_ok s_rot /\ nodup_ok s_rot /\ fresh_ok s_rot /\ nodangling (store s_rot) /\ mem_nd s_rot.
Proof.
  split; [exact s_ex_cache_ok|]. split; [exact s_ex_nodup|]. split; [exact s_ex_fresh|].
  split; [exact s_ex_nodangling | exact s_ex_mem_nd].
Qed.

(* C11_load: the load of the presented ID fails *)
Example C11_load_nonvacuous :
  exists s', start (set_plan s_ex [true]) q_ex = (s', Err EGet, []) /\ evs s' = [EvLoad (KGen 0) false] /\
             cv (set_plan s_ex [true]) /\ NoDup (map fst (cache (set_plan s_ex [true]))).
Proof.
  eexists. split; [vm_compute; reflexivity|]. split; [reflexivity|]. split.
  - intros k o H. simpl in H. destruct H as [H|[]]. injection H as <- <-. simpl. lia.
  - simpl. repeat constructor. simpl. tauto.
Qed.

(* C11_flush: the flush that makes room fails; the entry stays *)
Example C11_flush_nonvacuous :
  exists r, evs (compact (set_plan s_ex [true]) 1) = [EvSave (KGen 1) r false] /\
            cache (compact (set_plan s_ex [true]) 1) = [(KGen 1, 1)].
Proof. eexists. split; vm_compute; reflexivity. Qed.

(* C11_ack: a Set that succeeds, and the same Set when the save fails *)
Example C11_ack_nonvacuous :
  (exists s', do_sop s_ex 0 true (SSet 5 6) = (s', SOk, [])) /\
  (exists s', do_sop (set_plan s_ex [true]) 0 true (SSet 5 6) = (s', SErr ESave, [])).
Proof. split; eexists; vm_compute; reflexivity. Qed.

(* LogIn (non-exclusive) over a session that carries a user; the save of the
   preliminary LogOut fails and is ignored, LogIn still reports success — and
   by C11_ack_login the store then holds the session with the new user. *)
Definition s_user : st := Eval vm_compute in set_evs (fst (fst (login s_ex 0 (5%N, 1%N) false))) [].

Example C11_login_ignored_error :
  exists s' r, do_sop (set_plan s_user [true]) 0 true (SLogIn (6%N, 1%N) false) = (s', SOk, [CkLive (KGen 3)]) /\
    last (evs s') (EvDraw 0) = EvSave (KGen 2) r false /\
    hget s' 0 = Some (mkObj (KGen 3) (mkRec 0 0 (V4 1 2 3 4 5) 7 None (Some (6%N, 1%N)) (Some [(1%N, 2%N)]))) /\
    lookup (store s') (KGen 3) = Some (mkRec 0 0 (V4 1 2 3 4 5) 7 None (Some (6%N, 0%N)) (Some [(1%N, 2%N)])).
Proof. eexists. eexists. split; [vm_compute; reflexivity|]. split; [vm_compute; reflexivity|]. split; vm_compute; reflexivity. Qed.

(* C11_nopanic: s_ex is a state of the kind the theorem is about *)
Example C11_nopanic_nonvacuous : J Kd s_ex /\ handle_ok s_ex 0.
Proof.
  split; [split; [|split]|].
  - intros k o H. simpl in H. destruct H as [H|[]]. injection H as <- <-. simpl. lia.
  - intros k o ob H Ho. simpl in H. destruct H as [H|[]]. injection H as <- <-.
    unfold hget in Ho. simpl in Ho. injection Ho as <-. intros _. discriminate.
  - intros k r H. simpl in H. keycase H; try discriminate; injection H as <-; intros _; discriminate.
  - eexists. split; [reflexivity | discriminate].
Qed.
