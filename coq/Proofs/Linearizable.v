(* C15 (c): every history of the lock-based implementation of the key/value
   operations is a history of the atomic specification, the linearization
   point of an operation being its lock acquisition. Forward simulation, for
   any number of threads and operations. *)
From Coq Require Import List Arith Lia Bool.
From Sessions Require Import Model.Base Model.Lockset.
Import ListNotations.

(* ---- small facts ---- *)

Lemma set_th_same : forall A (ths : thread -> A) t x, set_th ths t x t = x.
Proof. intros. unfold set_th. now rewrite Nat.eqb_refl. Qed.

Lemma set_th_other : forall A (ths : thread -> A) t u x, u <> t -> set_th ths t x u = ths u.
Proof. intros. unfold set_th. destruct (Nat.eqb_spec u t); congruence. Qed.

Lemma run_prims_cons : forall p pc m reg,
  run_prims (p :: pc) m reg = run_prims pc (fst (exec_prim p m reg)) (snd (exec_prim p m reg)).
Proof. intros. cbn [run_prims]. now destruct (exec_prim p m reg). Qed.

Lemma upd_same : forall m k v, upd m k v k = v.
Proof. intros. unfold upd. now rewrite Nat.eqb_refl. Qed.

Lemma upd_other : forall m k v x, x <> k -> upd m k v x = m x.
Proof. intros. unfold upd. destruct (Nat.eqb_spec x k); congruence. Qed.

Lemma meq_upd : forall a b k v, meq a b -> meq (upd a k v) (upd b k v).
Proof. intros a b k v H x. unfold upd. destruct (Nat.eqb x k); auto. Qed.

(* The body of an operation, run without interference, does what the
   specification says. *)
Lemma body_spec : forall o m am,
  meq m am ->
  snd (run_prims (body o) m None) = snd (spec o am) /\
  meq (fst (run_prims (body o) m None)) (fst (spec o am)).
Proof.
  intros o m am H. destruct o as [k v | k | k | k]; cbn.
  - split; auto. now apply meq_upd.
  - split; auto.
  - split; auto. now apply meq_upd.
  - split; [ apply H | ].
    intro x. destruct (m k) eqn:E.
    + now apply meq_upd.
    + unfold upd. destruct (Nat.eqb_spec x k) as [-> | Hn]; [ exact E | apply H ].
Qed.

Definition is_read (p : prim) : bool := match p with PRead _ => true | _ => false end.

Lemma read_keeps_map : forall p m reg, is_read p = true -> fst (exec_prim p m reg) = m.
Proof. intros [k | k v | k | k] m reg H; try discriminate. reflexivity. Qed.

(* ---- the simulation relation ---- *)

Definition sim_thread (cm : kvmap) (c : tstate) (a : athread) : Prop :=
  match c with
  | TIdle => a = AIdle
  | TWait o => a = AInv o
  | TBody o pc reg => a = ALin o (snd (run_prims pc cm reg))
  | TRet o r => a = ALin o r
  end.

Record sim (c : cstate) (a : astate) : Prop := mkSim {
  sim_ths : forall t, sim_thread (c_map c) (c_ths c t) (a_ths a t);
  (* the writer inside its critical section will leave the abstract map behind *)
  sim_writer : forall t o pc reg, c_ths c t = TBody o pc reg -> op_mode o = Ex ->
               meq (fst (run_prims pc (c_map c) reg)) (a_map a);
  (* with no writer inside, the maps agree *)
  sim_quiet : (forall t, ~ in_ex_body (c_ths c t)) -> meq (c_map c) (a_map a);
  (* the lock: a writer inside excludes everybody else *)
  sim_excl : forall t u, in_ex_body (c_ths c t) -> in_body (c_ths c u) -> t = u;
  (* readers only read *)
  sim_reads : forall t o pc reg, c_ths c t = TBody o pc reg -> op_mode o = Sh ->
              forallb is_read pc = true
}.

Lemma sim_init : forall m0, sim (cinit m0) (ainit m0).
Proof.
  intro m0. constructor; cbn.
  - reflexivity.
  - discriminate.
  - intros _ k. reflexivity.
  - intros t u [o [pc [reg [H _]]]]. discriminate.
  - discriminate.
Qed.

Lemma in_body_TBody : forall o pc reg, in_body (TBody o pc reg).
Proof. intros. now exists o, pc, reg. Qed.

Lemma not_body_sim_indep : forall cm cm' c a,
  ~ in_body c -> sim_thread cm c a -> sim_thread cm' c a.
Proof. intros cm cm' [| o | o pc reg | o r] a Hn H; auto. exfalso. apply Hn, in_body_TBody. Qed.

Ltac th_cases u t :=
  destruct (Nat.eq_dec u t) as [-> | ?];
  [ rewrite ?set_th_same in * | rewrite ?set_th_other in * by assumption ].

(* One step of the implementation is matched by at most one step of the
   specification with the same label. *)
Lemma sim_step : forall c oe c' a,
  cstep c oe c' -> sim c a ->
  match oe with
  | None => sim c' a
  | Some e => exists a', astep a e a' /\ sim c' a'
  end.
Proof.
  intros c oe c' [am aths] Hstep Hsim.
  destruct Hsim as [Hths Hwr Hquiet Hexcl Hreads]. cbn [c_map c_ths a_map a_ths] in *.
  inversion Hstep as [m ths t o Ht | m ths t o Ht Hacq | m ths t o p pc reg Ht
                      | m ths t o reg Ht | m ths t o r Ht]; subst; cbn [c_map c_ths] in *.
  - (* invocation *)
    assert (Ha : aths t = AIdle) by (specialize (Hths t); now rewrite Ht in Hths).
    eexists. split; [ now apply as_inv | ].
    constructor; cbn [c_map c_ths a_map a_ths].
    + intro u. th_cases u t; cbn; auto.
    + intros u o' pc reg Hu Hm. th_cases u t; [ discriminate | eauto ].
    + intros Hq. apply Hquiet. intros u [o' [pc [reg [Hu Hm]]]].
      apply (Hq u). th_cases u t; [ congruence | ]. now exists o', pc, reg.
    + intros u1 u2 [o1 [pc1 [reg1 [H1 Hm1]]]] [o2 [pc2 [reg2 H2]]].
      th_cases u1 t; [ discriminate | ]. th_cases u2 t; [ discriminate | ].
      apply Hexcl; [ now exists o1, pc1, reg1 | now exists o2, pc2, reg2 ].
    + intros u o' pc reg Hu Hm. th_cases u t; [ discriminate | eauto ].
  - (* lock acquisition = linearization point *)
    assert (Ha : aths t = AInv o) by (specialize (Hths t); now rewrite Ht in Hths).
    assert (Hnoex : forall u, ~ in_ex_body (ths u)).
    { destruct (op_mode o) eqn:Em; cbn in Hacq; auto.
      intros u [o' [pc [reg [Hu _]]]]. apply (Hacq u). rewrite Hu. apply in_body_TBody. }
    assert (Hmeq := Hquiet Hnoex).
    destruct (body_spec o m am Hmeq) as [Hres Hmap].
    rewrite Hres.
    eexists. split; [ now apply as_lin | ].
    constructor; cbn [c_map c_ths a_map a_ths].
    + intro u. th_cases u t; cbn; [ now rewrite Hres | apply Hths ].
    + intros u o' pc reg Hu Hm. th_cases u t.
      * inversion Hu; subst. exact Hmap.
      * exfalso. apply (Hnoex u). now exists o', pc, reg.
    + intros Hq. destruct (op_mode o) eqn:Em.
      * destruct o; try discriminate. cbn. exact Hmeq.
      * exfalso. apply (Hq t). rewrite set_th_same. now exists o, (body o), None.
    + intros u1 u2 [o1 [pc1 [reg1 [H1 Hm1]]]] [o2 [pc2 [reg2 H2]]].
      th_cases u1 t.
      * inversion H1; subst o1. th_cases u2 t; auto.
        exfalso. rewrite Hm1 in Hacq. cbn in Hacq. apply (Hacq u2). rewrite H2. apply in_body_TBody.
      * exfalso. apply (Hnoex u1). now exists o1, pc1, reg1.
    + intros u o' pc reg Hu Hm. th_cases u t; [ | eauto ].
      inversion Hu; subst. destruct o'; try discriminate. reflexivity.
  - (* one primitive inside the critical section *)
    destruct (op_mode o) eqn:Em.
    + (* a reader: the map does not change *)
      assert (Hrd : forallb is_read (p :: pc) = true) by eauto.
      cbn in Hrd. apply andb_true_iff in Hrd. destruct Hrd as [Hp Hpc].
      rewrite (read_keeps_map p m reg Hp).
      constructor; cbn [c_map c_ths a_map a_ths].
      * intro u. th_cases u t; [ | apply Hths ].
        specialize (Hths t). rewrite Ht in Hths. cbn [sim_thread] in Hths |- *.
        rewrite Hths, run_prims_cons, (read_keeps_map p m reg Hp). reflexivity.
      * intros u o' pc' reg' Hu Hm. th_cases u t; [ inversion Hu; subst; congruence | eauto ].
      * intros Hq. apply Hquiet. intros u [o' [pc' [reg' [Hu Hm]]]].
        apply (Hq u). th_cases u t; [ congruence | ]. now exists o', pc', reg'.
      * intros u1 u2 [o1 [pc1 [reg1 [H1 Hm1]]]] [o2 [pc2 [reg2 H2]]].
        assert (E1 : in_ex_body (ths u1)).
        { th_cases u1 t; [ inversion H1; subst; congruence | now exists o1, pc1, reg1 ]. }
        assert (E2 : in_body (ths u2)).
        { th_cases u2 t; [ rewrite Ht; apply in_body_TBody | now exists o2, pc2, reg2 ]. }
        auto.
      * intros u o' pc' reg' Hu Hm. th_cases u t; [ inversion Hu; subst; auto | eauto ].
    + (* the writer: nobody else is inside *)
      assert (Hex : in_ex_body (ths t)) by (now exists o, (p :: pc), reg).
      assert (Halone : forall u, u <> t -> ~ in_body (ths u)).
      { intros u Hne Hb. apply Hne. symmetry. now apply Hexcl. }
      constructor; cbn [c_map c_ths a_map a_ths].
      * intro u. th_cases u t.
        -- specialize (Hths t). rewrite Ht in Hths. cbn [sim_thread] in Hths |- *.
           now rewrite Hths, run_prims_cons.
        -- eapply not_body_sim_indep; [ now apply Halone | apply Hths ].
      * intros u o' pc' reg' Hu Hm. th_cases u t.
        -- inversion Hu; subst. rewrite <- run_prims_cons. eauto.
        -- exfalso. apply (Halone u); auto. rewrite Hu. apply in_body_TBody.
      * intros Hq. exfalso. apply (Hq t). rewrite set_th_same. now exists o, pc, (snd (exec_prim p m reg)).
      * intros u1 u2 [o1 [pc1 [reg1 [H1 Hm1]]]] [o2 [pc2 [reg2 H2]]].
        th_cases u1 t; th_cases u2 t; auto; exfalso.
        -- apply (Halone u2); auto. rewrite H2. apply in_body_TBody.
        -- apply (Halone u1); auto. rewrite H1. apply in_body_TBody.
        -- apply (Halone u1); auto. rewrite H1. apply in_body_TBody.
      * intros u o' pc' reg' Hu Hm. th_cases u t; [ inversion Hu; subst; congruence | eauto ].
  - (* release *)
    constructor; cbn [c_map c_ths a_map a_ths].
    + intro u. th_cases u t; [ | apply Hths ].
      specialize (Hths t). rewrite Ht in Hths. cbn [sim_thread] in Hths |- *. exact Hths.
    + intros u o' pc' reg' Hu Hm. th_cases u t; [ discriminate | eauto ].
    + intros Hq. destruct (op_mode o) eqn:Em.
      * apply Hquiet. intros u [o' [pc' [reg' [Hu Hm]]]].
        apply (Hq u). th_cases u t; [ congruence | ]. now exists o', pc', reg'.
      * exact (Hwr _ _ _ _ Ht Em).
    + intros u1 u2 [o1 [pc1 [reg1 [H1 Hm1]]]] [o2 [pc2 [reg2 H2]]].
      th_cases u1 t; [ discriminate | ]. th_cases u2 t; [ discriminate | ].
      apply Hexcl; [ now exists o1, pc1, reg1 | now exists o2, pc2, reg2 ].
    + intros u o' pc' reg' Hu Hm. th_cases u t; [ discriminate | eauto ].
  - (* response *)
    assert (Ha : aths t = ALin o r) by (specialize (Hths t); now rewrite Ht in Hths).
    eexists. split; [ now apply as_res | ].
    constructor; cbn [c_map c_ths a_map a_ths].
    + intro u. th_cases u t; cbn; auto.
    + intros u o' pc reg Hu Hm. th_cases u t; [ discriminate | eauto ].
    + intros Hq. apply Hquiet. intros u [o' [pc [reg [Hu Hm]]]].
      apply (Hq u). th_cases u t; [ congruence | ]. now exists o', pc, reg.
    + intros u1 u2 [o1 [pc1 [reg1 [H1 Hm1]]]] [o2 [pc2 [reg2 H2]]].
      th_cases u1 t; [ discriminate | ]. th_cases u2 t; [ discriminate | ].
      apply Hexcl; [ now exists o1, pc1, reg1 | now exists o2, pc2, reg2 ].
    + intros u o' pc reg Hu Hm. th_cases u t; [ discriminate | eauto ].
Qed.

Lemma sim_trace : forall c w c', ctrace c w c' ->
  forall a, sim c a -> exists a', atrace a w a' /\ sim c' a'.
Proof.
  induction 1 as [s | s s' s'' w Hstep _ IH | s s' s'' e w Hstep _ IH]; intros a Hsim.
  - exists a. split; [ constructor | auto ].
  - apply IH. exact (sim_step _ _ _ _ Hstep Hsim).
  - destruct (sim_step _ _ _ _ Hstep Hsim) as [a1 [Ha1 Hsim1]].
    destruct (IH _ Hsim1) as [a' [Htr Hsim']].
    exists a'. split; [ econstructor; eauto | auto ].
Qed.

(* Every run of the implementation, ghost linearization events included, is a
   run of the atomic specification: the linearization order is the order of
   lock acquisitions. *)
Theorem impl_refines_atomic : forall m0 w c,
  ctrace (cinit m0) w c -> exists a, atrace (ainit m0) w a.
Proof.
  intros m0 w c H. destruct (sim_trace _ _ _ H _ (sim_init m0)) as [a [Ha _]]. eauto.
Qed.

Corollary impl_linearizable : forall m0 w c,
  ctrace (cinit m0) w c -> linearizable m0 (visible w).
Proof.
  intros m0 w c H. destruct (impl_refines_atomic _ _ _ H) as [a Ha].
  exists w, a. auto.
Qed.

(* ---- what runs of the atomic specification look like ---- *)

(* The linearization events of an atomic run form a legal sequential history. *)
Lemma atrace_legal : forall a w a', atrace a w a' -> legal (a_map a) (lins w).
Proof.
  induction 1 as [s | s s' s'' e w Hstep _ IH]; cbn; auto.
  inversion Hstep; subst; cbn in *; auto.
Qed.

(* The control state of thread t after a sequence of events, reading only
   t's own events. *)
Fixpoint after (st : athread) (t : thread) (w : list hevent) : athread :=
  match w with
  | [] => st
  | e :: w' =>
      after (match e with
             | EInv u o => if Nat.eqb u t then AInv o else st
             | ELin u o r => if Nat.eqb u t then ALin o r else st
             | ERes u _ _ => if Nat.eqb u t then AIdle else st
             end) t w'
  end.

Lemma atrace_after : forall a w a', atrace a w a' -> forall t, a_ths a' t = after (a_ths a t) t w.
Proof.
  induction 1 as [s | s s' s'' e w Hstep _ IH]; intro t; cbn; auto.
  rewrite IH. f_equal.
  inversion Hstep; subst; cbn; unfold set_th; destruct (Nat.eqb_spec t t0); subst;
    rewrite ?Nat.eqb_refl; auto;
    destruct (Nat.eqb_spec t0 t); subst; auto; congruence.
Qed.

Lemma atrace_app : forall a w1 w2 a', atrace a (w1 ++ w2) a' ->
  exists a1, atrace a w1 a1 /\ atrace a1 w2 a'.
Proof.
  intros a w1. revert a. induction w1 as [| e w1 IH]; intros a w2 a' H; cbn in *.
  - exists a. split; [ constructor | auto ].
  - inversion H; subst. destruct (IH _ _ _ H5) as [a1 [H1 H2]].
    exists a1. split; [ econstructor; eauto | auto ].
Qed.

(* A response returns the result fixed at the operation's own linearization
   point: just before ERes t o r, the latest event of t is ELin t o r. *)
Lemma atrace_response : forall a w1 t o r w2 a',
  atrace a (w1 ++ ERes t o r :: w2) a' -> after (a_ths a t) t w1 = ALin o r.
Proof.
  intros a w1 t o r w2 a' H.
  destruct (atrace_app _ _ _ _ H) as [a1 [H1 H2]].
  inversion H2 as [| s s' s'' e w Hstep _]; subst.
  rewrite <- (atrace_after _ _ _ H1 t).
  inversion Hstep; subst. cbn. assumption.
Qed.

(* ---- GetAndDelete hands a stored value to at most one caller ---- *)

(* In a legal sequential history, between two GetAndDelete of one key that
   both find a value there is a Set of that key. *)
Lemma legal_gap : forall k l2 m rest,
  m k = None -> legal m (l2 ++ rest) ->
  (exists w x, In (w, OSet k x, None) l2) \/ (exists m', m' k = None /\ legal m' rest).
Proof.
  intros k l2. induction l2 as [| [[t o] r] l2 IH]; intros m rest Hk Hl; cbn in *.
  - right. eauto.
  - destruct Hl as [Hr Hl].
    assert (Hcase : (exists x, o = OSet k x) \/ fst (spec o m) k = None).
    { destruct o as [k' v | k' | k' | k']; cbn; auto;
        destruct (Nat.eq_dec k' k) as [-> | Hn]; eauto;
        right; try (rewrite upd_other by congruence; assumption); now rewrite upd_same. }
    destruct Hcase as [[x ->] | Hnone].
    + left. exists t, x. left. cbn in Hr. now subst.
    + destruct (IH _ _ Hnone Hl) as [[w [x Hin]] | Hm]; [ left; exists w, x; now right | right; auto ].
Qed.

Theorem getdel_once : forall m l1 t k v l2 u v' l3,
  legal m (l1 ++ (t, OGetDel k, Some v) :: l2 ++ (u, OGetDel k, Some v') :: l3) ->
  exists w x, In (w, OSet k x, None) l2.
Proof.
  intros m l1. revert m. induction l1 as [| [[t0 o0] r0] l1 IH]; intros m t k v l2 u v' l3 H; cbn in H.
  - destruct H as [_ H]. cbn in H.
    destruct (legal_gap k l2 (upd m k None) _ (upd_same _ _ _) H) as [Hset | [m' [Hk Hl]]]; auto.
    cbn in Hl. destruct Hl as [Hr _]. cbn in Hr. congruence.
  - destruct H as [_ H]. eauto.
Qed.

(* The same for the implementation: the linearization (= lock acquisition)
   order of any run has that property. *)
Corollary impl_getdel_once : forall m0 w c l1 t k v l2 u v' l3,
  ctrace (cinit m0) w c ->
  lins w = l1 ++ (t, OGetDel k, Some v) :: l2 ++ (u, OGetDel k, Some v') :: l3 ->
  exists w' x, In (w', OSet k x, None) l2.
Proof.
  intros m0 w c l1 t k v l2 u v' l3 H E.
  destruct (impl_refines_atomic _ _ _ H) as [a Ha].
  apply atrace_legal in Ha. cbn in Ha. rewrite E in Ha. eapply getdel_once; eauto.
Qed.

Corollary impl_response : forall m0 w1 t o r w2 c,
  ctrace (cinit m0) (w1 ++ ERes t o r :: w2) c -> after AIdle t w1 = ALin o r.
Proof.
  intros m0 w1 t o r w2 c H.
  destruct (impl_refines_atomic _ _ _ H) as [a Ha].
  exact (atrace_response _ _ _ _ _ _ _ Ha).
Qed.

(* ---- non-vacuity: an actual interleaved run ---- *)

(* Thread 1 sets key 0 to 7; threads 2 and 3 then race to GetAndDelete it;
   2 wins, 3 invoked first but acquires second and finds nothing. *)
Definition ex_run : list hevent :=
  [ EInv 1 (OSet 0 7); ELin 1 (OSet 0 7) None; ERes 1 (OSet 0 7) None;
    EInv 3 (OGetDel 0); EInv 2 (OGetDel 0);
    ELin 2 (OGetDel 0) (Some 7); ELin 3 (OGetDel 0) None;
    ERes 3 (OGetDel 0) None; ERes 2 (OGetDel 0) (Some 7) ].

Ltac no_body :=
  cbn; intros u [o [pc [reg H]]];
  unfold set_th in H;
  repeat match type of H with
         | context [Nat.eqb u ?n] => destruct (Nat.eqb u n)
         end; try discriminate H; try (destruct H; discriminate).

Lemma cs_acq_r : forall m ths t o r,
  ths t = TWait o -> can_acquire (op_mode o) ths -> r = snd (run_prims (body o) m None) ->
  cstep (mkC m ths) (Some (ELin t o r)) (mkC m (set_th ths t (TBody o (body o) None))).
Proof. intros; subst; now apply cs_acq. Qed.

Example ex_run_is_a_run : exists c, ctrace (cinit (fun _ => None)) ex_run c.
Proof.
  unfold ex_run, cinit. eexists.
  eapply ct_event; [ apply cs_inv; reflexivity | ].
  eapply ct_event; [ apply (cs_acq_r _ _ 1 (OSet 0 7)); [ reflexivity | no_body | reflexivity ] | ].
  eapply ct_silent; [ eapply (cs_prim _ _ 1); reflexivity | ].
  eapply ct_silent; [ eapply (cs_rel _ _ 1); reflexivity | ].
  eapply ct_event; [ eapply (cs_ret _ _ 1); reflexivity | ].
  eapply ct_event; [ apply (cs_inv _ _ 3); reflexivity | ].
  eapply ct_event; [ apply (cs_inv _ _ 2); reflexivity | ].
  eapply ct_event; [ apply (cs_acq_r _ _ 2 (OGetDel 0)); [ reflexivity | no_body | reflexivity ] | ].
  eapply ct_silent; [ eapply (cs_prim _ _ 2); reflexivity | ].
  eapply ct_silent; [ eapply (cs_prim _ _ 2); reflexivity | ].
  eapply ct_silent; [ eapply (cs_rel _ _ 2); reflexivity | ].
  eapply ct_event; [ apply (cs_acq_r _ _ 3 (OGetDel 0)); [ reflexivity | no_body | reflexivity ] | ].
  eapply ct_silent; [ eapply (cs_prim _ _ 3); reflexivity | ].
  eapply ct_silent; [ eapply (cs_prim _ _ 3); reflexivity | ].
  eapply ct_silent; [ eapply (cs_rel _ _ 3); reflexivity | ].
  eapply ct_event; [ eapply (cs_ret _ _ 3); reflexivity | ].
  eapply ct_event; [ eapply (cs_ret _ _ 2); reflexivity | ].
  apply ct_nil.
Qed.
