(* C01, history level, part 6: the events of a request step show every ID drawn
   in it (from PF's event-log invariant, HistInv*.v): an ordinal between the
   supply before and after the step occurs as EvDraw in the step's observation. *)
From Sessions Require Import Model.Base Model.Sess Model.Hist Model.Corr Proofs.SessDefs
  Proofs.HistInv Proofs.HistInv2 Proofs.HistInv3 Proofs.C01Spec.
From Coq Require Import Lia.

Lemma wf_evs_draws D base l : wf_evs D base l ->
  forall m, (base <= m < base + draws l)%N -> In (EvDraw m) l.
Proof.
  induction l as [|e t IH]; cbn [wf_evs draws]; intros H m Hm.
  - lia.
  - destruct H as [He Ht]. destruct e; cbn [draws] in Hm; try (right; apply IH; [exact Ht | exact Hm]).
    cbn [ev_okn] in He. destruct (N.eq_dec m (base + draws t)) as [->|Hne].
    + left. congruence.
    + right. apply IH; [exact Ht | lia].
Qed.

(* the request body as a function of the prepared state (PF's req_body) *)
Definition req_body := HistInv3.req_body.

Lemma step_req_shape w r :
  rq_plan r = [] -> rq_crash r = None -> rq_present r = PJar ->
  let s := set_evs (w_st w) [] in
  let jar := jar_of (w_jars w) (rq_client r) in
  let q := mkReq jar (rq_create r) (rq_addr r) (rq_ua r) in
  step w (HReq r) =
  let '(s3, rc, st0, sr, fin, cks) := req_body (set_tb (set_plan s []) (rq_tb r)) q (rq_script r) in
  let s3' := set_tb (set_plan s3 []) [] in
  (mkWorld s3' (jar_set (w_jars w) (rq_client r) (apply_cookies jar cks)),
   mk_obs rc st0 cks sr fin s3' (apply_cookies jar cks)).
Proof.
  intros Hp Hc Hj. cbv zeta. rewrite step_req_eq. cbv zeta. rewrite Hp, Hc, Hj. unfold req_body.
  destruct (HistInv3.req_body _ _ _) as [[[[[s3 rc] st0] sr] fin] cks]. reflexivity.
Qed.

Lemma req_body_draws s q script :
  winv 0 ND s ->
  forall t s3 rc st0 sr fin cks,
    req_body (set_tb (set_plan (set_evs s []) []) t) q script = (s3, rc, st0, sr, fin, cks) ->
    forall m, (supply s <= m < supply s3)%N -> drawn_in (rev (evs s3)) (KGen m) = true.
Proof.
  intros W t s3 rc st0 sr fin cks Hrb m Hm.
  destruct (req_body_inv 0 (supply s, []) ND _ q script (inv_of_winv 0 ND s t W))
    as (s3' & rc' & st0' & sr' & fin' & cks' & Hrb' & I3 & _).
  unfold req_body in Hrb. rewrite Hrb in Hrb'. injection Hrb' as <- _ _ _ _ _.
  destruct (inv_ev0 _ _ _ _ _ I3) as [Hw Hs].
  assert (Hin : In (EvDraw m) (evs s3)) by (apply (wf_evs_draws ND (supply s)); [exact Hw | lia]).
  unfold drawn_in. apply existsb_exists. exists (EvDraw m). split; [apply in_rev in Hin; exact Hin|].
  apply N.eqb_refl.
Qed.
