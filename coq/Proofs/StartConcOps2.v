(* The per-cache-operation system of Model/StartConcOps.v, part 2: under the
   lock every cut collapses. `oabs` maps its states to states of the coarse
   system of Model/StartConc.v (the ghost `o_snap` is the session state the
   coarse system sees: it does not move while a goroutine works through its
   program); every admissible step of the locked system from a state of the
   invariant OI is a step of the coarse system between the abstractions (OLook,
   OFin, OTick, the lock protocol) or leaves the abstraction unchanged (OStep).
   The invariant's second part `ocur` says: the program a goroutine still has
   to run, run from the shared state as it is now, ends where the coarse rest
   ends from the state the coarse system sees - kept because, by the coarse
   invariant (mutual exclusion transported), nobody else acts on the world in
   between. *)
From Sessions Require Import Model.Base Model.Sess Model.Hist Model.Mutex Model.StartConc Model.StartConcFine
  Model.StartConcOps
  Proofs.MutexBasics Proofs.MutexSafety Proofs.StartConc Proofs.StartConc2 Proofs.StartConcFine Proofs.StartConcOps.
From Coq Require Import Lia.

Lemma olooked_mid l : existsb is_looked (map oabs_phase l) = existsb o_is_mid l.
Proof. induction l as [|p l IH]; [reflexivity|]. cbn [map existsb]. rewrite IH. destruct p; reflexivity. Qed.

Lemma oabs_nth os g : nth_error (c_ph (oabs os)) g = option_map oabs_phase (nth_error (o_ph os) g).
Proof. apply nth_error_map. Qed.

Lemma oabs_done os g o : nth_error (c_ph (oabs os)) g = Some (PDone o) <-> nth_error (o_ph os) g = Some (ODone o).
Proof.
  rewrite oabs_nth. destruct (nth_error (o_ph os) g) as [[]|]; cbn [option_map oabs_phase]; split; intro H;
    try discriminate; try (injection H as <-; reflexivity).
Qed.

(* ------------------------------------------------- inversion of the steps *)

Section Steps.
  Variables (locked : bool) (k : nat) (reqs : list reqstep).
  Notation ostep := (ostep locked reqs).

  Lemma ostep_OL os l os' : ostep os (OL l) = Some os' ->
    exists st', step (o_lock os) l = Some st' /\
      os' = mkO st' (o_st os) (o_snap os) (o_jars os) (o_ph os) (o_acts os) /\
      (forall g, l = LLeave g -> exists o, nth_error (o_ph os) g = Some (ODone o)).
  Proof.
    cbn [StartConcOps.ostep]. intro H.
    assert (Hret : forall g, l = LLeave g -> exists o, nth_error (o_ph os) g = Some (ODone o)).
    { intros g ->. destruct (nth_error (o_ph os) g) as [[]|]; try discriminate. eauto. }
    destruct (match l with LLeave g => _ | _ => true end); [|discriminate].
    destruct (step (o_lock os) l) as [st'|]; [|discriminate]. injection H as <-. eauto.
  Qed.

  Lemma ostep_OLook os g os' : ostep os (OLook g) = Some os' ->
    exists r s1 f c b,
      nth_error (o_ph os) g = Some OIdle /\ nth_error reqs g = Some r /\
      (locked = true -> plain_on k r -> holds_key (o_lock os) g k = true) /\
      start_lookup (rq_prepare (set_evs (o_st os) []) r) (rq_request (jar_of (o_jars os) (rq_client r)) r)
        = (s1, f, c, b) /\
      os' = mkO (o_lock os) s1 s1 (o_jars os)
              (upd g (OMid (set_evs (o_st os) []) (jar_of (o_jars os) (rq_client r)) f c b
                        (rest_prog (conf (set_evs (o_st os) [])) (rq_request (jar_of (o_jars os) (rq_client r)) r) f c b))
                   (o_ph os)) (o_acts os).
  Proof.
    cbn [StartConcOps.ostep]. intro H.
    destruct (nth_error (o_ph os) g) as [[]|]; try discriminate.
    destruct (nth_error reqs g) as [r|]; [|discriminate]. cbv zeta in H.
    destruct (negb locked || _) eqn:Eg; [|discriminate].
    destruct (start_lookup _ _) as [[[s1 f] c] b] eqn:El. injection H as <-.
    exists r, s1, f, c, b. repeat split; auto.
    intros -> Hpl. rewrite (plain_lock_key k r _ Hpl) in Eg. exact Eg.
  Qed.

  Lemma ostep_OStep os g os' : ostep os (OStep g) = Some os' ->
    exists s0 jar f c b kf s' p',
      nth_error (o_ph os) g = Some (OMid s0 jar f c b (Op kf)) /\ kf (o_st os) = (s', p') /\
      os' = mkO (o_lock os) s' (o_snap os) (o_jars os) (upd g (OMid s0 jar f c b p') (o_ph os)) (o_acts os).
  Proof.
    cbn [StartConcOps.ostep]. intro H.
    destruct (nth_error (o_ph os) g) as [[|s0 jar f c b [a|kf]|]|]; try discriminate.
    destruct (kf (o_st os)) as [s' p'] eqn:E. injection H as <-.
    exists s0, jar, f, c, b, kf, s', p'. auto.
  Qed.

  Lemma ostep_OFin os g os' : ostep os (OFin g) = Some os' ->
    exists s0 jar f c b res cks' r w' o,
      nth_error (o_ph os) g = Some (OMid s0 jar f c b (Done (res, cks'))) /\ nth_error reqs g = Some r /\
      req_finish s0 jar (o_jars os) r (rq_request jar r) (o_st os, res, cks') = (w', o) /\
      os' = mkO (o_lock os) (w_st w') (w_st w') (w_jars w') (upd g (ODone o) (o_ph os)) (AReq g :: o_acts os).
  Proof.
    cbn [StartConcOps.ostep]. intro H.
    destruct (nth_error (o_ph os) g) as [[|s0 jar f c b [[res cks']|kf]|]|]; try discriminate.
    destruct (nth_error reqs g) as [r|]; [|discriminate].
    destruct (req_finish _ _ _ _ _ _) as [w' o] eqn:Ef. injection H as <-.
    exists s0, jar, f, c, b, res, cks', r, w', o. auto.
  Qed.

  Lemma ostep_OTick os d os' : ostep os (OTick d) = Some os' ->
    existsb o_is_mid (o_ph os) = false /\
    os' = mkO (o_lock os) (w_st (fst (Hist.step (mkWorld (o_st os) (o_jars os)) (HWait d))))
              (w_st (fst (Hist.step (mkWorld (o_st os) (o_jars os)) (HWait d))))
              (w_jars (fst (Hist.step (mkWorld (o_st os) (o_jars os)) (HWait d)))) (o_ph os) (ATick d :: o_acts os).
  Proof.
    cbn [StartConcOps.ostep]. intro H. destruct (existsb o_is_mid (o_ph os)); [discriminate|].
    injection H as <-. auto.
  Qed.
End Steps.

(* ---------------------------------------------------------- the simulation *)

Section Sim.
  Variables (kk : nat) (reqs : list reqstep) (w0 : world).

  Definition ocur (os : ostate) : Prop :=
    (existsb o_is_mid (o_ph os) = false -> o_st os = o_snap os) /\
    forall g s0 jar f c b p r,
      nth_error (o_ph os) g = Some (OMid s0 jar f c b p) -> nth_error reqs g = Some r ->
      run p (o_st os) =
      let '(s', rs, ck) := start_rest (conf s0) (o_snap os) (rq_request jar r) f c b in (s', (rs, ck)).

  Definition OI (os : ostate) : Prop := CI kk reqs w0 (oabs os) /\ ocur os.
  Definition OI0 (os : ostate) : Prop := CI0 kk reqs w0 (oabs os) /\ o_st os = o_snap os.

  Lemma oi0_oi os : OI0 os -> OI os.
  Proof.
    intros [H0 Hs]. split; [apply ci0_ci; exact H0|]. split; [intros _; exact Hs|].
    destruct H0 as (_ & _ & Hid & _). intros g s0 jar f c b p r Hg _. exfalso.
    rewrite Forall_forall in Hid.
    assert (Hin : In (oabs_phase (OMid s0 jar f c b p)) (c_ph (oabs os))).
    { cbn [oabs c_ph]. apply in_map. eapply nth_error_In; exact Hg. }
    specialize (Hid _ Hin). discriminate.
  Qed.

  Lemma omid_abs os g s0 jar f c b p : nth_error (o_ph os) g = Some (OMid s0 jar f c b p) ->
    nth_error (c_ph (oabs os)) g = Some (PLooked s0 jar f c b).
  Proof. intro Hg. rewrite oabs_nth, Hg. reflexivity. Qed.

  Lemma omid_unique os g1 g2 s0 jar f c b p s0' jar' f' c' b' p' : CI kk reqs w0 (oabs os) ->
    nth_error (o_ph os) g1 = Some (OMid s0 jar f c b p) ->
    nth_error (o_ph os) g2 = Some (OMid s0' jar' f' c' b' p') -> g1 = g2.
  Proof.
    intros (HI & HP & _) H1 H2.
    apply (looked_unique kk reqs (oabs os) g1 g2 _ _ _ _ _ HI HP (omid_abs _ _ _ _ _ _ _ _ H1)).
    eapply looked_holds; [exact HP | exact (omid_abs _ _ _ _ _ _ _ _ H2)].
  Qed.

  Theorem ostep_sim os lab os' :
    OI os -> ostep true reqs os lab = Some os' -> oadm os lab ->
    OI os' /\ crun true reqs (oabs os) (oabs_label lab) = Some (oabs os') /\
    cadm_run true reqs (oabs os) (oabs_label lab).
  Proof.
    intros (HC & Hsn & Hcur) Hs Ha.
    assert (Hnon : forall cl, oabs_label lab = [cl] -> cstep true reqs (oabs os) cl = Some (oabs os') -> cadm (oabs os) cl ->
              ocur os' ->
              OI os' /\ crun true reqs (oabs os) (oabs_label lab) = Some (oabs os') /\
              cadm_run true reqs (oabs os) (oabs_label lab)).
    { intros cl -> Hc Hca Hcu. split; [split; [exact (ci_step _ _ _ _ _ _ HC Hc Hca) | exact Hcu]|].
      cbn [crun cadm_run]. rewrite Hc. auto. }
    destruct lab as [l|g|g|g|d].
    - (* the lock protocol *)
      destruct (ostep_OL _ _ _ _ _ Hs) as (st' & Hl & -> & Hret).
      apply (Hnon (CL l) eq_refl); [|exact Ha|].
      + unfold oabs. cbn [cstep c_lock c_ph c_st c_jars c_acts o_lock o_st o_snap o_jars o_ph o_acts]. rewrite Hl.
        destruct l; try reflexivity. destruct (Hret g eq_refl) as [o Ho].
        rewrite nth_error_map, Ho. reflexivity.
      + split; [exact Hsn | exact Hcur].
    - (* look-up *)
      destruct (ostep_OLook _ kk _ _ _ _ Hs) as (r & s1 & f & c & b & Hp & Hr & Hh & El & Eos).
      pose proof HC as (HI & HP & _).
      assert (Hpl : plain_on kk r) by (exact (PC_plain _ _ _ _ _ HP Hr)).
      specialize (Hh eq_refl Hpl).
      assert (Hnone : existsb o_is_mid (o_ph os) = false).
      { rewrite <- olooked_mid. apply (none_looked kk reqs (oabs os) g HI HP Hh).
        cbn [oabs c_ph]. erewrite nth_error_nth; [|rewrite nth_error_map, Hp; reflexivity]. reflexivity. }
      pose proof (Hsn Hnone) as Est.
      assert (Hc : cstep true reqs (oabs os) (CLook g) = Some (oabs os')).
      { rewrite Eos. unfold oabs. cbn [cstep c_lock c_ph c_st c_jars c_acts o_lock o_st o_snap o_jars o_ph o_acts].
        rewrite nth_error_map, Hp, Hr. cbn [option_map oabs_phase]. cbv zeta.
        rewrite (plain_lock_key kk r _ Hpl), Hh. cbn [negb orb]. rewrite <- Est, El. rewrite map_upd. reflexivity. }
      apply (Hnon (CLook g) eq_refl Hc Logic.I).
      assert (Hgg : nth_error (o_ph os') g =
                Some (OMid (set_evs (o_st os) []) (jar_of (o_jars os) (rq_client r)) f c b
                        (rest_prog (conf (set_evs (o_st os) [])) (rq_request (jar_of (o_jars os) (rq_client r)) r) f c b))).
      { rewrite Eos. cbn [o_ph]. rewrite (nth_error_upd _ _ _ _ _ Hp), Nat.eqb_refl. reflexivity. }
      split.
      + intro T. exfalso. assert (T' : existsb o_is_mid (o_ph os') = true) by (eapply existsb_nth; [exact Hgg | reflexivity]).
        congruence.
      + pose proof (ci_step _ _ _ _ _ _ HC Hc Logic.I) as HC'.
        intros g' s0 jar f' c' b' p r' Hg' Hr'.
        pose proof (omid_unique os' g g' _ _ _ _ _ _ _ _ _ _ _ _ HC' Hgg Hg') as <-.
        rewrite Hgg in Hg'. injection Hg' as <- <- <- <- <- <-. rewrite Hr in Hr'. injection Hr' as <-.
        rewrite Eos. cbn [o_st o_snap]. apply run_rest_prog.
    - (* one node of the program: the abstraction does not move *)
      destruct (ostep_OStep _ _ _ _ _ Hs) as (s0 & jar & f & c & b & kf & s' & p' & Hp & Ek & Eos).
      assert (Eabs : oabs os' = oabs os).
      { rewrite Eos. unfold oabs. cbn [o_lock o_st o_snap o_jars o_ph o_acts]. rewrite map_upd. cbn [oabs_phase].
        rewrite upd_same; [reflexivity|]. rewrite nth_error_map, Hp. reflexivity. }
      split; [|cbn [oabs_label crun cadm_run]; rewrite Eabs; auto].
      split; [rewrite Eabs; exact HC|].
      assert (Hgg : nth_error (o_ph os') g = Some (OMid s0 jar f c b p')).
      { rewrite Eos. cbn [o_ph]. rewrite (nth_error_upd _ _ _ _ _ Hp), Nat.eqb_refl. reflexivity. }
      split.
      + intro T. exfalso. assert (T' : existsb o_is_mid (o_ph os') = true) by (eapply existsb_nth; [exact Hgg | reflexivity]).
        congruence.
      + assert (HC' : CI kk reqs w0 (oabs os')) by (rewrite Eabs; exact HC).
        intros g' s0' jar' f' c' b' p r' Hg' Hr'.
        pose proof (omid_unique os' g g' _ _ _ _ _ _ _ _ _ _ _ _ HC' Hgg Hg') as <-.
        rewrite Hgg in Hg'. injection Hg' as <- <- <- <- <- <-.
        pose proof (Hcur g s0 jar f c b (Op kf) r' Hp Hr') as E. cbn [run] in E. rewrite Ek in E.
        rewrite Eos. cbn [o_st o_snap]. exact E.
    - (* the end of the program: the coarse rest *)
      destruct (ostep_OFin _ _ _ _ _ Hs) as (s0 & jar & f & c & b & res & cks' & r & w' & o & Hp & Hr & Ef & Eos).
      pose proof (Hcur g s0 jar f c b _ r Hp Hr) as E. cbn [run] in E.
      assert (Hc : cstep true reqs (oabs os) (CRest g) = Some (oabs os')).
      { rewrite Eos. unfold oabs. cbn [cstep c_lock c_ph c_st c_jars c_acts o_lock o_st o_snap o_jars o_ph o_acts].
        rewrite nth_error_map, Hp, Hr. cbn [option_map oabs_phase]. cbv zeta.
        destruct (start_rest (conf s0) (o_snap os) (rq_request jar r) f c b) as [[s2 rs] ck].
        injection E as <- <- <-. rewrite Ef. rewrite map_upd. reflexivity. }
      apply (Hnon (CRest g) eq_refl Hc Logic.I).
      split; [intros _; rewrite Eos; reflexivity|].
      intros g' s0' jar' f' c' b' p r' Hg' Hr'. exfalso.
      rewrite Eos in Hg'. cbn [o_ph] in Hg'. rewrite (nth_error_upd _ _ _ _ _ Hp) in Hg'.
      destruct (Nat.eqb g g') eqn:Eg; [discriminate|]. apply Nat.eqb_neq in Eg. apply Eg.
      exact (omid_unique os g g' _ _ _ _ _ _ _ _ _ _ _ _ HC Hp Hg').
    - (* the clock *)
      destruct (ostep_OTick _ _ _ _ _ Hs) as (Hnone & Eos).
      pose proof (Hsn Hnone) as Est.
      assert (Hc : cstep true reqs (oabs os) (CTick d) = Some (oabs os')).
      { rewrite Eos. unfold oabs. cbn [cstep c_lock c_ph c_st c_jars c_acts o_lock o_st o_snap o_jars o_ph o_acts].
        rewrite olooked_mid, Hnone, <- Est. reflexivity. }
      apply (Hnon (CTick d) eq_refl Hc Logic.I).
      split; [intros _; rewrite Eos; reflexivity|].
      intros g s0 jar f c b p r Hg _. exfalso. rewrite Eos in Hg. cbn [o_ph] in Hg.
      assert (T : existsb o_is_mid (o_ph os) = true) by (eapply existsb_nth; [exact Hg | reflexivity]). congruence.
  Qed.

  Theorem orun_sim : forall ls os os',
    OI os -> orun true reqs os ls = Some os' -> oadm_run true reqs os ls ->
    OI os' /\ crun true reqs (oabs os) (oabs_run ls) = Some (oabs os') /\
    cadm_run true reqs (oabs os) (oabs_run ls).
  Proof.
    induction ls as [|l ls IH]; intros os os' HF Hr Ha; cbn [orun oadm_run] in *.
    - injection Hr as <-. cbn. auto.
    - destruct (ostep true reqs os l) as [os1|] eqn:E; [|discriminate]. destruct Ha as [A1 A2].
      destruct (ostep_sim os l os1 HF E A1) as (HF1 & R1 & C1).
      destruct (IH _ _ HF1 Hr A2) as (HF' & R2 & C2).
      split; [exact HF'|]. unfold oabs_run. cbn [flat_map].
      split; [exact (crun_join reqs _ _ _ _ _ R1 R2) | exact (cadm_run_join reqs _ _ _ _ R1 C1 C2)].
  Qed.
End Sim.

Lemma oabs_oinit k reqs w purges : oabs (oinit k reqs w purges) = cinit k reqs w purges.
Proof. unfold oabs, oinit, cinit. cbn [o_lock o_snap o_jars o_ph o_acts]. rewrite map_map. reflexivity. Qed.

Lemma oinit_oi0 k reqs w purges : Forall (plain_on k) reqs -> OI0 k reqs w (oinit k reqs w purges).
Proof. intro H. split; [rewrite oabs_oinit; apply cinit_ci0; exact H | reflexivity]. Qed.
