(* C03 at the history level, part 5: one accepted request of the client that
   holds an ID (own_request), built from PC's and PD's per-call theorems
   (plain accepted request: live_touch, start_keep; rotation: start_rotate,
   regenerate_C04, login_C04) and the generic invariant for everything else
   in the step (clean-ups, the other handler operations).

     OwnH j s o   the handler's object o is a session (not a replaced-ID
                  record) accessed now, its ID is present, resolves to a
                  session whose access time (through the codec) is now, and
                  is not awaiting a clean-up. *)
From Sessions Require Import Model.Base Model.Sess Model.Hist Proofs.SessDefs
  Proofs.HistInv Proofs.HistInv2 Proofs.HistInv3
  Proofs.LiveHist Proofs.LiveHist2 Proofs.LiveHist3 Proofs.LiveHist4.
From Sessions Require Proofs.StartLaws Proofs.StartLaws2 Proofs.StartLaws4 Proofs.RotateLaws5
  Proofs.RotateLaws2 Proofs.RotateLaws3 Proofs.RotateLaws6 Proofs.DeadLaws.
From Coq Require Import Lia ZifyBool.

(* ---------------------------------------- frames from the trivial instance *)

Definition PT : key -> rec -> Prop := fun _ _ => True.

Lemma CL_T c t n : CL PT KE c t n.
Proof. constructor; unfold PT, KE; intros; try exact Logic.I; tauto. Qed.

Lemma G_T s : G PT KE s.
Proof. constructor; unfold PT, KE; intros; try exact Logic.I; tauto. Qed.

Lemma HPf_T b D s o nk : hok b D s o -> HPf PT KE nk s o.
Proof. intros [_ [ob [Ho _]]]. exists ob. split; [exact Ho|]. split; [exact Logic.I | intros _ []]. Qed.

Lemma start_fr b base D s q s' res cks : inv b base NX D s -> start s q = (s', res, cks) -> fr s s'.
Proof.
  intros I E. assert (Hq : forall k, q_cookie q = CKey k -> ~ KE k) by (intros k _ []).
  destruct (start_Step PT KE b base D s q s' res cks I (G_T s) (CL_T _ _ _) Hq E) as [S _]. apply S.
Qed.

Lemma do_sop_fr b base D s o hc op : inv b base NX D s -> hok b D s o -> fr s (fst (fst (do_sop s o hc op))).
Proof.
  intros I H. apply (do_sop_Step PT KE _ _ _ _ _ hc op I H (G_T s) (CL_T _ _ _)). eapply HPf_T. exact H.
Qed.

(* ------------------------------------- handler operations and the handle's ID *)

Lemma do_sop_ids b base D s o hc op : inv b base NX D s -> hok b D s o -> destr op = false ->
  ids_pres s (fst (fst (do_sop s o hc op))) /\ snd (do_sop s o hc op) = [].
Proof.
  intros I H Hd. pose proof H as [Hbo [ob [Ho HnD]]].
  destruct op as [k v|k|k|k|u ex| | |]; try discriminate; cbn [do_sop].
  - unfold data_of. rewrite Ho. destruct (r_data (o_rec ob)) as [d|]; [|split; [apply ids_pres_refl | reflexivity]].
    destruct (inv_hupd_hok _ _ _ _ o (fun r => set_data r (Some (kv_set d k v))) I H) as [I1 H1]; [reflexivity|].
    destruct (save_direct_inv _ _ _ _ _ I1 H1) as (s' & E & _ & Hh). rewrite E. cbn [fst snd].
    split; [|reflexivity]. eapply ids_pres_trans; [apply ids_pres_hupd | apply ids_pres_heap; exact Hh].
  - unfold data_of. rewrite Ho.
    assert (Hx : exists s1, (match r_data (o_rec ob) with
                             | Some d => hupd s o (fun r => set_data r (Some (kv_del d k)))
                             | None => s end) = s1 /\ inv b base NX D s1 /\ hok b D s1 o /\ ids_pres s s1).
    { destruct (r_data (o_rec ob)) as [d|].
      - destruct (inv_hupd_hok _ _ _ _ o (fun r => set_data r (Some (kv_del d k))) I H) as [I1 H1]; [reflexivity|].
        eexists. split; [reflexivity|]. split; [exact I1|]. split; [exact H1 | apply ids_pres_hupd].
      - exists s. split; [reflexivity|]. split; [exact I|]. split; [exact H | apply ids_pres_refl]. }
    destruct Hx as (s1 & -> & I1 & H1 & Hi).
    destruct (save_direct_inv _ _ _ _ _ I1 H1) as (s' & E & _ & Hh). rewrite E. cbn [fst snd].
    split; [|reflexivity]. eapply ids_pres_trans; [exact Hi | apply ids_pres_heap; exact Hh].
  - split; [apply ids_pres_refl | reflexivity].
  - unfold data_of. rewrite Ho. destruct (r_data (o_rec ob)) as [d|]; [|split; [apply ids_pres_refl | reflexivity]].
    destruct (kv_get d k); [|split; [apply ids_pres_refl | reflexivity]].
    destruct (inv_hupd_hok _ _ _ _ o (fun r => set_data r (Some (kv_del d k))) I H) as [I1 H1]; [reflexivity|].
    destruct (save_direct_inv _ _ _ _ _ I1 H1) as (s' & E & _ & Hh). rewrite E. cbn [fst snd].
    split; [|reflexivity]. eapply ids_pres_trans; [apply ids_pres_hupd | apply ids_pres_heap; exact Hh].
  - destruct (logout_inv _ _ _ _ _ I H) as (s' & E & _ & Hi). rewrite E. cbn [fst snd]. split; [exact Hi | reflexivity].
Qed.

(* --------------------------------------------------------- taking an ID *)

Lemma G_adopt j s k a : cache_valid s ->
  (exists r, L s k = Some r /\ r_ref r = None /\ (a <= fl j (r_access r))%Z) ->
  (forall d k', In (d, k') (pending s) -> k' <> k) ->
  G (Pk true j k a) (Kk true k) s.
Proof.
  intros Hv (r & HL & Hr & Ha) Hp. apply G_of_L; [exact Hv | | |].
  - intros k' r' HL' ->. rewrite HL in HL'. injection HL' as <-. split; [intros _; exact Hr | exact Ha].
  - intros k' [_ ->]. congruence.
  - intros d k' Hin [_ ->]. exact (Hp d k Hin eq_refl).
Qed.

Lemma fresh_pending_ne s d k : fresh_ok s -> In (d, k) (pending s) -> k <> KGen (supply s).
Proof. intros (_ & _ & _ & Hp) Hin E. subst k. apply Hp in Hin. simpl in Hin. lia. Qed.

Lemma not_stale c r t a j :
  (a <= fl j (r_access r))%Z -> (a <= fl j t)%Z -> (t - a < c_expiry c)%Z ->
  (c_expiry c <=? since (r_access r) t)%Z = false.
Proof.
  intros H1 H2 H3. pose proof (fl_le j (r_access r)). pose proof (fl_le j t).
  unfold since, clamp64, min64, max64.
  destruct (t - r_access r <? -9223372036854775808)%Z eqn:E1; [lia|].
  destruct (9223372036854775807 <? t - r_access r)%Z eqn:E2; lia.
Qed.

(* The client's accepted request, the Start part: the presented ID k is
   present, a session, accessed recently enough, peer and agent acceptable.
   Start returns the session — under k, or under a fresh ID when a rotation is
   due — and that ID is then present, a session with access time now, not
   awaiting a clean-up. Cache enabled (any size but 0). *)
Lemma own_start j base s q k a :
  inv 0 base NX ND s -> c_json (conf s) = j -> q_cookie q = CKey k ->
  G (Pk true j k a) (Kk true k) s ->
  c_maxcache (conf s) <> 0%Z -> (0 <= c_grace (conf s))%Z -> (c_idexpiry (conf s) <= max64)%Z ->
  (now s - a < c_expiry (conf s))%Z -> (a <= fl j (now s))%Z ->
  (forall r0, L s k = Some r0 ->
     ip_ok (c_acceptip (conf s)) (r_ip r0) (q_addr q) = true /\ ua_ok (c_acceptua (conf s)) (r_ua r0) (q_ua q) = true) ->
  exists s2 o ck ob2,
    start s q = (s2, Ok (Some o), ck) /\ hget s2 o = Some ob2 /\
    r_ref (o_rec ob2) = None /\ r_access (o_rec ob2) = now s /\
    apply_cookies (CKey k) ck = CKey (o_id ob2) /\
    G (Pk true j (o_id ob2) (fl j (now s))) (Kk true (o_id ob2)) s2.
Proof.
  intros I Hj Hq HG Hmx Hgr Hid Hgap Ha Hacc.
  destruct (inv_sess_inv _ _ I) as (Hp & Hc & Hn & Hf).
  assert (Hv : cache_valid s) by (eapply inv_cache_valid; exact I).
  destruct (L s k) as [r0|] eqn:HL; [|exfalso; apply (G_present _ _ _ _ Hv HG (conj eq_refl eq_refl)); exact HL].
  destruct (G_L HG HL eq_refl) as [Hr Hlb]. specialize (Hr eq_refl).
  destruct (Hacc r0 eq_refl) as [Hip Hua].
  assert (Hst : (c_expiry (conf s) <=? since (r_access r0) (now s))%Z = false) by exact (not_stale _ _ _ _ _ Hlb Ha Hgap).
  assert (Hval : StartLaws.start_valid (conf s) r0 q (now s) = true).
  { unfold StartLaws.start_valid. rewrite Hst, Hip, Hua. reflexivity. }
  assert (Hkd : key_drawn s k) by (eapply StartLaws2.present_drawn; eassumption).
  destruct (start_inv _ _ _ _ q I) as (s2' & res' & cks' & Est & I2 & _).
  assert (Hv2 : cache_valid s2') by (eapply inv_cache_valid; exact I2).
  destruct (c_idexpiry (conf s) <=? since (r_created r0) (now s))%Z eqn:Hrot.
  - (* rotation *)
    pose proof (RotateLaws3.start_rotate s q k r0 Hp Hc Hn Hf Hq HL Hr Hval) as H. cbv zeta in H.
    destruct H as (s2 & o & Hs & _ & _ & Hget & HLj & _ & _ & _ & Hpend); [lia|].
    rewrite Hs in Est. injection Est as <- <- <-.
    eexists s2, o, _, _. split; [exact Hs|]. split; [exact Hget|]. cbn [o_rec o_id].
    split; [exact Hr|]. split; [reflexivity|]. split; [reflexivity|].
    apply G_adopt; [exact Hv2 | |].
    + eexists. split; [exact HLj|]. destruct (RotateLaws2.cached s2 (KGen (supply s))).
      * split; [exact Hr | cbn; lia].
      * split; [exact Hr|]. rewrite codec_access_fl, Hj. cbn. rewrite fl_idem. lia.
    + intros d k' Hin. rewrite Hpend in Hin. apply in_app_iff in Hin. destruct Hin as [Hin|[Hin|[]]].
      * eapply fresh_pending_ne; eassumption.
      * injection Hin as _ <-. intro E. subst k. simpl in Hkd. lia.
  - (* no rotation *)
    assert (Hback : (sat_add (c_idexpiry (conf s)) (c_grace (conf s)) <=? since (r_created r0) (now s))%Z = false).
    { apply StartLaws.backstop_not_before_rotation; auto. apply StartLaws.since_le_max. }
    destruct (StartLaws4.live_touch s q k r0 Hp Hc Hn Hq HL Hr Hval Hrot Hback)
      as (s2 & o & Hs & Hget & Hcached & _ & _ & _ & _ & _).
    destruct (RotateLaws3.start_keep s q k r0 Hp Hc Hn Hf (conj Hgr Hid) Hq HL Hr Hval)
      as (s2k & ok & Hsk & _ & _ & _ & _ & Hpend); [lia|].
    rewrite Hs in Hsk. injection Hsk as <- <-.
    rewrite Hs in Est. injection Est as <- <- <-.
    destruct (Hcached (or_intror Hmx)) as [_ HL2].
    eexists s2, o, _, _. split; [exact Hs|]. split; [exact Hget|]. cbn [o_rec o_id].
    split; [exact Hr|]. split; [reflexivity|]. split; [reflexivity|].
    apply G_adopt; [exact Hv2 | |].
    + eexists. split; [exact HL2|]. split; [exact Hr | cbn; lia].
    + intros d k' Hin E. rewrite Hpend in Hin. subst k'. apply (g_p _ _ _ HG d k Hin). split; reflexivity.
Qed.

(* ------------------------------------------------------------ the script *)

Definition OwnH (j : bool) (s : st) (o : nat) : Prop :=
  exists ob, hget s o = Some ob /\ r_ref (o_rec ob) = None /\
             (fl j (now s) <= fl j (r_access (o_rec ob)))%Z /\
             G (Pk true j (o_id ob) (fl j (now s))) (Kk true (o_id ob)) s.

Definition is_destroy (op : sop) : bool := match op with SDestroy => true | _ => false end.

Lemma OwnH_fire_due j base s o : inv 0 base NX ND s -> OwnH j s o -> OwnH j (fire_due s) o.
Proof.
  intros I (ob & Ho & Hr & Ha & HG).
  destruct (fire_due_Step _ _ _ _ _ _ I HG) as (G1 & _ & _ & F2 & _).
  exists ob. split; [unfold hget; rewrite (heap_fire_due _ _ _ _ I); exact Ho|]. rewrite F2.
  split; [exact Hr|]. split; [exact Ha | exact G1].
Qed.

(* one handler operation other than Destroy, followed by the due clean-ups *)
Lemma own_sop j base s o hc op :
  inv 0 base NX ND s -> hok 0 ND s o -> c_json (conf s) = j -> OwnH j s o -> is_destroy op = false ->
  exists s1 r cks ob ob1,
    do_sop s o hc op = (s1, r, cks) /\ hget s o = Some ob /\ hget s1 o = Some ob1 /\
    apply_cookies (CKey (o_id ob)) cks = CKey (o_id ob1) /\
    inv 0 base NX ND s1 /\ hok 0 ND s1 o /\ fr s s1 /\ OwnH j s1 o.
Proof.
  intros I H Hj (ob & Ho & Hr & Ha & HG) Hnd.
  destruct (inv_sess_inv _ _ I) as (Hp & Hc & Hn & Hf).
  destruct (do_sop_inv _ _ _ _ _ hc op I H) as (s1 & r & cks & E & I1 & H1 & _).
  pose proof (do_sop_fr _ _ _ _ _ hc op I H) as F. rewrite E in F. cbn [fst] in F.
  pose proof F as (F1 & F2 & F3).
  assert (Hv1 : cache_valid s1) by (eapply inv_cache_valid; exact I1).
  assert (Hanow : (fl j (now s) <= fl j (now s))%Z) by lia.
  destruct (destr op) eqn:Hd.
  - (* RegenerateID or LogIn: PD's post-conditions *)
    destruct op as [k v|k|k|k|u ex| | |]; try discriminate.
    + pose proof (RotateLaws6.login_C04 s o ob u ex Hp Hc Hn Hf Ho) as HC. cbv zeta in HC.
      destruct HC as (s' & r' & Hs & _ & Hget & _ & _ & Href & _ & Hacc & _ & _ & HLj & _ & Hpend).
      cbn [do_sop] in E. rewrite Hs in E. injection E as <- <- <-.
      exists s', SOk, [CkLive (KGen (supply s))], ob, (mkObj (KGen (supply s)) r').
      split; [cbn [do_sop]; rewrite Hs; reflexivity|]. split; [exact Ho|]. split; [exact Hget|]. split; [reflexivity|].
      split; [exact I1|]. split; [exact H1|]. split; [exact F|].
      exists (mkObj (KGen (supply s)) r'). split; [exact Hget|]. cbn [o_rec o_id].
      split; [congruence|]. rewrite F2, Hacc. split; [lia|].
      apply G_adopt; [exact Hv1 | |].
      * eexists. split; [exact HLj|]. destruct (RotateLaws2.cached s' (KGen (supply s))).
        -- split; [congruence | rewrite Hacc; lia].
        -- split; [cbn; congruence|]. rewrite codec_access_fl, Hj, Hacc, fl_idem. lia.
      * intros d k' Hin. rewrite Hpend in Hin. apply in_app_iff in Hin. destruct Hin as [Hin|[Hin|[]]].
        -- eapply fresh_pending_ne; eassumption.
        -- injection Hin as _ <-. intro E. destruct Hf as (_ & _ & Hfh & _). destruct (Hfh o ob Ho) as [Hk _].
           rewrite E in Hk. simpl in Hk. lia.
    + pose proof (RotateLaws2.regenerate_C04 s o ob Hp Hc Hn Hf Ho) as HC. cbv zeta in HC.
      destruct HC as (s' & Hs & _ & _ & Hget & HLj & _ & _ & _ & Hpend).
      cbn [do_sop] in E. rewrite Hs in E. injection E as <- <- <-.
      exists s', SOk, [CkLive (KGen (supply s))], ob, (mkObj (KGen (supply s)) (RotateLaws2.rot_rec (o_rec ob) (now s))).
      split; [cbn [do_sop]; rewrite Hs; reflexivity|]. split; [exact Ho|]. split; [exact Hget|]. split; [reflexivity|].
      split; [exact I1|]. split; [exact H1|]. split; [exact F|].
      eexists. split; [exact Hget|]. cbn [o_rec o_id].
      split; [exact Hr|]. rewrite F2. split; [cbn; lia|].
      apply G_adopt; [exact Hv1 | |].
      * eexists. split; [exact HLj|]. destruct (RotateLaws2.cached s' (KGen (supply s))).
        -- split; [exact Hr | cbn; lia].
        -- split; [exact Hr|]. rewrite codec_access_fl, Hj. cbn. rewrite fl_idem. lia.
      * intros d k' Hin. rewrite Hpend in Hin. apply in_app_iff in Hin. destruct Hin as [Hin|[Hin|[]]].
        -- eapply fresh_pending_ne; eassumption.
        -- injection Hin as _ <-. intro E. destruct Hf as (_ & _ & Hfh & _). destruct (Hfh o ob Ho) as [Hk _].
           rewrite E in Hk. simpl in Hk. lia.
  - (* the other operations keep the ID *)
    destruct (do_sop_ids _ _ _ _ _ hc op I H Hd) as [Hi Hck]. rewrite E in Hi, Hck. cbn [fst snd] in Hi, Hck. subst cks.
    assert (C : CLs (Pk true j (o_id ob) (fl j (now s))) (Kk true (o_id ob)) s).
    { apply CL_k; [exact Hj | lia |]. destruct Hf as (_ & _ & Hfh & _). apply (Hfh o ob Ho). }
    assert (HP : HPf (Pk true j (o_id ob) (fl j (now s))) (Kk true (o_id ob)) (destr op) s o).
    { rewrite Hd. exists ob. split; [exact Ho|]. split; [|discriminate]. intros _. split; [intros _; exact Hr | exact Ha]. }
    pose proof (do_sop_Step _ _ _ _ _ _ _ hc op I H HG C HP) as S. rewrite E in S. cbn [fst] in S.
    destruct S as (G1 & Hhp & _). destruct (Hhp _ _ HP) as (ob1 & Ho1 & HP1 & _).
    destruct (Hi o ob Ho) as (ob1' & Ho1' & Hid). rewrite Ho1 in Ho1'. injection Ho1' as <-.
    rewrite Hid in HP1. destruct (HP1 eq_refl) as [Hr1 Ha1]. specialize (Hr1 eq_refl).
    exists s1, r, [], ob, ob1. split; [exact E|]. split; [exact Ho|]. split; [exact Ho1|].
    split; [cbn; congruence|]. split; [exact I1|]. split; [exact H1|]. split; [exact F|].
    exists ob1. split; [exact Ho1|]. split; [exact Hr1|]. rewrite F2, Hid. split; assumption.
Qed.

Lemma own_script j base hc : forall ops s o,
  inv 0 base NX ND s -> hok 0 ND s o -> c_json (conf s) = j -> OwnH j s o -> existsb is_destroy ops = false ->
  forall s' rs cks, run_script s o hc ops = (s', rs, cks) ->
  exists ob ob', hget s o = Some ob /\ hget s' o = Some ob' /\
    apply_cookies (CKey (o_id ob)) cks = CKey (o_id ob') /\
    inv 0 base NX ND s' /\ fr s s' /\ OwnH j s' o.
Proof.
  induction ops as [|op t IH]; intros s o I H Hj HO Hnd s' rs cks; cbn [run_script].
  - intro E. injection E as <- <- <-. pose proof HO as (ob & Ho & _). exists ob, ob.
    split; [exact Ho|]. split; [exact Ho|]. split; [reflexivity|]. split; [exact I|]. split; [apply fr_refl | exact HO].
  - cbn [existsb] in Hnd. apply orb_false_iff in Hnd. destruct Hnd as [Hnd1 Hndt].
    destruct (own_sop j base s o hc op I H Hj HO Hnd1) as (s1 & r & ck1 & ob & ob1 & E1 & Ho & Ho1 & Hck & I1 & H1 & F1 & HO1).
    rewrite E1.
    destruct (fire_due_inv _ _ _ _ I1) as (I2 & Hh & _).
    assert (H2 : hok 0 ND (fire_due s1) o) by (eapply hok_ids; [apply ids_pres_heap; exact Hh | exact H1]).
    pose proof (OwnH_fire_due j base s1 o I1 HO1) as HO2.
    destruct (fire_due_Step PT KE _ _ _ _ I1 (G_T s1)) as (_ & _ & F2).
    assert (Ho2 : hget (fire_due s1) o = Some ob1) by (unfold hget; rewrite Hh; exact Ho1).
    assert (Hj2 : c_json (conf (fire_due s1)) = j).
    { destruct F2 as (-> & _). destruct F1 as (-> & _). exact Hj. }
    match goal with |- context [if ?c then _ else _] => destruct c end.
    + intro E. injection E as <- <- <-. exists ob, ob1. split; [exact Ho|]. split; [exact Ho2|]. split; [exact Hck|].
      split; [exact I2|]. split; [eapply fr_trans; eassumption | exact HO2].
    + destruct (run_script (fire_due s1) o hc t) as [[s3 rs3] ck3] eqn:E3.
      destruct (IH (fire_due s1) o I2 H2 Hj2 HO2 Hndt _ _ _ E3) as (ob2 & ob3 & Ho2' & Ho3 & Hck3 & I3 & F3 & HO3).
      rewrite Ho2 in Ho2'. injection Ho2' as <-.
      intro E. injection E as <- <- <-. exists ob, ob3. split; [exact Ho|]. split; [exact Ho3|].
      split; [rewrite DeadLaws.apply_cookies_app, Hck; exact Hck3|].
      split; [exact I3|]. split; [eapply fr_trans; [exact F1|]; eapply fr_trans; eassumption | exact HO3].
Qed.

(* ------------------------------------------------------------- creation *)

(* A request without a 24-character cookie value that asks for a session: the
   session Start creates is held in the same sense. *)
Lemma own_create j base s q :
  inv 0 base NX ND s -> c_json (conf s) = j -> (forall k, q_cookie q <> CKey k) -> q_create q = true ->
  exists s2 o ck ob2,
    start s q = (s2, Ok (Some o), ck) /\ hget s2 o = Some ob2 /\
    r_ref (o_rec ob2) = None /\ r_access (o_rec ob2) = now s /\
    (forall jar, apply_cookies jar ck = CKey (o_id ob2)) /\
    G (Pk true j (o_id ob2) (fl j (now s))) (Kk true (o_id ob2)) s2.
Proof.
  intros I Hj Hq Hcr. destruct (inv_sess_inv _ _ I) as (Hp & Hc & Hn & Hf).
  assert (F : ffnd s) by (eapply inv_ffnd; exact I).
  assert (Hst : start s q = (created s q, Ok (Some (length (heap s))), [CkLive (KGen (supply s))])).
  { rewrite start_eq. destruct (q_cookie q) as [|k|n] eqn:Eq; [|exfalso; apply (Hq k); reflexivity|];
      unfold start_none; rewrite Hcr, (create_session_ff _ _ F); reflexivity. }
  destruct (created_inv _ _ _ _ q I) as [I2 _].
  assert (Hv2 : cache_valid (created s q)) by (eapply inv_cache_valid; exact I2).
  pose proof (RotateLaws5.create_ff s q Hp (proj1 Hn) (RotateLaws2.fresh_cache_none s Hf)) as HC. cbv zeta in HC.
  destruct HC as (s' & Hs' & _ & HLj & _).
  rewrite (create_session_ff _ _ F) in Hs'. injection Hs' as <-.
  exists (created s q), (length (heap s)), [CkLive (KGen (supply s))], (newobj s q).
  split; [exact Hst|]. split; [apply created_handle; exact F|]. cbn [newobj o_rec o_id r_ref r_access].
  split; [reflexivity|]. split; [reflexivity|]. split; [intro jar; reflexivity|].
  apply G_adopt; [exact Hv2 | |].
  - destruct HLj as [HL|HL]; eexists; (split; [exact HL|]); (split; [reflexivity|]).
    + cbn. lia.
    + rewrite codec_access_fl, Hj. cbn. rewrite fl_idem. lia.
  - intros d k' Hin. unfold created in Hin.
    destruct (cset_frame (fst (halloc (drawn1 s) (newobj s q))) (length (heap s)) (newobj s q) F) as (_ & Hpd & _).
    rewrite Hpd in Hin. eapply fresh_pending_ne; [exact Hf | exact Hin].
Qed.
