(* B2 (C05), parts (b) and (c), exact forms: the clean-up pass commutes with the
   bookkeeping at the end of Start; when every ID on the chain is cached the
   interrupted request ends in exactly the state of the serial order "request,
   then clean-up", event log included; the request presenting the current ID. *)
From Sessions Require Import Model.Base Model.Sess Model.Hist Model.StartSteps Proofs.SessDefs
  Proofs.RotateLaws Proofs.RotateLaws2 Proofs.RotateLaws3 Proofs.RotateLaws4 Proofs.StartSteps
  Proofs.StartSteps2 Proofs.StartSteps3 Proofs.StartSteps4.
From Sessions Require Proofs.StartLaws Proofs.StartLaws3.
From Coq Require Import Lia.

(* ------------------------------------- the clean-up pass ignores the heap *)

Lemma cache_delete_set_heap s h k :
  cache_delete (set_heap s h) k = (set_heap (fst (cache_delete s k)) h, snd (cache_delete s k)).
Proof.
  unfold cache_delete, p_delete, next_fault. cbn [plan set_heap set_cache].
  destruct (plan s) as [|[|] p]; reflexivity.
Qed.

Lemma fire_set_heap l : forall s h,
  fire (set_heap s h) l = (set_heap (fst (fire s l)) h, snd (fire s l)).
Proof.
  induction l as [|[d k] l IH]; intros s h; cbn [fire]; [reflexivity|].
  change (now (set_heap s h)) with (now s). destruct (d <=? now s)%Z.
  - rewrite cache_delete_set_heap. destruct (cache_delete s k) as [s1 ok]. cbn [fst snd]. apply IH.
  - rewrite IH. destruct (fire s l) as [s1 rest]. reflexivity.
Qed.

Lemma fire_due_set_heap s h : fire_due (set_heap s h) = set_heap (fire_due s) h.
Proof.
  unfold fire_due. change (pending (set_heap s h)) with (pending s).
  change (set_pending (set_heap s h) []) with (set_heap (set_pending s []) h).
  rewrite fire_set_heap. destruct (fire (set_pending s []) (pending s)) as [s1 rest]. reflexivity.
Qed.

Lemma cache_delete_heap_now s k :
  heap (fst (cache_delete s k)) = heap s /\ now (fst (cache_delete s k)) = now s.
Proof.
  unfold cache_delete, p_delete, next_fault. cbn [plan set_cache].
  destruct (plan s) as [|[|] p]; split; reflexivity.
Qed.

Lemma fire_heap_now l : forall s, heap (fst (fire s l)) = heap s /\ now (fst (fire s l)) = now s.
Proof.
  induction l as [|[d k] l IH]; intros s; cbn [fire]; [split; reflexivity|].
  destruct (d <=? now s)%Z.
  - destruct (cache_delete_heap_now s k) as [H1 H2]. destruct (cache_delete s k) as [s1 ok]. cbn [fst] in *.
    destruct (IH s1) as [I1 I2]. split; congruence.
  - destruct (IH s) as [I1 I2]. destruct (fire s l) as [s1 rest]. exact (conj I1 I2).
Qed.

Lemma fire_due_heap_now s : heap (fire_due s) = heap s /\ now (fire_due s) = now s.
Proof.
  unfold fire_due. destruct (fire_heap_now (pending s) (set_pending s [])) as [H1 H2].
  destruct (fire (set_pending s []) (pending s)) as [s1 rest]. exact (conj H1 H2).
Qed.

Lemma hupd_as_set_heap s o f : hupd s o f = set_heap s (heap (hupd s o f)).
Proof. unfold hupd. destruct (hget s o); [reflexivity|]. destruct s; reflexivity. Qed.

(* the bookkeeping of the accepted request, then the clean-ups = the clean-ups,
   then the bookkeeping *)
Lemma fire_due_hupd s o f : fire_due (hupd s o f) = hupd (fire_due s) o f.
Proof.
  destruct (fire_due_heap_now s) as [Hh _].
  rewrite (hupd_as_set_heap s o f), fire_due_set_heap, (hupd_as_set_heap (fire_due s) o f).
  f_equal. unfold hupd, hget, hput. rewrite Hh. destruct (nth_error (heap s) o); cbn [heap set_heap]; congruence.
Qed.

(* ------------------------------------------ (b) exact: every ID is cached *)

(* object o is the head of a chain of replaced-ID records through the IDs in
   rest, all of them cached, ending at object o' which is not such a record *)
Fixpoint cached_chain (s : st) (o : nat) (rest : list key) (o' : nat) : Prop :=
  match rest with
  | [] => exists ob, hget s o = Some ob /\ r_ref (o_rec ob) = None /\ o' = o
  | k' :: t => exists ob o1, hget s o = Some ob /\ r_ref (o_rec ob) = Some k' /\
                             lookup (cache s) k' = Some o1 /\ cached_chain s o1 t o'
  end.

Lemma cached_chain_fired s s' rest : fired s s' -> (forall k, In k rest -> notdue s k) ->
  forall o o', cached_chain s o rest o' -> cached_chain s' o rest o'.
Proof.
  intro F. induction rest as [|k' t IH]; intros Hn o o' H; cbn [cached_chain] in *.
  - destruct H as (ob & Hg & Hr & ->). exists ob. rewrite (fired_hget s s' o F). auto.
  - destruct H as (ob & o1 & Hg & Hr & Hl & Hc). exists ob, o1. rewrite (fired_hget s s' o F).
    split; [exact Hg|]. split; [exact Hr|]. split.
    + rewrite (fired_lookup_cache s s' k' F). pose proof (Hn k' (or_introl eq_refl)) as Hd.
      apply due_in_false in Hd. rewrite Hd. exact Hl.
    + apply IH; [intros k Hk; apply Hn; right; exact Hk | exact Hc].
Qed.

Lemma notdue_fired s s' k : fired s s' -> notdue s k -> notdue s' k.
Proof.
  intros F H d Hin. rewrite (fd_now _ _ F). apply H. rewrite (fd_pending _ _ F) in Hin.
  apply filter_In in Hin. exact (proj1 Hin).
Qed.

Lemma andb_window n i len :
  (n <? i) && (i <=? n + S len) = (Nat.eqb (S n) i) || ((S n <? i) && (i <=? S n + len)).
Proof.
  destruct (Nat.eqb_spec (S n) i), (Nat.ltb_spec n i), (Nat.ltb_spec (S n) i),
    (Nat.leb_spec i (n + S len)), (Nat.leb_spec i (S n + len)); try lia; reflexivity.
Qed.

(* every cache operation of the loop is a hit: nothing changes but for the
   clean-up pass, wherever it falls *)
Lemma follow_h_cached i rest : forall n fuel s o o' lk,
  length rest <= fuel -> plan s = [] ->
  (forall k, In k rest -> notdue s k) ->
  cached_chain s o rest o' ->
  follow fuel s o lk = (s, Ok (o', last rest lk)) /\
  follow_h (fire_at i) n fuel s o lk =
    (if (n <? i) && (i <=? n + length rest) then fire_due s else s, Ok (o', last rest lk)).
Proof.
  induction rest as [|k' t IH]; intros n fuel s o o' lk Hfuel Hp Hdue Hch.
  - destruct Hch as (ob & Hg & Hr & ->). cbn [length].
    replace ((n <? i) && (i <=? n + 0)) with false
      by (symmetry; destruct (Nat.ltb_spec n i), (Nat.leb_spec i (n + 0)); try lia; reflexivity).
    split; destruct fuel; cbn; rewrite Hg, Hr; reflexivity.
  - destruct Hch as (ob & o1 & Hg & Hr & Hl & Hc). destruct fuel as [|f]; [cbn in Hfuel; lia|].
    cbn [follow_h follow]. rewrite Hg, Hr, (cache_get_hit s k' o1 Hl).
    assert (Ht : forall k, In k t -> notdue s k) by (intros k Hk; apply Hdue; right; exact Hk).
    cbn [length] in *. rewrite !last_cons, andb_window.
    change (fire_at i (S n) s) with (if Nat.eqb (S n) i then fire_due s else s).
    destruct (IH (S n) f s o1 o' k') as (E1 & E2); [lia | exact Hp | exact Ht | exact Hc |].
    split; [exact E1|].
    destruct (Nat.eqb (S n) i) eqn:Ei; cbn [orb]; [|exact E2].
    apply Nat.eqb_eq in Ei. pose proof (fire_due_fired s Hp) as F.
    destruct (IH (S n) f (fire_due s) o1 o' k') as (_ & E3).
    + lia.
    + exact (fd_plan _ _ F).
    + intros k Hk. apply (notdue_fired s _ k F). apply Ht. exact Hk.
    + apply (cached_chain_fired s _ t F Ht). exact Hc.
    + rewrite E3. replace ((S n <? i) && (i <=? S n + length t)) with false; [reflexivity|].
      symmetry. apply andb_false_iff. left. apply Nat.ltb_ge. lia.
Qed.
