(* R10, C10: what a fault-free request step writes under the IDs of the handler's
   session, part 2: LogOut, LogIn, the data operations, scripts, Start, whole steps -
   dk_ok (CrashAny6.v) of each, with the DATA of the handler's object threaded
   through: after j operations of the script it is the j-th data state.

   hdat s o d       the object at heap index o carries the data map d
   op_data d op     the data after operation op on data d
   script_data d ops  the data states of a script: d, then after each operation

   step_saves_data: every save of a fault-free request step that deletes nothing,
   under an ID of S, of a session's record, writes data that is allowed - when the
   states of the script from the data of the session Start returned are allowed and
   every cached object / stored record of the pre-state satisfies KC.

   No axioms; standard library only. *)
From Sessions Require Import Model.Base Model.Sess Model.Hist Proofs.SessDefs
  Proofs.HistInv Proofs.HistInv2 Proofs.HistInv3 Proofs.HistLift Proofs.HistLift2 Proofs.HistLift3
  Proofs.HistLift4 Proofs.HistLiftB Proofs.LineageB Proofs.LineageK Proofs.LineageK3 Proofs.LineageF
  Proofs.CrashAny Proofs.CrashAny6.
From Sessions Require Proofs.CrashFault Proofs.CrashFault2 Proofs.CrashFault3 Proofs.CrashFault4
  Proofs.CrashFault9 Proofs.CrashFault13 Proofs.CrashFault14.
From Coq Require Import Lia.

Definition hdat (s : st) (o : nat) (d : list (N * N)) : Prop :=
  exists ob, hget s o = Some ob /\ r_data (o_rec ob) = Some d.

Definition op_data (d : list (N * N)) (op : sop) : list (N * N) :=
  match op with
  | SSet k v => kv_set d k v
  | SDel k => kv_del d k
  | SGetDel k => match kv_get d k with Some _ => kv_del d k | None => d end
  | _ => d
  end.

Fixpoint script_data (d : list (N * N)) (ops : list sop) : list (list (N * N)) :=
  match ops with
  | [] => [d]
  | op :: t => d :: script_data (op_data d op) t
  end.

Lemma hdat_stable s s' o d : CrashFault9.stable s s' -> hdat s o d -> hdat s' o d.
Proof. intros St (ob & Ho & Hd). destruct (St o ob Ho) as (ob' & Ho' & _ & Hd'). exists ob'. split; [exact Ho' | congruence]. Qed.

Lemma hdat_back s s' o ob d : CrashFault9.stable s s' -> hget s o = Some ob -> hdat s' o d -> r_data (o_rec ob) = Some d.
Proof. intros St Ho (ob'' & Ho'' & Hd). destruct (St o ob Ho) as (ob' & Ho' & _ & Hd'). congruence. Qed.

Lemma dat_of_data r d : r_data r = Some d -> CrashFault3.dat r = d.
Proof. unfold CrashFault3.dat. intros ->. reflexivity. Qed.

Section DK2.
  Variable b : nat.
  Variable S : key -> Prop.
  Variable PSd : list (N * N) -> Prop.
  Notation KC := (KC S PSd).
  Notation dk_ok := (dk_ok S PSd).
  Notation dk_trans := (dk_trans S PSd).
  Notation dk_refl := (dk_refl S PSd).
  Notation GQ := (Gb b Q0).

  Lemma hget_hupd_same s o ob f : hget s o = Some ob -> hget (hupd s o f) o = Some (mkObj (o_id ob) (f (o_rec ob))).
  Proof. intro Ho. rewrite (CrashFault.hupd_spec _ _ _ _ Ho). apply hget_hput_same. eapply hget_Some_lt. exact Ho. Qed.

  Lemma KC_keep f : (forall r, r_ref (f r) = r_ref r) -> (forall r, CrashFault3.dat (f r) = CrashFault3.dat r) ->
    forall k r, KC k r -> KC k (f r).
  Proof. intros H1 H2 k r. apply KC_same; [apply H1 | apply H2]. Qed.

  Lemma KC_set_data d' : PSd d' -> forall k r, KC k r -> KC k (set_data r (Some d')).
  Proof. intros H k r _ _ _. exact H. Qed.

  (* update the handler's object, then save it directly *)
  Lemma dk_upd_save s o ob f : hget s o = Some ob -> (forall k r, KC k r -> KC k (f r)) -> KC (o_id ob) (f (o_rec ob)) ->
    dk_ok s (fst (save_direct (hupd s o f) o)).
  Proof.
    intros Ho Hf HK. destruct (save_direct (hupd s o f) o) as [s' r] eqn:E. cbn [fst].
    eapply dk_trans; [apply dk_hupd; exact Hf|].
    exact (dk_save_direct S PSd _ o _ s' r (hget_hupd_same s o ob f Ho) HK E).
  Qed.

  Lemma dk_logout s o d : hdat s o d -> PSd d -> dk_ok s (fst (logout s o)).
  Proof.
    intros (ob & Ho & Hd) Hp. unfold logout. rewrite Ho. destruct (r_user (o_rec ob)); [|apply dk_refl].
    apply (dk_upd_save s o ob); [exact Ho | intros k r; apply KC_user|].
    apply KC_of_data. rewrite (dat_of_data _ d); [exact Hp | exact Hd].
  Qed.

  Lemma dk_login base s o u ex d : GQ base s -> hdat s o d -> PSd d -> dk_ok s (fst (fst (login s o u ex))).
  Proof.
    intros Hg Hd Hp. unfold login.
    assert (Hpre : exists s1 r1, (if ex then logout_user s (fst u) else let '(s0, _) := logout s o in (s0, Ok tt)) = (s1, r1)
                                 /\ dk_ok s s1 /\ hdat s1 o d).
    { destruct ex.
      - destruct (logout_user s (fst u)) as [s1 r1] eqn:E. exists s1, r1. split; [reflexivity|].
        split; [exact (dk_logout_user S PSd _ _ _ _ (CrashAny.G_cok _ _ _ Hg) E)|].
        exact (hdat_stable _ _ _ _ (proj1 (CrashFault9.logout_user_nopanic _ _ _ _ E)) Hd).
      - destruct (logout s o) as [s1 r1] eqn:E. exists s1, (Ok tt). split; [reflexivity|].
        pose proof (dk_logout s o d Hd Hp) as D. rewrite E in D. split; [exact D|].
        exact (hdat_stable _ _ _ _ (CrashFault9.stable_logout _ _ _ _ E) Hd). }
    destruct Hpre as (s1 & r1 & E1 & D1 & Hd1). rewrite E1.
    destruct r1 as [x|e|e]; cbn [fst]; try exact D1.
    destruct Hd1 as (ob1 & Ho1 & Hdd1).
    set (s2 := hupd s1 o (fun r => set_user r (Some u))).
    assert (Ho2 : hget s2 o = Some (mkObj (o_id ob1) (set_user (o_rec ob1) (Some u)))) by (apply hget_hupd_same; exact Ho1).
    assert (D2 : dk_ok s1 s2) by (apply dk_hupd; intros k r; apply KC_user).
    destruct (cache_set s2 o) as [s3 ok] eqn:E3.
    assert (D3 : dk_ok s2 s3).
    { eapply (dk_cache_set S PSd s2 o _ s3 ok Ho2); [|exact E3]. apply KC_of_data. rewrite (dat_of_data _ d); [exact Hp | exact Hdd1]. }
    assert (D13 : dk_ok s s3) by (eapply dk_trans; [exact D1|]; eapply dk_trans; eassumption).
    destruct ok; cbn [negb]; [|exact D13].
    destruct (CrashFault9.stable_cache_set _ _ _ _ E3 o _ Ho2) as (ob3 & Ho3 & _ & Hd3). cbn [o_rec set_user r_data] in Hd3.
    destruct (regenerate s3 o) as [[s4 r4] c4] eqn:E4.
    assert (D4 : dk_ok s3 s4).
    { eapply (dk_regenerate S PSd s3 o ob3 s4 r4 c4 Ho3); [|exact E4]. rewrite (dat_of_data _ d); [exact Hp | congruence]. }
    assert (D : dk_ok s s4) by (eapply dk_trans; eassumption).
    destruct r4; exact D.
  Qed.

  (* a handler operation: the events, and the data afterwards *)
  Theorem dk_do_sop base s o hc op d : GQ base s -> hdat s o d -> PSd d -> PSd (op_data d op) ->
    dk_ok s (fst (fst (do_sop s o hc op))) /\ hdat (fst (fst (do_sop s o hc op))) o (op_data d op).
  Proof.
    intros Hg Hd Hp Hp'. pose proof Hd as (ob & Ho & Hdd).
    assert (Hus : forall d', PSd d' ->
              dk_ok s (fst (save_direct (hupd s o (fun r => set_data r (Some d'))) o)) /\
              hdat (fst (save_direct (hupd s o (fun r => set_data r (Some d'))) o)) o d').
    { intros d' Hd'. split.
      - apply (dk_upd_save s o ob); [exact Ho | apply KC_set_data; exact Hd' | apply KC_of_data; exact Hd'].
      - destruct (save_direct _ o) as [s' r] eqn:E. cbn [fst].
        apply (hdat_stable _ _ _ _ (CrashFault9.stable_save_direct _ _ _ _ E)).
        eexists. split; [apply (hget_hupd_same s o ob); exact Ho | reflexivity]. }
    destruct op as [k v|k|k|k|u ex| | |]; cbn [do_sop op_data] in *.
    - unfold data_of. rewrite Ho, Hdd. destruct (Hus _ Hp') as [A B].
      destruct (save_direct _ o) as [s' r]. split; assumption.
    - unfold data_of. rewrite Ho, Hdd. destruct (Hus _ Hp') as [A B].
      destruct (save_direct _ o) as [s' r]. split; assumption.
    - split; [apply dk_refl | exact Hd].
    - unfold data_of. rewrite Ho, Hdd. destruct (kv_get d k); [|split; [apply dk_refl | exact Hd]].
      destruct (Hus _ Hp') as [A B]. destruct (save_direct _ o) as [s' r]. split; assumption.
    - pose proof (dk_login base s o u ex d Hg Hd Hp) as A.
      destruct (login s o u ex) as [[s' r] c] eqn:E. split; [exact A|].
      exact (hdat_stable _ _ _ _ (proj1 (CrashFault9.stable_login _ _ _ _ _ _ _ E)) Hd).
    - pose proof (dk_logout s o d Hd Hp) as A. destruct (logout s o) as [s' r] eqn:E. split; [exact A|].
      exact (hdat_stable _ _ _ _ (CrashFault9.stable_logout _ _ _ _ E) Hd).
    - destruct (regenerate s o) as [[s' r] c] eqn:E. split.
      + eapply (dk_regenerate S PSd s o ob s' r c Ho); [|exact E]. rewrite (dat_of_data _ _ Hdd). exact Hp.
      + exact (hdat_stable _ _ _ _ (proj1 (CrashFault9.stable_regenerate _ _ _ _ _ E)) Hd).
    - destruct (destroy s o hc) as [[s' r] c] eqn:E. cbn [fst]. split.
      + unfold destroy in E. rewrite Ho in E. destruct (cache_delete s (o_id ob)) as [s1 okd] eqn:Ed.
        assert (s' = s1) by (destruct okd; injection E as <- _ _; reflexivity). subst s'.
        exact (dk_cache_delete S PSd _ _ _ _ Ed).
      + exact (hdat_stable _ _ _ _ (CrashFault9.stable_destroy _ _ _ _ _ _ E) Hd).
  Qed.

  Theorem dk_run_script base hc : forall ops s o d, GQ base s -> b <= o -> hg s o -> hdat s o d ->
    (forall x, In x (script_data d ops) -> PSd x) ->
    dk_ok s (fst (fst (run_script s o hc ops))).
  Proof.
    induction ops as [|op t IH]; intros s o d Hg Hbo Hh Hd Hps; cbn [run_script]; [apply dk_refl|].
    cbn [script_data] in Hps.
    assert (Hp : PSd d) by (apply Hps; left; reflexivity).
    assert (Hp' : PSd (op_data d op)).
    { apply Hps. right. destruct t; cbn [script_data]; left; reflexivity. }
    destruct (dk_do_sop base s o hc op d Hg Hd Hp Hp') as [Ev1 Hd1].
    destruct (do_sop_Gb b Q0 DEL0 Q0_qt Q0_repl Q0_del base s o hc op Hg Hbo Hh) as (s1 & r & cks & E & G1 & _ & H1 & _).
    { intros _ ob _. exact Logic.I. }
    rewrite E in *. cbn [fst] in Ev1, Hd1.
    destruct (fire_due_Gb b Q0 FOK0 Q0_fire _ _ G1 Logic.I) as (G2 & _ & H2 & _).
    assert (Ev2 : dk_ok s (fire_due s1)) by (eapply dk_trans; [exact Ev1 | apply dk_fire_due]).
    assert (Hd2 : hdat (fire_due s1) o (op_data d op)) by (exact (hdat_stable _ _ _ _ (CrashFault9.stable_fire_due s1) Hd1)).
    assert (Hdec : op = SDestroy \/ op <> SDestroy) by (destruct op; ((left; reflexivity) || (right; discriminate))).
    destruct Hdec as [->|Hop]; [exact Ev2|].
    match goal with |- context [if ?c then _ else _] => destruct c end; [exact Ev2|].
    pose proof (IH (fire_due s1) o (op_data d op) G2 Hbo (H2 o (H1 Hop)) Hd2) as Ev3.
    destruct (run_script (fire_due s1) o hc t) as [[s' rs] cks']. cbn [fst] in *.
    eapply dk_trans; [exact Ev2 | apply Ev3]. intros x Hx. apply Hps. right. exact Hx.
  Qed.

  (* ---------------------------------------------------------------- Start *)

  Lemma ext_of_keeps s s' : CrashFault13.keeps s s' -> exists l, CrashFault.ext s s' l.
  Proof. intros (H & _). exact H. Qed.

  Lemma dk_start_found base c s q k o ob cks :
    GQ base s -> b <= o -> hget s o = Some ob -> o_id ob = k -> sc s o ->
    (forall s' o' cks', start_found c s q k o ob cks = (s', Ok (Some o'), cks') -> exists d, hdat s' o' d /\ PSd d) ->
    dk_ok s (fst (fst (start_found c s q k o ob cks))).
  Proof.
    intros Hg Hbo Ho Hid Hsc Hd0. pose proof Hg as (I & Kc & P & Hq).
    assert (F : ffnd s) by (eapply inv_ffnd; exact I). assert (Hp : plan s = []) by apply F.
    assert (Hdel : forall k', dk_ok s (fst (cache_delete s k'))).
    { intro k'. destruct (cache_delete s k') as [s1 okd] eqn:Ed. exact (dk_cache_delete S PSd _ _ _ _ Ed). }
    assert (Hupd : forall s1 o1, dk_ok s1 (hupd s1 o1 (upd_req s1 q))).
    { intros s1 o1. apply dk_hupd. apply KC_keep; intro r; reflexivity. }
    destruct (rec_valid c (now s) q (o_rec ob)) eqn:Hv.
    - destruct (r_ref (o_rec ob)) as [t|] eqn:Hr.
      + destruct (sat_add (c_idexpiry c) (c_grace c) <=? since (r_created (o_rec ob)) (now s))%Z eqn:Hb.
        * rewrite sf_backstop; [| exact Hp | exact Hv | unfold isref; rewrite Hr; reflexivity | exact Hb]. apply Hdel.
        * rewrite (sf_ref _ _ _ _ _ _ _ t Hv Hr Hb).
          pose proof (dk_follow S PSd (Datatypes.S (N.to_nat (supply s))) s o k) as Ef.
          destruct (follow (Datatypes.S (N.to_nat (supply s))) s o k) as [s1 [[o' lk']|e|e]]; cbn [fst] in *; try exact Ef.
          eapply dk_trans; [exact Ef | apply Hupd].
      + destruct (c_idexpiry c <=? since (r_created (o_rec ob)) (now s))%Z eqn:Ha.
        * pose proof (sf_rotate c s q k o ob cks F Ho Hv Hr Ha) as Erot. rewrite Erot. cbn [fst].
          eapply dk_trans; [|apply Hupd].
          destruct (Hd0 _ _ _ Erot) as (d & Hdf & Hpd).
          assert (St : CrashFault9.stable s (hupd (regen s o ob) o (upd_req (regen s o ob) q))).
          { eapply CrashFault9.stable_trans; [exact (proj1 (CrashFault9.stable_regenerate _ _ _ _ _ (regenerate_ff _ _ _ F Ho)))|].
            apply CrashFault9.bookkeep_stable. }
          pose proof (hdat_back _ _ _ _ _ St Ho Hdf) as Hdo.
          eapply (dk_regenerate S PSd s o ob _ _ _ Ho); [|exact (regenerate_ff _ _ _ F Ho)].
          rewrite (dat_of_data _ _ Hdo). exact Hpd.
        * destruct (sat_add (c_idexpiry c) (c_grace c) <=? since (r_created (o_rec ob)) (now s))%Z eqn:Hb.
          -- rewrite sf_backstop; [| exact Hp | exact Hv | rewrite Ha; apply andb_false_r | exact Hb]. apply Hdel.
          -- rewrite (sf_plain _ _ _ _ _ _ _ Hv Hr Ha Hb). apply Hupd.
    - rewrite (sf_invalid c s q k o ob cks Hp Ho Hv).
      destruct (cache_delete s (o_id ob)) as [s1 okd] eqn:Ed. cbn [fst].
      destruct (q_create q); [|exact (dk_cache_delete S PSd _ _ _ _ Ed)].
      destruct (create_session s1 q) as [[s2 r2] c2] eqn:Ec. cbn [fst].
      apply (dk_after_delete S PSd s s1 s2); [exact (dk_cache_delete_del _ _ _ _ Ed) | exact (ext_of_keeps _ _ (CrashFault13.keeps_create _ _ _ _ _ Ec))].
  Qed.

  Theorem dk_start base s q k0 : GQ base s -> q_cookie q = CKey k0 -> lookup (store s) k0 <> None ->
    (forall s' o' cks', start s q = (s', Ok (Some o'), cks') -> exists d, hdat s' o' d /\ PSd d) ->
    dk_ok s (fst (fst (start s q))).
  Proof.
    intros Hg Hq Hst Hd0. pose proof Hg as (I & Kc & P & Hqq). rewrite start_eq in *. rewrite Hq in *.
    destruct (cache_get_inv _ _ _ _ _ k0 I) as (s1 & r & E & I1 & Hr).
    destruct (cache_get_qt _ _ _ _ k0 I Kc) as (Qt & K1 & Hobj).
    pose proof (dk_cache_get S PSd _ _ _ _ E) as Ev1. rewrite E in *. cbn [fst snd] in *.
    assert (G1 : GQ base s1) by (eapply (Gb_qt b Q0 Q0_qt); eassumption).
    destruct r as [o|].
    - destruct Hr as [Hbo [ob (Ho & _)]]. destruct (Hobj o eq_refl) as (ob' & Ho' & Hid & Hs).
      rewrite Ho in Ho'. injection Ho' as <-. rewrite Ho in *.
      eapply dk_trans; [exact Ev1|]. apply (dk_start_found base); [exact G1 | exact Hbo | exact Ho | exact Hid | | exact Hd0].
      exists ob. split; [exact Ho | rewrite Hid; exact Hs].
    - exfalso. apply Hst. apply Hr.
  Qed.

  (* ---------------------------------------------------------------- whole steps *)

  Theorem dk_req_body base s q script k0 : GQ base s -> q_cookie q = CKey k0 -> lookup (store s) k0 <> None ->
    (forall s2 o cks d0, start s q = (s2, Ok (Some o), cks) -> hdat s2 o d0 -> forall x, In x (script_data d0 script) -> PSd x) ->
    (forall s2 o cks, start s q = (s2, Ok (Some o), cks) -> exists d0, hdat s2 o d0) ->
    dk_ok s (fst (fst (fst (fst (fst (req_body s q script)))))).
  Proof.
    intros Hg Hq Hst Hps Hex. unfold req_body.
    destruct (start_Gb b Q0 DEL0 Q0_qt Q0_new Q0_repl Q0_del base s q Hg) as (s2 & res & cks & E & G2 & _ & H2 & _).
    { intros; exact Logic.I. }
    assert (Ev1 : dk_ok s s2).
    { pose proof (dk_start base s q k0 Hg Hq Hst) as D. rewrite E in D. cbn [fst] in D. apply D.
      intros s' o' cks' Es. injection Es as Ea Eb Ec. subst s' res cks'. destruct (Hex _ _ _ E) as (d0 & Hd0). exists d0. split; [exact Hd0|].
      apply (Hps _ _ _ d0 E Hd0). destruct script; cbn [script_data]; left; reflexivity. }
    rewrite E.
    destruct (fire_due_Gb b Q0 FOK0 Q0_fire _ _ G2 Logic.I) as (G3 & _ & H3 & _).
    assert (Ev2 : dk_ok s (fire_due s2)) by (eapply dk_trans; [exact Ev1 | apply dk_fire_due]).
    destruct res as [[o|]|e|e]; try exact Ev2.
    destruct (H2 o eq_refl) as (Hbo & Hh2 & _). destruct (Hex _ _ _ E) as (d0 & Hd0).
    pose proof (dk_run_script base (had_cookie q) script (fire_due s2) o d0 G3 Hbo (H3 o Hh2)
                  (hdat_stable _ _ _ _ (CrashFault9.stable_fire_due s2) Hd0) (Hps _ _ _ d0 E Hd0)) as Ev3.
    cbv zeta. destruct (run_script (fire_due s2) o (had_cookie q) script) as [[s3 sr] cks']. cbn [fst] in *.
    eapply dk_trans; eassumption.
  Qed.
End DK2.
