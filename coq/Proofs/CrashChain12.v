(* C10C (audit task A9), part 12: the hypothesis "the chain is no longer than the
   number of IDs drawn so far" of the scenario chain_crash holds in every state
   reachable by a fault-free, crash-free history (invariant LI of HistLift4.v):
   references point at drawn generated IDs with strictly larger ordinals
   (RotateLaws4.ref_wf), so the ordinals increase along a chain. *)
From Sessions Require Import Model.Base Model.Sess Model.Hist Proofs.SessDefs
  Proofs.HistInv Proofs.HistInv2 Proofs.HistInv3.
From Sessions Require Proofs.RotateLaws4 Proofs.HistLift4 Proofs.CrashFault3 Proofs.CrashFault6.
From Sessions Require Import Proofs.CrashChain.
From Coq Require Import Lia.

(* the logical content of an ID on the chain refers to the next one *)
Lemma chain_mem_L s k0 rest : cache_ok s -> chain_mem s k0 rest ->
  forall k t, In (k, t) (path_edges k0 rest) -> exists r, L s k = Some r /\ r_ref r = Some t.
Proof.
  intros Hc [HE HC] k t Hin. unfold L. destruct (lookup (cache s) k) as [o|] eqn:El.
  - destruct (Hc _ _ El) as (ob & Ho & _). rewrite Ho. exists (o_rec ob). split; [reflexivity|]. eapply HC; eassumption.
  - exact (HE _ _ Hin).
Qed.

Lemma chain_sharp s : RotateLaws4.ref_wf s -> forall rest k a,
  (forall k' t0, In (k', t0) (path_edges k rest) -> exists r', L s k' = Some r' /\ r_ref r' = Some t0) ->
  k = KGen a -> rest <> [] ->
  exists b, last rest k = KGen b /\ (b < supply s)%N /\ (N.to_nat a + length rest <= N.to_nat b)%nat.
Proof.
  intro Hw. induction rest as [|x t IH]; intros k a HE -> Hne; [congruence|].
  destruct (HE (KGen a) x (or_introl eq_refl)) as (r & HL & Hr).
  destruct (Hw (KGen a) r x HL Hr) as (mx & -> & Hmx & Hlt). specialize (Hlt a eq_refl).
  destruct t as [|y t'].
  - exists mx. cbn [last length]. split; [reflexivity|]. split; [exact Hmx | lia].
  - destruct (IH (KGen mx) mx) as (b & Eb & Hb & Hlen); [intros k' t0 Hin; apply HE; right; exact Hin | reflexivity | discriminate|].
    rewrite last_cons. exists b. split; [exact Eb|]. split; [exact Hb|]. cbn [length] in *. lia.
Qed.

(* in every state satisfying LI - in particular every state reached by a
   fault-free, crash-free history - a chain in the sense of chain_mem is no
   longer than the number of IDs drawn *)
Theorem chain_fuel_LI s k0 rest :
  HistLift4.LI s -> chain_mem s k0 rest -> (length rest <= N.to_nat (supply s))%nat.
Proof.
  intros Hl Hm. destruct rest as [|k1 t]; [cbn; lia|].
  destruct (HistLift4.LI_sess_inv _ Hl) as (_ & Hc & _).
  pose proof (HistLift4.LI_ref_wf _ Hl) as Hw.
  pose proof (chain_mem_L s k0 (k1 :: t) Hc Hm) as HE.
  destruct (HE k0 k1 (or_introl eq_refl)) as (r & HL & Hr).
  destruct (Hw k0 r k1 HL Hr) as (m1 & -> & Hm1 & _).
  destruct t as [|k2 t'].
  - cbn [length]. lia.
  - destruct (chain_sharp s Hw (k2 :: t') (KGen m1) m1) as (b & _ & Hb & Hlen);
      [intros k' t0 Hin; apply HE; right; exact Hin | reflexivity | discriminate|].
    cbn [length] in *. lia.
Qed.
