(* Lifting to histories, part 5 (C18 at history level): what the cookies of
   every response of a fault-free, crash-free history say.

   lastl None cks is the last live cookie of a response; apply_cookies is the
   browser of Model/Hist.v. For every request step that returns a session, with
   kf the ID of the handler's session at the end of the request (ob_final):
   the last live cookie, if any, carries kf; if there is none the presented ID
   is kf; unless the script executed Destroy, a browser applying the cookies
   holds kf, and kf resolves (L of the post-state) to a session's record, not
   to a replaced-ID record. CkBad never occurs, in any step of any history. *)
From Sessions Require Import Model.Base Model.Sess Model.Hist Proofs.SessDefs
  Proofs.HistInv Proofs.HistInv2 Proofs.HistInv3 Proofs.HistLift Proofs.HistLift2 Proofs.HistLift3
  Proofs.HistLift4.
From Sessions Require Proofs.RotateLaws Proofs.RotateLaws2 Proofs.RotateLaws3 Proofs.RotateLaws5.
From Coq Require Import Lia.

(* ------------------------------------------------- CkBad never occurs *)

Definition plain (cks : list cookie) : Prop := forall n, ~ In (CkBad n) cks.

Lemma plain_app a b : plain a -> plain b -> plain (a ++ b).
Proof. intros Ha Hb n H. apply in_app_or in H as [H|H]; [apply (Ha n H) | apply (Hb n H)]. Qed.

Lemma run_script_plain hc : forall ops s o, plain (snd (run_script s o hc ops)).
Proof.
  induction ops as [|op t IH]; intros s o; cbn [run_script]; [intros ? []|].
  pose proof (RotateLaws5.do_sop_plain s o hc op) as H1. destruct (do_sop s o hc op) as [[s1 r] cks]. cbn [snd] in H1.
  match goal with |- context [if ?c then _ else _] => destruct c end; [exact H1|].
  pose proof (IH (fire_due s1) o) as H2. destruct (run_script (fire_due s1) o hc t) as [[s2 rs] cks']. cbn [snd] in *.
  apply plain_app; assumption.
Qed.

Lemma req_body_plain s q script : plain (snd (req_body s q script)).
Proof.
  unfold req_body. pose proof (RotateLaws5.start_plain s q) as H1. destruct (start s q) as [[s2 res] cks]. cbn [snd] in H1.
  destruct res as [[o|]|e|e]; try exact H1. cbv zeta.
  pose proof (run_script_plain (had_cookie q) script (fire_due s2) o) as H2.
  destruct (run_script (fire_due s2) o (had_cookie q) script) as [[s3 sr] cks']. cbn [snd] in *.
  apply plain_app; assumption.
Qed.

(* every step of every history, whatever its faults and crashes *)
Theorem step_plain w h : plain (ob_cookies (snd (step w h))).
Proof.
  destruct h as [r|d|tbl pl| | |u tbl pl|u tbl pl|c]; try (cbn [step snd mk_obs ob_cookies]; intros ? []).
  - rewrite step_req_eq. cbv zeta.
    match goal with |- context [req_body ?s1 ?q ?sc] => pose proof (req_body_plain s1 q sc) as H; destruct (req_body s1 q sc) as [[[[[s3 rc] st0] sr] fin] cks] end.
    cbn [snd] in H. destruct (rq_crash r).
    + destruct (fold_left apply_ev _ _). cbn [snd mk_obs ob_cookies]. intros ? [].
    + cbn [snd mk_obs ob_cookies]. exact H.
  - cbn [step]. destruct (logout_user _ u) as [s1 res]. cbn [snd mk_obs ob_cookies]. intros ? [].
  - cbn [step]. destruct (refresh_user _ u) as [s1 res]. cbn [snd mk_obs ob_cookies]. intros ? [].
Qed.

Theorem run_from_plain : forall hs w, Forall (fun o => plain (ob_cookies o)) (run_from w hs).
Proof.
  induction hs as [|h t IH]; intro w; [constructor|]. rewrite run_from_cons. constructor; [apply step_plain | apply IH].
Qed.

(* --------------------------------------------- last live cookie, browser *)

Lemma lastl_None a cks : lastl a cks = match lastl None cks with Some v => Some v | None => a end.
Proof.
  revert a. induction cks as [|ck t IH]; intro a; [reflexivity|]. unfold lastl in *. cbn [fold_left].
  destruct ck as [k| |n]; [rewrite (IH (Some k)); destruct (fold_left _ t None); reflexivity | apply IH | apply IH].
Qed.

Lemma apply_cookies_app j a b : apply_cookies j (a ++ b) = apply_cookies (apply_cookies j a) b.
Proof. apply fold_left_app. Qed.

Lemma apply_cookies_live j cks : Forall islive cks ->
  apply_cookies j cks = match lastl None cks with Some v => CKey v | None => j end.
Proof.
  revert j. induction cks as [|ck t IH]; intros j H; [reflexivity|]. inversion H as [|? ? Hck Ht]; subst.
  destruct ck as [k| |n]; try contradiction. unfold apply_cookies, lastl in *. cbn [fold_left].
  rewrite (IH (CKey k) Ht). fold (lastl (Some k) t). rewrite (lastl_None (Some k) t).
  unfold lastl. destruct (fold_left _ t None); reflexivity.
Qed.

(* the handle's ID resolves to a session's record *)
Lemma hg_L s o : cache_ok s -> Kcs s -> hg s o ->
  exists k r, hid s o = Some k /\ L s k = Some r /\ r_ref r = None.
Proof.
  intros Hc K (ob & Ho & Hr & Hs). exists (o_id ob). unfold hid. rewrite Ho. cbn [option_map].
  unfold sref in Hs. destruct (lookup (store s) (o_id ob)) as [r0|] eqn:Hst; [|discriminate]. injection Hs as Hs.
  unfold L. destruct (lookup (cache s) (o_id ob)) as [o'|] eqn:Hl.
  - destruct (Hc _ _ Hl) as (ob' & Ho' & _). rewrite Ho'. exists (o_rec ob'). split; [reflexivity|]. split; [reflexivity|].
    pose proof (K _ _ _ Hl Ho') as Hk. rewrite (sref_lookup _ _ _ Hst), Hs in Hk. injection Hk as Hk. congruence.
  - exists r0. auto.
Qed.

(* ------------------------------------------------------ the request body *)

(* what a request that returns a session shows about its cookies *)
Definition c18_sess (q : request) (script : list sop) (s3 : st)
           (sr : list sres) (fin : option (key * rec)) (cks : list cookie) : Prop :=
  exists kf rf, fin = Some (kf, rf) /\ r_ref rf = None /\
    (forall v, lastl None cks = Some v -> v = kf) /\
    (lastl None cks = None -> q_cookie q = CKey kf) /\
    (~ In SDestroy (firstn (length sr) script) ->
       apply_cookies (q_cookie q) cks = CKey kf /\ exists rL, L s3 kf = Some rL /\ r_ref rL = None).

Lemma req_body_c18 base s q script : G Q0 base s ->
  exists s3 rc st0 sr fin cks, req_body s q script = (s3, rc, st0, sr, fin, cks) /\ G Q0 base s3 /\
    (rc = RSess -> c18_sess q script s3 sr fin cks).
Proof.
  intros Hg. unfold req_body.
  destruct (start_G Q0 DEL0 Q0_qt Q0_new Q0_repl Q0_del base s q Hg) as (s2 & res & cks0 & E & G2 & N2 & H2 & _).
  { intros; exact Logic.I. }
  rewrite E. destruct (fire_due_G Q0 FOK0 Q0_fire _ _ G2 Logic.I) as (G3 & N3 & H3 & _).
  assert (Hheap : heap (fire_due s2) = heap s2) by (destruct G2 as (I2 & _); apply (HistInv3.fire_due_inv _ _ _ _ I2)).
  destruct res as [[o|]|e|e]; try (do 6 eexists; split; [reflexivity|]; split; [exact G3 | intro Hx; discriminate]).
  destruct (H2 o eq_refl) as (Hh2 & k0 & Hk0 & Hck).
  destruct (run_script_G Q0 DEL0 FOK0 Q0_qt Q0_repl Q0_del Q0_fire base (had_cookie q) script (fire_due s2) o G3 (H3 o Hh2) Logic.I)
    as (s3 & sr & cks' & E' & G' & N' & Hd' & R' & C' & _).
  { intros _ s0 ob _ _ _. exact Logic.I. }
  cbv zeta. rewrite E'. do 6 eexists. split; [reflexivity|]. split; [exact G'|]. intros _.
  rewrite (hid_heap _ _ o Hheap), Hk0 in C'.
  destruct R' as (ob3 & Ho3 & Hr3). assert (Hi3 : hid s3 o = Some (o_id ob3)) by (unfold hid; rewrite Ho3; reflexivity).
  rewrite Hi3 in C'. exists (o_id ob3), (o_rec ob3). split; [unfold handle_view; rewrite Ho3; reflexivity|]. split; [exact Hr3|].
  rewrite lastl_app. rewrite (lastl_None (lastl None cks0) cks'). rewrite (lastl_None (Some k0) cks') in C'.
  assert (Hcase : (cks0 = [] /\ q_cookie q = CKey k0 /\ lastl None cks0 = None) \/
                  (lastl None cks0 = Some k0 /\ apply_cookies (q_cookie q) cks0 = CKey k0)).
  { destruct Hck as [[-> Hq]|[->| ->]]; [left; auto | right; split; reflexivity | right; split; reflexivity]. }
  split; [|split].
  - intros v Hv. destruct (lastl None cks') as [v'|]; [congruence|].
    destruct Hcase as [(_ & _ & Hn)|[Hn _]]; rewrite Hn in Hv; congruence.
  - intros Hn. destruct (lastl None cks') as [v'|]; [discriminate|].
    destruct Hcase as [(_ & Hq & _)|[Hn' _]]; [congruence | rewrite Hn' in Hn; discriminate].
  - intros Hnd. destruct (Hd' Hnd) as [Hh3 Hlive]. split.
    + rewrite apply_cookies_app.
      assert (Hj : apply_cookies (q_cookie q) cks0 = CKey k0).
      { destruct Hcase as [(-> & Hq & _)|[_ Hj]]; [exact Hq | exact Hj]. }
      rewrite Hj, (apply_cookies_live _ _ Hlive). destruct (lastl None cks') as [v'|]; congruence.
    + destruct G' as (I' & K' & _). destruct (inv_sess_inv _ _ I') as (_ & Hcok & _).
      destruct (hg_L s3 o Hcok K' Hh3) as (k & rL & Hk & HL & HrL). rewrite Hi3 in Hk. injection Hk as <-.
      exists rL. auto.
Qed.

(* ------------------------------------------------------------- the step *)

(* C18 for one request step that returns a session *)
Definition c18_obs (w : world) (r : reqstep) (s' : st) (o : obs) : Prop :=
  ob_res o = RSess ->
  exists kf rf, ob_final o = Some (kf, rf) /\ r_ref rf = None /\
    (forall v, lastl None (ob_cookies o) = Some v -> v = kf) /\
    (lastl None (ob_cookies o) = None -> presents w r = CKey kf) /\
    (~ In SDestroy (firstn (length (ob_script o)) (rq_script r)) ->
       apply_cookies (presents w r) (ob_cookies o) = CKey kf /\
       (rq_present r = PJar -> ob_jar o = CKey kf) /\
       exists rL, L s' kf = Some rL /\ r_ref rL = None).

Theorem step_c18 w r : LI (w_st w) -> rq_plan r = [] -> rq_crash r = None ->
  c18_obs w r (w_st (fst (step w (HReq r)))) (snd (step w (HReq r))).
Proof.
  intros Hl Hpl Hcr. rewrite step_req_eq. cbv zeta.
  change (match rq_present r with PJar => jar_of (w_jars w) (rq_client r) | PForge c => c end) with (presents w r).
  change (mkReq (presents w r) (rq_create r) (rq_addr r) (rq_ua r)) with (req_of w r).
  change (set_tb (set_plan (set_evs (w_st w) []) (rq_plan r)) (rq_tb r)) with (pre_of w r).
  pose proof (GW_G Q0 Q0_qt (w_st w) (rq_plan r) (rq_tb r) Hl Hpl) as G1. fold (pre_of w r) in G1.
  destruct (req_body_c18 _ (pre_of w r) (req_of w r) (rq_script r) G1) as (s3 & rc & st0 & sr & fin & cks & E & G3 & H3).
  rewrite E, Hcr. cbn [fst snd w_st]. unfold c18_obs, mk_obs. cbn [ob_res ob_final ob_cookies ob_script ob_jar].
  intro Hrc. destruct (H3 Hrc) as (kf & rf & Hfin & Hrf & Hlast & Hnone & Hnd).
  exists kf, rf. split; [exact Hfin|]. split; [exact Hrf|]. split; [exact Hlast|]. split; [exact Hnone|].
  intro Hn. destruct (Hnd Hn) as [Hj HL]. split; [exact Hj|]. split; [|exact HL].
  intro Hp. change (q_cookie (req_of w r)) with (presents w r) in Hj. unfold presents in Hj. rewrite Hp in Hj |- *. exact Hj.
Qed.

(* ------------------------ nothing is set when nothing changed (C18_silent) *)

(* handler operations that change neither the ID nor the cookie *)
Definition calm_op (op : sop) : bool :=
  match op with SLogIn _ _ | SRegen | SDestroy => false | _ => true end.

Lemma do_sop_calm s o hc op : calm_op op = true -> snd (do_sop s o hc op) = [].
Proof.
  destruct op; cbn [calm_op do_sop]; intro H; try discriminate.
  - destruct (data_of s o); [destruct (save_direct _ o)|]; reflexivity.
  - destruct (save_direct _ o); reflexivity.
  - reflexivity.
  - destruct (data_of s o) as [d|]; [destruct (kv_get d k); [destruct (save_direct _ o)|]|]; reflexivity.
  - destruct (logout s o); reflexivity.
Qed.

Lemma run_script_calm hc : forall ops s o, forallb calm_op ops = true -> snd (run_script s o hc ops) = [].
Proof.
  induction ops as [|op t IH]; intros s o H; cbn [run_script]; [reflexivity|].
  cbn [forallb] in H. apply andb_prop in H. destruct H as [H1 H2].
  pose proof (do_sop_calm s o hc op H1) as Hc. destruct (do_sop s o hc op) as [[s1 r] cks]. cbn [snd] in Hc. subst cks.
  match goal with |- context [if ?c then _ else _] => destruct c end; [reflexivity|].
  pose proof (IH (fire_due s1) o H2) as Hc. destruct (run_script (fire_due s1) o hc t) as [[s2 rs] cks']. cbn [snd] in *.
  subst cks'. reflexivity.
Qed.

(* a request presenting the current ID of a session that passes Start's checks
   and is younger than SessionIDExpiry, with a script that neither changes the
   ID nor destroys the session: the response sets no cookie at all *)
Theorem step_silent w r k rk : LI (w_st w) -> rq_plan r = [] -> rq_crash r = None ->
  RotateLaws3.cfg_ok (conf (w_st w)) ->
  presents w r = CKey k -> L (w_st w) k = Some rk -> r_ref rk = None ->
  RotateLaws3.valid_for (conf (w_st w)) rk (now (w_st w)) (req_of w r) = true ->
  (since (r_created rk) (now (w_st w)) < c_idexpiry (conf (w_st w)))%Z ->
  forallb calm_op (rq_script r) = true ->
  ob_res (snd (step w (HReq r))) = RSess /\ ob_cookies (snd (step w (HReq r))) = [].
Proof.
  intros Hl Hpl Hcr Hcfg Hpres HL Hrk Hval Hyoung Hcalm.
  pose proof (GW_G Q0 Q0_qt (w_st w) (rq_plan r) (rq_tb r) Hl Hpl) as (I1 & _). fold (pre_of w r) in I1.
  destruct (inv_sess_inv _ _ I1) as (Hp1 & Hc1 & Hn1 & Hf1).
  destruct (RotateLaws3.start_keep (pre_of w r) (req_of w r) k rk Hp1 Hc1 Hn1 Hf1 Hcfg Hpres HL Hrk Hval Hyoung)
    as (s2 & o & E & _).
  split; [rewrite (step_req_res w r Hcr _ _ _ E); reflexivity|].
  rewrite step_req_eq. cbv zeta.
  change (match rq_present r with PJar => jar_of (w_jars w) (rq_client r) | PForge c => c end) with (presents w r).
  change (mkReq (presents w r) (rq_create r) (rq_addr r) (rq_ua r)) with (req_of w r).
  change (set_tb (set_plan (set_evs (w_st w) []) (rq_plan r)) (rq_tb r)) with (pre_of w r).
  unfold req_body. rewrite E. cbv zeta.
  pose proof (run_script_calm (had_cookie (req_of w r)) (rq_script r) (fire_due s2) o Hcalm) as Hs.
  destruct (run_script (fire_due s2) o (had_cookie (req_of w r)) (rq_script r)) as [[s3 sr] cks']. cbn [snd] in Hs. subst cks'.
  rewrite Hcr. reflexivity.
Qed.

(* ---------------------- responses that return no session (with C18_start) *)

Lemma L_None_sref s k : cache_ok s -> Kcs s -> (L s k = None <-> sref s k = None).
Proof.
  intros Hc K. unfold L, sref. destruct (lookup (cache s) k) as [o|] eqn:Hl.
  - destruct (Hc _ _ Hl) as (ob & Ho & _). rewrite Ho. pose proof (K _ _ _ Hl Ho) as Hk. unfold sref in Hk.
    destruct (lookup (store s) k); [split; discriminate | discriminate].
  - destruct (lookup (store s) k); split; intro H; try discriminate; reflexivity.
Qed.

(* A request step that returns no session sets no live cookie, and a deletion
   cookie only for a presented ID that resolves to nothing afterwards. The
   presented value is assumed not to be the next ID the server will generate. *)
Theorem step_c18_nosess w r : LI (w_st w) -> rq_plan r = [] -> rq_crash r = None ->
  presents w r <> CKey (KGen (supply (w_st w))) ->
  ob_res (snd (step w (HReq r))) <> RSess ->
  (forall v, ~ In (CkLive v) (ob_cookies (snd (step w (HReq r))))) /\
  (In CkDelete (ob_cookies (snd (step w (HReq r)))) ->
   exists k, presents w r = CKey k /\ L (w_st (fst (step w (HReq r)))) k = None).
Proof.
  intros Hl Hpl Hcr Hung Hres.
  pose proof (GW_G Q0 Q0_qt (w_st w) (rq_plan r) (rq_tb r) Hl Hpl) as G1. fold (pre_of w r) in G1.
  pose proof G1 as (I1 & _). destruct (inv_sess_inv _ _ I1) as (Hp1 & Hc1 & Hn1 & Hf1).
  destruct (start_G Q0 DEL0 Q0_qt Q0_new Q0_repl Q0_del _ (pre_of w r) (req_of w r) G1) as (s2 & res & cks & E & G2 & _ & _).
  { intros; exact Logic.I. }
  rewrite (step_req_res w r Hcr _ _ _ E) in Hres.
  destruct (RotateLaws5.start_cookies_ok (pre_of w r) (req_of w r) s2 res cks Hp1 Hc1 Hn1 Hf1 Hung E) as (Hlive & Hdel & _).
  destruct (fire_due_G Q0 FOK0 Q0_fire _ _ G2 Logic.I) as (G3 & _ & _ & Ef).
  rewrite step_req_eq. cbv zeta.
  change (match rq_present r with PJar => jar_of (w_jars w) (rq_client r) | PForge c => c end) with (presents w r).
  change (mkReq (presents w r) (rq_create r) (rq_addr r) (rq_ua r)) with (req_of w r).
  change (set_tb (set_plan (set_evs (w_st w) []) (rq_plan r)) (rq_tb r)) with (pre_of w r).
  unfold req_body. rewrite E, Hcr.
  assert (Hgoal : (forall v, ~ In (CkLive v) cks) /\
                  (In CkDelete cks -> exists k, presents w r = CKey k /\ L (fire_due s2) k = None)).
  { split.
    - intros v Hin. destruct (Hlive v Hin) as (o & _ & _ & -> & _). apply Hres. reflexivity.
    - intro Hin. destruct (Hdel Hin) as (k & Hk & HL). exists k. split; [exact Hk|].
      destruct G2 as (I2 & K2 & _). destruct G3 as (I3 & K3 & _).
      destruct (inv_sess_inv _ _ I2) as (_ & Hc2 & _). destruct (inv_sess_inv _ _ I3) as (_ & Hc3 & _).
      apply (L_None_sref _ k Hc3 K3). apply (L_None_sref _ k Hc2 K2) in HL.
      destruct (ef_sref _ _ Ef k) as [Es|[Es _]]; congruence. }
  destruct res as [[o|]|e|e]; [exfalso; apply Hres; reflexivity | | |]; cbn [fst snd w_st mk_obs ob_cookies]; exact Hgoal.
Qed.

(* ----------------------------------------------- from the initial state *)

Theorem c18_hist c hs r : Forall ff_hop hs -> Forall crash_free hs -> rq_plan r = [] -> rq_crash r = None ->
  c18_obs (reach c hs) r (w_st (fst (step (reach c hs) (HReq r)))) (snd (step (reach c hs) (HReq r))).
Proof. intros Hff Hcf Hpl Hcr. apply step_c18; [apply LI_reach; assumption | exact Hpl | exact Hcr]. Qed.
