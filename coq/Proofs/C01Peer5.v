(* C01, liveness half, the peer/agent frame, part 5: steps of a history. The
   peer and agent recorded under the ID in a client's jar are kept by every
   admissible step that is not that client's request (or the ID dies); after a
   client's own request that is given a session, what the ID in its jar resolves
   to accepts the request's peer and agent. *)
From Sessions Require Import Model.Base Model.Sess Model.Hist Model.Corr Proofs.SessDefs
  Proofs.WriteThrough Proofs.WriteThrough2 Proofs.WriteThrough4 Proofs.WriteThrough5
  Proofs.C01Spec Proofs.C01Hist Proofs.C01Hist2 Proofs.C01Hist3 Proofs.C01Hist4 Proofs.C01Hist6 Proofs.C01Hist7 Proofs.C01Hist9 Proofs.C01Hist10 Proofs.C01Hist11
  Proofs.C01Live Proofs.C01Live2 Proofs.C01Live3 Proofs.C01Live4 Proofs.C01Live5
  Proofs.C01Peer Proofs.C01Peer2 Proofs.C01Peer3 Proofs.C01Peer4.
From Sessions Require Proofs.HistInv Proofs.HistInv3 Proofs.LiveHist Proofs.LiveHist4 Proofs.LiveHist6.
From Coq Require Import Lia.

Lemma peer_ok_pv n b a0 u0 s k :
  peer_ok n b a0 u0 s k <-> (forall p, pv s k = Some p -> okp n b a0 u0 p).
Proof.
  unfold peer_ok, pv, okp. split.
  - intros H p Hp. destruct (L s k) as [r|]; [|discriminate Hp]. injection Hp as <-. apply (H r eq_refl).
  - intros H r Hr. rewrite Hr in H. apply (H (pcont r) eq_refl).
Qed.

Lemma peer_ok_keep n b a0 u0 s s' k :
  (pv s' k = None \/ pv s' k = pv s k) -> peer_ok n b a0 u0 s k -> peer_ok n b a0 u0 s' k.
Proof.
  intros Hv H. apply peer_ok_pv. rewrite peer_ok_pv in H. intros p Hp.
  destruct Hv as [Hv|Hv]; [congruence|]. apply H. congruence.
Qed.

Lemma purge_pv s k : HistInv3.winv 0 HistInv.ND s -> forall t,
  pv (purge (set_tb (set_plan (set_evs s []) []) t)) k = pv s k.
Proof.
  intros HW t. pose proof (HistInv3.inv_of_winv 0 HistInv.ND s t HW) as I1.
  set (s1 := set_tb (set_plan (set_evs s []) []) t) in *.
  destruct (LiveHist.purge_store _ _ _ _ s1 I1) as (Hc & _ & _ & Hs).
  rewrite pv_uncached by (rewrite Hc; reflexivity). rewrite Hs.
  transitivity (pv s1 k); [|apply pv_ext; reflexivity].
  unfold pv, L. destruct (lookup (cache s1) k) as [o|]; [|reflexivity].
  destruct (hget s1 o) as [ob|]; [|reflexivity]. cbn. rewrite pcont_codec. reflexivity.
Qed.

Section Foreign.
  Variables (j : bool) (n : Z) (b : bool).

  Theorem peer_foreign w g h c k a0 u0 :
    JI w g -> W j w -> live_hop n b j h = true -> LiveHist6.is_own c h = false ->
    jar_of (w_jars w) c = CKey k -> L (w_st w) k <> None ->
    peer_ok n b a0 u0 (w_st w) k -> peer_ok n b a0 u0 (w_st (fst (step w h))) k.
  Proof.
    intros HJ HW Hlh Hown Hjar _. apply peer_ok_keep.
    destruct (live_hop_parts n b j h Hlh) as (Hcalm & Hwf & Hc01 & _).
    pose proof (ji_inv _ _ HJ) as HI. pose proof (ji_gr _ _ HJ) as HG.
    assert (Hp : plan (w_st w) = []) by apply (inv_plan _ _ HI).
    set (s := set_evs (w_st w) []).
    assert (Hvs : forall k', pv s k' = pv (w_st w) k') by (intro k'; apply pv_ext; reflexivity).
    destruct h as [r|d|tbl pl| | |u tbl pl|u tbl pl|c']; try discriminate Hlh.
    - (* a request of another client *)
      cbn [wf_hop] in Hwf. destruct (wf_req_parts r Hwf) as (Hpl & Hcr).
      pose proof (c01_wf_pjar r Hc01) as Hpj.
      rewrite (step_req_shape w r Hpl Hcr Hpj). cbv zeta. fold (prep w r).
      set (q := mkReq (jar_of (w_jars w) (rq_client r)) (rq_create r) (rq_addr r) (rq_ua r)).
      destruct (prep_Inv w g r HJ) as (HI1 & HG1).
      destruct (req_body (prep w r) q (rq_script r)) as [[[[[s3 rc] st0] sr] fin] cks] eqn:Hrb.
      destruct (req_body_pv (prep w r) q (rq_script r) s3 rc st0 sr fin cks HI1 HG1 (jar_hyp w g r HJ) Hrb) as (Pk & _).
      cbn [fst w_st].
      assert (Hne : CKey k <> q_cookie q).
      { cbn. intro E. cbn [LiveHist6.is_own] in Hown. rewrite Hpj, Bool.andb_true_r in Hown.
        apply N.eqb_neq in Hown. apply (ji_sep _ _ HJ (rq_client r) c k Hown (eq_sym E) Hjar). }
      assert (Hdr : key_drawn (prep w r) k).
      { pose proof (ji_jar _ _ HJ c) as Hjc. rewrite Hjar in Hjc.
        destruct (g_get g c) as [d|]; cbn in Hjc; [|discriminate Hjc].
        destruct Hjc as (k' & E & Hd & _). injection E as <-. exact Hd. }
      assert (E3 : pv (set_tb (set_plan s3 []) []) k = pv s3 k) by (apply pv_ext; reflexivity).
      assert (E1 : pv (prep w r) k = pv (w_st w) k) by (apply pv_ext; reflexivity).
      rewrite E3, <- E1. apply Pk; assumption.
    - (* wait *)
      cbn [step fst w_st]. fold s.
      destruct (fire_due_pv_view (set_now s (now s + d)%Z) k Hp) as [H|H]; [left; exact H|].
      right. rewrite H. transitivity (pv s k); [apply pv_ext; reflexivity | apply Hvs].
    - (* purge *)
      destruct pl; [|discriminate Hlh]. cbn [step fst w_st]. fold s. right.
      transitivity (pv (purge (set_tb (set_plan s []) tbl)) k); [apply pv_ext; reflexivity|].
      apply (purge_pv (w_st w) k (ji_pf _ _ HJ) tbl).
    - (* LogOut(userID) *)
      destruct pl; [|discriminate Hlh]. cbn [step]. fold s.
      set (s1 := set_tb (set_plan s []) tbl).
      assert (Hc1 : WriteThrough.core (w_st w) = WriteThrough.core s1) by (apply core_prep; exact Hp).
      assert (HI1 : Inv noex s1) by (apply (Inv_core noex _ _ Hc1 HI)).
      assert (HG1 : GR s1) by (apply (GR_core _ _ Hc1); auto).
      pose proof (logout_user_pv s1 u HI1 HG1 k) as Pv.
      destruct (logout_user_eff s1 u HI1 HG1) as (s2 & Hs2 & HI2 & _).
      rewrite Hs2 in *. cbn [fst w_st] in *.
      destruct (fire_due_pv_view (set_tb (set_plan s2 []) []) k eq_refl) as [H|H]; [left; exact H|].
      right. rewrite H. transitivity (pv s2 k); [apply pv_ext; reflexivity|]. rewrite Pv. apply pv_ext; reflexivity.
    - (* RefreshUser *)
      destruct pl; [|discriminate Hlh]. cbn [step]. fold s.
      set (s1 := set_tb (set_plan s []) tbl).
      assert (Hc1 : WriteThrough.core (w_st w) = WriteThrough.core s1) by (apply core_prep; exact Hp).
      assert (HI1 : Inv noex s1) by (apply (Inv_core noex _ _ Hc1 HI)).
      assert (HG1 : GR s1) by (apply (GR_core _ _ Hc1); auto).
      pose proof (refresh_user_pv s1 u HI1 HG1 k) as Pv.
      destruct (refresh_user_eff s1 u HI1 HG1) as (s2 & Hs2 & HI2 & _).
      rewrite Hs2 in *. cbn [fst w_st] in *.
      destruct (fire_due_pv_view (set_tb (set_plan s2 []) []) k eq_refl) as [H|H]; [left; exact H|].
      right. rewrite H. transitivity (pv s2 k); [apply pv_ext; reflexivity|]. rewrite Pv. apply pv_ext; reflexivity.
    - (* configuration change *)
      cbn [step fst w_st]. right. apply pv_ext; reflexivity.
  Qed.

  Theorem peer_own w g r x k' :
    JI w g -> W j w -> wf_req r = true -> rq_present r = PJar ->
    c_acceptip (conf (w_st w)) = n -> c_acceptua (conf (w_st w)) = b ->
    ob_start (snd (step w (HReq r))) = Some x -> ob_jar (snd (step w (HReq r))) = CKey k' ->
    peer_ok n b (rq_addr r) (rq_ua r) (w_st (fst (step w (HReq r)))) k'.
  Proof.
    intros HJ HW Hwf Hpj Hn Hb. destruct (wf_req_parts r Hwf) as (Hpl & Hcr).
    rewrite (step_req_shape w r Hpl Hcr Hpj). cbv zeta. fold (prep w r).
    set (q := mkReq (jar_of (w_jars w) (rq_client r)) (rq_create r) (rq_addr r) (rq_ua r)).
    destruct (prep_Inv w g r HJ) as (HI1 & HG1).
    destruct (req_body (prep w r) q (rq_script r)) as [[[[[s3 rc] st0] sr] fin] cks] eqn:Hrb.
    destruct (req_body_pv (prep w r) q (rq_script r) s3 rc st0 sr fin cks HI1 HG1 (jar_hyp w g r HJ) Hrb) as (_ & Po).
    cbn [fst snd w_st mk_obs ob_start ob_jar]. intros Hst Hjar'.
    apply peer_ok_pv. intros p Hp.
    assert (E3 : pv (set_tb (set_plan s3 []) []) k' = pv s3 k') by (apply pv_ext; reflexivity).
    rewrite E3 in Hp. rewrite <- Hn, <- Hb.
    apply (Po (ltac:(congruence)) k' Hjar' p Hp).
  Qed.
End Foreign.
