(* C10 for requests that presented a REPLACED ID (audit task A9), part 6: the
   handler calls LogIn (script [SLogIn u ex], exclusive or not) after Start
   followed the chain k0 -> .. -> kn; the process stops after n persistence
   calls of the step. As in C10L for the current ID: at every crash point the
   presented ID k0 resolves, through the chain, to a session record with the
   pre-call DATA (the user of that record changes during LogIn: the store-level
   theorem chain_resolves_login says when); after the last call the new ID
   resolves to the record with the data and the new user. *)
From Sessions Require Import Model.Base Model.Sess Model.Hist Proofs.SessDefs
  Proofs.HistInv Proofs.HistInv2 Proofs.HistInv3.
From Sessions Require Proofs.CrashFault Proofs.CrashFault2 Proofs.CrashFault3 Proofs.CrashFault4 Proofs.CrashFault5
  Proofs.CrashFault6 Proofs.CrashFault8 Proofs.LiveHist4 Proofs.LiveHist8 Proofs.UserHist Proofs.UserHist2
  Proofs.RotateLaws6.
From Sessions Require Import Proofs.CrashRestart Proofs.CrashRestart2 Proofs.CrashRestart3 Proofs.CrashRestart4
  Proofs.CrashChain Proofs.CrashChain2 Proofs.CrashChain3 Proofs.CrashChain4.
From Coq Require Import Lia.
Import CrashFault CrashFault2 CrashFault3 CrashFault4 CrashFault5 CrashFault6 LiveHist4.
Local Open Scope Z_scope.

Definition has_dat (D : list (N * N)) (x : rec) : Prop := dat x = D.
Definition has_dat_user (D : list (N * N)) (u : N) (x : rec) : Prop := dat x = D /\ uid x = Some u.

Lemma has_dat_codec D cf x : has_dat D x -> has_dat D (codec cf x).
Proof. unfold has_dat. rewrite dat_codec. auto. Qed.

Lemma has_dat_user_codec D u cf x : has_dat_user D u x -> has_dat_user D u (codec cf x).
Proof. unfold has_dat_user. rewrite dat_codec, uid_codec. auto. Qed.

Theorem crash_store_chain_login w r n k0 rest D U u ex :
  chain_crash w r n k0 rest D U [SLogIn u ex] ->
  let s' := w_st (fst (step w (HReq r))) in let nid := KGen (supply (w_st w)) in
  exists l,
    l = rev (evs (req_end w r)) /\
    cache s' = [] /\ plan s' = [] /\ pending s' = [] /\ now s' = now (w_st w) /\ conf s' = conf (w_st w) /\
    (supply (w_st w) <= supply s')%N /\
    store s' = frozen (w_st w) l n /\
    (exists tl, (length tl <= 1)%nat /\ spath (has_dat D) (store s') k0 (rest ++ tl)) /\
    resolves_chain (has_dat D) (store s') k0 /\
    (n = 0%nat -> spath (full D U) (store s') k0 rest) /\
    ((length l <= n)%nat -> spath (has_dat_user D (fst u)) (store s') k0 (rest ++ [nid]) /\
                            spath (has_dat_user D (fst u)) (store s') nid []) /\
    nodangling_rel (Xmiss (w_st w)) (store s').
Proof.
  intros Hcc. cbv zeta.
  destruct (chain_setup w r n k0 rest D U [SLogIn u ex] (has_dat D) Hcc (fun x h => proj1 h) (has_dat_codec D) (fun x t a u0 h => h))
    as (s0 & o & ob0 & l0 & Hat & Hsi & X0 & HQ0 & HJ1 & HJ0 & Hc0 & Ho0 & Hid0 & HK0 & Hu0 & Hpe0 & Hkn & HE1 & Hend).
  pose proof Hcc as [Hinv Hpl Hcr Hsc Hk Hne Hm Hcont Hfuel Hval Hg Hpend].
  set (s1 := req_s1 w r) in *. set (E := path_edges k0 rest) in *. set (kn := last rest k0) in *.
  destruct Hsi as (Hp0 & Hcok0 & Hn0 & Hf0).
  destruct (RotateLaws6.login_C04 s0 o ob0 u ex Hp0 Hcok0 Hn0 Hf0 Ho0)
    as (s3 & r' & EL & _ & _ & _ & _ & _ & _ & _ & _ & _ & _ & _ & Hpe3).
  pose proof (supply_ext _ _ _ _ X0 HQ0) as Hsup.
  destruct HK0 as (Hnek & Hrf & Hck & Hak). destruct (Hak eq_refl) as [Hr0 Hdat0].
  assert (Hkn0 : lookup (store s0) kn <> None) by (eapply store_present_ext; eassumption).
  (* (a) the last ID of the chain keeps resolving *)
  assert (HJa : J (not_key (KGen (supply s0)) (at_keys (fun k => k = kn) (fun x => r_ref x = None /\ dat x = D))) s0).
  { rewrite Hsup. eapply J_mono; [|exact HJ0]. intros k x Hx. apply (Kc_res _ _ _ _ _ _ Hx). }
  assert (Hta : tracked (not_key (KGen (supply s0)) (at_keys (fun k => k = kn) (fun x => r_ref x = None /\ dat x = D))) s0 o kn).
  { exists ob0. split; [exact Ho0|]. split; [exact Hid0|]. split; [rewrite Hsup; exact Hnek | exact Hak]. }
  destruct (login_resolves s0 kn D o u ex _ _ _ HJa Hc0 Hta Hkn0 EL) as (lR & XR & SRr & HnewR).
  (* (b) the chain's edges stay *)
  assert (Hsrc1 : forall t, ~ In (KGen (supply s0), t) E).
  { intros t Hin. destruct (HE1 _ _ Hin) as (x & A & _). destruct HJ1 as (_ & _ & C). destruct (C _ _ A) as [Hx _].
    apply Hx. rewrite Hsup. reflexivity. }
  assert (Hsrc2 : forall t, ~ In (kn, t) E).
  { intros t Hin. destruct (HE1 _ _ Hin) as (x & A & B). destruct HJ1 as (_ & _ & C).
    destruct (C _ _ A) as (_ & _ & _ & G). destruct (G eq_refl) as [G1 _]. congruence. }
  assert (HQc : Forall (QK (chainK E)) l0).
  { eapply Forall_impl; [|exact HQ0]. intro e. apply QK_mono. intros k x Hx. eapply Kc_chain. exact Hx. }
  destruct (steps_edges E l0 (sg_of s1) HE1 HQc) as [SE0 EE0].
  assert (HE0 : edges_in (store s0) E) by (rewrite (store_of_ext _ _ _ X0); exact EE0).
  assert (HJc : J (not_key (KGen (supply s0)) (chainK E)) s0).
  { rewrite Hsup. eapply J_mono; [|exact HJ0]. intros k x Hx. split; [exact (proj1 Hx) | eapply Kc_chain; exact Hx]. }
  assert (Htc : tracked (not_key (KGen (supply s0)) (chainK E)) s0 o kn).
  { exists ob0. split; [exact Ho0|]. split; [exact Hid0|]. split; [rewrite Hsup; exact Hnek | exact Hck]. }
  destruct (login_chain_kept s0 E o kn u ex _ _ _ HJc Hc0 Htc EL Hsrc1 Hsrc2 HE0) as (lR' & XR' & SEr).
  assert (lR' = lR) by (eapply CrashFault8.appended_unique_ext; eassumption). subst lR'.
  (* (c) no new dangling reference *)
  assert (HQn : Forall (QK (not_key (KGen (supply s1)) (ref_in (T1c s1)))) l0).
  { eapply Forall_impl; [|exact HQ0]. intro e. apply QK_mono. intros k x Hx. eapply Kc_nd. exact Hx. }
  assert (HJn1 : J (not_key (KGen (supply s1)) (ref_in (T1c s1))) s1).
  { eapply J_mono; [|exact HJ1]. intros k x Hx. eapply Kc_nd. exact Hx. }
  set (T0 := fun t : key => (lookup (store s0) t <> None \/ Xmiss s1 t) /\ t <> KGen (supply s0)).
  assert (HT : forall t, T1c s1 t -> T0 t).
  { intros t [[A|A] B]; (split; [|rewrite Hsup; exact B]); [left; eapply store_present_ext; eassumption | right; exact A]. }
  assert (HJn0 : J (not_key (KGen (supply s0)) (ref_in T0)) s0).
  { rewrite Hsup. eapply J_mono; [|exact HJ0]. intros k x Hx. destruct (Kc_nd _ _ _ _ _ _ Hx) as [A B].
    split; [exact A|]. intros t Ht. apply HT. apply B. exact Ht. }
  assert (Htn : tracked (not_key (KGen (supply s0)) (ref_in T0)) s0 o kn).
  { exists ob0. split; [exact Ho0|]. split; [exact Hid0|]. split; [rewrite Hsup; exact Hnek|].
    intros t Ht. apply HT. apply Hrf. exact Ht. }
  destruct (login_nodangling_rel s0 (Xmiss s1) o kn u ex _ _ _ HJn0 Hc0 Htn EL) as (lR'' & XR'' & SNr).
  assert (lR'' = lR) by (eapply CrashFault8.appended_unique_ext; eassumption). subst lR''.
  pose proof (pre_nodangling s1 (Xmiss s1) l0 HJn1 HQn) as SN0.
  (* the start phase keeps the last ID resolving *)
  assert (SR0 : steps_ok (fun sg => resolves_to (has_dat D) (fst sg) kn) (sg_of s1) l0).
  { apply (pre_resolves_gen s1 kn (has_dat D)); [|exact Hkn|].
    - eapply J_mono; [|exact HJ1]. intros k x Hx. eapply Kc_res. exact Hx.
    - eapply Forall_impl; [|exact HQ0]. intro e. apply QK_mono. intros k x Hx. eapply Kc_res. exact Hx. }
  set (l := l0 ++ lR).
  pose proof (steps_two _ _ _ _ _ X0 SE0 SEr) as SE. pose proof (steps_two _ _ _ _ _ X0 SR0 SRr) as SR.
  pose proof (steps_two _ _ _ _ _ X0 SN0 SNr) as SN. fold l in SE, SR, SN.
  (* the end of the step's API calls *)
  assert (X : ext s1 s3 l) by (eapply ext_trans; eassumption).
  assert (Hq3 : forall d k', In (d, k') (pending s3) -> now s3 < d).
  { intros d k' Hin. rewrite Hpe3 in Hin. rewrite (x_now _ _ _ X).
    apply in_app_iff in Hin. destruct Hin as [Hin|[Hin|[]]].
    - rewrite Hpe0 in Hin. exact (Hpend d k' Hin).
    - injection Hin as <- _. rewrite (x_now _ _ _ X0), (x_conf _ _ _ X0).
      change (now s1) with (now (w_st w)). change (conf s1) with (conf (w_st w)). lia. }
  destruct (fire_due_same s3 Hq3) as (D1 & D2 & D3 & D4 & D5 & D6 & D7 & D8 & D9 & D10).
  assert (Hend' : req_end w r = fire_due s3).
  { rewrite Hend. cbn [run_script do_sop]. rewrite EL. reflexivity. }
  assert (El : l = rev (evs (req_end w r))).
  { rewrite Hend', D10, (x_evs _ _ _ X). change (evs s1) with (@nil ev). rewrite app_nil_r, rev_involutive. reflexivity. }
  destruct (crash_world w r n Hcr) as (_ & W1 & W2 & W3 & W4 & W5 & _). cbv zeta in *.
  destruct (at_crash w r n k0 rest (has_dat D) l Hcr El SE SR SN) as (A1 & A2 & A3 & A4 & A5 & A6).
  exists l. split; [exact El|]. split; [exact W1|]. split; [exact W2|]. split; [exact W3|].
  split; [rewrite W4, Hend', D6, (x_now _ _ _ X); reflexivity|].
  split; [rewrite W5, Hend', D8, (x_conf _ _ _ X); reflexivity|].
  split; [exact A2|]. split; [exact A1|]. split; [exact A4|]. split; [exact A5|]. split; [|split; [|exact A6]].
  - intros ->. rewrite A1. unfold frozen. replace (ev_prefix l 0) with (@nil ev) by (destruct l; reflexivity).
    cbn [fold_left fst]. pose proof Hm as [HEw _]. pose proof Hcont as [(rn & Hsn & Hrn & Hfn) _].
    rewrite <- (app_nil_r rest). apply spath_app; [exact HEw|]. exists rn. auto.
  - intro Hle. rewrite A1. unfold frozen. rewrite ev_prefix_all by exact Hle.
    change (fold_left apply_ev l (store (w_st w), graves (w_st w))) with (replay l (sg_of s1)).
    rewrite <- (store_of_ext _ _ _ X).
    destruct (HnewR eq_refl) as (x & rr' & B1 & B2 & B3 & B3' & B4 & B5).
    rewrite Hsup in B1, B5. change (supply s1) with (supply (w_st w)) in B1, B5.
    split; [|exists x; unfold has_dat_user; auto].
    apply spath_app; [|fold kn; split; [exists rr'; auto | exists x; unfold has_dat_user; auto]].
    rewrite (store_of_ext _ _ _ X).
    pose proof (steps_ok_firstn _ _ _ (length l) SE) as Hfin. rewrite firstn_all in Hfin. exact Hfin.
Qed.

(* ------------------------------------------ the request after the restart *)

Theorem chain_restart_old_login w r n k0 rest D U u ex r2 :
  chain_crash w r n k0 rest D U [SLogIn u ex] ->
  let w' := fst (step w (HReq r)) in
  rq_plan r2 = [] -> rq_crash r2 = None -> pres w' r2 = CKey k0 ->
  (forall rk, lookup (store (w_st w')) k0 = Some rk ->
     probe_ok (conf (w_st w)) (now (w_st w)) (probe_q k0 r2) rk) ->
  ob_res (snd (step w' (HReq r2))) = RSess /\
  exists id rc, ob_start (snd (step w' (HReq r2))) = Some (id, rc) /\ r_ref rc = None /\ dat rc = D /\
                (n = 0%nat -> uid rc = U).
Proof.
  intros Hcc w' Hpl Hcr Hk Hok.
  destruct (crash_store_chain_login w r n k0 rest D U u ex Hcc)
    as (l & _ & C1 & C2 & _ & C3 & C4 & C5 & _ & (tl & Htl & Hsp) & _ & H0 & _).
  fold w' in C1, C2, C3, C4, C5, Hsp, H0.
  assert (Hok' : forall rk, lookup (store (w_st w')) k0 = Some rk ->
     probe_ok (conf (w_st w')) (now (w_st w')) (mkReq (CKey k0) (rq_create r2) (rq_addr r2) (rq_ua r2)) rk).
  { rewrite C3, C4. exact Hok. }
  pose proof (cc_fuel _ _ _ _ _ _ _ _ Hcc) as Hfuel.
  destruct (probe_chain_step (has_dat D) w' r2 k0 (rest ++ tl) (has_dat_codec D) (fun _ _ h => h) (fun _ _ h => h)
              (fun _ _ h => h) (fun _ _ h => h) C2 C1 Hpl Hcr Hk Hsp) as (R1 & id & rc & Hst & Href & Hd); [rewrite app_length; lia | exact Hok'|].
  split; [exact R1|]. exists id, rc. split; [exact Hst|]. split; [exact Href|]. split; [exact Hd|].
  intro Hn. destruct (probe_chain_step (full D U) w' r2 k0 rest (full_codec D U) (full_access D U) (full_created D U)
              (full_ip D U) (full_ua D U) C2 C1 Hpl Hcr Hk (H0 Hn)) as (_ & id' & rc' & Hst' & _ & _ & Hu'); [lia | exact Hok'|].
  rewrite Hst in Hst'. injection Hst' as _ <-. exact Hu'.
Qed.

Theorem chain_restart_new_login w r n k0 rest D U u ex r2 :
  chain_crash w r n k0 rest D U [SLogIn u ex] ->
  let w' := fst (step w (HReq r)) in let nid := KGen (supply (w_st w)) in
  (length (evs (req_end w r)) <= n)%nat ->
  rq_plan r2 = [] -> rq_crash r2 = None -> pres w' r2 = CKey nid ->
  (forall rk, lookup (store (w_st w')) nid = Some rk ->
     probe_ok (conf (w_st w)) (now (w_st w)) (probe_q nid r2) rk) ->
  ob_res (snd (step w' (HReq r2))) = RSess /\
  exists id rc, ob_start (snd (step w' (HReq r2))) = Some (id, rc) /\ r_ref rc = None /\
                dat rc = D /\ uid rc = Some (fst u).
Proof.
  intros Hcc w' nid Hn Hpl Hcr Hk Hok.
  destruct (crash_store_chain_login w r n k0 rest D U u ex Hcc)
    as (l & El & C1 & C2 & _ & C3 & C4 & C5 & _ & _ & _ & _ & Hnew & _).
  fold w' in C1, C2, C3, C4, C5, Hnew.
  assert (Hle : (length l <= n)%nat) by (rewrite El, rev_length; exact Hn).
  destruct (Hnew Hle) as [_ Hsp].
  destruct (probe_chain_step (has_dat_user D (fst u)) w' r2 nid [] (has_dat_user_codec D (fst u)) (fun _ _ h => h) (fun _ _ h => h)
              (fun _ _ h => h) (fun _ _ h => h) C2 C1 Hpl Hcr Hk Hsp) as (R1 & id & rc & Hst & Href & Hd & Hu).
  - cbn [length]. lia.
  - rewrite C3, C4. exact Hok.
  - split; [exact R1|]. exists id, rc. auto.
Qed.

Lemma has_dat_def D u x :
  (has_dat D x <-> dat x = D) /\ (has_dat_user D u x <-> dat x = D /\ uid x = Some u).
Proof. split; reflexivity. Qed.
