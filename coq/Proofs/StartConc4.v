(* The composed system of Model/StartConc.v, part 4 (task R2 (c)): progress.
   With C14's no_deadlock and its termination measure: every step other than
   a clock tick decreases `cmeasure`; in a state of the invariant CI in which
   some goroutine has not finished, a step other than a clock tick is enabled
   and admissible; so a run that cannot be extended except by ticks has let
   every goroutine finish, such a run exists from every state of CI, and in
   its final state every goroutine has reported (PDone). *)
From Sessions Require Import Model.Base Model.Sess Model.Hist Model.Mutex Model.StartConc
  Proofs.MutexBasics Proofs.MutexSafety Proofs.MutexProgress Proofs.StartConc Proofs.StartConc2.
From Coq Require Import Lia.

Definition no_tick (lab : clabel) : Prop := match lab with CTick _ => False | _ => True end.

Lemma psum_upd (l : list phase) i x y :
  nth_error l i = Some x ->
  list_sum (map p_weight (upd i y l)) + p_weight x = list_sum (map p_weight l) + p_weight y.
Proof.
  revert i; induction l as [|a l IH]; intros [|i] H; simpl in *; try discriminate.
  - injection H as ->. lia.
  - specialize (IH _ H). lia.
Qed.

Section Progress.
  Variables (k : nat) (reqs : list reqstep) (w0 : world).
  Notation cstep := (cstep true reqs).
  Notation CI := (CI k reqs w0).

  Theorem cmeasure_decreases cs lab cs' :
    cstep cs lab = Some cs' ->
    match lab with CTick _ => cmeasure cs' = cmeasure cs | _ => cmeasure cs' < cmeasure cs end.
  Proof.
    intro Hs. destruct lab as [l|g|g|d]; unfold cmeasure.
    - destruct (cstep_CL _ _ _ _ _ Hs) as (st' & Hl & -> & _). cbn [c_lock c_ph].
      pose proof (measure_decreases _ _ _ Hl). lia.
    - destruct (cstep_CLook _ k _ _ _ _ Hs) as (r & s1 & f & c & b & Hp & _ & _ & _ & ->). cbn [c_lock c_ph].
      pose proof (psum_upd _ _ _ (PLooked (set_evs (c_st cs) []) (jar_of (c_jars cs) (rq_client r)) f c b) Hp) as E.
      cbn [p_weight] in E. lia.
    - destruct (cstep_CRest _ _ _ _ _ Hs) as (s0 & jar & f & c & b & r & w' & o & Hp & _ & _ & ->). cbn [c_lock c_ph].
      pose proof (psum_upd _ _ _ (PDone o) Hp) as E. cbn [p_weight] in E. lia.
    - destruct (cstep_CTick _ _ _ _ _ Hs) as (_ & ->). reflexivity.
  Qed.

  Lemma look_enabled cs g r : nth_error (c_ph cs) g = Some PIdle -> nth_error reqs g = Some r ->
    plain_on k r -> holds_key (c_lock cs) g k = true -> exists cs', cstep cs (CLook g) = Some cs'.
  Proof.
    intros Hp Hr Hpl Hh. cbn [StartConc.cstep]. rewrite Hp, Hr. cbv zeta.
    rewrite (plain_lock_key k r _ Hpl), Hh. cbn [negb orb].
    destruct (start_lookup _ _) as [[[s1 f] c] b]. eauto.
  Qed.

  Lemma rest_enabled cs g s0 jar f c b r :
    nth_error (c_ph cs) g = Some (PLooked s0 jar f c b) -> nth_error reqs g = Some r ->
    exists cs', cstep cs (CRest g) = Some cs'.
  Proof.
    intros Hp Hr. cbn [StartConc.cstep]. rewrite Hp, Hr. destruct (req_finish _ _ _ _ _ _) as [w' o]. eauto.
  Qed.

  (* no deadlock: C14_no_deadlock on the lock side; where the lock side offers
     only the Unlock of a goroutine whose Start has not returned, that
     goroutine's next session-side action is enabled *)
  Theorem c_no_deadlock cs : CI cs -> all_done cs = false ->
    exists lab cs', no_tick lab /\ cstep cs lab = Some cs' /\ cadm cs lab.
  Proof.
    intros (HI & HP & _) Hnd. pose proof HP as (L1 & L2 & Hgp & HK).
    unfold all_done in Hnd. destruct (finished (c_lock cs)) eqn:Hf.
    - (* the lock side has finished: then every Start has returned *)
      exfalso. cbn [andb] in Hnd.
      apply forallb_false_ex in Hnd as (g & p & Hg & Hp).
      assert (Hlt : g < length (gs (c_lock cs))) by (rewrite <- L1; apply nth_error_Some; congruence).
      destruct (nth_error (gs (c_lock cs)) g) as [x|] eqn:Ex; [|apply nth_error_None in Ex; lia].
      unfold finished in Hf. rewrite forallb_forall in Hf. pose proof (Hf x (nth_error_In _ _ Ex)) as Hd.
      pose proof (Hgp _ _ _ Ex Hg) as Hok. unfold gdone in Hd.
      destruct x as [[] [|o r]]; try discriminate. destruct p; cbn [gp_ok gc gscript is_done] in *; discriminate.
    - destruct (no_deadlock _ HI Hf) as (l & st' & Hl & Ha).
      assert (Hcl : (forall g, l <> LLeave g) ->
                exists lab cs', no_tick lab /\ cstep cs lab = Some cs' /\ cadm cs lab).
      { intro Hn. exists (CL l), (mkC st' (c_st cs) (c_jars cs) (c_ph cs) (c_acts cs)).
        split; [exact Logic.I|]. split; [|exact Ha]. cbn [StartConc.cstep]. rewrite Hl.
        destruct l; try reflexivity. exfalso. eapply Hn. reflexivity. }
      destruct l as [g|g|ov|g ov|g|g|g| |dels]; try (apply Hcl; intros g0; discriminate).
      (* the lock side offers LLeave g *)
      assert (Hx : exists r0, nth_error (gs (c_lock cs)) g = Some (mkG (GHold k) r0) /\
                    exists p, nth_error (c_ph cs) g = Some p /\ gp_ok k (mkG (GHold k) r0) p = true).
      { cbn [step] in Hl. destruct (nth_error (gs (c_lock cs)) g) as [[[] r0]|] eqn:E; try discriminate.
        assert (Hlt : g < length (c_ph cs)).
        { rewrite L1. apply nth_error_Some. congruence. }
        destruct (nth_error (c_ph cs) g) as [p|] eqn:Ep; [|apply nth_error_None in Ep; lia].
        pose proof (Hgp _ _ _ E Ep) as Hok.
        assert (k0 = k).
        { destruct p, r0; cbn [gp_ok gc gscript] in Hok; try discriminate; apply Nat.eqb_eq; exact Hok. }
        subst k0. eauto. }
      destruct Hx as (r0 & Hg & p & Hp & Hok).
      assert (Hh : holds_key (c_lock cs) g k = true) by (unfold holds_key; rewrite Hg; apply Nat.eqb_refl).
      assert (Hlt : g < length reqs) by (rewrite L2; apply nth_error_Some; congruence).
      destruct (nth_error reqs g) as [r|] eqn:Er; [|apply nth_error_None in Er; lia].
      destruct p as [|s0 jar f c b|o].
      + destruct (look_enabled cs g r Hp Er (PC_plain _ _ _ _ _ HP Er) Hh) as [cs' Hc]. exists (CLook g), cs'. repeat split. exact Hc.
      + destruct (rest_enabled cs g _ _ _ _ _ r Hp Er) as [cs' Hc]. exists (CRest g), cs'. repeat split. exact Hc.
      + exists (CL (LLeave g)), (mkC st' (c_st cs) (c_jars cs) (c_ph cs) (c_acts cs)).
        split; [exact Logic.I|]. split; [|exact Ha]. cbn [StartConc.cstep]. rewrite Hp, Hl. reflexivity.
  Qed.

  (* a run that can be extended by clock ticks only has let everybody finish *)
  Theorem c_maximal_finished cs : CI cs ->
    (forall lab cs', no_tick lab -> cstep cs lab = Some cs' -> ~ cadm cs lab) ->
    all_done cs = true.
  Proof.
    intros HC Hmax. destruct (all_done cs) eqn:E; [reflexivity|exfalso].
    destruct (c_no_deadlock cs HC E) as (lab & cs' & Hn & Hs & Ha). exact (Hmax lab cs' Hn Hs Ha).
  Qed.

  (* when everybody has finished every goroutine has reported *)
  Theorem all_done_reported cs : CI cs -> all_done cs = true ->
    forall g, g < length reqs -> exists o, nth_error (c_ph cs) g = Some (PDone o).
  Proof.
    intros (_ & (L1 & L2 & _ & _) & _) Hd g Hlt. unfold all_done in Hd. apply andb_true_iff in Hd as [_ Hd].
    destruct (nth_error (c_ph cs) g) as [p|] eqn:E; [|apply nth_error_None in E; lia].
    rewrite forallb_forall in Hd. pose proof (Hd p (nth_error_In _ _ E)) as Hp. destruct p; try discriminate. eauto.
  Qed.

  (* from every state of the invariant a run without clock ticks lets everybody finish *)
  Lemma completes_aux : forall m cs, cmeasure cs <= m -> CI cs ->
    exists ls cs', crun true reqs cs ls = Some cs' /\ cadm_run true reqs cs ls /\
                   Forall no_tick ls /\ all_done cs' = true.
  Proof.
    induction m as [|m IH]; intros cs Hm HC; (destruct (all_done cs) eqn:E;
      [exists [], cs; repeat split; [constructor | exact E] |]);
      destruct (c_no_deadlock cs HC E) as (lab & cs1 & Hn & Hs & Ha);
      pose proof (cmeasure_decreases _ _ _ Hs) as Hd; (destruct lab as [l|g|g|d]; [| | |contradiction]); try lia.
    all: destruct (IH cs1 ltac:(lia) (ci_step _ _ _ _ _ _ HC Hs Ha)) as (ls & cs' & R & A & T & D);
      eexists (_ :: ls), cs'; cbn [crun cadm_run]; rewrite Hs;
      (split; [exact R|]); (split; [split; [exact Ha | exact A]|]); (split; [constructor; [exact Hn | exact T] | exact D]).
  Qed.

  Theorem c_completes cs : CI cs ->
    exists ls cs', crun true reqs cs ls = Some cs' /\ cadm_run true reqs cs ls /\
                   Forall no_tick ls /\ all_done cs' = true.
  Proof. intro HC. exact (completes_aux (cmeasure cs) cs (le_n _) HC). Qed.

  (* the steps other than clock ticks of a run are at most cmeasure of its start *)
  Theorem c_bounded : forall ls cs cs', crun true reqs cs ls = Some cs' ->
    length (filter (fun lab => match lab with CTick _ => false | _ => true end) ls) + cmeasure cs' <= cmeasure cs.
  Proof.
    induction ls as [|l ls IH]; intros cs cs' Hr; cbn [crun] in Hr.
    - injection Hr as <-. cbn. lia.
    - destruct (cstep cs l) as [cs1|] eqn:E; [|discriminate]. specialize (IH _ _ Hr).
      pose proof (cmeasure_decreases _ _ _ E) as Hd. destruct l; cbn [filter length] in *; lia.
  Qed.
End Progress.
