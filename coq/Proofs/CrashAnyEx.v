(* R10, C10: non-vacuity of the theorems of Proofs/CrashAny*.v (Properties/C10K.v).

   The world ca_w: client 1 created a session and logged in (IDs 0 -> 1: ID 0 is a
   replaced-ID record naming ID 1, still in its grace period), 5 s ago. The step
   ca_r: somebody presents ID 0; Start follows the record to the session; the
   handler runs [Set 7; RegenerateID; Set 8; LogIn user 6; Delete 1] - 9
   persistence calls, IDs 2 and 3 drawn - and the process stops after n of them,
   for every n. ca_resolved shows, for each n, the ID and the content that ID 0
   resolves to in the store: the states after 0, 1, 2, .. of the handler's
   operations (with LogIn's intermediate state "no user"), never anything else.

   Everything below is checked by computation on the model or by applying the
   theorems; nothing here is a general claim. *)
From Sessions Require Import Model.Base Model.Sess Model.Hist Model.Corr Proofs.SessDefs
  Proofs.HistInv Proofs.HistInv2 Proofs.HistInv3 Proofs.HistLift3 Proofs.HistLift4 Proofs.DeadLaws
  Proofs.LineageEx Proofs.LineageK Proofs.LineageK3 Proofs.LineageF Proofs.LineageKEx
  Proofs.CrashAny2 Proofs.CrashAny3 Proofs.CrashAny4 Proofs.CrashAny5.
From Sessions Require Proofs.CrashFault Proofs.CrashFault3 Proofs.CrashChain.

Definition ca_w : world := reach lx_cfg [HReq (lx_rq 1 PJar true [SSet 1 2; SLogIn (5, 1)%N false]); HWait 5].
Definition ca_r (crash : option nat) : reqstep :=
  lk_rq 2 (PForge (CKey (KGen 0))) false [SSet 7 7; SRegen; SSet 8 8; SLogIn (6, 1)%N false; SDel 1] crash.

Lemma ca_LIx : LIx (w_st ca_w).
Proof. apply LIx_reach. repeat constructor. Qed.

Example ca_world :
  map fst (store (w_st ca_w)) = [KGen 0; KGen 1] /\ graves (w_st ca_w) = [] /\ supply (w_st ca_w) = 2%N /\
  CrashChain.spath (fun _ => True) (store (w_st ca_w)) (KGen 0) [KGen 1] /\ graves_drawn (w_st ca_w).
Proof.
  split; [vm_compute; reflexivity|]. split; [vm_compute; reflexivity|]. split; [vm_compute; reflexivity|].
  split; [vm_compute; split; [eexists; split; reflexivity | eexists; repeat split]|].
  intros k H. vm_compute in H. exfalso. apply H. reflexivity.
Qed.

Example ca_step :
  let o := snd (step ca_w (HReq (ca_r None))) in
  ob_res o = RSess /\ option_map fst (ob_start o) = Some (KGen 1) /\ option_map fst (ob_final o) = Some (KGen 3) /\
  ob_cookies o = [CkLive (KGen 1); CkLive (KGen 2); CkLive (KGen 3)] /\
  length (filter is_call (ob_evs o)) = 9 /\ no_deletes (ob_evs o) /\ ~ In SDestroy (rq_script (ca_r None)).
Proof.
  cbv zeta. split; [vm_compute; reflexivity|]. split; [vm_compute; reflexivity|]. split; [vm_compute; reflexivity|].
  split; [vm_compute; reflexivity|]. split; [vm_compute; reflexivity|].
  split; [vm_compute; repeat constructor|]. vm_compute. intuition discriminate.
Qed.

(* what ID 0 resolves to in the store after a stop behind n calls, n = 0 .. 11 *)
Definition ca_res (n : nat) : option (key * list (N * N) * option N) :=
  let s' := w_st (fst (step ca_w (HReq (ca_r (Some n))))) in
  match CrashFault3.resolve (length (store s')) (store s') (KGen 0) with
  | Some (k, r) => Some (k, CrashFault3.dat r, CrashFault3.uid r)
  | None => None
  end.

Example ca_resolved :
  map ca_res (seq 0 12) =
  [Some (KGen 1, [(1, 2)], Some 5); Some (KGen 1, [(1, 2); (7, 7)], Some 5); Some (KGen 1, [(1, 2); (7, 7)], Some 5);
   Some (KGen 2, [(1, 2); (7, 7)], Some 5); Some (KGen 2, [(1, 2); (7, 7); (8, 8)], Some 5);
   Some (KGen 2, [(1, 2); (7, 7); (8, 8)], None); Some (KGen 2, [(1, 2); (7, 7); (8, 8)], Some 6);
   Some (KGen 2, [(1, 2); (7, 7); (8, 8)], Some 6); Some (KGen 3, [(1, 2); (7, 7); (8, 8)], Some 6);
   Some (KGen 3, [(7, 7); (8, 8)], Some 6); Some (KGen 3, [(7, 7); (8, 8)], Some 6); Some (KGen 3, [(7, 7); (8, 8)], Some 6)]%N.
Proof. vm_compute. reflexivity. Qed.

(* the theorems applied, for every n *)
Example ca_theorems : forall n,
  (forall k rk t, lookup (store (w_st (fst (step ca_w (HReq (ca_r (Some n))))))) k = Some rk -> r_ref rk = Some t ->
     lookup (store (w_st (fst (step ca_w (HReq (ca_r (Some n))))))) t <> None \/
     lookup (graves (w_st (fst (step ca_w (HReq (ca_r (Some n))))))) t <> None \/ gone_in (w_st ca_w) t) /\
  exists tl rend,
    CrashChain.spath (fun _ => True) (store (w_st (fst (step ca_w (HReq (ca_r (Some n))))))) (KGen 0) ([KGen 1] ++ tl) /\
    Forall (fresh_from_n 2) tl /\ r_ref rend = None /\
    lookup (store (w_st (fst (step ca_w (HReq (ca_r (Some n))))))) (last ([KGen 1] ++ tl) (KGen 0)) = Some rend.
Proof.
  intro n. destruct ca_world as (_ & _ & Hsup & Hp & Hg). destruct ca_step as (_ & _ & _ & _ & _ & Hnd & _).
  split; [exact (no_dangling_any ca_w (ca_r (Some n)) n ca_LIx eq_refl eq_refl)|].
  destruct (chain_resolves_stop_record ca_w (ca_r (Some n)) n (KGen 0) [KGen 1] ca_LIx Hg eq_refl eq_refl Hnd Hp)
    as (tl & rend & A & B & C & E & _).
  exists tl, rend. rewrite Hsup in B. auto.
Qed.

(* the completed step: the final ID 3 is stored as a session's record *)
Example ca_completed :
  exists rk, lookup (store (w_st (fst (step ca_w (HReq (nocrash (ca_r None))))))) (KGen 3) = Some rk /\ r_ref rk = None.
Proof.
  destruct ca_step as (_ & _ & _ & _ & _ & _ & Hns).
  destruct (ob_final (snd (step ca_w (HReq (nocrash (ca_r None)))))) as [[kf rcf]|] eqn:E; [|vm_compute in E; discriminate].
  assert (kf = KGen 3) by (vm_compute in E; injection E as <- _; reflexivity). subst kf.
  exact (completed_final_stored_any ca_w (ca_r None) ca_LIx eq_refl Hns (KGen 3) rcf E).
Qed.

(* ------------------------------------------------ the data theorem applied (CrashAny8.v) *)
From Sessions Require Import Proofs.CrashAny7 Proofs.CrashAny8.

Example ca_script_data :
  script_data [(1, 2)]%N (rq_script (ca_r None)) =
  [[(1, 2)]; [(1, 2); (7, 7)]; [(1, 2); (7, 7)]; [(1, 2); (7, 7); (8, 8)]; [(1, 2); (7, 7); (8, 8)]; [(7, 7); (8, 8)]]%N.
Proof. vm_compute. reflexivity. Qed.

Example ca_data_theorem : forall n,
  CrashChain.resolves_chain
    (fun rd => CrashFault3.dat rd = [(1, 2)]%N \/ In (CrashFault3.dat rd) (script_data [(1, 2)]%N (rq_script (ca_r None))))
    (store (w_st (fst (step ca_w (HReq (ca_r (Some n))))))) (KGen 0).
Proof.
  intro n. destruct ca_world as (_ & _ & _ & Hp & Hg). destruct ca_step as (_ & _ & _ & _ & _ & Hnd & _).
  destruct (lookup (store (w_st ca_w)) (last [KGen 1] (KGen 0))) as [rn|] eqn:Hrn; [|vm_compute in Hrn; discriminate].
  assert (HD : CrashFault3.dat rn = [(1, 2)]%N) by (vm_compute in Hrn; injection Hrn as <-; reflexivity).
  assert (H : CrashChain.resolves_chain
    (fun rd => CrashFault3.dat rd = CrashFault3.dat rn \/ In (CrashFault3.dat rd) (script_data [(1, 2)]%N (rq_script (ca_r (Some n)))))
    (store (w_st (fst (step ca_w (HReq (ca_r (Some n))))))) (KGen 0)); [|rewrite HD in H; exact H].
  apply (presented_data_any ca_w (ca_r (Some n)) n (KGen 0) [KGen 1] rn [(1, 2)]%N ca_LIx Hg eq_refl eq_refl Hnd eq_refl Hp Hrn).
  - intros o ob Hin Ho Hr. rewrite HD. vm_compute in Hin.
    destruct Hin as [Hin|[Hin|[]]]; [discriminate Hin|]. injection Hin as <-. vm_compute in Ho. injection Ho as <-. reflexivity.
  - intros id0 rc0 Hs. vm_compute in Hs. injection Hs as _ <-. reflexivity.
Qed.

(* ------------------------------------------------ the request after the restart (CrashAny11.v) *)
From Sessions Require Import Proofs.CrashAny9 Proofs.CrashAny11.
From Sessions Require Proofs.CrashRestart.

Definition ca_r2 : reqstep := lk_rq 2 (PForge (CKey (KGen 0))) false [] None.

(* computed, for every n: the session the next request is given *)
Example ca_restart_answers :
  map (fun n => let o := snd (step (fst (step ca_w (HReq (ca_r (Some n))))) (HReq ca_r2)) in
                (ob_res o, option_map (fun kr => (fst kr, CrashFault3.dat (snd kr), CrashFault3.uid (snd kr))) (ob_start o)))
      (seq 0 12) =
  [(RSess, Some (KGen 1, [(1, 2)], Some 5)); (RSess, Some (KGen 1, [(1, 2); (7, 7)], Some 5)); (RSess, Some (KGen 1, [(1, 2); (7, 7)], Some 5));
   (RSess, Some (KGen 2, [(1, 2); (7, 7)], Some 5)); (RSess, Some (KGen 2, [(1, 2); (7, 7); (8, 8)], Some 5));
   (RSess, Some (KGen 2, [(1, 2); (7, 7); (8, 8)], None)); (RSess, Some (KGen 2, [(1, 2); (7, 7); (8, 8)], Some 6));
   (RSess, Some (KGen 2, [(1, 2); (7, 7); (8, 8)], Some 6)); (RSess, Some (KGen 3, [(1, 2); (7, 7); (8, 8)], Some 6));
   (RSess, Some (KGen 3, [(7, 7); (8, 8)], Some 6)); (RSess, Some (KGen 3, [(7, 7); (8, 8)], Some 6)); (RSess, Some (KGen 3, [(7, 7); (8, 8)], Some 6))]%N.
Proof. vm_compute. reflexivity. Qed.

(* the theorem applied at n = 3 (the stop falls between the two saves of RegenerateID) *)
Example ca_restart_theorem :
  let w' := fst (step ca_w (HReq (ca_r (Some 3)))) in
  ob_res (snd (step w' (HReq ca_r2))) = RSess /\
  exists id rc, ob_start (snd (step w' (HReq ca_r2))) = Some (id, rc) /\ r_ref rc = None /\
    (CrashFault3.dat rc = [(1, 2)]%N \/ In (CrashFault3.dat rc) (script_data [(1, 2)]%N (rq_script (ca_r None)))).
Proof.
  cbv zeta. destruct ca_world as (_ & _ & _ & Hp & Hg). destruct ca_step as (_ & _ & _ & _ & _ & Hnd & _).
  destruct (lookup (store (w_st ca_w)) (last [KGen 1] (KGen 0))) as [rn|] eqn:Hrn; [|vm_compute in Hrn; discriminate].
  assert (HD : CrashFault3.dat rn = [(1, 2)]%N) by (vm_compute in Hrn; injection Hrn as <-; reflexivity).
  assert (H : ob_res (snd (step (fst (step ca_w (HReq (ca_r (Some 3))))) (HReq ca_r2))) = RSess /\
    exists id rc, ob_start (snd (step (fst (step ca_w (HReq (ca_r (Some 3))))) (HReq ca_r2))) = Some (id, rc) /\ r_ref rc = None /\
      (CrashFault3.dat rc = CrashFault3.dat rn \/ In (CrashFault3.dat rc) (script_data [(1, 2)]%N (rq_script (ca_r (Some 3))))));
    [|rewrite HD in H; exact H].
  apply (restart_presented ca_w (ca_r (Some 3)) 3 (KGen 0) [KGen 1] rn [(1, 2)]%N ca_r2 ca_LIx Hg eq_refl eq_refl Hnd eq_refl Hp Hrn).
  - intros o ob Hin Ho Hr. rewrite HD. vm_compute in Hin.
    destruct Hin as [Hin|[Hin|[]]]; [discriminate Hin|]. injection Hin as <-. vm_compute in Ho. injection Ho as <-. reflexivity.
  - intros id0 rc0 Hs. vm_compute in Hs. injection Hs as _ <-. reflexivity.
  - reflexivity.
  - reflexivity.
  - reflexivity.
  - intros rk Hk. vm_compute in Hk. injection Hk as <-. split; [vm_compute; reflexivity | intros _; vm_compute; reflexivity].
Qed.

(* ------------------------------------------------ a step that goes on to Destroy, stopped before *)
From Sessions Require Import Proofs.CrashAny12.

Definition ca_rd (crash : option nat) : reqstep :=
  lk_rq 2 (PForge (CKey (KGen 0))) false [SSet 7 7; SRegen; SDestroy] crash.

(* the completed step deletes (the old forms do not apply); the first 3 calls do not *)
Example ca_destroy_log :
  ~ no_deletes (ob_evs (snd (step ca_w (HReq (ca_rd None))))) /\
  no_deletes (ev_prefix (ob_evs (snd (step ca_w (HReq (nocrash (ca_rd (Some 3)))))) ) 3) /\
  length (filter is_call (ob_evs (snd (step ca_w (HReq (ca_rd None)))))) = 4.
Proof.
  split; [|split; [vm_compute; repeat constructor | vm_compute; reflexivity]].
  intro H. assert (B : forallb (fun e => negb (CrashFault.is_delete e)) (ob_evs (snd (step ca_w (HReq (ca_rd None))))) = true).
  { apply forallb_forall. intros e He. unfold no_deletes in H. rewrite Forall_forall in H. rewrite (H e He). reflexivity. }
  vm_compute in B. discriminate B.
Qed.

Example ca_destroy_pre :
  CrashChain.resolves_chain
    (fun rd => CrashFault3.dat rd = [(1, 2)]%N \/ In (CrashFault3.dat rd) (script_data [(1, 2)]%N (rq_script (ca_rd None))))
    (store (w_st (fst (step ca_w (HReq (ca_rd (Some 3))))))) (KGen 0).
Proof.
  destruct ca_world as (_ & _ & _ & Hp & Hg). destruct ca_destroy_log as (_ & Hnd & _).
  destruct (lookup (store (w_st ca_w)) (last [KGen 1] (KGen 0))) as [rn|] eqn:Hrn; [|vm_compute in Hrn; discriminate].
  assert (HD : CrashFault3.dat rn = [(1, 2)]%N) by (vm_compute in Hrn; injection Hrn as <-; reflexivity).
  assert (H : CrashChain.resolves_chain
    (fun rd => CrashFault3.dat rd = CrashFault3.dat rn \/ In (CrashFault3.dat rd) (script_data [(1, 2)]%N (rq_script (ca_rd (Some 3)))))
    (store (w_st (fst (step ca_w (HReq (ca_rd (Some 3))))))) (KGen 0)); [|rewrite HD in H; exact H].
  apply (presented_data_pre ca_w (ca_rd (Some 3)) 3 (KGen 0) [KGen 1] rn [(1, 2)]%N ca_LIx Hg eq_refl eq_refl Hnd eq_refl Hp Hrn).
  - intros o ob Hin Ho Hr. rewrite HD. vm_compute in Hin.
    destruct Hin as [Hin|[Hin|[]]]; [discriminate Hin|]. injection Hin as <-. vm_compute in Ho. injection Ho as <-. reflexivity.
  - intros id0 rc0 Hs. vm_compute in Hs. injection Hs as _ <-. reflexivity.
Qed.
