(* The composed system of Model/StartConc.v: non-vacuity and the refutations
   (task R2 (d)).
   World: a session whose ID KGen 1 is due (C04ConcEx's history), JSON codec,
   grace period 5 s, the cache switched off (so that two look-ups return two
   objects: with a cache that keeps the session both look-ups return ONE heap
   object and the second goroutine's age test, which belongs to the rest of
   Start, already sees the new creation time; the double rotation then needs a
   cut between the age test and RegenerateID, finer than the one made here).
   Three goroutines carrying the old cookie.
   - locked_ex: an admissible run of the locked system in which goroutine 1 is
     served first, then 2, then 0, the clock advancing in between; every
     hypothesis of one_new_id holds; all three report KGen 2, one draw.
   - unlocked_refuted: the same world and requests WITHOUT the lock, schedule
     look-up 0, look-up 1, rest 0, rest 1: both are between look-up and rest
     at once, two IDs are drawn, the goroutines report different IDs.
   - state_hyps_cache_ex, locked_cache_ex, locked_cache_reports_ex,
     unlocked_cache_reports_ex (end of the file): the same with a cache of 10.
   - inadmissible_refuted: WITH the lock but along a run that violates C13's
     proviso (a purge drops a held entry as stale: C13_needs_hold_bound_refuted),
     two goroutines hold the key, and again two IDs are drawn. *)
From Sessions Require Import Model.Base Model.Mutex Model.StartConc Proofs.MutexBasics Proofs.MutexSafety
  Proofs.MutexTheorems Proofs.StartConc Proofs.StartConc2 Proofs.StartConc3 Proofs.StartConc4 Proofs.StartConc6.
From Sessions Require Import Model.Sess Model.Hist Proofs.SessDefs
  Proofs.HistInv Proofs.HistInv3 Proofs.HistLift3 Proofs.HistLift4 Proofs.HistLift8 Proofs.HistLift9
  Proofs.C04Conc2 Proofs.C04Conc3 Proofs.C04ConcEx.
From Sessions Require Proofs.RotateLaws2 Proofs.RotateLaws3 Proofs.StartLaws4 Proofs.C01Spec.
From Coq Require Import Lia.

Lemma cadmb_run_sound locked reqs : forall ls cs,
  cadmb_run locked reqs cs ls = true -> cadm_run locked reqs cs ls.
Proof.
  induction ls as [|l ls IH]; intros cs H; cbn [cadmb_run cadm_run] in *; [exact Logic.I|].
  apply andb_true_iff in H as [H1 H2]. split.
  - destruct l; cbn [cadmb cadm] in *; try exact Logic.I. apply admb_adm. exact H1.
  - destruct (cstep locked reqs cs l); [apply IH; exact H2 | exact Logic.I].
Qed.

Definition wK : world := reach (cM 0) preE.
Definition reqsK : list reqstep :=
  [rqE 1 (PForge (CKey kE)) 5; rqE 1 (PForge (CKey kE)) 6; rqE 2 (PForge (CKey kE)) 9].

(* the lock key of the presented ID *)
Definition kkE : nat := key_code kE.

Lemma reqsK_plain : Forall (plain_on kkE) reqsK.
Proof. repeat constructor; exists kE; split; reflexivity. Qed.

Lemma wK_LI : LI (w_st wK).
Proof. apply LI_reach'; repeat constructor. Qed.

(* what an observation says, for reading the examples *)
Definition summ (o : obs) :=
  (ob_res o, ob_cookies o,
   option_map (fun x => (fst x, C01Spec.content_of (snd x))) (ob_start o), dlist (ob_evs o), ob_drawn o).
Definition reports (cs : cstate) :=
  map (fun p => match p with PDone o => Some (summ o) | _ => None end) (c_ph cs).

(* the hypotheses of one_new_id on the state and the requests *)
Example state_hyps_ex :
  exists rc, LI (w_st wK) /\ L (w_st wK) kE = Some rc /\ r_ref rc = None /\
    (c_idexpiry (conf (w_st wK)) <= since (r_created rc) (now (w_st wK)))%Z /\
    (0 < c_grace (conf (w_st wK)))%Z /\
    (since (r_access rc) (now (w_st wK)) < c_expiry (conf (w_st wK)))%Z /\
    Forall (acc_req kE rc (conf (w_st wK))) reqsK /\ supply (w_st wK) = 2%N.
Proof.
  eexists. split; [exact wK_LI|]. split; [vm_compute; reflexivity|]. split; [reflexivity|].
  split; [vm_compute; discriminate|]. split; [vm_compute; reflexivity|]. split; [vm_compute; reflexivity|].
  split; [|vm_compute; reflexivity].
  repeat constructor.
Qed.

(* ---- the locked system: served in the order 1, 2, 0 ---- *)
Definition runK : list clabel :=
  [CL (LStart 0); CL (LStart 1); CL (LStart 2);
   CL (LAcquire 1); CL (LMgrGet false); CL (LGet 1 false); CL (LGrant 1);      (* 1 holds *)
   CL (LAcquire 2); CL (LMgrGet false); CL (LGet 2 false);                    (* 2 waits *)
   CL (LAcquire 0); CL (LMgrGet false); CL (LGet 0 false);                    (* 0 waits *)
   CLook 1; CRest 1; CL (LLeave 1); CL (LRelease 1); CL (LMgrGet false); CL (LGrant 2);
   CTick 1500000000;
   CLook 2; CRest 2; CL (LLeave 2); CL (LRelease 2); CL (LMgrGet false); CL (LGrant 0);
   CTick 0; CTick 1000000000;
   CLook 0; CRest 0; CL (LLeave 0); CL (LRelease 0); CL (LMgrGet false)].

Definition csK : cstate :=
  match crun true reqsK (cinit kkE reqsK wK 0) runK with Some cs => cs | None => cinit kkE reqsK wK 0 end.

Example locked_ex :
  CI0 kkE reqsK wK (cinit kkE reqsK wK 0) /\
  crun true reqsK (cinit kkE reqsK wK 0) runK = Some csK /\
  cadm_run true reqsK (cinit kkE reqsK wK 0) runK /\
  c_acts csK = [AReq 0; ATick 1000000000; ATick 0; AReq 2; ATick 1500000000; AReq 1] /\
  request_first (c_acts csK) /\ Forall tick_nonneg (c_acts csK) /\
  (ticks (c_acts csK) < c_grace (conf (w_st wK)))%Z /\
  (ticks (c_acts csK) + StartLaws4.slack (conf (w_st wK)) < c_expiry (conf (w_st wK)))%Z /\
  (ticks (c_acts csK) + StartLaws4.slack (conf (w_st wK)) <
     sat_add (c_idexpiry (conf (w_st wK))) (c_grace (conf (w_st wK))))%Z /\
  all_done csK = true.
Proof.
  split; [apply cinit_ci0; exact reqsK_plain|]. split; [vm_compute; reflexivity|].
  split; [apply cadmb_run_sound; vm_compute; reflexivity|].
  assert (E : c_acts csK = [AReq 0; ATick 1000000000; ATick 0; AReq 2; ATick 1500000000; AReq 1])
    by (vm_compute; reflexivity).
  split; [exact E|]. rewrite E. split; [exact Logic.I|].
  split; [repeat constructor; cbn [tick_nonneg]; lia|].
  split; [vm_compute; reflexivity|]. split; [vm_compute; reflexivity|]. split; [vm_compute; reflexivity|].
  vm_compute; reflexivity.
Qed.

(* what the three goroutines report, read off by computation: the session under
   KGen 2 with the data and user of the old record; one draw, by goroutine 1 *)
Example locked_reports_ex :
  reports csK =
    [Some (RSess, [CkLive (KGen 2)], Some (KGen 2, ([(1, 2)]%N, Some 7%N)), [], 3%N);
     Some (RSess, [CkLive (KGen 2)], Some (KGen 2, ([(1, 2)]%N, Some 7%N)), [2%N], 3%N);
     Some (RSess, [CkLive (KGen 2)], Some (KGen 2, ([(1, 2)]%N, Some 7%N)), [], 3%N)] /\
  supply (c_st csK) = 3%N /\
  map fst (snd (serial reqsK wK (c_acts csK))) = [0; 2; 1].
Proof. vm_compute. repeat split. Qed.

(* a state of that run in which goroutine 1 is between look-up and rest while
   2 and 0 wait for the lock *)
Example locked_mid_ex :
  exists cs, crun true reqsK (cinit kkE reqsK wK 0) (firstn 14 runK) = Some cs /\
    map is_looked (c_ph cs) = [false; true; false] /\
    holds_key (c_lock cs) 1 kkE = true /\ cA (c_lock cs) kkE = 2.
Proof. eexists. split; [vm_compute; reflexivity|]. vm_compute. repeat split. Qed.

(* ---- without the lock ---- *)
Definition runU : list clabel := [CLook 0; CLook 1; CRest 0; CRest 1].
Definition csU : cstate :=
  match crun false reqsK (cinit kkE reqsK wK 0) runU with Some cs => cs | None => cinit kkE reqsK wK 0 end.

Theorem unlocked_refuted :
  exists reqs k rc w ls cs mid,
    (* the hypotheses of one_new_id on the state and the requests *)
    LI (w_st w) /\ L (w_st w) k = Some rc /\ r_ref rc = None /\
    (c_idexpiry (conf (w_st w)) <= since (r_created rc) (now (w_st w)))%Z /\
    (0 < c_grace (conf (w_st w)))%Z /\
    (since (r_access rc) (now (w_st w)) < c_expiry (conf (w_st w)))%Z /\
    Forall (acc_req k rc (conf (w_st w))) reqs /\
    (* a run of the system without the lock, the clock frozen *)
    crun false reqs (cinit (key_code k) reqs w 0) ls = Some cs /\
    request_first (c_acts cs) /\ ticks (c_acts cs) = 0%Z /\
    (* two goroutines between look-up and rest at once *)
    crun false reqs (cinit (key_code k) reqs w 0) (firstn 2 ls) = Some mid /\
    is_looked (nth 0 (c_ph mid) PIdle) = true /\ is_looked (nth 1 (c_ph mid) PIdle) = true /\
    (* two IDs drawn, two different sessions reported *)
    let n := supply (w_st w) in
    exists o0 o1,
      nth_error (c_ph cs) 0 = Some (PDone o0) /\ nth_error (c_ph cs) 1 = Some (PDone o1) /\
      ob_res o0 = RSess /\ ob_res o1 = RSess /\
      ob_cookies o0 = [CkLive (KGen n)] /\ ob_cookies o1 = [CkLive (KGen (n + 1))] /\
      option_map fst (ob_start o0) = Some (KGen n) /\ option_map fst (ob_start o1) = Some (KGen (n + 1)) /\
      supply (c_st cs) = (n + 2)%N.
Proof.
  destruct state_hyps_ex as (rc & H1 & H2 & H3 & H4 & H5 & H6 & H7 & _).
  exists reqsK, kE, rc, wK, runU, csU. eexists.
  split; [exact H1|]. split; [exact H2|]. split; [exact H3|]. split; [exact H4|]. split; [exact H5|].
  split; [exact H6|]. split; [exact H7|].
  split; [vm_compute; reflexivity|]. split; [vm_compute; exact Logic.I|]. split; [vm_compute; reflexivity|].
  split; [vm_compute; reflexivity|]. split; [vm_compute; reflexivity|]. split; [vm_compute; reflexivity|].
  cbv zeta. eexists. eexists. split; [vm_compute; reflexivity|]. split; [vm_compute; reflexivity|].
  vm_compute. repeat split.
Qed.

Example unlocked_reports_ex :
  reports csU =
    [Some (RSess, [CkLive (KGen 2)], Some (KGen 2, ([(1, 2)]%N, Some 7%N)), [2%N], 3%N);
     Some (RSess, [CkLive (KGen 3)], Some (KGen 3, ([(1, 2)]%N, Some 7%N)), [2%N; 3%N], 4%N);
     None] /\
  supply (c_st csU) = 4%N.
Proof. vm_compute. repeat split. Qed.

(* ---- with the lock, but along a run that breaks C13's proviso ---- *)
Definition runI : list clabel :=
  map CL
    [LStart 0; LAcquire 0; LMgrGet false; LGet 0 false; LGrant 0;        (* g0 holds the key *)
     LStart 1; LAcquire 1; LMgrGet false; LGet 1 false;                 (* g1 waits *)
     LPurgeReq; LPurge [(kkE, true, false)];                            (* entry dropped as stale *)
     LStart 2; LAcquire 2; LMgrGet false; LGet 2 false; LGrant 2]       (* g2 is let in *)
  ++ [CLook 0; CLook 2; CRest 0; CRest 2].
Definition csI : cstate :=
  match crun true reqsK (cinit kkE reqsK wK 1) runI with Some cs => cs | None => cinit kkE reqsK wK 1 end.

Theorem inadmissible_refuted :
  crun true reqsK (cinit kkE reqsK wK 1) runI = Some csI /\
  cadmb_run true reqsK (cinit kkE reqsK wK 1) runI = false /\
  exists o0 o2,
    nth_error (c_ph csI) 0 = Some (PDone o0) /\ nth_error (c_ph csI) 2 = Some (PDone o2) /\
    ob_cookies o0 = [CkLive (KGen 2)] /\ ob_cookies o2 = [CkLive (KGen 3)] /\
    supply (c_st csI) = 4%N.
Proof.
  split; [vm_compute; reflexivity|]. split; [vm_compute; reflexivity|].
  eexists. eexists. split; [vm_compute; reflexivity|]. split; [vm_compute; reflexivity|].
  vm_compute. repeat split.
Qed.

(* ---- progress: from the state of locked_mid_ex a tick-free admissible run
   lets all three finish (an instance of c_completes, by its proof) ---- *)
Example completes_ex :
  exists cs, crun true reqsK (cinit kkE reqsK wK 0) (firstn 14 runK) = Some cs /\
    CI kkE reqsK wK cs /\ all_done cs = false /\
    exists ls cs', crun true reqsK cs ls = Some cs' /\ cadm_run true reqsK cs ls /\
                   Forall no_tick ls /\ all_done cs' = true.
Proof.
  destruct (crun true reqsK (cinit kkE reqsK wK 0) (firstn 14 runK)) as [cs|] eqn:E; [|vm_compute in E; discriminate].
  exists cs. split; [reflexivity|].
  assert (HC : CI kkE reqsK wK cs).
  { eapply ci_run; [apply ci0_ci; apply cinit_ci0; exact reqsK_plain | exact E|].
    apply cadmb_run_sound. vm_compute. reflexivity. }
  split; [exact HC|]. split; [|apply (c_completes kkE reqsK wK cs HC)].
  vm_compute in E. injection E as <-. vm_compute. reflexivity.
Qed.

(* ---- the clock advancing before the first look-up (one_new_id_any_start):
   half a second passes while the goroutines queue for the lock; the
   hypotheses hold of the world in which goroutine 1 then looks up ---- *)
Definition preK : list clabel := CTick 500000000 :: firstn 13 runK.
Definition postK : list clabel := skipn 13 runK.
Definition csK1 : cstate :=
  match crun true reqsK (cinit kkE reqsK wK 0) preK with Some cs => cs | None => cinit kkE reqsK wK 0 end.

Example any_start_ex :
  crun true reqsK (cinit kkE reqsK wK 0) preK = Some csK1 /\
  (exists cs, crun true reqsK csK1 postK = Some cs /\ all_done cs = true) /\
  cadm_run true reqsK (cinit kkE reqsK wK 0) (preK ++ postK) /\
  Forall StartConc6.pre_label preK /\ (exists post', postK = CLook 1 :: post') /\
  let w := world_of csK1 in
  now (w_st w) = (now (w_st wK) + 500000000)%Z /\
  exists rc, LI (w_st w) /\ L (w_st w) kE = Some rc /\ r_ref rc = None /\
    (c_idexpiry (conf (w_st w)) <= since (r_created rc) (now (w_st w)))%Z /\
    (0 < c_grace (conf (w_st w)))%Z /\
    (since (r_access rc) (now (w_st w)) < c_expiry (conf (w_st w)))%Z /\
    Forall (acc_req kE rc (conf (w_st w))) reqsK /\
    Forall tick_nonneg (rev (acts_of postK)) /\
    (ticks (rev (acts_of postK)) < c_grace (conf (w_st w)))%Z /\
    (ticks (rev (acts_of postK)) + StartLaws4.slack (conf (w_st w)) < c_expiry (conf (w_st w)))%Z /\
    (ticks (rev (acts_of postK)) + StartLaws4.slack (conf (w_st w)) <
       sat_add (c_idexpiry (conf (w_st w))) (c_grace (conf (w_st w))))%Z.
Proof.
  split; [vm_compute; reflexivity|]. split; [eexists; split; vm_compute; reflexivity|].
  split; [apply cadmb_run_sound; vm_compute; reflexivity|].
  split; [repeat constructor|]. split; [eexists; reflexivity|]. cbv zeta.
  split; [vm_compute; reflexivity|].
  assert (Ew : world_of csK1 = fst (Hist.step wK (HWait 500000000))) by (vm_compute; reflexivity).
  eexists. split; [rewrite Ew; apply LI_step_wait; exact wK_LI|].
  split; [vm_compute; reflexivity|]. split; [reflexivity|].
  split; [vm_compute; discriminate|]. split; [vm_compute; reflexivity|]. split; [vm_compute; reflexivity|].
  split; [repeat constructor|].
  split; [|split; [|split]; vm_compute; reflexivity].
  assert (E : rev (acts_of postK) = [AReq 0; ATick 1000000000; ATick 0; AReq 2; ATick 1500000000; AReq 1])
    by (vm_compute; reflexivity).
  rewrite E. repeat constructor; cbn [tick_nonneg]; lia.
Qed.

(* ---- the same with the local cache on (cache of 10 entries) ----
   The session is cached, so every look-up returns the SAME heap object.
   Locked: as before, one draw, all three on KGen 2 (locked_cache_ex,
   locked_cache_reports_ex). Unlocked, schedule look-up 0, look-up 1, rest 0,
   rest 1: only ONE ID is drawn, because Start's age test belongs to the rest
   and goroutine 1's rest reads the creation time from the shared object that
   goroutine 0 has just rotated; what goes wrong instead is that goroutine 1,
   holding the live object and not the replaced-ID record, is handed the
   session under KGen 2 with NO cookie redirecting it (unlocked_cache_reports_ex;
   the second effect described in seeded/C04-r2-3). To show a double mint with
   the cache on the cut would have to lie between the age test and
   RegenerateID, inside start_rest: the single cut made here is too coarse. *)
Definition wC : world := reach (cM 10) preE.

Lemma wC_LI : LI (w_st wC).
Proof. apply LI_reach'; repeat constructor. Qed.

Example state_hyps_cache_ex :
  exists rc, LI (w_st wC) /\ L (w_st wC) kE = Some rc /\ r_ref rc = None /\
    (c_idexpiry (conf (w_st wC)) <= since (r_created rc) (now (w_st wC)))%Z /\
    (0 < c_grace (conf (w_st wC)))%Z /\
    (since (r_access rc) (now (w_st wC)) < c_expiry (conf (w_st wC)))%Z /\
    Forall (acc_req kE rc (conf (w_st wC))) reqsK /\ supply (w_st wC) = 2%N /\
    c_maxcache (conf (w_st wC)) = 10%Z /\ map fst (cache (w_st wC)) = [kE].
Proof.
  eexists. split; [exact wC_LI|]. split; [vm_compute; reflexivity|]. split; [reflexivity|].
  split; [vm_compute; discriminate|]. split; [vm_compute; reflexivity|]. split; [vm_compute; reflexivity|].
  split; [repeat constructor|]. vm_compute. repeat split.
Qed.

Definition csC : cstate :=
  match crun true reqsK (cinit kkE reqsK wC 0) runK with Some cs => cs | None => cinit kkE reqsK wC 0 end.

Example locked_cache_ex :
  CI0 kkE reqsK wC (cinit kkE reqsK wC 0) /\
  crun true reqsK (cinit kkE reqsK wC 0) runK = Some csC /\
  cadm_run true reqsK (cinit kkE reqsK wC 0) runK /\
  c_acts csC = [AReq 0; ATick 1000000000; ATick 0; AReq 2; ATick 1500000000; AReq 1] /\
  request_first (c_acts csC) /\ Forall tick_nonneg (c_acts csC) /\
  (ticks (c_acts csC) < c_grace (conf (w_st wC)))%Z /\
  (ticks (c_acts csC) + StartLaws4.slack (conf (w_st wC)) < c_expiry (conf (w_st wC)))%Z /\
  (ticks (c_acts csC) + StartLaws4.slack (conf (w_st wC)) <
     sat_add (c_idexpiry (conf (w_st wC))) (c_grace (conf (w_st wC))))%Z /\
  all_done csC = true.
Proof.
  split; [apply cinit_ci0; exact reqsK_plain|]. split; [vm_compute; reflexivity|].
  split; [apply cadmb_run_sound; vm_compute; reflexivity|].
  assert (E : c_acts csC = [AReq 0; ATick 1000000000; ATick 0; AReq 2; ATick 1500000000; AReq 1])
    by (vm_compute; reflexivity).
  split; [exact E|]. rewrite E. split; [exact Logic.I|].
  split; [repeat constructor; cbn [tick_nonneg]; lia|].
  split; [vm_compute; reflexivity|]. split; [vm_compute; reflexivity|]. split; [vm_compute; reflexivity|].
  vm_compute; reflexivity.
Qed.

Example locked_cache_reports_ex :
  reports csC =
    [Some (RSess, [CkLive (KGen 2)], Some (KGen 2, ([(1, 2)]%N, Some 7%N)), [], 3%N);
     Some (RSess, [CkLive (KGen 2)], Some (KGen 2, ([(1, 2)]%N, Some 7%N)), [2%N], 3%N);
     Some (RSess, [CkLive (KGen 2)], Some (KGen 2, ([(1, 2)]%N, Some 7%N)), [], 3%N)] /\
  supply (c_st csC) = 3%N /\
  map fst (snd (serial reqsK wC (c_acts csC))) = [0; 2; 1].
Proof. vm_compute. repeat split. Qed.

Definition csUC : cstate :=
  match crun false reqsK (cinit kkE reqsK wC 0) runU with Some cs => cs | None => cinit kkE reqsK wC 0 end.

Example unlocked_cache_reports_ex :
  crun false reqsK (cinit kkE reqsK wC 0) runU = Some csUC /\
  map (fun o => option_map (fun p => (ob_res p, ob_cookies p, option_map fst (ob_start p), ob_drawn p))
                 (match o with PDone p => Some p | _ => None end)) (c_ph csUC) =
    [Some (RSess, [CkLive (KGen 2)], Some (KGen 2), 3%N);
     Some (RSess, [], Some (KGen 2), 3%N);
     None] /\
  supply (c_st csUC) = 3%N.
Proof. split; [vm_compute; reflexivity|]. vm_compute. repeat split. Qed.
