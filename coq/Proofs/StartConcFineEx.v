(* The finer system of Model/StartConcFine.v: the refutation with the cache ON,
   and non-vacuity of the locked theorems. World wC of Proofs/StartConcEx.v: a
   session whose ID KGen 1 is due, JSON codec, grace period 5 s, a cache of 10
   entries that holds the session; three goroutines carrying the old cookie.
   - unlocked_cache_refuted: WITHOUT the lock, schedule look-up 0, look-up 1,
     read 0, read 1, rest 0, rest 1. Both look-ups return the one cached heap
     object; both reads see its old creation time; rest 0 rotates it to KGen 2;
     rest 1, driven by the age it read, rotates THE SAME OBJECT again to
     KGen 3: two IDs drawn, the goroutines report different IDs - the double
     mint that the single cut of Model/StartConc.v cannot show with the cache
     on (unlocked_cache_reports_ex there: one draw).
   - fine_locked_ex: an admissible run of the locked fine system (the run of
     locked_cache_ex with every look-up followed by its read), all hypotheses
     of fine_one_new_id; fine_locked_reports_ex: one draw, all on KGen 2. *)
From Sessions Require Import Model.Base Model.Mutex Model.StartConc Model.StartConcFine Proofs.MutexBasics
  Proofs.MutexTheorems Proofs.StartConc Proofs.StartConc2 Proofs.StartConc3 Proofs.StartConcFine
  Proofs.StartConcFine2 Proofs.StartConcEx.
From Sessions Require Import Model.Sess Model.Hist Proofs.SessDefs
  Proofs.HistLift3 Proofs.HistLift4 Proofs.HistLift8 Proofs.C04Conc2 Proofs.C04Conc3 Proofs.C04ConcEx.
From Sessions Require Proofs.StartLaws4 Proofs.C01Spec.
From Coq Require Import Lia.

Lemma fadmb_run_sound locked reqs : forall ls fs,
  fadmb_run locked reqs fs ls = true -> fadm_run locked reqs fs ls.
Proof.
  induction ls as [|l ls IH]; intros fs H; cbn [fadmb_run fadm_run] in *; [exact Logic.I|].
  apply andb_true_iff in H as [H1 H2]. split.
  - destruct l; cbn [fadmb fadm] in *; try exact Logic.I. apply admb_adm. exact H1.
  - destruct (fstep locked reqs fs l); [apply IH; exact H2 | exact Logic.I].
Qed.

Definition freports (fs : fstate) :=
  map (fun p => match p with FDone o => Some (summ o) | _ => None end) (f_ph fs).

(* ---- without the lock, the cache on ---- *)
Definition runUF : list flabel := [FLook 0; FLook 1; FReadL 0; FReadL 1; FRest 0; FRest 1].
Definition fsU : fstate :=
  match frun false reqsK (finit kkE reqsK wC 0) runUF with Some fs => fs | None => finit kkE reqsK wC 0 end.

Theorem unlocked_cache_refuted :
  exists reqs k rc w ls fs mid,
    (* the hypotheses of fine_one_new_id on the state and the requests *)
    LI (w_st w) /\ L (w_st w) k = Some rc /\ r_ref rc = None /\
    (c_idexpiry (conf (w_st w)) <= since (r_created rc) (now (w_st w)))%Z /\
    (0 < c_grace (conf (w_st w)))%Z /\
    (since (r_access rc) (now (w_st w)) < c_expiry (conf (w_st w)))%Z /\
    Forall (acc_req k rc (conf (w_st w))) reqs /\
    (* the cache is on and holds the session *)
    c_maxcache (conf (w_st w)) = 10%Z /\ map fst (cache (w_st w)) = [k] /\
    (* a run of the fine system without the lock, the clock frozen *)
    frun false reqs (finit (key_code k) reqs w 0) ls = Some fs /\
    request_first (f_acts fs) /\ ticks (f_acts fs) = 0%Z /\
    (* after look-up 0, look-up 1, read 0, read 1 both have read the same age *)
    frun false reqs (finit (key_code k) reqs w 0) (firstn 4 ls) = Some mid /\
    (exists s0 jar c b s0' jar' c' b' o rd,
       nth_error (f_ph mid) 0 = Some (FRead s0 jar (Some (k, o)) c b rd) /\
       nth_error (f_ph mid) 1 = Some (FRead s0' jar' (Some (k, o)) c' b' rd)) /\
    (* two IDs drawn, two different sessions reported *)
    let n := supply (w_st w) in
    exists o0 o1,
      nth_error (f_ph fs) 0 = Some (FDone o0) /\ nth_error (f_ph fs) 1 = Some (FDone o1) /\
      ob_res o0 = RSess /\ ob_res o1 = RSess /\
      ob_cookies o0 = [CkLive (KGen n)] /\ ob_cookies o1 = [CkLive (KGen (n + 1))] /\
      option_map fst (ob_start o0) = Some (KGen n) /\ option_map fst (ob_start o1) = Some (KGen (n + 1)) /\
      supply (f_st fs) = (n + 2)%N.
Proof.
  destruct state_hyps_cache_ex as (rc & H1 & H2 & H3 & H4 & H5 & H6 & H7 & _ & H9 & H10).
  exists reqsK, kE, rc, wC, runUF, fsU. eexists.
  split; [exact H1|]. split; [exact H2|]. split; [exact H3|]. split; [exact H4|]. split; [exact H5|].
  split; [exact H6|]. split; [exact H7|]. split; [exact H9|]. split; [exact H10|].
  split; [vm_compute; reflexivity|]. split; [vm_compute; exact Logic.I|]. split; [vm_compute; reflexivity|].
  split; [vm_compute; reflexivity|].
  split; [do 10 eexists; split; vm_compute; reflexivity|].
  cbv zeta. eexists. eexists. split; [vm_compute; reflexivity|]. split; [vm_compute; reflexivity|].
  vm_compute. repeat split.
Qed.

Example unlocked_cache_fine_reports_ex :
  freports fsU =
    [Some (RSess, [CkLive (KGen 2)], Some (KGen 2, ([(1, 2)]%N, Some 7%N)), [2%N], 3%N);
     Some (RSess, [CkLive (KGen 3)], Some (KGen 3, ([(1, 2)]%N, Some 7%N)), [2%N; 3%N], 4%N);
     None] /\
  supply (f_st fsU) = 4%N.
Proof. vm_compute. repeat split. Qed.

(* ---- the locked fine system, the cache on ---- *)
Definition fine_of (l : clabel) : list flabel :=
  match l with
  | CL l => [FL l] | CLook g => [FLook g; FReadL g] | CRest g => [FRest g] | CTick d => [FTick d]
  end.
Definition runKF : list flabel := flat_map fine_of runK.
Definition fsK : fstate :=
  match frun true reqsK (finit kkE reqsK wC 0) runKF with Some fs => fs | None => finit kkE reqsK wC 0 end.

Example fine_locked_ex :
  FI0 kkE reqsK wC (finit kkE reqsK wC 0) /\
  frun true reqsK (finit kkE reqsK wC 0) runKF = Some fsK /\
  fadm_run true reqsK (finit kkE reqsK wC 0) runKF /\
  f_acts fsK = [AReq 0; ATick 1000000000; ATick 0; AReq 2; ATick 1500000000; AReq 1] /\
  request_first (f_acts fsK) /\ Forall tick_nonneg (f_acts fsK) /\
  (ticks (f_acts fsK) < c_grace (conf (w_st wC)))%Z /\
  (ticks (f_acts fsK) + StartLaws4.slack (conf (w_st wC)) < c_expiry (conf (w_st wC)))%Z /\
  (ticks (f_acts fsK) + StartLaws4.slack (conf (w_st wC)) <
     sat_add (c_idexpiry (conf (w_st wC))) (c_grace (conf (w_st wC))))%Z /\
  f_all_done fsK = true.
Proof.
  split; [apply finit_fi0; exact reqsK_plain|]. split; [vm_compute; reflexivity|].
  split; [apply fadmb_run_sound; vm_compute; reflexivity|].
  assert (E : f_acts fsK = [AReq 0; ATick 1000000000; ATick 0; AReq 2; ATick 1500000000; AReq 1])
    by (vm_compute; reflexivity).
  split; [exact E|]. rewrite E. split; [exact Logic.I|].
  split; [repeat constructor; cbn [tick_nonneg]; lia|].
  split; [vm_compute; reflexivity|]. split; [vm_compute; reflexivity|]. split; [vm_compute; reflexivity|].
  vm_compute; reflexivity.
Qed.

Example fine_locked_reports_ex :
  freports fsK =
    [Some (RSess, [CkLive (KGen 2)], Some (KGen 2, ([(1, 2)]%N, Some 7%N)), [], 3%N);
     Some (RSess, [CkLive (KGen 2)], Some (KGen 2, ([(1, 2)]%N, Some 7%N)), [2%N], 3%N);
     Some (RSess, [CkLive (KGen 2)], Some (KGen 2, ([(1, 2)]%N, Some 7%N)), [], 3%N)] /\
  supply (f_st fsK) = 3%N /\
  map fst (snd (serial reqsK wC (f_acts fsK))) = [0; 2; 1].
Proof. vm_compute. repeat split. Qed.

(* a state of that run in which goroutine 1 has read under RLock and not yet
   gone on, while 2 and 0 wait for the lock; what it read is the age of the due ID *)
Example fine_mid_ex :
  exists fs s0 jar f c b v a,
    frun true reqsK (finit kkE reqsK wC 0) (firstn 15 runKF) = Some fs /\
    nth_error (f_ph fs) 1 = Some (FRead s0 jar f c b (Some (v, a))) /\ v = true /\
    (c_idexpiry (conf (w_st wC)) <= a)%Z /\
    holds_key (f_lock fs) 1 kkE = true /\ cA (f_lock fs) kkE = 2.
Proof.
  do 8 eexists. split; [vm_compute; reflexivity|]. split; [vm_compute; reflexivity|].
  split; [reflexivity|]. split; [vm_compute; discriminate|]. vm_compute. split; reflexivity.
Qed.
