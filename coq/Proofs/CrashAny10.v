(* R10, C10: the theorems of CrashAny4.v and CrashAny8.v from the states that
   fault-free histories reach (process stops anywhere before the step as well): LIx
   and graves_drawn hold there (LIx_reach, graves_drawn_reach).

   No axioms; standard library only. *)
From Sessions Require Import Model.Base Model.Sess Model.Hist Proofs.SessDefs
  Proofs.HistInv Proofs.HistInv3 Proofs.HistLift3 Proofs.LineageK Proofs.LineageK3 Proofs.LineageF
  Proofs.CrashAny2 Proofs.CrashAny3 Proofs.CrashAny4 Proofs.CrashAny7 Proofs.CrashAny8 Proofs.CrashAny9.
From Sessions Require Proofs.CrashFault3 Proofs.CrashChain.

Theorem no_dangling_reach c hs r n :
  Forall ff_hop hs -> rq_plan r = [] -> rq_crash r = Some n ->
  forall k rk t,
    lookup (store (w_st (fst (step (reach c hs) (HReq r))))) k = Some rk -> r_ref rk = Some t ->
    lookup (store (w_st (fst (step (reach c hs) (HReq r))))) t <> None \/
    lookup (graves (w_st (fst (step (reach c hs) (HReq r))))) t <> None \/
    gone_in (w_st (reach c hs)) t.
Proof. intro Hff. exact (no_dangling_any (reach c hs) r n (LIx_reach c hs Hff)). Qed.

Theorem presented_resolves_reach_pre c hs r n k0 rest :
  Forall ff_hop hs -> rq_plan r = [] -> rq_crash r = Some n ->
  no_deletes (ev_prefix (ob_evs (snd (step (reach c hs) (HReq (nocrash r))))) n) ->
  CrashChain.spath (fun _ => True) (store (w_st (reach c hs))) k0 rest ->
  exists tl rend,
    CrashChain.spath (fun _ => True) (store (w_st (fst (step (reach c hs) (HReq r))))) k0 (rest ++ tl) /\
    Forall (fresh_from_n (supply (w_st (reach c hs)))) tl /\
    lookup (store (w_st (fst (step (reach c hs) (HReq r))))) (last (rest ++ tl) k0) = Some rend /\ r_ref rend = None /\
    (lookup (store (w_st (reach c hs))) (last (rest ++ tl) k0) = Some rend \/
     In (EvSave (last (rest ++ tl) k0) rend true) (ev_prefix (ob_evs (snd (step (reach c hs) (HReq (nocrash r))))) n)).
Proof.
  intro Hff. exact (chain_resolves_stop_record_pre (reach c hs) r n k0 rest (LIx_reach c hs Hff) (graves_drawn_reach c hs Hff)).
Qed.

Theorem presented_resolves_reach c hs r n k0 rest :
  Forall ff_hop hs -> rq_plan r = [] -> rq_crash r = Some n ->
  no_deletes (ob_evs (snd (step (reach c hs) (HReq (nocrash r))))) ->
  CrashChain.spath (fun _ => True) (store (w_st (reach c hs))) k0 rest ->
  exists tl rend,
    CrashChain.spath (fun _ => True) (store (w_st (fst (step (reach c hs) (HReq r))))) k0 (rest ++ tl) /\
    Forall (fresh_from_n (supply (w_st (reach c hs)))) tl /\
    lookup (store (w_st (fst (step (reach c hs) (HReq r))))) (last (rest ++ tl) k0) = Some rend /\ r_ref rend = None /\
    (lookup (store (w_st (reach c hs))) (last (rest ++ tl) k0) = Some rend \/
     In (EvSave (last (rest ++ tl) k0) rend true) (ob_evs (snd (step (reach c hs) (HReq (nocrash r)))))).
Proof.
  intro Hff. exact (chain_resolves_stop_record (reach c hs) r n k0 rest (LIx_reach c hs Hff) (graves_drawn_reach c hs Hff)).
Qed.

Theorem presented_data_reach_pre c hs r n k0 rest rn d0 :
  Forall ff_hop hs -> rq_plan r = [] -> rq_crash r = Some n ->
  no_deletes (ev_prefix (ob_evs (snd (step (reach c hs) (HReq (nocrash r))))) n) ->
  presents (reach c hs) r = CKey k0 ->
  CrashChain.spath (fun _ => True) (store (w_st (reach c hs))) k0 rest ->
  lookup (store (w_st (reach c hs))) (last rest k0) = Some rn ->
  (forall o ob, In (last rest k0, o) (cache (w_st (reach c hs))) -> hget (w_st (reach c hs)) o = Some ob -> r_ref (o_rec ob) = None ->
     CrashFault3.dat (o_rec ob) = CrashFault3.dat rn) ->
  (forall id0 rc0, ob_start (snd (step (reach c hs) (HReq (nocrash r)))) = Some (id0, rc0) -> r_data rc0 = Some d0) ->
  CrashChain.resolves_chain
    (fun rd => CrashFault3.dat rd = CrashFault3.dat rn \/ In (CrashFault3.dat rd) (script_data d0 (rq_script r)))
    (store (w_st (fst (step (reach c hs) (HReq r))))) k0.
Proof.
  intro Hff. exact (presented_data_pre (reach c hs) r n k0 rest rn d0 (LIx_reach c hs Hff) (graves_drawn_reach c hs Hff)).
Qed.

Theorem presented_data_reach c hs r n k0 rest rn d0 :
  Forall ff_hop hs -> rq_plan r = [] -> rq_crash r = Some n ->
  no_deletes (ob_evs (snd (step (reach c hs) (HReq (nocrash r))))) ->
  presents (reach c hs) r = CKey k0 ->
  CrashChain.spath (fun _ => True) (store (w_st (reach c hs))) k0 rest ->
  lookup (store (w_st (reach c hs))) (last rest k0) = Some rn ->
  (forall o ob, In (last rest k0, o) (cache (w_st (reach c hs))) -> hget (w_st (reach c hs)) o = Some ob -> r_ref (o_rec ob) = None ->
     CrashFault3.dat (o_rec ob) = CrashFault3.dat rn) ->
  (forall id0 rc0, ob_start (snd (step (reach c hs) (HReq (nocrash r)))) = Some (id0, rc0) -> r_data rc0 = Some d0) ->
  CrashChain.resolves_chain
    (fun rd => CrashFault3.dat rd = CrashFault3.dat rn \/ In (CrashFault3.dat rd) (script_data d0 (rq_script r)))
    (store (w_st (fst (step (reach c hs) (HReq r))))) k0.
Proof.
  intro Hff. exact (presented_data_any (reach c hs) r n k0 rest rn d0 (LIx_reach c hs Hff) (graves_drawn_reach c hs Hff)).
Qed.
