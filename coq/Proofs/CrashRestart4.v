(* C10 at the level of histories, part 4: the ID change made by the handler.
   The request presents a cached, acceptable session whose ID is not due (Start
   touches nothing in the store), its script is [RegenerateID], and the process
   stops after n persistence calls. Same conclusions as for the rotation in
   Start (CrashRestart2/3.v). *)
From Sessions Require Import Model.Base Model.Sess Model.Hist Proofs.SessDefs
  Proofs.HistInv Proofs.HistInv2 Proofs.HistInv3.
From Sessions Require Proofs.CrashFault3 Proofs.CrashFault5 Proofs.CrashFault6 Proofs.LiveHist4 Proofs.LiveHist8
  Proofs.UserHist.
From Sessions Require Import Proofs.CrashRestart Proofs.CrashRestart2 Proofs.CrashRestart3.
From Coq Require Import Lia.
Import CrashFault3 CrashFault5 CrashFault6 LiveHist4.
Local Open Scope Z_scope.

(* a quiet round of clean-ups changes nothing *)
Lemma fire_due_same s : (forall d k, In (d, k) (pending s) -> now s < d) ->
  heap (fire_due s) = heap s /\ cache (fire_due s) = cache s /\ store (fire_due s) = store s /\
  graves (fire_due s) = graves s /\ pending (fire_due s) = pending s /\ now (fire_due s) = now s /\
  supply (fire_due s) = supply s /\ conf (fire_due s) = conf s /\ plan (fire_due s) = plan s /\
  evs (fire_due s) = evs s.
Proof. intro H. unfold fire_due. rewrite fire_quiet; [repeat split | exact H]. Qed.

Lemma durable_upd c s q r : durable (codec c (upd_req s q r)) = durable (codec c r).
Proof. reflexivity. Qed.

(* the scenario *)
Record regen_crash (w : world) (r : reqstep) (n : nat) (k : key) (o : nat) (ob : obj) : Prop := mkGC {
  gc_inv : sess_inv (w_st w);
  gc_plan : rq_plan r = [];
  gc_crash : rq_crash r = Some n;
  gc_script : rq_script r = [SRegen];
  gc_pres : pres w r = CKey k;
  gc_cached : lookup (cache (w_st w)) k = Some o;
  gc_obj : hget (w_st w) o = Some ob;
  gc_nonref : r_ref (o_rec ob) = None;
  gc_stored : exists r0, lookup (store (w_st w)) k = Some r0 /\
                         durable r0 = durable (codec (conf (w_st w)) (o_rec ob));
  gc_valid : rec_valid (conf (w_st w)) (now (w_st w)) (req_q w r) (o_rec ob) = true;
  gc_notdue : (c_idexpiry (conf (w_st w)) <=? since (r_created (o_rec ob)) (now (w_st w))) = false;
  gc_backstop : (sat_add (c_idexpiry (conf (w_st w))) (c_grace (conf (w_st w))) <=?
                 since (r_created (o_rec ob)) (now (w_st w))) = false;
  gc_grace : 0 < c_grace (conf (w_st w));
  gc_pending : forall d k', In (d, k') (pending (w_st w)) -> now (w_st w) < d }.

Theorem crash_store_regen w r n k o ob :
  regen_crash w r n k o ob ->
  let D := dat (o_rec ob) in let U := uid (o_rec ob) in
  let s' := w_st (fst (step w (HReq r))) in
  exists l,
    cache s' = [] /\ plan s' = [] /\ now s' = now (w_st w) /\ conf s' = conf (w_st w) /\
    store s' = frozen (w_st w) l n /\ length l = length (evs (req_end w r)) /\
    resolves_to (full D U) (store s') k /\
    ((length l <= n)%nat -> resolves_to (full D U) (store s') (KGen (supply (w_st w)))).
Proof.
  intros [Hinv Hpl Hcr Hsc Hk Hca Hob Hnr (r0 & Hs0 & Hd0) Hv Hnd Hbs Hg Hpend]. cbv zeta.
  destruct (LiveHist8.req_s1_sess_inv w r Hinv) as (Hp1 & Hc1 & Hn1 & Hf1).
  set (s1 := req_s1 w r) in *. set (q := req_q w r) in *.
  assert (Hid : o_id ob = k).
  { destruct Hinv as (_ & Hc & _). destruct (Hc k o Hca) as [ob' [Ho' Hid']]. congruence. }
  (* Start: a cache hit, accepted, nothing due *)
  assert (E : start s1 q = (hupd s1 o (upd_req s1 q), Ok (Some o), [])).
  { rewrite start_eq. change (q_cookie q) with (pres w r). rewrite Hk.
    pose proof (cache_get_ff s1 k Hp1) as Hg1. change (cache s1) with (cache (w_st w)) in Hg1. rewrite Hca in Hg1.
    rewrite Hg1. change (hget s1 o) with (hget (w_st w) o). rewrite Hob.
    apply sf_plain; assumption. }
  set (s2 := hupd s1 o (upd_req s1 q)) in *.
  set (ob2 := mkObj (o_id ob) (upd_req s1 q (o_rec ob))).
  assert (Ho2 : hget s2 o = Some ob2).
  { unfold s2. rewrite hget_hupd, Nat.eqb_refl. change (hget s1 o) with (hget (w_st w) o). rewrite Hob. reflexivity. }
  assert (Hs2 : cache s2 = cache (w_st w) /\ store s2 = store (w_st w) /\ graves s2 = graves (w_st w) /\
                pending s2 = pending (w_st w) /\ now s2 = now (w_st w) /\ conf s2 = conf (w_st w) /\
                supply s2 = supply (w_st w) /\ evs s2 = [] /\ plan s2 = []).
  { unfold s2, hupd. change (hget s1 o) with (hget (w_st w) o). rewrite Hob. repeat split. }
  destruct Hs2 as (A1 & A2 & A3 & A4 & A5 & A6 & A7 & A8 & A9).
  assert (Hq2 : forall d k', In (d, k') (pending s2) -> now s2 < d) by (rewrite A4, A5; exact Hpend).
  destruct (fire_due_same s2 Hq2) as (B1 & B2 & B3 & B4 & B5 & B6 & B7 & B8 & B9 & B10).
  set (s2' := fire_due s2) in *.
  (* the handler runs on s2' *)
  assert (Hat : UserHist.handler_at w r [] s2' o).
  { exists s2, [], [], []. split; [exact E|]. split; reflexivity. }
  destruct (UserHist.handler_at_inv w r [] s2' o Hinv Hat) as [(Hp2 & Hc2 & Hn2 & Hf2) _].
  assert (Ho2' : hget s2' o = Some ob2) by (unfold hget; rewrite B1; exact Ho2).
  assert (Hh : holds s2' o ob2).
  { split; [exact Ho2'|]. split; [exact Hnr|]. split.
    - intros o' Hl. rewrite B2, A1 in Hl. cbn [ob2 o_id] in Hl. rewrite Hid, Hca in Hl. congruence.
    - exists r0. cbn [ob2 o_id o_rec]. rewrite Hid, B3, A2, B8, A6. split; [exact Hs0|].
      rewrite durable_upd. exact Hd0. }
  destruct (regenerate s2' o) as [[s3 res] cks3] eqn:ER.
  destruct (resolves_regenerate s2' o ob2 s3 res cks3 Hc2 Hn2 Hf2 Hh ER) as (l & Hl & Hold & Hnew).
  cbn [ob2 o_id o_rec] in Hold, Hnew.
  change (dat (upd_req s1 q (o_rec ob))) with (dat (o_rec ob)) in Hold, Hnew.
  change (uid (upd_req s1 q (o_rec ob))) with (uid (o_rec ob)) in Hold, Hnew.
  (* fault-free: the call succeeds; its state *)
  assert (F2 : ffnd s2') by (split; [exact Hp2 | apply Hn2]).
  rewrite (regenerate_ff s2' o ob2 F2 Ho2') in ER. injection ER as <- <- <-.
  destruct (regen_frames s2' o ob2 F2) as [_ (C1 & C2 & C3 & C4 & C5 & C6 & C7)].
  set (s3 := regen s2' o ob2) in *.
  assert (Hq3 : forall d k', In (d, k') (pending s3) -> now s3 < d).
  { intros d k' Hin. unfold s3, regen in Hin |- *. sst. rewrite C6 in Hin. rewrite C2.
    apply in_app_iff in Hin. destruct Hin as [Hin|[Hin|[]]].
    - rewrite B5, A4 in Hin. rewrite B6, A5. exact (Hpend d k' Hin).
    - injection Hin as <- _. rewrite C2, C3, B6, B8, A5, A6. lia. }
  destruct (fire_due_same s3 Hq3) as (D1 & D2 & D3 & D4 & D5 & D6 & D7 & D8 & D9 & D10).
  (* the end of the step's API calls *)
  assert (Hend : req_end w r = fire_due s3).
  { unfold req_end. rewrite Hpl, Hsc. unfold req_body.
    change (set_tb (set_plan (set_evs (w_st w) []) []) (rq_tb r)) with s1. fold q. rewrite E. cbv zeta.
    fold s2'. cbn [run_script do_sop]. fold s3. rewrite (regenerate_ff s2' o ob2 F2 Ho2'). reflexivity. }
  destruct (crash_world w r n Hcr) as (_ & W1 & W2 & W3 & W4 & W5 & W6). cbv zeta in *.
  rewrite Hend in W4, W5, W6. rewrite D10 in W6.
  assert (El : l = rev (evs s3)).
  { unfold appended in Hl. rewrite B10, A8, app_nil_r in Hl. rewrite Hl, rev_involutive. reflexivity. }
  assert (Hfz : forall m, frozen s2' l m = frozen (w_st w) l m).
  { intro m. unfold frozen. rewrite B3, A2, B4, A3. reflexivity. }
  exists l. split; [exact W1|]. split; [exact W2|].
  split; [rewrite W4, D6; unfold s3, regen; sst; rewrite C2, B6, A5; reflexivity|].
  split; [rewrite W5, D8; unfold s3, regen; sst; rewrite C3, B8, A6; reflexivity|].
  assert (Hst : store (w_st (fst (step w (HReq r)))) = frozen (w_st w) l n) by (rewrite W6, El; reflexivity).
  split; [exact Hst|]. split; [rewrite Hend, D10, El; apply rev_length|]. split.
  - rewrite Hst, <- Hfz, <- Hid. apply Hold.
  - intro Hle. destruct (Hnew eq_refl) as (Hfa & Hres & _). rewrite Hst, <- Hfz.
    unfold frozen. rewrite ev_prefix_all by exact Hle. rewrite <- (ev_prefix_all l (length l)) by lia.
    fold (frozen s2' l (length l)). rewrite Hfa. rewrite B7, A7 in Hres. exact Hres.
Qed.

(* the request after the crash *)
Theorem restart_old_regen w r n k o ob r2 :
  regen_crash w r n k o ob ->
  let w' := fst (step w (HReq r)) in
  rq_plan r2 = [] -> rq_crash r2 = None -> pres w' r2 = CKey k ->
  (forall rk, lookup (store (w_st w')) k = Some rk ->
     probe_ok (conf (w_st w)) (now (w_st w)) (probe_q k r2) rk) ->
  ob_res (snd (step w' (HReq r2))) = RSess /\
  exists id rc, ob_start (snd (step w' (HReq r2))) = Some (id, rc) /\ r_ref rc = None /\
                full (dat (o_rec ob)) (uid (o_rec ob)) rc.
Proof.
  intros H w' Hpl Hcr Hk Hok.
  destruct (crash_store_regen w r n k o ob H) as (l & C1 & C2 & C3 & C4 & _ & _ & Hold & _).
  apply (probe_step w' r2 k); try assumption. fold w' in C3, C4. rewrite C3, C4. exact Hok.
Qed.

Theorem restart_new_regen w r n k o ob r2 :
  regen_crash w r n k o ob ->
  let w' := fst (step w (HReq r)) in let nid := KGen (supply (w_st w)) in
  (length (evs (req_end w r)) <= n)%nat ->
  rq_plan r2 = [] -> rq_crash r2 = None -> pres w' r2 = CKey nid ->
  (forall rk, lookup (store (w_st w')) nid = Some rk ->
     probe_ok (conf (w_st w)) (now (w_st w)) (probe_q nid r2) rk) ->
  ob_res (snd (step w' (HReq r2))) = RSess /\
  exists id rc, ob_start (snd (step w' (HReq r2))) = Some (id, rc) /\ r_ref rc = None /\
                full (dat (o_rec ob)) (uid (o_rec ob)) rc.
Proof.
  intros H w' nid Hn Hpl Hcr Hk Hok.
  destruct (crash_store_regen w r n k o ob H) as (l & C1 & C2 & C3 & C4 & C5 & Hlen & _ & Hnew).
  apply (probe_step w' r2 nid); try assumption.
  - apply Hnew. rewrite Hlen. exact Hn.
  - fold w' in C3, C4. rewrite C3, C4. exact Hok.
Qed.

Lemma regen_crash_meaning w r n k o ob :
  regen_crash w r n k o ob <->
  sess_inv (w_st w) /\ rq_plan r = [] /\ rq_crash r = Some n /\ rq_script r = [SRegen] /\
  pres w r = CKey k /\ lookup (cache (w_st w)) k = Some o /\ hget (w_st w) o = Some ob /\
  r_ref (o_rec ob) = None /\
  (exists r0, lookup (store (w_st w)) k = Some r0 /\ durable r0 = durable (codec (conf (w_st w)) (o_rec ob))) /\
  rec_valid (conf (w_st w)) (now (w_st w)) (req_q w r) (o_rec ob) = true /\
  (c_idexpiry (conf (w_st w)) <=? since (r_created (o_rec ob)) (now (w_st w))) = false /\
  (sat_add (c_idexpiry (conf (w_st w))) (c_grace (conf (w_st w))) <=? since (r_created (o_rec ob)) (now (w_st w))) = false /\
  0 < c_grace (conf (w_st w)) /\
  (forall d k', In (d, k') (pending (w_st w)) -> now (w_st w) < d).
Proof.
  split.
  - intros [H1 H2 H3 H4 H5 H6 H7 H8 H9 H10 H11 H12 H13 H14].
    exact (conj H1 (conj H2 (conj H3 (conj H4 (conj H5 (conj H6 (conj H7 (conj H8 (conj H9 (conj H10 (conj H11 (conj H12 (conj H13 H14))))))))))))).
  - intros (H1&H2&H3&H4&H5&H6&H7&H8&H9&H10&H11&H12&H13&H14).
    exact (mkGC _ _ _ _ _ _ H1 H2 H3 H4 H5 H6 H7 H8 H9 H10 H11 H12 H13 H14).
Qed.

(* ------------------------------------------------------------- example *)

(* the client of the example of CrashRestart3.v comes back 10 s after logging in
   (nothing is due); the handler calls RegenerateID; the process stops after n
   persistence calls *)
Definition hG : list hop := [rqx 1 [SSet 1 2; SLogIn (5%N, 1%N) false]; HWait 10000000000].
Definition wG : world := Eval vm_compute in reach cX hG.
Lemma wG_eq : wG = reach cX hG.
Proof. vm_compute. reflexivity. Qed.
Definition r1G (n : nat) : reqstep := mkReqStep 1 PJar true (V4 1 2 3 4 5) 7 [SRegen] [] [] (Some n).
Definition obG : obj := Eval vm_compute in
  match hget (w_st wG) 0 with Some ob => ob | None => mkObj (KJunk 0) (mkRec 0 0 (AOther 0) 0 None None None) end.

Lemma regen_crash_ex n : regen_crash wG (r1G n) n (KGen 1) 0 obG.
Proof.
  apply mkGC; try (vm_compute; reflexivity).
  - rewrite wG_eq. apply LiveHist8.reach_sess_inv; repeat (constructor; try exact I; try reflexivity).
  - eexists. split; vm_compute; reflexivity.
  - intros d k' H. vm_compute in H. destruct H as [H|[]]. injection H as <- _. vm_compute. reflexivity.
Qed.

Definition outcomeG (n : nat) :=
  let w' := fst (step wG (HReq (r1G n))) in
  (ob_res (snd (step wG (HReq (r1G n)))), pres w' r2X, lookup (store (w_st w')) (KGen 1),
   ob_res (snd (step w' (HReq r2X))),
   option_map (fun x => (dat (snd x), uid (snd x))) (ob_start (snd (step w' (HReq r2X))))).

Example restart_regen_ex :
  Forall (fun n => exists rk,
    outcomeG n = (RCrashed, CKey (KGen 1), Some rk, RSess, Some ([(1%N, 2%N)], Some 5%N)) /\
    probe_ok (conf (w_st wG)) (now (w_st wG)) (probe_q (KGen 1) r2X) rk)
  [0; 1; 2; 3]%nat.
Proof.
  repeat (apply Forall_cons;
    [eexists; split; [vm_compute; reflexivity | split; [vm_compute; reflexivity | intros [H|H]; vm_compute in H; try discriminate H; vm_compute; reflexivity]] |]).
  apply Forall_nil.
Qed.
