(* B2 (C05), part (c): Start presenting the current ID, due for rotation, with
   the due clean-ups firing after any of its three cache operations. *)
From Sessions Require Import Model.Base Model.Sess Model.Hist Model.StartSteps Proofs.SessDefs
  Proofs.RotateLaws Proofs.RotateLaws2 Proofs.RotateLaws3 Proofs.RotateLaws4 Proofs.StartSteps
  Proofs.StartSteps2 Proofs.StartSteps3 Proofs.StartSteps4 Proofs.StartSteps5 Proofs.StartSteps12.
From Coq Require Import Lia.

Theorem start_interrupted_rotate s q k r i :
  plan s = [] -> cache_ok s -> nodup_ok s -> fresh_ok s ->
  q_cookie q = CKey k -> L s k = Some r -> r_ref r = None ->
  valid_for (conf s) r (now s) q = true ->
  (c_idexpiry (conf s) <= since (r_created r) (now s))%Z ->
  notdue s k ->
  1 <= i ->
  let j := KGen (supply s) in
  let t := now s in
  exists si oi ss os,
    (* interrupted *)
    start_interrupted s q (Some i) = (si, Ok (Some oi), [CkLive j]) /\
    hget si oi = Some (mkObj j (seen_rec (rot_rec r t) t q)) /\
    supply si = (supply s + 1)%N /\
    lookup (store si) j = Some (codec (conf s) (rot_rec r t)) /\
    lookup (store si) k = Some (codec (conf s) (ref_rec r t j)) /\
    In ((t + c_grace (conf s))%Z, k) (pending si) /\
    (i <= 3 -> forall d k0, In (d, k0) (pending s) -> (d <= now s)%Z ->
       lookup (cache si) k0 = None /\ lookup (store si) k0 = None) /\
    (* not interrupted *)
    start s q = (ss, Ok (Some os), [CkLive j]) /\
    hget ss os = Some (mkObj j (seen_rec (rot_rec r t) t q)) /\
    lookup (store ss) j = Some (codec (conf s) (rot_rec r t)) /\
    lookup (store ss) k = Some (codec (conf s) (ref_rec r t j)).
Proof.
  intros Hp Hco [Hndc Hnds] Hf Hq HL Href Hvalid Hage Hdk Hi j t.
  destruct (start_rotate s q k r Hp Hco (conj Hndc Hnds) Hf Hq HL Href Hvalid Hage)
    as (ss & os & Es & _ & _ & Hos & _ & _ & Hsj & Hsk & _).
  fold j t in Es, Hos, Hsj, Hsk.
  pose proof (drawn_not_next s k (L_drawn s k r Hf HL)) as Hkj.
  destruct (lookup_found s k r Hp Hco Hndc Hkj HL) as [s1 [o0 [Eg P]]].
  destruct P as [[Pext Ppl Pndc Pcok Pn Pc Psu Ppe Pdr Pfr PL] Pobj Pca PLk].
  assert (Hdj : notdue s j).
  { intros d Hin. destruct Hf as (_ & _ & _ & F4). specialize (F4 d j Hin). cbn in F4. lia. }
  pose proof (hooked_fire_at i 1 s1 Ppl) as K0. set (s1' := fire_at i 1 s1) in *.
  assert (Hobj' : hget s1' o0 = Some (mkObj k r)) by (unfold hget; rewrite (hk_heap _ _ K0); exact Pobj).
  assert (Hnd1 : forall k', notdue s k' -> notdue s1' k').
  { intros k' H d Hin. rewrite (hk_now _ _ K0), Pn. apply H. rewrite <- Ppe. apply (hk_pending _ _ K0). exact Hin. }
  assert (Hcok' : cache_ok s1').
  { intros k' o1 Hl. apply (hk_csub _ _ K0) in Hl. destruct (Pcok k' o1 Hl) as (ob1 & Hg1 & Hid1).
    exists ob1. split; [unfold hget; rewrite (hk_heap _ _ K0); exact Hg1 | exact Hid1]. }
  assert (Hndc' : NoDup (map fst (cache s1'))) by (apply (hk_ndc _ _ K0); exact Pndc).
  assert (Hsup' : supply s1' = supply s) by (rewrite (hk_supply _ _ K0); exact Psu).
  assert (Hfr1 : lookup (cache s1') (KGen (supply s1')) = None).
  { rewrite Hsup'. destruct (lookup (cache s1') (KGen (supply s))) as [x|] eqn:E; [|reflexivity].
    apply (hk_csub _ _ K0) in E. rewrite (Pfr (fresh_cache_none s Hf)) in E. discriminate. }
  destruct (regenerate_h_ff i 1 s1' o0 (mkObj k r) (hk_plan _ _ K0) Hndc' (cache_ok_heap s1' Hcok' Hndc') Hobj' Hfr1)
    as (s2 & Er & R & Rgone & Rabs).
  { cbn [o_id]. rewrite Hsup'. exact Hkj. }
  { cbn [o_id]. apply Hnd1. exact Hdk. }
  { rewrite Hsup'. apply Hnd1. exact Hdj. }
  destruct R as [Rh Rn Rsu Rc Rpl Rndc Rsn Rso Rq Rpe]. cbn [o_id o_rec] in *.
  rewrite Hsup', (hk_now _ _ K0), Pn, (hk_conf _ _ K0), Pc in *. fold j t in Rh, Rsn, Rso, Rq, Rpe, Er.
  pose proof (hget_Some_lt _ _ _ Hobj') as Hlt.
  assert (Ho2 : hget s2 o0 = Some (mkObj j (rot_rec r t))).
  { unfold hget. rewrite Rh. rewrite nth_error_app1 by (rewrite replace_nth_length; exact Hlt).
    apply nth_replace_nth_same. exact Hlt. }
  set (f := fun r0 : rec => set_ua (set_ip (set_access r0 (now s2)) (q_addr q)) (q_ua q)).
  assert (Elhs : start_interrupted s q (Some i) = (hupd s2 o0 f, Ok (Some o0), [CkLive j])).
  { assert (Hfire0 : fire_at i 0 s = s).
    { unfold fire_at. destruct (Nat.eqb 0 i) eqn:E0; [apply Nat.eqb_eq in E0; lia | reflexivity]. }
    unfold start_interrupted, start_h. rewrite Hfire0. unfold start_body. rewrite Hq, Eg. fold s1'.
    cbn [negb]. rewrite Hobj'. cbn [o_rec]. rewrite (hk_now _ _ K0), Pn.
    unfold valid_for in Hvalid. rewrite Hvalid. cbn [negb]. rewrite Href. cbn [negb andb].
    replace (c_idexpiry (conf s) <=? since (r_created r) (now s))%Z with true
      by (symmetry; apply Z.leb_le; exact Hage).
    rewrite Er. reflexivity. }
  destruct (hupd_fields s2 o0 f) as (Hc & Hs & Hpe & He & Hsu & Hn & Hcf & Hpl).
  exists (hupd s2 o0 f), o0, ss, os. split; [exact Elhs|]. split.
  { rewrite (hget_hupd_same s2 o0 _ _ Ho2). unfold f. cbn [o_id o_rec]. rewrite Rn. reflexivity. }
  split; [rewrite Hsu; exact Rsu|]. split; [rewrite Hs; exact Rsn|]. split; [rewrite Hs; exact Rso|].
  split; [rewrite Hpe; exact Rq|]. split.
  - intros Hi3 d k0 Hin Hd. rewrite Hc, Hs.
    destruct (Nat.eq_dec i 1) as [->|Hi1].
    + destruct (fire_at_gone 1 s1 d k0 Ppl) as (G1 & G2 & _); [rewrite Ppe; exact Hin | rewrite Pn; exact Hd|].
      fold s1' in G1, G2. apply Rabs; try assumption.
      * intros ->. specialize (Hdk d Hin). lia.
      * intros ->. specialize (Hdj d Hin). lia.
    + assert (Es1 : s1' = s1) by (apply fire_at_other; lia).
      apply (Rgone ltac:(lia) d k0); [rewrite Es1, Ppe; exact Hin | exact Hd].
  - split; [exact Es|]. split; [exact Hos|]. split; assumption.
Qed.
