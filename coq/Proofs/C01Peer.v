(* C01, liveness half, the peer/agent frame, part 1: what an ID resolves to as
   far as Start's peer and agent rules are concerned ("pv": recorded peer address
   and agent hash) and what the cache layer does to it — the same statements as
   for the content view of C01Hist.v: cache.Get changes no ID's pv, cache.Set
   only that of the object's own ID, cache.Delete only the deleted ID's, a direct
   save only the saved ID's. *)
From Sessions Require Import Model.Base Model.Sess Model.Hist Model.Corr Proofs.SessDefs
  Proofs.WriteThrough Proofs.WriteThrough2 Proofs.WriteThrough3 Proofs.WriteThrough4
  Proofs.RotateLaws Proofs.RotateLaws2 Proofs.C01Spec Proofs.C01Hist.
From Coq Require Import Lia.

Definition pcont (r : rec) : addr * N := (r_ip r, r_ua r).

Definition pv (s : st) (k : key) : option (addr * N) := option_map pcont (L s k).

Lemma pcont_codec c r : pcont (codec c r) = pcont r.
Proof. destruct r; reflexivity. Qed.
Lemma pcont_set_access r t : pcont (set_access r t) = pcont r.
Proof. destruct r; reflexivity. Qed.
Lemma pcont_set_created r t : pcont (set_created r t) = pcont r.
Proof. destruct r; reflexivity. Qed.
Lemma pcont_set_user r t : pcont (set_user r t) = pcont r.
Proof. destruct r; reflexivity. Qed.
Lemma pcont_set_data r t : pcont (set_data r t) = pcont r.
Proof. destruct r; reflexivity. Qed.

Lemma pv_cached s k o ob :
  lookup (cache s) k = Some o -> hget s o = Some ob -> pv s k = Some (pcont (o_rec ob)).
Proof. intros H1 H2. unfold pv, L. rewrite H1, H2. reflexivity. Qed.

Lemma pv_uncached s k :
  lookup (cache s) k = None -> pv s k = option_map pcont (lookup (store s) k).
Proof. intro H. unfold pv, L. rewrite H. reflexivity. Qed.

Lemma pv_ext s s' k :
  heap s' = heap s -> cache s' = cache s -> store s' = store s -> pv s' k = pv s k.
Proof. intros Hh Hc Hs. unfold pv, L, hget. rewrite Hh, Hc, Hs. reflexivity. Qed.

Lemma pv_core s s' k : WriteThrough.core s = WriteThrough.core s' -> pv s' k = pv s k.
Proof.
  intro H. apply core_inv in H. destruct H as (Hh & Hc & Hs & _). apply pv_ext; congruence.
Qed.

(* ------------------------------------- kept or flushed: same pv *)

(* objects keep their meaning *)
Definition psim (s s' : st) : Prop :=
  forall o ob, hget s o = Some ob -> exists ob', hget s' o = Some ob' /\ pcont (o_rec ob') = pcont (o_rec ob).

Lemma psim_refl s : psim s s.
Proof. intros o ob H. eauto. Qed.

Lemma pv_kf s s' k :
  psim s s' -> (forall o, lookup (cache s) k = Some o -> exists ob, hget s o = Some ob) ->
  key_kept s s' k \/ key_flushed s s' k -> pv s' k = pv s k.
Proof.
  intros Hh Hc [[Kc Ks]|(Kc & o & ob' & Ko & Kg & Ks)].
  - destruct (lookup (cache s) k) as [o|] eqn:E.
    + destruct (Hc o eq_refl) as (ob & Hg). destruct (Hh o ob Hg) as (ob' & Hg' & Hco).
      rewrite (pv_cached s' k o ob' Kc Hg'), (pv_cached s k o ob E Hg). congruence.
    + rewrite (pv_uncached s' k Kc), (pv_uncached s k E), Ks. reflexivity.
  - destruct (Hc o Ko) as (ob & Hg). destruct (Hh o ob Hg) as (ob2 & Hg2 & Hco).
    assert (ob2 = ob') by congruence. subst ob2.
    rewrite (pv_uncached s' k Kc), Ks, (pv_cached s k o ob Ko Hg). cbn [option_map].
    rewrite pcont_codec. congruence.
Qed.



(* ------------------------------------------------------------ cache.Set *)



(* cache.Set of object o (fault-free): succeeds; the object's own ID resolves to
   the object's content, every other ID keeps its pv; nothing else moves. *)
Lemma cache_set_pv s o ob :
  plan s = [] -> NoDup (map fst (cache s)) -> cache_heap s -> hget s o = Some ob ->
  snd (cache_set s o) = true /\
  let s' := fst (cache_set s o) in
  (forall k, k <> o_id ob -> pv s' k = pv s k) /\
  pv s' (o_id ob) = Some (pcont (o_rec ob)) /\
  pending s' = pending s /\ graves s' = graves s /\ supply s' = supply s /\
  conf s' = conf s /\ now s' = now s /\ (NoDup (map fst (store s)) -> NoDup (map fst (store s'))).
Proof.
  intros Hp Hnd Hch Hg.
  destruct (RotateLaws.cache_set_ff s o ob Hp Hnd Hg) as (Hok & HP).
  split; [exact Hok|]. cbv zeta. set (s' := fst (cache_set s o)) in *.
  destruct HP as [Ph Pg Ppe Pn Pu Pc Ppl Pev Pndc Pnds Pst Pca Psub Pk].
  assert (Hget : forall o', hget s' o' = if Nat.eqb o o' then Some (touch ob (now s)) else hget s o').
  { intro o'. apply hget_replace_nth; [exact Ph | congruence]. }
  assert (Hsim : psim s s').
  { intros o' ob' Hg'. rewrite Hget. destruct (Nat.eqb o o') eqn:E.
    - apply Nat.eqb_eq in E. subst o'. assert (ob' = ob) by congruence. subst ob'.
      eexists. split; [reflexivity|]. cbn. apply pcont_set_access.
    - eauto. }
  split; [|split; [|repeat split; assumption]].
  - intros k Hne. apply pv_kf; [exact Hsim | intros x Hx; apply (cache_heap_lookup s _ x Hch Hx) | apply Pk; exact Hne].
  - destruct Pca as [[Hm Hc]|[Hm _]].
    + rewrite (pv_cached s' _ o (touch ob (now s)) Hc).
      * cbn. rewrite pcont_set_access. reflexivity.
      * rewrite Hget, Nat.eqb_refl. reflexivity.
    + assert (Hz : cache s' = []) by (apply (cache_set_zero s o ob); assumption).
      rewrite pv_uncached by (rewrite Hz; reflexivity).
      rewrite Pst. cbn [option_map]. rewrite pcont_codec, pcont_set_access. reflexivity.
Qed.

(* ------------------------------------------------------------ cache.Get *)

(* cache.Get (fault-free) changes no ID's pv; nothing else moves *)
Lemma cache_get_pv s k :
  plan s = [] -> NoDup (map fst (cache s)) -> cache_heap s ->
  let s' := fst (cache_get s k) in
  (forall k', pv s' k' = pv s k') /\
  pending s' = pending s /\ graves s' = graves s /\ supply s' = supply s /\
  conf s' = conf s /\ now s' = now s /\ (NoDup (map fst (store s)) -> NoDup (map fst (store s'))).
Proof.
  intros Hp Hnd Hch. cbv zeta.
  destruct (lookup (cache s) k) as [o|] eqn:Ec.
  - rewrite (cache_get_hit s k o Ec). cbn [fst]. repeat split; auto.
  - destruct (lookup (store s) k) as [r|] eqn:Es.
    + destruct (cache_get_load s k r Hp Hnd Ec Es) as (_ & HP).
      set (s' := fst (cache_get s k)) in *.
      destruct HP as [Ph Pg Ppe Pn Pu Pc Ppl Pev Pndc Pnds Pst Pca Psub Pk].
      assert (Hsim : psim s s').
      { intros o' ob' Hg'. exists ob'. split; [|reflexivity]. apply (hget_app_old s s' _ o' ob' Ph Hg'). }
      split; [|repeat split; assumption].
      intro k'. destruct (key_eq_dec k' k) as [->|Hne].
      * rewrite (pv_uncached s k Ec), Es. cbn [option_map].
        destruct Pca as [[Hm Hc]|[Hm Hc]].
        -- rewrite (pv_cached s' k (length (heap s)) (mkObj k r) Hc); [reflexivity|].
           unfold hget. rewrite Ph. rewrite nth_error_app2 by lia. rewrite Nat.sub_diag. reflexivity.
        -- rewrite (pv_uncached s' k Hc), Pst. reflexivity.
      * apply pv_kf; [exact Hsim | intros x Hx; apply (cache_heap_lookup s _ x Hch Hx) | apply Pk; exact Hne].
    + rewrite (cache_get_absent s k Hp Ec Es). cbn [fst]. split; [|repeat split; auto].
      intro k'. apply pv_ext; reflexivity.
Qed.

(* --------------------------------------------------------- cache.Delete *)

Lemma cache_delete_pv s k :
  plan s = [] ->
  let s' := fst (cache_delete s k) in
  pv s' k = None /\ (forall k', k' <> k -> pv s' k' = pv s k') /\
  heap s' = heap s /\ pending s' = pending s /\ supply s' = supply s /\ conf s' = conf s /\ now s' = now s /\
  (forall k' x, In (k', x) (graves s') -> In (k', x) (graves s) \/ (k' = k /\ lookup (store s) k <> None)) /\
  (NoDup (map fst (store s)) -> NoDup (map fst (store s'))).
Proof.
  intro Hp. cbv zeta. unfold cache_delete.
  rewrite RotateLaws.p_delete_ff by exact Hp. cbn [fst].
  split; [|split; [|split; [|split; [|split; [|split; [|split; [|split]]]]]]]; try reflexivity.
  - unfold pv, L. cbn. rewrite !lookup_remove_same. reflexivity.
  - intros k' Hne. unfold pv, L, hget. cbn. rewrite !lookup_remove_other by exact Hne. reflexivity.
  - intros k' x. cbn. destruct (lookup (store s) k) as [r|] eqn:Es; [|auto].
    intro H. apply In_upsert in H. destruct H as [H|H]; [left; exact H|].
    injection H as -> _. right. split; [reflexivity | congruence].
  - cbn. apply RotateLaws.nodup_remove.
Qed.

(* ---------------------------------------------------- direct saves, heap *)

(* saving object o under its own ID while it is not shadowed in the cache *)
Lemma save_pv s o ob :
  plan s = [] -> hget s o = Some ob -> (forall x, lookup (cache s) (o_id ob) = Some x -> x = o) ->
  let s' := fst (p_save s (o_id ob) (o_rec ob)) in
  (forall k, k <> o_id ob -> pv s' k = pv s k) /\ pv s' (o_id ob) = Some (pcont (o_rec ob)) /\
  heap s' = heap s /\ cache s' = cache s /\ pending s' = pending s /\ graves s' = graves s /\
  supply s' = supply s /\ conf s' = conf s /\ now s' = now s /\
  (NoDup (map fst (store s)) -> NoDup (map fst (store s'))).
Proof.
  intros Hp Hg Hu. cbv zeta. rewrite RotateLaws.p_save_ff by exact Hp. cbn [fst].
  split; [|split; [|repeat split; try reflexivity; cbn; apply RotateLaws.nodup_upsert]].
  - intros k Hne. unfold pv, L, hget. cbn. rewrite lookup_upsert_other by exact Hne. reflexivity.
  - destruct (lookup (cache s) (o_id ob)) as [x|] eqn:Ec.
    + rewrite (Hu x eq_refl) in Ec. apply (pv_cached _ _ o ob); [exact Ec | exact Hg].
    + rewrite pv_uncached by exact Ec. cbn. rewrite lookup_upsert_same. cbn. rewrite pcont_codec. reflexivity.
Qed.

(* changing an object changes the pv of the one ID it is cached under *)
Lemma hupd_pv_other s o f k :
  lookup (cache s) k <> Some o -> pv (hupd s o f) k = pv s k.
Proof.
  intro Hne. unfold hupd. destruct (hget s o) as [ob|] eqn:Hg; [|reflexivity].
  unfold pv, L. change (cache (hput s o _)) with (cache s). change (store (hput s o _)) with (store s).
  destruct (lookup (cache s) k) as [o'|]; [|reflexivity].
  rewrite hget_hput_other; [reflexivity|]. intros ->. apply Hne. reflexivity.
Qed.

Lemma hupd_pv_benign s o ob f k :
  hget s o = Some ob -> pcont (f (o_rec ob)) = pcont (o_rec ob) -> pv (hupd s o f) k = pv s k.
Proof.
  intros Hg Hc. rewrite (hupd_eq _ _ _ _ Hg).
  unfold pv, L. change (cache (hput s o _)) with (cache s). change (store (hput s o _)) with (store s).
  destruct (lookup (cache s) k) as [o'|]; [|reflexivity].
  destruct (Nat.eq_dec o o') as [<-|Hne].
  - rewrite hget_hput_same by (eapply hget_Some_lt; eauto). rewrite Hg. cbn. congruence.
  - rewrite hget_hput_other by exact Hne. reflexivity.
Qed.

Lemma halloc_pv s v k : cache_heap s -> pv (fst (halloc s v)) k = pv s k.
Proof.
  intro Hch. unfold pv, L. change (cache (fst (halloc s v))) with (cache s).
  change (store (fst (halloc s v))) with (store s).
  destruct (lookup (cache s) k) as [o|] eqn:E; [|reflexivity].
  destruct (cache_heap_lookup s k o Hch E) as (ob & Hg).
  rewrite (hget_halloc_keep s v o ob Hg), Hg. reflexivity.
Qed.

Lemma gen_id_pv s k : pv (fst (gen_id s)) k = pv s k.
Proof. apply pv_ext; reflexivity. Qed.

