(* The finer system of Model/StartConcFine.v: the theorems of the coarse system
   (Proofs/StartConc5.v: serial_order; Proofs/StartConc3.v: one_new_id)
   carried over along the simulation of Proofs/StartConcFine.v. *)
From Sessions Require Import Model.Base Model.Mutex Model.StartConc Model.StartConcFine
  Proofs.MutexBasics Proofs.StartConc Proofs.StartConc2 Proofs.StartConc3 Proofs.StartConc5 Proofs.StartConcFine.
From Sessions Require Import Model.Sess Model.Hist Proofs.SessDefs
  Proofs.HistLift3 Proofs.HistLift4 Proofs.HistLift8 Proofs.C04Conc2 Proofs.C04Conc3.
From Sessions Require Proofs.StartLaws4.
From Coq Require Import Lia Permutation.

Lemma done_abs l : forallb is_done (map abs_phase l) = forallb f_is_done l.
Proof. induction l as [|p l IH]; [reflexivity|]. cbn [map forallb]. rewrite IH. destruct p; reflexivity. Qed.

Lemma mid_nth l g : is_looked (nth g (map abs_phase l) PIdle) = is_mid (nth g l FIdle).
Proof. change PIdle with (abs_phase FIdle). rewrite map_nth. destruct (nth g l FIdle); reflexivity. Qed.

Theorem fine_serial_order kk reqs w fs0 ls fs :
  FI0 kk reqs w fs0 -> frun true reqs fs0 ls = Some fs -> fadm_run true reqs fs0 ls ->
  (forall g1 g2, holds_key (f_lock fs) g1 kk = true -> holds_key (f_lock fs) g2 kk = true -> g1 = g2) /\
  (forall g, is_mid (nth g (f_ph fs) FIdle) = true -> holds_key (f_lock fs) g kk = true) /\
  f_acts fs = rev (acts_of (abs_run ls)) /\
  (* what a goroutine read under RLock is what it would read now *)
  (forall g s0 jar f c b rd r,
     nth_error (f_ph fs) g = Some (FRead s0 jar f c b rd) -> nth_error reqs g = Some r ->
     rd = start_read (conf s0) (f_st fs) (rq_request jar r) f) /\
  let W := fst (serial reqs w (f_acts fs)) in
  let res := snd (serial reqs w (f_acts fs)) in
  (existsb is_mid (f_ph fs) = false -> mkWorld (f_st fs) (f_jars fs) = W) /\
  (forall g o, nth_error (f_ph fs) g = Some (FDone o) <-> In (g, o) res) /\
  NoDup (map fst res) /\
  (forallb f_is_done (f_ph fs) = true -> Permutation (map fst res) (seq 0 (length reqs))).
Proof.
  intros H0 Hr Ha.
  destruct (frun_sim kk reqs w ls fs0 fs (fi0_fi _ _ _ _ H0) Hr Ha) as ((_ & Hcur) & R & C).
  destruct (serial_order kk reqs w (abs fs0) (abs_run ls) (abs fs) H0 R C)
    as (S1 & S2 & S3 & S4 & _ & S6 & S7 & S8).
  split; [exact S1|]. split; [intros g Hg; apply S2; cbn [abs c_ph]; rewrite mid_nth; exact Hg|].
  split; [exact S3|]. split; [exact Hcur|]. cbv zeta in *. cbn [abs c_acts c_st c_jars c_ph] in *.
  split; [intro Hn; apply S4; rewrite looked_mid; exact Hn|].
  split; [intros g o; rewrite <- S6; symmetry; exact (abs_done fs g o)|].
  split; [exact S7|]. intro Hd. apply S8. rewrite done_abs. exact Hd.
Qed.

Theorem fine_one_new_id reqs k rc w :
  LI (w_st w) -> L (w_st w) k = Some rc -> r_ref rc = None ->
  (c_idexpiry (conf (w_st w)) <= since (r_created rc) (now (w_st w)))%Z ->
  (0 < c_grace (conf (w_st w)))%Z ->
  (since (r_access rc) (now (w_st w)) < c_expiry (conf (w_st w)))%Z ->
  Forall (acc_req k rc (conf (w_st w))) reqs ->
  forall kk fs0 ls fs,
  FI0 kk reqs w fs0 -> frun true reqs fs0 ls = Some fs -> fadm_run true reqs fs0 ls ->
  let acts := f_acts fs in
  let c := conf (w_st w) in
  let n := supply (w_st w) in
  request_first acts -> Forall tick_nonneg acts ->
  (ticks acts < c_grace c)%Z ->
  (ticks acts + StartLaws4.slack c < c_expiry c)%Z ->
  (ticks acts + StartLaws4.slack c < sat_add (c_idexpiry c) (c_grace c))%Z ->
  (forall g o, nth_error (f_ph fs) g = Some (FDone o) ->
     joined (KGen n) rc n o /\ (dlist (ob_evs o) = [n] \/ dlist (ob_evs o) = [])) /\
  (goroutines acts <> [] ->
     exists g1 r1 o1 rest,
       nth_error reqs g1 = Some r1 /\ nth_error (f_ph fs) g1 = Some (FDone o1) /\
       snd (serial reqs w acts) = rest ++ [(g1, o1)] /\
       rotated (KGen n) rc (now (w_st w)) (req_of w r1) n o1 /\ dlist (ob_evs o1) = [n] /\
       Forall (fun go => dlist (ob_evs (snd go)) = []) rest /\
       (existsb is_mid (f_ph fs) = false -> supply (f_st fs) = (n + 1)%N)) /\
  (goroutines acts = [] -> existsb is_mid (f_ph fs) = false -> supply (f_st fs) = n).
Proof.
  intros Hli HL Href Hdue Hg Hlive Hacc kk fs0 ls fs H0 Hr Ha acts c n Hrf Hnn Hb1 Hb2 Hb3.
  destruct (frun_sim kk reqs w ls fs0 fs (fi0_fi _ _ _ _ H0) Hr Ha) as (_ & R & C).
  destruct (one_new_id reqs k rc w Hli HL Href Hdue Hg Hlive Hacc kk (abs fs0) (abs_run ls) (abs fs) H0 R C
              Hrf Hnn Hb1 Hb2 Hb3) as (A & B & D).
  cbn [abs c_acts c_st c_ph] in A, B, D. fold acts in B, D.
  split; [intros g o Ho; exact (A g o (proj2 (abs_done fs g o) Ho))|]. split.
  - intro Hne. destruct (B Hne) as (g1 & r1 & o1 & rest & E1 & E2 & E3 & E4 & E5 & E6 & E7).
    exists g1, r1, o1, rest. split; [exact E1|]. split; [exact (proj1 (abs_done fs g1 o1) E2)|].
    split; [exact E3|]. split; [exact E4|]. split; [exact E5|]. split; [exact E6|].
    intro Hn. apply E7. rewrite looked_mid. exact Hn.
  - intros He Hn. apply (D He). rewrite looked_mid. exact Hn.
Qed.
