(* C19K, part 3: every run of the system as the code is, is a serial execution
   of Model/Ids.v's CUID over instants that do not decrease; hence (with
   C19_cuid_unique_wallclock / C19_cuid_ordered_wallclock) no ID is returned
   twice and IDs of later milliseconds sort after those of earlier ones, for
   every number of goroutines and every schedule. *)
From Sessions Require Import Model.Base Model.Ids Model.Mutex Model.CuidConc Gen.Consts
  Proofs.MutexBasics Proofs.IdsLaws Proofs.IdsLaws2 Proofs.IdsLaws3
  Proofs.CuidConc Proofs.CuidConc2.
From Coq Require Import Lia Permutation.

(* ---- the clock as CUID reads it ---- *)

Lemma nano_of_ok c : nsec_ok (reading c).
Proof.
  unfold nsec_ok, reading, nano_of, ns_per_s. cbn [snd].
  pose proof (Z.mod_pos_bound c 1000000000 ltac:(lia)). lia.
Qed.

Lemma ms_of_reading c : ms_of (reading c) = ms_at c.
Proof.
  unfold ms_of, reading, wall_ms, ms_at, unix_of, nano_of, ns_per_s. cbn [fst snd].
  pose proof (Z.mod_pos_bound c 1000000000 ltac:(lia)) as B.
  rewrite Z2N.id by lia.
  assert (E : (c / 1000000000 * 1000 + c mod 1000000000 / 1000000 = c / 1000000)%Z).
  { Z.div_mod_to_equations. lia. }
  lia.
Qed.

Lemma epoch_of_reading c : epoch_of (reading c) = epoch_at c.
Proof. unfold epoch_of, epoch_at. rewrite ms_of_reading. reflexivity. Qed.

Lemma ms_at_mono c1 c2 : (c1 <= c2)%Z -> (ms_at c1 <= ms_at c2)%Z.
Proof.
  intro H. unfold ms_at. pose proof (Z.div_le_mono c1 c2 1000000 ltac:(lia) H). lia.
Qed.

Lemma epoch_at_mono c1 c2 : (c1 <= c2)%Z -> (epoch_at c1 <= epoch_at c2)%Z.
Proof.
  intro H. unfold epoch_at. apply Z.div_le_mono; [lia | apply ms_at_mono, H].
Qed.

Lemma epoch_between c0 c c1 :
  (c0 <= c <= c1)%Z -> epoch_at c0 = epoch_at c1 -> epoch_at c = epoch_at c0.
Proof.
  intros [H1 H2] E. pose proof (epoch_at_mono _ _ H1). pose proof (epoch_at_mono _ _ H2). lia.
Qed.

(* ---- lists ---- *)

Lemma znondec_snoc l x : znondecreasing l -> (forall u, In u l -> (u <= x)%Z) -> znondecreasing (l ++ [x]).
Proof.
  induction l as [|a r IH]; intros H Hx; cbn [app znondecreasing].
  - split; [intros u []| exact I].
  - destruct H as [Ha Hr]. split.
    + intros u Hu. apply in_app_or in Hu. destruct Hu as [Hu|[<-|[]]]; [apply Ha, Hu | apply Hx; left; reflexivity].
    + apply IH; [exact Hr | intros u Hu; apply Hx; right; exact Hu].
Qed.

Lemma desc_znondec c0 hi l : desc c0 hi l -> znondecreasing (map ms_at (rev l)).
Proof.
  revert hi; induction l as [|c r IH]; intros hi H; [exact I|].
  cbn [desc] in H. destruct H as [Hc Hr]. cbn [rev]. rewrite map_app. cbn [map].
  apply znondec_snoc; [apply (IH _ Hr)|].
  intros u Hu. apply in_map_iff in Hu. destruct Hu as (x & <- & Hx). apply in_rev in Hx.
  apply ms_at_mono. apply (desc_in _ _ _ _ Hr Hx).
Qed.

Lemma nodup_map_inj {A B} (f : A -> B) (l : list A) x y :
  NoDup (map f l) -> In x l -> In y l -> f x = f y -> x = y.
Proof.
  induction l as [|a r IH]; intros Hnd Hx Hy E; [destruct Hx|].
  cbn [map] in Hnd. inversion Hnd as [|? ? Hna Hr]; subst.
  destruct Hx as [<-|Hx], Hy as [<-|Hy]; auto.
  - exfalso. apply Hna. rewrite E. apply in_map, Hy.
  - exfalso. apply Hna. rewrite <- E. apply in_map, Hx.
Qed.

Section Main.
  Variables (mac : bytes) (st0 : cuid_state) (c0 : Z) (K : nat).

  Lemma run_ci ls cs : crun false true mac (cinit st0 c0 K) ls = Some cs -> CI mac st0 c0 K cs.
  Proof. intro H. apply (ci_run mac st0 c0 K ls _ _ (cinit_ci mac st0 c0 K) H). Qed.

  (* (a) every schedule is a serial execution *)
  Theorem serial_order ls cs :
    crun false true mac (cinit st0 c0 K) ls = Some cs ->
    (forall g1 g2, held (nth g1 (k_ph cs) PIdle) = true -> held (nth g2 (k_ph cs) PIdle) = true -> g1 = g2) /\
    (forall g, held (nth g (k_ph cs) PIdle) = true <-> k_mutex cs = Some g) /\
    map fst (k_log cs) = rev (asm_of ls) /\
    let S := fst (serial mac st0 (k_log cs)) in
    let res := snd (serial mac st0 (k_log cs)) in
    (k_mutex cs = None -> k_last cs = S) /\
    (forall g c id, returned cs g c id <-> In (g, c, id) res) /\
    NoDup (map fst (k_log cs)) /\
    (all_done cs = true -> Permutation (map fst (k_log cs)) (seq 0 K)) /\
    (forall g c, In (g, c) (k_log cs) -> (c0 <= c <= k_clock cs)%Z) /\
    znondecreasing (map ms_at (rev (map snd (k_log cs)))) /\
    S = cuid_run_state mac st0 (map reading (rev (map snd (k_log cs)))) /\
    map snd (rev res) = cuid_run mac st0 (map reading (rev (map snd (k_log cs)))).
  Proof.
    intro H. pose proof (run_ci _ _ H) as HI.
    assert (Hheld : forall g, held (nth g (k_ph cs) PIdle) = true ->
                      exists p, nth_error (k_ph cs) g = Some p /\ held p = true).
    { intros g Hg. destruct (nth_error (k_ph cs) g) as [p|] eqn:E.
      - exists p. split; [reflexivity|]. rewrite (nth_error_nth _ _ _ E) in Hg. exact Hg.
      - rewrite (nth_overflow _ _ (proj1 (nth_error_None _ _) E)) in Hg. discriminate. }
    split.
    { intros g1 g2 H1 H2. destruct (Hheld _ H1) as (p1 & E1 & F1). destruct (Hheld _ H2) as (p2 & E2 & F2).
      apply (ci_exclusive mac st0 c0 K cs g1 g2 p1 p2 HI E1 E2 F1 F2). }
    split.
    { intro g. split.
      - intro Hg. destruct (Hheld _ Hg) as (p & E & F). pose proof (ci_ph _ _ _ _ _ HI _ _ E) as O.
        destruct p; try discriminate; cbn [ph_ok] in O; tauto.
      - intro Hm. destruct (ci_holder _ _ _ _ _ HI _ Hm) as (p & E & F).
        rewrite (nth_error_nth _ _ _ E). exact F. }
    split.
    { rewrite (crun_log _ _ _ _ _ _ H). cbn [cinit k_log map]. apply app_nil_r. }
    cbv zeta. split; [apply (ci_free _ _ _ _ _ HI)|].
    assert (Hret : forall g c id, returned cs g c id <-> In (g, c, id) (snd (serial mac st0 (k_log cs)))).
    { intros g c id. rewrite returned_iff. split; [|apply (ci_res _ _ _ _ _ HI)].
      intros (p & E & R). pose proof (ci_ph _ _ _ _ _ HI _ _ E) as O.
      destruct p; try discriminate; injection R as -> ->; cbn [ph_ok] in O; tauto. }
    split; [exact Hret|].
    split; [apply (ci_nodup _ _ _ _ _ HI)|].
    split.
    { intro Hdone. apply NoDup_Permutation; [apply (ci_nodup _ _ _ _ _ HI) | apply seq_NoDup|].
      intro g. rewrite in_seq. split.
      - intro Hin. rewrite <- (serial_log mac st0 (k_log cs)), map_map in Hin.
        apply in_map_iff in Hin. destruct Hin as ([[g1 c1] id1] & E & Hin). cbn [fst] in E. subst g1.
        destruct (ci_res _ _ _ _ _ HI _ _ _ Hin) as (p & Hp & _).
        assert (g < length (k_ph cs)) by (apply nth_error_Some; congruence).
        rewrite (ci_len _ _ _ _ _ HI) in *. lia.
      - intros [_ Hg]. cbn in Hg. rewrite <- (ci_len _ _ _ _ _ HI) in Hg.
        destruct (nth_error (k_ph cs) g) as [p|] eqn:E; [|apply nth_error_None in E; lia].
        unfold all_done in Hdone. rewrite forallb_forall in Hdone.
        pose proof (Hdone _ (nth_error_In _ _ E)) as D. destruct p; try discriminate.
        assert (R : returned cs g c id) by (right; exact E).
        apply Hret in R. rewrite <- (serial_log mac st0 (k_log cs)), map_map.
        apply in_map_iff. exists (g, c, id). split; [reflexivity | exact R]. }
    split.
    { intros g c Hin. apply (desc_in _ _ _ _ (ci_desc _ _ _ _ _ HI)). apply in_map_iff. exists (g, c). auto. }
    split; [apply (desc_znondec _ _ _ (ci_desc _ _ _ _ _ HI))|].
    apply (serial_is_run mac st0 (k_log cs)).
  Qed.

  (* the IDs reported along a run are pairwise different *)
  Lemma run_nodup ls cs :
    crun false true mac (cinit st0 c0 K) ls = Some cs ->
    epoch_at c0 = epoch_at (k_clock cs) ->
    (forall m, zoccurrences (map ms_at (map snd (k_log cs))) m <= p24)%N ->
    NoDup (map snd (snd (serial mac st0 (k_log cs)))).
  Proof.
    intros H He Hocc. pose proof (run_ci _ _ H) as HI.
    pose proof (serial_is_run mac st0 (k_log cs)) as [_ Hrun]. cbv zeta in Hrun.
    rewrite <- (rev_involutive (map snd _)), <- map_rev, Hrun. apply NoDup_rev.
    assert (Hin : forall t, In t (map reading (rev (map snd (k_log cs)))) ->
                    exists c, t = reading c /\ (c0 <= c <= k_clock cs)%Z).
    { intros t Ht. apply in_map_iff in Ht. destruct Ht as (c & <- & Hc). apply in_rev in Hc.
      exists c. split; [reflexivity | apply (desc_in _ _ _ _ (ci_desc _ _ _ _ _ HI) Hc)]. }
    apply cuid_unique_wallclock.
    - intros t Ht. destruct (Hin _ Ht) as (c & -> & _). apply nano_of_ok.
    - intros a b Ha Hb. destruct (Hin _ Ha) as (ca & -> & Hca). destruct (Hin _ Hb) as (cb & -> & Hcb).
      rewrite !epoch_of_reading, (epoch_between _ _ _ Hca He), (epoch_between _ _ _ Hcb He). reflexivity.
    - rewrite map_map, (map_ext _ ms_at ms_of_reading). apply (desc_znondec _ _ _ (ci_desc _ _ _ _ _ HI)).
    - intro m. rewrite map_map, (map_ext _ ms_at ms_of_reading), map_rev.
      unfold zoccurrences. rewrite count_occ_rev. apply Hocc.
  Qed.

  (* never the same value twice: for every schedule, while the clock stays in
     one 2^40 ms period and no millisecond is used by more than 2^24 calls *)
  Theorem unique ls cs :
    crun false true mac (cinit st0 c0 K) ls = Some cs ->
    epoch_at c0 = epoch_at (k_clock cs) ->
    (forall m, zoccurrences (map ms_at (map snd (k_log cs))) m <= p24)%N ->
    forall g1 g2 c1 c2 id, returned cs g1 c1 id -> returned cs g2 c2 id -> g1 = g2.
  Proof.
    intros H He Hocc g1 g2 c1 c2 id R1 R2.
    pose proof (run_nodup _ _ H He Hocc) as Hnd.
    destruct (serial_order _ _ H) as (_ & _ & _ & _ & Hret & _). cbv zeta in Hret.
    apply Hret in R1. apply Hret in R2.
    pose proof (nodup_map_inj snd _ _ _ Hnd R1 R2 eq_refl) as E. congruence.
  Qed.

  (* at most 2^24 goroutines: no hypothesis on the schedule at all *)
  Theorem unique_small ls cs :
    crun false true mac (cinit st0 c0 K) ls = Some cs ->
    epoch_at c0 = epoch_at (k_clock cs) ->
    (N.of_nat K <= p24)%N ->
    forall g1 g2 c1 c2 id, returned cs g1 c1 id -> returned cs g2 c2 id -> g1 = g2.
  Proof.
    intros H He HK. apply (unique _ _ H He).
    intro m. unfold zoccurrences.
    pose proof (count_occ_bound Z.eq_dec m (map ms_at (map snd (k_log cs)))) as B.
    rewrite !map_length in B.
    destruct (serial_order _ _ H) as (_ & _ & _ & _ & _ & Hnd & _).
    pose proof (run_ci _ _ H) as HI.
    assert (L : length (k_log cs) <= K).
    { rewrite <- (map_length fst), <- (seq_length K 0). apply NoDup_incl_length; [exact Hnd|].
      intros g Hin. apply in_seq. split; [lia|]. cbn.
      rewrite <- (serial_log mac st0 (k_log cs)), map_map in Hin.
      apply in_map_iff in Hin. destruct Hin as ([[g1' c1'] id1] & E & Hin). cbn [fst] in E. subst g1'.
      destruct (ci_res _ _ _ _ _ HI _ _ _ Hin) as (p & Hp & _).
      assert (g < length (k_ph cs)) by (apply nth_error_Some; congruence).
      rewrite (ci_len _ _ _ _ _ HI) in *. lia. }
    lia.
  Qed.

  (* IDs of later milliseconds sort after those of earlier ones *)
  Theorem ordered ls cs :
    crun false true mac (cinit st0 c0 K) ls = Some cs ->
    forall g1 g2 c1 c2 id1 id2, returned cs g1 c1 id1 -> returned cs g2 c2 id2 ->
    (ms_at c1 < ms_at c2)%Z -> epoch_at c1 = epoch_at c2 ->
    lex_lt id1 id2 = true.
  Proof.
    intros H g1 g2 c1 c2 id1 id2 R1 R2 Hlt He.
    destruct (serial_order _ _ H) as (_ & _ & _ & _ & Hret & _). cbv zeta in Hret.
    apply Hret in R1. apply Hret in R2.
    destruct (serial_in _ _ _ _ _ _ R1) as (s1 & ->). destruct (serial_in _ _ _ _ _ _ R2) as (s2 & ->).
    unfold cuid_at. apply cuid_ordered_wallclock.
    - apply (nano_of_ok c1).
    - apply (nano_of_ok c2).
    - change (ms_of (reading c1) < ms_of (reading c2))%Z. rewrite !ms_of_reading. exact Hlt.
    - change (epoch_of (reading c1) = epoch_of (reading c2)). rewrite !epoch_of_reading. exact He.
  Qed.

  (* a call whose critical section comes later never has an earlier instant:
     the log (newest first) is sorted *)
  Theorem log_sorted ls cs :
    crun false true mac (cinit st0 c0 K) ls = Some cs ->
    forall pre g2 c2 post g1 c1, k_log cs = pre ++ (g2, c2) :: post -> In (g1, c1) post -> (c1 <= c2)%Z.
  Proof.
    intros H pre g2 c2 post g1 c1 E Hin. pose proof (run_ci _ _ H) as HI.
    pose proof (ci_desc _ _ _ _ _ HI) as D. rewrite E, map_app in D. cbn [map snd] in D.
    assert (G : forall l hi, desc c0 hi (l ++ c2 :: map snd post) -> desc c0 c2 (map snd post)).
    { induction l as [|x l IH]; intros hi Hd; cbn [app desc] in Hd; [tauto | apply (IH x); tauto]. }
    apply G in D. apply (desc_in _ _ _ _ D). apply in_map_iff. exists (g1, c1). auto.
  Qed.
End Main.
