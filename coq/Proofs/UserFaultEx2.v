(* Task A6: non-vacuity of the history-level theorems of UserFault5.v. *)
From Sessions Require Import Model.Base Model.Sess Model.Hist Proofs.SessDefs
  Proofs.HistInv Proofs.HistInv2 Proofs.HistInv3 Proofs.UserLaws Proofs.UserHist Proofs.UserHist2 Proofs.UserHistEx.
From Sessions Require Import Proofs.UserFault Proofs.UserFault2 Proofs.UserFault4 Proofs.UserFault5 Proofs.UserFaultEx.

Lemma hE_ff : Forall ff_hop hE /\ Forall crash_free hE.
Proof. split; repeat constructor. Qed.

(* the history hE (four clients, cache size 1), then LogOut(5) with the fault
   plan plE (the flush making room for the last session fails): nil; with the
   sixth call failing (the load of the last listed ID): an error, the first
   listed session is logged out already, the last is untouched *)
Example logout_user_fault_hist_nonvacuous :
  let w := reach (cfgE 1) hE in
  listed (w_st w) 5 = [KGen 5; KGen 1; KGen 3] /\
  ob_res (snd (step w (HLogoutUser 5 [] plE))) = RVoid /\
  length (filter (fun e => match e with EvSave _ _ false => true | _ => false end) (ob_evs (snd (step w (HLogoutUser 5 [] plE))))) = 1 /\
  map (fun kr => (fst kr, r_user (snd kr))) (ob_store (snd (step w (HLogoutUser 5 [] plE))))
  = [(KGen 0, None); (KGen 1, None); (KGen 2, None); (KGen 3, None); (KGen 4, None); (KGen 6, None); (KGen 7, Some (6, 0)%N)] /\
  ob_res (snd (step w (HLogoutUser 5 [] [false; false; false; false; false; true]))) = RErr ECacheGet /\
  map (fun kr => (fst kr, r_user (snd kr))) (ob_store (snd (step w (HLogoutUser 5 [] [false; false; false; false; false; true]))))
  = [(KGen 0, None); (KGen 1, None); (KGen 2, None); (KGen 3, Some (5, 0)%N); (KGen 4, None); (KGen 6, None); (KGen 7, Some (6, 0)%N)].
Proof. vm_compute. repeat split. Qed.

Example refresh_user_fault_hist_nonvacuous :
  let w := reach (cfgE 1) hE in
  ob_res (snd (step w (HRefreshUser (5, 3)%N [] plE))) = RVoid /\
  ob_res (snd (step w (HRefreshUser (5, 3)%N [] [true]))) = RErr EUserSessions.
Proof. vm_compute. repeat split. Qed.

(* the handler position of UserHistEx.v (client 2 of user 5 after SSet 1 1; the
   other browser of user 5 holds KGen 1): the exclusive LogIn returns nil under
   a plan whose fault lies beyond its last call, and an error when the index
   call fails *)
Example login_excl_fault_hist_nonvacuous :
  wU = reach cU hU /\ Forall ff_hop hU /\ Forall crash_free hU /\ handler_at wU rU [SSet 1 1] sU 2 /\
  listed sU 5 = [KGen 1] /\
  (exists s', login (set_plan sU (repeat false 6 ++ [true])) 2 (5, 2)%N true = (s', Ok tt, [CkLive (KGen 3)]) /\
              option_map r_user (lookup (store s') (KGen 1)) = Some None /\
              option_map r_user (lookup (store s') (KGen 3)) = Some (Some (5, 0)%N)) /\
  (exists s', login (set_plan sU [true]) 2 (5, 2)%N true = (s', Err ELoginLogout, [])).
Proof.
  split; [exact wU_eq|]. split; [repeat constructor|]. split; [repeat constructor|]. split; [exact handler_at_ex|].
  split; [vm_compute; reflexivity|].
  split; eexists; [split; [vm_compute; reflexivity|]; split; vm_compute; reflexivity | vm_compute; reflexivity].
Qed.
