(* The composed system of Model/StartConc.v with Start cut at EVERY cache
   operation (round 4, task R2, second follow-up, part 2). Executable, no
   proofs.

   What Start does after its look-up is written as a resumable program
   (`prog`): a tree whose nodes `Op k` are single actions on the shared session
   state, each returning the program that remains. `rest_prog` is a copy of
   Model/StartConc.v's start_rest (i.e. of Sess.start after the look-up, with
   Sess.destroy, create_session, regenerate and follow inlined) in which every
   cache operation is a node of its own, together with the object accesses that
   stand next to it in the code (as Model/StartSteps.v places its hooks), and
   so are the reads of the session object:

     read under RLock          valid, age                      (no cache operation)
     read of referenceID       isref; object gone -> panic     (no cache operation)
     Destroy                   sessions.Delete                 (1)
     creation                  sessions.Set                    (1)
     RegenerateID              sessions.Set of the new ID      (1)
                               sessions.Set of the reference   (1; the clean-up is queued here)
     backstop                  sessions.Delete                 (1)
     reference loop            read supply (fuel); per hop: read referenceID + sessions.Get
     bookkeeping               lastAccess, lastIP, agent under the session's lock

   Proofs/StartConcOps.v proves that running the program to its end with
   nothing in between is start_rest (run_rest_prog).

   The system: as Model/StartConc.v, with the world actions
     OLook g    the look-up (the coarse CLook), leaving g with rest_prog
     OStep g    the next node of g's program, on the shared state as it is then
     OFin g     g's program has ended: the epilogue `req_finish`
     OTick d    the clock (only while no goroutine is between look-up and end)
   `f_snap` is a ghost: the shared state as the coarse system sees it (it does
   not move during OStep); `oabs` maps to the coarse system. *)
From Sessions Require Import Model.Base Model.Sess Model.Hist Model.Mutex Model.StartConc Model.StartConcFine.

Inductive prog (A : Type) := Done (a : A) | Op (k : st -> st * prog A).
Arguments Done {A}.
Arguments Op {A}.

Fixpoint run {A} (p : prog A) (s : st) : st * A :=
  match p with
  | Done a => (s, a)
  | Op k => let '(s', p') := k s in run p' s'
  end.

Fixpoint bind {A B} (p : prog A) (f : A -> prog B) : prog B :=
  match p with
  | Done a => f a
  | Op k => Op (fun s => let '(s', p') := k s in (s', bind p' f))
  end.

(* one action returning a value *)
Definition op1 {A} (f : st -> st * A) : prog A := Op (fun s => let '(s', a) := f s in (s', Done a)).

(* number of actions left on the path taken from s (for reading examples) *)
Fixpoint steps {A} (p : prog A) (s : st) : nat :=
  match p with
  | Done _ => 0
  | Op k => let '(s', p') := k s in S (steps p' s')
  end.

Definition sret : Type := (result (option nat) * list cookie)%type.

(* Session.Destroy: one cache operation *)
Definition destroy_p (o : nat) : prog (result unit * list cookie) :=
  op1 (fun s =>
    match hget s o with
    | None => (s, (Panic EDestroy, []))
    | Some ob =>
      let '(s, ok) := cache_delete s (o_id ob) in
      if negb ok then (s, (Err EDestroy, [])) else (s, (Ok tt, [CkDelete]))
    end).

(* creation: one cache operation *)
Definition create_p (q : request) : prog sret :=
  op1 (fun s =>
    let '(s, nid) := gen_id s in
    let '(s, o) := halloc s (mkObj nid (mkRec (now s) (now s) (q_addr q) (q_ua q) None None (Some []))) in
    let '(s, ok) := cache_set s o in
    if negb ok then (s, (Err ECreate, [])) else (s, (Ok (Some o), [CkLive nid]))).

(* RegenerateID: two cache operations *)
Definition regenerate_p (o : nat) : prog (result unit * list cookie) :=
  bind
    (op1 (fun s =>
       match hget s o with
       | None => (s, inl (Panic ERegenSave, []))
       | Some ob =>
         let old := o_id ob in
         let '(s, nid) := gen_id s in
         let s := hput s o (mkObj nid (set_created (o_rec ob) (now s))) in
         let '(s, ok) := cache_set s o in
         if negb ok then (s, inl (Err ERegenSave, [])) else (s, inr (old, nid))
       end))
    (fun x =>
       match x with
       | inl r => Done r
       | inr (old, nid) =>
         op1 (fun s =>
           match hget s o with
           | None => (s, (Panic ERegenSave, []))
           | Some ob =>
             let r := o_rec ob in
             let '(s, ro) := halloc s (mkObj old (mkRec (r_created r) (now s) (r_ip r) (r_ua r) (Some nid) None None)) in
             let '(s, ok) := cache_set s ro in
             if negb ok then (s, (Err ERegenRef, []))
             else
               let s := set_pending s (pending s ++ [((now s + c_grace (conf s))%Z, old)]) in
               (s, (Ok tt, [CkLive nid]))
           end)
       end).

(* the reference loop: per hop one read of referenceID and one sessions.Get *)
Fixpoint follow_p (fuel : nat) (o : nat) (last : key) : prog (result (nat * key)) :=
  Op (fun s =>
    match hget s o with
    | None => (s, Done (Panic EGetRef))
    | Some ob =>
      match r_ref (o_rec ob) with
      | None => (s, Done (Ok (o, last)))
      | Some target =>
        match fuel with
        | O => (s, Done (Err ERefLoop))
        | S f =>
          let '(s, r) := cache_get s target in
          (s, match r with
              | None => Done (Err EGetRef)
              | Some None => Done (Err ERefMissing)
              | Some (Some o') => follow_p f o' target
              end)
        end
      end
    end).

(* Start after its look-up *)
Definition rest_prog (c : cfg) (q : request) (found : option (key * nat)) (cks : list cookie) (failed : bool) : prog sret :=
  if failed then Done (Err EGet, [])
  else
    match found with
    | Some (k, o) =>
      (* the read under the session's RLock *)
      Op (fun s => (s,
        match start_read c s q found with
        | None => Done (Panic EGet, [])
        | Some (valid, age) =>
          (* the object is read again: referenceID *)
          Op (fun s => (s,
            match hget s o with
            | None => Done (Panic EGet, [])
            | Some ob =>
              let r := o_rec ob in
              if negb valid then
                bind (destroy_p o) (fun x =>
                  let '(res, dck) := x in
                  match res with
                  | Ok _ =>
                    if q_create q then
                      bind (create_p q) (fun y => let '(res, nck) := y in Done (res, cks ++ dck ++ nck))
                    else Done (Ok None, cks ++ dck)
                  | Err e => Done (Err e, cks)
                  | Panic e => Done (Panic e, cks)
                  end)
              else
                let isref := match r_ref r with Some _ => true | None => false end in
                bind
                  (if negb isref && (c_idexpiry c <=? age)%Z then
                     bind (regenerate_p o) (fun x => let '(res, rck) := x in Done (res, cks ++ rck))
                   else if (sat_add (c_idexpiry c) (c_grace c) <=? age)%Z then
                     op1 (fun s =>
                       let '(s, ok) := cache_delete s k in
                       (s, (if ok then Err EExpiredID else Err EDeleteExpired, cks)))
                   else Done (Ok tt, cks))
                  (fun x =>
                     let '(step, cks) := x in
                     match step with
                     | Err e => Done (Err e, cks)
                     | Panic e => Done (Panic e, cks)
                     | Ok _ =>
                       bind
                         (if isref then Op (fun s => (s, follow_p (S (N.to_nat (supply s))) o k))
                          else Done (Ok (o, k)))
                         (fun fr =>
                            match fr with
                            | Err e => Done (Err e, cks)
                            | Panic e => Done (Panic e, cks)
                            | Ok (o', lk) =>
                              op1 (fun s =>
                                (hupd s o' (fun r => set_ua (set_ip (set_access r (now s)) (q_addr q)) (q_ua q)),
                                 (Ok (Some o'), if isref then cks ++ [CkLive lk] else cks)))
                            end)
                     end)
            end))
        end))
    | None =>
      if q_create q then
        bind (create_p q) (fun y => let '(res, nck) := y in Done (res, cks ++ nck))
      else Done (Ok None, cks)
    end.

(* ---- the system ---- *)

Inductive ophase :=
| OIdle
| OMid (s0 : st) (jar : cval) (found : option (key * nat)) (cks : list cookie) (failed : bool) (p : prog sret)
| ODone (o : obs).

Record ostate := mkO {
  o_lock : state; o_st : st; o_snap : st; o_jars : list (N * cval); o_ph : list ophase; o_acts : list act }.

Inductive olabel :=
| OL (l : label) | OLook (g : nat) | OStep (g : nat) | OFin (g : nat) | OTick (d : Z).

Definition o_is_mid (p : ophase) : bool := match p with OMid _ _ _ _ _ _ => true | _ => false end.
Definition o_is_done (p : ophase) : bool := match p with ODone _ => true | _ => false end.

Section System.
  Variable locked : bool.
  Variable reqs : list reqstep.

  Definition ostep (os : ostate) (lab : olabel) : option ostate :=
    match lab with
    | OL l =>
      let returned :=
        match l with
        | LLeave g => match nth_error (o_ph os) g with Some (ODone _) => true | _ => false end
        | _ => true
        end in
      if returned then
        match step (o_lock os) l with
        | Some st' => Some (mkO st' (o_st os) (o_snap os) (o_jars os) (o_ph os) (o_acts os))
        | None => None
        end
      else None
    | OLook g =>
      match nth_error (o_ph os) g, nth_error reqs g with
      | Some OIdle, Some r =>
        let s0 := set_evs (o_st os) [] in
        let jar := jar_of (o_jars os) (rq_client r) in
        let holds := match lock_key (q_cookie (rq_request jar r)) with
                     | Some kk => holds_key (o_lock os) g kk
                     | None => true
                     end in
        if negb locked || holds then
          let '(s1, found, cks, failed) := start_lookup (rq_prepare s0 r) (rq_request jar r) in
          Some (mkO (o_lock os) s1 s1 (o_jars os)
                  (upd g (OMid s0 jar found cks failed (rest_prog (conf s0) (rq_request jar r) found cks failed)) (o_ph os))
                  (o_acts os))
        else None
      | _, _ => None
      end
    | OStep g =>
      match nth_error (o_ph os) g with
      | Some (OMid s0 jar found cks failed (Op k)) =>
        let '(s', p') := k (o_st os) in
        Some (mkO (o_lock os) s' (o_snap os) (o_jars os) (upd g (OMid s0 jar found cks failed p') (o_ph os)) (o_acts os))
      | _ => None
      end
    | OFin g =>
      match nth_error (o_ph os) g, nth_error reqs g with
      | Some (OMid s0 jar found cks failed (Done (res, cks'))), Some r =>
        let '(w', o) := req_finish s0 jar (o_jars os) r (rq_request jar r) (o_st os, res, cks') in
        Some (mkO (o_lock os) (w_st w') (w_st w') (w_jars w') (upd g (ODone o) (o_ph os)) (AReq g :: o_acts os))
      | _, _ => None
      end
    | OTick d =>
      if existsb o_is_mid (o_ph os) then None
      else
        let w' := fst (Hist.step (mkWorld (o_st os) (o_jars os)) (HWait d)) in
        Some (mkO (o_lock os) (w_st w') (w_st w') (w_jars w') (o_ph os) (ATick d :: o_acts os))
    end.

  Fixpoint orun (os : ostate) (ls : list olabel) : option ostate :=
    match ls with
    | [] => Some os
    | l :: r => match ostep os l with Some os' => orun os' r | None => None end
    end.

  Definition oadm (os : ostate) (lab : olabel) : Prop :=
    match lab with OL l => adm (o_lock os) l | _ => True end.

  Fixpoint oadm_run (os : ostate) (ls : list olabel) : Prop :=
    match ls with
    | [] => True
    | l :: r => oadm os l /\ match ostep os l with Some os' => oadm_run os' r | None => True end
    end.

  Definition oadmb (os : ostate) (lab : olabel) : bool :=
    match lab with OL l => admb (o_lock os) l | _ => true end.

  Fixpoint oadmb_run (os : ostate) (ls : list olabel) : bool :=
    match ls with
    | [] => true
    | l :: r => oadmb os l && match ostep os l with Some os' => oadmb_run os' r | None => false end
    end.
End System.

Definition oinit (k : nat) (reqs : list reqstep) (w : world) (purges : nat) : ostate :=
  mkO (init (map (fun _ => [OLock k]) reqs) purges) (w_st w) (w_st w) (w_jars w) (map (fun _ => OIdle) reqs) [].

Definition o_all_done (os : ostate) : bool := finished (o_lock os) && forallb o_is_done (o_ph os).

(* ---- back to the coarse system ---- *)
Definition oabs_phase (p : ophase) : phase :=
  match p with
  | OIdle => PIdle
  | OMid s0 jar f c b _ => PLooked s0 jar f c b
  | ODone o => PDone o
  end.
Definition oabs (os : ostate) : cstate :=
  mkC (o_lock os) (o_snap os) (o_jars os) (map oabs_phase (o_ph os)) (o_acts os).
Definition oabs_label (lab : olabel) : list clabel :=
  match lab with
  | OL l => [CL l] | OLook g => [CLook g] | OStep _ => [] | OFin g => [CRest g] | OTick d => [CTick d]
  end.
Definition oabs_run (ls : list olabel) : list clabel := flat_map oabs_label ls.
