(* Correspondence: comparing what the model computes for a history with what
   the harness observed of the real code, field by field. Executable, no
   proofs. *)
From Sessions Require Import Model.Base Model.Sess Model.Hist.

Definition opt_eqb {A} (f : A -> A -> bool) (a b : option A) : bool :=
  match a, b with
  | None, None => true
  | Some x, Some y => f x y
  | _, _ => false
  end.

Fixpoint list_eqb {A} (f : A -> A -> bool) (a b : list A) : bool :=
  match a, b with
  | [], [] => true
  | x :: a', y :: b' => f x y && list_eqb f a' b'
  | _, _ => false
  end.

Definition pairN_eqb (a b : N * N) : bool := N.eqb (fst a) (fst b) && N.eqb (snd a) (snd b).

Definition rec_eqb (a b : rec) : bool :=
  Z.eqb (r_created a) (r_created b) && Z.eqb (r_access a) (r_access b) &&
  addr_eqb (r_ip a) (r_ip b) && N.eqb (r_ua a) (r_ua b) &&
  opt_eqb key_eqb (r_ref a) (r_ref b) && opt_eqb pairN_eqb (r_user a) (r_user b) &&
  opt_eqb (list_eqb pairN_eqb) (r_data a) (r_data b).

Definition keyrec_eqb (a b : key * rec) : bool := key_eqb (fst a) (fst b) && rec_eqb (snd a) (snd b).

Definition obj_eqb (a b : obj) : bool := key_eqb (o_id a) (o_id b) && rec_eqb (o_rec a) (o_rec b).

Definition keyobj_eqb (a b : key * obj) : bool := key_eqb (fst a) (fst b) && obj_eqb (snd a) (snd b).

(* Error sites: the harness recognises a site by the error's text; errors the
   package passes on unwrapped (direct saves, LogOut(userID), RefreshUser) are
   one class, and all panics are one class. *)
Definition site_class (e : site) : N :=
  match e with
  | EGet => 1 | EDestroy => 2 | ERegenSave => 3 | ERegenRef => 4 | EExpiredID => 5
  | EDeleteExpired => 6 | EGetRef => 7 | ERefMissing => 8 | ERefLoop => 9 | ECreate => 10
  | ELoginLogout => 11 | ELoginSave => 12 | ELoginRegen => 13 | ENoCookie => 14
  | ESave | EUserSessions | ECacheGet | ECacheSet => 0
  end%N.

Definition rclass_eqb (a b : rclass) : bool :=
  match a, b with
  | RSess, RSess | RNone, RNone | RVoid, RVoid | RCrashed, RCrashed => true
  | RErr x, RErr y => N.eqb (site_class x) (site_class y)
  | RPanic _, RPanic _ => true
  | _, _ => false
  end.

Definition sres_eqb (a b : sres) : bool :=
  match a, b with
  | SOk, SOk => true
  | SVal x, SVal y => opt_eqb N.eqb x y
  | SErr x, SErr y => N.eqb (site_class x) (site_class y)
  | SPanic _, SPanic _ => true
  | _, _ => false
  end.

Definition cookie_eqb (a b : cookie) : bool :=
  match a, b with
  | CkLive x, CkLive y => key_eqb x y
  | CkDelete, CkDelete => true
  | CkBad x, CkBad y => N.eqb x y
  | _, _ => false
  end.

Definition ev_eqb (a b : ev) : bool :=
  match a, b with
  | EvLoad k o, EvLoad k' o' => key_eqb k k' && Bool.eqb o o'
  | EvLoadUser u o, EvLoadUser u' o' => N.eqb u u' && Bool.eqb o o'
  | EvSave k r o, EvSave k' r' o' => key_eqb k k' && rec_eqb r r' && Bool.eqb o o'
  | EvDelete k o, EvDelete k' o' => key_eqb k k' && Bool.eqb o o'
  | EvUserSessions u o, EvUserSessions u' o' => N.eqb u u' && Bool.eqb o o'
  | EvDraw n, EvDraw n' => N.eqb n n'
  | _, _ => false
  end.

(* Clean-up goroutines that become due at the same instant run in an order the
   Go runtime does not specify; their deletions commute. Each maximal run of
   consecutive successful deletions is therefore compared as a multiset (it is
   sorted by ID on both sides). *)
Fixpoint insert_key (k : key) (l : list key) : list key :=
  match l with
  | [] => [k]
  | x :: t => if key_leb k x then k :: x :: t else x :: insert_key k t
  end.

Fixpoint norm_evs_aux (l : list ev) (run : list key) : list ev :=
  match l with
  | [] => map (fun k => EvDelete k true) run
  | EvDelete k true :: t => norm_evs_aux t (insert_key k run)
  | e :: t => map (fun k => EvDelete k true) run ++ e :: norm_evs_aux t []
  end.

Definition norm_evs (l : list ev) : list ev := norm_evs_aux l [].

Definition cval_eqb (a b : cval) : bool :=
  match a, b with
  | CNone, CNone => true
  | CKey x, CKey y => key_eqb x y
  | COther x, COther y => N.eqb x y
  | _, _ => false
  end.

(* The fields in which two observations differ (numbered in record order). *)
Definition diff_fields (a b : obs) : list N :=
  (if rclass_eqb (ob_res a) (ob_res b) then [] else [1%N]) ++
  (if opt_eqb keyrec_eqb (ob_start a) (ob_start b) then [] else [2%N]) ++
  (if list_eqb cookie_eqb (ob_cookies a) (ob_cookies b) then [] else [3%N]) ++
  (if list_eqb sres_eqb (ob_script a) (ob_script b) then [] else [4%N]) ++
  (if opt_eqb keyrec_eqb (ob_final a) (ob_final b) then [] else [5%N]) ++
  (if list_eqb ev_eqb (norm_evs (ob_evs a)) (norm_evs (ob_evs b)) then [] else [6%N]) ++
  (if list_eqb keyobj_eqb (ob_cache a) (ob_cache b) then [] else [7%N]) ++
  (if list_eqb keyrec_eqb (ob_store a) (ob_store b) then [] else [8%N]) ++
  (if cval_eqb (ob_jar a) (ob_jar b) then [] else [9%N]) ++
  (if Z.eqb (ob_now a) (ob_now b) then [] else [10%N]) ++
  (if N.eqb (ob_drawn a) (ob_drawn b) then [] else [11%N]) ++
  (if list_eqb Bool.eqb (ob_expired a) (ob_expired b) then [] else [12%N]).

Definition hcase := (cfg * list hop * list obs)%type.

(* First step at which model and observation differ, with the fields. *)
Fixpoint first_diff (model observed : list obs) (i : N) : option (N * list N) :=
  match model, observed with
  | [], [] => None
  | m :: mt, o :: ot =>
    match diff_fields m o with
    | [] => first_diff mt ot (i + 1)%N
    | d => Some (i, d)
    end
  | _, _ => Some (i, [0%N])     (* different numbers of steps *)
  end.

Definition case_diff (c : hcase) : option (N * list N) :=
  let '(cf, h, o) := c in first_diff (run cf h) o 0%N.

(* For each case: (case index, step, differing fields) when they differ. *)
Fixpoint case_diffs (cs : list hcase) (i : N) : list (N * (N * list N)) :=
  match cs with
  | [] => []
  | c :: t =>
    match case_diff c with
    | None => case_diffs t (i + 1)%N
    | Some d => (i, d) :: case_diffs t (i + 1)%N
    end
  end.

(* Flat encoding for printing: case, step, number of fields, fields. *)
Definition flat_diffs (l : list (N * (N * list N))) : list N :=
  flat_map (fun d => fst d :: fst (snd d) :: N.of_nat (length (snd (snd d))) :: snd (snd d)) l.
