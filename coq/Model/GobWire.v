(* An instance of the gob wire as a flat stream of words. Executable, no proofs.

   Model/Codec.v takes the gob wire to be the list of typed values handed to
   Encode (list wval); that the library transports each of them faithfully is
   an assumption of C16. Here the list of typed values is written out to a
   flat stream (one N per word) with an explicit, trivial, tagged and
   length-prefixed encoding, and read back by a decoder that checks tags,
   lengths and the end of the stream. Proofs/GobWireOk.v proves that reading
   restores what was written, for every list of values; Properties/C16I.v
   restates C16 over the flat stream.

   This is an instance showing that the assumption is satisfiable (and that
   C16 does not depend on the wire being structured); it is not a model of
   the byte format of encoding/gob. *)
From Sessions Require Import Model.Base Model.Codec.
Local Open Scope N_scope.

(* A stream of words; each N is one word. *)
Definition wire := list N.

(* ---------------------------------------------------------------- writers *)

(* sign word (0: non-negative, 1: negative), then the magnitude *)
Definition put_Z (z : Z) : wire :=
  match z with
  | Z0 => [0; 0]
  | Zpos p => [0; Npos p]
  | Zneg p => [1; Npos p]
  end.

(* length, then the elements *)
Definition put_str (s : bytes) : wire := N.of_nat (length s) :: s.

(* seconds, nanoseconds, offset *)
Definition put_time (t : gtime) : wire := put_Z (t_sec t) ++ [t_nsec t] ++ put_Z (t_off t).

Definition put_bool (b : bool) : wire := [if b then 1 else 0].

(* tag word, then the payload; DList / DMap: tag, count, the elements / the
   key-value pairs one after the other *)
Fixpoint put_dval (d : dval) : wire :=
  match d with
  | DNull => [0]
  | DBool b => 1 :: put_bool b
  | DInt z => 2 :: put_Z z
  | DFloat bits => [3; bits]
  | DStr s => 4 :: put_str s
  | DList l => 5 :: N.of_nat (length l) :: concat (map put_dval l)
  | DMap m => 6 :: N.of_nat (length m) :: concat (map (fun kv => put_str (fst kv) ++ put_dval (snd kv)) m)
  end.

Definition put_member (kv : bytes * dval) : wire := put_str (fst kv) ++ put_dval (snd kv).

Definition put_wval (v : wval) : wire :=
  match v with
  | WUint n => [0; n]
  | WTime t => 1 :: put_time t
  | WStr s => 2 :: put_str s
  | WBool b => 3 :: put_bool b
  | WIface d => 4 :: put_dval d
  | WMap m => 5 :: N.of_nat (length m) :: concat (map put_member m)
  end.

(* the number of values, then the values *)
Definition gob_ser (w : list wval) : wire := N.of_nat (length w) :: concat (map put_wval w).

(* ---------------------------------------------------------------- readers *)

(* Every reader returns the value and the rest of the stream, None when the
   stream is too short or a word is not what the writer would have put. *)

Definition get_Z (s : wire) : option (Z * wire) :=
  match s with
  | sg :: m :: r =>
      if sg =? 0 then Some (Z.of_N m, r)
      else if sg =? 1 then match m with N0 => None | Npos p => Some (Zneg p, r) end
      else None
  | _ => None
  end.

(* the next n words *)
Fixpoint get_n (s : wire) (n : N) : option (bytes * wire) :=
  if n =? 0 then Some ([], s)
  else match s with
       | [] => None
       | b :: r => match get_n r (N.pred n) with
                   | Some (l, r') => Some (b :: l, r')
                   | None => None
                   end
       end.

Definition get_str (s : wire) : option (bytes * wire) :=
  match s with
  | n :: r => get_n r n
  | [] => None
  end.

Definition get_time (s : wire) : option (gtime * wire) :=
  match get_Z s with
  | Some (sec, ns :: r) =>
      match get_Z r with
      | Some (off, r') => Some (mkTime sec ns off, r')
      | None => None
      end
  | _ => None
  end.

Definition get_bool (s : wire) : option (bool * wire) :=
  match s with
  | b :: r => if b =? 0 then Some (false, r) else if b =? 1 then Some (true, r) else None
  | [] => None
  end.

(* n items, each read by g. The recursion is on fuel (the count is a word of
   the stream, so it is not trusted to bound anything). *)
Fixpoint get_many {A : Type} (g : wire -> option (A * wire)) (fuel : nat) (n : N) (s : wire)
  : option (list A * wire) :=
  match fuel with
  | O => None
  | S f =>
      if n =? 0 then Some ([], s)
      else match g s with
           | Some (x, s') => match get_many g f (N.pred n) s' with
                             | Some (l, s'') => Some (x :: l, s'')
                             | None => None
                             end
           | None => None
           end
  end.

Definition get_member_with (g : wire -> option (dval * wire)) (s : wire) : option ((bytes * dval) * wire) :=
  match get_str s with
  | Some (k, r) => match g r with
                   | Some (v, r') => Some ((k, v), r')
                   | None => None
                   end
  | None => None
  end.

Fixpoint get_dval (fuel : nat) (s : wire) : option (dval * wire) :=
  match fuel with
  | O => None
  | S f =>
      match s with
      | [] => None
      | tag :: r =>
          if tag =? 0 then Some (DNull, r)
          else if tag =? 1 then match get_bool r with Some (b, r') => Some (DBool b, r') | None => None end
          else if tag =? 2 then match get_Z r with Some (z, r') => Some (DInt z, r') | None => None end
          else if tag =? 3 then match r with bits :: r' => Some (DFloat bits, r') | [] => None end
          else if tag =? 4 then match get_str r with Some (x, r') => Some (DStr x, r') | None => None end
          else if tag =? 5 then
            match r with
            | n :: r' => match get_many (get_dval f) f n r' with
                         | Some (l, r'') => Some (DList l, r'')
                         | None => None
                         end
            | [] => None
            end
          else if tag =? 6 then
            match r with
            | n :: r' => match get_many (get_member_with (get_dval f)) f n r' with
                         | Some (m, r'') => Some (DMap m, r'')
                         | None => None
                         end
            | [] => None
            end
          else None
      end
  end.

Definition get_member (fuel : nat) : wire -> option ((bytes * dval) * wire) :=
  get_member_with (get_dval fuel).

Definition get_wval (fuel : nat) (s : wire) : option (wval * wire) :=
  match s with
  | [] => None
  | tag :: r =>
      if tag =? 0 then match r with n :: r' => Some (WUint n, r') | [] => None end
      else if tag =? 1 then match get_time r with Some (t, r') => Some (WTime t, r') | None => None end
      else if tag =? 2 then match get_str r with Some (x, r') => Some (WStr x, r') | None => None end
      else if tag =? 3 then match get_bool r with Some (b, r') => Some (WBool b, r') | None => None end
      else if tag =? 4 then match get_dval fuel r with Some (d, r') => Some (WIface d, r') | None => None end
      else if tag =? 5 then
        match r with
        | n :: r' => match get_many (get_member fuel) fuel n r' with
                     | Some (m, r'') => Some (WMap m, r'')
                     | None => None
                     end
        | [] => None
        end
      else None
  end.

(* The whole stream: the count, the values, and nothing after them. Twice the
   length of the stream (and two) is always fuel enough. *)
Definition gob_deser (s : wire) : option (list wval) :=
  let fuel := S (S (2 * length s)) in
  match s with
  | [] => None
  | n :: r => match get_many (get_wval fuel) fuel n r with
              | Some (w, []) => Some w
              | _ => None
              end
  end.

(* ------------------------------------------- the codec over the flat stream *)

Definition gob_encode_wire (ver : N) (L : list gentry) (s : csess) : result wire :=
  rbind (gob_encode ver L s) (fun w => Ok (gob_ser w)).

(* a stream that is not a well-formed sequence of values is a decoding error *)
Definition gob_decode_wire (load : loader) (L : list gentry) (b : wire) : result csess :=
  match gob_deser b with
  | Some w => gob_decode load L w
  | None => Err
  end.

Definition gob_roundtrip_wire (load : loader) (ver : N) (enc dec : list gentry) (s : csess) : result csess :=
  rbind (gob_encode_wire ver enc s) (gob_decode_wire load dec).

(* ------------------------------------------------ refinement to real bytes *)

(* The same stream with every word written out in bytes (values below 256):
   0 for the word zero, otherwise the binary digits of the word, least
   significant first, one per byte (2: digit 0, 3: digit 1), closed by the
   byte 1 for the top digit. Wasteful, but total on N and read back by
   structural recursion. *)
Fixpoint put_pos (p : positive) : bytes :=
  match p with
  | xH => [1]
  | xO q => 2 :: put_pos q
  | xI q => 3 :: put_pos q
  end.

Definition put_word (n : N) : bytes :=
  match n with
  | N0 => [0]
  | Npos p => put_pos p
  end.

Fixpoint get_pos (s : bytes) : option (positive * bytes) :=
  match s with
  | [] => None
  | b :: r =>
      if b =? 1 then Some (xH, r)
      else if b =? 2 then match get_pos r with Some (q, r') => Some (xO q, r') | None => None end
      else if b =? 3 then match get_pos r with Some (q, r') => Some (xI q, r') | None => None end
      else None
  end.

Definition get_word (s : bytes) : option (N * bytes) :=
  match s with
  | [] => None
  | b :: r =>
      if b =? 0 then Some (0, r)
      else match get_pos s with Some (p, r') => Some (Npos p, r') | None => None end
  end.

Definition wire_bytes (w : wire) : bytes := concat (map put_word w).

(* words until the bytes run out; a word takes at least one byte, so the
   length of the input (and one) is fuel enough *)
Fixpoint bytes_wire (fuel : nat) (s : bytes) : option wire :=
  match fuel with
  | O => None
  | S f =>
      match get_word s with
      | Some (n, r) => match bytes_wire f r with Some w => Some (n :: w) | None => None end
      | None => match s with [] => Some [] | _ :: _ => None end
      end
  end.

Definition gob_ser_bytes (w : list wval) : bytes := wire_bytes (gob_ser w).

Definition gob_deser_bytes (b : bytes) : option (list wval) :=
  match bytes_wire (S (length b)) b with
  | Some s => gob_deser s
  | None => None
  end.

Definition gob_encode_bytes (ver : N) (L : list gentry) (s : csess) : result bytes :=
  rbind (gob_encode ver L s) (fun w => Ok (gob_ser_bytes w)).

Definition gob_decode_bytes (load : loader) (L : list gentry) (b : bytes) : result csess :=
  match gob_deser_bytes b with
  | Some w => gob_decode load L w
  | None => Err
  end.

Definition gob_roundtrip_bytes (load : loader) (ver : N) (enc dec : list gentry) (s : csess) : result csess :=
  rbind (gob_encode_bytes ver enc s) (gob_decode_bytes load dec).
