(* Model of ids.go: generateSessionID (16 bytes from crypto/rand, standard
   base64), RandomID (one byte per symbol, `b mod 62`), CUID (timestamp | MAC
   hash | counter, 11 base-62 digits) with Go's uint64/uint16 wrap-around
   written out. Executable, no proofs. The literal constants come from
   Gen/Consts.v, regenerated from the Go source on every run; the base64
   alphabet and the cookie-value rules are transcribed from Go's encoding/base64
   and net/http and compared with the real libraries on every run. *)
From Sessions Require Import Model.Base Gen.Consts.
Local Open Scope N_scope.

(* ------------------------------------------------------------------------ *)
(* encoding/base64: StdEncoding.EncodeToString and DecodeString              *)

(* "ABCDEFGHIJKLMNOPQRSTUVWXYZabcdefghijklmnopqrstuvwxyz0123456789+/" *)
Definition b64_alphabet : bytes :=
  [65;66;67;68;69;70;71;72;73;74;75;76;77;78;79;80;81;82;83;84;85;86;87;88;89;90;
   97;98;99;100;101;102;103;104;105;106;107;108;109;110;111;112;113;114;115;116;
   117;118;119;120;121;122;48;49;50;51;52;53;54;55;56;57;43;47].
Definition b64_pad : N := 61. (* '=' *)

Definition b64_char (i : N) : N := nth (N.to_nat i) b64_alphabet 0.

(* Three bytes give four characters; a rest of one or two bytes is padded. *)
Fixpoint b64_encode (s : bytes) : bytes :=
  match s with
  | [] => []
  | [a] => [b64_char (a / 4); b64_char ((a mod 4) * 16); b64_pad; b64_pad]
  | [a; b] => [b64_char (a / 4); b64_char ((a mod 4) * 16 + b / 16);
               b64_char ((b mod 16) * 4); b64_pad]
  | a :: b :: c :: t =>
      b64_char (a / 4) :: b64_char ((a mod 4) * 16 + b / 16) ::
      b64_char ((b mod 16) * 4 + c / 64) :: b64_char (c mod 64) :: b64_encode t
  end.

(* Position of a byte in a list, counted from i. *)
Fixpoint index_from (c : N) (l : bytes) (i : N) : option N :=
  match l with
  | [] => None
  | x :: t => if x =? c then Some i else index_from c t (i + 1)
  end.
Definition b64_index (c : N) : option N := index_from c b64_alphabet 0.

Fixpoint b64_decode (s : bytes) : option bytes :=
  match s with
  | [] => Some []
  | c0 :: c1 :: c2 :: c3 :: t =>
    match b64_index c0, b64_index c1 with
    | Some i0, Some i1 =>
      if c2 =? b64_pad then
        if c3 =? b64_pad then
          match t with [] => Some [i0 * 4 + i1 / 16] | _ => None end
        else None
      else
        match b64_index c2 with
        | None => None
        | Some i2 =>
          if c3 =? b64_pad then
            match t with
            | [] => Some [i0 * 4 + i1 / 16; (i1 mod 16) * 16 + i2 / 4]
            | _ => None
            end
          else
            match b64_index c3, b64_decode t with
            | Some i3, Some r =>
                Some ((i0 * 4 + i1 / 16) :: ((i1 mod 16) * 16 + i2 / 4) ::
                      ((i2 mod 4) * 64 + i3) :: r)
            | _, _ => None
            end
        end
    | _, _ => None
    end
  | _ => None
  end.

(* ------------------------------------------------------------------------ *)
(* net/http cookie values (cookie.go)                                        *)

(* func validCookieValueByte(b byte) bool: 0x20 <= b && b < 0x7f and b is none
   of double quote (34), semicolon (59), backslash (92). *)
Definition valid_cookie_value_byte (b : N) : bool :=
  (32 <=? b) && (b <? 127) && negb (b =? 34) && negb (b =? 59) && negb (b =? 92).

(* A value containing a space or a comma is written in double quotes. *)
Definition cookie_needs_quotes (b : N) : bool := (b =? 32) || (b =? 44).

(* A byte that is written as it is and does not cause quoting. *)
Definition cookie_safe_byte (b : N) : bool :=
  valid_cookie_value_byte b && negb (cookie_needs_quotes b).

(* sanitizeCookieValue(v, false): invalid bytes are dropped. *)
Definition sanitize_cookie_value (v : bytes) : bytes :=
  let w := filter valid_cookie_value_byte v in
  if existsb cookie_needs_quotes w then 34 :: w ++ [34] else w.

(* parseCookieValue(raw, true) *)
Definition parse_cookie_value (raw : bytes) : option bytes :=
  let inner :=
    if (1 <? N.of_nat (length raw)) && (hd 0 raw =? 34) && (last raw 0 =? 34)
    then removelast (tl raw) else raw in
  if forallb valid_cookie_value_byte inner then Some inner else None.

(* ------------------------------------------------------------------------ *)
(* generateSessionID                                                         *)

(* The stream is what crypto/rand.Reader delivers. rand.Read fills the whole
   buffer or does not return (None). Result: the ID and the unread rest. *)
Definition generate_session_id (stream : bytes) : option (bytes * bytes) :=
  let n := N.to_nat ids_session_bytes in
  if N.of_nat (length stream) <? ids_session_bytes then None
  else Some (b64_encode (firstn n stream), skipn n stream).

(* The guard of Start: only cookie values of this length are looked up. *)
Definition start_guard (id : bytes) : bool := N.of_nat (length id) =? ids_start_guard_len.

(* ------------------------------------------------------------------------ *)
(* RandomID                                                                  *)

(* chars[int(b[0])%len(chars)] *)
Definition rid_symbol (b : N) : N := nth (N.to_nat (b mod ids_rid_modulus)) ids_rid_chars 0.

(* for length > 0 { read one byte; length--; id[length] = symbol }: the first
   byte read ends up last. None: the reader failed or delivered nothing. *)
Fixpoint random_id_loop (n : nat) (stream id : bytes) : option (bytes * bytes) :=
  match n with
  | O => Some (id, stream)
  | S k =>
    match stream with
    | [] => None
    | b :: rest => random_id_loop k rest (rid_symbol b :: id)
    end
  end.
Definition random_id (n : nat) (stream : bytes) : option (bytes * bytes) :=
  random_id_loop n stream [].

(* ------------------------------------------------------------------------ *)
(* CUID                                                                      *)

Definition pow64 : N := 18446744073709551616.
Definition pow16 : N := 65536.
Definition u64 (n : N) : N := n mod pow64.
Definition u16 (n : N) : N := n mod pow16.
(* a - b in uintN arithmetic *)
Definition u64_sub (a b : N) : N := (a mod pow64 + (pow64 - b mod pow64)) mod pow64.
Definition u16_sub (a b : N) : N := (a mod pow16 + (pow16 - b mod pow16)) mod pow16.
(* uint64(x) for x : int64 *)
Definition u64_of_int64 (z : Z) : N := Z.to_N (z mod (Z.of_N pow64)).

(* The integer literals of CUID's body in source order:
   0: 1000  1: 1000000  2: 1  3: 40  4: 1   (timestamp, mask (1 << 40) - 1)
   5: 0 (lastCounter = 0)  6: 0xff
   7: 5 (macHash << 5)  8: 8 (lastCounter >> 8)  9: 0 (spill != 0)  10: 0xffff
   11: 24  12: 8 (assembly)  13: 0  14: 11 (digit loop) *)
Definition lit (i : nat) : N := nth i ids_cuid_literals 0.

(* timestamp := uint64(now.Unix())*1000 - referenceDate + uint64(now.Nanosecond())/1000000
   timestamp &= (1 << 40) - 1 *)
Definition cuid_mask : N := N.shiftl (lit 2) (lit 3) - lit 4.
Definition cuid_timestamp (sec : Z) (nsec : N) : N :=
  let t := u64 (u64_of_int64 sec * lit 0) in
  let t := u64_sub t ids_reference_date in
  let t := u64 (t + u64 nsec / lit 1) in
  N.land t cuid_mask.

(* for _, b := range macAddress { macHash = (macHash << 5) - macHash; macHash += uint16(b) } *)
Definition mac_hash (mac : bytes) : N :=
  fold_left (fun h b => u16 (u16_sub (u16 (N.shiftl h (lit 7))) h + u16 b)) mac 0.

(* counter, spill into the MAC hash, assembly *)
Definition cuid_bits (mac : bytes) (timestamp last_counter : N) : N :=
  let counter := N.land last_counter (lit 6) in
  let h := mac_hash mac in
  let spill := N.shiftr last_counter (lit 8) in
  let h := if negb (spill =? lit 9) then u16 (h + u16 (N.land spill (lit 10))) else h in
  N.lor (N.lor (u64 (N.shiftl timestamp (lit 11))) (u64 (N.shiftl h (lit 12)))) counter.

(* for len := 0; len < 11; len++ { base64 = string(chars[bits%base]) + base64; bits /= base } *)
Definition b62_char (i : N) : N := nth (N.to_nat i) ids_cuid_chars 0.
Fixpoint b62_loop (n : nat) (bits : N) (acc : bytes) : bytes :=
  match n with
  | O => acc
  | S k => b62_loop k (bits / ids_cuid_base) (b62_char (bits mod ids_cuid_base) :: acc)
  end.
Definition cuid_ndigits : nat := N.to_nat (ids_cuid_digits - lit 13).
Definition cuid_string (bits : N) : bytes := b62_loop cuid_ndigits bits [].

Record cuid_state := { cs_last_time : N; cs_last_counter : N }.

(* One call at wall-clock time (Unix seconds, nanoseconds within the second). *)
Definition cuid_step (mac : bytes) (st : cuid_state) (sec : Z) (nsec : N) : cuid_state * bytes :=
  let ts := cuid_timestamp sec nsec in
  let lc := if ts =? cs_last_time st then u64 (cs_last_counter st + 1) else lit 5 in
  ({| cs_last_time := ts; cs_last_counter := lc |}, cuid_string (cuid_bits mac ts lc)).

(* A sequence of calls under the mutex, one after the other. *)
Fixpoint cuid_run (mac : bytes) (st : cuid_state) (times : list (Z * N)) : list bytes :=
  match times with
  | [] => []
  | (sec, nsec) :: r =>
    let '(st', id) := cuid_step mac st sec nsec in id :: cuid_run mac st' r
  end.

Fixpoint cuid_run_state (mac : bytes) (st : cuid_state) (times : list (Z * N)) : cuid_state :=
  match times with
  | [] => st
  | (sec, nsec) :: r => cuid_run_state mac (fst (cuid_step mac st sec nsec)) r
  end.

(* Go's string comparison a < b. *)
Fixpoint lex_lt (a b : bytes) : bool :=
  match a, b with
  | _, [] => false
  | [], _ :: _ => true
  | x :: a', y :: b' => (x <? y) || ((x =? y) && lex_lt a' b')
  end.

(* ------------------------------------------------------------------------ *)
(* correspondence cases                                                      *)

(* One observed call of the real generateSessionID with crypto/rand.Reader
   replaced: what the reader would have delivered (a prefix), how many bytes
   were taken, the ID returned; then http.SetCookie's rendering of the ID as a
   cookie value and what http.Request.Cookie parsed back from it. *)
Record sid_case := {
  sc_offered : bytes; sc_nread : N; sc_id : bytes; sc_wire : bytes; sc_parsed : bytes }.

Definition sid_case_ok (c : sid_case) : bool :=
  match generate_session_id (sc_offered c) with
  | None => false
  | Some (id, rest) =>
    bytes_eqb id (sc_id c) &&
    (N.of_nat (length rest) + sc_nread c =? N.of_nat (length (sc_offered c))) &&
    bytes_eqb (sanitize_cookie_value (sc_id c)) (sc_wire c) &&
    match parse_cookie_value (sc_wire c) with
    | Some v => bytes_eqb v (sc_parsed c) && bytes_eqb v (sc_id c)
    | None => false
    end &&
    start_guard (sc_id c)
  end.

(* The cookie-value model against net/http on arbitrary values: the rendering
   by http.SetCookie (ck_via_set; otherwise the value was put into a Cookie
   header as it is) and the parse by http.Request.Cookie (ck_found = false: the
   cookie was not returned). *)
Record cookie_case := {
  ck_via_set : bool; ck_value : bytes; ck_wire : bytes; ck_found : bool; ck_parsed : bytes }.

Definition cookie_case_ok (c : cookie_case) : bool :=
  (if ck_via_set c then bytes_eqb (sanitize_cookie_value (ck_value c)) (ck_wire c)
   else bytes_eqb (ck_value c) (ck_wire c)) &&
  match parse_cookie_value (ck_wire c) with
  | Some v => ck_found c && bytes_eqb v (ck_parsed c)
  | None => negb (ck_found c)
  end.

(* One observed call of the real RandomID. rc_err: an error was returned. *)
Record rid_case := {
  rc_n : N; rc_offered : bytes; rc_nread : N; rc_err : bool; rc_id : bytes }.

Definition rid_case_ok (c : rid_case) : bool :=
  match random_id (N.to_nat (rc_n c)) (rc_offered c) with
  | None => rc_err c && bytes_eqb (rc_id c) [] &&
            (rc_nread c =? N.of_nat (length (rc_offered c)))
  | Some (id, rest) =>
    negb (rc_err c) && bytes_eqb id (rc_id c) &&
    (N.of_nat (length rest) + rc_nread c =? N.of_nat (length (rc_offered c)))
  end.

(* One observed call of the real CUID: generator state before (set or read
   through the hooks), the time the virtual clock showed, the result, the state
   after. *)
Record cuid_case := {
  cc_mac : bytes; cc_lt : N; cc_lc : N; cc_sec : Z; cc_nsec : N;
  cc_id : bytes; cc_lt' : N; cc_lc' : N }.

Definition cuid_case_ok (c : cuid_case) : bool :=
  let '(st, id) := cuid_step (cc_mac c) {| cs_last_time := cc_lt c; cs_last_counter := cc_lc c |}
                             (cc_sec c) (cc_nsec c) in
  bytes_eqb id (cc_id c) && (cs_last_time st =? cc_lt' c) && (cs_last_counter st =? cc_lc' c).

(* kc_count concurrent calls while the virtual clock stands still: the results,
   sorted, must be those of kc_count calls one after the other, sorted. *)
Record conc_case := {
  kc_mac : bytes; kc_lt : N; kc_lc : N; kc_sec : Z; kc_nsec : N; kc_count : N;
  kc_ids : list bytes; kc_lt' : N; kc_lc' : N }.

(* merge sort of IDs in Go's string order (the harness sorts what it saw) *)
Fixpoint merge_ids (a : list bytes) : list bytes -> list bytes :=
  fix merge_aux (b : list bytes) : list bytes :=
    match a, b with
    | [], _ => b
    | _, [] => a
    | x :: a', y :: b' => if lex_lt y x then y :: merge_aux b' else x :: merge_ids a' b
    end.
Fixpoint merge_pairs (l : list (list bytes)) : list (list bytes) :=
  match l with
  | a :: b :: t => merge_ids a b :: merge_pairs t
  | _ => l
  end.
Fixpoint merge_all (fuel : nat) (l : list (list bytes)) : list bytes :=
  match fuel with
  | O => concat l
  | S f => match l with [] => [] | [a] => a | _ => merge_all f (merge_pairs l) end
  end.
Definition sort_ids (l : list bytes) : list bytes := merge_all (length l) (map (fun x => [x]) l).

Fixpoint ids_eqb (a b : list bytes) : bool :=
  match a, b with
  | [], [] => true
  | x :: a', y :: b' => bytes_eqb x y && ids_eqb a' b'
  | _, _ => false
  end.

Definition conc_case_ok (c : conc_case) : bool :=
  let st := {| cs_last_time := kc_lt c; cs_last_counter := kc_lc c |} in
  let times := repeat (kc_sec c, kc_nsec c) (N.to_nat (kc_count c)) in
  let st' := cuid_run_state (kc_mac c) st times in
  (N.of_nat (length (kc_ids c)) =? kc_count c) &&
  ids_eqb (sort_ids (cuid_run (kc_mac c) st times)) (kc_ids c) &&
  (cs_last_time st' =? kc_lt' c) && (cs_last_counter st' =? kc_lc' c).

Definition sid_mismatches (cs : list sid_case) : list N := failing sid_case_ok cs 0.
Definition cookie_mismatches (cs : list cookie_case) : list N := failing cookie_case_ok cs 0.
Definition rid_mismatches (cs : list rid_case) : list N := failing rid_case_ok cs 0.
Definition cuid_mismatches (cs : list cuid_case) : list N := failing cuid_case_ok cs 0.
Definition conc_mismatches (cs : list conc_case) : list N := failing conc_case_ok cs 0.
