(* Level-0 model of session.go + cache.go: heap of *Session objects, cache (ID ->
   object), store (what the persistence layer was last given, after the codec's
   round trip), pending clean-up goroutines, clock, ID supply, configuration,
   fault plan and event log. Every exported entry point is one total function
   following the Go control flow. Executable, no proofs. DESIGN.md §2.3. *)
From Sessions Require Import Model.Base.

(* ------------------------------------------------------------------ data *)

(* Keys of cache and store: server-generated IDs by ordinal of generation, or a
   24-character value that the server never generated. *)
Inductive key := KGen (n : N) | KJunk (n : N).

Definition key_eqb (a b : key) : bool :=
  match a, b with
  | KGen x, KGen y => N.eqb x y
  | KJunk x, KJunk y => N.eqb x y
  | _, _ => false
  end.

(* What a request presents as session cookie (after net/http's parsing). *)
Inductive cval :=
  | CNone                         (* no cookie with the configured name *)
  | CKey (k : key)                (* a 24-character value *)
  | COther (n : N).               (* any other value, incl. the marker "deleted" *)

(* Remote addresses: a.b.c.d:port, or anything the pattern does not match. *)
Inductive addr := V4 (a b c d p : N) | AOther (n : N).

Definition addr_eqb (x y : addr) : bool :=
  match x, y with
  | V4 a b c d p, V4 a' b' c' d' p' => N.eqb a a' && N.eqb b b' && N.eqb c c' && N.eqb d d' && N.eqb p p'
  | AOther n, AOther m => N.eqb n m
  | _, _ => false
  end.

(* A user object: ID and a version (RefreshUser replaces objects with the same
   ID; the store keeps only the ID, LoadUser yields version 0). *)
Definition user := (N * N)%type.

(* The fields of a Session other than its ID. data = None is Go's nil map. *)
Record rec := mkRec {
  r_created : Z; r_access : Z; r_ip : addr; r_ua : N;
  r_ref : option key; r_user : option user; r_data : option (list (N * N)) }.

(* A *Session: the id field and the rest. *)
Record obj := mkObj { o_id : key; o_rec : rec }.

Record cfg := mkCfg {
  c_expiry : Z;        (* SessionExpiry *)
  c_idexpiry : Z;      (* SessionIDExpiry *)
  c_grace : Z;         (* SessionIDGracePeriod *)
  c_cacheexpiry : Z;   (* SessionCacheExpiry *)
  c_maxcache : Z;      (* MaxSessionCacheSize *)
  c_acceptip : Z;      (* AcceptRemoteIP *)
  c_acceptua : bool;   (* AcceptChangingUserAgent *)
  c_json : bool }.     (* codec of the serialising store: JSON (true) or gob *)

(* Persistence-layer calls, with whether they succeeded. Saves carry the record
   as the store holds it afterwards. *)
Inductive ev :=
  | EvLoad (k : key) (ok : bool)
  | EvLoadUser (u : N) (ok : bool)
  | EvSave (k : key) (r : rec) (ok : bool)
  | EvDelete (k : key) (ok : bool)
  | EvUserSessions (u : N) (ok : bool)
  | EvDraw (n : N).                 (* an ID was generated (not a persistence call) *)

(* Set-Cookie headers: a live session cookie built from the template with this
   ID as value; a proper deletion cookie; anything else (wrong name, changed
   attributes, a value that is not an ID, a deletion that does not expire). *)
Inductive cookie := CkLive (k : key) | CkDelete | CkBad (n : N).

Record st := mkSt {
  heap : list obj;
  cache : list (key * nat);          (* ID -> object (index into heap) *)
  store : list (key * rec);
  graves : list (key * option N);    (* deleted IDs and the user they carried, for a stale user index *)
  pending : list (Z * key);          (* clean-up goroutines: due instant, ID *)
  now : Z;
  supply : N;                        (* ordinal of the next generated ID *)
  conf : cfg;
  plan : list bool;                  (* does the next persistence call fail? *)
  evs : list ev;                     (* newest first *)
  tb : list key }.                   (* tie-break preferences (observed eviction order) *)

Definition set_heap s v := mkSt v (cache s) (store s) (graves s) (pending s) (now s) (supply s) (conf s) (plan s) (evs s) (tb s).
Definition set_cache s v := mkSt (heap s) v (store s) (graves s) (pending s) (now s) (supply s) (conf s) (plan s) (evs s) (tb s).
Definition set_store s v := mkSt (heap s) (cache s) v (graves s) (pending s) (now s) (supply s) (conf s) (plan s) (evs s) (tb s).
Definition set_graves s v := mkSt (heap s) (cache s) (store s) v (pending s) (now s) (supply s) (conf s) (plan s) (evs s) (tb s).
Definition set_pending s v := mkSt (heap s) (cache s) (store s) (graves s) v (now s) (supply s) (conf s) (plan s) (evs s) (tb s).
Definition set_now s v := mkSt (heap s) (cache s) (store s) (graves s) (pending s) v (supply s) (conf s) (plan s) (evs s) (tb s).
Definition set_supply s v := mkSt (heap s) (cache s) (store s) (graves s) (pending s) (now s) v (conf s) (plan s) (evs s) (tb s).
Definition set_conf s v := mkSt (heap s) (cache s) (store s) (graves s) (pending s) (now s) (supply s) v (plan s) (evs s) (tb s).
Definition set_plan s v := mkSt (heap s) (cache s) (store s) (graves s) (pending s) (now s) (supply s) (conf s) v (evs s) (tb s).
Definition set_evs s v := mkSt (heap s) (cache s) (store s) (graves s) (pending s) (now s) (supply s) (conf s) (plan s) v (tb s).
Definition set_tb s v := mkSt (heap s) (cache s) (store s) (graves s) (pending s) (now s) (supply s) (conf s) (plan s) (evs s) v.

Definition init_st (c : cfg) : st := mkSt [] [] [] [] [] 0 0 c [] [] [].

(* ------------------------------------------------------- association lists *)

Fixpoint lookup {A} (l : list (key * A)) (k : key) : option A :=
  match l with
  | [] => None
  | (k', v) :: t => if key_eqb k k' then Some v else lookup t k
  end.

Fixpoint remove {A} (l : list (key * A)) (k : key) : list (key * A) :=
  match l with
  | [] => []
  | (k', v) :: t => if key_eqb k k' then remove t k else (k', v) :: remove t k
  end.

(* replace in place if present, else append (insertion order is kept) *)
Fixpoint upsert {A} (l : list (key * A)) (k : key) (v : A) : list (key * A) :=
  match l with
  | [] => [(k, v)]
  | (k', v') :: t => if key_eqb k k' then (k, v) :: t else (k', v') :: upsert t k v
  end.

Definition has {A} (l : list (key * A)) (k : key) : bool :=
  match lookup l k with Some _ => true | None => false end.

Fixpoint nodup_keys (l : list key) : list key :=
  match l with
  | [] => []
  | k :: t => k :: filter (fun k' => negb (key_eqb k k')) (nodup_keys t)
  end.

(* session data: association list sorted by key, unique keys *)
Fixpoint kv_set (l : list (N * N)) (k v : N) : list (N * N) :=
  match l with
  | [] => [(k, v)]
  | (k', v') :: t =>
    if (k =? k')%N then (k, v) :: t
    else if (k <? k')%N then (k, v) :: (k', v') :: t
    else (k', v') :: kv_set t k v
  end.

Fixpoint kv_del (l : list (N * N)) (k : N) : list (N * N) :=
  match l with
  | [] => []
  | (k', v') :: t => if (k =? k')%N then t else (k', v') :: kv_del t k
  end.

Fixpoint kv_get (l : list (N * N)) (k : N) : option N :=
  match l with
  | [] => None
  | (k', v') :: t => if (k =? k')%N then Some v' else kv_get t k
  end.

(* ------------------------------------------------------------------- heap *)

Definition hget (s : st) (o : nat) : option obj := nth_error (heap s) o.

Fixpoint replace_nth {A} (l : list A) (n : nat) (v : A) : list A :=
  match l, n with
  | [], _ => []
  | _ :: t, O => v :: t
  | x :: t, S m => x :: replace_nth t m v
  end.

Definition hput (s : st) (o : nat) (v : obj) : st := set_heap s (replace_nth (heap s) o v).

Definition halloc (s : st) (v : obj) : st * nat :=
  (set_heap s (heap s ++ [v]), length (heap s)).

(* update the record of an object *)
Definition hupd (s : st) (o : nat) (f : rec -> rec) : st :=
  match hget s o with
  | Some ob => hput s o (mkObj (o_id ob) (f (o_rec ob)))
  | None => s
  end.

Definition set_created r v := mkRec v (r_access r) (r_ip r) (r_ua r) (r_ref r) (r_user r) (r_data r).
Definition set_access r v := mkRec (r_created r) v (r_ip r) (r_ua r) (r_ref r) (r_user r) (r_data r).
Definition set_ip r v := mkRec (r_created r) (r_access r) v (r_ua r) (r_ref r) (r_user r) (r_data r).
Definition set_ua r v := mkRec (r_created r) (r_access r) (r_ip r) v (r_ref r) (r_user r) (r_data r).
Definition set_user r v := mkRec (r_created r) (r_access r) (r_ip r) (r_ua r) (r_ref r) v (r_data r).
Definition set_data r v := mkRec (r_created r) (r_access r) (r_ip r) (r_ua r) (r_ref r) (r_user r) v.

(* -------------------------------------------------------------- the codec *)

Definition second : Z := 1000000000.

(* What a record looks like after being encoded and decoded again. gob: a nil
   data map comes back empty. JSON: additionally instants are kept to the
   second. Both: the user is stored by ID and re-loaded (version 0). *)
Definition codec (c : cfg) (r : rec) : rec :=
  let fl t := if c_json c then (t - t mod second)%Z else t in
  mkRec (fl (r_created r)) (fl (r_access r)) (r_ip r) (r_ua r) (r_ref r)
        (match r_user r with Some (u, _) => Some (u, 0%N) | None => None end)
        (match r_data r with Some d => Some d | None => Some [] end).

(* ----------------------------------------------------- persistence layer *)

Definition next_fault (s : st) : bool * st :=
  match plan s with
  | [] => (false, s)
  | b :: p => (b, set_plan s p)
  end.

Definition log (s : st) (e : ev) : st := set_evs s (e :: evs s).

(* SaveSession(k, obj): true iff it succeeded. *)
Definition p_save (s : st) (k : key) (r : rec) : st * bool :=
  let '(f, s) := next_fault s in
  let r' := codec (conf s) r in
  if f then (log s (EvSave k r' false), false)
  else (log (set_store s (upsert (store s) k r')) (EvSave k r' true), true).

(* DeleteSession(k) *)
Definition p_delete (s : st) (k : key) : st * bool :=
  let '(f, s) := next_fault s in
  if f then (log s (EvDelete k false), false)
  else
    let g := match lookup (store s) k with
             | Some r => upsert (graves s) k (match r_user r with Some (u, _) => Some u | None => None end)
             | None => graves s
             end in
    (log (set_graves (set_store s (remove (store s) k)) g) (EvDelete k true), true).

(* LoadSession(k): None = error; Some None = no such session. Decoding a
   record that carries a user calls LoadUser, which can fail too. *)
Definition p_load (s : st) (k : key) : st * option (option rec) :=
  let '(f, s) := next_fault s in
  if f then (log s (EvLoad k false), None)
  else
    let s := log s (EvLoad k true) in
    match lookup (store s) k with
    | None => (s, Some None)
    | Some r =>
      match r_user r with
      | None => (s, Some (Some r))
      | Some (u, _) =>
        let '(f2, s) := next_fault s in
        if f2 then (log s (EvLoadUser u false), None)
        else (log s (EvLoadUser u true), Some (Some r))
      end
    end.

(* UserSessions(u): deleted IDs that carried u when deleted (a stale index),
   followed by the IDs whose stored record carries u, in store order. *)
Definition user_is (u : N) (x : option user) : bool :=
  match x with Some (v, _) => N.eqb u v | None => false end.

Definition p_usersessions (s : st) (u : N) : st * option (list key) :=
  let '(f, s) := next_fault s in
  if f then (log s (EvUserSessions u false), None)
  else
    let live := map fst (filter (fun kr => user_is u (r_user (snd kr))) (store s)) in
    let dead := map fst (filter (fun kg => match snd kg with Some v => N.eqb u v | None => false end) (graves s)) in
    (log s (EvUserSessions u true), Some (dead ++ live)).

(* ------------------------------------------------------------------ cache *)

Definition obj_access (s : st) (o : nat) : Z :=
  match hget s o with Some ob => r_access (o_rec ob) | None => 0%Z end.

(* Go ranges over the cache map in unspecified order. Where the order shows
   (the order of flush saves; the victim among equally old entries) the model
   follows the tie-break list tb: the IDs of the flush saves in the order the
   real run was observed to make them. Entries named there come first, in that
   order; the rest follow in cache order. *)
Definition order_by_tb (tbl : list key) (entries : list (key * nat)) : list (key * nat) :=
  flat_map (fun k => match lookup entries k with Some o => [(k, o)] | None => [] end) (nodup_keys tbl)
  ++ filter (fun e => negb (existsb (key_eqb (fst e)) tbl)) entries.

Fixpoint drop_first (tbl : list key) (k : key) : list key :=
  match tbl with
  | [] => []
  | k' :: t => if key_eqb k k' then t else k' :: drop_first t k
  end.

Definition is_idle (s : st) (e : key * nat) : bool :=
  (c_cacheexpiry (conf s) <? since (obj_access s (snd e)) (now s))%Z.

(* Idle sweep of compact: entries whose age exceeds SessionCacheExpiry are
   saved under the ID they are cached under and dropped. A failed save aborts
   the whole compaction (result false). *)
Fixpoint sweep (s : st) (entries : list (key * nat)) : st * bool :=
  match entries with
  | [] => (s, true)
  | (k, o) :: t =>
    match hget s o with
    | Some ob =>
      let '(s, ok) := p_save (set_tb s (drop_first (tb s) k)) k (o_rec ob) in
      if ok then sweep (set_cache s (remove (cache s) k)) t else (s, false)
    | None => sweep s t
    end
  end.

(* The entries with minimal access time. *)
Definition min_access (s : st) (entries : list (key * nat)) : option Z :=
  fold_left (fun m e => match m with
                        | None => Some (obj_access s (snd e))
                        | Some z => Some (Z.min z (obj_access s (snd e)))
                        end) entries None.

(* The victim: an entry with minimal access time; among several, the one the
   tie-break list names first, else the first in cache order. *)
Definition pick_victim (s : st) : option (key * nat) :=
  match min_access s (cache s) with
  | None => None
  | Some m =>
    let cands := filter (fun e => (obj_access s (snd e) =? m)%Z) (cache s) in
    match order_by_tb (tb s) cands with
    | e :: _ => Some e
    | [] => None
    end
  end.

(* Size loop of compact. fuel: the cache size (each round drops one entry). *)
Fixpoint evict (fuel : nat) (s : st) (required : Z) : st * bool :=
  match fuel with
  | O => (s, true)
  | S f =>
    if (c_maxcache (conf s) <? Z.of_nat (length (cache s)) + required)%Z then
      match pick_victim s with
      | None => (s, true)
      | Some (k, o) =>
        match hget s o with
        | Some ob =>
          let '(s, ok) := p_save (set_tb s (drop_first (tb s) k)) k (o_rec ob) in
          if ok then evict f (set_cache s (remove (cache s) k)) required else (s, false)
        | None => (s, true)
        end
      end
    else (s, true)
  end.

(* cache.compact(requiredSpace); its error result is discarded by the callers *)
Definition compact (s : st) (required : Z) : st :=
  let '(s, ok) := sweep s (order_by_tb (tb s) (filter (is_idle s) (cache s))) in
  if negb ok then s
  else
    let mx := c_maxcache (conf s) in
    if (mx <? 0)%Z || (Z.of_nat (length (cache s)) + required <=? mx)%Z then s
    else
      let required := if (mx <? required)%Z then mx else required in
      fst (evict (length (cache s)) s required).

(* cache.Get(id): None = error, Some None = no such session *)
Definition cache_get (s : st) (k : key) : st * option (option nat) :=
  match lookup (cache s) k with
  | Some o => (s, Some (Some o))
  | None =>
    let '(s, r) := p_load s k in
    match r with
    | None => (s, None)
    | Some None => (s, Some None)
    | Some (Some r) =>
      let '(s, o) := halloc s (mkObj k r) in
      let s := if (c_maxcache (conf s) =? 0)%Z then s
               else let s := compact s 1 in set_cache s (upsert (cache s) k o) in
      (s, Some (Some o))
    end
  end.

(* cache.Set(session): true iff the write-through save succeeded *)
Definition cache_set (s : st) (o : nat) : st * bool :=
  match hget s o with
  | None => (s, true)
  | Some _ =>
    let s := hupd s o (fun r => set_access r (now s)) in
    match hget s o with
    | None => (s, true)
    | Some ob =>
      let k := o_id ob in
      let required := if has (cache s) k then 0%Z else 1%Z in
      let s := compact s required in
      let s := if (c_maxcache (conf s) =? 0)%Z then s else set_cache s (upsert (cache s) k o) in
      p_save s k (o_rec ob)
    end
  end.

(* cache.Delete(id) *)
Definition cache_delete (s : st) (k : key) : st * bool :=
  p_delete (set_cache s (remove (cache s) k)) k.

(* PurgeSessions(): save everything (errors ignored), then empty the cache *)
Fixpoint purge_saves (s : st) (entries : list (key * nat)) : st :=
  match entries with
  | [] => s
  | (k, o) :: t =>
    match hget s o with
    | Some ob => purge_saves (fst (p_save s k (o_rec ob))) t
    | None => purge_saves s t
    end
  end.

Definition purge (s : st) : st := set_cache (purge_saves s (order_by_tb (tb s) (cache s))) [].

(* ----------------------------------------------------------- session API *)

(* Results of API calls. Errors are identified by call site. *)
Inductive site :=
  | EGet | EDestroy | ERegenSave | ERegenRef | EExpiredID | EDeleteExpired
  | EGetRef | ERefMissing | ERefLoop | ECreate | ESave | ELoginLogout | ELoginSave
  | ELoginRegen | EUserSessions | ECacheGet | ECacheSet | ENoCookie.

Inductive result (A : Type) := Ok (a : A) | Err (e : site) | Panic (e : site).
Arguments Ok {A} _.  Arguments Err {A} _.  Arguments Panic {A} _.

(* saturating Duration sum (the repaired backstop computation) *)
Definition sat_add (a b : Z) : Z := clamp64 (a + b).

(* octet-prefix rule of Start *)
Definition ip_ok (n : Z) (prev cur : addr) : bool :=
  if (1 <? n)%Z then
    match prev, cur with
    | V4 a b c d _, V4 a' b' c' d' _ =>
      if (n <=? 4)%Z then
        (if (2 <=? n)%Z then N.eqb a a' else true) &&
        (if (3 <=? n)%Z then N.eqb b b' else true) &&
        (if (4 <=? n)%Z then N.eqb c c' else true)
      else true
    | _, _ => true
    end
  else true.

Definition ua_ok (accept : bool) (recorded cur : N) : bool :=
  accept || N.eqb recorded 0 || N.eqb recorded cur.

(* Session.Expired() *)
Definition expired (c : cfg) (r : rec) (t : Z) : bool :=
  (match r_ref r with Some _ => true | None => false end && (c_grace c <=? since (r_access r) t)%Z)
  || ((c_expiry c <=? since (r_access r) t)%Z &&
      (sat_add (c_idexpiry c) (c_grace c) <=? since (r_created r) t)%Z).

Definition gen_id (s : st) : st * key :=
  (log (set_supply s (supply s + 1)%N) (EvDraw (supply s)), KGen (supply s)).

(* RegenerateID *)
Definition regenerate (s : st) (o : nat) : st * result unit * list cookie :=
  match hget s o with
  | None => (s, Panic ERegenSave, [])
  | Some ob =>
    let old := o_id ob in
    let '(s, nid) := gen_id s in
    let s := hput s o (mkObj nid (set_created (o_rec ob) (now s))) in
    let '(s, ok) := cache_set s o in
    if negb ok then (s, Err ERegenSave, [])
    else
      match hget s o with
      | None => (s, Panic ERegenSave, [])
      | Some ob =>
        let r := o_rec ob in
        let '(s, ro) := halloc s (mkObj old (mkRec (r_created r) (now s) (r_ip r) (r_ua r) (Some nid) None None)) in
        let '(s, ok) := cache_set s ro in
        if negb ok then (s, Err ERegenRef, [])
        else
          let s := set_pending s (pending s ++ [((now s + c_grace (conf s))%Z, old)]) in
          (s, Ok tt, [CkLive nid])
      end
  end.

(* Session.Destroy; had_cookie: did the request carry the session cookie? *)
Definition destroy (s : st) (o : nat) (had_cookie : bool) : st * result unit * list cookie :=
  match hget s o with
  | None => (s, Panic EDestroy, [])
  | Some ob =>
    let '(s, ok) := cache_delete s (o_id ob) in
    if negb ok then (s, Err EDestroy, []) else (s, Ok tt, [CkDelete])
  end.

(* Following replaced-ID records to the live session (fuelled; the fuel given
   by Start exceeds the number of IDs ever generated). Besides the object
   reached it yields the last key followed (Go's currentID: the referenceID
   used for the final sessions.Get); last is returned when no record was
   followed. *)
Fixpoint follow (fuel : nat) (s : st) (o : nat) (last : key) : st * result (nat * key) :=
  match hget s o with
  | None => (s, Panic EGetRef)
  | Some ob =>
    match r_ref (o_rec ob) with
    | None => (s, Ok (o, last))
    | Some target =>
      match fuel with
      | O => (s, Err ERefLoop)
      | S f =>
        let '(s, r) := cache_get s target in
        match r with
        | None => (s, Err EGetRef)
        | Some None => (s, Err ERefMissing)
        | Some (Some o') => follow f s o' target
        end
      end
    end
  end.

Record request := mkReq { q_cookie : cval; q_create : bool; q_addr : addr; q_ua : N }.

Definition had_cookie (q : request) : bool :=
  match q_cookie q with CNone => false | _ => true end.

Definition create_session (s : st) (q : request) : st * result (option nat) * list cookie :=
  let '(s, nid) := gen_id s in
  let '(s, o) := halloc s (mkObj nid (mkRec (now s) (now s) (q_addr q) (q_ua q) None None (Some []))) in
  let '(s, ok) := cache_set s o in
  if negb ok then (s, Err ECreate, []) else (s, Ok (Some o), [CkLive nid]).

(* Start(response, request, createIfNew) *)
Definition start (s : st) (q : request) : st * result (option nat) * list cookie :=
  let c := conf s in
  (* look-up of 24-character values only *)
  let '(s, found, cks, failed) :=
    match q_cookie q with
    | CKey k =>
      let '(s, r) := cache_get s k in
      match r with
      | None => (s, None, [], true)
      | Some None => (s, None, [CkDelete], false)
      | Some (Some o) => (s, Some (k, o), [], false)
      end
    | _ => (s, None, [], false)
    end in
  if failed then (s, Err EGet, [])
  else
    match found with
    | Some (k, o) =>
      match hget s o with
      | None => (s, Panic EGet, [])
      | Some ob =>
        let r := o_rec ob in
        let valid := negb (c_expiry c <=? since (r_access r) (now s))%Z
                     && ip_ok (c_acceptip c) (r_ip r) (q_addr q)
                     && ua_ok (c_acceptua c) (r_ua r) (q_ua q) in
        if negb valid then
          let '(s, res, dck) := destroy s o (had_cookie q) in
          match res with
          | Ok _ =>
            if q_create q then
              let '(s, res, nck) := create_session s q in (s, res, cks ++ dck ++ nck)
            else (s, Ok None, cks ++ dck)
          | Err e => (s, Err e, cks)
          | Panic e => (s, Panic e, cks)
          end
        else
          let age := since (r_created r) (now s) in
          let isref := match r_ref r with Some _ => true | None => false end in
          (* rotate, or refuse a record past its backstop age *)
          let '(s, step, cks) :=
            if negb isref && (c_idexpiry c <=? age)%Z then
              let '(s, res, rck) := regenerate s o in (s, res, cks ++ rck)
            else if (sat_add (c_idexpiry c) (c_grace c) <=? age)%Z then
              let '(s, ok) := cache_delete s k in
              (s, if ok then Err EExpiredID else Err EDeleteExpired, cks)
            else (s, Ok tt, cks) in
          match step with
          | Err e => (s, Err e, cks)
          | Panic e => (s, Panic e, cks)
          | Ok _ =>
            let '(s, fr) := if isref then follow (S (N.to_nat (supply s))) s o k else (s, Ok (o, k)) in
            match fr with
            | Err e => (s, Err e, cks)
            | Panic e => (s, Panic e, cks)
            | Ok (o', lk) =>
              (* cookie.Value = currentID: the last key followed *)
              let cks := if isref then cks ++ [CkLive lk] else cks in
              let s := hupd s o' (fun r => set_ua (set_ip (set_access r (now s)) (q_addr q)) (q_ua q)) in
              (s, Ok (Some o'), cks)
            end
          end
      end
    | None =>
      if q_create q then
        let '(s, res, nck) := create_session s q in (s, res, cks ++ nck)
      else (s, Ok None, cks)
    end.

(* direct Persistence.SaveSession(s.id, s) of the key/value and logout methods *)
Definition save_direct (s : st) (o : nat) : st * result unit :=
  match hget s o with
  | None => (s, Panic ESave)
  | Some ob => let '(s, ok) := p_save s (o_id ob) (o_rec ob) in (s, if ok then Ok tt else Err ESave)
  end.

(* Session.LogOut() *)
Definition logout (s : st) (o : nat) : st * result unit :=
  match hget s o with
  | None => (s, Panic ESave)
  | Some ob =>
    match r_user (o_rec ob) with
    | None => (s, Ok tt)
    | Some _ => save_direct (hupd s o (fun r => set_user r None)) o
    end
  end.

(* The loop of LogOut(userID) / RefreshUser over the listed IDs. *)
Fixpoint each_user_session (s : st) (ids : list key) (u : option user) : st * result unit :=
  match ids with
  | [] => (s, Ok tt)
  | k :: t =>
    let '(s, r) := cache_get s k in
    match r with
    | None => (s, Err ECacheGet)
    | Some None => each_user_session s t u          (* listed but gone: skipped *)
    | Some (Some o) =>
      let s := hupd s o (fun r => set_user r u) in
      let '(s, ok) := cache_set s o in
      if ok then each_user_session s t u else (s, Err ECacheSet)
    end
  end.

(* LogOut(userID) *)
Definition logout_user (s : st) (u : N) : st * result unit :=
  let '(s, l) := p_usersessions s u in
  match l with
  | None => (s, Err EUserSessions)
  | Some ids => each_user_session s ids None
  end.

(* RefreshUser(user) *)
Definition refresh_user (s : st) (u : user) : st * result unit :=
  let '(s, l) := p_usersessions s (fst u) in
  match l with
  | None => (s, Err EUserSessions)
  | Some ids => each_user_session s ids (Some u)
  end.

(* Session.LogIn(user, exclusive, response) *)
Definition login (s : st) (o : nat) (u : user) (exclusive : bool) : st * result unit * list cookie :=
  let '(s, r1) := if exclusive then logout_user s (fst u)
                  else let '(s, _) := logout s o in (s, Ok tt) in
  match r1 with
  | Err _ => (s, Err ELoginLogout, [])
  | Panic e => (s, Panic e, [])
  | Ok _ =>
    let s := hupd s o (fun r => set_user r (Some u)) in
    let '(s, ok) := cache_set s o in
    if negb ok then (s, Err ELoginSave, [])
    else
      let '(s, r2, cks) := regenerate s o in
      match r2 with
      | Ok _ => (s, Ok tt, cks)
      | Err _ => (s, Err ELoginRegen, cks)
      | Panic e => (s, Panic e, cks)
      end
  end.

(* Handler operations on the session a request was given. *)
Inductive sop :=
  | SSet (k v : N) | SDel (k : N) | SGet (k : N) | SGetDel (k : N)
  | SLogIn (u : user) (exclusive : bool) | SLogOut | SRegen | SDestroy.

(* What a handler operation returned: class, value read, cookies set. *)
Inductive sres :=
  | SOk | SVal (v : option N) | SErr (e : site) | SPanic (e : site).

Definition of_result (r : result unit) : sres :=
  match r with Ok _ => SOk | Err e => SErr e | Panic e => SPanic e end.

Definition data_of (s : st) (o : nat) : option (list (N * N)) :=
  match hget s o with Some ob => r_data (o_rec ob) | None => None end.

Definition do_sop (s : st) (o : nat) (had_ck : bool) (op : sop) : st * sres * list cookie :=
  match op with
  | SSet k v =>
    match data_of s o with
    | None => (s, SPanic ESave, [])            (* assignment to entry in nil map *)
    | Some d =>
      let '(s, r) := save_direct (hupd s o (fun r => set_data r (Some (kv_set d k v)))) o in
      (s, of_result r, [])
    end
  | SDel k =>
    let s := match data_of s o with
             | Some d => hupd s o (fun r => set_data r (Some (kv_del d k)))
             | None => s
             end in
    let '(s, r) := save_direct s o in (s, of_result r, [])
  | SGet k =>
    (s, SVal (match data_of s o with Some d => kv_get d k | None => None end), [])
  | SGetDel k =>
    (* found: delete, then one direct save whose error is dropped (the
       function has no error result); not found / nil map: nothing *)
    match data_of s o with
    | Some d =>
      match kv_get d k with
      | Some v =>
        let s := hupd s o (fun r => set_data r (Some (kv_del d k))) in
        let '(s, _) := save_direct s o in
        (s, SVal (Some v), [])
      | None => (s, SVal None, [])
      end
    | None => (s, SVal None, [])
    end
  | SLogIn u ex => let '(s, r, cks) := login s o u ex in (s, of_result r, cks)
  | SLogOut => let '(s, r) := logout s o in (s, of_result r, [])
  | SRegen => let '(s, r, cks) := regenerate s o in (s, of_result r, cks)
  | SDestroy => let '(s, r, cks) := destroy s o had_ck in (s, of_result r, cks)
  end.

(* ------------------------------------------------------ clean-up goroutines *)

(* Fire every clean-up whose due instant has been reached. *)
Fixpoint fire (s : st) (l : list (Z * key)) : st * list (Z * key) :=
  match l with
  | [] => (s, [])
  | (due, k) :: t =>
    if (due <=? now s)%Z then
      let '(s, _) := cache_delete s k in fire s t
    else
      let '(s, rest) := fire s t in (s, (due, k) :: rest)
  end.

Definition fire_due (s : st) : st :=
  let '(s', rest) := fire (set_pending s []) (pending s) in
  set_pending s' (pending s' ++ rest).
