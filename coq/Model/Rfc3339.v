(* A concrete time.Format / time.Parse for the layout time.RFC3339, as an
   instance of the parameters `fmt_time` / `parse_time` of Model/Codec.v
   (audit task A8). Executable, no proofs; the laws are in
   Proofs/Rfc3339Ok.v.

   The calendar arithmetic is the usual proleptic-Gregorian conversion by
   400-year eras counted from 0000-03-01 (146097 days each). Within RFC 3339's
   domain (local year 0..9999, whole-minute offset) the text is the one Go
   prints: "2006-01-02T15:04:05Z07:00", `Z` for offset 0. The parser accepts
   exactly that shape (no fractional seconds, upper-case T and Z) and refuses
   out-of-range fields, including days beyond the month's length. *)
From Sessions Require Import Model.Base Model.Codec.
Local Open Scope Z_scope.

(* ------------------------------------------------------------- calendar *)

Definition leap (y : Z) : bool :=
  (y mod 4 =? 0) && (negb (y mod 100 =? 0) || (y mod 400 =? 0)).

Definition days_in_month (y m : Z) : Z :=
  if m =? 2 then (if leap y then 29 else 28)
  else if (m =? 4) || (m =? 6) || (m =? 9) || (m =? 11) then 30 else 31.

(* day of era (0 .. 146096, day 0 = March 1 of a year divisible by 400) to
   year within the era (0 .. 400, January and February count to the next
   year), month, day *)
Definition civ_doe (doe : Z) : Z * Z * Z :=
  let yoe := (doe - doe / 1460 + doe / 36524 - doe / 146096) / 365 in
  let doy := doe - (365 * yoe + yoe / 4 - yoe / 100) in
  let mp := (5 * doy + 2) / 153 in
  let d := doy - (153 * mp + 2) / 5 + 1 in
  let m := if mp <? 10 then mp + 3 else mp - 9 in
  (yoe + (if m <=? 2 then 1 else 0), m, d).

(* the inverse: year of era with the year starting in March (0 .. 399) *)
Definition doe_of (yoe m d : Z) : Z :=
  let mp := if 2 <? m then m - 3 else m + 9 in
  yoe * 365 + yoe / 4 - yoe / 100 + (153 * mp + 2) / 5 + d - 1.

(* days since 1970-01-01 to (year, month, day) and back *)
Definition civil_from_days (z : Z) : Z * Z * Z :=
  let z' := z + 719468 in
  let era := z' / 146097 in
  match civ_doe (z' mod 146097) with
  | (y4, m, d) => (era * 400 + y4, m, d)
  end.

Definition days_from_civil (y m d : Z) : Z :=
  let y' := if m <=? 2 then y - 1 else y in
  (y' / 400) * 146097 + doe_of (y' mod 400) m d - 719468.

(* ------------------------------------------------------------ formatting *)

Definition dch (n : Z) : N := Z.to_N (48 + n mod 10).

Definition d2 (n : Z) : bytes := [dch (n / 10); dch n].
Definition d4 (n : Z) : bytes := [dch (n / 1000); dch (n / 100); dch (n / 10); dch n].

(* appendInt(b, year, 4): sign, at least four digits *)
Definition fmt_year (y : Z) : bytes :=
  if (0 <=? y) && (y <? 10000) then d4 y
  else (if y <? 0 then [45%N] else []) ++
       (let s := format_radix 10 (Z.abs_N y) in repeat 48%N (4 - length s)%nat ++ s).

Definition fmt_zone (off : Z) : bytes :=
  if off =? 0 then [90%N]                                   (* Z *)
  else let a := Z.abs off in
       (if off <? 0 then 45%N else 43%N) :: d2 (a / 3600) ++ [58%N] ++ d2 (a / 60 mod 60).

Definition rfc3339_format (t : gtime) : bytes :=
  let l := t_sec t + t_off t in
  let sod := l mod 86400 in
  match civil_from_days (l / 86400) with
  | (y, m, d) =>
      fmt_year y ++ [45%N] ++ d2 m ++ [45%N] ++ d2 d ++ [84%N] ++
      d2 (sod / 3600) ++ [58%N] ++ d2 (sod / 60 mod 60) ++ [58%N] ++ d2 (sod mod 60) ++
      fmt_zone (t_off t)
  end.

(* --------------------------------------------------------------- parsing *)

Definition is_dig (c : N) : bool := in_rng 48 57 c.
Definition dv (c : N) : Z := Z.of_N c - 48.

Definition rd2 (a b : N) : option Z :=
  if is_dig a && is_dig b then Some (10 * dv a + dv b) else None.
Definition rd4 (a b c d : N) : option Z :=
  if is_dig a && is_dig b && is_dig c && is_dig d
  then Some (1000 * dv a + 100 * dv b + 10 * dv c + dv d) else None.

Definition parse_zone (s : bytes) : option Z :=
  match s with
  | [z] => if N.eqb z 90 then Some 0 else None
  | [sg; h1; h2; c; m1; m2] =>
      match rd2 h1 h2, rd2 m1 m2 with
      | Some h, Some m =>
          if N.eqb c 58 && (h <? 24) && (m <? 60)
          then if N.eqb sg 43 then Some (h * 3600 + m * 60)
               else if N.eqb sg 45 then Some (- (h * 3600 + m * 60))
               else None
          else None
      | _, _ => None
      end
  | _ => None
  end.

Definition rfc3339_parse (s : bytes) : option gtime :=
  match s with
  | y1 :: y2 :: y3 :: y4 :: c1 :: m1 :: m2 :: c2 :: d1 :: d2' :: ct ::
    h1 :: h2 :: c3 :: i1 :: i2 :: c4 :: s1 :: s2 :: zone =>
      match rd4 y1 y2 y3 y4, rd2 m1 m2, rd2 d1 d2', rd2 h1 h2, rd2 i1 i2, rd2 s1 s2, parse_zone zone with
      | Some y, Some m, Some d, Some hh, Some mi, Some ss, Some off =>
          if N.eqb c1 45 && N.eqb c2 45 && N.eqb ct 84 && N.eqb c3 58 && N.eqb c4 58 &&
             (1 <=? m) && (m <=? 12) && (1 <=? d) && (d <=? days_in_month y m) &&
             (hh <? 24) && (mi <? 60) && (ss <? 60)
          then Some (mkTime (days_from_civil y m d * 86400 + hh * 3600 + mi * 60 + ss - off) 0 off)
          else None
      | _, _, _, _, _, _, _ => None
      end
  | _ => None
  end.

(* ------------------------------ the parameters of Model/Codec.v, instantiated *)

(* t.Format(layout) / time.Parse(layout, s) for the one layout the package
   uses (the tables name it by its Go identifier); any other layout gives the
   empty text / an error. *)
Definition lib_fmt_time (lay : bytes) (t : gtime) : bytes :=
  if bytes_eqb lay lay_rfc3339 then rfc3339_format t else [].

Definition lib_parse_time (lay s : bytes) : option gtime :=
  if bytes_eqb lay lay_rfc3339 then rfc3339_parse s else None.
